"""Property table and the generic check procedure (DESIGN.md section 2.5)."""
import sys, os, json, time, random, collections, re
import infra
from infra import V, parse_out
import props
import special

TRUSTED_BASE = [
    'Coq 8.16.1 kernel and coqc (vm_compute used in finite-table lemmas and examples; no native_compute)',
    'no axioms: every theorem in Properties/*.v prints "Closed under the global context"',
    'translator gfsgen (Go go/parser + regexp/syntax -> Coq terms): regexes, pad tables, option constants, storage.go statement programs, shared-write table, fastwalk coordinator loop, seqinfo stage list',
    'byte-level reading of the regular expressions (captures start/end on ASCII bytes only)',
    'extraction: Require Extraction + ExtrOcamlBasic only (bool/option/unit/list/prod/sumbool/sumor mapped; nat/Z/positive/ascii/string kept as extracted inductives); OCaml 4.13.1; harness/ocaml/driver.ml',
    'Go driver harness/go (built with -tags verif from the working tree) and this orchestrator (comparison, oracles)',
    'modelled, not verified: Go regexp engine, strconv, fmt, sort, text/template, path/filepath, os; float64 Len below 2^53; int overflow',
]


class Prop:
    def __init__(self, pid, title, cases, oracle, level='proof', need_root=False, extra_lines=None,
                 extra_oracle=None, compare=None, multiset=False, group_oracle=None, rule='', special=None,
                 partial=''):
        self.pid = pid
        self.title = title
        self.cases = cases
        self.oracle = oracle
        self.level = level
        self.need_root = need_root
        self.extra_lines = extra_lines
        self.extra_oracle = extra_oracle
        self.compare = compare
        self.multiset = multiset
        self.group_oracle = group_oracle
        self.rule = rule
        self.special = special
        self.partial = partial


PROPS = {}


def register(p):
    PROPS[p.pid] = p


def canon_listing(s):
    """listing lines are compared as multisets of records"""
    toks = s.split(' ')
    return toks[0] + ' ' + ' '.join(sorted(toks[1:]))


def default_compare(c, impl_line, model_line, multiset):
    """correspondence on the observables: every key the implementation prints"""
    if multiset or c.get('op') == 'list':
        a, b = canon_listing(impl_line), canon_listing(model_line)
        return [] if a == b else ['listing differs']
    ist, ikv, ibare = parse_out(impl_line)
    mst, mkv, mbare = parse_out(model_line)
    d = []
    if ist != mst:
        d.append('status impl=%s model=%s' % (ist, mst))
    for k, v in ikv.items():
        if k.startswith('M_'):
            continue           # measurements of the implementation
        if k in mkv and mkv[k] != v:
            d.append('%s impl=%s model=%s' % (k, v[:60], mkv[k][:60]))
        elif k not in mkv and ist == mst:
            d.append('%s missing in model output' % k)
    if ibare != mbare and ist == mst:
        d.append('tokens differ')
    return d


def spec_fields(model_line):
    st, kv, bare = parse_out(model_line)
    return {k: v for k, v in kv.items() if k.startswith('S_')}


def split_order(il):
    """strip the ' M_order=...' measurement the disk ops append; returns (line, [names] or None)"""
    i = il.find(' M_order=')
    if i < 0:
        return il, None
    o = il[i + 9:]
    names = [] if o == '-' else [infra.unhx(x).decode('latin-1') for x in o.split(',')]
    return il[:i], names


def run_cases(prop, cases):
    lines = [c['line'] for c in cases]
    impl = infra.run_driver(V + '/bin/godriver', lines, need_root=prop.need_root)
    mlines = lines
    if prop.need_root:
        # the model is run on the directory entries in the order Readdir reported them
        mlines, impl2 = [], []
        for c, il in zip(cases, impl):
            il, order = split_order(il)
            impl2.append(il)
            c['order'] = order
            mlines.append(props.reorder_line(c, order) if order else c.get('model_line', c['line']))
        impl = impl2
    model = infra.run_driver(V + '/bin/mldriver', mlines)
    return impl, model


def evaluate(prop, cases, impl, model):
    """returns (failures, disagreements): lists of (case, [messages])"""
    failures, disagreements = [], []
    for c, il, ml in zip(cases, impl, model):
        c['impl'] = il
        c['model'] = ml
        c['spec'] = spec_fields(ml)
        if il.split(' ')[0] == 'HANG-SKIPPED':
            # the driver stopped calling the library after several calls that never returned (each of
            # those is reported as HANG): this case was not evaluated
            c['nontrivial'] = False
            continue
        cmpf = prop.compare or default_compare
        d = cmpf(c, il, ml, prop.multiset) if prop.compare is None else prop.compare(c, il, ml)
        if d:
            disagreements.append((c, d))
        try:
            f = prop.oracle(c, il if (prop.multiset or getattr(prop, 'raw_oracle', False)) else parse_out(il))
        except Exception as e:  # an oracle that cannot read the output is a failure to report, not to hide
            f = ['oracle could not read the implementation output: %r (%s)' % (e, il[:120])]
        if f:
            failures.append((c, f))
    return failures, disagreements


def shrink_note(c):
    return dict(input=c['text'], line=c['line'], impl=c.get('impl', '')[:2000], model=c.get('model', '')[:2000])


def collect_generic(pid, prop, tier, seed, b):
    """generic driver-based exploration: returns (cases, impl_lines, failures, disagreements)"""
    rng = random.Random(seed * 1000003 + int(pid[1:]))
    cases = []
    cdir = '%s/corpus/%s' % (V, pid)
    if os.path.isdir(cdir) and hasattr(prop, 'corpus_case'):
        for fn in sorted(os.listdir(cdir)):
            for ln in open(os.path.join(cdir, fn)):
                ln = ln.rstrip('\n')
                if ln and not ln.startswith('#'):
                    cases.append(prop.corpus_case(ln))
    cases += prop.cases(rng, tier)
    failures, disagreements, impl = [], [], []
    have_drivers = os.path.exists(V + '/bin/godriver') and os.path.exists(V + '/bin/mldriver') and b.go_ok
    if have_drivers:
        impl, model = run_cases(prop, cases)
        failures, disagreements = evaluate(prop, cases, impl, model)
        n_x, bad_x, msg_x = infra.incoq_crosscheck([c['line'] for c in cases], model, 60 if tier == 'quick' else 400)
        prop.xcheck = dict(in_coq_cases=n_x, in_coq_mismatches=bad_x)
        if bad_x != 0 and n_x:
            prop.xproblem = ('extraction', msg_x or '%d of %d cases differ between vm_compute inside Coq and the extracted OCaml driver' % (bad_x, n_x))
        if prop.extra_lines:
            raw = getattr(prop, 'raw_oracle', False)
            ex_cases, ex_lines = [], []
            for c, il in zip(cases, impl):
                el = prop.extra_lines(c, il if raw else parse_out(il))
                if el:
                    ex_cases.append((c, len(ex_lines), len(el)))
                    ex_lines += el
            ex_impl = infra.run_driver(V + '/bin/godriver', ex_lines)
            for c, off, n in ex_cases:
                f = prop.extra_oracle(c, c['impl'] if raw else parse_out(c['impl']),
                                      ex_impl[off:off + n] if raw else [parse_out(x) for x in ex_impl[off:off + n]])
                if f:
                    failures.append((c, f))
        if prop.group_oracle:
            failures += prop.group_oracle(cases)
    return cases, impl, failures, disagreements


def run_check(pid, prop, tier, seed):
    t0 = time.time()
    b = infra.build()
    hyg = infra.hygiene()
    ps = infra.proof_status(pid)
    extra_cov = {}
    if prop.special:
        cases, impl, failures, disagreements, extra_cov = prop.special(pid, prop, tier, seed, b)
    else:
        cases, impl, failures, disagreements = collect_generic(pid, prop, tier, seed, b)
    return finish(pid, prop, tier, seed, t0, b, hyg, ps, cases, impl, failures, disagreements, extra_cov)


def finish(pid, prop, tier, seed, t0, b, hyg, ps, cases, impl, failures, disagreements, extra_cov):
    problems = []          # (kind, text) that break the proof / the tie
    if not b.gen_ok:
        problems.append(('translator', b.gen_msg))
    if not b.go_ok:
        problems.append(('go-build', b.go_msg))
    if not b.make_ok:
        # a file that no longer compiles concerns this property when its theorems, the model driver or
        # the extraction depend on it; unrelated files (another property's proofs) do not
        roots = ['theories/Model/Driver.v']          # Extract/Extract.v imports Driver only
        if os.path.exists('%s/theories/Properties/%s.v' % (infra.COQ, pid)):
            roots.append('theories/Properties/%s.v' % pid)
        clo = infra.coq_closure(roots)
        mine = b.failed_files if (clo is None or not b.failed_files) else [f for f in b.failed_files if f in clo]
        if mine or 'extraction/ocaml build failed' in b.make_msg:
            problems.append(('coq-build', 'files that no longer compile: %s\n%s' % (', '.join(mine), b.make_msg[-1200:])))
        else:
            extra_cov['unrelated_coq_failures'] = b.failed_files
    if hyg:
        problems.append(('hygiene', '; '.join(hyg)))
    if prop.level == 'proof' and not ps['ok']:
        problems.append(('proof', ps['msg']))
    for k, t in extra_cov.pop('problems', []):
        problems.append((k, t))
    if getattr(prop, 'xproblem', None):
        problems.append(prop.xproblem)
    if getattr(prop, 'xcheck', None):
        extra_cov['extraction_crosscheck'] = prop.xcheck
    # known findings
    findings = infra.load_findings()
    known_hits = collections.OrderedDict()
    new_failures = []
    for c, f in failures:
        hit = None
        for kf in findings:
            if infra.finding_matches(kf, pid, c, f):
                hit = kf
                break
        if hit:
            known_hits.setdefault(hit['id'], (hit, c))
        else:
            new_failures.append((c, f))
    failing_lines = set(c['line'] for c, _ in failures)
    pure_disagreements = [(c, d) for c, d in disagreements if c['line'] not in failing_lines]
    for hid, (kf, c) in known_hits.items():
        print('KNOWN-FINDING: property=%s %s (e.g. %s)' % (pid, kf['what_fails'], c['text'][:100]))
    rc = 0
    violations = 0
    if new_failures:
        new_failures.sort(key=lambda cf: len(cf[0]['line']))
        c, f = new_failures[0]
        rp = infra.write_replay(pid, dict(property=pid, kind='failing-input', seed=seed, tier=tier,
                                          case=shrink_note(c), what_fails=f[:5],
                                          others=[shrink_note(x[0]) for x in new_failures[1:6]],
                                          n_failing=len(new_failures)))
        print('VIOLATION property=%s replay=%s' % (pid, rp))
        print('  %s: %s' % (c['text'][:200], f[0][:300]))
        rc = 1
        violations = len(new_failures)
    elif problems or pure_disagreements:
        rp = infra.write_replay(pid, dict(property=pid, kind='proof-or-tie-broken', seed=seed, tier=tier,
                                          broken=[dict(kind=k, detail=t[:3000]) for k, t in problems],
                                          theorems=ps['theorems'],
                                          disagreements=[dict(shrink_note(c), diff=d[:4]) for c, d in pure_disagreements[:10]],
                                          n_disagreements=len(pure_disagreements),
                                          searched=len(cases)))
        print('VIOLATION property=%s replay=%s no-failing-input-found' % (pid, rp))
        for k, t in problems[:3]:
            print('  broken: %s: %s' % (k, t.strip().split('\n')[0][:300]))
        if pure_disagreements:
            c, d = pure_disagreements[0]
            print('  model/implementation disagree on %s: %s' % (c['text'][:160], d[0][:200]))
        rc = 1
        violations = max(1, len(pure_disagreements))
    # evidence
    shapes = collections.Counter(c['shape'] for c in cases)
    distinct = len(set(c['line'] for c in cases if c.get('nontrivial', True)))
    statuses = collections.Counter(x.split(' ')[0] for x in impl)
    samples = [dict(input=c['text'][:200], impl=c.get('impl', '')[:300]) for c in cases[:: max(1, len(cases) // 6)][:6]]
    cov = dict(
        obligations=len(ps['theorems']), discharged=len([n_ for n_ in ps['theorems'] if n_ in ps['closed']]) if ps['ok'] else 0,
        checker_cmd='make -C /verif/coq (coq_makefile, full .vo) + coqc Properties/%s.v with Print Assumptions' % pid,
        trusted_base=TRUSTED_BASE,
        theorems=ps['theorems'], axioms=ps['open'], examples=ps['examples'],
        evaluations=len(cases), distinct_nontrivial=distinct,
        rule=prop.rule or 'generated by lib/props.py from seed; distinct protocol lines whose generator marks them non-trivial',
        samples=samples, input_distribution=dict(shapes), impl_status=dict(statuses),
        programs=max(1, len(cases)), disagreements_checked=len(cases), disagreements=len(pure_disagreements),
        known_findings_reproduced=list(known_hits.keys()),
        partial=prop.partial)
    cov.update(extra_cov)
    if cov['discharged'] < 1 or cov['obligations'] < 1:
        # the schema's proof keys require >= 1; a run in which the theorems do not check reports them under other names
        cov['obligations_found'] = cov.pop('obligations')
        cov['discharged_now'] = cov.pop('discharged')
    ev = dict(property_id=pid, tier=tier, seed=seed, level=prop.level, coverage=cov,
              assumptions=TRUSTED_BASE, wall_s=round(time.time() - t0, 2), violations=violations)
    infra.write_evidence(pid, ev)
    print('%s %s: %d theorems (%s), %d cases, %d oracle failures (%d known), %d disagreements, %.1fs' % (
        pid, tier, len(ps['theorems']), 'all closed' if ps['ok'] else ('none: ' + prop.level.replace('_', ' ') if prop.level != 'proof' and not ps['theorems'] else 'NOT OK'), len(cases), len(failures),
        len(failures) - len(new_failures), len(pure_disagreements), time.time() - t0))
    return rc


def replay(pid, prop, path):
    obj = json.load(open(path))
    if prop.special:
        # tool / schedule / stress checks: re-run the check with the recorded seed and tier; the
        # recorded case is printed for comparison
        print('recorded:', json.dumps(obj.get('case', obj.get('broken', '')))[:1500])
        return run_check(pid, prop, obj.get('tier', 'quick'), obj.get('seed', 20260930))
    b = infra.build()
    if obj.get('kind') == 'failing-input':
        ln = obj['case']['line']
        impl = infra.run_driver(V + '/bin/godriver', [ln], need_root=prop.need_root)[0]
        model = infra.run_driver(V + '/bin/mldriver', [ln])[0]
        print('input :', obj['case']['input'])
        print('impl  :', impl[:1500])
        print('model :', model[:1500])
        print('was   :', obj['case']['impl'][:1500])
        print('failed:', obj['what_fails'])
        same = impl == obj['case']['impl']
        print('implementation output %s the recorded failing output' % ('still equals' if same else 'differs from'))
        return 1 if same else 0
    ps = infra.proof_status(pid)
    print('theorems:', ps['theorems'], 'ok' if ps['ok'] else 'BROKEN: ' + ps['msg'])
    if not b.make_ok:
        print(b.make_msg[-1500:])
    return 0 if (ps['ok'] and b.make_ok and b.gen_ok) else 1


# ---------------------------------------------------------------- table

register(Prop('C10', 'pad characters <-> widths', props.c10_cases, props.c10_oracle,
              rule='all widths in the tier range x both styles; all {#,@} strings up to the tier length; token table; random style-switch histories'))
register(Prop('C13', 'range containers = enumerations', props.c13_cases, props.c13_oracle,
              extra_lines=props.c13_extra_lines, extra_oracle=props.c13_extra_oracle,
              rule='exhaustive (start,end,step) cube; AppendUnique histories over a 38-triple alphabet; random long/translated histories'))
register(Prop('C01', 'range strings expand to the denoted list', props.c01_cases, props.c01_oracle,
              rule='grammar-driven strings with decoration, a malformed stream of 14 kinds, token sweep'))
register(Prop('C02', 'FrameSet views agree', props.c02_cases, props.c02_oracle,
              rule='accepted grammar strings; per set all indices in [-2,len+2] and all integers in [min-2,max+2]'))
register(Prop('C08', 'Normalize / Invert', props.c08_cases, props.c08_oracle,
              rule='gap patterns over [0,K] in several orders plus grammar strings'))
register(Prop('C09', 'FramesToFrameRange right-inverse', props.c09_cases, props.c09_oracle,
              rule='permutations of small subsets, planted constant-stride runs, zfill 0..6'))
register(Prop('C11', 'PadFrameRange changes only leading zeros', props.c11_cases, props.c11_oracle,
              rule='valid, malformed and partially invalid range strings x widths -1..8'))
register(Prop('C03', 'sequence string decomposes losslessly', props.c03_cases, props.c03_oracle,
              rule='tuples (dir, base, range, pad token, ext, style) drawn from the unambiguous domain'))
register(Prop('C04', 'Frame / Index yield real paths', props.c04_cases, props.c04_oracle,
              rule='sequences with probes; concrete single-file paths with zero-padding / sign / extension shapes'))
register(Prop('C12', 'setters, Copy, Split', props.c12_cases, props.c12_oracle, multiset=False,
              rule='random setter histories (length <= 8) from both styles, observed in full, plus Copy and Split'))
PROPS['C12'].raw_oracle = True

def _raw(p):
    p.raw_oracle = True
    return p

register(_raw(Prop('C05', 'listing is an exact cover', props.c05_cases, props.c05_oracle, compare=props.c05_compare,
              group_oracle=props.c05_group_oracle, partial='order-independence of the result strings for uniform widths is not yet a theorem (checked on permuted inputs)',
              rule='generated file sets (dirs x basenames x extensions x width policies x signs x hidden x frame-less), each in 5 option/order variants')))
register(_raw(Prop('C06', 'directory scan = listing of its non-directory entries', props.c06_cases, props.c06_oracle, need_root=True,
              multiset=True, extra_lines=props.c06_extra_lines, extra_oracle=props.c06_extra_oracle, partial='the operating system (Readdir, Stat) is an oracle value observed on real temporary directories',
              rule='real temporary directories with files, sub-directories, links to files / directories, dangling links, hidden entries x 6 spellings x option subsets')))
register(_raw(Prop('C07', 'FindSequenceOnDisk', props.c07_cases, props.c07_oracle, need_root=True, multiset=False,
              partial='the operating system is an oracle value',
              rule='real directories: target sequence + adversarial siblings x patterns (pad tokens, range, concrete frame, no pad) x styles x StrictPadding')))
register(Prop('C14', 'huge ranges answered arithmetically', props.c14_cases, props.c14_oracle,
              partial='time and allocation of the implementation are measured (1 MiB / 2 s per case), not proved',
              rule='single-component ranges with |A|,|B| up to 1e13, steps up to 1e6, queries at boundaries / interior / non-members'))
register(_raw(Prop('C15', 'no input crashes the API; IsFrameRange = parser', props.c15_cases, props.c15_oracle, special=special.c15_special,
              partial='Format with arbitrary templates, Frame with arbitrary values and the stdlib are outside the model: covered by native fuzzing (go test -fuzz) only',
              rule='mutated grammar-derived byte strings (numbers capped at 4 digits) through 8 entry points')))

register(Prop('C18', 'seqinfo reports the library parse', None, None, special=special.c18_special,
              partial='JSON well-formedness and the printers are observed, not proved; --format goes through text/template (the reformatted string is taken from the library)',
              rule='invocations of the built seqinfo binary: 1..64 patterns incl. duplicates/malformed, args vs stdin, option subsets, each run twice'))

register(Prop('C17', 'seqls lists every selected file exactly once', None, None, special=special.c17_special,
              partial='the Go scheduler and channel semantics enter as modelled (buffered FIFO channels, select = any enabled case, atomic cache lookup-and-insert): the worker pipeline, the fastwalk coordinator (translated from the source) and the walk under any schedule are proved as transition systems; the binary is observed on generated trees',
              rule='generated trees in 7 modes (plain, narrow spines x12 repetitions, leaf links, nested links, aliased/cyclic links for termination only, chains of relative links through a second tree) with hidden dirs/files and empty dirs x flag subsets x mixed arguments x GOMAXPROCS x workers 1/2/50, each run at least twice; every schedule of the translated fastwalk coordinator on small trees'))

register(Prop('C19', 'the C++ port computes the same results', None, None, special=special.c19_special, level='translation_validation',
              partial='no for-all statement about the C++ code: the port is compared, on generated inputs of the shared domain, with the Go library AND with the extracted Coq model whose theorems (C01-C04, C08-C11) then describe the port on those inputs',
              rule='grammar-driven ranges (+ token sweep), frame lists, pad widths/tokens, sequence tuples of the unambiguous domain, directories of uniformly padded sequences x option subsets; Go vs C++ vs the extracted Coq model on projected observables'))
PROPS['C19'].technique = 'translation validation: differential run of the C++ port against the Go library and against the extracted Coq model (which carries the theorems)'

register(Prop('C20', 'handle table keeps an object alive exactly while referenced', None, None, special=special.c20_special,
              partial='the xorshift full-period claim is a Section hypothesis; the Go memory model (atomics, RWMutex) is represented by atomic blocks',
              rule='disciplined histories of Add/Incref/Decref/Get/Len over up to 8 handles and 8 threads, each under a random schedule replayed on the implementation through yield hooks; all interleavings of small two-owner histories; single-threaded histories with stale handles; race-detector stress'))

register(Prop('C16', 'independent calls are safe to run concurrently', None, None, special=special.c16_special,
              partial="gfsgen's syntactic effect analysis and the Go memory model are trusted; validated by the race detector on fresh processes",
              rule='fresh -race processes: 2..64 goroutines each issuing 3..40 random API calls on their own values from a cold start, results compared with a sequential re-run'))
