"""Checks that do not fit the one-line-per-case driver protocol: the command-line
tools (C17, C18), concurrency (C16, C20) and the C++ port (C19)."""
import os, re, json, random, subprocess, collections, shutil, tempfile, time
import infra, gens, props
from infra import V, REPO, GOENV, line, hx, unhx


def go_build(pkg, out, tags='verif', race=False):
    cmd = 'cd %s && go build %s -tags %s -o %s %s' % (REPO, '-race' if race else '', tags, out, pkg)
    rc, o = infra.sh(cmd, env=dict(GOENV))
    return rc == 0, o[-1500:]


# ------------------------------------------------------------------ C18 seqinfo

SI_TEMPLATES = ['{{dir}}{{base}}{{frange}}{{pad}}{{ext}}', '{{base}}{{frange}}{{pad}}{{ext}}',
                '{{dir}}x_{{base}}{{frange}}{{pad}}{{ext}}', '{{', '{{nope}}', '{{len}}', '/q/{{base}}{{startf}}-{{endf}}{{pad}}{{ext}}']


def si_pattern(rng):
    k = rng.random()
    if k < 0.6:
        d, b, r, frames, p, e, st = props.seq_tuple(rng)
        return d + b + r + p + e
    if k < 0.8:
        return gens.directory(rng) + gens.basename(rng) + str(rng.randint(0, 9999)).rjust(rng.choice([1, 4, 4, 6]), '0') + gens.extension(rng)
    if k < 0.9:
        return rng.choice(['#', 'foo#bar@', 'a.1-5x0#.e', 'x.99999999999999999999#.e', 'noext', '.e', '/', 'a b.1-3@.c', '\xc3\xa9.1-2#.x',
                           'foo.1-5,8-10#.exr', 'foo.10-1#.exr', 'f.1-10y3@@.e', "q'.1#.e", 'w".1#.e', '<UDIM>.e', 'a&b.1-2#.e', 'foo.-0.exr'])
    return props.mutate(rng, 'foo.1-10x2#.exr')


def c18_special(pid, prop, tier, seed, b):
    rng = random.Random(seed * 1000003 + 18)
    ok, msg = go_build('./cmd/seqinfo', V + '/bin/seqinfo', tags='verif')
    problems = []
    if not ok:
        return [], [], [], [], dict(problems=[('go-build', 'seqinfo does not build: ' + msg)])
    n = 150 if tier == 'quick' else 4000
    invocations = []
    for i in range(n):
        npat = rng.choice([1, 1, 2, 3, 5, 8, 12]) if tier == 'quick' else rng.choice([1, 2, 3, 5, 8, 16, 33, 64])
        pats = [si_pattern(rng) for _ in range(npat)]
        def utf8(p):
            try:
                p.encode('latin-1').decode('utf-8')
                return True
            except UnicodeDecodeError:
                return False
        pats = [p for p in pats if p != '' and '\n' not in p and '\r' not in p and '\x00' not in p and utf8(p)]
        if rng.random() < 0.4 and pats:
            pats += [rng.choice(pats) for _ in range(rng.randint(1, 3))]      # duplicates
        if not pats:
            pats = ['foo.1#.e']
        o = dict(h1=int(rng.random() < 0.3), d='', b='', r='', p='', e='', inv=0, idx='N', fr='N', tpl='')
        if rng.random() < 0.25:
            o['d'] = rng.choice(['/new/dir', '/new/dir/', 'rel'])
        if rng.random() < 0.25:
            o['b'] = rng.choice(['nb.', 'other_', 'x'])
        if rng.random() < 0.3:
            o['r'] = rng.choice(['1-5', '10-1x2', '3', '1-10:3', 'bad', '1-5x0', '2,4,6'])
        if rng.random() < 0.25:
            o['p'] = rng.choice(['#', '@@', '%03d', '$F2', '##@'])
        if rng.random() < 0.25:
            o['e'] = rng.choice(['.jpg', 'jpg', '.tar.gz'])
        if rng.random() < 0.2:
            o['tpl'] = rng.choice(SI_TEMPLATES)
        if rng.random() < 0.25:
            o['inv'] = 1
        if rng.random() < 0.3:
            o['idx'] = str(rng.choice([0, 1, 2, -1, 5, 100]))
        if rng.random() < 0.3:
            o['fr'] = str(rng.choice([0, 1, 7, -3, 1001]))
        use_json = rng.random() < 0.6
        via_stdin = rng.random() < 0.4 or any(p.startswith('-') for p in pats)
        # stdin framing: LF-terminated, last line unterminated, CRLF, blank lines in between
        framing = rng.choice(['lf', 'lf', 'nofinal', 'crlf', 'blank']) if via_stdin else 'args'
        invocations.append(dict(pats=pats, o=o, json=use_json, stdin=via_stdin, id=i, framing=framing))
    # 1. run the binary (twice each: the content must not depend on the order in which the parses finish)
    def run_bin(inv):
        o = inv['o']
        args = [V + '/bin/seqinfo']
        if o['h1']:
            args.append('--hash1')
        for flag, key in (('-d', 'd'), ('-b', 'b'), ('-r', 'r'), ('-p', 'p'), ('-e', 'e')):
            if o[key]:
                args += [flag, o[key]]
        if o['tpl']:
            args += ['--format', o['tpl']]
        if o['inv']:
            args.append('--inverted')
        if o['idx'] != 'N':
            args += ['-i', o['idx']] if not o['idx'].startswith('-') else ['--index=' + o['idx']]
        if o['fr'] != 'N':
            args += ['-f', o['fr']] if not o['fr'].startswith('-') else ['--frame=' + o['fr']]
        if inv['json']:
            args.append('-j')
        stdin_data = b''
        if inv['stdin']:
            fr = inv['framing']
            sep = {'crlf': '\r\n', 'blank': '\n\n'}.get(fr, '\n')
            stdin_data = (sep.join(inv['pats']) + ('' if fr == 'nofinal' else sep)).encode('latin-1')
        else:
            args += [p.encode('latin-1') for p in inv['pats']]
        try:
            if inv['stdin'] and inv['id'] % 3 == 0:
                # `seqinfo < list.txt`: stdin is a redirected regular file, not a pipe
                import tempfile
                with tempfile.TemporaryFile(dir='/var/tmp') as fh:
                    fh.write(stdin_data)
                    fh.flush()
                    fh.seek(0)
                    p = subprocess.run(args, stdin=fh, stdout=subprocess.PIPE, stderr=subprocess.PIPE, timeout=60)
            else:
                p = subprocess.run(args, input=stdin_data, stdout=subprocess.PIPE, stderr=subprocess.PIPE, timeout=60)
        except subprocess.TimeoutExpired:
            return None, 'TIMEOUT'
        return p.returncode, p.stdout

    def parse_plain(out):
        res = {}
        cur = None
        for ln in out.decode('latin-1').split('\n'):
            if ln.startswith('Source = '):
                cur = {}
                res[ln[len('Source = '):]] = cur
            elif cur is not None:
                mm = re.match(r'^    (\w+) = ?(.*)$', ln)
                if mm:
                    cur[mm.group(1)] = mm.group(2)
        return res

    JMAP = dict(string='String', dir='Dirname', base='Basename', range='Range', pad='Padding', ext='Ext', start='Start',
                end='End', length='Len', zfill='ZFill', hasRange='HasRange')

    def norm_json(out):
        try:
            obj = json.loads(out.decode('utf-8'))
        except Exception as e:
            return None
        if not isinstance(obj, dict):
            return None
        res = {}
        for k, v in obj.items():
            d = {}
            if v.get('error'):
                d['Error'] = v['error']
                d['String'] = v.get('string', '').encode('utf-8').decode('latin-1')
            else:
                for jk, pk in JMAP.items():
                    x = v.get(jk)
                    if isinstance(x, str):
                        x = x.encode('utf-8').decode('latin-1')
                    d[pk] = ('true' if x else 'false') if isinstance(x, bool) else str(x)
            res[k.encode('utf-8').decode('latin-1')] = d
        return res

    cases, failures, disagreements, impl_lines = [], [], [], []
    # 2. expected: library pipeline (godriver sinfo) and model (mldriver seqinfo), per distinct pattern
    glines, mkeys = [], []
    for inv in invocations:
        o = inv['o']
        for pat in dict.fromkeys(inv['pats']):
            glines.append(line('sinfo', o['h1'], o['d'], o['b'], o['r'], o['p'], o['e'], o['inv'], o['idx'], o['fr'], o['tpl'], pat))
            mkeys.append((inv['id'], pat))
    gout = infra.run_driver(V + '/bin/godriver', glines)
    # refmt for the model
    flines, fidx = [], {}
    for (iid, pat), inv_o in zip(mkeys, [invocations[k[0]]['o'] for k in mkeys]):
        if inv_o['tpl']:
            fidx[(iid, pat)] = len(flines)
            flines.append(line('fmt', pat, 0 if inv_o['h1'] else 1, inv_o['tpl']))
    fout = infra.run_driver(V + '/bin/godriver', flines) if flines else []
    mlines = []
    for (iid, pat) in mkeys:
        o = invocations[iid]['o']
        refmt = ''
        if o['tpl']:
            r = fout[fidx[(iid, pat)]]
            refmt = unhx(r.split('s=')[1]).decode('latin-1') if r.startswith('OK') else 'TEMPLATE-ERROR'
        mlines.append(line('seqinfo', o['h1'], o['d'], o['b'], o['r'], o['p'], o['e'], o['inv'], o['idx'], o['fr'],
                           1 if o['tpl'] else 0, refmt, pat))
    mout = infra.run_driver(V + '/bin/mldriver', mlines)
    lib = {k: g for k, g in zip(mkeys, gout)}
    mod = {k: m_ for k, m_ in zip(mkeys, mout)}

    def fields_of(line_):
        st, kv, _ = infra.parse_out(line_)
        if st != 'OK':
            return st
        if kv.get('error') == '1':
            return dict(Error='1', String=unhx(kv['string']).decode('latin-1'))
        d = {}
        for jk, pk in JMAP.items():
            v = kv[jk]
            if jk in ('string', 'dir', 'base', 'range', 'pad', 'ext'):
                v = unhx(v).decode('latin-1')
            if jk == 'hasRange':
                v = 'true' if v == '1' else 'false'
            d[pk] = v
        return d

    import concurrent.futures
    with concurrent.futures.ThreadPoolExecutor(max_workers=16) as ex:
        runs1 = list(ex.map(run_bin, invocations))
        runs2 = list(ex.map(run_bin, invocations))
    for inv, (rc1, out1), (rc2, out2) in zip(invocations, runs1, runs2):
        text = 'seqinfo %s json=%s stdin=%s patterns=%r' % ({k: v for k, v in inv['o'].items() if v not in ('', 0, 'N')}, inv['json'], inv['stdin'], inv['pats'])
        c = dict(line='seqinfo#%d' % inv['id'], text=text, shape=('json' if inv['json'] else 'plain') + (':stdin-' + inv['framing'] if inv['stdin'] else ':args'),
                 meta=inv, nontrivial=len(set(inv['pats'])) > 1, args=inv['pats'], op='seqinfo')
        cases.append(c)
        f, d = [], []
        if rc1 is None or rc2 is None:
            f.append('seqinfo did not terminate')
            failures.append((c, f))
            impl_lines.append('TIMEOUT')
            continue
        impl_lines.append('OK' if rc1 == 0 else 'EXIT%d' % rc1)
        c['impl'] = (out1[:1500]).decode('latin-1')
        if inv['json']:
            r1, r2 = norm_json(out1), norm_json(out2)
            if r1 is None:
                f.append('--json output is not a single valid JSON object')
        else:
            r1, r2 = parse_plain(out1), parse_plain(out2)
        if r1 is not None:
            if r1 != r2:
                f.append('two runs of the same invocation printed different content')
            want = set(inv['pats'])
            if set(r1.keys()) != want:
                f.append('entries %r, distinct patterns %r' % (sorted(r1.keys())[:5], sorted(want)[:5]))
            for pat in want:
                got = r1.get(pat)
                if got is None:
                    continue
                for src, table, sink in (('library', lib, f), ('model', mod, d)):
                    exp = fields_of(table[(inv['id'], pat)])
                    if isinstance(exp, str):
                        # PANIC predicted: the binary would have crashed as a whole
                        sink.append('%s predicts %s for %r' % (src, exp, pat))
                        continue
                    if 'Error' in exp:
                        if 'Error' not in got:
                            sink.append('%r: %s says the pattern is in error, seqinfo printed fields' % (pat, src))
                        continue
                    if 'Error' in got:
                        sink.append('%r: seqinfo reports an error (%s), %s computes %r' % (pat, got['Error'][:60], src, exp.get('String')))
                        continue
                    for k, v in exp.items():
                        if got.get(k) != v:
                            sink.append('%r: field %s = %r, %s gives %r' % (pat, k, got.get(k), src, v))
                            break
        if f:
            failures.append((c, f))
        if d:
            disagreements.append((c, d))
    extra, probs = xcheck_extra(mlines, mout, 10 if tier == 'quick' else 60)
    extra['problems'] = problems + probs
    return cases, impl_lines, failures, disagreements, extra


# ------------------------------------------------------------------ C17 seqls

def gen_tree(rng, mode='plain'):
    """a random directory tree: returns (dirs, files, links) as relative paths; links = {path: target_dir_relpath}.
    modes: plain    - every link target is a link-free subtree, at most one link per target (exact listing, deterministic)
           leaflinks- a directory holding several links to leaf directories, itself the target of one more link
           nested   - links to directories that hold links to directories with sub-directories (K5 probe)
           aliased  - several links per target, links to ancestors (termination only)"""
    dirs, files, links = ['.'], {}, {}
    if mode == 'chain':
        # the root given to seqls is r/; a second tree ext/ beside it is reached only through
        # relative links (r/l -> ../ext/d, ext/d/up -> ../e): chains of links whose texts contain
        # "..", with the same directory names on both sides.  Every real directory is the target
        # of at most one link and nothing is reachable by two link paths, so the listing is exact.
        names = ['e', 'd', 's', 't']
        def seqfiles(tag):
            return ['%s.%04d.exr' % (tag, i) for i in range(1, rng.randint(2, 4))]
        for side in ('r', 'ext'):
            dirs.append(side)
            files[side] = ['top_%s.txt' % side]
            for nm in names:
                if rng.random() < 0.8:
                    dirs.append(side + '/' + nm)
                    files[side + '/' + nm] = seqfiles(side[0] + nm)
                    if rng.random() < 0.6:
                        dirs.append(side + '/' + nm + '/sub')
                        files[side + '/' + nm + '/sub'] = seqfiles(side[0] + nm + 's')
        rdirs = [d for d in dirs if d.startswith('r/') and d.count('/') == 1]
        edirs = [d for d in dirs if d.startswith('ext/') and d.count('/') == 1]
        rng.shuffle(edirs)
        targeted = set()
        # a link between siblings inside r (the target holds no link)
        if rdirs and rng.random() < 0.8:
            t = rng.choice(rdirs)
            links['r/m'] = t
            targeted.add(t)
        # chains through ext: r/l0 -> ext/a, ext/a/up -> ext/b, ext/b/up -> ext/c ...
        k = 0
        while len(edirs) >= 1 and k < 2:
            chain = [edirs.pop() for _ in range(min(len(edirs), rng.randint(1, 3)))]
            links['r/l%d' % k] = chain[0]
            for a, b in zip(chain, chain[1:]):
                links[a + '/up'] = b
            k += 1
        return dirs, files, links
    if mode == 'bigdir':
        # one directory with far more entries than fit one directory-read block (8 KiB), sub-directories among them
        dirs.append('shot')
        files['shot'] = ['img.%04d.exr' % i for i in range(1, rng.randint(500, 900))]
        for i in range(rng.randint(20, 40)):
            p = 'shot/pass%02d' % i
            dirs.append(p)
            files[p] = ['beauty.%04d.exr' % k for k in range(1, 4)] + ['notes.txt']
        files['.'] = ['top.txt']
        return dirs, files, links
    if mode == 'narrow':
        # a spine: every level holds one leaf directory and one directory that goes deeper, so the
        # last outstanding unit of work of the walk is a directory that still has a sub-directory
        d = '.'
        for lv in range(rng.randint(3, 7)):
            for nm in (['l%d' % lv] if rng.random() < 0.8 else []) + ['n%d' % lv]:
                p = nm if d == '.' else d + '/' + nm
                dirs.append(p)
                files[p] = ['f.%04d.exr' % i for i in range(1, rng.randint(2, 4))]
            d = p
        files['.'] = ['f.0001.exr', 'f.0002.exr']
        # often a HIDDEN link to a leaf directory near the top: without -a it is neither listed nor
        # entered, and must not disturb the rest of the walk
        leaves = [x for x in dirs if x.rsplit('/', 1)[-1].startswith('l')]
        if leaves and rng.random() < 0.6:
            links[rng.choice(['.hl', 'n0/.hl'])] = rng.choice(leaves)
        return dirs, files, links
    def add_files(d):
        for _ in range(rng.randint(0, 3)):
            k = rng.random()
            if k < 0.6:
                b = rng.choice(['foo.', 'bar_', 'img.', 's'])
                e = rng.choice(['.exr', '.jpg', '.tar.gz'])
                w = rng.choice([1, 4])
                for v in rng.sample(range(0, 30), rng.randint(1, 5)):
                    files.setdefault(d, []).append(b + str(v).rjust(w, '0') + e)
            elif k < 0.85:
                files.setdefault(d, []).append(rng.choice(['readme.txt', 'notes', 'a.b.c', 'x.tar.gz']))
            else:
                files.setdefault(d, []).append(rng.choice(['.hidden', '.hid.0001.exr', '.DS_Store']))
        if d in files:
            files[d] = sorted(set(files[d]))
    def grow(d, depth):
        add_files(d)
        if depth >= 4:
            return
        for i in range(rng.choice([0, 1, 1, 2, 3, 6] if depth == 0 else [0, 0, 1, 2])):
            name = rng.choice(['sub', 'shots', 'v', 'a', 'b', 'empty']) + str(i)
            if rng.random() < 0.15:
                name = '.' + name
            p = name if d == '.' else d + '/' + name
            dirs.append(p)
            if not name.startswith('empty'):
                grow(p, depth + 1)
    grow('.', 0)
    cands = [d for d in dirs if d != '.']
    def under(a, b):          # a is b or below b
        return a == b or a.startswith(b + '/')
    def has_link_inside(d):
        return any(under(os.path.dirname(p) or '.', d) for p in links)
    def add_link(parent, tgt, hidden=False):
        name = ('.' if hidden else '') + 'lnk%d' % len(links)
        p = name if parent == '.' else parent + '/' + name
        links[p] = tgt
    if mode == 'aliased':
        for _ in range(rng.choice([1, 2, 3])):
            if cands:
                add_link(rng.choice(dirs), rng.choice(cands + ['.']), rng.random() < 0.1)
    elif mode == 'leaflinks':
        leaves = [d for d in cands if not any(x != d and under(x, d) for x in dirs)]
        holders = [d for d in dirs if d != '.']
        if len(leaves) >= 2 and holders:
            holder = rng.choice(holders)
            picked = [l for l in rng.sample(leaves, min(len(leaves), rng.randint(2, 3))) if not under(holder, l) and not under(l, holder)]
            for l in picked:
                add_link(holder, l)
            outside = [d for d in dirs if (d == '.' or (not under(d, holder) and not under(holder, d)))
                       and not any(under(d, l) for l in picked)]
            if picked and outside:
                add_link(rng.choice(outside), holder)
    elif mode == 'nested':
        for _ in range(rng.choice([2, 3, 5])):
            if cands:
                parent, tgt = rng.choice(dirs), rng.choice(cands)
                if not under(parent, tgt):
                    add_link(parent, tgt)
    else:
        used = set()
        for _ in range(rng.choice([0, 0, 1, 2, 3])):
            if not cands:
                break
            tgt, parent = rng.choice(cands), rng.choice(dirs)
            # target not yet linked, no cycle, and neither the target nor (later) any target may hold a link
            if tgt in used or under(parent, tgt) or has_link_inside(tgt) or any(under(parent, t) for t in used):
                continue
            add_link(parent, tgt, rng.random() < 0.3)
            used.add(tgt)
    return dirs, files, links


def build_tree(root, dirs, files, links, rel_links=False):
    for d in dirs:
        os.makedirs(os.path.join(root, d), exist_ok=True)
    for d, fs in files.items():
        for f in fs:
            open(os.path.join(root, d, f), 'w').close()
    for p, tgt in links.items():
        if rel_links:
            os.symlink(os.path.relpath(os.path.join(root, tgt), os.path.dirname(os.path.join(root, p))), os.path.join(root, p))
        else:
            os.symlink(os.path.abspath(os.path.join(root, tgt)), os.path.join(root, p))


def hidden_name(p):
    n = os.path.basename(p)
    return len(n) > 1 and n != '..' and n.startswith('.')


def expected_jobs(flags, args, dirs, files, links, cwd_rel='.'):
    """the directory paths (as spelled) whose listing seqls must print, and the pattern arguments;
    written from the property's words: non-hidden dirs reachable from each root, following each
    directory link whose target has not been followed yet"""
    dirset = set(dirs)
    children = {}
    for d in dirs:
        if d != '.':
            children.setdefault(os.path.dirname(d) or '.', []).append(('D', os.path.basename(d), d))
    for p, tgt in links.items():
        children.setdefault(os.path.dirname(p) or '.', []).append(('L', os.path.basename(p), tgt))
    seen_args, jobs, pats = [], [], []
    roots = []
    def to_real(c):
        return os.path.normpath(os.path.join(cwd_rel, c)) if cwd_rel != '.' else c
    real_of_root = {}
    for a in args:
        c = props.go_clean(a)
        if c in seen_args:
            continue
        seen_args.append(c)
        real = to_real(c)
        if real in dirset:
            roots.append(c)
            real_of_root[c] = real
        elif real in links:
            roots.append(c)        # a link given as an argument is a directory for Stat
            real_of_root[c] = links[real]
        elif any(c == (d + '/' + f if d != '.' else f) for d, fs in files.items() for f in fs):
            continue                # an existing file argument is ignored
        else:
            pats.append(c)
    if 'r' not in flags:
        return [(r, real_of_root[r]) for r in roots], pats
    cache = set()
    def real_of(spelled_parent_real, name):
        return name if spelled_parent_real == '.' else spelled_parent_real + '/' + name
    def walk_children(spelled, real):
        for kind, name, tgt in sorted(children.get(real, []), key=lambda x: x[1]):
            sp = name if spelled == '.' else spelled + '/' + name
            if kind == 'D':
                visit(sp, real_of(real, name))
            else:
                first = tgt not in cache
                if first:
                    cache.add(tgt)
                if 'a' not in flags and hidden_name(sp):
                    continue
                jobs.append((sp, tgt))
                if first:
                    walk_children(sp, tgt)
    def visit(spelled, real):
        if 'a' not in flags and hidden_name(spelled):
            return
        jobs.append((spelled, real))
        walk_children(spelled, real)
    for r in roots:
        visit(r, real_of_root[r])
    return jobs, pats


def c17_special(pid, prop, tier, seed, b):
    rng = random.Random(seed * 1000003 + 17)
    ok, msg = go_build('./cmd/seqls', V + '/bin/seqls', tags='verif')
    if not ok:
        return [], [], [], [], dict(problems=[('go-build', 'seqls does not build: ' + msg)])
    root = infra.disk_root()
    ntrees = 35 if tier == 'quick' else 420
    cases, failures, disagreements, impl_lines = [], [], [], []
    runs = []
    for t in range(ntrees):
        mode = ['plain', 'narrow', 'leaflinks', 'nested', 'aliased', 'plain', 'chain'][t % 7]
        if t % 35 == 33:
            mode = 'bigdir'
        aliased = mode in ('aliased', 'nested')
        dirs, files, links = gen_tree(rng, mode)
        for _ in range(30):
            # a leaflinks tree needs its shape: a holder with >= 2 links that is itself reached through one more link
            if mode != 'leaflinks' or len(links) >= 3:
                break
            dirs, files, links = gen_tree(rng, mode)
        troot = '%s/t%d' % (root, t)
        os.makedirs(troot)
        build_tree(troot, dirs, files, links, rel_links=(mode == 'chain' or (mode != 'nested' and rng.random() < 0.5)))
        for v in range(3 if tier == 'quick' else 6):
            flags = ''.join(f for f in 'ras1f' if rng.random() < (0.7 if f == 'r' else 0.35))
            if mode == 'narrow' and 'r' not in flags:
                flags = 'r' + flags
            nargs = rng.choice([0, 1, 1, 2, 3]) if mode != 'narrow' else rng.choice([0, 0, 1])
            if mode == 'chain':
                flags = 'r' + flags.replace('r', '')
                nargs = 0
            if mode == 'bigdir':
                flags = 'r' + flags.replace('r', '')
                nargs = rng.choice([0, 0, 1])
            args = []
            for _ in range(nargs):
                k = rng.random()
                if k < 0.6:
                    args.append(rng.choice(dirs))
                elif k < 0.7:
                    args.append('./' + rng.choice(dirs))
                elif k < 0.8:
                    args.append('nosuchdir%d' % rng.randint(0, 9))
                elif k < 0.9 and files:
                    d = rng.choice(list(files.keys()))
                    args.append((d + '/' if d != '.' else '') + rng.choice(['foo.#.exr', 'bar_@.jpg', 'img.@@@@.tar.gz', 'nope.#.exr', 'foo.%04d.exr']))
                else:
                    args.append(rng.choice(['missing/foo.#.exr', '.']))
            if mode == 'chain':
                args = ['r'] + ([rng.choice([d for d in dirs if d.startswith('r/')] or ['r'])] if rng.random() < 0.3 else [])
            cwd_rel = '.'
            subs = [d for d in dirs if d != '.' and '/' not in d and not d.startswith('.') and d not in links.values()]
            if v == 0 and subs and mode == 'plain':
                # run from a sub-directory with the root spelled ".." (the hidden-directory test must not take it for hidden)
                cwd_rel = rng.choice(subs)
                args = ['..']      # one root only: '..' and '.' spell the same link targets differently for the cycle cache ('../v0/a0' vs 'a0')
            gmp = rng.choice(['1', '2', '16']) if mode != 'narrow' else rng.choice(['1', '1', '2', '4'])
            workers = rng.choice(['1', '2', '50'])
            runs.append(dict(reps=12 if mode == 'narrow' else 2, t=t, troot=troot, dirs=dirs, files=files, links=links, flags=flags, args=args, gmp=gmp,
                             workers=workers, aliased=aliased, mode=mode, cwd_rel=cwd_rel))
    # expected lines from the library (godriver diskx / findseqx), per run
    def opts_of(flags):
        o = []
        if 'a' in flags:
            o.append(0)
        if 's' not in flags:
            o.append(1)
        if '1' in flags:
            o.append(2)
        return o

    def run_seqls(r):
        cmd = [V + '/bin/seqls']
        for f in r['flags']:
            cmd.append({'r': '-r', 'a': '-a', 's': '-s', '1': '--hash1', 'f': '-f'}[f])
        cmd += r['args']
        env = dict(os.environ, GOMAXPROCS=r['gmp'], VERIF_SEQLS_WORKERS=r['workers'])
        outs = []
        for rep in range(r['reps']):
            try:
                p = subprocess.run(cmd, cwd=os.path.join(r['troot'], r['cwd_rel']), stdout=subprocess.PIPE, stderr=subprocess.PIPE, env=env, timeout=60)
                outs.append(sorted(x for x in p.stdout.decode('latin-1').split('\n') if x != ''))
            except subprocess.TimeoutExpired:
                outs.append(None)
        return outs

    import concurrent.futures
    with concurrent.futures.ThreadPoolExecutor(max_workers=8) as ex:
        results = list(ex.map(run_seqls, runs))
    # library answers, one godriver per tree root (cwd matters for relative paths)
    for r, outs in zip(runs, results):
        args = r['args'] or ['.']
        jobs, pats = expected_jobs(r['flags'], args, r['dirs'], r['files'], r['links'], r['cwd_rel'])
        glines = [line('diskx', ','.join(map(str, opts_of(r['flags']))), sp) for sp, real in jobs]
        glines += [line('findseqx', ','.join(map(str, opts_of(r['flags']))), p) for p in pats]
        r['glines'] = glines
    by_root = collections.OrderedDict()
    for r in runs:
        by_root.setdefault(os.path.join(r['troot'], r['cwd_rel']), []).append(r)
    for troot, rs in by_root.items():
        all_lines = [l for r in rs for l in r['glines']]
        if all_lines:
            inp = ('\n'.join(all_lines) + '\n').encode('latin-1')
            p = subprocess.run([V + '/bin/godriver'], input=inp, stdout=subprocess.PIPE, cwd=troot,
                               env=dict(GOENV, VERIF_RX=infra.WORK + '/rx_patterns.txt'))
            outl = p.stdout.decode('latin-1').split('\n')
        else:
            outl = []
        k = 0
        for r in rs:
            exp = []
            for _ in r['glines']:
                o = outl[k] if k < len(outl) else 'NOOUTPUT'
                k += 1
                if o.startswith('OK'):
                    exp += [unhx(x).decode('latin-1') for x in o.split(' ')[1:]]
            if 'f' in r['flags']:
                exp = [x if x.startswith('/') else os.path.normpath(os.path.join(r['troot'], r['cwd_rel'], x)) for x in exp]
            r['expected'] = sorted(exp)
    # the Coq model's prediction (walk + listing), on the same tree
    mlines = []
    for r in runs:
        nodes = []
        for d in r['dirs']:
            if d != '.':
                nodes.append('D|%s|%s|' % (os.path.dirname(d) or '.', os.path.basename(d)))
        for d, fs in r['files'].items():
            for f_ in fs:
                nodes.append('F|%s|%s|' % (d, f_))
        for p_, tgt in r['links'].items():
            nodes.append('LD|%s|%s|%s' % (os.path.dirname(p_) or '.', os.path.basename(p_), tgt))
        mlines.append(line('seqls', r['flags'], r['troot'], len(r['args']), *(r['args'] + nodes)))
    mout = infra.run_driver(V + '/bin/mldriver', mlines)
    for r, mo in zip(runs, mout):
        r['model'] = sorted(unhx(x).decode('latin-1') for x in mo.split(' ')[1:]) if mo.startswith('OK') else None
        r['model_raw'] = mo[:300]
    for r, outs in zip(runs, results):
        text = 'seqls -%s %r  GOMAXPROCS=%s workers=%s cwd=%s tree[%s]: dirs=%r links=%r' % (
            r['flags'], r['args'], r['gmp'], r['workers'], r['cwd_rel'], r['mode'], r['dirs'], r['links'])
        c = dict(line='seqls#%d' % len(cases), text=text, shape='flags:' + (r['flags'] or 'none') + (':aliased' if r['aliased'] else ''),
                 meta=dict(flags=r['flags'], args=r['args'], dirs=r['dirs'], files=r['files'], links=r['links'], gmp=r['gmp'], workers=r['workers']),
                 nontrivial=len(r['dirs']) > 1, args=r['args'], op='seqls')
        c['shape'] = r['mode'] + ':' + (r['flags'] or 'none')
        cases.append(c)
        f = []
        if any(o is None for o in outs):
            f.append('seqls did not terminate within 60 s')
            impl_lines.append('TIMEOUT')
            failures.append((c, f))
            continue
        impl_lines.append('OK')
        c['impl'] = '\n'.join(outs[0])[:1500]
        if r['mode'] == 'nested' and outs[0] != outs[1]:
            c['text'] = 'nested-links: ' + c['text']
            f.append('two runs over a tree with nested directory links printed different multisets of lines')
        if not r['aliased']:
            if any(o != outs[0] for o in outs):
                f.append('%d runs of the same command printed different multisets of lines' % len(outs))
            for i, o in enumerate(outs):
                if o != r['expected']:
                    miss = [x for x in r['expected'] if x not in o]
                    extra = [x for x in o if x not in r['expected']]
                    f.append('run %d of %d: printed lines differ from the listing of the selected directories: missing %r extra %r' % (
                        i + 1, len(outs), miss[:3], extra[:3]))
                    break
        if f:
            failures.append((c, f))
        if not r['aliased'] and outs[0] is not None and r['cwd_rel'] == '.':
            c['model'] = r['model_raw']
            if r['model'] is None or outs[0] != r['model']:
                md = r['model'] or []
                disagreements.append((c, ['model predicts %d lines, seqls printed %d: model-only %r impl-only %r' % (
                    len(md), len(outs[0]), [x for x in md if x not in outs[0]][:3], [x for x in outs[0] if x not in md][:3])]))
    for d in set(r['troot'] for r in runs):
        shutil.rmtree(d, ignore_errors=True)
    # the coordinator of fastwalk.Walk as translated from the source (Gen/GenFastwalk.v): every schedule of
    # small trees is explored in the model; a returned state that has not walked every directory is a
    # failing history of the model (theorem fastwalk_complete covers all trees and schedules when it checks)
    shapes = [([-1], '0'), ([-1, 0], '00'), ([-1, 0, 1], '000'), ([-1, 0, 0], '000'), ([-1, 0, 0, 2], '0000'),
              ([-1, 0, 0, 2, 2, 4], '000000'), ([-1, 0, 0, 2, 2, 4], '001000'), ([-1, 0, 1, 2, 3], '00000'),
              ([-1, 0, 0, 0, 1, 1], '000000'), ([-1, 0, 1, 1, 0, 4], '010000')]
    for _ in range(4 if tier == 'quick' else 40):
        n = rng.randint(2, 6)
        ps = [-1] + [rng.randint(max(0, i - 3), i - 1) for i in range(1, n)]
        shapes.append((ps, ''.join(rng.choice('0001') for _ in range(n))))
    fw_lines, fw_cases = [], []
    for ps, sk in shapes:
        for nw, cap in ([(1, 1), (2, 1), (2, 2)] + ([(3, 2)] if len(ps) <= 4 else [])):
            fw_lines.append(line('fastwalk', nw, cap, 400000, ','.join(map(str, ps)), sk))
            fw_cases.append(dict(line=fw_lines[-1], text='fastwalk coordinator (translated from fastwalk.go), every schedule: workers=%d buffer=%d tree parents=%r skip=%s' % (nw, cap, ps, sk),
                                 shape='fastwalk-model:%d' % len(ps), meta=dict(parents=ps, skips=sk, nw=nw, cap=cap), nontrivial=len(ps) > 1, args=[], op='fastwalk'))
    fw_out = infra.run_driver(V + '/bin/mldriver', fw_lines)
    for c, o in zip(fw_cases, fw_out):
        c['model'] = o[:600]
        cases.append(c)
        impl_lines.append('MODEL-ONLY')
        if o.startswith('OK incomplete'):
            failures.append((c, ['in the model of the coordinator as the source now reads, a schedule returns before every directory is read: ' + o[3:600]]))
        elif not o.startswith(('OK complete', 'OUTOFFUEL')):
            disagreements.append((c, ['the model driver did not evaluate the coordinator: ' + o[:200]]))
    small_fw = [(l, o) for l, o, c in zip(fw_lines, fw_out, fw_cases) if len(c['meta']['parents']) <= 4 and c['meta']['nw'] <= 2]
    extra, probs = xcheck_extra(mlines + [l for l, o in small_fw], list(mout) + [o for l, o in small_fw], 8 if tier == 'quick' else 40)
    extra['problems'] = probs
    return cases, impl_lines, failures, disagreements, extra


def xcheck_extra(lines, outs, limit=10):
    """evaluate a slice of the model lines of a special check INSIDE Coq as well (vm_compute on
    Driver.dispatch) and compare with the extracted driver's output"""
    pairs = sorted(zip(lines, outs), key=lambda lo: len(lo[0]))
    pairs = [lo for lo in pairs if lo[1] and not lo[1].startswith('OUTOFFUEL')][:limit * 3]
    n, bad, msg = infra.incoq_crosscheck([l for l, o in pairs], [o for l, o in pairs], limit)
    extra = dict(extraction_crosscheck=dict(in_coq_cases=n, in_coq_mismatches=bad))
    probs = [('extraction', msg or '%d of %d model lines differ between vm_compute inside Coq and the extracted OCaml driver' % (bad, n))] if (bad and n) else []
    return extra, probs


# ------------------------------------------------------------------ C19 the C++ port

def c19_special(pid, prop, tier, seed, b):
    rng = random.Random(seed * 1000003 + 19)
    env = dict(GOENV, VERIF_REPO=REPO)
    rc, out = infra.sh('%s/harness/cpp/build.sh' % V, env=env, timeout=1200)
    if rc != 0 or not os.path.exists(V + '/bin/cppdriver'):
        return [], [], [], [], dict(problems=[('cpp-build', 'the C++ port / driver does not build: ' + out[-1500:])])
    root = infra.disk_root()
    n = 1 if tier == 'quick' else 20
    cases = []

    def add(op, args, text, shape, cmpkeys, meta=None):
        c = props.case(op, args, text, shape, meta or {})
        c['cmpkeys'] = cmpkeys
        cases.append(c)
    for _ in range(1500 * n):
        s, sh = gens.range_string(rng)
        add('fs', [s], s, 'fs', 'fs')
    for s in list(gens.token_sweep(1)) + (list(gens.token_sweep(2))[::7] if tier != 'quick' else []):
        add('fs', [s], s, 'fs-sweep', 'fs')
    for s in ['9223372036854775807', '-9223372036854775808--9223372036854775806', '9223372036854775805-9223372036854775807', '1,9223372036854775807']:
        add('fs', [s], s, 'fs-long-edge', 'fs')
    for _ in range(600 * n):
        s, sh = gens.range_string(rng, deco=False)
        add('norm', [s], s, 'norm', 'norm')
    for _ in range(1200 * n):
        l = gens.runs_list(rng) if rng.random() < 0.7 else gens.distinct_ints(rng, rng.randint(1, 9))
        srt, z = rng.random() < 0.4, rng.choice([0, 1, 2, 3, 4])
        add('f2r', [','.join(map(str, l)), 1 if srt else 0, z], 'frames=%s sorted=%s zfill=%d' % (l, srt, z), 'f2r', 'f2r')
    for _ in range(800 * n):
        s, sh = gens.range_string(rng, deco=False)
        w = rng.choice([2, 3, 4, 5, 8])
        add('padfr', [s, w], '%r width=%d' % (s, w), 'padfr', 'padfr')
    for st in (0, 1):
        for w in list(range(1, 40)) + [63, 64, 65, 68, 72, 100, 128, 256, 272]:
            add('pad', [st, w], 'style=%d width=%d' % (st, w), 'pad', 'all')
        for tok in gens.PAD_TOKENS:
            add('padsize', [st, tok], 'style=%d chars=%s' % (st, tok), 'padsize', 'all')
    k = 0
    while k < 1500 * n:
        d, bn, r, frames, p, e, st = props.seq_tuple(rng)
        if not props.unambiguous(d, bn, r, p, e) or (bn == '' and e == '' and r == ''):
            continue
        if r != '' and not frames:
            continue
        s = d + bn + r + p + e
        probes = [rng.choice([0, 1, -1, 7, 12, 100, -100]) for _ in range(2)]
        add('seq', [s, st] + [str(x) for x in probes], '%r style=%d' % (s, st), 'seq', 'seq')
        k += 1
    # concrete single-file paths (no pad token): the single-frame pattern and its extension shapes
    for _ in range(700 * n):
        d = gens.directory(rng)
        bn = gens.basename(rng)
        kk = rng.random()
        digits = '' if kk < 0.15 else ('0' * rng.choice([0, 0, 1, 3]) + str(rng.randint(0, 10 ** rng.randint(1, 5))))
        if kk > 0.96:
            digits = rng.choice(['9223372036854775807', '00000000000000000001', '-9223372036854775808', '4611686018427387904'])   # the edges of a C long (numbers beyond it are outside C19's shared grammar)
        if digits and rng.random() < 0.15:
            digits = '-' + digits
        e = gens.extension(rng) if rng.random() < 0.5 else rng.choice(['.c.gz', '.7z.tmp', '.h.in', '.tar.gz', '.v1.exr', '.a1', '.1a', '.x.y.z', '.c', '.a.b.c', '.R.gz', '.9z.tmp'])
        s = d + bn + digits + e
        if s == '' or '#' in s or '@' in s or '\\' in s:
            continue
        if bn == '' and digits == '' and e == '':
            continue          # a directory only: outside C19's shared grammar ("sequences that have a basename, extension or frame range")
        st = rng.choice([0, 1])
        add('seq', [s, st], '%r style=%d' % (s, st), 'seq-file', 'seq')
    for i in range(120 * n):
        ents, seqs = [], []
        for j in range(rng.randint(1, 3)):
            bn = rng.choice(['foo.', 'bar_', 'img.', 'shot_010_', 'plate', 'a', 'mx-']) + ('' if j == 0 else 'v%s_' % 'abc'[j])
            e = rng.choice(['.exr', '.jpg', '.tar.gz', '.exr', '.c.gz', '.7z.tmp'])
            w = rng.choice([1, 3, 4, 5])
            vals = sorted(set(rng.randint(10 ** (w - 1) if w > 1 else 1, 10 ** w - 1) for _ in range(rng.randint(2, 6))))
            if rng.random() < 0.25 and w <= 3:
                # one printf width whose numbers outgrow it (%02d over 97..104): still uniformly padded
                lo = 10 ** w - rng.randint(2, 6)
                vals = list(range(lo, lo + rng.randint(5, 12)))
            if len(vals) < 2:
                continue
            hid = '.' if rng.random() < 0.2 else ''
            for v in vals:
                ents.append('F:' + hid + bn + str(v).rjust(w, '0') + e)
            seqs.append((hid + bn, e, w))
            # frame-less files named like the sequence without its number
            if rng.random() < 0.4:
                ents.append('F:' + hid + bn + e)
            if rng.random() < 0.15 and not bn.endswith('-'):
                ents.append('F:' + hid + bn + '-' + e)
        for nm in rng.sample(['readme.txt', 'notes', 'Makefile', '.hiddenfile', 'a.b.c'], rng.randint(0, 3)):
            ents.append('F:' + nm)
        if rng.random() < 0.3:
            ents.append('D:subdir')
        ents = list(dict.fromkeys(ents))
        opts = [o for o in (0, 1, rng.choice([2, 3])) if rng.random() < 0.5]
        path = 'k%d/d' % i
        if i % 6 == 1:
            # a lookup that fails (missing directory), then directories without any sequence member
            # (empty, frame-less files only, hidden files only): what a failed call leaves behind
            # (errno, a reused buffer) must not leak into the next answer
            add('disk', [','.join(map(str, opts)), 'k%dm/missing/d' % i, 0], 'path=%r (missing)' % ('k%dm/missing/d' % i), 'disk-missing', 'listing',
                dict(path='k%dm/missing/d' % i, ents=[], opts=opts, readable=0))
            add('findseq', ['', 1, 'k%dn/missing/d/foo.#.exr' % i, 0], 'pattern in a missing directory', 'findseq-missing', 'listing',
                dict(pat='k%dn/missing/d/foo.#.exr' % i, st=1, opts=[], ents=[], readable=0))
            plain = rng.choice([[], ['F:notes.txt', 'F:README'], ['F:.hid.1.exr', 'F:.hid.2.exr'], ['F:readme.txt', 'D:sub'], ['F:a.b.c']])
            for o3 in ([], [1], [0, 1]):
                add('disk', [','.join(map(str, o3)), 'k%dp%d/d' % (i, len(o3)), 1] + plain, 'path=%r opts=%s entries=%r' % ('k%dp%d/d' % (i, len(o3)), o3, plain),
                    'disk-plain', 'listing', dict(path='k%dp%d/d' % (i, len(o3)), ents=plain, opts=o3, readable=1))
            add('findseq', ['', 1, 'k%dq/d/shot.#.exr' % i, 1] + plain, 'pattern=%r entries=%r' % ('k%dq/d/shot.#.exr' % i, plain),
                'findseq-nomatch', 'listing', dict(pat='k%dq/d/shot.#.exr' % i, st=1, opts=[], ents=plain, readable=1))
        add('disk', [','.join(map(str, opts)), path, 1] + ents, 'path=%r opts=%s entries=%r' % (path, opts, ents), 'disk', 'listing',
            dict(path=path, ents=ents, opts=opts, readable=1))
        if seqs:
            bn, e, w = rng.choice(seqs)
            stl = rng.choice([0, 1])
            padtok = props.py_zfill(0, 0) and ('#' if (w == 4 and stl == 1) else ('#' * w if stl == 0 else '@' * w))
            o2 = [o for o in (rng.choice([2, 3]),) if rng.random() < 0.3]
            pat = 'k%df/d/' % i + bn + padtok + e
            add('findseq', [','.join(map(str, o2)), stl, pat, 1] + ents, 'pattern=%r style=%d opts=%s entries=%r' % (pat, stl, o2, ents),
                'findseq', 'listing', dict(pat=pat, st=stl, opts=o2, ents=ents, readable=1))
    lines = [c['line'] for c in cases]
    stateful = ('disk-missing', 'findseq-missing', 'disk-plain', 'findseq-nomatch')
    state_idx = [i for i, c in enumerate(cases) if c['shape'] in stateful]
    disk_idx = [i for i, c in enumerate(cases) if c['op'] in ('disk', 'findseq') and c['shape'] not in stateful]
    other_idx = [i for i, c in enumerate(cases) if c['op'] not in ('disk', 'findseq')]
    go_out = [None] * len(cases)
    cpp_out = [None] * len(cases)
    # the failing-lookup groups go through ONE process each, in order: they are about what a call
    # leaves behind for the next one
    for idxs, need_root, sh_ in ((other_idx, False, infra.NPROC), (disk_idx, True, infra.NPROC), (state_idx, True, 1)):
        sub = [lines[i] for i in idxs]
        g = infra.run_driver(V + '/bin/godriver', sub, need_root=need_root, shards=sh_)
        c_ = infra.run_driver(V + '/bin/cppdriver', sub, need_root=need_root, shards=sh_)
        for i, a, b_ in zip(idxs, g, c_):
            go_out[i], cpp_out[i] = a, b_
    # the same pure inputs through the extracted Coq model: where the port agrees with the model, the
    # theorems of C01-C04 / C08-C11 about the model speak about the port's answers on these inputs too
    ml_out = [None] * len(cases)
    for i, m_ in zip(other_idx, infra.run_driver(V + '/bin/mldriver', [lines[i] for i in other_idx])):
        ml_out[i] = m_
    failures, impl_lines = [], []
    from registry import split_order

    def project(c, line_):
        line_, _ = split_order(line_)
        st, kv, bare = infra.parse_out(line_)
        k = c['cmpkeys']
        if k == 'listing':
            return (st, tuple(sorted(bare)))
        if st != 'OK':
            return (st,)
        if k == 'all':
            return (st, tuple(sorted(kv.items())))
        if k == 'fs':
            vals = kv.get('value', '').split(',')
            return (st, kv.get('isfr'), kv.get('len'), kv.get('start'), kv.get('end'), kv.get('frames'),
                    ','.join(vals[2:-3]), kv.get('index'), kv.get('has'))
        if k == 'norm':
            return (st, kv['nstr'], kv['nframes'], kv['istr'], kv['iframes'],
                    tuple(props.strip_zeros(unhx(x).decode('latin-1')) for x in kv['ipad'].split(',')))
        if k == 'f2r':
            return (st, kv['s'], kv['re'])
        if k == 'padfr':
            return (st, props.strip_zeros(unhx(kv['s']).decode('latin-1')), kv['out'])
        if k == 'seq':
            ps = kv['paths'].split(',')
            return (st,) + tuple(kv[x] for x in ('dir', 'base', 'ext', 'pad', 'zfill', 'hasfs', 'frange', 'string', 'len', 'start', 'end')) + \
                (tuple(ps[1:-1]), kv['frame'] if kv['hasfs'] == '1' else '')
        return (st,)
    disagreements, n_model = [], 0
    for c, g, cc, ml in zip(cases, go_out, cpp_out, ml_out):
        c['impl'] = g
        impl_lines.append(g)
        # only inputs in the shared domain: the Go side accepts, and the range denotes a frame
        gst, gkv, _ = infra.parse_out(split_order(g)[0])
        if c['op'] in ('fs', 'norm', 'padfr') and (gst != 'OK' or gkv.get('len') == '0' or gkv.get('frames') == '-' or gkv.get('in') in ('ERR', '-')):
            c['nontrivial'] = False
            continue
        a, b_ = project(c, g), project(c, cc)
        if a != b_:
            diff = [i for i, (x, y) in enumerate(zip(a, b_)) if x != y]
            failures.append((c, ['the C++ port answers differently (field %s): Go %s | C++ %s' % (diff[:2], str(a)[:300], str(b_)[:300])]))
            c['model'] = cc
        elif ml is not None:
            try:
                m_ = project(c, ml)
            except Exception as e:                       # a field the model does not print
                m_ = None
            n_model += 1
            if m_ is not None and m_ != b_:
                diff = [i for i, (x, y) in enumerate(zip(m_, b_)) if x != y]
                disagreements.append((c, ['the C++ port and the Coq model answer differently (field %s): model %s | C++ %s' % (diff[:2], str(m_)[:300], str(b_)[:300])]))
                c['model'] = ml
    return cases, impl_lines, failures, disagreements, dict(cpp_vs_model_cases=n_model)


# ------------------------------------------------------------------ C20 handle tables

def c20_steps(op):
    """scheduler steps an operation can take at most"""
    return {'A': 1, 'I': 2, 'D': 3, 'G': 1, 'L': 1, 'S': 3}[op[0]]


def c20_history(rng, nthreads, nhandles, maxops):
    """disciplined histories: thread 0 creates the handles and one reference per owner,
    then every thread increfs / decrefs / gets within what it owns and releases all"""
    owners = {h: sorted(rng.sample(range(nthreads), rng.randint(1, nthreads))) for h in range(nhandles)}
    setup = []
    for h in range(nhandles):
        setup.append('A')
    for h in range(nhandles):
        for _ in range(len(owners[h]) - 1):
            setup.append('I%d' % h)
    threads = [[] for _ in range(nthreads)]
    expect_found = []
    for t in range(nthreads):
        own = {h: 1 for h in range(nhandles) if t in owners[h]}
        ops = []
        for _ in range(rng.randint(0, maxops)):
            if not own:
                break
            h = rng.choice(sorted(own))
            k = rng.random()
            if k < 0.3:
                ops.append('I%d' % h)
                own[h] += 1
            elif k < 0.6:
                ops.append('D%d' % h)
                own[h] -= 1
                if own[h] == 0:
                    del own[h]
            elif k < 0.85:
                ops.append('G%d' % h)
            else:
                ops.append('L')
        for h in sorted(own):
            ops += ['D%d' % h] * own[h]
        threads[t] = ops
    # thread 0 performs the setup first; handles it does not own itself are handed over:
    # thread 0 created them with one reference, which belongs to the first owner
    threads[0] = setup + threads[0]
    # if thread 0 is not an owner of h, the creation reference stands for the first owner's: nothing to do
    setup_steps = sum(c20_steps(o) for o in setup)
    total = sum(c20_steps(o) for t in threads for o in t)
    sched = [0] * setup_steps
    body = []
    for t in range(nthreads):
        body += [t] * sum(c20_steps(o) for o in threads[t])
    rng.shuffle(body)
    sched += body
    tail = list(range(nthreads)) * (total + 4)
    return threads, sched + tail, owners


def c20_special(pid, prop, tier, seed, b):
    rng = random.Random(seed * 1000003 + 20)
    cases = []
    n = 400 if tier == 'quick' else 8000

    def add(which, threads, sched, shape, meta):
        spec = ';'.join(','.join(t) if t else '-' for t in threads)
        s = ','.join(map(str, sched)) if sched else '-'
        c = dict(line=line('c20', which, spec, s), raw='%s %s %s' % (which, spec, s), text='%s threads=%s schedule=%s' % (which, spec, s[:80]),
                 shape=shape, meta=meta, nontrivial=len(threads) > 1, args=[spec], op='c20')
        cases.append(c)
    for i in range(n):
        nt = rng.choice([1, 2, 2, 3, 3, 4, 8])
        nh = rng.choice([1, 1, 2, 3, 8]) if nt < 8 else rng.choice([1, 2])
        threads, sched, owners = c20_history(rng, nt, nh, rng.choice([2, 4, 6]))
        add(rng.choice(['fs', 'seq']), threads, sched, 'disciplined-%dt' % nt, dict(kind='disc', threads=threads, nh=nh))
    # exhaustive: every interleaving of two owners each releasing (and one re-incref) on one handle
    small = [[['A', 'I0', 'D0'], ['D0']], [['A', 'I0', 'I0', 'D0', 'D0'], ['D0']], [['A', 'I0', 'G0', 'D0'], ['G0', 'D0']]]
    import itertools
    for th in small:
        setup_steps = 1 + 2 * sum(1 for o in th[0][1:] if o == 'I0' and True) if False else None
        # setup = A and the first I0 of thread 0
        pre = [0] * (1 + 2)
        rest0 = sum(c20_steps(o) for o in th[0][2:])
        rest1 = sum(c20_steps(o) for o in th[1])
        count = 0
        for pos in itertools.combinations(range(rest0 + rest1), rest1):
            body = [0] * (rest0 + rest1)
            for p_ in pos:
                body[p_] = 1
            count += 1
            if tier == 'quick' and count % 3:
                continue
            add('fs', th, pre + body + [0, 1] * 12, 'exhaustive-2t', dict(kind='disc', threads=th, nh=1))
    # single-threaded histories that also use stale / unknown handles
    for i in range(60 if tier == 'quick' else 1500):
        ops = ['A']
        live = 1
        for _ in range(rng.randint(1, 10)):
            k = rng.random()
            if k < 0.2:
                ops.append('S%d' % rng.randint(0, 2))
            elif k < 0.4:
                ops.append('G0')
            elif k < 0.6:
                ops.append('I0')
                live += 1 if live > 0 else 0
            elif k < 0.9:
                ops.append('D0')
                live -= 1 if live > 0 else 0
            else:
                ops.append('L')
        ops += ['D0'] * live
        add(rng.choice(['fs', 'seq']), [ops], [0] * (3 * len(ops) + 3), 'single-stale', dict(kind='stale', threads=[ops], nh=1))
    # implementation: one go test run over all cases
    work = tempfile.mkdtemp(prefix='verif.c20.', dir='/var/tmp')
    problems = []
    stress_fail = wrap_fail = None
    try:
        fin, fout = work + '/in.txt', work + '/out.txt'
        open(fin, 'w').write('\n'.join(c['raw'] for c in cases) + '\n')
        env = dict(GOENV, VERIF_C20_IN=fin, VERIF_C20_OUT=fout)
        rc, out = infra.sh('cd %s && go test -tags verif -vet=off -count=1 -run TestVerifSchedules ./exp/cpp/export' % REPO, env=env, timeout=1800)
        impl = open(fout).read().split('\n') if os.path.exists(fout) else []
        if rc != 0:
            problems.append(('go-test', 'schedule replay driver failed: ' + out[-800:]))
        # race-detector stress (real goroutines)
        reps = 2 if tier == 'quick' else 12
        stress_fail = None
        for r_ in range(reps):
            env2 = dict(GOENV, VERIF_C20_STRESS=str(seed % 1000 + r_ + 1))
            rc2, out2 = infra.sh('cd %s && go test -race -tags verif -vet=off -count=1 -run TestVerifStress ./exp/cpp/export' % REPO, env=env2, timeout=1800)
            if rc2 != 0:
                stress_fail = out2[-1500:]
                break
        # the exported wrappers on unknown / released / live handles
        rc3, out3 = infra.sh('cd %s && go test -tags verif -vet=off -count=1 -run TestVerifWrappers ./exp/cpp/export' % REPO,
                             env=dict(GOENV, VERIF_C20_WRAP='1'), timeout=900)
        wrap_fail = out3[-1500:] if rc3 != 0 else None
    finally:
        shutil.rmtree(work, ignore_errors=True)
    model = infra.run_driver(V + '/bin/mldriver', [c['line'] for c in cases])
    failures, disagreements, impl_lines = [], [], []
    for i, c in enumerate(cases):
        il = impl[i] if i < len(impl) and impl[i] else 'NOOUTPUT'
        ml = model[i]
        c['impl'], c['model'] = il, ml
        impl_lines.append(il)
        ist, ikv, _ = infra.parse_out(il)
        mst, mkv, _ = infra.parse_out(ml)
        d = [k for k in ('len', 'slots', 'log', 'ids') if ikv.get(k) != mkv.get(k)]
        if ist != mst or d:
            disagreements.append((c, ['%s impl=%s model=%s' % (k, ikv.get(k), mkv.get(k)) for k in d] or ['status']))
        f = []
        if ist != 'OK':
            f.append('driver status ' + il[:40])
        else:
            m = c['meta']
            if ikv.get('ids') != 'true':
                f.append('a created handle is zero or not unique')
            if ikv.get('len') != '0':
                f.append('live-object count did not return to its starting value after all references were released (len delta %s)' % ikv.get('len'))
            if any(x != 'x' for x in (ikv.get('slots') or '').split(',') if x):
                f.append('a fully released handle still resolves: slots=%s' % ikv.get('slots'))
            # a Get by an owner must find the object: in the disciplined histories every G is issued while the thread owns a reference
            if m['kind'] == 'disc':
                for e in (ikv.get('log') or '').split(','):
                    if e and e.split(':')[1] == '1' and e.split(':')[2] != '1':
                        f.append('a handle with a positive reference count did not resolve (%s)' % e)
        if f:
            failures.append((c, f))
    if stress_fail:
        c = dict(line='c20-stress', text='race-detector stress of the handle tables (8 goroutines x 8 handles)', shape='stress', meta={}, nontrivial=True,
                 args=[], op='stress', impl=stress_fail[-600:])
        cases.append(c)
        impl_lines.append('FAIL')
        failures.append((c, ['stress under the race detector failed: ' + stress_fail[-400:]]))
    c = dict(line='c20-wrappers', text='every exported wrapper on unknown, released and live handles (defaults, no-ops, library answers, counts restored)',
             shape='wrappers', meta={}, nontrivial=True, args=[], op='wrappers', impl=(wrap_fail or 'ok')[-600:])
    cases.append(c)
    impl_lines.append('FAIL' if wrap_fail else 'OK')
    if wrap_fail:
        m_ = re.search(r'verif_driver_test\.go:\d+: ([^\n]*)', wrap_fail)
        failures.append((c, ['exported wrappers: ' + (m_.group(1) if m_ else wrap_fail[-300:])[:500]]))
    extra, probs = xcheck_extra([c['line'] for c in cases if 'raw' in c], [c['model'] for c in cases if 'raw' in c], 10 if tier == 'quick' else 60)
    extra.update(problems=problems + probs, states=len(cases), transitions=sum(len(c['raw'].split(' ')[2].split(',')) for c in cases if 'raw' in c),
                 traces_validated_against_impl=len(cases))
    return cases, impl_lines, failures, disagreements, extra


# ------------------------------------------------------------------ C16 concurrency of independent calls

def c16_special(pid, prop, tier, seed, b):
    rng = random.Random(seed * 1000003 + 16)
    gomod = V + '/harness/race/go.mod'
    txt = open(gomod).read()
    want = re.sub(r'=> \S+', '=> ' + REPO, txt)
    if want != txt:
        open(gomod, 'w').write(want)
    try:
        shutil.copy(REPO + '/go.sum', V + '/harness/race/go.sum')
        rc, out = infra.sh('cd %s/harness/race && go build -race -o %s/bin/racedrv .' % (V, V), env=dict(GOENV))
    finally:
        if want != txt:
            open(gomod, 'w').write(txt)
    if rc != 0:
        return [], [], [], [], dict(problems=[('go-build', 'race driver does not build: ' + out[-800:])])
    n = 40 if tier == 'quick' else 800
    runs = []
    for i in range(n):
        runs.append((rng.randint(1, 10 ** 6), rng.choice([2, 8, 16, 64]), rng.choice([3, 10, 40])))

    def one(r):
        sd, g, k = r
        try:
            p = subprocess.run([V + '/bin/racedrv', str(sd), str(g), str(k), REPO + '/testdata'], stdout=subprocess.PIPE,
                               stderr=subprocess.PIPE, timeout=300, env=dict(os.environ, GORACE='halt_on_error=0'))
            return p.returncode, p.stdout.decode('latin-1')[-600:], p.stderr.decode('latin-1')
        except subprocess.TimeoutExpired:
            return None, 'TIMEOUT', ''
    import concurrent.futures
    with concurrent.futures.ThreadPoolExecutor(max_workers=8) as ex:
        outs = list(ex.map(one, runs))
    import glob
    for d in glob.glob('/var/tmp/racedrv*'):          # scratch directories of runs that were killed
        shutil.rmtree(d, ignore_errors=True)
    cases, failures, impl_lines = [], [], []
    for r, (rc, so, se) in zip(runs, outs):
        c = dict(line='racedrv %d %d %d' % r, text='fresh process: %d goroutines x %d random API calls from a cold start (seed %d)' % (r[1], r[2], r[0]),
                 shape='g%d' % r[1], meta=dict(args=r), nontrivial=True, args=[], op='race', impl=(so + se)[-800:])
        cases.append(c)
        f = []
        if rc is None:
            f.append('did not terminate')
        if 'DATA RACE' in se:
            m = re.search(r'WARNING: DATA RACE(.*?)(?:==================|$)', se, re.S)
            locs = re.findall(r'(\S+\.go:\d+)', m.group(1) if m else se)
            f.append('data race on package-level state: ' + ' vs '.join(list(dict.fromkeys(locs))[:4]))
        elif rc not in (0,):
            f.append('results differ from the sequential run, or the process failed: ' + (so or se)[-300:])
        impl_lines.append('OK' if not f else 'RACE' if 'DATA RACE' in se else 'FAIL')
        if f:
            failures.append((c, f))
    return cases, impl_lines, failures, [], dict()


# ------------------------------------------------------------------ C15: driver stream + native fuzzing

def c15_special(pid, prop, tier, seed, b):
    import registry
    cases, impl, failures, disagreements = registry.collect_generic(pid, prop, tier, seed, b)
    secs = 20 if tier == 'quick' else 300
    cache = tempfile.mkdtemp(prefix='verif.fuzz.', dir='/var/tmp')
    crash_dir = os.path.join(REPO, 'testdata', 'fuzz', 'FuzzSequenceAPI')
    before = set(os.listdir(crash_dir)) if os.path.isdir(crash_dir) else set()
    try:
        rc, out = infra.sh('cd %s && go test -tags verif -vet=off -run "^$" -fuzz FuzzSequenceAPI -fuzztime %ds -test.fuzzcachedir %s .' % (REPO, secs, cache),
                           env=dict(GOENV), timeout=secs + 600)
    finally:
        shutil.rmtree(cache, ignore_errors=True)
    m = re.findall(r'execs: (\d+)', out)
    execs = int(m[-1]) if m else 0
    c = dict(line='go-fuzz FuzzSequenceAPI %ds' % secs, text='native fuzzing of the parsing/formatting API with arbitrary templates (%d executions)' % execs,
             shape='native-fuzz', meta={}, nontrivial=True, args=[], op='fuzz', impl=out[-600:])
    cases.append(c)
    impl.append('OK' if rc == 0 else 'FAIL')
    if rc != 0:
        crash = ''
        after = set(os.listdir(crash_dir)) if os.path.isdir(crash_dir) else set()
        for fn in sorted(after - before):
            p_ = os.path.join(crash_dir, fn)
            crash += open(p_, errors='replace').read()[:1500]
            os.remove(p_)                       # keep /repo clean; the crasher goes into the replay
        for d in (crash_dir, os.path.dirname(crash_dir)):
            try:
                os.rmdir(d)
            except OSError:
                pass
        c['impl'] = (out[-1200:] + '\n--- crasher ---\n' + crash)[:3000]
        failures.append((c, ['the fuzz target failed (panic or hang): ' + (re.search(r'(panic: [^\n]*|--- FAIL[^\n]*)', out) or [''])[0][:300]]))
    return cases, impl, failures, disagreements, dict(fuzz_executions=execs)
