"""Per-property case generators and oracles.

A case is a dict: line (protocol text), text (readable input, used by known-finding
predicates and replays), shape (for the input distribution), meta (oracle data).
An oracle looks at the IMPLEMENTATION's output (and the spec fields S_* the Coq
side computed from the independent Spec layer) and returns a list of property
failures; it never looks at the model's own answer."""
import itertools, re, os
from infra import line, hx, unhx, zl, parse_out
import gens


def case(op, args, text, shape, meta=None, nontrivial=True):
    return dict(line=line(op, *args), text=text, shape=shape, meta=meta or {}, nontrivial=nontrivial,
                args=[a if isinstance(a, str) else str(a) for a in args], op=op)


# ------------------------------------------------------------------ helpers

def py_zfill(v, w):
    """printf %0Nd: the sign counts towards the width"""
    s = str(v)
    if w < 2 or len(s) >= w:
        return s
    if s.startswith('-'):
        return '-' + '0' * (w - len(s)) + s[1:]
    return '0' * (w - len(s)) + s


def py_pad_size(style, chars):
    """independent reading of the documented token widths"""
    if chars == '':
        return 0
    if chars in ('<UDIM>', '%(UDIM)d'):
        return 4
    m = re.match(r'^%(\d*)d$', chars) or re.match(r'^\$F(\d*)$', chars)
    if m:
        d = m.group(1)
        if d == '' or int(d) < 1:
            return 1
        return int(d)
    tot = 0
    for ch in chars:
        if ch == '#':
            tot += 4 if style == 1 else 1
        elif ch == '@':
            tot += 1
    return tot


def dedup_first(l):
    seen, out = set(), []
    for x in l:
        if x not in seen:
            seen.add(x)
            out.append(x)
    return out


# ------------------------------------------------------------------ C10

def c10_cases(rng, tier):
    out = []
    widths = list(range(-2, 70)) if tier == 'quick' else list(range(-2, 4100))
    for st in (0, 1):
        for w in widths:
            out.append(case('pad', [st, w], 'style=%d width=%d' % (st, w), 'width', dict(st=st, w=w), nontrivial=w >= 1))
    maxlen = 6 if tier == 'quick' else 12
    for n in range(1, maxlen + 1):
        combos = itertools.product('#@', repeat=n)
        for t in combos:
            s = ''.join(t)
            for st in (0, 1):
                out.append(case('padsize', [st, s], 'style=%d chars=%s' % (st, s), 'hash-at-string', dict(st=st, s=s)))
    toks = list(gens.PAD_TOKENS) + ['%%0%dd' % n for n in range(0, 40)] + ['$F%d' % n for n in range(0, 40)] + \
           ['%099d', '$F00012', '%d%d', '$F4x', 'x%04d', '%04dx', '<UDIM>x', 'x<UDIM>', 'x%(UDIM)d', '%(UDIM)dx', '', 'abc', '#a@', '\xe9#']
    for s in toks:
        for st in (0, 1):
            out.append(case('padsize', [st, s], 'style=%d chars=%r' % (st, s), 'token', dict(st=st, s=s)))
    # style switches on sequences
    for _ in range(60 if tier == 'quick' else 2000):
        pad = rng.choice(gens.PAD_TOKENS)
        st = rng.choice([0, 1])
        s = '/a/foo.1-5' + pad + '.exr'
        ops = ['S%d' % rng.choice([0, 1]) for _ in range(rng.randint(1, 3))]
        if rng.random() < 0.5:
            # a pattern without a frame range (as handed to FindSequenceOnDisk) switched first, the range set afterwards
            s = '/a/foo.' + pad + '.exr'
            ops = ops + ['R1-5']
        out.append(case('seqops', [s, st] + ops, '%s style=%d ops=%s' % (s, st, ops), 'style-switch', dict(s=s, st=st, pad=pad, ops=ops)))
    return out


def c10_oracle(c, impl):
    st, kv, bare = impl
    m = c['meta']
    f = []
    if c['op'] == 'pad':
        if st != 'OK':
            return ['status ' + st]
        if m['w'] >= 1 and int(kv['size']) != m['w']:
            f.append('width %d -> chars %r -> width %s' % (m['w'], unhx(kv['chars']), kv['size']))
    elif c['op'] == 'padsize':
        # only the documented tokens have a documented width
        s = m['s']
        documented = (re.fullmatch(r'[#@]+', s) or s in ('<UDIM>', '%(UDIM)d')
                      or re.fullmatch(r'%\d*d', s) or re.fullmatch(r'\$F\d*', s))
        if documented:
            exp = py_pad_size(m['st'], s)
            if st != 'OK' or int(kv['size']) != exp:
                f.append('PaddingCharsSize(%r) = %s under style %d, documented width %d' % (s, kv.get('size'), m['st'], exp))
    elif c['op'] == 'seqops':
        if st != 'OK':
            return ['status ' + st]
        w0 = py_pad_size(m['st'], m['pad'])
        if w0 >= 1:
            if int(kv['zfill']) != w0:
                f.append('style switch changed the width %d -> %s' % (w0, kv['zfill']))
            exp = ['-'] + [hx('/a/foo.' + py_zfill(i, w0) + '.exr') for i in range(1, 6)] + ['-']
            if kv['paths'].split(',') != exp:
                f.append('style switch changed the frame paths')
            # the pad characters shown after the switches must denote that width under the style now in force
            final_style = [int(o[1:]) for o in m['ops'] if o.startswith('S')][-1]
            pad_now = unhx(kv['pad']).decode('latin-1') if 'pad' in kv else None
            if pad_now is not None and py_pad_size(final_style, pad_now) != w0:
                f.append('after the style switch the pad characters %r denote width %d under style %d, the sequence has width %d' % (
                    pad_now, py_pad_size(final_style, pad_now), final_style, w0))
    return f


# ------------------------------------------------------------------ C13

def enum_range(s, e, st):
    """the property's own words: start, start+step, ... up to the last value not past end"""
    if st == 0:
        st = 1 if s <= e else -1
    out = []
    v = s
    if s <= e:
        if st < 0:
            return None     # sign disagrees with direction: outside the property
        while v <= e:
            out.append(v)
            v += st
    else:
        if st > 0:
            return None
        while v >= e:
            out.append(v)
            v += st
    return out


def walk_dir(s, e, st):
    """appended enumeration: the step takes the sign of the direction whatever sign was given"""
    k = abs(st)
    return enum_range(s, e, k if s <= e else -k)


def check_views(kv, L, f, what):
    """every accessor against the enumerated list L (shared by C13 and C02)"""
    n = len(L)
    if int(kv['len']) != n:
        f.append('%s: len %s, enumeration has %d' % (what, kv['len'], n))
    if zl(kv['frames']) != L:
        f.append('%s: iterator %s, enumeration %s' % (what, kv['frames'][:80], L[:20]))
    if n:
        if int(kv['start']) != L[0] or int(kv['end']) != L[-1]:
            f.append('%s: start/end %s/%s, enumeration %d/%d' % (what, kv['start'], kv['end'], L[0], L[-1]))
        if 'min' in kv and (int(kv['min']) != min(L) or int(kv['max']) != max(L)):
            f.append('%s: min/max %s/%s' % (what, kv['min'], kv['max']))
    if 'value' not in kv:
        return             # coordinates at the edge of the int range: the driver's probe loops are skipped
    vals = kv['value'].split(',')
    for j, v in enumerate(vals):
        i = j - 2
        if 0 <= i < n:
            if v == 'E' or int(v) != L[i]:
                f.append('%s: value(%d) = %s, expected %d' % (what, i, v, L[i]))
                break
        elif v != 'E':
            f.append('%s: value(%d) = %s, expected an error' % (what, i, v))
            break
    mn = min(L) if L else 0
    mx = max(L) if L else 0
    idx = zl(kv['index'])
    has = kv['has']
    pos = {}
    for i, v in enumerate(L):
        pos.setdefault(v, i)
    for j in range(len(idx)):
        v = mn - 2 + j
        exp = pos.get(v, -1)
        if idx[j] != exp:
            f.append('%s: index(%d) = %d, expected %d' % (what, v, idx[j], exp))
            break
        if (has[j] == '1') != (v in pos):
            f.append('%s: contains(%d) = %s' % (what, v, has[j]))
            break


def c13_cases(rng, tier):
    out = []
    R = 4 if tier == 'quick' else 7
    for s in range(-R, R + 1):
        for e in range(-R, R + 1):
            for st in range(-R - 1, R + 2):
                out.append(case('ir', [s, e, st], 'range(%d,%d,%d)' % (s, e, st), 'cube',
                                dict(s=s, e=e, st=st), nontrivial=(s != e)))
    # translated / large coordinates
    for _ in range(300 if tier == 'quick' else 5000):
        # incl. offsets that a float64 cannot hold exactly (odd values above 2^53, 2^60 + small)
        off = rng.choice([10 ** 9, -10 ** 9, 10 ** 13, -10 ** 13, 2 ** 40, 0, 2 ** 53 + 1, -(2 ** 53) - 3, 2 ** 60 + 7, -(2 ** 61) + 5, 2 ** 62 - 101])
        s = off + rng.randint(-30, 30)
        e = s + rng.randint(-60, 60)
        st = rng.randint(-9, 9)
        out.append(case('ir', [s, e, st], 'range(%d,%d,%d)' % (s, e, st), 'translated', dict(s=s, e=e, st=st)))
    # AppendUnique histories
    alpha = []
    for (s, e) in [(1, 5), (5, 1), (3, 3), (0, 10), (10, 0), (-3, 4), (4, -3), (6, 12), (12, 6), (2, 9)]:
        for st in ([1, -1, 2, -3] if (s, e) != (3, 3) else [1, 0]):
            alpha.append((s, e, st))
    hist = []
    if tier == 'quick':
        for _ in range(1500):
            hist.append([rng.choice(alpha) for _ in range(rng.randint(1, 3))])
    else:
        for k in (1, 2, 3):
            for t in itertools.product(alpha, repeat=k):
                hist.append(list(t))
    for _ in range(500 if tier == 'quick' else 20000):
        h = []
        off = rng.choice([0, 0, 0, 10 ** 9, -10 ** 13, 2 ** 53 + 1, -(2 ** 60) - 9])
        for _ in range(rng.randint(2, 8)):
            s = off + rng.randint(-15, 30)
            e = s + rng.randint(-25, 25)
            h.append((s, e, rng.randint(-6, 6)))
        hist.append(h)
    # histories at the edge of the int range: a loop that steps past its end wraps around (D20)
    MAXI, MINI = 2 ** 63 - 1, -(2 ** 63)
    for _ in range(150 if tier == 'quick' else 4000):
        h = []
        top = rng.random() < 0.5
        for _ in range(rng.randint(1, 5)):
            if top:
                s_ = MAXI - rng.randint(0, 40)
                e_ = MAXI - rng.choice([0, 0, rng.randint(0, 40)])
            else:
                s_ = MINI + rng.randint(0, 40)
                e_ = MINI + rng.choice([0, 0, rng.randint(0, 40)])
            if rng.random() < 0.3:
                s_, e_ = e_, s_
            h.append((s_, e_, rng.choice([1, -1, 2, -2, 3, 7, -5, 41])))
        hist.append(h)
    for h in hist:
        out.append(case('rs', ['%d,%d,%d' % t for t in h], 'AppendUnique' + ''.join('(%d,%d,%d)' % t for t in h),
                        'history-%d' % min(len(h), 4), dict(h=h)))
    return out


def c13_oracle(c, impl):
    st, kv, bare = impl
    m = c['meta']
    f = []
    if st != 'OK':
        return ['status ' + st]
    if 'M_bycount' in kv and kv['M_bycount'] != kv['frames']:
        f.append('Len() calls of Next() gave %s, the container holds %s' % (kv['M_bycount'][:80], kv['frames'][:80]))
    if c['op'] == 'ir':
        L = enum_range(m['s'], m['e'], m['st'])
        if L is None:
            return []          # step sign disagrees with the direction: not quantified
        check_views(kv, L, f, 'range')
        if int(kv['rend']) != L[-1]:
            f.append('End() = %s, last enumerated value %d' % (kv['rend'], L[-1]))
        if 'rvalue' in kv:
            # the single range's own accessors, asked directly (not through the multi-range wrapper)
            direct = dict(len=kv['rlen'], frames=kv['riter'], start=str(m['s']), end=kv['rend'], min=kv['rmin'], max=kv['rmax'],
                          value=kv['rvalue'], index=kv['rindex'], has=kv['rhas'])
            check_views(direct, L, f, 'range (direct)')
    else:
        L = []
        for (s, e, stp) in m['h']:
            if stp == 0:
                continue
            L += walk_dir(s, e, stp)
        L = dedup_first(L)
        check_views(kv, L, f, 'ranges')
    return f


def c13_extra_lines(c, impl):
    """second round: the printed form parses back as a frame range to the same values"""
    st, kv, bare = impl
    m = c['meta']
    if c['op'] == 'ir' and enum_range(m['s'], m['e'], m['st']) is None:
        return []          # step sign disagrees with the direction: not quantified
    if st == 'OK' and kv.get('str', '-') != '-' and int(kv['len']) > 0:
        return [line('fs', unhx(kv['str']).decode('latin-1'))]
    return []


def c13_extra_oracle(c, impl, extra_impl):
    st, kv, bare = impl
    f = []
    for e in extra_impl:
        est, ekv, _ = e
        if est != 'OK' or zl(ekv['frames']) != zl(kv['frames']):
            f.append('printed form %r re-parses to %s, container holds %s' %
                     (unhx(kv['str']), ekv.get('frames', est)[:60], kv['frames'][:60]))
    return f


# ------------------------------------------------------------------ C01 / C02

def range_cases(rng, tier, nvalid, nbad, sweep):
    out = []
    for _ in range(nvalid):
        s, sh = gens.range_string(rng)
        out.append(case('fs', [s], s, 'valid:' + sh.split('|')[0] + ('+' if '|' in sh else ''), dict(s=s, valid=True)))
    for _ in range(nbad):
        s, sh = gens.malformed_range(rng)
        out.append(case('fs', [s], s, 'malformed:' + sh, dict(s=s, valid=False)))
    if sweep:
        for s in gens.token_sweep(sweep):
            out.append(case('fs', [s], s, 'sweep', dict(s=s, valid=True)))
    # components that end on the largest / smallest int (a loop stepping past them wraps: D20),
    # and staggered / filled components whose ends coincide
    M = 2 ** 63 - 1
    for s in ['1,%d' % M, '%d,%d-%d' % (M, M - 4, M - 3), '%d-%d,%d' % (M - 4, M - 3, M), '%d-%d,%d-%d' % (M - 9, M - 3, M - 5, M),
              '%d-%dx3,%d-%dx2' % (M - 9, M, M - 8, M), '5,%d' % (-M - 1), '%d-%d,%d-%d' % (-M + 5, -M, -M + 8, -M - 1),
              '%d-%dx-3,%d' % (-M + 7, -M - 1, -M), '%d-%d' % (M, M - 6), '%d-%d' % (-M - 1, -M + 6),
              '1-10x%d' % M, '10-1x%d' % M, '-5-5x%d,7' % M, '1-10x%d' % (M - 7), '7,1-10x%d' % M, '1-10x-%d' % M, '3-3x%d' % M, '0-%dx%d' % (M - 1, M - 1),
              '5-5:3', '1-3,7-7:2,10', '-4--4:1', '9-9y2', '1-1x5,1-1:5,1-1y5', '3,3-3:7', '0-0:1']:
        out.append(case('fs', [s], s, 'edge', dict(s=s, valid=True)))
    return out


def c01_cases(rng, tier):
    if tier == 'quick':
        return range_cases(rng, tier, 3000, 1200, 1)
    return range_cases(rng, tier, 150000, 40000, 2)


def c01_oracle(c, impl):
    st, kv, bare = impl
    f = []
    spec = c['spec'].get('S_frames')
    if spec is None:
        return ['no spec answer']
    if st == 'PANIC':
        return ['NewFrameSet panicked']
    if st == 'HANG':
        return ['NewFrameSet (or an accessor of the parsed set) did not return within 30 s']
    if spec == 'ERR':
        if st != 'ERR':
            f.append('string outside the grammar (or zero step / number not fitting an int) was accepted: frames %s' % kv.get('frames', '?')[:80])
    else:
        if st != 'OK':
            f.append('valid range string rejected; it denotes %s' % spec[:80])
        elif zl(kv['frames']) != zl(spec):
            f.append('frames %s, the shorthand denotes %s' % (kv['frames'][:100], spec[:100]))
    return f


def c02_edge_cases(rng, n):
    """single components whose step is huge (its product with an index wraps around 2^64), asked at
    explicit indices and values through the fsbig op"""
    out = []
    for _ in range(n):
        k = rng.choice([1 << 62, 1 << 63, 1 << 61, 1 << 60, 3 << 60, 1 << 32, (1 << 62) + 2, rng.randint(1 << 40, 1 << 62)])
        down = rng.random() < 0.5
        d = -k if down else k
        a = rng.choice([0, 0, 5, -7, rng.randint(-1000, 1000)])
        cnt = rng.choice([1, 1, 2, 2, 3, 4])
        while cnt > 1 and not (-(1 << 63) <= a + d * (cnt - 1) < (1 << 63) and abs(d * (cnt - 1)) < (1 << 63)):
            cnt -= 1
        last = a + d * (cnt - 1)
        slack = rng.choice([0, 0, 1, 3]) if cnt > 1 or rng.random() < 0.5 else 0
        b = last + (slack if not down else -slack)
        if cnt == 1 and b == a:
            b = a + (3 if not down else -3)
            if k <= 3:
                continue
        if not (-(1 << 63) <= b < (1 << 63)) or not (-(1 << 63) <= d < (1 << 63)) or abs(b - a) >= (1 << 63):
            continue
        r = '%d-%dx%d' % (a, b, d if rng.random() < 0.7 else abs(d)) if abs(d) < (1 << 63) or d < 0 else None
        if r is None or (abs(d) == (1 << 63) and 'x-' not in r):
            continue
        idxs = list(range(-2, cnt + 6)) + [1 << 32, (1 << 62) + 1, (1 << 63) - 1, -(1 << 63), 1 << 61]
        vals = [a + d * i for i in range(-1, cnt + 2)] + [a + 1, last - 1, b, 0, 5]
        vals = [v for v in vals if -(1 << 63) <= v < (1 << 63)]
        out.append(case('fsbig', [r, ','.join(map(str, idxs)), ','.join(map(str, vals))], r, 'edge:huge-step',
                        dict(kind='edge', a=a, d=d, n=cnt, idxs=idxs, vals=vals, r=r)))
    return out


def c02_cases(rng, tier):
    if tier == 'quick':
        return range_cases(rng, tier, 2500, 0, 1) + c02_edge_cases(rng, 200)
    return range_cases(rng, tier, 100000, 0, 2) + c02_edge_cases(rng, 5000)


def c02_oracle(c, impl):
    st, kv, bare = impl
    if st != 'OK':
        return []          # C02 quantifies over accepted strings
    f = []
    m = c['meta']
    if m.get('kind') == 'edge':
        a, d, n = m['a'], m['d'], m['n']
        if int(kv['len']) != n or int(kv['start']) != a or int(kv['end']) != a + d * (n - 1):
            f.append('len/start/end %s/%s/%s, the component denotes %d frames from %d to %d' % (kv['len'], kv['start'], kv['end'], n, a, a + d * (n - 1)))
        for i, v in zip(m['idxs'], kv['value'].split(',')):
            exp = str(a + d * i) if 0 <= i < n else 'E'
            if v != exp:
                f.append('frame at index %d = %s, expected %s' % (i, v, exp))
        for v, ix, h in zip(m['vals'], zl(kv['index']), kv['has']):
            mem = (v - a) % d == 0 and 0 <= (v - a) // d < n
            exp = (v - a) // d if mem else -1
            if ix != exp or (h == '1') != mem:
                f.append('index-of / membership of %d = %d/%s, expected %d/%s' % (v, ix, h, exp, mem))
        return f
    L = zl(kv['frames'])
    if len(set(L)) != len(L):
        f.append('enumerated frames contain a duplicate: %s' % kv['frames'][:100])
    check_views(kv, L, f, 'frameset')
    return f


# ------------------------------------------------------------------ C08

def c08_cases(rng, tier):
    out = []
    K = 10 if tier == 'quick' else 13
    masks = range(1, 1 << (K + 1))
    if tier == 'quick':
        masks = [m for m in masks if m % 3 != 2][:1400]
    for mk in masks:
        members = [i for i in range(K + 1) if mk >> i & 1]
        variants = [','.join(map(str, members))]
        if tier != 'quick' or mk % 7 == 0:
            r = list(members)
            rng.shuffle(r)
            variants.append(','.join(map(str, r)))
            variants.append(','.join(map(str, reversed(members))))
        for i, s in enumerate(variants):
            out.append(case('norm', [s], s, 'subset', dict(s=s, group='m%d' % mk)))
    for _ in range(800 if tier == 'quick' else 60000):
        s, sh = gens.range_string(rng, deco=False)
        out.append(case('norm', [s], s, 'grammar', dict(s=s, group=None)))
    # small sets sitting at the largest / smallest int: bounds like max+1 wrap around there
    for _ in range(60 if tier == 'quick' else 3000):
        base = rng.choice([2 ** 63 - 1, 2 ** 63 - 1, 2 ** 63 - 1 - rng.randint(1, 5)]) - 12 if rng.random() < 0.6 else -(2 ** 63)
        members = sorted(set(rng.randint(0, 12) for _ in range(rng.randint(1, 7))))
        if rng.random() < 0.6:
            members = sorted(set(members + [12 if base > 0 else 0]))
        vals = [base + i for i in members]
        if rng.random() < 0.4:
            rng.shuffle(vals)
        s = ','.join(map(str, vals))
        out.append(case('norm', [s], s, 'int-edge', dict(s=s, group=None)))
    return out


def strip_zeros(s):
    return re.sub(r'(?<![0-9])(-?)0+(?=[0-9])', r'\1', s)


def c08_oracle(c, impl):
    st, kv, bare = impl
    if st != 'OK':
        return []
    frames = zl(kv['frames'])
    if not frames:
        return []          # the property speaks of ranges that denote at least one frame
    f = []
    S = c['spec']
    if zl(kv['nframes']) != zl(S['S_nframes']):
        f.append('Normalize gives %s, the sorted set is %s' % (kv['nframes'][:80], S['S_nframes'][:80]))
    if zl(kv['iframes']) != zl(S['S_iframes']):
        f.append('Invert gives %s, the complement is %s' % (kv['iframes'][:80], S['S_iframes'][:80]))
    if kv['nre'] != kv['nframes']:
        f.append('normalized string %r re-parses to %s' % (unhx(kv['nstr']), kv['nre'][:80]))
    if kv['ire'] != kv['iframes']:
        f.append('inverted string %r re-parses to %s, Invert holds %s' % (unhx(kv['istr']), kv['ire'][:80], kv['iframes'][:80]))
    if kv['nnstr'] != kv['nstr']:
        f.append('Normalize is not idempotent: %r then %r' % (unhx(kv['nstr']), unhx(kv['nnstr'])))
    ip = kv['ipad'].split(',')
    ipre = kv['ipadre'].split(';')
    base = unhx(ip[0]).decode('latin-1')
    if ip[0] != kv['istr']:
        f.append('InvertedFrameRange(0) differs from Invert().FrameRange()')
    for p in range(7):
        t = unhx(ip[p]).decode('latin-1')
        if strip_zeros(t) != strip_zeros(base):
            f.append('padded inverted range %r differs from %r by more than leading zeros' % (t, base))
        if ipre[p] != kv['iframes']:
            f.append('InvertedFrameRange(%d) = %r parses to %s' % (p, t, ipre[p][:60]))
    return f


# ------------------------------------------------------------------ C09

def c09_cases(rng, tier):
    out = []

    def add(l, srt, z, shape):
        out.append(case('f2r', [','.join(map(str, l)), 1 if srt else 0, z],
                        'frames=%s sorted=%s zfill=%d' % (l, srt, z), shape, dict(l=l, srt=srt, z=z),
                        nontrivial=len(l) >= 3))
    if tier == 'quick':
        for _ in range(4000):
            l = gens.runs_list(rng) if rng.random() < 0.7 else gens.distinct_ints(rng, rng.randint(0, 9))
            add(l, rng.random() < 0.4, rng.choice([0, 0, 1, 2, 3, 4, 6]), 'runs' if len(l) > 2 else 'short')
        c09_big_stride_cases(rng, 150, add)
        univ = list(range(-2, 5))
        for k in range(0, 5):
            for sub in itertools.combinations(univ, k):
                for perm in itertools.permutations(sub):
                    add(list(perm), False, 0, 'perm')
    else:
        univ = list(range(-3, 6))
        for k in range(0, 7):
            for sub in itertools.combinations(univ, k):
                for perm in itertools.permutations(sub):
                    add(list(perm), False, 0, 'perm')
                    if k <= 4:
                        for z in (2, 3):
                            add(list(perm), True, z, 'perm-z')
        c09_big_stride_cases(rng, 5000, add)
        for _ in range(150000):
            l = gens.runs_list(rng) if rng.random() < 0.7 else gens.distinct_ints(rng, rng.randint(0, 12))
            add(l, rng.random() < 0.4, rng.choice([0, 1, 2, 3, 4, 5, 6]), 'runs')
    return out


def c09_big_stride_cases(rng, n, add):
    """runs whose stride exceeds 2^31 (offset x stride no longer fits an int), with extra frames on and
    off the run's lattice beyond its end"""
    for _ in range(n):
        stride = rng.choice([4000000000, 1 << 32, 1 << 32, (1 << 32) + 1, (1 << 33) - 1, 3000000007, 1 << 40, rng.randint(1 << 31, 1 << 34)])
        a = rng.choice([0, 0, 5, -3, rng.randint(-10 ** 6, 10 ** 6)])
        k = rng.randint(3, 5)
        if rng.random() < 0.2:
            # span + stride reaches 2^63 although span and stride each fit: two frames 2^62 apart or more,
            # three frames more than 3.07e18 apart
            if rng.random() < 0.5:
                stride, k, a = rng.choice([1 << 62, 7 * 10 ** 18, (1 << 62) + 12345]), 2, rng.choice([0, -3 * 10 ** 18, 5])
            else:
                stride, k, a = rng.choice([31 * 10 ** 17, 3074457345618258603]), 3, rng.choice([-4 * 10 ** 18, -(1 << 62)])
            l = [a + i * stride for i in range(k)] + [rng.choice([5, 7, -9])]
            if rng.random() < 0.3:
                l.reverse()
            if all(-(1 << 63) <= x < (1 << 63) for x in l) and len(set(l)) == len(l):
                add(l, rng.random() < 0.3, rng.choice([0, 0, 2, 6]), 'big-stride')
            continue
        l = [a + i * stride for i in range(k)]
        extra = [a + (k + rng.randint(0, 2)) * stride, a + rng.randint(1, 9), a - stride, a + (k + 1) * stride + 1]
        for x in rng.sample(extra, rng.randint(0, 3)):
            if x not in l:
                l.insert(rng.randrange(len(l) + 1) if rng.random() < 0.4 else len(l), x)
        if rng.random() < 0.3:
            l.reverse()
        add(l, rng.random() < 0.3, rng.choice([0, 0, 2]), 'big-stride')


def c09_oracle(c, impl):
    st, kv, bare = impl
    m = c['meta']
    if st != 'OK':
        return ['status ' + st]
    s = unhx(kv['s']).decode('latin-1')
    f = []
    l = m['l']
    if not l:
        if s != '':
            f.append('empty list gives %r' % s)
        return f
    exp = sorted(l) if m['srt'] else l
    if kv['re'] == 'ERR' or zl(kv['re']) != exp:
        f.append('FramesToFrameRange = %r parses back to %s, expected %s' % (s, kv['re'][:80], exp[:20]))
    if m['z'] >= 2:
        for part in s.split(','):
            mm = re.fullmatch(r'(-?\d+)(?:-(-?\d+)(?:x-?\d+)?)?', part, re.ASCII)
            if not mm:
                f.append('unexpected component %r' % part)
                continue
            for g in (mm.group(1), mm.group(2)):
                if g is not None and len(g) < m['z']:
                    f.append('number %r in %r is not padded to %d' % (g, s, m['z']))
    return f


# ------------------------------------------------------------------ C11

def c11_cases(rng, tier):
    out = []
    n = 5000 if tier == 'quick' else 200000
    for _ in range(n):
        k = rng.random()
        if k < 0.6:
            s, sh = gens.range_string(rng, deco=rng.random() < 0.3)
            sh = 'valid'
        elif k < 0.8:
            s, sh = gens.malformed_range(rng)
        else:
            # partially invalid: valid components mixed with junk
            parts = [gens.comp(rng)[0] for _ in range(rng.randint(1, 3))]
            parts.insert(rng.randrange(len(parts) + 1), rng.choice(['a', '', ' 2', '1-', 'x', '1-5#', '3 ', '--1', '1-2-3', '\xe9']))
            s, sh = ','.join(parts), 'partial'
        w = rng.choice([-1, 0, 1, 2, 3, 4, 5, 8, 8, rng.choice([9, 10, 11, 12, 13, 17, 24, 40])])
        out.append(case('padfr', [s, w], '%r width=%d' % (s, w), sh, dict(s=s, w=w), nontrivial=w >= 2))
    return out


COMP_RE = re.compile(r'(-?\d+)(?:-(-?\d+)(?:([:xy])(-?\d+))?)?\Z', re.ASCII)


def py_zfill_str(t, w):
    if len(t) >= w:
        return t
    if t.startswith('-'):
        return '-' + '0' * (w - len(t)) + t[1:]
    return '0' * (w - len(t)) + t


def c11_oracle(c, impl):
    st, kv, bare = impl
    m = c['meta']
    if st != 'OK':
        return ['status ' + st]
    s, w = m['s'], m['w']
    t = unhx(kv['s']).decode('latin-1')
    f = []
    if w < 2:
        if t != s:
            f.append('width %d changed the text: %r -> %r' % (w, s, t))
        return f
    a, b = s.split(','), t.split(',')
    if len(a) != len(b):
        f.append('component count changed: %r -> %r' % (s, t))
    else:
        for x, y in zip(a, b):
            mm = COMP_RE.match(x)
            if not mm:
                if y != x:
                    f.append('component %r that is not a range was not passed through in place (got %r)' % (x, y))
                continue
            exp = py_zfill_str(mm.group(1), w)
            if mm.group(2) is not None:
                exp += '-' + py_zfill_str(mm.group(2), w)
            if mm.group(3) is not None:
                exp += mm.group(3) + mm.group(4)
            if y != exp:
                f.append('component %r padded to %r, expected %r' % (x, y, exp))
    if kv['in'] != kv['out']:
        f.append('padding changed the parse: %r -> %s, %r -> %s' % (s, kv['in'][:60], t, kv['out'][:60]))
    if kv['again'] != kv['s']:
        f.append('padding is not idempotent on %r' % s)
    return f


# ------------------------------------------------------------------ sequences: shared helpers

def go_clean(p):
    """port of the documented filepath.Clean rules (Unix)"""
    if p == '':
        return '.'
    rooted = p.startswith('/')
    out = []
    for e in p.split('/'):
        if e == '' or e == '.':
            continue
        if e == '..':
            if out and out[-1] != '..':
                out.pop()
            elif not rooted:
                out.append('..')
        else:
            out.append(e)
    body = '/'.join(out)
    if rooted:
        return '/' + body
    return body or '.'


PAD_TOKEN_RE = re.compile(r'#|@|\$F|<UDIM>|%\(UDIM\)d|%\d*d', re.ASCII)


def unambiguous(d, b, r, p, e):
    """the C03 domain, in the property's words"""
    if d and not d.endswith('/'):
        return False
    if '/' in b:
        return False
    name = d + b
    if '\n' in name or PAD_TOKEN_RE.search(name):
        return False
    tail = re.search(r'[:xy\d,-]*\Z', name, re.ASCII).group(0)
    if re.search(r'[\d-]', tail):
        return False
    if r != '' and not re.fullmatch(r'-?\d+(-(-?\d+)([:xy]-?\d+)?)?(,-?\d+(-(-?\d+)([:xy]-?\d+)?)?)*', r, re.ASCII):
        return False
    if not (re.fullmatch(r'[#@]+', p) or re.fullmatch(r'%\d*d', p, re.ASCII) or re.fullmatch(r'\$F\d*', p, re.ASCII)
            or p in ('<UDIM>', '%(UDIM)d')):
        return False
    if e and (not e.startswith('.') or '\n' in e):
        return False
    return True


def expand_comp(a, b, md, n):
    if md is None:
        return walk_dir(a, b, 1)
    k = abs(n)
    if md == 'x':
        return walk_dir(a, b, k)
    if md == 'y':
        skip = set(walk_dir(a, b, k))
        return [v for v in walk_dir(a, b, 1) if v not in skip]
    out = []
    for j in range(k, 0, -1):
        out += walk_dir(a, b, j)
    return out


def gen_range_comps(rng, maxcomp=3, lo=-12, hi=40):
    """(text, frames) of a valid undecorated range"""
    parts, frames = [], []
    for _ in range(rng.randint(1, maxcomp)):
        a = rng.randint(lo, hi)
        k = rng.random()
        if k < 0.25:
            parts.append(str(a))
            frames += [a]
            continue
        b = rng.randint(lo, hi)
        if k < 0.6:
            parts.append('%d-%d' % (a, b))
            frames += walk_dir(a, b, 1)
            continue
        md = rng.choice('xxy:')
        n = rng.randint(1, 5) * rng.choice([1, 1, 1, -1])
        parts.append('%d-%d%s%d' % (a, b, md, n))
        frames += expand_comp(a, b, md, n)
    return ','.join(parts), dedup_first(frames)


def seq_tuple(rng):
    d = gens.directory(rng)
    b = gens.basename(rng)
    r, frames = gen_range_comps(rng) if rng.random() < 0.85 else ('', None)
    p = rng.choice(gens.PAD_TOKENS)
    e = gens.extension(rng)
    st = rng.choice([0, 1])
    return d, b, r, frames, p, e, st


def expected_paths(d, b, e, frames, w):
    return [d + b + py_zfill(f, w) + e for f in frames]


PATH_CAP = 2000


def inner_paths(ps, nframes):
    """the drivers print Index(-1 .. min(len, PATH_CAP)); returns the paths of indices 0 .. min(len,cap)-1"""
    return ps[1:1 + min(nframes, PATH_CAP)]


# ------------------------------------------------------------------ C03

def c03_cases(rng, tier):
    out = []
    n = 12000 if tier == 'quick' else 120000
    tries = 0
    while len(out) < n and tries < n * 5:
        tries += 1
        d, b, r, frames, p, e, st = seq_tuple(rng)
        if not unambiguous(d, b, r, p, e):
            continue
        s = d + b + r + p + e
        out.append(case('seq', [s, st], '%r style=%d' % (s, st), 'pad:' + ('hash' if p[0] in '#@' else p[:2]) + (':norange' if r == '' else ''),
                        dict(d=d, b=b, r=r, frames=frames, p=p, e=e, st=st, s=s)))
    return out


def c03_oracle(c, impl):
    st, kv, bare = impl
    m = c['meta']
    if st != 'OK':
        return ['parse failed with status ' + st]
    f = []
    got = dict(dir=unhx(kv['dir']).decode('latin-1'), base=unhx(kv['base']).decode('latin-1'),
               frange=unhx(kv['frange']).decode('latin-1'), pad=unhx(kv['pad']).decode('latin-1'),
               ext=unhx(kv['ext']).decode('latin-1'))
    exp = dict(dir=m['d'], base=m['b'], frange=m['r'], pad=m['p'], ext=m['e'])
    if got != exp:
        f.append('components %r, expected %r' % (got, exp))
    w = py_pad_size(m['st'], m['p'])
    if int(kv['zfill']) != w:
        f.append('pad width %s, the token %r denotes %d under style %d' % (kv['zfill'], m['p'], w, m['st']))
    if unhx(kv['string']).decode('latin-1') != m['s']:
        f.append('String() = %r' % unhx(kv['string']))
    if unhx(kv['fmt']).decode('latin-1') != m['s']:
        f.append('Format() = %r' % unhx(kv['fmt']))
    if m['frames'] is not None:
        if kv['hasfs'] != '1' or int(kv['len']) != len(m['frames']):
            f.append('frame set has %s frames, the range denotes %d' % (kv['len'], len(m['frames'])))
        elif m['frames']:
            ps = [unhx(x).decode('latin-1') for x in kv['paths'].split(',')][1:-1]
            if ps != expected_paths(m['d'], m['b'], m['e'], m['frames'], w):
                f.append('frame paths do not follow the frame set of the range')
    else:
        if kv['hasfs'] != '0':
            f.append('a frame set appeared although the range is empty')
    return f


# ------------------------------------------------------------------ C04

def c04_cases(rng, tier):
    out = []
    n = 5000 if tier == 'quick' else 60000
    tries = 0
    while len(out) < n and tries < n * 5:
        tries += 1
        d, b, r, frames, p, e, st = seq_tuple(rng)
        if r == '' or not unambiguous(d, b, r, p, e):
            continue
        if rng.random() < 0.3:
            p = rng.choice(['#', '@']) * rng.randint(1, 12)
        s = d + b + r + p + e
        probes = [rng.choice([0, 1, -1, 7, -7, 12, 100, -100, 99999, -99999, 123456789, rng.randint(-2000, 2000)]) for _ in range(4)]
        out.append(case('seq', [s, st] + [str(x) for x in probes], '%r style=%d probes=%s' % (s, st, probes), 'sequence',
                        dict(kind='seq', d=d, b=b, r=r, frames=frames, p=p, e=e, st=st, s=s, probes=probes)))
    m = 5000 if tier == 'quick' else 60000
    for _ in range(m):
        d = gens.directory(rng)
        b = gens.basename(rng)
        k = rng.random()
        if k < 0.8:
            digits = str(rng.randint(0, 10 ** rng.randint(1, 6)))
            digits = '0' * rng.choice([0, 0, 1, 2, 3, 5]) + digits
            if rng.random() < 0.2:
                digits = '-' + digits
        elif k < 0.9:
            digits = ''
        else:
            digits = rng.choice(['-0', '-00', '0', '000', '-000123', '00000000000000000001', '123456789012345678'])
        e = gens.extension(rng)
        if rng.random() < 0.1:
            e = rng.choice(['.tar.gz', '.v1.exr', '.1', '.a1', '.1a', '._', '.x.y.z', '.e-x'])
        s = d + b + digits + e
        if s == '' or '#' in s or '@' in s:
            continue
        st = rng.choice([0, 1])
        out.append(case('seq', [s, st], '%r style=%d' % (s, st), 'concrete:' + ('noframe' if digits == '' else ('neg' if digits[0] == '-' else 'pos')),
                        dict(kind='file', s=s, st=st)))
    return out


def c04_oracle(c, impl):
    st, kv, bare = impl
    m = c['meta']
    if st != 'OK':
        return ['parse failed with status ' + st]
    f = []
    ps = [unhx(x).decode('latin-1') for x in kv['paths'].split(',')]
    if m['kind'] == 'file':
        if ps[1] != m['s']:
            f.append('Index(0) = %r for the concrete path %r' % (ps[1], m['s']))
        return f
    w = py_pad_size(m['st'], m['p'])
    exp = expected_paths(m['d'], m['b'], m['e'], m['frames'], w)
    if ps[0] != '' or ps[-1] != '':
        f.append('an index outside [0,len) gave %r / %r' % (ps[0], ps[-1]))
    if 'M_repad' in kv:
        rp = [unhx(x).decode('latin-1') for x in kv['M_repad'].split(',')]
        want = [m['d'] + m['b'] + py_zfill(-5, 9) + m['e'], m['d'] + m['b'] + py_zfill(m['frames'][0], 2) + m['e']] if m['frames'] else rp
        if rp != want:
            f.append('after SetPadding("%%09d") / SetPadding("@@") on the queried sequence: Frame(-5), Index(0) = %r, expected %r' % (rp, want))
    if '1' in kv.get('M_far', ''):
        f.append('an index far outside [0,len) gave a path (probe pattern %s)' % kv['M_far'])
    if ps[1:-1] != exp:
        bad = [i for i, (x, y) in enumerate(zip(ps[1:-1], exp)) if x != y]
        f.append('path at index %s is %r, expected %r' % (bad[:1], ps[1:-1][bad[0]] if bad else ps[1:3], exp[bad[0]] if bad else exp[:2]))
    if len(set(ps[1:-1])) != len(ps[1:-1]):
        f.append('frame paths are not pairwise distinct')
    fi = [unhx(x).decode('latin-1') for x in kv['frame'].split(',')]
    fs = [unhx(x).decode('latin-1') for x in kv['frames'].split(',')]
    for pr, a, b in zip(m['probes'], fi, fs):
        e = m['d'] + m['b'] + py_zfill(pr, w) + m['e']
        if a != e:
            f.append('Frame(%d) = %r, expected %r' % (pr, a, e))
        if b != e:
            f.append('Frame("%d") = %r, expected %r' % (pr, b, e))
    return f


# ------------------------------------------------------------------ C12

DOC_PADS = ['#', '##', '@', '@@@', '#@', '%04d', '%d', '$F3', '$F', '<UDIM>', '%(UDIM)d']


def c12_cases(rng, tier):
    out = []
    n = 2500 if tier == 'quick' else 50000
    tries = 0
    while len(out) < n and tries < n * 5:
        tries += 1
        d, b, r, frames, p, e, st = seq_tuple(rng)
        if r == '' or not unambiguous(d, b, r, p, e):
            continue
        s = d + b + r + p + e
        ops = []
        for _ in range(rng.randint(0, 8)):
            k = rng.randrange(9)
            if k == 0:
                ops.append('D' + rng.choice(['/x/y', '/x/y/', 'rel', 'rel/', '/', '/a.b/c', 'q/w/e/', 'C:\\shots\\sh020\\', 'C:\\shots\\sh010', 'a\\b', 'a\\b/', '\\']))
            elif k == 1:
                ops.append('B' + gens.basename(rng))
            elif k == 2:
                ops.append('E' + rng.choice(['.jpg', 'jpg', '.tar.gz', 'tar.gz', '.x', 'e']))
            elif k == 3:
                ops.append('P' + rng.choice(DOC_PADS))
            elif k == 4:
                ops.append('S' + str(rng.choice([0, 1])))
            elif k == 5:
                ops.append('R' + gen_range_comps(rng)[0])
            elif k == 6:
                ops.append('R' + gens.malformed_range(rng)[0])
            elif k == 7:
                ops.append('F' + gen_range_comps(rng)[0])
            else:
                ops.append(rng.choice(['N', 'N', 'R' + gens.range_string(rng)[0]]))
        out.append(case('seqops', [s, st] + ops, '%r style=%d ops=%r' % (s, st, ops), 'history-%d' % min(len(ops), 5),
                        dict(d=d, b=b, r=r, p=p, e=e, st=st, s=s, ops=ops), nontrivial=len(ops) > 0))
    return out


def parse_range_py(s):
    """frames of a range string per the documented shorthand, or None"""
    t = re.sub(r'[ #@]', '', s)
    frames = []
    for part in t.split(','):
        mm = re.fullmatch(r'(-?\d+)(?:-(-?\d+)(?:([:xy])(-?\d+))?)?', part, re.ASCII)
        if not mm:
            return None
        nums = [int(g) for g in (mm.group(1), mm.group(2), mm.group(4)) if g is not None]
        if any(x >= 2 ** 63 or x < -2 ** 63 for x in nums):
            return None
        a = nums[0]
        if mm.group(2) is None:
            frames.append(a)
            continue
        b = nums[1]
        if abs(b - a) > 200000:
            raise ValueError('range too large for the oracle')
        if mm.group(3) is None:
            frames += walk_dir(a, b, 1)
        else:
            n = nums[2]
            if n == 0:
                return None
            frames += expand_comp(a, b, mm.group(3), n)
    return dedup_first(frames)


def split_sections(line_):
    """'OK <main> COPY <copy> PART <p1> PART <p2>' -> (main, copy, [parts]) as kv dicts (or None for nil)"""
    toks = line_.split(' ')
    secs, cur, name = [], [], 'MAIN'
    for t in toks[1:]:
        if t in ('COPY', 'PART'):
            secs.append((name, cur))
            cur, name = [], t
        else:
            cur.append(t)
    secs.append((name, cur))

    def kvs(ts):
        if ts == ['nil']:
            return None
        return dict(t.split('=', 1) for t in ts if '=' in t)
    main = kvs(secs[0][1])
    copy = kvs(secs[1][1]) if len(secs) > 1 else None
    parts = [kvs(s[1]) for s in secs[2:]]
    return main, copy, parts


def dec(kv, k):
    return unhx(kv[k]).decode('latin-1')


def c12_oracle(c, impl_line):
    m = c['meta']
    if not impl_line.startswith('OK'):
        return ['status ' + impl_line[:20]]
    main, copy, parts = split_sections(impl_line)
    f = []
    if ' M_alias=1' in impl_line:
        f.append('changing the copy or a split part changed the original sequence (they share state)')
    # replay the history on the components, in the property's words
    d, b, e, p, st = m['d'], m['b'], m['e'], m['p'], m['st']
    w = py_pad_size(st, p)
    fr = m['r']
    frames = parse_range_py(fr)
    for op in m['ops']:
        k, a = op[0], op[1:]
        if k == 'D':
            sep = '\\' if '\\' in a else '/'          # a directory written with backslashes keeps them
            d = a if a.endswith(sep) else a + sep
        elif k == 'B':
            b = a
        elif k == 'E':
            e = a if a.startswith('.') else '.' + a
        elif k == 'P':
            p = a
            w = py_pad_size(st, p)
        elif k == 'S':
            st = int(a)
            if w >= 1:
                # the characters are rewritten, the width never
                p = None
        elif k in ('R', 'F'):
            fl = parse_range_py(a)
            if fl is not None:
                fr, frames = a, fl
        elif k == 'N':
            fr, frames = None, None
    got = dict(dir=dec(main, 'dir'), base=dec(main, 'base'), ext=dec(main, 'ext'), frange=dec(main, 'frange'))
    exp = dict(dir=d, base=b, ext=e, frange=fr or '')
    if got != exp:
        f.append('components %r, the history gives %r' % (got, exp))
    if int(main['zfill']) != w:
        f.append('pad width %s, the history gives %d' % (main['zfill'], w))
    if p is not None and dec(main, 'pad') != p:
        f.append('pad %r, the history gives %r' % (dec(main, 'pad'), p))
    if int(main['style']) != st:
        f.append('pad style %s, the history gives %d' % (main['style'], st))
    pad_now = dec(main, 'pad')
    if py_pad_size(st, pad_now) != w:
        f.append('pad characters %r do not denote the width %d' % (pad_now, w))
    s_exp = d + b + (fr or '') + pad_now + e
    if dec(main, 'string') != s_exp:
        f.append('String() = %r, components give %r' % (dec(main, 'string'), s_exp))
    ps = [unhx(x).decode('latin-1') for x in main['paths'].split(',')]
    if frames is not None:
        if inner_paths(ps, len(frames)) != expected_paths(d, b, e, frames, w)[:PATH_CAP]:
            f.append('frame paths do not follow the current components')
    else:
        if any(x != s_exp for x in ps):
            f.append('without a frame set every index should give the string itself')
    # Copy / Split only promise something where the string re-parses to the same components
    if fr and unambiguous(d, b, fr, pad_now, e) and frames:
        if copy is None:
            f.append('Copy returned nil')
        else:
            for k in ('dir', 'base', 'ext', 'pad', 'zfill', 'frange', 'style', 'string', 'paths'):
                if copy[k] != main[k]:
                    f.append('Copy differs in %s: %r vs %r' % (k, copy[k][:60], main[k][:60]))
                    break
        ncomp = len(fr.split(','))
        if len(parts) != ncomp:
            f.append('Split gave %d parts for %d components' % (len(parts), ncomp))
        elif any(x is None for x in parts):
            f.append('Split returned a nil part')
        else:
            allp = []
            for x in parts:
                for k in ('dir', 'base', 'ext', 'pad', 'zfill', 'style'):
                    if x[k] != main[k]:
                        f.append('Split part differs in %s' % k)
                        break
                allp += [y for y in x['paths'].split(',')][1:-1]
            if len(frames) <= PATH_CAP and dedup_first(allp) != main['paths'].split(',')[1:-1]:
                f.append('Split parts do not concatenate to the original frame paths')
    return f


# ------------------------------------------------------------------ C05

LIST_DIRS = ['/a/b', '/a/b/', 'rel', './rel', 'x/../rel', '', '/a/./b', '/c', 'a//b', '/', 'd1.x', '/shots.v1.final', 'x.5.d/y']
LIST_BASES = ['foo.', 'foo_', 'bar.', 'a', 'img-', 'v2_', 's', 'x,', 'shot_010_', 'foo', 'foo.bar.', 'y', 'ab-', '', '-', '--', 'a--', '1-', '.-']
LIST_EXTS = ['.exr', '.jpg', '.tar.gz', '', '.1.ext', '.a.jpg', '.tif', '.e7']
SINGLES = ['readme.txt', 'noext', 'file.with.dots.exr', 'a.b.c', 'Makefile', 'x.tar.gz', 'frame_.exr', '-', '_', 'v.', 'abc.def-ghi', '--5.exr', '-5', '--', '-.exr', '--5', '1--5.exr']
OPT_SINGLE, OPT_HIDDEN, OPT_H1, OPT_H4 = 1, 0, 2, 3


def frame_texts(rng):
    """frame numerals of one bucket: uniform or mixed widths, leading zeros, signs"""
    n = rng.choice([1, 1, 2, 3, 4, 6, 9])
    mode = rng.random()
    out = set()
    for _ in range(n):
        v = rng.randint(0, rng.choice([9, 99, 120, 1100, 99999]))
        if mode < 0.5:
            w = 4
        elif mode < 0.7:
            w = 1
        else:
            w = rng.randint(1, 6)
        t = str(v).rjust(w, '0') if rng.random() < 0.85 else str(v)
        if rng.random() < 0.12 and v != 0:
            t = '-' + t
        out.add(t)
    return sorted(out), ('uniform4' if mode < 0.5 else 'nat' if mode < 0.7 else 'mixed')


def file_set(rng):
    paths, shapes = [], set()
    uniform = True
    for _ in range(rng.randint(1, 3)):
        d = rng.choice(LIST_DIRS)
        for _ in range(rng.randint(1, 3)):
            k = rng.random()
            if k < 0.06:
                # twins whose names differ only in where the frame sits around a dotted part:
                # basename + extension read the same ("scene.main" + ".exr" / "scene" + ".main.exr")
                b, part, e = rng.choice(['scene', 'x', 'beauty_', 'a.b']), rng.choice(['main', 'left', 'y', 'v2']), rng.choice(['.exr', '.z', '.tar.gz'])
                w = rng.choice([1, 2, 4])
                shapes.add('split-twins')
                for v in rng.sample(range(1, 30), rng.randint(1, 3)):
                    paths.append((d, '%s.%s%s%s' % (b, part, str(v).rjust(w, '0'), e)))
                for v in rng.sample(range(1, 30), rng.randint(1, 3)):
                    paths.append((d, '%s%s.%s%s' % (b, str(v).rjust(w, '0'), part, e)))
            elif k < 0.7:
                b = rng.choice(LIST_BASES)
                e = rng.choice(LIST_EXTS)
                fts, sh = frame_texts(rng)
                shapes.add(sh)
                if len(set(len(t) for t in fts)) > 1:
                    uniform = False
                if rng.random() < 0.1:
                    b = '.' + b
                for t in fts:
                    paths.append((d, b + t + e))
            else:
                nm = rng.choice(SINGLES)
                if rng.random() < 0.2:
                    nm = '.' + nm
                shapes.add('single')
                paths.append((d, nm))
    full = []
    for d, nm in paths:
        if d == '':
            full.append(nm)
        elif d.endswith('/'):
            full.append(d + nm)
        else:
            full.append(d + '/' + nm)
    # distinct after cleaning
    seen, out = set(), []
    for p in full:
        c = go_clean(p)
        if c not in seen and p != '':
            seen.add(c)
            out.append(p)
    return out, '+'.join(sorted(shapes)), uniform


def c05_cases(rng, tier):
    out = []
    n = 1200 if tier == 'quick' else 60000
    g = 0
    while len(out) < n * 5:
        paths, sh, uniform = file_set(rng)
        if not paths:
            continue
        g += 1
        base_opts = [OPT_SINGLE] + ([rng.choice([OPT_H1, OPT_H4])] if rng.random() < 0.5 else [])
        variants = [('single', base_opts, paths),
                    ('nosingle', [o for o in base_opts if o != OPT_SINGLE], paths),
                    ('hidden', base_opts + [OPT_HIDDEN], paths)]
        perm = list(paths)
        rng.shuffle(perm)
        variants.append(('perm', base_opts, perm))
        perm2 = list(reversed(paths))
        variants.append(('perm', base_opts, perm2))
        for kind, opts, ps in variants:
            out.append(case('list', [','.join(map(str, opts))] + ps, 'opts=%s paths=%r' % (opts, ps), kind + ':' + sh,
                            dict(kind=kind, opts=opts, paths=ps, group=g, uniform=uniform), nontrivial=len(ps) > 1))
    return out


def listing_records(line_):
    """'OK rec rec' -> list of (string, zfill, style, [paths])"""
    toks = line_.split(' ')
    recs = []
    for t in toks[1:]:
        a, z, st, ps = t.split(':')
        recs.append((unhx(a).decode('latin-1'), int(z), int(st),
                     [unhx(x).decode('latin-1') for x in ps.split(',')] if ps else []))
    return recs


def visible(paths, hidden):
    out = []
    for p in paths:
        c = go_clean(p)
        name = c.rsplit('/', 1)[-1]
        if name.startswith('.') and not hidden:
            continue
        out.append(c)
    return out


def c05_oracle(c, impl_line):
    m = c['meta']
    if not impl_line.startswith('OK'):
        return ['status ' + impl_line[:30]]
    recs = listing_records(impl_line)
    f = []
    if OPT_SINGLE in m['opts']:
        got = sorted(p for r in recs for p in r[3])
        exp = sorted(visible(m['paths'], OPT_HIDDEN in m['opts']))
        if got != exp:
            missing = [p for p in exp if p not in got]
            extra = [p for p in got if p not in exp]
            dup = [p for p in set(got) if got.count(p) > 1]
            f.append('not an exact cover: dropped %r invented %r twice %r' % (missing[:3], extra[:3], dup[:3]))
    want_style = 0 if OPT_H1 in m['opts'] else 1
    if any(r[2] != want_style for r in recs):
        f.append('a reported sequence does not use the requested pad style')
    return f


def c05_group_oracle(cases):
    """relations between the runs on one file set"""
    fails = []
    groups = {}
    for c in cases:
        if c.get('op') == 'list' and c['meta'].get('group') is not None:
            groups.setdefault(c['meta']['group'], []).append(c)
    for g, cs in groups.items():
        by = {}
        for c in cs:
            by.setdefault(c['meta']['kind'], []).append(c)
        if 'single' not in by or not by['single'][0]['impl'].startswith('OK'):
            continue
        base = by['single'][0]
        brecs = sorted(base['impl'].split(' ')[1:])
        for c in by.get('nosingle', []):
            if not c['impl'].startswith('OK'):
                continue
            recs = c['impl'].split(' ')[1:]
            rest = list(brecs)
            bad = False
            for r in recs:
                if r in rest:
                    rest.remove(r)
                else:
                    bad = True
            # what is dropped must be single files (one path each)
            if bad or any(len(listing_records('OK ' + r)[0][3]) != 1 for r in rest):
                fails.append((c, ['without SingleFiles the result is not the single-files result minus the non-sequences']))
        if base['meta']['uniform']:
            bset = set(r.split(':')[0] for r in brecs)
            for c in by.get('perm', []):
                if c['impl'].startswith('OK'):
                    pset = set(r.split(':')[0] for r in c['impl'].split(' ')[1:])
                    if pset != bset:
                        fails.append((c, ['the set of sequence strings depends on the order of the input list: %r vs %r' % (
                            sorted(unhx(x) for x in pset ^ bset)[:4], '')]))
    return fails


def c05_compare(c, il, ml):
    """mixed-width buckets: the grouping may depend on the unstable sort; compare the
    covered paths only.  Uniform buckets: compare the records as multisets."""
    if not (il.startswith('OK') and ml.startswith('OK')):
        return [] if il.split(' ')[0] == ml.split(' ')[0] else ['status impl=%s model=%s' % (il[:10], ml[:10])]
    if c['meta'].get('uniform', True):
        a, b = sorted(il.split(' ')[1:]), sorted(ml.split(' ')[1:])
        return [] if a == b else ['listing differs: impl-only %r model-only %r' % (
            [unhx(x.split(':')[0]) for x in a if x not in b][:3], [unhx(x.split(':')[0]) for x in b if x not in a][:3])]
    pa = sorted(p for r in listing_records(il) for p in r[3])
    pb = sorted(p for r in listing_records(ml) for p in r[3])
    return [] if pa == pb else ['covered paths differ']


# ------------------------------------------------------------------ C06

def reorder_line(c, order):
    """the same disk case with its entries in Readdir order"""
    m = c['meta']
    byname = {e.split(':', 1)[1]: e for e in m['ents']}
    ents = [byname[n] for n in order if n in byname] + [e for e in m['ents'] if e.split(':', 1)[1] not in order]
    if c['op'] == 'disk':
        return line('disk', ','.join(map(str, m['opts'])), m['path'], m['readable'], *ents)
    return line('findseq', ','.join(map(str, m['opts'])), m['st'], m['pat'], m['readable'], *ents)


DISK_NAMES = ['foo.0001.exr', 'foo.0002.exr', 'foo.0003.exr', 'foo.10.exr', 'bar.1.jpg', 'bar.2.jpg', 'readme.txt',
              '.hidden', '.hid.0001.exr', '.hid.0002.exr', 'noext', 'a.tar.gz', 'sub', 'sub2', 'img-5.tif', 'img-6.tif',
              'x.0100.1.ext', 'x.0101.1.ext', 'lnk', 'lnk.0001.exr', 'v2_001.e7', 'v2_002.e7']


def disk_dir(rng, n):
    import infra as _i
    root = _i.disk_root()
    cdir = 'c%d' % n
    ents = []
    names = rng.sample(DISK_NAMES, rng.randint(0, 9))
    dangling = False
    for nm in names:
        k = rng.random()
        if nm.startswith('sub') or k < 0.12:
            kind = 'D'
        elif k < 0.17:
            kind = 'LF'
        elif k < 0.2:
            kind = 'LS'
        elif k < 0.27:
            kind = 'LD'
        elif k < 0.3:
            kind = rng.choice(['LX', 'LX', 'LL', 'LN'])      # a link whose Stat fails: missing target, loop, below a file
            dangling = True
        else:
            kind = 'F'
        ents.append('%s:%s' % (kind, nm))
    sp = rng.randrange(6)
    rel = cdir + '/d'
    readable = 0 if rng.random() < 0.05 else 1
    if not readable and rng.random() < 0.5:
        readable = 2          # the path exists but is a regular file: it opens, and cannot be read as a directory
    via = readable == 1 and rng.random() < 0.15
    if via:
        # the directory is reached through a relative symlink and its own links are relative ("../x")
        rel = 'v%d/alt/x/d' % n
    path = [rel, rel + '/', './' + rel, root + '/' + rel, root + '/' + rel + '/', rel.replace('/', '//', 1)][sp]
    return path, ents, readable, dangling, ['rel', 'rel/', './rel', 'abs', 'abs/', 'dbl-slash'][sp] + (':via-link' if via else '')


def c06_cases(rng, tier):
    out = []
    n = 700 if tier == 'quick' else 8000
    for i in range(n):
        path, ents, readable, dangling, sp = disk_dir(rng, i)
        opts = [o for o in (OPT_SINGLE, OPT_HIDDEN, rng.choice([OPT_H1, OPT_H4])) if rng.random() < 0.5]
        if rng.random() < 0.15:
            opts = ['LISTFILES']
        o_ = ','.join(map(str, [OPT_SINGLE] if opts == ['LISTFILES'] else opts))
        c_ = case('disk', [o_, path, readable] + ents,
                  'path=%r opts=%s readable=%d entries=%r' % (path, opts, readable, ents),
                  sp + (':dangling' if dangling else '') + (':unreadable' if readable != 1 else '') + (':a-file' if readable == 2 else ''),
                  dict(path=path, ents=ents, opts=[OPT_SINGLE] if opts == ['LISTFILES'] else opts, readable=1 if readable == 1 else 0, dangling=dangling),
                  nontrivial=len(ents) > 1)
        if readable == 2:
            c_['model_line'] = line('disk', o_, path, 0, *ents)      # for the model both are "cannot be read"
        out.append(c_)
    return out


def c06_oracle(c, impl_line):
    m = c['meta']
    f = []
    if not m['readable'] or m['dangling']:
        if not impl_line.startswith('ERR'):
            f.append('a directory that cannot be read / holds a dangling symlink gave %s' % impl_line[:40])
        return f
    if not impl_line.startswith('OK'):
        return ['status ' + impl_line[:30]]
    prefix = go_clean(m['path']) + '/'
    files = [e.split(':', 1)[1] for e in m['ents'] if e.split(':', 1)[0] in ('F', 'LF', 'LS')]
    for r in listing_records(impl_line):
        for p in r[3]:
            if not p.startswith(prefix) or '/' in p[len(prefix):]:
                f.append('reported path %r does not lie directly under %r' % (p, prefix))
            elif OPT_SINGLE in m['opts'] and p[len(prefix):] not in files:
                f.append('reported path %r is not a regular file or link to one' % p)
    return f


def c06_extra_lines(c, impl):
    m = c['meta']
    if not m['readable'] or m['dangling']:
        return []
    prefix = go_clean(m['path']) + '/'
    kinds = {e.split(':', 1)[1]: e.split(':', 1)[0] for e in m['ents']}
    names = c.get('order') or [e.split(':', 1)[1] for e in m['ents']]
    files = [prefix + n for n in names if kinds.get(n) in ('F', 'LF', 'LS')]
    return [line('list', ','.join(map(str, m['opts'])), *files)]


def c06_extra_oracle(c, impl, extra):
    a = sorted(c['impl'].split(' ')[1:])
    b = sorted(extra[0].split(' ')[1:]) if extra else []
    if c['impl'].split(' ')[0] != extra[0].split(' ')[0] or a != b:
        return ['scanning the directory differs from listing its non-directory entries: disk-only %r list-only %r' % (
            [unhx(x.split(':')[0]) for x in a if x not in b][:3], [unhx(x.split(':')[0]) for x in b if x not in a][:3])]
    return []


# ------------------------------------------------------------------ C07

def c07_cases(rng, tier):
    import infra as _i
    root = _i.disk_root()
    out = []
    n = 900 if tier == 'quick' else 12000
    for i in range(n):
        base = rng.choice(['foo.', 'foo_', 'bar.', 'shot_010_', 'img_', 'a'])
        ext = rng.choice(['.exr', '.jpg', '.tar.gz', '.1.ext', '', '.0007', '.2', '_1'])
        w = rng.choice([1, 2, 3, 4, 4, 4, 5])
        uniform = rng.random() < 0.6
        frames = sorted(set(rng.randint(0, 10 ** min(w, 3)) for _ in range(rng.randint(0, 6))))
        names = []
        for v in frames:
            ww = w if uniform else rng.choice([w, w, 1, w + 1])
            names.append(base + str(v).rjust(ww, '0') + ext)
        if rng.random() < 0.15 and frames:
            names.append(base + '-' + str(rng.randint(1, 20)).rjust(max(w - 1, 1), '0') + ext)
        if rng.random() < 0.2 and frames and w > 1:
            # a wider number without a leading zero beside zero-padded frames
            names.append(base + str(rng.randint(10 ** w, 10 ** (w + 1) - 1)) + ext)
        sib = [base + ext, base[:-1] if len(base) > 1 else 'q', base + 'bar' + ext, base + '1-5' + ext, base + ext + '.bak',
               'x' + base + '0001' + ext, base + '+5' + ext, base + '1e3' + ext, base + '0001' + ext + 'x', base + '.' + ext,
               base + '12a' + ext, base + ' 7' + ext, base + '99999999999999999999' + ext,
               base + ext[1:], base[:-1] + ext, base + ext[-1:]]        # prefix and suffix overlap
        ents = ['F:' + x for x in names]
        if len(names) >= 2 and rng.random() < 0.25:
            # some of the frames are links to regular files (frames linked into a store directory)
            linked = set(rng.sample(names, rng.randint(2, len(names))))
            ents = [('LF:' if x in linked else 'F:') + x for x in names]
        for x in rng.sample(sib, rng.randint(0, 5)):
            if x and x not in names and '/' not in x:
                ents.append(rng.choice(['F:', 'F:', 'F:', 'D:', 'LF:', 'LS:']) + x)
        ents = list(dict.fromkeys(ents))
        ents = [e for j, e in enumerate(ents) if e.split(':', 1)[1] not in [x.split(':', 1)[1] for x in ents[:j]]]
        k = rng.randrange(10)
        padtok = ['#', '@' * w, '%0' + str(w) + 'd', '$F' + str(w), '<UDIM>', '%(UDIM)d', '@', '##', '#@', '@#', '@@#', '@' * max(w - 4, 0) + '#'][rng.randrange(12)]
        if k < 6:
            mid, pw = padtok, None
        elif k == 6:
            mid = '1-5' + padtok
        elif k == 7:
            mid = str(rng.randint(0, 99)).rjust(w, '0')      # concrete frame
        elif k == 8:
            mid = ''                                          # no pad at all
        else:
            mid = padtok
        sp = rng.randrange(3)
        d = ['c%d/d/' % i, './c%d/d/' % i, root + '/c%d/d/' % i][sp]
        pat = d + base + mid + ext
        st = rng.choice([0, 1])
        opts = [4] if rng.random() < 0.4 else []
        if rng.random() < 0.2:
            opts.append(rng.choice([2, 3]))
        readable = 0 if rng.random() < 0.04 else 1
        shape = ('pad' if k < 6 or k == 9 else 'range' if k == 6 else 'frame' if k == 7 else 'nopad') + (':strict' if 4 in opts else '')
        out.append(case('findseq', [','.join(map(str, opts)), st, pat, readable] + ents,
                        'pattern=%r style=%d opts=%s readable=%d entries=%r' % (pat, st, opts, readable, ents), shape,
                        dict(pat=pat, d=d, base=base, ext=ext, mid=mid, st=st, opts=opts, ents=ents, readable=readable, kind=shape.split(':')[0])))
    return c07_probe_cases() + out


def c07_probe_cases():
    """the witness of known finding K6, replayed on every run"""
    out = []
    for i, (pat, ent) in enumerate([('a1-2.exr', 'a15.exr'), ('v2-0001.exr', 'v20005.exr')]):
        d = 'k6p%d/d/' % i
        out.append(case('findseq', ['', 1, d + pat, 1, 'F:' + ent], 'pattern=%r style=1 opts=[] readable=1 entries=%r' % (d + pat, ['F:' + ent]),
                        'probe:digit-base', dict(pat=d + pat, d=d, base=None, ext=None, mid='', st=1, opts=[], ents=['F:' + ent], readable=1, kind='frame')))
    return out


def c07_oracle(c, impl_line):
    m = c['meta']
    if impl_line.startswith('PANIC'):
        return ['FindSequenceOnDisk panicked']
    if not m['readable']:
        return [] if impl_line.startswith('ERR') else ['a missing directory gave %s' % impl_line[:30]]
    if impl_line.startswith('ERR'):
        return ['error on a readable directory']
    f = []
    files = set(e.split(':', 1)[1] for e in m['ents'] if e.split(':', 1)[0] in ('F', 'LF', 'LS'))
    if m['kind'] == 'nopad' or m['kind'] == 'frame':
        base, ext = None, None      # the pattern's own base/ext come from the single-file parse; soundness only
    else:
        base, ext = m['base'], m['ext']
    if impl_line == 'OK nil':
        got = None
    else:
        toks = impl_line.split(' ')
        rec = listing_records('OK ' + toks[1])[0]
        kv = dict(t.split('=', 1) for t in toks[2:])
        got = rec
        prefix = m['d']
        for p in rec[3]:
            if not p.startswith(prefix) or p[len(prefix):] not in files:
                f.append('frame path %r of the returned sequence does not exist on disk' % p)
                break
        if base is not None and (unhx(kv['base']).decode('latin-1') != base or unhx(kv['ext']).decode('latin-1') != ext):
            f.append('returned base/ext %r/%r, pattern has %r/%r' % (unhx(kv['base']), unhx(kv['ext']), base, ext))
    if base is not None:
        st = 0 if 2 in m['opts'] else 1 if 3 in m['opts'] else m['st']
        texts = []
        for nm in files:
            if nm.startswith(base) and nm.endswith(ext) and len(nm) >= len(base) + len(ext):
                t = nm[len(base):len(nm) - len(ext)] if ext else nm[len(base):]
                if re.fullmatch(r'-?\d+', t, re.ASCII) and abs(int(t)) < 2 ** 63:
                    texts.append(t)
        widths = set(len(t) for t in texts)
        if texts and len(widths) == 1:
            w0 = widths.pop()
            padtok = re.sub(r'^[\d,:xy-]*', '', m['mid'])
            wp = py_pad_size(st, padtok) if padtok else None
            strict = 4 in m['opts'] and padtok
            if strict and wp != w0:
                if got is not None:
                    f.append('StrictPadding returned files of width %d for a pattern of width %d' % (w0, wp))
            else:
                exp = sorted(m['d'] + base + t + ext for t in texts)
                if got is None:
                    f.append('files %r share one width but nothing was returned' % exp[:3])
                elif sorted(got[3]) != exp:
                    f.append('uniform-width files: returned %r, on disk %r' % (sorted(got[3])[:4], exp[:4]))
    return f


# ------------------------------------------------------------------ C14

def c14_cases(rng, tier):
    out = []
    n = 300 if tier == 'quick' else 20000
    for _ in range(n):
        mag = rng.choice([10 ** 6, 10 ** 9, 10 ** 12, 10 ** 13, 10 ** 13, 2 ** 54 + 1, 2 ** 60 + 12345])   # the last two: spans a float64 cannot hold (D19)
        a = rng.randint(-mag, mag)
        b = rng.randint(-mag, mag)
        if rng.random() < 0.3:
            a, b = -mag, mag
        if rng.random() < 0.1:
            a, b = 1, 10 ** 12
        st = rng.choice([None, None, 1, 2, 3, 7, 1000, 10 ** 6, rng.randint(1, 10 ** 6)])
        if st is not None and rng.random() < 0.35:
            # spans that are an exact small multiple of the step, or one off it, in either direction
            k_ = rng.choice([1, 1, 2, 3, 10])
            b = a + rng.choice([1, -1]) * (st * k_ + rng.choice([0, 0, 0, 1, -1]))
        neg = st is not None and rng.random() < 0.3
        r = '%d-%d' % (a, b) if st is None else '%d-%dx%d' % (a, b, -st if neg else st)
        k = st or 1
        n_ = abs(b - a) // k + 1
        d = k if a <= b else -k
        idxs = [0, 1, n_ - 1, n_, -1, n_ // 2, rng.randrange(n_), rng.randrange(n_)]
        # indices far beyond the length: powers of two, max int, and indices whose product with the
        # step wraps around 2^64 back into the span (a frame-at-index must still be "out of range")
        far = [n_ + 1, 1 << 40, 1 << 45, 1 << 54, (1 << 62) + 1, (1 << 63) - 1, -(1 << 62)]
        if k > 2:
            q_ = -(-(1 << 64) // k)                # ceil(2^64 / k): k*q_ wraps to a value in [0, k)
            far += [q_, q_ + 1, q_ + rng.randrange(max(1, min(n_, 1 << 20))), (1 << 64) // k]
        idxs += [i for i in far if -(1 << 63) <= i < (1 << 63)]
        vals = [a, b, a + d * (n_ - 1), a + d * rng.randrange(n_), a + d * rng.randrange(n_) + (1 if k > 1 else 0),
                a - d, a + d * n_, min(a, b) - 5, max(a, b) + 5]
        # values at the edge of the int range (differences with the start overflow an int64)
        vals += [(1 << 63) - 1, -(1 << 63), (1 << 63) - 1 - rng.randrange(1000), -(1 << 63) + rng.randrange(1000), (1 << 62), -(1 << 62)]
        out.append(case('big', [r, ','.join(map(str, idxs)), ','.join(map(str, vals))], r, 'plain' if st is None else 'stepped',
                        dict(a=a, b=b, k=k, d=d, n=n_, idxs=idxs, vals=vals, r=r)))
    return out


def c14_oracle(c, impl):
    st, kv, bare = impl
    m = c['meta']
    if st == 'TIMEOUT':
        return ['did not answer within 4 s for a single-component range of %d frames: enumeration?' % m['n']]
    if st != 'OK':
        return ['status ' + st]
    f = []
    a, d, n = m['a'], m['d'], m['n']
    last = a + d * (n - 1)
    if int(kv['len']) != n or int(kv['start']) != a or int(kv['end']) != last:
        f.append('len/start/end %s/%s/%s, closed form %d/%d/%d' % (kv['len'], kv['start'], kv['end'], n, a, last))
    vals = kv['value'].split(',')
    for i, v in zip(m['idxs'], vals):
        exp = str(a + d * i) if 0 <= i < n else 'E'
        if v != exp:
            f.append('frame(%d) = %s, closed form %s' % (i, v, exp))
    idx = zl(kv['index'])
    for v, ix, h in zip(m['vals'], idx, kv['has']):
        mem = (v - a) % d == 0 and 0 <= (v - a) // d < n
        exp = (v - a) // d if mem else -1
        if ix != exp or (h == '1') != mem:
            f.append('index(%d)/has = %d/%s, closed form %d/%s' % (v, ix, h, exp, mem))
    if kv.get('qstr') == 'ERR':
        f.append('sequence with this range does not parse')
    else:
        if int(kv['qlen']) != n:
            f.append('sequence length %s' % kv['qlen'])
        if unhx(kv['p0']).decode() != '/x/foo.' + py_zfill(a, 4) + '.exr' or unhx(kv['plast']).decode() != '/x/foo.' + py_zfill(last, 4) + '.exr' or kv['pout'] != '-':
            f.append('frame paths at the ends are wrong')
    if 'M_format' in kv and kv.get('qstr') != 'ERR':
        exp_f = '%s %d %d %d 4' % (unhx(kv['qstr']).decode(), a, last, n)
        if unhx(kv['M_format']).decode() != exp_f:
            f.append('Format of the sequence gave %r, expected %r' % (unhx(kv['M_format']).decode()[:120], exp_f[:120]))
    if int(kv['M_alloc']) > (1 << 20):
        f.append('allocated %s bytes for a single-component range (limit 1 MiB): enumeration?' % kv['M_alloc'])
    if int(kv['M_us']) > 2000000:
        f.append('took %s us (limit 2 s): enumeration?' % kv['M_us'])
    return f


# ------------------------------------------------------------------ C15

def mutate(rng, s):
    k = rng.randrange(7)
    if not s:
        return rng.choice(['', '#', '\n', '%', '\xff'])
    i = rng.randrange(len(s))
    if k == 0:
        return s[:i] + s[i + 1:]
    if k == 1:
        return s[:i] + rng.choice(['#', '@', '%d', '$F', '<UDIM>', '\n', '\xff', '\xc3', '{{', '}}', '.', '/', '-', ',', 'x', '%(UDIM)d', ' ', '\\', '0', '00']) + s[i:]
    if k == 2:
        return s[:i] + s[i:] + s[i:]
    if k == 3:
        j = rng.randrange(len(s))
        return s[:min(i, j)] + s[max(i, j):]
    if k == 4:
        return s[i:] + s[:i]
    if k == 5:
        return s[:i] + chr(rng.randrange(256)) + s[i + 1:]
    return s + rng.choice(['.exr', '#', '@@', '.', '/', '1-5', '%04d'])


def c15_cases(rng, tier):
    out = []
    n = 6000 if tier == 'quick' else 200000
    seeds = ['/a/b/foo.1-10x2#.exr', 'foo.0001.exr', '/x/y.1-5,7,9-20:3@@.tar.gz', 'a.%04d.b', 'c.$F3.d', 'u.<UDIM>.tif',
             '.ext', 'noext', '/', '', 'a/b/', '1-5', '#', 'x.{{dir}}.1#.e', 'foo.-5--1@.e', 'v2_001.exr', '1-10y3', '10-1:2',
             # pad widths far beyond any number's length (fills built from fixed-size tables run out)
             'w.1-5######.exr', 'w.1-3%024d.e', 'w.-3-5$F30.e', 'w.7-9' + '@' * 26 + '.e', 'w.-12' + '#' * 9 + '.e']
    for i in range(n):
        s = rng.choice(seeds)
        for _ in range(rng.randint(0, 4)):
            s = mutate(rng, s)
        s = re.sub(r'\d{5,}', lambda mm: mm.group(0)[:4], s)
        k = rng.randrange(8)
        st = rng.choice([0, 1, 7, -1])
        if k == 0:
            out.append(case('fs', [s], repr(s), 'fs', dict(s=s)))
        elif k == 1:
            out.append(case('seq', [s, st, '5', 'abc', '-3'], repr(s), 'seq', dict(s=s)))
        elif k == 2:
            ops = [rng.choice('DBEPSRNF') + mutate(rng, rng.choice(['x', '/d', '.e', '#', '1', '1-5', '7', '%d'])) for _ in range(rng.randint(1, 5))]
            ops = [re.sub(r'\d{5,}', lambda mm: mm.group(0)[:4], o) for o in ops]
            out.append(case('seqops', [s, st] + ops, repr((s, ops)), 'seqops', dict(s=s)))
        elif k == 3:
            out.append(case('padfr', [s, rng.randint(-2, 9)], repr(s), 'padfr', dict(s=s)))
        elif k == 4:
            ps = [mutate(rng, s) for _ in range(rng.randint(1, 4))]
            ps = [re.sub(r'\d{5,}', lambda mm: mm.group(0)[:4], p) for p in ps]
            out.append(case('list', [','.join(map(str, rng.sample([0, 1, 2, 3, 4, 9], 2)))] + ps, repr(ps), 'list', dict(s=s)))
        elif k == 5:
            out.append(case('norm', [s], repr(s), 'norm', dict(s=s)))
        elif k == 6:
            out.append(case('padsize', [st, s], repr(s), 'padsize', dict(s=s)))
        else:
            out.append(case('seq', [s, st], repr(s), 'seq', dict(s=s)))
    # IsFrameRange vs the parser on the malformed-range grammar (every kind) and on steps that are
    # numerically zero in every spelling
    import gens as _g
    for _ in range(1500 if tier == 'quick' else 30000):
        s, kind = _g.malformed_range(rng)
        out.append(case('fs', [s], repr(s), 'fs-malformed:' + kind, dict(s=s)))
    for body in ['1-10', '10-1', '1-5,8-20', '-5-5', '3-9']:
        for md in 'xy:':
            for z in ['0', '00', '000', '-0', '-00', '0 0', ' 0', '0#', '@0', '+0', '0x0']:
                s = body + md + z
                out.append(case('fs', [s], repr(s), 'fs-zero-step', dict(s=s)))
    return out


def c15_oracle(c, impl_line):
    f = []
    st = impl_line.split(' ')[0]
    if st in ('PANIC', 'NOOUTPUT'):
        f.append('the call panicked / the driver died')
    if st == 'HANG':
        f.append('the call did not return within 30 s')
    if c['op'] == 'fs':
        kv = dict(t.split('=', 1) for t in impl_line.split(' ')[1:] if '=' in t)
        if (kv.get('isfr') == '1') != (st == 'OK'):
            f.append('IsFrameRange = %s but NewFrameSet %s' % (kv.get('isfr'), 'succeeds' if st == 'OK' else 'fails'))
    return f
