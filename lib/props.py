"""Per-property case generators and oracles.

A case is a dict: line (protocol text), text (readable input, used by known-finding
predicates and replays), shape (for the input distribution), meta (oracle data).
An oracle looks at the IMPLEMENTATION's output (and the spec fields S_* the Coq
side computed from the independent Spec layer) and returns a list of property
failures; it never looks at the model's own answer."""
import itertools, re, os
from infra import line, hx, unhx, zl, parse_out
import gens


def case(op, args, text, shape, meta=None, nontrivial=True):
    return dict(line=line(op, *args), text=text, shape=shape, meta=meta or {}, nontrivial=nontrivial,
                args=[a if isinstance(a, str) else str(a) for a in args], op=op)


# ------------------------------------------------------------------ helpers

def py_zfill(v, w):
    """printf %0Nd: the sign counts towards the width"""
    s = str(v)
    if w < 2 or len(s) >= w:
        return s
    if s.startswith('-'):
        return '-' + '0' * (w - len(s)) + s[1:]
    return '0' * (w - len(s)) + s


def py_pad_size(style, chars):
    """independent reading of the documented token widths"""
    if chars == '':
        return 0
    if chars in ('<UDIM>', '%(UDIM)d'):
        return 4
    m = re.match(r'^%(\d*)d$', chars) or re.match(r'^\$F(\d*)$', chars)
    if m:
        d = m.group(1)
        if d == '' or int(d) < 1:
            return 1
        return int(d)
    tot = 0
    for ch in chars:
        if ch == '#':
            tot += 4 if style == 1 else 1
        elif ch == '@':
            tot += 1
    return tot


def dedup_first(l):
    seen, out = set(), []
    for x in l:
        if x not in seen:
            seen.add(x)
            out.append(x)
    return out


# ------------------------------------------------------------------ C10

def c10_cases(rng, tier):
    out = []
    widths = list(range(-2, 70)) if tier == 'quick' else list(range(-2, 4100))
    for st in (0, 1):
        for w in widths:
            out.append(case('pad', [st, w], 'style=%d width=%d' % (st, w), 'width', dict(st=st, w=w), nontrivial=w >= 1))
    maxlen = 6 if tier == 'quick' else 12
    for n in range(1, maxlen + 1):
        combos = itertools.product('#@', repeat=n)
        for t in combos:
            s = ''.join(t)
            for st in (0, 1):
                out.append(case('padsize', [st, s], 'style=%d chars=%s' % (st, s), 'hash-at-string', dict(st=st, s=s)))
    toks = list(gens.PAD_TOKENS) + ['%%0%dd' % n for n in range(0, 40)] + ['$F%d' % n for n in range(0, 40)] + \
           ['%099d', '$F00012', '%d%d', '$F4x', 'x%04d', '%04dx', '<UDIM>x', 'x<UDIM>', 'x%(UDIM)d', '%(UDIM)dx', '', 'abc', '#a@', '\xe9#']
    for s in toks:
        for st in (0, 1):
            out.append(case('padsize', [st, s], 'style=%d chars=%r' % (st, s), 'token', dict(st=st, s=s)))
    # style switches on sequences
    for _ in range(60 if tier == 'quick' else 2000):
        pad = rng.choice(gens.PAD_TOKENS)
        st = rng.choice([0, 1])
        s = '/a/foo.1-5' + pad + '.exr'
        ops = ['S%d' % rng.choice([0, 1]) for _ in range(rng.randint(1, 3))]
        out.append(case('seqops', [s, st] + ops, '%s style=%d ops=%s' % (s, st, ops), 'style-switch', dict(s=s, st=st, pad=pad, ops=ops)))
    return out


def c10_oracle(c, impl):
    st, kv, bare = impl
    m = c['meta']
    f = []
    if c['op'] == 'pad':
        if st != 'OK':
            return ['status ' + st]
        if m['w'] >= 1 and int(kv['size']) != m['w']:
            f.append('width %d -> chars %r -> width %s' % (m['w'], unhx(kv['chars']), kv['size']))
    elif c['op'] == 'padsize':
        # only the documented tokens have a documented width
        s = m['s']
        documented = (re.fullmatch(r'[#@]+', s) or s in ('<UDIM>', '%(UDIM)d')
                      or re.fullmatch(r'%\d*d', s) or re.fullmatch(r'\$F\d*', s))
        if documented:
            exp = py_pad_size(m['st'], s)
            if st != 'OK' or int(kv['size']) != exp:
                f.append('PaddingCharsSize(%r) = %s under style %d, documented width %d' % (s, kv.get('size'), m['st'], exp))
    elif c['op'] == 'seqops':
        if st != 'OK':
            return ['status ' + st]
        w0 = py_pad_size(m['st'], m['pad'])
        if w0 >= 1:
            if int(kv['zfill']) != w0:
                f.append('style switch changed the width %d -> %s' % (w0, kv['zfill']))
            exp = ['-'] + [hx('/a/foo.' + py_zfill(i, w0) + '.exr') for i in range(1, 6)] + ['-']
            if kv['paths'].split(',') != exp:
                f.append('style switch changed the frame paths')
    return f


# ------------------------------------------------------------------ C13

def enum_range(s, e, st):
    """the property's own words: start, start+step, ... up to the last value not past end"""
    if st == 0:
        st = 1 if s <= e else -1
    out = []
    v = s
    if s <= e:
        if st < 0:
            return None     # sign disagrees with direction: outside the property
        while v <= e:
            out.append(v)
            v += st
    else:
        if st > 0:
            return None
        while v >= e:
            out.append(v)
            v += st
    return out


def walk_dir(s, e, st):
    """appended enumeration: the step takes the sign of the direction whatever sign was given"""
    k = abs(st)
    return enum_range(s, e, k if s <= e else -k)


def check_views(kv, L, f, what):
    """every accessor against the enumerated list L (shared by C13 and C02)"""
    n = len(L)
    if int(kv['len']) != n:
        f.append('%s: len %s, enumeration has %d' % (what, kv['len'], n))
    if zl(kv['frames']) != L:
        f.append('%s: iterator %s, enumeration %s' % (what, kv['frames'][:80], L[:20]))
    if n:
        if int(kv['start']) != L[0] or int(kv['end']) != L[-1]:
            f.append('%s: start/end %s/%s, enumeration %d/%d' % (what, kv['start'], kv['end'], L[0], L[-1]))
        if 'min' in kv and (int(kv['min']) != min(L) or int(kv['max']) != max(L)):
            f.append('%s: min/max %s/%s' % (what, kv['min'], kv['max']))
    vals = kv['value'].split(',')
    for j, v in enumerate(vals):
        i = j - 2
        if 0 <= i < n:
            if v == 'E' or int(v) != L[i]:
                f.append('%s: value(%d) = %s, expected %d' % (what, i, v, L[i]))
                break
        elif v != 'E':
            f.append('%s: value(%d) = %s, expected an error' % (what, i, v))
            break
    mn = min(L) if L else 0
    mx = max(L) if L else 0
    idx = zl(kv['index'])
    has = kv['has']
    pos = {}
    for i, v in enumerate(L):
        pos.setdefault(v, i)
    for j in range(len(idx)):
        v = mn - 2 + j
        exp = pos.get(v, -1)
        if idx[j] != exp:
            f.append('%s: index(%d) = %d, expected %d' % (what, v, idx[j], exp))
            break
        if (has[j] == '1') != (v in pos):
            f.append('%s: contains(%d) = %s' % (what, v, has[j]))
            break


def c13_cases(rng, tier):
    out = []
    R = 4 if tier == 'quick' else 7
    for s in range(-R, R + 1):
        for e in range(-R, R + 1):
            for st in range(-R - 1, R + 2):
                out.append(case('ir', [s, e, st], 'range(%d,%d,%d)' % (s, e, st), 'cube',
                                dict(s=s, e=e, st=st), nontrivial=(s != e)))
    # translated / large coordinates
    for _ in range(300 if tier == 'quick' else 5000):
        off = rng.choice([10 ** 9, -10 ** 9, 10 ** 13, -10 ** 13, 2 ** 40, 0])
        s = off + rng.randint(-30, 30)
        e = s + rng.randint(-60, 60)
        st = rng.randint(-9, 9)
        out.append(case('ir', [s, e, st], 'range(%d,%d,%d)' % (s, e, st), 'translated', dict(s=s, e=e, st=st)))
    # AppendUnique histories
    alpha = []
    for (s, e) in [(1, 5), (5, 1), (3, 3), (0, 10), (10, 0), (-3, 4), (4, -3), (6, 12), (12, 6), (2, 9)]:
        for st in ([1, -1, 2, -3] if (s, e) != (3, 3) else [1, 0]):
            alpha.append((s, e, st))
    hist = []
    if tier == 'quick':
        for _ in range(1500):
            hist.append([rng.choice(alpha) for _ in range(rng.randint(1, 3))])
    else:
        for k in (1, 2, 3):
            for t in itertools.product(alpha, repeat=k):
                hist.append(list(t))
    for _ in range(500 if tier == 'quick' else 20000):
        h = []
        off = rng.choice([0, 0, 0, 10 ** 9, -10 ** 13])
        for _ in range(rng.randint(2, 8)):
            s = off + rng.randint(-15, 30)
            e = s + rng.randint(-25, 25)
            h.append((s, e, rng.randint(-6, 6)))
        hist.append(h)
    for h in hist:
        out.append(case('rs', ['%d,%d,%d' % t for t in h], 'AppendUnique' + ''.join('(%d,%d,%d)' % t for t in h),
                        'history-%d' % min(len(h), 4), dict(h=h)))
    return out


def c13_oracle(c, impl):
    st, kv, bare = impl
    m = c['meta']
    f = []
    if st != 'OK':
        return ['status ' + st]
    if c['op'] == 'ir':
        L = enum_range(m['s'], m['e'], m['st'])
        if L is None:
            return []          # step sign disagrees with the direction: not quantified
        check_views(kv, L, f, 'range')
        if int(kv['rend']) != L[-1]:
            f.append('End() = %s, last enumerated value %d' % (kv['rend'], L[-1]))
    else:
        L = []
        for (s, e, stp) in m['h']:
            if stp == 0:
                continue
            L += walk_dir(s, e, stp)
        L = dedup_first(L)
        check_views(kv, L, f, 'ranges')
    return f


def c13_extra_lines(c, impl):
    """second round: the printed form parses back as a frame range to the same values"""
    st, kv, bare = impl
    m = c['meta']
    if c['op'] == 'ir' and enum_range(m['s'], m['e'], m['st']) is None:
        return []          # step sign disagrees with the direction: not quantified
    if st == 'OK' and kv.get('str', '-') != '-' and int(kv['len']) > 0:
        return [line('fs', unhx(kv['str']).decode('latin-1'))]
    return []


def c13_extra_oracle(c, impl, extra_impl):
    st, kv, bare = impl
    f = []
    for e in extra_impl:
        est, ekv, _ = e
        if est != 'OK' or zl(ekv['frames']) != zl(kv['frames']):
            f.append('printed form %r re-parses to %s, container holds %s' %
                     (unhx(kv['str']), ekv.get('frames', est)[:60], kv['frames'][:60]))
    return f


# ------------------------------------------------------------------ C01 / C02

def range_cases(rng, tier, nvalid, nbad, sweep):
    out = []
    for _ in range(nvalid):
        s, sh = gens.range_string(rng)
        out.append(case('fs', [s], s, 'valid:' + sh.split('|')[0] + ('+' if '|' in sh else ''), dict(s=s, valid=True)))
    for _ in range(nbad):
        s, sh = gens.malformed_range(rng)
        out.append(case('fs', [s], s, 'malformed:' + sh, dict(s=s, valid=False)))
    if sweep:
        for s in gens.token_sweep(sweep):
            out.append(case('fs', [s], s, 'sweep', dict(s=s, valid=True)))
    return out


def c01_cases(rng, tier):
    if tier == 'quick':
        return range_cases(rng, tier, 3000, 1200, 1)
    return range_cases(rng, tier, 150000, 40000, 2)


def c01_oracle(c, impl):
    st, kv, bare = impl
    f = []
    spec = c['spec'].get('S_frames')
    if spec is None:
        return ['no spec answer']
    if st == 'PANIC':
        return ['NewFrameSet panicked']
    if spec == 'ERR':
        if st != 'ERR':
            f.append('string outside the grammar (or zero step / number not fitting an int) was accepted: frames %s' % kv.get('frames', '?')[:80])
    else:
        if st != 'OK':
            f.append('valid range string rejected; it denotes %s' % spec[:80])
        elif zl(kv['frames']) != zl(spec):
            f.append('frames %s, the shorthand denotes %s' % (kv['frames'][:100], spec[:100]))
    return f


def c02_cases(rng, tier):
    if tier == 'quick':
        return range_cases(rng, tier, 2500, 0, 1)
    return range_cases(rng, tier, 100000, 0, 2)


def c02_oracle(c, impl):
    st, kv, bare = impl
    if st != 'OK':
        return []          # C02 quantifies over accepted strings
    f = []
    L = zl(kv['frames'])
    if len(set(L)) != len(L):
        f.append('enumerated frames contain a duplicate: %s' % kv['frames'][:100])
    check_views(kv, L, f, 'frameset')
    return f


# ------------------------------------------------------------------ C08

def c08_cases(rng, tier):
    out = []
    K = 10 if tier == 'quick' else 13
    masks = range(1, 1 << (K + 1))
    if tier == 'quick':
        masks = [m for m in masks if m % 3 != 2][:1400]
    for mk in masks:
        members = [i for i in range(K + 1) if mk >> i & 1]
        variants = [','.join(map(str, members))]
        if tier != 'quick' or mk % 7 == 0:
            r = list(members)
            rng.shuffle(r)
            variants.append(','.join(map(str, r)))
            variants.append(','.join(map(str, reversed(members))))
        for i, s in enumerate(variants):
            out.append(case('norm', [s], s, 'subset', dict(s=s, group='m%d' % mk)))
    for _ in range(800 if tier == 'quick' else 60000):
        s, sh = gens.range_string(rng, deco=False)
        out.append(case('norm', [s], s, 'grammar', dict(s=s, group=None)))
    return out


def strip_zeros(s):
    return re.sub(r'(?<![0-9])(-?)0+(?=[0-9])', r'\1', s)


def c08_oracle(c, impl):
    st, kv, bare = impl
    if st != 'OK':
        return []
    frames = zl(kv['frames'])
    if not frames:
        return []          # the property speaks of ranges that denote at least one frame
    f = []
    S = c['spec']
    if zl(kv['nframes']) != zl(S['S_nframes']):
        f.append('Normalize gives %s, the sorted set is %s' % (kv['nframes'][:80], S['S_nframes'][:80]))
    if zl(kv['iframes']) != zl(S['S_iframes']):
        f.append('Invert gives %s, the complement is %s' % (kv['iframes'][:80], S['S_iframes'][:80]))
    if kv['nre'] != kv['nframes']:
        f.append('normalized string %r re-parses to %s' % (unhx(kv['nstr']), kv['nre'][:80]))
    if kv['ire'] != kv['iframes']:
        f.append('inverted string %r re-parses to %s, Invert holds %s' % (unhx(kv['istr']), kv['ire'][:80], kv['iframes'][:80]))
    if kv['nnstr'] != kv['nstr']:
        f.append('Normalize is not idempotent: %r then %r' % (unhx(kv['nstr']), unhx(kv['nnstr'])))
    ip = kv['ipad'].split(',')
    ipre = kv['ipadre'].split(';')
    base = unhx(ip[0]).decode('latin-1')
    if ip[0] != kv['istr']:
        f.append('InvertedFrameRange(0) differs from Invert().FrameRange()')
    for p in range(7):
        t = unhx(ip[p]).decode('latin-1')
        if strip_zeros(t) != strip_zeros(base):
            f.append('padded inverted range %r differs from %r by more than leading zeros' % (t, base))
        if ipre[p] != kv['iframes']:
            f.append('InvertedFrameRange(%d) = %r parses to %s' % (p, t, ipre[p][:60]))
    return f


# ------------------------------------------------------------------ C09

def c09_cases(rng, tier):
    out = []

    def add(l, srt, z, shape):
        out.append(case('f2r', [','.join(map(str, l)), 1 if srt else 0, z],
                        'frames=%s sorted=%s zfill=%d' % (l, srt, z), shape, dict(l=l, srt=srt, z=z),
                        nontrivial=len(l) >= 3))
    if tier == 'quick':
        for _ in range(4000):
            l = gens.runs_list(rng) if rng.random() < 0.7 else gens.distinct_ints(rng, rng.randint(0, 9))
            add(l, rng.random() < 0.4, rng.choice([0, 0, 1, 2, 3, 4, 6]), 'runs' if len(l) > 2 else 'short')
        univ = list(range(-2, 5))
        for k in range(0, 5):
            for sub in itertools.combinations(univ, k):
                for perm in itertools.permutations(sub):
                    add(list(perm), False, 0, 'perm')
    else:
        univ = list(range(-3, 6))
        for k in range(0, 7):
            for sub in itertools.combinations(univ, k):
                for perm in itertools.permutations(sub):
                    add(list(perm), False, 0, 'perm')
                    if k <= 4:
                        for z in (2, 3):
                            add(list(perm), True, z, 'perm-z')
        for _ in range(150000):
            l = gens.runs_list(rng) if rng.random() < 0.7 else gens.distinct_ints(rng, rng.randint(0, 12))
            add(l, rng.random() < 0.4, rng.choice([0, 1, 2, 3, 4, 5, 6]), 'runs')
    return out


def c09_oracle(c, impl):
    st, kv, bare = impl
    m = c['meta']
    if st != 'OK':
        return ['status ' + st]
    s = unhx(kv['s']).decode('latin-1')
    f = []
    l = m['l']
    if not l:
        if s != '':
            f.append('empty list gives %r' % s)
        return f
    exp = sorted(l) if m['srt'] else l
    if kv['re'] == 'ERR' or zl(kv['re']) != exp:
        f.append('FramesToFrameRange = %r parses back to %s, expected %s' % (s, kv['re'][:80], exp[:20]))
    if m['z'] >= 2:
        for part in s.split(','):
            mm = re.fullmatch(r'(-?\d+)(?:-(-?\d+)(?:x-?\d+)?)?', part, re.ASCII)
            if not mm:
                f.append('unexpected component %r' % part)
                continue
            for g in (mm.group(1), mm.group(2)):
                if g is not None and len(g) < m['z']:
                    f.append('number %r in %r is not padded to %d' % (g, s, m['z']))
    return f


# ------------------------------------------------------------------ C11

def c11_cases(rng, tier):
    out = []
    n = 5000 if tier == 'quick' else 200000
    for _ in range(n):
        k = rng.random()
        if k < 0.6:
            s, sh = gens.range_string(rng, deco=rng.random() < 0.3)
            sh = 'valid'
        elif k < 0.8:
            s, sh = gens.malformed_range(rng)
        else:
            # partially invalid: valid components mixed with junk
            parts = [gens.comp(rng)[0] for _ in range(rng.randint(1, 3))]
            parts.insert(rng.randrange(len(parts) + 1), rng.choice(['a', '', ' 2', '1-', 'x', '1-5#', '3 ', '--1', '1-2-3', '\xe9']))
            s, sh = ','.join(parts), 'partial'
        w = rng.choice([-1, 0, 1, 2, 3, 4, 5, 8])
        out.append(case('padfr', [s, w], '%r width=%d' % (s, w), sh, dict(s=s, w=w), nontrivial=w >= 2))
    return out


COMP_RE = re.compile(r'(-?\d+)(?:-(-?\d+)(?:([:xy])(-?\d+))?)?\Z', re.ASCII)


def py_zfill_str(t, w):
    if len(t) >= w:
        return t
    if t.startswith('-'):
        return '-' + '0' * (w - len(t)) + t[1:]
    return '0' * (w - len(t)) + t


def c11_oracle(c, impl):
    st, kv, bare = impl
    m = c['meta']
    if st != 'OK':
        return ['status ' + st]
    s, w = m['s'], m['w']
    t = unhx(kv['s']).decode('latin-1')
    f = []
    if w < 2:
        if t != s:
            f.append('width %d changed the text: %r -> %r' % (w, s, t))
        return f
    a, b = s.split(','), t.split(',')
    if len(a) != len(b):
        f.append('component count changed: %r -> %r' % (s, t))
    else:
        for x, y in zip(a, b):
            mm = COMP_RE.match(x)
            if not mm:
                if y != x:
                    f.append('component %r that is not a range was not passed through in place (got %r)' % (x, y))
                continue
            exp = py_zfill_str(mm.group(1), w)
            if mm.group(2) is not None:
                exp += '-' + py_zfill_str(mm.group(2), w)
            if mm.group(3) is not None:
                exp += mm.group(3) + mm.group(4)
            if y != exp:
                f.append('component %r padded to %r, expected %r' % (x, y, exp))
    if kv['in'] != kv['out']:
        f.append('padding changed the parse: %r -> %s, %r -> %s' % (s, kv['in'][:60], t, kv['out'][:60]))
    if kv['again'] != kv['s']:
        f.append('padding is not idempotent on %r' % s)
    return f
