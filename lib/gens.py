"""Input generators shared by the property checks.  Every random choice comes
from the rng handed in (seeded from VERIF_SEED)."""
import itertools

PAD_TOKENS = ['#', '##', '@', '@@', '@@@', '@@@@', '#@', '@#@', '%d', '%04d', '%01d', '%0d', '%2d', '%10d',
              '$F', '$F4', '$F04', '$F1', '$F0', '<UDIM>', '%(UDIM)d', '####', '#####',
              '%08d', '%09d', '%010d', '%012d', '$F08', '$F010', '$F9', '%8d', '@#', '@@#@']


def num(rng, lo=-12, hi=40):
    return rng.randint(lo, hi)


def comp(rng, lo=-12, hi=40, maxstep=6):
    k = rng.random()
    a = num(rng, lo, hi)
    if k < 0.2:
        return str(a), 'N'
    b = num(rng, lo, hi)
    if rng.random() < 0.15:
        b = a
    if k < 0.45:
        return '%d-%d' % (a, b), 'A-B'
    st = rng.randint(1, maxstep)
    if rng.random() < 0.25:
        st = -st
    if rng.random() < 0.1:
        st = rng.choice([1, -1, abs(b - a) + 1, abs(b - a), abs(b - a) + 5]) or 1
    md = rng.choice('xxy:')
    return '%d-%d%s%d' % (a, b, md, st), 'A-B' + md + ('-' if st < 0 else '+')


def decorate(rng, s):
    """sprinkle the ignored characters"""
    if rng.random() < 0.7:
        return s
    out = []
    for ch in s:
        if rng.random() < 0.15:
            out.append(rng.choice(' #@'))
        out.append(ch)
    if rng.random() < 0.3:
        out.append(rng.choice(' #@'))
    return ''.join(out)


def range_string(rng, maxcomp=5, lo=-12, hi=40, deco=True):
    n = rng.choice([1, 1, 2, 2, 3, 3, 4, maxcomp])
    parts, shapes = [], []
    for _ in range(n):
        c, sh = comp(rng, lo, hi)
        parts.append(c)
        shapes.append(sh)
    s = ','.join(parts)
    if deco:
        s = decorate(rng, s)
    return s, '|'.join(shapes)


def malformed_range(rng):
    base, _ = range_string(rng, deco=False)
    k = rng.randrange(14)
    if k == 0:
        return base + ',', 'trailing-comma'
    if k == 1:
        return ',' + base, 'leading-comma'
    if k == 2:
        return base.replace(',', ',,', 1) if ',' in base else base + ',,1', 'double-comma'
    if k == 3:
        return rng.choice(['x', 'y', ':', '1-', '-', '1x2', '1-2x', '1-2y', '1-2:', 'x3', '--', '1--', '1-2-3']), 'bare'
    if k == 4:
        return '--5' + rng.choice(['', '-3', ',1']), 'double-minus'
    if k == 5:
        return rng.choice(['99999999999999999999', '1-99999999999999999999', '1-5x99999999999999999999',
                           '-9223372036854775809', '9223372036854775808', '9223372036854775807',
                           '-9223372036854775808', '1,9223372036854775808',
                           '99999999999999999999-3', '9223372036854775808-5', '-9223372036854775809--3', '1,99999999999999999999-3',
                           '99999999999999999999-3x2', '9223372036854775808 - 2#', '5-99999999999999999999y2', '99999999999999999999-1:3']), 'bigint'
    if k == 6:
        return rng.choice(['1-5x0', '1-5y0', '1-5:0', '5-1x0', '1-5x-0', '1-5x00', '3,1-5y0']), 'zero-step'
    if k == 7:
        return base + rng.choice(['\xe9', '\xff', '\xc3\xa9', '\n', '\t', 'a', '.', '+', '_', '%', '$']), 'junk-suffix'
    if k == 8:
        return '', 'empty'
    if k == 9:
        return rng.choice([' ', '#', '@', ' # @ ', ',']), 'only-ignored'
    if k == 10:
        return rng.choice(['+1', '1-+5', '1.0', '1e3', '0x10', '1-5 x 2', '1-5x 2', '1 - 5', '1 0', '1#0-2@0']), 'odd-numerals'
    if k == 11:
        i = rng.randrange(len(base) + 1)
        return base[:i] + rng.choice('xy:-,') + base[i:], 'inserted-token'
    if k == 12:
        i = rng.randrange(len(base)) if base else 0
        return base[:i] + base[i + 1:], 'deleted-char'
    return rng.choice(['001', '-001', '1-0010x02', '-0', '-0--0', '00-00x01']), 'leading-zeros'


def token_sweep(maxcomp):
    """all strings comp(,comp)* over a small token alphabet, up to maxcomp components"""
    nums = ['1', '3', '7', '-2', '10']
    comps = []
    for a in nums:
        comps.append(a)
    for a, b in itertools.product(nums, repeat=2):
        comps.append('%s-%s' % (a, b))
    for a, b in itertools.product(['1', '7', '-2'], repeat=2):
        for md in 'xy:':
            for n in ['2', '3', '-2']:
                comps.append('%s-%s%s%s' % (a, b, md, n))
    for k in range(1, maxcomp + 1):
        for t in itertools.product(comps, repeat=k):
            yield ','.join(t)


def distinct_ints(rng, n, lo=-30, hi=60):
    n = min(n, hi - lo + 1)
    return rng.sample(range(lo, hi + 1), n)


def runs_list(rng):
    """distinct ints with planted constant-stride runs in both directions"""
    out, seen = [], set()
    for _ in range(rng.randint(1, 5)):
        start = rng.randint(-40, 80)
        step = rng.choice([1, 1, 2, 3, 5, -1, -1, -2, -3, 7, -4])
        ln = rng.choice([1, 2, 2, 3, 3, 4, 5, 8])
        for i in range(ln):
            v = start + i * step
            if v not in seen:
                seen.add(v)
                out.append(v)
    return out


NAME_CHARS = 'abcdefgh_ABX'


def basename(rng):
    k = rng.random()
    stem = ''.join(rng.choice(NAME_CHARS) for _ in range(rng.randint(1, 6)))
    if k < 0.35:
        return stem + '.'
    if k < 0.5:
        return stem + '_'
    if k < 0.6:
        return stem + rng.choice(['x', 'y', ':', ',', 'x.', 'v2_', 'v2.', '.v003.', '_1-5_', '.x', '-'])
    if k < 0.615:
        # a backslash is an ordinary character of a POSIX file name
        return stem + rng.choice(['\\x.', '\\', 'a\\b_', '\\.v2.'])
    if k < 0.63:
        # blanks before the range (a blank cannot be part of a range, so these stay unambiguous)
        return stem + rng.choice([' 2 ', ' - ', '2 - ', ' ', '_v2 ', ' -'])
    if k < 0.65:
        return ''
    if k < 0.75:
        return '.' + stem + '.'
    return stem


def extension(rng):
    return rng.choice(['.exr', '.exr', '.jpg', '.tar.gz', '.1.ext', '.a.jpg', '', '.tif', '.x', '.bgeo.sc', '.7z', '.mp4', '.0', '.e_x'])


def directory(rng):
    return rng.choice(['/a/b/', '/', '', 'rel/', './', '../', '/film/shot_010/renders/', 'a/', '/a.b/c-d/', '/v2/x1/',
                       'd1.x/', '/shots.v1.final/', 'x.5.d/', '/p.12/q/'])
