"""Infrastructure of the gofileseq checks: build, proof status, driver runs,
comparison, known findings, evidence.  Python stdlib only."""
import json, os, re, subprocess, sys, time, hashlib, shutil, tempfile, random

V = '/verif'
REPO = os.environ.get('VERIF_REPO', '/repo')
COQ = V + '/coq'
WORK = V + '/work'
NPROC = 16

GOENV = dict(os.environ, GOFLAGS='-mod=mod', GOPROXY='off', GOSUMDB='off', GOTOOLCHAIN='local')


def hx(s):
    if isinstance(s, str):
        s = s.encode('latin-1')
    return s.hex() if s else '-'


def unhx(s):
    return b'' if s == '-' else bytes.fromhex(s)


def line(op, *args):
    """protocol line: op + hex-encoded args (ints are passed as decimal text)"""
    out = [op]
    for a in args:
        if isinstance(a, int):
            a = str(a)
        if isinstance(a, (list, tuple)):
            a = ','.join(str(x) for x in a)
        out.append(hx(a))
    return ' '.join(out)


def sh(cmd, timeout=3600, env=None, cwd=None):
    p = subprocess.run(cmd, shell=True, stdout=subprocess.PIPE, stderr=subprocess.STDOUT,
                       timeout=timeout, env=env or GOENV, cwd=cwd)
    return p.returncode, p.stdout.decode('utf-8', 'replace')


# ---------------------------------------------------------------- build

class Build:
    """Result of rebuilding from /repo's working tree."""

    def __init__(self):
        self.gen_ok = True
        self.gen_msg = ''
        self.make_ok = True
        self.make_msg = ''
        self.go_ok = True
        self.go_msg = ''
        self.failed_files = []


def build():
    os.makedirs(WORK, exist_ok=True)
    b = Build()
    env = dict(GOENV, VERIF_REPO=REPO)
    lock = open(WORK + '/build.lock', 'w')
    import fcntl
    fcntl.flock(lock, fcntl.LOCK_EX)
    try:
        # translator
        gfsgen = V + '/bin/gfsgen'
        rc, out = sh('cd %s/gen && go build -o %s .' % (V, gfsgen), env=env)
        if rc != 0:
            b.gen_ok = False
            b.gen_msg = 'gfsgen does not build: ' + out[-800:]
            return b
        rc, out = sh('%s %s %s/theories/Gen %s/rx_patterns.txt' % (gfsgen, REPO, COQ, WORK), env=env)
        if rc != 0:
            b.gen_ok = False
            b.gen_msg = out.strip()[-1200:]
        # coq (full .vo build)
        if not os.path.exists(COQ + '/Makefile') or os.path.getmtime(COQ + '/_CoqProject') > os.path.getmtime(COQ + '/Makefile'):
            sh('cd %s && coq_makefile -f _CoqProject -o Makefile' % COQ)
        rc, out = sh('cd %s && timeout 3000 make -k -j%d 2>&1' % (COQ, NPROC), timeout=3100)
        if rc != 0:
            b.make_ok = False
            b.make_msg = out[-3000:]
            b.failed_files = sorted(set(re.findall(r'File "\./(theories/[^"]+)", line', out)))
        # extraction + OCaml driver (only when the model compiled)
        dvo = COQ + '/theories/Model/Driver.vo'
        ml = V + '/harness/ocaml/gfs.ml'
        mld = V + '/bin/mldriver'
        srcs_newer = any(os.path.getmtime(f) > os.path.getmtime(dvo) for f in
                         [COQ + '/theories/Model/Driver.v']) if os.path.exists(dvo) else True
        if os.path.exists(dvo) and not srcs_newer:
            need = (not os.path.exists(ml) or os.path.getmtime(dvo) > os.path.getmtime(ml)
                    or not os.path.exists(mld)
                    or os.path.getmtime(V + '/harness/ocaml/driver.ml') > os.path.getmtime(mld)
                    or os.path.getmtime(ml) > os.path.getmtime(mld))
            if need:
                rc, out = sh('cd %s/harness/ocaml && timeout 900 coqc -Q %s/theories GFS %s/theories/Extract/Extract.v '
                             '&& ocamlfind ocamlopt -O3 -w -a gfs.mli gfs.ml driver.ml -o %s' % (V, COQ, COQ, mld))
                if rc != 0:
                    b.make_ok = False
                    b.make_msg += '\nextraction/ocaml build failed: ' + out[-1500:]
        # go driver, from the current working tree, hooks on
        gomod = V + '/harness/go/go.mod'
        txt = open(gomod).read()
        want = re.sub(r'=> \S+', '=> ' + REPO, txt)
        tmpmod = None
        if want != txt:
            tmpmod = txt
            open(gomod, 'w').write(want)
        try:
            shutil.copy(REPO + '/go.sum', V + '/harness/go/go.sum')
            rc, out = sh('cd %s/harness/go && go build -tags verif -o %s/bin/godriver .' % (V, V), env=env)
        finally:
            if tmpmod is not None:
                open(gomod, 'w').write(tmpmod)
        if rc != 0:
            b.go_ok = False
            b.go_msg = out[-2000:]
    finally:
        fcntl.flock(lock, fcntl.LOCK_UN)
        lock.close()
    return b


def coq_closure(roots):
    """transitive dependencies (as theories/...v paths) of the given .v files, read from the
    dependency file coq_makefile maintains; None when it cannot be determined"""
    try:
        txt = open(COQ + '/.Makefile.d').read()
    except OSError:
        return None
    deps = {}
    for ln in txt.split('\n'):
        if ':' not in ln:
            continue
        lhs, rhs = ln.split(':', 1)
        tg = [t for t in lhs.split() if t.endswith('.vo')]
        if tg:
            deps[tg[0][:-1]] = [d[:-1] for d in rhs.split() if d.endswith('.vo')]
    seen, todo = set(), list(roots)
    while todo:
        f = todo.pop()
        if f in seen:
            continue
        if f not in deps:
            return None            # a file the dependency file does not know: be conservative
        seen.add(f)
        todo += deps[f]
    return seen


# ---------------------------------------------------------------- proofs

HYGIENE_RE = re.compile(r'\b(Admitted|admit|Axiom|Parameter|Conjecture|Unset Guard|bypass_check|type-in-type|Admit Obligations)\b')


def hygiene():
    bad = []
    for root, _, files in os.walk(COQ + '/theories'):
        for f in files:
            if not f.endswith('.v'):
                continue
            p = os.path.join(root, f)
            txt = open(p, errors='replace').read()
            # strip comments (no nesting subtleties needed for a grep)
            txt2 = re.sub(r'\(\*.*?\*\)', '', txt, flags=re.S)
            for m in HYGIENE_RE.finditer(txt2):
                bad.append('%s: %s' % (os.path.relpath(p, V), m.group(1)))
    return bad


def proof_status(pid):
    """Re-compile Properties/<pid>.v and read the Print Assumptions output.
    Returns dict(theorems=[names], closed=[names], open={name: text}, ok=bool, msg=str)."""
    src = '%s/theories/Properties/%s.v' % (COQ, pid)
    res = dict(theorems=[], closed=[], open={}, ok=False, msg='', examples=0)
    if not os.path.exists(src):
        res['msg'] = 'no property file'
        return res
    txt = re.sub(r'\(\*.*?\*\)', '', open(src).read(), flags=re.S)
    names = re.findall(r'^\s*Theorem\s+(\w+)', txt, flags=re.M)
    res['theorems'] = names
    res['examples'] = len(re.findall(r'^\s*Example\s+(\w+)', txt, flags=re.M))
    # the file must contain nothing but statements closed by "exact"
    proofs = re.findall(r'Proof\.(.*?)Qed\.', txt, flags=re.S)
    vo = src[:-2] + '.vo'
    if not os.path.exists(vo) or os.path.getmtime(vo) < os.path.getmtime(src):
        res['msg'] = 'Properties/%s.vo is missing or stale (a proof obligation does not check)' % pid
        return res
    tmpd = tempfile.mkdtemp(prefix='pa.', dir=WORK)
    try:
        shutil.copy(src, tmpd + '/%s_pa.v' % pid)
        rc, out = sh('cd %s && timeout 600 coqc -Q %s/theories GFS %s_pa.v' % (tmpd, COQ, pid))
    finally:
        shutil.rmtree(tmpd, ignore_errors=True)
    if rc != 0:
        res['msg'] = 'coqc failed on Properties/%s.v: %s' % (pid, out[-1500:])
        return res
    blocks = re.split(r'(?=Closed under the global context|Axioms:)', out)
    verdicts = [b for b in blocks if b.startswith('Closed under') or b.startswith('Axioms:')]
    pa_names = re.findall(r'Print Assumptions\s+(\w+)', txt)
    for n, v in zip(pa_names, verdicts):
        if v.startswith('Closed under'):
            res['closed'].append(n)
        else:
            res['open'][n] = v.strip()[:600]
    missing = [n for n in names if n not in pa_names]
    res['ok'] = (len(verdicts) == len(pa_names) and not res['open'] and not missing and len(names) > 0)
    if missing:
        res['msg'] = 'no Print Assumptions for: ' + ', '.join(missing)
    elif res['open']:
        res['msg'] = 'theorems depend on axioms: ' + ', '.join(res['open'])
    return res


# ---------------------------------------------------------------- drivers

_DISK_ROOT = None


def _big_stack():
    # the extracted model recurses over lists non-tail-recursively
    import resource
    try:
        # a defect in the code under test must not let one driver process eat the machine
        # (seen: a wrong cached end turned a 40-frame range into 2^60 frames, 53 GB)
        resource.setrlimit(resource.RLIMIT_DATA, (8 << 30, 8 << 30))
    except Exception:
        pass
    try:
        resource.setrlimit(resource.RLIMIT_STACK, (resource.RLIM_INFINITY, resource.RLIM_INFINITY))
    except Exception:
        try:
            resource.setrlimit(resource.RLIMIT_STACK, (1 << 30, 1 << 30))
        except Exception:
            pass


def disk_root():
    """one scratch root per check process, outside /repo, /verif and /tmp; removed at exit"""
    global _DISK_ROOT
    if _DISK_ROOT is None:
        _DISK_ROOT = tempfile.mkdtemp(prefix='verifd.', dir='/var/tmp')
        os.makedirs(_DISK_ROOT + '/targets/dir', exist_ok=True)
        open(_DISK_ROOT + '/targets/file', 'w').close()
        import atexit
        atexit.register(lambda: shutil.rmtree(_DISK_ROOT, ignore_errors=True))
    return _DISK_ROOT


def run_driver(binary, lines, env_extra=None, shards=NPROC, need_root=False, timeout=3000):
    """Feed the protocol lines to a driver, sharded over processes; returns the
    output lines in input order."""
    n = len(lines)
    if n == 0:
        return []
    shards = max(1, min(shards, (n + 49) // 50))
    chunks = [lines[i::shards] for i in range(shards)]
    procs = []
    roots = []
    for i, ch in enumerate(chunks):
        env = dict(GOENV)
        env['VERIF_RX'] = WORK + '/rx_patterns.txt'
        if env_extra:
            env.update(env_extra)
        if need_root:
            env['VERIF_ROOT'] = disk_root()
        inp = ('\n'.join(ch) + '\n').encode('latin-1')
        fin = tempfile.TemporaryFile()
        fin.write(inp)
        fin.seek(0)
        p = subprocess.Popen([binary], stdin=fin, stdout=subprocess.PIPE, stderr=subprocess.PIPE, env=env,
                             preexec_fn=_big_stack)
        procs.append((p, fin))
    outs = []
    for p, fin in procs:
        try:
            o, e = p.communicate(timeout=timeout)
        except subprocess.TimeoutExpired:
            p.kill()
            o, e = p.communicate()
        fin.close()
        outs.append(o.decode('latin-1').split('\n'))
    for r in roots:
        shutil.rmtree(r, ignore_errors=True)
    res = [None] * n
    for i, ch in enumerate(chunks):
        o = outs[i]
        for j in range(len(ch)):
            res[i + j * shards] = o[j] if j < len(o) and o[j] != '' else 'NOOUTPUT'
    return res


def parse_out(s):
    """'OK k=v k=v' -> (status, {k: v}, [bare tokens])"""
    toks = s.split(' ')
    st = toks[0]
    kv = {}
    bare = []
    for t in toks[1:]:
        if '=' in t and not t.startswith('='):
            k, v = t.split('=', 1)
            if k in kv:
                # repeated key (COPY/PART sections): keep positional
                i = 2
                while '%s#%d' % (k, i) in kv:
                    i += 1
                k = '%s#%d' % (k, i)
            kv[k] = v
        else:
            bare.append(t)
    return st, kv, bare


def zl(s):
    if s in ('-', '', None):
        return []
    return [int(x) for x in s.split(',')]


# ---------------------------------------------------------------- findings

def load_findings():
    p = V + '/known_findings.json'
    if not os.path.exists(p):
        return []
    return json.load(open(p))


_NEGZERO = re.compile(r'-(0+)(?![0-9])')


def _negzero_variants(b):
    """the names a negative-zero numeral is rebuilt as: the dash replaced by one more zero"""
    return set(b[:m.start()] + '0' + m.group(1) + b[m.end():] for m in _NEGZERO.finditer(b))


def _quoted(t):
    return [x.split(':', 1)[1] if re.match(r'^(F|D|LF|LD|LS|LX|LL|LN):', x) else x for x in re.findall(r"'([^']*)'", t)]


def negzero_failure(text, msgs):
    """every path a failure message quotes is either a name holding a negative-zero numeral whose
    rebuilt form (dash -> zero) is quoted too (in the message or the input), or such a rebuilt form"""
    base = lambda p_: p_.rstrip('/').rsplit('/', 1)[-1]
    inputs = set(base(x) for x in _quoted(text))
    for m_ in msgs:
        names = set(base(x) for x in _quoted(m_))
        if not names:
            return False
        pool = names | inputs
        for b in names:
            if not (_negzero_variants(b) & pool or any(b in _negzero_variants(p_) for p_ in pool)):
                return False
    return True


def finding_matches(f, pid, case, msgs=None):
    """A known finding matches by a narrow predicate on the input (and, where the finding says so,
    on what exactly failed), never by property id alone."""
    if f.get('status') != 'known' or pid not in f.get('properties', []):
        return False
    m = f.get('match', {})
    kind = m.get('kind')
    text = case.get('text', '')
    if m.get('failure') == 'negzero' and msgs is not None and not negzero_failure(text, msgs):
        return False
    if kind == 'input_regex':
        return re.search(m['pattern'], text) is not None
    if kind == 'exact_input':
        return text == m['input']
    if kind == 'any_arg_regex':
        return any(re.search(m['pattern'], a) for a in case.get('args', []))
    return False


# ---------------------------------------------------------------- evidence

def write_evidence(pid, ev):
    os.makedirs(V + '/evidence', exist_ok=True)
    p = '%s/evidence/%s.json' % (V, pid)
    tmp = p + '.tmp'
    json.dump(ev, open(tmp, 'w'), indent=1, sort_keys=True)
    os.replace(tmp, p)


def write_replay(pid, obj):
    os.makedirs(V + '/replays', exist_ok=True)
    h = hashlib.sha1(json.dumps(obj, sort_keys=True).encode()).hexdigest()[:10]
    p = '%s/replays/%s-%s.json' % (V, pid, h)
    json.dump(obj, open(p, 'w'), indent=1, sort_keys=True)
    return p


# ---------------------------------------------------------------- extraction cross-check

def incoq_crosscheck(lines, ml_out, limit=120):
    """Evaluate a slice of the cases INSIDE Coq (vm_compute on Driver.dispatch) and compare with
    what the extracted OCaml driver printed: keeps extraction and the OCaml glue honest.
    Returns (n_checked, n_mismatch, message)."""
    pick = [(l, o) for l, o in zip(lines, ml_out) if len(l) < 1500 and len(o) < 3000 and not l.startswith(('disk', 'findseq'))]
    step = max(1, len(pick) // limit)
    pick = pick[::step][:limit]
    if not pick:
        return 0, 0, ''

    def blist(b):
        return '[' + ';'.join(str(x) for x in b) + ']'
    items = []
    for l, o in pick:
        f = l.split(' ')
        args = [f[0].encode('latin-1')] + [unhx(x) for x in f[1:]]
        items.append('(%s, %s)' % ('[' + ';'.join(blist(a) for a in args) + ']', blist(o.encode('latin-1'))))
    def one_chunk(chunk):
        src = ('From GFS Require Import Base Driver.\n'
               'Definition cases : list (list bytes * bytes) := [\n%s].\n'
               'Definition mism : nat := List.length (filter (fun c => negb (beq (dispatch (fst c)) (snd c))) cases).\n'
               'Definition M := Eval vm_compute in mism.\nPrint M.\n') % ';\n'.join(chunk)
        d = tempfile.mkdtemp(prefix='xchk.', dir=WORK)
        try:
            open(d + '/xchk.v', 'w').write(src)
            rc, out = sh('cd %s && ulimit -v 12000000; timeout 240 coqc -Q %s/theories GFS xchk.v' % (d, COQ))
        finally:
            shutil.rmtree(d, ignore_errors=True)
        m = re.search(r'M = (\d+)', out)
        if rc == 124 or 'Out of memory' in out or 'Stack overflow' in out:
            return len(chunk), None, ''           # too expensive to evaluate inside Coq: not evaluated, not a mismatch
        if rc != 0 or not m:
            return len(chunk), -1, 'in-Coq evaluation failed: ' + out[-400:]
        return len(chunk), int(m.group(1)), ''
    chunks = [items[i:i + 40] for i in range(0, len(items), 40)]
    import concurrent.futures
    with concurrent.futures.ThreadPoolExecutor(max_workers=4) as ex:
        res = list(ex.map(one_chunk, chunks))
    done = sum(n for n, bad, _ in res if bad is not None)
    for n, bad, msg in res:
        if bad == -1:
            return done, -1, msg
    return done, sum(bad for n, bad, _ in res if bad), ''
