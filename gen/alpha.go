package main

// Alpha-normalisation: before a function is matched against a statement vocabulary (whose
// patterns are written with the names the source uses today), its parameters and local
// variables are renamed to the names the SAME function has in a reference copy of the file
// (gen/ref/*.go.txt, the source as it was when the vocabulary was written). Locals are
// matched by the order of their declarations, so a pure renaming of locals, parameters or
// receivers leaves the translation unchanged. If the numbers of declarations differ the
// function is left as it is and the vocabulary decides.

import (
	"embed"
	"go/ast"
	"go/parser"
	"go/token"
	"sort"
)

//go:embed ref/*.txt
var refFS embed.FS

func refFile(name string) *ast.File {
	src, err := refFS.ReadFile("ref/" + name + ".txt")
	if err != nil {
		die("reference copy %s: %v", name, err)
	}
	f, err := parser.ParseFile(token.NewFileSet(), name, src, 0)
	if err != nil {
		die("reference copy %s: %v", name, err)
	}
	return f
}

// localObjs: the objects (variables, constants) declared inside node, in source order.
func localObjs(node ast.Node) []*ast.Object {
	seen := map[*ast.Object]bool{}
	var objs []*ast.Object
	ast.Inspect(node, func(n ast.Node) bool {
		id, ok := n.(*ast.Ident)
		if !ok || id.Obj == nil || seen[id.Obj] {
			return true
		}
		o := id.Obj
		if (o.Kind != ast.Var && o.Kind != ast.Con) || o.Pos() < node.Pos() || o.Pos() >= node.End() || o.Name == "_" {
			return true
		}
		seen[o] = true
		objs = append(objs, o)
		return true
	})
	sort.SliceStable(objs, func(i, j int) bool { return objs[i].Pos() < objs[j].Pos() })
	return objs
}

// renameLike renames the locals of actual, in place, to the names of the locals of ref that
// are declared at the same rank. Reports whether the two declare the same number of locals.
func renameLike(actual, ref ast.Node) bool {
	a, r := localObjs(actual), localObjs(ref)
	if len(a) != len(r) {
		return false
	}
	// locals that carry a name the reference also uses keep it (so a mere reordering of
	// declarations renames nothing); only the others are paired, by rank among themselves
	refNames, actNames := map[string]int{}, map[string]int{}
	for _, o := range r {
		refNames[o.Name]++
	}
	for _, o := range a {
		actNames[o.Name]++
	}
	var a2, r2 []*ast.Object
	for _, o := range a {
		if refNames[o.Name] == 0 {
			a2 = append(a2, o)
		}
	}
	for _, o := range r {
		if actNames[o.Name] == 0 {
			r2 = append(r2, o)
		}
	}
	if len(a2) != len(r2) {
		return false
	}
	to := map[*ast.Object]string{}
	for i := range a2 {
		to[a2[i]] = r2[i].Name
	}
	// two different locals must not end up with one name in the same function unless the
	// reference does the same (shadowing): the reference's own names guarantee that
	ast.Inspect(actual, func(n ast.Node) bool {
		if id, ok := n.(*ast.Ident); ok && id.Obj != nil {
			if nm, ok := to[id.Obj]; ok {
				id.Name = nm
			}
		}
		return true
	})
	return true
}

func findFuncDecl(f *ast.File, recvType, name string) *ast.FuncDecl {
	for _, d := range f.Decls {
		fd, ok := d.(*ast.FuncDecl)
		if !ok || fd.Name.Name != name {
			continue
		}
		rt := ""
		if fd.Recv != nil && len(fd.Recv.List) == 1 {
			switch t := fd.Recv.List[0].Type.(type) {
			case *ast.StarExpr:
				if id, ok := t.X.(*ast.Ident); ok {
					rt = id.Name
				}
			case *ast.Ident:
				rt = t.Name
			}
		}
		if rt == recvType {
			return fd
		}
	}
	return nil
}

// normalizeFuncs renames the locals of the named functions of f after the reference copy.
func normalizeFuncs(f *ast.File, refName string, funcs [][2]string) {
	ref := refFile(refName)
	for _, rn := range funcs {
		a, r := findFuncDecl(f, rn[0], rn[1]), findFuncDecl(ref, rn[0], rn[1])
		if a != nil && r != nil {
			renameLike(a, r)
		}
	}
}

// normTree: a control-flow normal form used to compare a function with its reference copy
// when the function is modelled by hand (its text is pinned). Statements after an `if` are
// pushed into both branches, `!=` and `!` conditions are turned around, an `else` after a
// returning branch disappears: early-return style, nested style and inverted guards of the
// same decision tree all print as the same string. Loops, selects and other compound
// statements are compared as text.
func normTree(fset *token.FileSet, list []ast.Stmt) string {
	if len(list) == 0 {
		return "END"
	}
	s, rest := list[0], list[1:]
	switch t := s.(type) {
	case *ast.ReturnStmt:
		return "RET{" + stmtText(fset, t) + "}"
	case *ast.BlockStmt:
		return normTree(fset, append(append([]ast.Stmt{}, t.List...), rest...))
	case *ast.IfStmt:
		if t.Init != nil {
			cp := *t
			cp.Init = nil
			return "SEQ{" + stmtText(fset, t.Init) + ";" + normTree(fset, append([]ast.Stmt{&cp}, rest...)) + "}"
		}
		cond, neg := t.Cond, false
		for {
			if p, ok := cond.(*ast.ParenExpr); ok {
				cond = p.X
				continue
			}
			if u, ok := cond.(*ast.UnaryExpr); ok && u.Op == token.NOT {
				cond, neg = u.X, !neg
				continue
			}
			break
		}
		ctext := stmtText(fset, &ast.ExprStmt{X: cond})
		if b, ok := cond.(*ast.BinaryExpr); ok && b.Op == token.NEQ {
			eq := *b
			eq.Op = token.EQL
			ctext, neg = stmtText(fset, &ast.ExprStmt{X: &eq}), !neg
		}
		thenL := append(append([]ast.Stmt{}, t.Body.List...), rest...)
		var elseL []ast.Stmt
		switch e := t.Else.(type) {
		case nil:
			elseL = rest
		case *ast.BlockStmt:
			elseL = append(append([]ast.Stmt{}, e.List...), rest...)
		default:
			elseL = append([]ast.Stmt{e}, rest...)
		}
		a, b := normTree(fset, thenL), normTree(fset, elseL)
		if neg {
			a, b = b, a
		}
		return "IF{" + ctext + "?" + a + ":" + b + "}"
	}
	return "SEQ{" + stmtText(fset, s) + ";" + normTree(fset, rest) + "}"
}
