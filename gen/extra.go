package main

// genExtra: effect table (C16) and storage statement programs (C20); filled in later.
func genExtra(repo, out string) {}
