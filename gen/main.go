// gfsgen translates parts of /repo's Go source into Coq terms (the Gen layer
// of the development).  It is re-run by every check, so the theorems are
// re-checked against what the source says now.
//
//	gfsgen <repo> <outdir>
package main

import (
	"bytes"
	"fmt"
	"go/ast"
	"go/parser"
	"go/token"
	"os"
	"path/filepath"
	"regexp/syntax"
	"sort"
	"strconv"
	"strings"
)

func die(format string, a ...interface{}) {
	fmt.Fprintf(os.Stderr, "gfsgen: "+format+"\n", a...)
	os.Exit(2)
}

type pkgInfo struct {
	fset  *token.FileSet
	files map[string]*ast.File
	// package-level string vars/consts: name -> init expr
	strVars map[string]ast.Expr
}

func loadPkg(dir string, names ...string) *pkgInfo {
	p := &pkgInfo{fset: token.NewFileSet(), files: map[string]*ast.File{}, strVars: map[string]ast.Expr{}}
	for _, n := range names {
		f, err := parser.ParseFile(p.fset, filepath.Join(dir, n), nil, parser.ParseComments)
		if err != nil {
			die("parse %s: %v", n, err)
		}
		p.files[n] = f
		for _, d := range f.Decls {
			gd, ok := d.(*ast.GenDecl)
			if !ok || (gd.Tok != token.VAR && gd.Tok != token.CONST) {
				continue
			}
			for _, s := range gd.Specs {
				vs := s.(*ast.ValueSpec)
				for i, id := range vs.Names {
					if i < len(vs.Values) {
						p.strVars[id.Name] = vs.Values[i]
					}
				}
			}
		}
	}
	return p
}

// evalString evaluates a constant string expression.
func (p *pkgInfo) evalString(e ast.Expr) (string, bool) {
	switch x := e.(type) {
	case *ast.BasicLit:
		if x.Kind != token.STRING {
			return "", false
		}
		s, err := strconv.Unquote(x.Value)
		if err != nil {
			return "", false
		}
		return s, true
	case *ast.ParenExpr:
		return p.evalString(x.X)
	case *ast.BinaryExpr:
		if x.Op != token.ADD {
			return "", false
		}
		a, ok1 := p.evalString(x.X)
		b, ok2 := p.evalString(x.Y)
		return a + b, ok1 && ok2
	case *ast.Ident:
		if init, ok := p.strVars[x.Name]; ok {
			return p.evalString(init)
		}
	}
	return "", false
}

func isMustCompile(e ast.Expr) (ast.Expr, bool) {
	c, ok := e.(*ast.CallExpr)
	if !ok || len(c.Args) != 1 {
		return nil, false
	}
	sel, ok := c.Fun.(*ast.SelectorExpr)
	if !ok || sel.Sel.Name != "MustCompile" {
		return nil, false
	}
	if id, ok := sel.X.(*ast.Ident); !ok || id.Name != "regexp" {
		return nil, false
	}
	return c.Args[0], true
}

// ---------------------------------------------------------------- regex -> Coq

func clip(lo, hi rune) (int, int, bool) {
	if lo > 255 {
		// a range entirely above the byte range: at byte level every byte
		// of a multi-byte rune is >= 0x80, so such a class matches the bytes
		// 0x80..0xFF iff it contains non-ASCII runes
		return 128, 255, true
	}
	l, h := int(lo), int(hi)
	if h > 255 {
		h = 255
	}
	if hi >= 128 && h < 255 {
		// a range that reaches into non-ASCII runes matches, byte-wise,
		// all high bytes only if it covers all of them; otherwise refuse
		return 0, 0, false
	}
	return l, h, true
}

func coqRanges(rs []rune) string {
	var parts []string
	for i := 0; i+1 < len(rs); i += 2 {
		lo, hi := rs[i], rs[i+1]
		if lo >= 128 && hi >= 0x10FFFF {
			parts = append(parts, "(128, 255)")
			continue
		}
		l, h, ok := clip(lo, hi)
		if !ok {
			die("character class range %U-%U cannot be expressed byte-wise", lo, hi)
		}
		parts = append(parts, fmt.Sprintf("(%d, %d)", l, h))
	}
	return "[" + strings.Join(parts, "; ") + "]"
}

func coqRe(r *syntax.Regexp) string {
	switch r.Op {
	case syntax.OpEmptyMatch:
		return "REps"
	case syntax.OpLiteral:
		if r.Flags&syntax.FoldCase != 0 {
			die("case-folded literal not supported")
		}
		var b []byte
		for _, ru := range r.Rune {
			b = append(b, []byte(string(ru))...)
		}
		out := ""
		for i := len(b) - 1; i >= 0; i-- {
			c := fmt.Sprintf("(RCls false [(%d, %d)])", b[i], b[i])
			if out == "" {
				out = c
			} else {
				out = fmt.Sprintf("(RCat %s %s)", c, out)
			}
		}
		if out == "" {
			return "REps"
		}
		return out
	case syntax.OpCharClass:
		return fmt.Sprintf("(RCls false %s)", coqRanges(r.Rune))
	case syntax.OpAnyCharNotNL:
		return "(RCls true [(10, 10)])"
	case syntax.OpAnyChar:
		return "(RCls true [])"
	case syntax.OpBeginText:
		return "RBot"
	case syntax.OpEndText:
		return "REot"
	case syntax.OpCapture:
		return fmt.Sprintf("(RGrp %d %s)", r.Cap, coqRe(r.Sub[0]))
	case syntax.OpStar:
		return fmt.Sprintf("(RStar %s %s)", greedy(r), coqRe(r.Sub[0]))
	case syntax.OpPlus:
		s := coqRe(r.Sub[0])
		return fmt.Sprintf("(RCat %s (RStar %s %s))", s, greedy(r), s)
	case syntax.OpQuest:
		return fmt.Sprintf("(ROpt %s %s)", greedy(r), coqRe(r.Sub[0]))
	case syntax.OpConcat:
		out := ""
		for i := len(r.Sub) - 1; i >= 0; i-- {
			s := coqRe(r.Sub[i])
			if out == "" {
				out = s
			} else {
				out = fmt.Sprintf("(RCat %s %s)", s, out)
			}
		}
		return out
	case syntax.OpAlternate:
		out := ""
		for i := len(r.Sub) - 1; i >= 0; i-- {
			s := coqRe(r.Sub[i])
			if out == "" {
				out = s
			} else {
				out = fmt.Sprintf("(RAlt %s %s)", s, out)
			}
		}
		return out
	}
	die("regexp op %v not supported by the translator (pattern piece %q)", r.Op, r.String())
	return ""
}

func commentSafe(s string) string {
	s = strconv.Quote(s)
	s = strings.ReplaceAll(s, "\"", "'")
	s = strings.ReplaceAll(s, "*)", "* )")
	s = strings.ReplaceAll(s, "(*", "( *")
	return s
}

func greedy(r *syntax.Regexp) string {
	if r.Flags&syntax.NonGreedy != 0 {
		return "false"
	}
	return "true"
}

func coqBytes(s string) string {
	var parts []string
	for _, b := range []byte(s) {
		parts = append(parts, strconv.Itoa(int(b)))
	}
	return "[" + strings.Join(parts, "; ") + "]"
}

type rx struct {
	name    string
	pattern string
}

func collectRegexes(p *pkgInfo) []rx {
	var out []rx
	f := p.files["fileseq.go"]
	for _, d := range f.Decls {
		gd, ok := d.(*ast.GenDecl)
		if !ok || gd.Tok != token.VAR {
			continue
		}
		for _, s := range gd.Specs {
			vs := s.(*ast.ValueSpec)
			for i, id := range vs.Names {
				if i >= len(vs.Values) {
					continue
				}
				v := vs.Values[i]
				if arg, ok := isMustCompile(v); ok {
					str, ok := p.evalString(arg)
					if !ok {
						die("cannot evaluate the pattern of %s as a constant string", id.Name)
					}
					out = append(out, rx{id.Name, str})
					continue
				}
				if cl, ok := v.(*ast.CompositeLit); ok {
					for j, el := range cl.Elts {
						if arg, ok := isMustCompile(el); ok {
							str, ok := p.evalString(arg)
							if !ok {
								die("cannot evaluate pattern %d of %s", j, id.Name)
							}
							out = append(out, rx{fmt.Sprintf("%s_%d", id.Name, j), str})
						}
					}
				}
			}
		}
	}
	return out
}

func genRegex(p *pkgInfo) string {
	var b bytes.Buffer
	b.WriteString("(* GENERATED by gfsgen from /repo/fileseq.go - do not edit *)\n")
	b.WriteString("From GFS Require Import Base Regex.\n\n")
	rxs := collectRegexes(p)
	want := map[string]bool{"rangePatterns_0": true, "rangePatterns_1": true, "rangePatterns_2": true,
		"splitPattern": true, "singleFramePattern": true, "optionalFramePattern": true,
		"printfPattern": true, "houdiniPattern": true, "udimPattern": true}
	for _, r := range rxs {
		re, err := syntax.Parse(r.pattern, syntax.Perl)
		if err != nil {
			die("pattern %s does not parse: %v", r.name, err)
		}
		fmt.Fprintf(&b, "(* %s = %s   (groups: %d) *)\n", r.name, commentSafe(r.pattern), re.MaxCap())
		fmt.Fprintf(&b, "Definition R_%s : re :=\n  %s.\n", r.name, coqRe(re))
		fmt.Fprintf(&b, "Definition N_%s : nat := %d.\n\n", r.name, re.MaxCap())
		delete(want, r.name)
	}
	if len(want) > 0 {
		var miss []string
		for k := range want {
			miss = append(miss, k)
		}
		sort.Strings(miss)
		die("patterns not found in fileseq.go: %v", miss)
	}
	return b.String()
}

// ---------------------------------------------------------------- pad tables

func findFunc(f *ast.File, name string) *ast.FuncDecl {
	for _, d := range f.Decls {
		if fd, ok := d.(*ast.FuncDecl); ok && fd.Name.Name == name && fd.Recv == nil {
			return fd
		}
	}
	return nil
}

func padTable(p *pkgInfo, fn, prefix string, b *bytes.Buffer) {
	fd := findFunc(p.files["pad.go"], fn)
	if fd == nil {
		die("function %s not found in pad.go", fn)
	}
	found := false
	ast.Inspect(fd, func(n ast.Node) bool {
		cl, ok := n.(*ast.CompositeLit)
		if !ok {
			return true
		}
		id, ok := cl.Type.(*ast.Ident)
		if !ok || id.Name != "paddingMap" {
			return true
		}
		found = true
		for _, el := range cl.Elts {
			kv := el.(*ast.KeyValueExpr)
			switch kv.Key.(*ast.Ident).Name {
			case "charToSize":
				m := kv.Value.(*ast.CompositeLit)
				type ent struct {
					k string
					v string
				}
				var ents []ent
				for _, me := range m.Elts {
					mkv := me.(*ast.KeyValueExpr)
					k, ok := p.evalString(mkv.Key)
					if !ok {
						die("%s: non-constant charToSize key", fn)
					}
					lit, ok := mkv.Value.(*ast.BasicLit)
					if !ok || lit.Kind != token.INT {
						die("%s: non-literal charToSize value", fn)
					}
					ents = append(ents, ent{k, lit.Value})
				}
				sort.Slice(ents, func(i, j int) bool { return ents[i].k < ents[j].k })
				var parts []string
				for _, e := range ents {
					parts = append(parts, fmt.Sprintf("(%s, %s%%Z)", coqBytes(e.k), e.v))
				}
				fmt.Fprintf(b, "Definition %s_char_size : list (bytes * Z) := [%s].\n", prefix, strings.Join(parts, "; "))
			case "defaultChar":
				s, ok := p.evalString(kv.Value)
				if !ok {
					die("%s: non-constant defaultChar", fn)
				}
				fmt.Fprintf(b, "Definition %s_default_char : bytes := %s.\n", prefix, coqBytes(s))
			}
		}
		return false
	})
	if !found {
		die("%s: paddingMap literal not found", fn)
	}
}

func genPad(p *pkgInfo) string {
	var b bytes.Buffer
	b.WriteString("(* GENERATED by gfsgen from /repo/pad.go and sequence.go - do not edit *)\n")
	b.WriteString("From GFS Require Import Base.\n\n")
	padTable(p, "newMultiHashPad", "hash4", &b)
	padTable(p, "newSingleHashPad", "hash1", &b)
	// PadStyle constants
	consts := map[string]string{}
	for _, fn := range []string{"pad.go", "sequence.go"} {
		for _, d := range p.files[fn].Decls {
			gd, ok := d.(*ast.GenDecl)
			if !ok || gd.Tok != token.CONST {
				continue
			}
			iota := 0
			for _, s := range gd.Specs {
				vs := s.(*ast.ValueSpec)
				for i, id := range vs.Names {
					if len(vs.Values) > i {
						switch v := vs.Values[i].(type) {
						case *ast.BasicLit:
							consts[id.Name] = v.Value
						case *ast.Ident:
							if v.Name == "iota" {
								consts[id.Name] = strconv.Itoa(iota)
							} else if c, ok := consts[v.Name]; ok {
								consts[id.Name] = c
							}
						}
					} else {
						consts[id.Name] = strconv.Itoa(iota)
					}
				}
				iota++
			}
		}
	}
	for _, n := range []string{"PadStyleHash1", "PadStyleHash4", "PadStyleDefault", "HiddenFiles", "SingleFiles", "FileOptPadStyleHash1", "FileOptPadStyleHash4", "StrictPadding"} {
		v, ok := consts[n]
		if !ok {
			die("constant %s not found", n)
		}
		if _, err := strconv.Atoi(v); err != nil {
			die("constant %s has non-integer value %q", n, v)
		}
		fmt.Fprintf(&b, "Definition K_%s : Z := %s%%Z.\n", n, v)
	}
	return b.String()
}

func writeIfChanged(path, content string) {
	old, err := os.ReadFile(path)
	if err == nil && string(old) == content {
		return
	}
	if err := os.WriteFile(path, []byte(content), 0o644); err != nil {
		die("write %s: %v", path, err)
	}
	fmt.Println("gfsgen: wrote", path)
}

func main() {
	if len(os.Args) != 3 && len(os.Args) != 4 {
		die("usage: gfsgen <repo> <outdir> [<rx-patterns-file>]")
	}
	repo, out := os.Args[1], os.Args[2]
	p := loadPkg(repo, "fileseq.go", "pad.go", "sequence.go", "frameset.go")
	writeIfChanged(filepath.Join(out, "GenRegex.v"), genRegex(p))
	writeIfChanged(filepath.Join(out, "GenPadTables.v"), genPad(p))
	genExtra(repo, out)
	if len(os.Args) == 4 {
		short := map[string]string{"rangePatterns_0": "range0", "rangePatterns_1": "range1", "rangePatterns_2": "range2",
			"splitPattern": "split", "singleFramePattern": "single", "optionalFramePattern": "optional",
			"printfPattern": "printf", "houdiniPattern": "houdini", "udimPattern": "udim"}
		var b bytes.Buffer
		for _, r := range collectRegexes(p) {
			if s, ok := short[r.name]; ok {
				fmt.Fprintf(&b, "%s\t%x\n", s, r.pattern)
			}
		}
		writeIfChanged(os.Args[3], b.String())
	}
}
