module gfsgen

go 1.21
