(** C16: threads that never write shared state cannot interfere with each other. *)
From Coq Require Import List Arith Lia.
Import ListNotations.
From GFS Require Import Conc.

Section ConcProofs.
Variables loc val lstate : Type.
Variable loc_eqb : loc -> loc -> bool.
Notation action := (action loc val lstate).
Notation thread := (thread loc val lstate).
Notation store := (store loc val).

Definition read_only (ts : list thread) : Prop :=
  forall t, In t ts -> forall a, In a (fst t) -> writes_shared loc val lstate a = false.

Lemma astep_read_only : forall (s : store) a l, writes_shared loc val lstate a = false ->
  fst (astep loc val lstate loc_eqb s a l) = s.
Proof. intros s a l H. destruct a; cbn in *; try reflexivity. discriminate. Qed.

Lemma set_nth_length : forall A (l : list A) n v, length (set_nth l n v) = length l.
Proof. induction l; destruct n; cbn; intros; auto. Qed.

Lemma nth_error_set_nth_eq : forall A (l : list A) n v, n < length l -> nth_error (set_nth l n v) n = Some v.
Proof. induction l; destruct n; cbn; intros; try lia; auto. apply IHl. lia. Qed.

Lemma nth_error_set_nth_neq : forall A (l : list A) n m v, n <> m -> nth_error (set_nth l n v) m = nth_error l m.
Proof. induction l; destruct n, m; cbn; intros; try congruence; auto. Qed.

Lemma In_set_nth : forall A (l : list A) n v x, In x (set_nth l n v) -> x = v \/ In x l.
Proof.
  induction l as [|y l IH]; destruct n; cbn; intros v x H; auto.
  - destruct H; auto.
  - destruct H as [H|H]; auto. destruct (IH _ _ _ H); auto.
Qed.

(** the local result a thread is heading for, given the (constant) store *)
Definition goal (s : store) (t : thread) : lstate := run_alone loc val lstate loc_eqb s (fst t) (snd t).

Lemma sstep_preserves : forall (s : store) ts i,
  read_only ts ->
  let st' := sstep loc val lstate loc_eqb (s, ts) i in
  fst st' = s /\ read_only (snd st') /\ length (snd st') = length ts /\
  (forall j, option_map (goal s) (nth_error (snd st') j) = option_map (goal s) (nth_error ts j)).
Proof.
  intros s ts i Hro. unfold sstep.
  destruct (nth_error ts i) as [[acts l]|] eqn:E; [|repeat split; auto].
  destruct acts as [|a rest]; [repeat split; auto|].
  assert (Hin : In (a :: rest, l) ts) by (eapply nth_error_In; eauto).
  assert (Ha : writes_shared loc val lstate a = false) by (apply (Hro _ Hin); left; reflexivity).
  pose proof (astep_read_only s a l Ha) as Hs.
  destruct (astep loc val lstate loc_eqb s a l) as [s' l'] eqn:Ea. cbn in Hs. subst s'.
  cbn [fst snd]. repeat split.
  - intros t Ht b Hb. apply In_set_nth in Ht. destruct Ht as [->|Ht].
    + apply (Hro _ Hin). right. exact Hb.
    + apply (Hro _ Ht). exact Hb.
  - apply set_nth_length.
  - intros j. destruct (Nat.eq_dec i j) as [->|Hne].
    + rewrite nth_error_set_nth_eq by (apply nth_error_Some; congruence).
      rewrite E. cbn. unfold goal. cbn [fst snd run_alone]. rewrite Ea. reflexivity.
    + rewrite nth_error_set_nth_neq by exact Hne. reflexivity.
Qed.

(** for EVERY schedule: the shared store is never modified, and every thread is
    still heading for exactly the result it computes when run alone *)
Theorem read_only_noninterference_proof : forall sched (s : store) ts,
  read_only ts ->
  let st' := run loc val lstate loc_eqb sched (s, ts) in
  fst st' = s /\
  (forall j, option_map (goal s) (nth_error (snd st') j) = option_map (goal s) (nth_error ts j)).
Proof.
  induction sched as [|i sched IH]; intros s ts Hro; cbn [run fold_left].
  - split; auto.
  - destruct (sstep_preserves s ts i Hro) as (Hs & Hro' & _ & Hg).
    destruct (sstep loc val lstate loc_eqb (s, ts) i) as [s1 ts1] eqn:E. cbn [fst snd] in *. subst s1.
    destruct (IH s ts1 Hro') as [H1 H2]. split; [exact H1|].
    intros j. rewrite H2. apply Hg.
Qed.

(** in particular a thread that has finished holds the result of its solo run *)
Corollary finished_thread_result_proof : forall sched (s : store) ts j acts l l',
  read_only ts -> nth_error ts j = Some (acts, l) ->
  nth_error (snd (run loc val lstate loc_eqb sched (s, ts))) j = Some ([], l') ->
  l' = run_alone loc val lstate loc_eqb s acts l.
Proof.
  intros sched s ts j acts l l' Hro Hj Hf.
  destruct (read_only_noninterference_proof sched s ts Hro) as [_ H].
  specialize (H j). rewrite Hf, Hj in H. cbn in H. unfold goal in H. cbn in H. congruence.
Qed.

(** no two actions of read-only threads conflict: there is no data race to schedule *)
Theorem no_race_proof : forall ts, read_only ts ->
  forall t1 t2 a b, In t1 ts -> In t2 ts -> In a (fst t1) -> In b (fst t2) -> ~ conflicting loc val lstate loc_eqb a b.
Proof.
  intros ts Hro t1 t2 a b H1 H2 Ha Hb Hc.
  pose proof (Hro _ H1 _ Ha) as Wa. pose proof (Hro _ H2 _ Hb) as Wb.
  unfold conflicting in Hc. destruct a, b; cbn in *; try discriminate; try contradiction.
  destruct Hc as [_ [X|X]]; discriminate.
Qed.
End ConcProofs.
