(** Listing, stage B: what appendSeq and the single-file branch make of the
    strings they rebuild and re-parse. *)
From GFS Require Import Base Dec Regex GenRegex GenPadTables Ranges Pad FrameSet Compress Path Seq Listing
  SpecRange SpecSeq RegexKit RangeRegex DecProofs PadProofs SplitProofs CompressProofs Glue
  FramePathProofs SpecListing ListingProofs1.
Local Open Scope nat_scope.

(** * small facts *)

Lemma no_byte_app : forall c (a b : bytes), no_byte c (a ++ b) = no_byte c a && no_byte c b.
Proof.
  intros c a b. unfold no_byte. rewrite existsb_app, negb_orb. reflexivity.
Qed.

Lemma no_byte_cons : forall c x (a : bytes), no_byte c (x :: a) = negb (Nat.eqb c x) && no_byte c a.
Proof. intros c x a. unfold no_byte. cbn [existsb]. rewrite negb_orb. reflexivity. Qed.

Lemma no_byte_In : forall c (a : bytes), no_byte c a = true -> ~ In c a.
Proof.
  intros c a H Hin. unfold no_byte in H. apply negb_true_iff in H.
  assert (existsb (Nat.eqb c) a = true); [|congruence].
  apply existsb_exists. exists c. split; [exact Hin|apply Nat.eqb_refl].
Qed.

Lemma no_byte_skipn : forall c (a : bytes) j, no_byte c a = true -> no_byte c (skipn j a) = true.
Proof.
  intros c a j H. rewrite <- (firstn_skipn j a), no_byte_app in H.
  apply andb_true_iff in H. apply H.
Qed.

Lemma no_byte_firstn : forall c (a : bytes) j, no_byte c a = true -> no_byte c (firstn j a) = true.
Proof.
  intros c a j H. rewrite <- (firstn_skipn j a), no_byte_app in H.
  apply andb_true_iff in H. apply H.
Qed.

Lemma dir_ok_last : forall (k l : bytes), dir_ok (k ++ l) = true -> l <> [] -> no_byte 47 l = true -> False.
Proof.
  intros k l H Hne Hl. unfold dir_ok in H. rewrite rev_app_distr in H.
  destruct (rev l) as [|x r] eqn:E.
  - apply (f_equal (@rev _)) in E. rewrite rev_involutive in E. contradiction.
  - cbn [app] in H. apply Nat.eqb_eq in H. subst x.
    apply (no_byte_In 47 l Hl). apply in_rev. rewrite E. left. reflexivity.
Qed.

(** the directory of a prefix that still holds every separator *)
Lemma path_split_prefix : forall d y K M,
  dir_ok d = true -> no_byte 47 y = true -> no_byte 47 M = true -> d ++ y = K ++ M ->
  exists y', K = d ++ y' /\ path_split K = (d, y') /\ y = y' ++ M.
Proof.
  intros d y K M Hd Hy HM E. apply app_eq_app in E. destruct E as (l & [[-> ->]|[-> ->]]).
  - (* d = K ++ l *)
    destruct l as [|c l'].
    + exists []. rewrite !app_nil_r in *. split; [reflexivity|]. split; [|reflexivity].
      rewrite <- (app_nil_r K) at 1. apply path_split_dir_base; [exact Hd|reflexivity].
    + exfalso. rewrite no_byte_app in HM. apply andb_true_iff in HM.
      apply (dir_ok_last K (c :: l') Hd); [discriminate|apply HM].
  - exists l. rewrite no_byte_app in Hy. apply andb_true_iff in Hy.
    split; [reflexivity|]. split; [|reflexivity]. apply path_split_dir_base; [exact Hd|apply Hy].
Qed.

Lemma numeral_no_slash : forall t, numeral t -> no_byte 47 t = true.
Proof.
  intros t H. unfold no_byte. apply negb_true_iff.
  destruct (existsb (Nat.eqb 47) t) eqn:E; [|reflexivity].
  apply existsb_exists in E. destruct E as (x & Hin & Hx). apply Nat.eqb_eq in Hx. subst x.
  pose proof (numeral_avoids t 47 H ltac:(lia) eq_refl) as F. rewrite Forall_forall in F.
  exfalso. exact (F 47 Hin eq_refl).
Qed.

Lemma rg_no_slash : forall M, forallb in_range_class M = true -> no_byte 47 M = true.
Proof.
  induction M as [|c M IH]; intros H; [reflexivity|].
  cbn [forallb] in H. apply andb_true_iff in H. destruct H as [Hc HM].
  rewrite no_byte_cons, (IH HM), andb_true_r.
  destruct (Nat.eqb_spec 47 c) as [<-|]; [discriminate|reflexivity].
Qed.

(** * token-free strings *)

Lemma pad_len_none : forall u, token_starts u = false -> pad_len u = None.
Proof.
  intros u H. rewrite token_starts_eq in H. unfold pad_len. destruct u as [|c t]; [reflexivity|].
  destruct (is_ha c); [discriminate|].
  destruct (Nat.eqb c 37).
  { apply orb_false_iff in H. destruct H as [H1 H2]. rewrite H1, H2. reflexivity. }
  destruct (Nat.eqb c 36).
  { destruct t as [|c2 t2]; [reflexivity|]. rewrite H. reflexivity. }
  destruct (Nat.eqb c 60); [rewrite H|]; reflexivity.
Qed.

Lemma no_token_at : forall s j, no_token s = true -> token_starts (skipn j s) = false.
Proof.
  intros s j H. rewrite <- (firstn_skipn j s) in H. apply no_token_suffix in H.
  destruct (skipn j s) as [|c t]; [reflexivity|].
  cbn [no_token] in H. apply andb_true_iff in H. destruct H as [H _].
  apply negb_true_iff in H. exact H.
Qed.

Lemma kre_none_token_free : forall s j pos cs, no_token s = true -> kre_result pos (skipn j s) cs = None.
Proof.
  intros s j pos cs H. unfold kre_result. destruct (skipn j s) as [|c t] eqn:E; [reflexivity|].
  destruct (is_hd c).
  - cbv zeta. unfold pt_result.
    assert (Hs : skipn (span_len in_range_class t) t = skipn (j + S (span_len in_range_class t)) s).
    { rewrite skipn_add, E. reflexivity. }
    rewrite Hs, pad_len_none by (apply no_token_at; exact H). reflexivity.
  - unfold pt_result. rewrite <- E, pad_len_none by (apply no_token_at; exact H). reflexivity.
Qed.

Theorem split_none : forall s, no_token s = true -> submatches R_splitPattern s 4 = None.
Proof.
  intros s H. unfold submatches. rewrite split_char.
  rewrite lscan_none; [reflexivity|]. intros j _. cbv beta. apply kre_none_token_free. exact H.
Qed.

Lemma no_token_no_pad_char : forall s c, (c = 35 \/ c = 64) -> no_token s = true -> contains s [c] = false.
Proof.
  intros s c Hc. induction s as [|a s IH]; intros H; [reflexivity|].
  cbn [no_token] in H. apply andb_true_iff in H. destruct H as [H1 H2].
  cbn [contains has_prefix]. rewrite (IH H2), orb_false_r.
  destruct (Nat.eqb_spec c a) as [<-|]; [|reflexivity].
  apply negb_true_iff in H1. destruct Hc as [->| ->]; discriminate.
Qed.

(** * the rebuilt string  dir ++ base ++ range ++ pad ++ ext *)

(** no pad token is read at an offset inside a token-free prefix
    ([SplitProofs.no_pad_inside] without the tail condition) *)
Lemma no_pad_inside2 : forall pre c t R,
  no_token (pre ++ c :: t) = true -> follow_ok R -> pad_len ((c :: t) ++ R) = None.
Proof.
  intros pre c t R Hnt [(h & R' & -> & Hh) Hpf].
  apply no_token_suffix in Hnt. cbn [no_token] in Hnt.
  apply andb_true_iff in Hnt. destruct Hnt as [Hts _]. apply negb_true_iff in Hts.
  rewrite token_starts_eq in Hts.
  cbn [app]. unfold pad_len.
  destruct (is_ha c); [discriminate|].
  destruct (Nat.eqb_spec c 37) as [->|N37].
  { apply orb_false_iff in Hts. destruct Hts as [Hp Hu].
    assert (Hp' : printf_at (t ++ h :: R') = false).
    { destruct (forallb is_digit t) eqn:Ed.
      - apply printf_at_run; [|exact Hpf]. eapply forallb_impl; [apply digit_rg|exact Ed].
      - destruct (span_app_stop is_digit t (h :: R') Ed) as [H1 (d & t' & Hd & H2 & H3)].
        unfold printf_at in *. rewrite H1, H3. rewrite H2 in Hp. exact Hp. }
    rewrite Hp'.
    match goal with |- context [has_prefix ?a ?b] => destruct (has_prefix a b) eqn:Hu' end; [|reflexivity].
    exfalso. change (37 :: t ++ h :: R') with ((37 :: t) ++ h :: R') in Hu'.
    apply (prefix_straddle 37 (s2b "(UDIM)d")) in Hu'.
    destruct Hu' as [Hu'|(h' & R'' & E & Hin)]; [exact (eq_true_false_abs _ Hu' Hu)|].
    injection E as <- <-. eapply in_udim_tail; [exact Hh|exact Hin|reflexivity]. }
  destruct (Nat.eqb_spec c 36) as [->|N36].
  { destruct t as [|c2 t2].
    - cbn [app]. destruct (Nat.eqb_spec h 70) as [->|]; [discriminate|reflexivity].
    - cbn [app]. rewrite Hts. reflexivity. }
  destruct (Nat.eqb_spec c 60) as [->|N60]; [|reflexivity].
  match goal with |- context [has_prefix ?a ?b] => destruct (has_prefix a b) eqn:Hu' end; [|reflexivity].
  exfalso. change (60 :: t ++ h :: R') with ((60 :: t) ++ h :: R') in Hu'.
  apply (prefix_straddle 60 (s2b "UDIM>")) in Hu'.
  destruct Hu' as [Hu'|(h' & R'' & E & Hin)]; [exact (eq_true_false_abs _ Hu' Hts)|].
  injection E as <- <-. eapply in_udim_tail; [exact Hh|exact Hin|reflexivity].
Qed.

Lemma kre_fails_inside2 : forall pre c t R pos cs,
  no_token (pre ++ c :: t) = true -> follow_ok R ->
  is_hd c && forallb in_range_class t = false ->
  kre_result pos ((c :: t) ++ R) cs = None.
Proof.
  intros pre c t R pos cs Hnt HR Hg. cbn [app]. unfold kre_result.
  destruct (is_hd c) eqn:Ehd.
  - cbv zeta. cbn [andb] in Hg.
    destruct (span_app_stop in_range_class t R Hg) as [H1 (d & t' & Hd & H2 & H3)].
    rewrite H1, H3. unfold pt_result.
    rewrite (no_pad_inside2 (pre ++ c :: firstn (span_len in_range_class t) t) d t' R); [reflexivity| |exact HR].
    rewrite <- app_assoc. cbn [app]. rewrite <- H2, firstn_skipn. exact Hnt.
  - unfold pt_result. change (c :: t ++ R) with ((c :: t) ++ R).
    rewrite (no_pad_inside2 pre c t R Hnt HR). reflexivity.
Qed.

Lemma kre_at_rg : forall pos c t p e cs,
  is_hd c = true -> forallb in_range_class t = true -> is_pad_token p = true -> ext_ok e = true ->
  kre_result pos ((c :: t) ++ p ++ e) cs = Some (caps_at pos (c :: t) p e cs).
Proof.
  intros pos c t p e cs Hc Ht Hp He.
  destruct (ext_head e He) as [Hnl Hhd].
  destruct (pad_len_token p e Hp Hhd) as [_ (h & tp & Ep & Hh)].
  cbn [app]. unfold kre_result, caps_at. rewrite Hc. cbv zeta.
  rewrite (span_app_all _ _ _ Ht).
  assert (Hz : span_len in_range_class (p ++ e) = 0).
  { rewrite Ep. cbn [app]. apply span_zero, pad_not_rg, Hh. }
  rewrite Hz, Nat.add_0_r, skipn_len_app. cbn [List.length].
  apply pt_at_pad; assumption.
Qed.

Lemma caps4_get : forall (K r P E : bytes), r <> [] ->
  map (fun j => cap_get (K ++ r ++ P ++ E) (caps_at (List.length K) r P E [(1, (0, List.length K))]) (S j))
      (seq 0 4) = [K; r; P; E].
Proof.
  intros K r P E Hr. destruct r as [|c r']; [congruence|]. set (r := c :: r') in *.
  unfold caps_at. cbn [seq map]. unfold cap_get. cbn [cap_lookup Nat.eqb]. subst r. cbv iota.
  cbn [cap_lookup Nat.eqb].
  f_equal; [|f_equal; [|f_equal; [|f_equal]]].
  - rewrite slice_0. apply firstn_len_app.
  - apply (slice_mid _ _ _ K (c :: r') (P ++ E)); reflexivity.
  - apply (slice_mid _ _ _ (K ++ c :: r') P E).
    + rewrite <- app_assoc. reflexivity.
    + rewrite app_length. reflexivity.
    + reflexivity.
  - apply (slice_mid _ _ _ (K ++ (c :: r') ++ P) E []).
    + rewrite app_nil_r, <- !app_assoc. reflexivity.
    + rewrite !app_length. lia.
    + reflexivity.
Qed.

Lemma first_true : forall (g : nat -> bool) n, g n = true ->
  exists i, i <= n /\ g i = true /\ forall j, j < i -> g j = false.
Proof.
  intros g n Hn.
  assert (H : forall m, (forall j, j < m -> g j = false) \/
                        exists i, i < m /\ g i = true /\ forall j, j < i -> g j = false).
  { induction m as [|m [IH|IH]].
    - left. intros j Hj. lia.
    - destruct (g m) eqn:E.
      + right. exists m. repeat split; [lia|exact E|exact IH].
      + left. intros j Hj. destruct (Nat.eq_dec j m) as [->|]; [exact E|apply IH; lia].
    - right. destruct IH as (i & Hi & Hg & Hm). exists i. repeat split; [lia|exact Hg|exact Hm]. }
  destruct (H n) as [A|(i & Hi & Hg & Hm)].
  - exists n. repeat split; [lia|exact Hn|exact A].
  - exists i. repeat split; [lia|exact Hg|exact Hm].
Qed.

(** the split pattern on the rebuilt string: the pad token read is the one
    appended; the name group may stop short of the end of [N], inside its
    trailing run of range-class bytes *)
Theorem split_rebuilt : forall N c t P E,
  no_byte 10 N = true -> no_token N = true ->
  is_hd c = true -> forallb in_range_class t = true ->
  is_pad_token P = true -> ext_ok E = true ->
  exists K M, N = K ++ M /\ forallb in_range_class M = true /\
    submatches R_splitPattern (N ++ (c :: t) ++ P ++ E) 4 = Some [K; M ++ c :: t; P; E].
Proof.
  intros N c t P E Hnl Hnt Hc Ht HP HE.
  set (F := c :: t) in *.
  assert (HF : forallb in_range_class F = true).
  { subst F. cbn [forallb]. rewrite (hd_rg _ Hc), Ht. reflexivity. }
  destruct (ext_head E HE) as [_ Hhd].
  destruct (pad_len_token P E HP Hhd) as [_ (h & X & EP & Hh)].
  assert (HR : follow_ok (F ++ P ++ E)).
  { subst F. rewrite EP. change ((c :: t) ++ (h :: X) ++ E) with ((c :: t) ++ h :: (X ++ E)).
    apply follow_range; assumption. }
  set (g := fun o => match skipn o (N ++ F) with
                     | c' :: t' => is_hd c' && forallb in_range_class t'
                     | [] => false
                     end).
  assert (Hgn : g (List.length N) = true).
  { unfold g. rewrite skipn_len_app. subst F. cbv beta iota. rewrite Hc, Ht. reflexivity. }
  destruct (first_true g _ Hgn) as (i & Hi & Hgi & Hm).
  set (K := firstn i N). set (M := skipn i N).
  assert (HN : N = K ++ M) by (symmetry; apply firstn_skipn).
  assert (HK : List.length K = i) by (apply firstn_length_le; exact Hi).
  assert (Hsk : forall R, skipn i (N ++ R) = M ++ R).
  { intros R. rewrite skipn_app. replace (i - List.length N) with 0 by lia. reflexivity. }
  unfold g in Hgi. rewrite Hsk in Hgi.
  destruct (M ++ F) as [|c' t'] eqn:EMF; [discriminate|].
  apply andb_true_iff in Hgi. destruct Hgi as [Hc' Ht'].
  assert (HMF : forallb in_range_class (M ++ F) = true).
  { rewrite EMF. cbn [forallb]. rewrite (hd_rg _ Hc'), Ht'. reflexivity. }
  rewrite forallb_app in HMF. apply andb_true_iff in HMF. destruct HMF as [HM _].
  exists K, M. split; [exact HN|]. split; [exact HM|].
  assert (Hs : N ++ F ++ P ++ E = K ++ (c' :: t') ++ P ++ E).
  { rewrite HN, <- EMF, <- !app_assoc. reflexivity. }
  unfold submatches.
  assert (Hr : rmatch R_splitPattern (N ++ F ++ P ++ E) =
               Some (caps_at i (c' :: t') P E [(1, (0, i))])).
  { rewrite split_char. apply (lscan_intro _ _ _ 0 [] _ i).
    - rewrite app_length. lia.
    - rewrite firstn_app. replace (i - List.length N) with 0 by lia.
      cbn [firstn]. rewrite app_nil_r. apply no_byte_cls. apply no_byte_firstn. exact Hnl.
    - cbv beta. cbn [Nat.add]. rewrite Hsk, app_assoc, EMF. apply kre_at_rg; assumption.
    - intros j Hj. cbv beta. rewrite skipn_app. replace (j - List.length N) with 0 by lia.
      cbn [skipn]. destruct (skipn j N) as [|c2 t2] eqn:E2.
      { apply (f_equal (@List.length _)) in E2. rewrite skipn_length in E2. cbn [List.length] in E2. lia. }
      apply (kre_fails_inside2 (firstn j N) c2 t2).
      + rewrite <- E2, firstn_skipn. exact Hnt.
      + exact HR.
      + specialize (Hm j Hj). unfold g in Hm. rewrite skipn_app in Hm.
        replace (j - List.length N) with 0 in Hm by lia. cbn [skipn] in Hm. rewrite E2 in Hm.
        cbn [app] in Hm. rewrite forallb_app, HF, andb_true_r in Hm. exact Hm. }
  rewrite Hr, Hs, <- HK. rewrite caps4_get by discriminate. rewrite EMF. reflexivity.
Qed.

(** * appendSeq with a pad token *)


Lemma beq_same : forall a, beq a a = true.
Proof. induction a as [|c a IH]; [reflexivity|]. cbn [beq]. rewrite Nat.eqb_refl, IH. reflexivity. Qed.

(** the text FramesToFrameRange produces is made of range-class bytes, starts
    with a digit or '-', and parses back to the sorted frames *)
Lemma f2r_text : forall l fr, l <> [] -> NoDup l -> Forall small l ->
  frames_to_frame_range l true 0%Z = Ok fr ->
  (exists c t, fr = c :: t /\ is_hd c = true /\ forallb in_range_class t = true) /\
  exists f, new_frameset fr = Ok f /\ fs_frames f = zsort l.
Proof.
  intros l fr Hne ND SM H.
  destruct (f2r_right_inverse_proof l true 0%Z ND SM) as (s & Hs & _ & Hp).
  rewrite H in Hs. injection Hs as <-. split; [|exact (Hp Hne)].
  destruct (f2r_shape l true 0%Z Hne) as (c & cs & D & E). rewrite H in E. injection E as E.
  pose proof (decomp_mod _ _ D) as M.
  destruct (f2r_spec l true 0%Z ND SM) as (s & Hs & _ & Hq).
  rewrite H in Hs. injection Hs as <-. specialize (Hq Hne).
  assert (R : range_ok fr = true).
  { unfold range_ok. rewrite strip_id, beq_same, Hq; [destruct fr; reflexivity|].
    rewrite E. apply (join_not_ignored (map (comp_text 0%Z) cs) (comp_text 0%Z c)).
    apply (texts_tchar 0%Z (c :: cs)). exact M. }
  destruct (range_shape fr R) as [->|X]; [|exact X].
  exfalso. symmetry in E. apply app_eq_nil in E. destruct E as [E _].
  exact (comp_text_nonempty 0 c E).
Qed.

Lemma all_hash_repeat : forall (c : byte) n, (c = 35 \/ c = 64) ->
  all_hash_at (repeat_bytes [c] n) = true.
Proof.
  intros c n Hc. induction n as [|n IH]; [reflexivity|].
  cbn [repeat_bytes app all_hash_at forallb]. fold (all_hash_at (repeat_bytes [c] n)). rewrite IH.
  destruct Hc as [->| ->]; reflexivity.
Qed.

Lemma repeat_token : forall (c : byte) n, (c = 35 \/ c = 64) -> 0 < n ->
  is_pad_token (repeat_bytes [c] n) = true.
Proof.
  intros c n Hc Hn. pose proof (all_hash_repeat c n Hc) as A.
  destruct n as [|n]; [lia|]. cbn [repeat_bytes app] in *. unfold is_pad_token. rewrite A. reflexivity.
Qed.

Lemma padding_chars_token : forall st w, (1 <= w)%Z -> is_pad_token (padding_chars st w) = true.
Proof.
  intros st w Hw. destruct st; unfold padding_chars.
  - destruct (Z.leb_spec w 0%Z); [lia|]. change (default_char Hash1) with [35].
    apply repeat_token; [left; reflexivity|lia].
  - destruct (Z.leb_spec w 0%Z); [lia|]. unfold go_mod, go_div.
    destruct (Z.eqb_spec (Z.rem w 4) 0%Z) as [E|E].
    + apply repeat_token; [left; reflexivity|].
      pose proof (Z.quot_rem' w 4). assert (0 < Z.quot w 4)%Z by lia. lia.
    + apply repeat_token; [right; reflexivity|lia].
Qed.

Lemma ext_shape_ok : forall e, ext_shape e -> no_byte 10 e = true -> ext_ok e = true.
Proof.
  intros e [->|(t & ->)] H; [reflexivity|]. unfold ext_ok. rewrite H. reflexivity.
Qed.

Lemma force_parts_nil : forall q base ext,
  q_paths (force_parts q base ext []) = [q_dir q ++ base ++ ext].
Proof. intros q base ext. reflexivity. Qed.

Lemma force_parts_range : forall q base ext fr f, fr <> [] -> new_frameset fr = Ok f ->
  force_parts q base ext fr = mkQ (q_dir q) base ext (q_pad q) (q_zfill q) (Some f) (q_style q).
Proof.
  intros q base ext fr f Hne Hf. unfold force_parts. destruct fr as [|c r]; [congruence|].
  unfold set_frame_range. rewrite Hf. reflexivity.
Qed.

Theorem append_seq_pad : forall o d x base ext l fr w,
  dir_ok d = true -> no_byte 47 (x ++ base) = true ->
  no_byte 10 (d ++ x ++ base) = true -> no_token (d ++ x ++ base) = true ->
  ext_shape ext -> no_byte 10 ext = true ->
  l <> [] -> NoDup l -> Forall small l -> frames_to_frame_range l true 0%Z = Ok fr -> (1 <= w)%Z ->
  exists f, append_seq o (d ++ x) base fr (padding_chars (o_style o) w) ext =
              Ok (mkQ d base ext (padding_chars (o_style o) w) w (Some f) (o_style o)) /\
            fs_frames f = zsort l.
Proof.
  intros o d x base ext l fr w Hd Hsl Hnl Hnt Hes Hen Hne ND SM Hfr Hw.
  destruct (f2r_text l fr Hne ND SM Hfr) as [(c & t & -> & Hc & Ht) (f & Hf & Hfs)].
  set (P := padding_chars (o_style o) w).
  destruct (split_rebuilt (d ++ x ++ base) c t P ext Hnl Hnt Hc Ht
              (padding_chars_token _ _ Hw) (ext_shape_ok _ Hes Hen)) as (K & M & HN & HM & Hsub).
  destruct (path_split_prefix d (x ++ base) K M Hd Hsl (rg_no_slash M HM) HN) as (y' & HK & Hps & Hy).
  exists f. split; [|exact Hfs].
  unfold append_seq, new_fileseq.
  replace ((d ++ x) ++ base ++ (c :: t) ++ P ++ ext) with ((d ++ x ++ base) ++ (c :: t) ++ P ++ ext)
    by (rewrite <- !app_assoc; reflexivity).
  rewrite Hsub, Hps. cbn [bind].
  rewrite (force_parts_range _ base ext (c :: t) f ltac:(discriminate) Hf).
  unfold set_padding. cbn [q_dir q_pad q_zfill q_style].
  subst P. rewrite pad_roundtrip_proof by exact Hw. reflexivity.
Qed.

(** * the re-parse of a string without pad token (single files, and
      one-frame buckets whose base name ends in a digit) *)

(** a numeral parses to the one frame it denotes *)
Lemma new_frameset_numeral_frames : forall t v, numeral t -> atoi t = Some v ->
  exists f, new_frameset t = Ok f /\ fs_frames f = [v].
Proof.
  intros t v N A. pose proof (atoi_some_big t v A) as AB.
  assert (F : fits_int v = true).
  { unfold atoi in A. rewrite AB in A. destruct (fits_int v); [reflexivity|discriminate]. }
  pose proof (numeral_tchar t N) as TC.
  assert (S : spec_frames t = Some [v]).
  { unfold spec_frames. rewrite strip_id by (eapply Forall_impl; [|exact TC]; apply tchar_not_ignored).
    unfold gparse.
    pose proof (split_commas_app t [] []) as SC. rewrite !app_nil_r in SC.
    rewrite SC by (eapply Forall_impl; [|exact TC]; apply tchar_not_comma).
    cbn [split_commas]. rewrite rev_involutive. cbn [parse_comps]. unfold parse_comp.
    pose proof (read_int_numeral_app t v [] N AB I) as RI. rewrite app_nil_r in RI. rewrite RI.
    cbn [forallb comp_fits comp_nonzero]. rewrite F. reflexivity. }
  destruct (spec_to_model t [v] S) as (f & Hf & Hfr & _). exists f. split; assumption.
Qed.

Lemma last_index_from_below : forall c s i acc j,
  last_index_from c s i acc = Some j -> j < i -> acc = Some j /\ no_byte c s = true.
Proof.
  intros c s. induction s as [|a s IH]; intros i acc j H Hj.
  - cbn [last_index_from] in H. split; [exact H|reflexivity].
  - cbn [last_index_from] in H. apply IH in H; [|lia]. destruct H as [H1 H2].
    destruct (Nat.eqb_spec a c) as [->|Hac].
    + injection H1 as ->. lia.
    + split; [exact H1|]. rewrite no_byte_cons, H2.
      rewrite (proj2 (Nat.eqb_neq c a)) by congruence. reflexivity.
Qed.

Lemma last_index_zero : forall c s, last_index c s = Some 0 -> exists s', s = c :: s' /\ no_byte c s' = true.
Proof.
  intros c s H. unfold last_index in H. destruct s as [|a s']; [discriminate|].
  cbn [last_index_from] in H. apply last_index_from_below in H; [|lia]. destruct H as [H1 H2].
  destruct (Nat.eqb_spec a c) as [->|]; [|discriminate]. exists s'. split; [reflexivity|exact H2].
Qed.

Lemma gscan_all : forall p (k : K) s pos cs, forallb p s = true ->
  k (pos + List.length s) [] cs <> None -> gscan p k pos s cs <> None.
Proof.
  intros p k s. induction s as [|c s IH]; intros pos cs Hp Hk.
  - cbn [gscan]. cbn [List.length] in Hk. rewrite Nat.add_0_r in Hk. exact Hk.
  - cbn [forallb] in Hp. apply andb_true_iff in Hp. destruct Hp as [Hc Hp].
    cbn [gscan]. rewrite Hc.
    destruct (gscan p k (S pos) s cs) eqn:E; [discriminate|]. exfalso. revert E. apply IH; [exact Hp|].
    cbn [List.length] in Hk. rewrite Nat.add_succ_r in Hk. exact Hk.
Qed.

Lemma match_some_or : forall (A : Type) (x y : option A), y <> None ->
  match x with Some r => Some r | None => y end <> None.
Proof. intros A x y H. destruct x; [discriminate|exact H]. Qed.

Lemma match_some_or_l : forall (A : Type) (x y : option A), x <> None ->
  match x with Some r => Some r | None => y end <> None.
Proof. intros A x y H. destruct x; [discriminate|contradiction]. Qed.

(** a dot followed by one or more other bytes is an extension *)
Lemma ext_match_dot : forall w, w <> [] -> is_bytes w -> no_byte 46 w = true -> ext_match (46 :: w) = true.
Proof.
  intros w Hne Hb Hd. unfold ext_match. apply negb_true_iff.
  destruct (T0 0 (46 :: w) []) eqn:E; [reflexivity|]. exfalso. revert E.
  unfold T0, OF_TAIL. rewrite m_cat, m_grp. unfold SF_EXT. rewrite m_cat, m_star.
  rewrite star_loop_greedy_S.
  apply match_some_or. rewrite m_opt_greedy. apply match_some_or_l.
  rewrite m_cat, m_cls_cons. change (cls_match false [(46, 46)] 46) with true. cbv iota.
  rewrite m_cat. destruct w as [|c w]; [congruence|].
  assert (Hcls : forallb (cls_match false [(0, 45); (47, 255)]) (c :: w) = true).
  { apply forallb_forall. intros y Hy. unfold is_bytes in Hb. rewrite Forall_forall in Hb.
    specialize (Hb y Hy). pose proof (no_byte_In 46 _ Hd) as Hn.
    assert (y <> 46) by (intros ->; exact (Hn Hy)).
    unfold cls_match, in_ranges. destruct (Nat.le_gt_cases y 45).
    - rewrite (proj2 (Nat.leb_le 0 y)), (proj2 (Nat.leb_le y 45)) by lia. reflexivity.
    - rewrite (proj2 (Nat.leb_le 47 y)), (proj2 (Nat.leb_le y 255)) by lia.
      cbn [andb orb]. apply orb_true_r. }
  cbn [forallb] in Hcls. apply andb_true_iff in Hcls. destruct Hcls as [Hc Hw].
  rewrite m_cls_cons, Hc, m_star_greedy_cls. apply gscan_all; [exact Hw|].
  rewrite m_eot. discriminate.
Qed.

Lemma frame_at_backslash : forall n, frame_at (92 :: n) = None.
Proof. intros n. reflexivity. Qed.

Theorem new_fileseq_plain : forall st d x n,
  dir_ok d = true -> no_byte 47 (x ++ n) = true -> (x = [] \/ (x = [92] /\ d <> [])) ->
  no_token (d ++ x ++ n) = true -> no_byte 10 n = true -> is_bytes n ->
  exists q, new_fileseq (d ++ x ++ n) st = Ok q /\ q_dir q = d /\
    (forall b t e v, submatches R_optionalFramePattern n 3 = Some [b; t; e] -> t <> [] ->
        atoi t = Some v -> q_zfill q = blen t).
Proof.
  intros st d x n Hd Hsl Hx Hnt Hnl Hb.
  unfold new_fileseq. rewrite split_none by exact Hnt. unfold new_single.
  change all_chars with [[35]; [64]]. cbn [existsb].
  rewrite !no_token_no_pad_char by (try exact Hnt; auto). cbn [orb].
  rewrite (path_split_dir_base d (x ++ n) Hd Hsl). cbv beta iota zeta.
  (* the single-frame pattern finds what the optional pattern found *)
  assert (SFO : forall b t e v, submatches R_optionalFramePattern n 3 = Some [b; t; e] -> t <> [] ->
            atoi t = Some v ->
            submatches R_singleFramePattern (x ++ n) 3 = Some [x ++ b; t; e] /\
            (exists f, opt_frameset t = Some f) /\ (1 <= blen t)%Z).
  { intros b t e v Ho Ht Hv. split; [|split].
    - apply sf_of_opt; [exact Ho|exact Ht| |].
      + destruct Hx as [->|[-> _]]; reflexivity.
      + intros j Hj. destruct Hx as [->|[-> _]]; [cbn [List.length] in Hj; lia|].
        assert (j = 0) by (cbn [List.length] in Hj; lia). subst j. apply frame_at_backslash.
    - destruct (optional_frame_tiles n b t e Ho) as (_ & [->|N] & _); [congruence|].
      destruct (new_frameset_numeral_frames t v N Hv) as (f & Hf & _).
      exists f. unfold opt_frameset. rewrite Hf. reflexivity.
    - destruct (optional_frame_tiles n b t e Ho) as (_ & [->|N] & _); [congruence|].
      apply numeral_length_pos. exact N. }
  match goal with |- context [match ?M with pair _ _ => _ end] =>
    destruct M as [basename ext] eqn:Ebe end.
  match goal with |- context [if ?B then _ else _] => destruct B eqn:Ebare end.
  { (* a bare extension: hidden-file style name with a single leading dot *)
    eexists. split; [reflexivity|]. split; [reflexivity|].
    intros b t e v Ho Ht Hv. exfalso.
    destruct d; [|discriminate]. destruct basename; [|discriminate].
    destruct ext as [|e0 ext]; [discriminate|].
    destruct Hx as [->|[_ Hx]]; [|congruence]. cbn [app] in Ebe.
    destruct (last_index c_dot n) as [i|] eqn:Eli; [|discriminate Ebe].
    injection Ebe as E1 E2.
    assert (i = 0).
    { destruct i; [reflexivity|]. destruct n; cbn [skipn firstn] in *; discriminate. }
    subst i. apply last_index_zero in Eli. destruct Eli as (n' & -> & Hn'). unfold c_dot in *.
    apply opt_frame_inv in Ho. destruct Ho as (i & k & Hi & Hp & Hm & Hk & -> & -> & ->).
    assert (Hfa : frame_at (46 :: n') = None) by reflexivity. nb.
    destruct i as [|i].
    - cbn [skipn] in *. unfold opt_at in Hk. rewrite Hfa in Hk.
      destruct (ext_match (46 :: n')); [|discriminate]. injection Hk as <-. apply Ht. reflexivity.
    - specialize (Hm 0 ltac:(lia)). cbn [skipn] in Hm. unfold opt_at in Hm. rewrite Hfa in Hm.
      destruct n' as [|c n''].
      + cbn [List.length] in Hi. assert (i = 0) by lia. subst i. cbn [skipn] in Hk.
        cbn in Hk. injection Hk as <-. apply Ht. reflexivity.
      + rewrite ext_match_dot in Hm; [discriminate|discriminate| |exact Hn'].
        unfold is_bytes in *. inversion Hb. assumption. }
  (* the other branches all keep the directory of the first split *)
  assert (Dflt : forall q0, q0 = set_padding (mkQ d basename ext [] 0 None st) [] ->
     (forall b t e v, submatches R_optionalFramePattern n 3 = Some [b; t; e] -> t <> [] ->
        atoi t = Some v -> False) ->
     exists q, Ok q0 = Ok q /\ q_dir q = d /\
       (forall b t e v, submatches R_optionalFramePattern n 3 = Some [b; t; e] -> t <> [] ->
          atoi t = Some v -> q_zfill q = blen t)).
  { intros q0 -> Hc. eexists. split; [reflexivity|]. split; [reflexivity|].
    intros b t e v Ho Ht Hv. exfalso. exact (Hc b t e v Ho Ht Hv). }
  destruct (submatches R_singleFramePattern (x ++ n) 3) as [l|] eqn:Esf.
  2:{ apply Dflt; [reflexivity|]. intros b t e v Ho Ht Hv.
      destruct (SFO b t e v Ho Ht Hv) as [S _]. discriminate. }
  destruct l as [|name [|frame [|ext' [|y l]]]];
    try (apply Dflt; [reflexivity|]; intros b t e v Ho Ht Hv;
         destruct (SFO b t e v Ho Ht Hv) as [S _]; discriminate).
  destruct (opt_frameset frame) as [f|] eqn:Ef.
  2:{ apply Dflt; [reflexivity|]. intros b t e v Ho Ht Hv.
      destruct (SFO b t e v Ho Ht Hv) as (S & (f & Hf) & _). injection S as _ <- _. congruence. }
  eexists. split; [reflexivity|]. split; [reflexivity|].
  intros b t e v Ho Ht Hv. destruct (SFO b t e v Ho Ht Hv) as (S & _ & Hl). injection S as _ <- _.
  unfold set_padding. cbn [q_zfill q_style]. apply pad_roundtrip_proof. exact Hl.
Qed.

(** a file entry that is re-parsed without pad token comes back as itself *)
Theorem plain_entry : forall st d x n base t ext,
  dir_ok d = true -> no_byte 47 (x ++ n) = true -> (x = [] \/ (x = [92] /\ d <> [])) ->
  no_token (d ++ x ++ n) = true -> no_byte 10 n = true -> is_bytes n ->
  submatches R_optionalFramePattern n 3 = Some [base; t; ext] ->
  (t <> [] -> not_neg_zero t /\ exists v, atoi t = Some v) ->
  exists q, new_fileseq (d ++ x ++ n) st = Ok q /\
    q_paths (force_parts q base ext t) = [d ++ n].
Proof.
  intros st d x n base t ext Hd Hsl Hx Hnt Hnl Hb Ho Ht.
  destruct (new_fileseq_plain st d x n Hd Hsl Hx Hnt Hnl Hb) as (q & Hq & Hdir & Hz).
  exists q. split; [exact Hq|].
  destruct (optional_frame_tiles n base t ext Ho) as (Hn & Hnum & _).
  destruct t as [|c0 t'].
  - rewrite force_parts_nil, Hdir, Hn. reflexivity.
  - destruct Hnum as [Hnum|Hnum]; [discriminate Hnum|].
    destruct (Ht ltac:(discriminate)) as (NZ & v & Hv).
    destruct (new_frameset_numeral_frames _ v Hnum Hv) as (f & Hf & Hfs).
    rewrite (force_parts_range q base ext (c0 :: t') f ltac:(discriminate) Hf).
    unfold q_paths. cbn [q_fs]. rewrite Hfs. cbn [map]. unfold q_frame_int.
    cbn [q_dir q_base q_fs q_zfill q_ext].
    rewrite Hdir, (Hz base (c0 :: t') ext v Ho ltac:(discriminate) Hv). unfold blen.
    rewrite zfill_int_reconstruct; [rewrite Hn; reflexivity|exact Hnum| |exact NZ].
    apply atoi_some_big. exact Hv.
Qed.

Print Assumptions append_seq_pad.
Print Assumptions plain_entry.
