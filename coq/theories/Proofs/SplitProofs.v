(** C03, regex half: the generated splitPattern decomposes
    dir ++ base ++ range ++ pad ++ ext losslessly on the domain
    [SpecSeq.unambiguous].

    Plan: (i) an all-strings characterisation of the part of the pattern that
    follows the lazy name group, in terms of the regex-free [pad_len];
    (ii) two domain lemmas: that suffix expression fails at every offset inside
    dir ++ base and succeeds right after it with the expected captures;
    (iii) the lazy scan returns the first success. *)
From GFS Require Import Base Dec Regex GenRegex GenPadTables Ranges Pad FrameSet Path Seq SpecRange SpecSeq RegexKit.
Local Open Scope nat_scope.

(** * byte classes *)

Definition nonl (c : byte) : bool := negb (Nat.eqb c 10).
Definition is_ha (c : byte) : bool := Nat.eqb c 35 || Nat.eqb c 64.
Definition is_hd (c : byte) : bool := is_digit c || Nat.eqb c 45.
(** first bytes of the five pad forms *)
Definition pad_head (c : byte) : bool := is_ha c || Nat.eqb c 37 || Nat.eqb c 36 || Nat.eqb c 60.

(** decide a statement about one byte by comparing it with every constant in sight *)
Ltac bt :=
  cbn [andb orb negb];
  first
    [ reflexivity
    | lia
    | match goal with
      | |- context [Nat.eqb ?a ?b] => destruct (Nat.eqb_spec a b); bt
      | |- context [Nat.leb ?a ?b] => destruct (Nat.leb_spec a b); bt
      end
    | (intros; try discriminate; try reflexivity; try lia) ].

Ltac unf := unfold cls_match, in_ranges, in_range_class, pad_head, is_ha, is_hd, is_mod, is_digit, nonl.

Lemma cls_nonl : forall c, cls_match true [(10, 10)] c = nonl c.
Proof. intros c. unf. bt. Qed.

Lemma cls_ha : forall c, cls_match false [(35, 35); (64, 64)] c = is_ha c.
Proof. intros c. unf. bt. Qed.

Lemma cls_hd : forall c, cls_match false [(45, 45); (48, 57)] c = is_hd c.
Proof. intros c. unf. bt. Qed.

Lemma cls_rg : forall c, cls_match false [(44, 45); (48, 58); (120, 121)] c = in_range_class c.
Proof. intros c. unf. bt. Qed.

Lemma hd_rg : forall c, is_hd c = true -> in_range_class c = true.
Proof. intros c. unf. bt. Qed.

Lemma digit_rg : forall c, is_digit c = true -> in_range_class c = true.
Proof. intros c. unf. bt. Qed.

Lemma digit_hd : forall c, is_digit c = true -> is_hd c = true.
Proof. intros c. unf. bt. Qed.

Lemma mod_rg : forall c, is_mod c = true -> in_range_class c = true.
Proof. intros c. unf. bt. Qed.

Lemma rg_not_pad : forall c, in_range_class c = true -> pad_head c = false.
Proof. intros c. unf. bt. Qed.

Lemma pad_not_rg : forall c, pad_head c = true -> in_range_class c = false.
Proof. intros c. unf. bt. Qed.

Lemma pad_not_hd : forall c, pad_head c = true -> is_hd c = false.
Proof. intros c. unf. bt. Qed.

Lemma pad_not_digit : forall c, pad_head c = true -> is_digit c = false.
Proof. intros c. unf. bt. Qed.

Lemma rg_not_d : forall c, in_range_class c = true -> Nat.eqb c 100 = false.
Proof. intros c. unf. bt. Qed.

Lemma pad_not_d : forall c, pad_head c = true -> Nat.eqb c 100 = false.
Proof. intros c. unf. bt. Qed.

(** * small list facts *)

Lemma beq_eq : forall a b, beq a b = true -> a = b.
Proof.
  induction a as [|x a IH]; intros [|y b] H; cbn [beq] in H; try discriminate; [reflexivity|].
  apply andb_true_iff in H. destruct H as [H1 H2].
  apply Nat.eqb_eq in H1. subst y. f_equal. apply IH. exact H2.
Qed.

Lemma forallb_impl : forall (p q : byte -> bool) s,
  (forall c, p c = true -> q c = true) -> forallb p s = true -> forallb q s = true.
Proof.
  intros p q s H. induction s as [|c s IH]; cbn [forallb]; [reflexivity|].
  intros H1. apply andb_true_iff in H1. destruct H1 as [H1 H2].
  rewrite (H _ H1), (IH H2). reflexivity.
Qed.

Lemma forallb_rev : forall (p : byte -> bool) s, forallb p s = true -> forallb p (rev s) = true.
Proof.
  intros p s H. apply forallb_forall. intros x Hx. apply in_rev in Hx.
  revert x Hx. apply forallb_forall. exact H.
Qed.

Lemma skipn_len_app : forall (x y : bytes), skipn (List.length x) (x ++ y) = y.
Proof. induction x as [|c x IH]; intros y; cbn [List.length skipn app]; [reflexivity|apply IH]. Qed.

Lemma firstn_len_app : forall (x y : bytes), firstn (List.length x) (x ++ y) = x.
Proof.
  induction x as [|c x IH]; intros y; cbn [List.length firstn app]; [reflexivity|].
  rewrite IH. reflexivity.
Qed.

Lemma slice_mid : forall s a b (x y z : bytes),
  s = x ++ y ++ z -> a = List.length x -> b = a + List.length y -> slice s a b = y.
Proof.
  intros s a b x y z -> -> ->. rewrite slice_off, skipn_len_app, firstn_len_app. reflexivity.
Qed.

(** the maximal run over an append *)
Lemma span_app_all : forall p (t R : bytes), forallb p t = true ->
  span_len p (t ++ R) = List.length t + span_len p R.
Proof.
  intros p t R. induction t as [|c t IH]; cbn [forallb app span_len List.length]; [reflexivity|].
  intros H. apply andb_true_iff in H. destruct H as [H1 H2].
  rewrite H1, (IH H2). reflexivity.
Qed.

Lemma span_app_stop : forall p (t R : bytes), forallb p t = false ->
  span_len p (t ++ R) = span_len p t /\
  exists d t', p d = false /\ skipn (span_len p t) t = d :: t' /\
               skipn (span_len p t) (t ++ R) = (d :: t') ++ R.
Proof.
  intros p t R. induction t as [|c t IH]; cbn [forallb app span_len]; [discriminate|].
  intros H. destruct (p c) eqn:E.
  - cbn [andb] in H. destruct (IH H) as [H1 (d & t' & Hd & H2 & H3)].
    split; [rewrite H1; reflexivity|]. exists d, t'. cbn [skipn]. auto.
  - split; [reflexivity|]. exists c, t. cbn [skipn]. auto.
Qed.

Lemma span_zero : forall p c (s : bytes), p c = false -> span_len p (c :: s) = 0.
Proof. intros p c s H. cbn [span_len]. rewrite H. reflexivity. Qed.

(** a prefix test over an append either holds on the first part already, or
    consumes the head of the second part *)
Lemma prefix_straddle0 : forall l (x R : bytes), has_prefix (x ++ R) l = true ->
  has_prefix x l = true \/ exists h R', R = h :: R' /\ In h l.
Proof.
  induction l as [|a l IH]; intros x R H.
  - left. destruct x; reflexivity.
  - destruct x as [|y x].
    + cbn [app] in H. destruct R as [|h R']; cbn [has_prefix] in H; [discriminate|].
      apply andb_true_iff in H. destruct H as [H1 _]. apply Nat.eqb_eq in H1. subst h.
      right. exists a, R'. split; [reflexivity|left; reflexivity].
    + cbn [app has_prefix] in H. apply andb_true_iff in H. destruct H as [H1 H2].
      destruct (IH _ _ H2) as [H3|(h & R' & -> & Hin)].
      * left. cbn [has_prefix]. rewrite H1, H3. reflexivity.
      * right. exists h, R'. split; [reflexivity|right; exact Hin].
Qed.

Lemma prefix_straddle : forall a l y (x R : bytes), has_prefix ((y :: x) ++ R) (a :: l) = true ->
  has_prefix (y :: x) (a :: l) = true \/ exists h R', R = h :: R' /\ In h l.
Proof.
  intros a l y x R H. cbn [app has_prefix] in H. apply andb_true_iff in H. destruct H as [H1 H2].
  destruct (prefix_straddle0 _ _ _ H2) as [H3|H3]; [|right; exact H3].
  left. cbn [has_prefix]. rewrite H1, H3. reflexivity.
Qed.

(** * the structure of the generated expression *)

Fixpoint lit (l : bytes) : re :=
  match l with
  | [] => REps
  | c :: l' => match l' with
               | [] => RCls false [(c, c)]
               | _ :: _ => RCat (RCls false [(c, c)]) (lit l')
               end
  end.

Definition A1 : re := RCat (RCls false [(35, 35); (64, 64)]) (RStar true (RCls false [(35, 35); (64, 64)])).
Definition A2 : re := RCat (RCls false [(37, 37)]) (RCat (RStar true (RCls false [(48, 57)])) (RCls false [(100, 100)])).
Definition A3 : re := RCat (RCat (RCls false [(36, 36)]) (RCls false [(70, 70)])) (RStar true (RCls false [(48, 57)])).
Definition PADS : re := RAlt A1 (RAlt A2 (RAlt A3 (RAlt (lit udim1) (lit udim2)))).
Definition TAIL : re := RCat (ROpt true (RGrp 4 (RStar true (RCls true [(10, 10)])))) REot.
Definition PT : re := RCat (RGrp 3 PADS) TAIL.
Definition RANGE : re :=
  ROpt true (RGrp 2 (RCat (RCls false [(45, 45); (48, 57)])
                          (RStar true (RCls false [(44, 45); (48, 58); (120, 121)])))).
Definition KRE : re := RCat RANGE PT.

Lemma split_eq : R_splitPattern = RCat RBot (RCat (RGrp 1 (RStar false (RCls true [(10, 10)]))) KRE).
Proof. reflexivity. Qed.

Definition kfin : K := fun _ _ cs => Some cs.

Lemma m_alt : forall a b pos s cs k,
  m (RAlt a b) pos s cs k = match m a pos s cs k with Some r => Some r | None => m b pos s cs k end.
Proof. reflexivity. Qed.

Lemma m_lit : forall l pos s cs k,
  m (lit l) pos s cs k =
  if has_prefix s l then k (pos + List.length l) (skipn (List.length l) s) cs else None.
Proof.
  induction l as [|c l IH]; intros pos s cs k.
  - cbn [lit m List.length skipn]. rewrite Nat.add_0_r. destruct s; reflexivity.
  - destruct l as [|c' l].
    + cbn [lit]. destruct s as [|y s]; [reflexivity|].
      rewrite m_cls_cons, cls_single. cbn [has_prefix List.length skipn].
      rewrite (Nat.eqb_sym c y). destruct (Nat.eqb y c); [|reflexivity].
      cbn [andb]. destruct s; rewrite Nat.add_1_r; reflexivity.
    + change (lit (c :: c' :: l)) with (RCat (RCls false [(c, c)]) (lit (c' :: l))).
      rewrite m_cat. destruct s as [|y s]; [reflexivity|].
      rewrite m_cls_cons, cls_single. cbn [has_prefix].
      rewrite (Nat.eqb_sym c y). destruct (Nat.eqb y c); [|reflexivity].
      cbn [andb]. rewrite IH. cbn [has_prefix List.length skipn].
      rewrite Nat.add_succ_comm. reflexivity.
Qed.

(** * the tail (optional ext group, then end of text) accepts exactly the newline-free strings *)

Lemma m_tail : forall pos s cs,
  m TAIL pos s cs kfin =
  if forallb nonl s then Some ((4, (pos, pos + List.length s)) :: cs) else None.
Proof.
  intros pos s cs. unfold TAIL. rewrite m_cat, m_opt_greedy, m_grp, gscan_commit_star.
  2:{ intros pos' c s' cs' _. reflexivity. }
  rewrite (span_len_ext _ nonl s cls_nonl).
  pose proof (span_len_le nonl s) as Hle.
  pose proof (span_len_all nonl s) as Hall.
  destruct (skipn (span_len nonl s) s) as [|x r] eqn:E.
  - assert (Hn : span_len nonl s = List.length s).
    { apply (f_equal (@List.length _)) in E. rewrite skipn_length in E. cbn [List.length] in E. lia. }
    rewrite (proj1 Hall Hn), Hn. reflexivity.
  - assert (Hn : span_len nonl s <> List.length s).
    { apply (f_equal (@List.length _)) in E. rewrite skipn_length in E. cbn [List.length] in E. lia. }
    destruct (forallb nonl s) eqn:F; [exfalso; apply Hn, Hall; reflexivity|].
    rewrite m_eot. destruct s; [discriminate|reflexivity].
Qed.

(** a greedy scan commits to the maximal run also when the continuation's
    failure after a longer run implies its failure after a shorter one *)
Lemma mono_chain : forall p (k : K) (s : bytes) pos cs,
  (forall pos' c s' cs', p c = true -> k (S pos') s' cs' = None -> k pos' (c :: s') cs' = None) ->
  k (pos + span_len p s) (skipn (span_len p s) s) cs = None -> k pos s cs = None.
Proof.
  intros p k s. induction s as [|c s IH]; intros pos cs Hk H; cbn [span_len skipn] in H.
  - rewrite Nat.add_0_r in H. exact H.
  - destruct (p c) eqn:E.
    + cbn [skipn] in H. rewrite <- Nat.add_succ_comm in H.
      apply Hk; [exact E|]. apply IH; assumption.
    + cbn [skipn] in H. rewrite Nat.add_0_r in H. exact H.
Qed.

Lemma gscan_commit_mono : forall p (k : K) s pos cs,
  (forall pos' c s' cs', p c = true -> k (S pos') s' cs' = None -> k pos' (c :: s') cs' = None) ->
  gscan p k pos s cs = k (pos + span_len p s) (skipn (span_len p s) s) cs.
Proof.
  intros p k s. induction s as [|c s IH]; intros pos cs Hk.
  - cbn [gscan span_len skipn]. rewrite Nat.add_0_r. reflexivity.
  - cbn [gscan span_len]. destruct (p c) eqn:E.
    + rewrite IH by exact Hk. cbn [skipn]. rewrite <- Nat.add_succ_comm.
      destruct (k (S pos + span_len p s) (skipn (span_len p s) s) cs) eqn:F; [reflexivity|].
      apply Hk; [exact E|]. eapply mono_chain; eassumption.
    + cbn [skipn]. rewrite Nat.add_0_r. reflexivity.
Qed.

(** the continuation "group 3 closes, then TAIL" is monotone in that sense *)
Definition k3 (p0 : nat) : K :=
  fun p' s' cs' => m TAIL p' s' ((3, (p0, p')) :: cs') kfin.

Lemma k3_mono : forall p0 pos' c s' cs',
  k3 p0 (S pos') s' cs' = None -> k3 p0 pos' (c :: s') cs' = None.
Proof.
  intros p0 pos' c s' cs'. unfold k3. rewrite !m_tail. cbn [forallb].
  destruct (forallb nonl s'); [discriminate|]. rewrite andb_false_r. reflexivity.
Qed.

(** * the pad alternatives, regex-free *)

Definition printf_at (t : bytes) : bool :=
  match skipn (span_len is_digit t) t with d :: _ => Nat.eqb d 100 | [] => false end.

(** length of the pad token the pattern reads at the head of [u] *)
Definition pad_len (u : bytes) : option nat :=
  match u with
  | [] => None
  | c :: t =>
    if is_ha c then Some (S (span_len is_ha t))
    else if Nat.eqb c 37 then
      if printf_at t then Some (S (S (span_len is_digit t)))
      else if has_prefix u udim2 then Some 8 else None
    else if Nat.eqb c 36 then
      match t with
      | c2 :: t2 => if Nat.eqb c2 70 then Some (S (S (span_len is_digit t2))) else None
      | [] => None
      end
    else if Nat.eqb c 60 then (if has_prefix u udim1 then Some 6 else None)
    else None
  end.

Lemma m_A1 : forall pos u cs (k : K),
  (forall pos' c s' cs', is_ha c = true -> k (S pos') s' cs' = None -> k pos' (c :: s') cs' = None) ->
  m A1 pos u cs k =
  match u with
  | c :: t => if is_ha c
              then k (pos + S (span_len is_ha t)) (skipn (span_len is_ha t) t) cs
              else None
  | [] => None
  end.
Proof.
  intros pos u cs k Hk. unfold A1. rewrite m_cat. destruct u as [|c t]; [reflexivity|].
  rewrite m_cls_cons, cls_ha. destruct (is_ha c); [|reflexivity].
  rewrite m_star_greedy_cls, gscan_commit_mono.
  2:{ intros pos' c' s' cs' H. rewrite cls_ha in H. apply Hk. exact H. }
  rewrite (span_len_ext _ is_ha t cls_ha). rewrite Nat.add_succ_comm. reflexivity.
Qed.

Lemma m_A2 : forall pos u cs (k : K),
  m A2 pos u cs k =
  match u with
  | c :: t => if Nat.eqb c 37
              then match skipn (span_len is_digit t) t with
                   | d :: t' => if Nat.eqb d 100 then k (pos + S (S (span_len is_digit t))) t' cs else None
                   | [] => None
                   end
              else None
  | [] => None
  end.
Proof.
  intros pos u cs k. unfold A2. rewrite m_cat. destruct u as [|c t]; [reflexivity|].
  rewrite m_cls_cons, cls_single. destruct (Nat.eqb c 37); [|reflexivity].
  rewrite m_cat, gscan_commit_star.
  2:{ intros pos' c' s' cs' H. rewrite cls_digit in H.
      rewrite m_cls_cons, cls_single, (is_digit_neq _ 100 H) by lia. reflexivity. }
  rewrite (span_len_ext _ is_digit t cls_digit).
  destruct (skipn (span_len is_digit t) t) as [|d t']; [reflexivity|].
  rewrite m_cls_cons, cls_single. destruct (Nat.eqb d 100); [|reflexivity].
  f_equal. lia.
Qed.

Lemma m_A3 : forall pos u cs (k : K),
  (forall pos' c s' cs', is_digit c = true -> k (S pos') s' cs' = None -> k pos' (c :: s') cs' = None) ->
  m A3 pos u cs k =
  match u with
  | c :: c2 :: t2 => if Nat.eqb c 36 then if Nat.eqb c2 70
                     then k (pos + S (S (span_len is_digit t2))) (skipn (span_len is_digit t2) t2) cs
                     else None else None
  | _ => None
  end.
Proof.
  intros pos u cs k Hk. unfold A3. rewrite m_cat, m_cat. destruct u as [|c t]; [reflexivity|].
  rewrite m_cls_cons, cls_single. destruct t as [|c2 t2].
  - destruct (Nat.eqb c 36); reflexivity.
  - destruct (Nat.eqb c 36); [|reflexivity].
    rewrite m_cls_cons, cls_single. destruct (Nat.eqb c2 70); [|reflexivity].
    rewrite m_star_greedy_cls, gscan_commit_mono.
    2:{ intros pos' c' s' cs' H. rewrite cls_digit in H. apply Hk. exact H. }
    rewrite (span_len_ext _ is_digit t2 cls_digit). f_equal. lia.
Qed.

(** "pad group, then tail" on an arbitrary string *)
Definition pt_result (pos : nat) (u : bytes) (cs : caps) : option caps :=
  match pad_len u with
  | Some n => if forallb nonl (skipn n u)
              then Some ((4, (pos + n, pos + n + List.length (skipn n u))) :: (3, (pos, pos + n)) :: cs)
              else None
  | None => None
  end.

Lemma ha_heads : forall c, is_ha c = true ->
  Nat.eqb c 37 = false /\ Nat.eqb c 36 = false /\ Nat.eqb c 60 = false.
Proof. intros c. unf. bt; repeat split; reflexivity. Qed.

Lemma hp_udim1 : forall c t, has_prefix (c :: t) udim1 = Nat.eqb c 60 && has_prefix t (s2b "UDIM>").
Proof. intros. rewrite Nat.eqb_sym. reflexivity. Qed.

Lemma hp_udim2 : forall c t, has_prefix (c :: t) udim2 = Nat.eqb c 37 && has_prefix t (s2b "(UDIM)d").
Proof. intros. rewrite Nat.eqb_sym. reflexivity. Qed.

Lemma hp_udim2' : forall c t, has_prefix (c :: t) (s2b "(UDIM)d") = Nat.eqb c 40 && has_prefix t (s2b "UDIM)d").
Proof. intros. rewrite Nat.eqb_sym. reflexivity. Qed.

Lemma m_pt : forall pos u cs, m PT pos u cs kfin = pt_result pos u cs.
Proof.
  intros pos u cs. unfold PT, pt_result. rewrite m_cat, m_grp.
  change (fun (p' : nat) (s' : bytes) (cs' : caps) =>
            (fun (p'0 : nat) (s'0 : bytes) (cs'0 : caps) => m TAIL p'0 s'0 cs'0 kfin)
              p' s' ((3, (pos, p')) :: cs')) with (k3 pos).
  unfold PADS. rewrite !m_alt, !m_lit, m_A2.
  change (List.length udim1) with 6. change (List.length udim2) with 8.
  rewrite m_A1 by (intros; apply k3_mono; assumption).
  rewrite m_A3 by (intros; apply k3_mono; assumption).
  destruct u as [|c t]; [reflexivity|]. unfold pad_len.
  rewrite !hp_udim1, !hp_udim2.
  destruct (is_ha c) eqn:Eha.
  { destruct (ha_heads c Eha) as (E37 & E36 & E60). rewrite E37, E36, E60. cbn [andb].
    unfold k3. rewrite m_tail. cbn [skipn].
    destruct (forallb nonl (skipn (span_len is_ha t) t)).
    - reflexivity.
    - destruct t; reflexivity. }
  destruct (Nat.eqb_spec c 37) as [->|N37].
  { cbn [Nat.eqb andb]. unfold printf_at.
    destruct (skipn (span_len is_digit t) t) as [|d t'] eqn:E.
    - destruct t as [|c2 t2]; [reflexivity|]. rewrite hp_udim2'.
      destruct (Nat.eqb_spec c2 40) as [->|N40]; [cbn in E; discriminate|]. reflexivity.
    - destruct (Nat.eqb d 100) eqn:Ed.
      + unfold k3. rewrite m_tail. rewrite !skipn_cons.
        rewrite (skipn_S_of _ _ _ _ E).
        destruct (forallb nonl t').
        * reflexivity.
        * destruct t as [|c2 t2]; [reflexivity|]. rewrite hp_udim2'.
          destruct (Nat.eqb_spec c2 40) as [->|N40]; [|reflexivity].
          cbn in E. injection E as E1 E2. subst d. discriminate.
      + destruct t as [|c2 t2]; [reflexivity|].
        destruct (has_prefix (c2 :: t2) (s2b "(UDIM)d")) eqn:Hp2; [|reflexivity].
        unfold k3. rewrite m_tail. reflexivity. }
  cbn [andb].
  destruct (Nat.eqb_spec c 36) as [->|N36].
  { cbn [Nat.eqb andb]. destruct t as [|c2 t2]; [reflexivity|].
    destruct (Nat.eqb c2 70); [|reflexivity].
    unfold k3. rewrite m_tail. cbn [skipn].
    destruct (forallb nonl (skipn (span_len is_digit t2) t2)); reflexivity. }
  destruct (Nat.eqb c 60); cbn [andb].
  - destruct (has_prefix t (s2b "UDIM>")); [|destruct t; reflexivity].
    unfold k3. rewrite m_tail. destruct t; rewrite opt_id; reflexivity.
  - destruct t; reflexivity.
Qed.

Lemma pad_len_not_head : forall c t, pad_head c = false -> pad_len (c :: t) = None.
Proof.
  intros c t H. unfold pad_head in H.
  apply orb_false_iff in H. destruct H as [H H60].
  apply orb_false_iff in H. destruct H as [H H36].
  apply orb_false_iff in H. destruct H as [Hha H37].
  unfold pad_len. rewrite Hha, H37, H36, H60. reflexivity.
Qed.

Lemma pt_result_not_head : forall pos c t cs, pad_head c = false -> pt_result pos (c :: t) cs = None.
Proof. intros. unfold pt_result. rewrite pad_len_not_head by assumption. reflexivity. Qed.

(** * everything after the name group, on an arbitrary string *)

Definition kre_result (pos : nat) (rest : bytes) (cs : caps) : option caps :=
  match rest with
  | c :: t =>
    if is_hd c
    then let n := span_len in_range_class t in
         pt_result (pos + S n) (skipn n t) ((2, (pos, pos + S n)) :: cs)
    else pt_result pos rest cs
  | [] => None
  end.

Lemma m_kre : forall pos rest cs, m KRE pos rest cs kfin = kre_result pos rest cs.
Proof.
  intros pos rest cs. unfold KRE, RANGE, kre_result.
  rewrite m_cat, m_opt_greedy, m_grp, m_cat.
  destruct rest as [|c t].
  - rewrite m_cls_nil, m_pt. reflexivity.
  - rewrite m_cls_cons, cls_hd. destruct (is_hd c) eqn:Ehd.
    + rewrite gscan_commit_star.
      2:{ intros pos' c' s' cs' H. rewrite cls_rg in H. rewrite m_pt.
          apply pt_result_not_head, rg_not_pad, H. }
      rewrite (span_len_ext _ in_range_class t cls_rg), m_pt. cbv zeta.
      rewrite Nat.add_succ_comm.
      destruct (pt_result _ _ _); [reflexivity|].
      rewrite m_pt. apply pt_result_not_head, rg_not_pad, hd_rg, Ehd.
    + apply m_pt.
Qed.

(** * the whole pattern: a lazy scan for the first offset where KRE succeeds *)

Lemma lscan_ext : forall p (k1 k2 : K), (forall pos s cs, k1 pos s cs = k2 pos s cs) ->
  forall s pos cs, lscan p k1 pos s cs = lscan p k2 pos s cs.
Proof.
  intros p k1 k2 H s. induction s as [|c s IH]; intros pos cs; cbn [lscan]; rewrite H; [reflexivity|].
  rewrite IH. reflexivity.
Qed.

Lemma split_char : forall s,
  rmatch R_splitPattern s =
  lscan (cls_match true [(10, 10)])
        (fun p' s' cs' => kre_result p' s' ((1, (0, p')) :: cs')) 0 s [].
Proof.
  intros s. unfold rmatch. rewrite split_eq, m_cat, m_bot0. cbv beta.
  rewrite m_cat, m_grp, m_star_lazy_cls.
  apply lscan_ext. intros pos s' cs. apply m_kre.
Qed.

Lemma lscan_first : forall p (k : K) (pre rest : bytes) pos cs r,
  forallb p pre = true ->
  (forall i, i < List.length pre -> k (pos + i) (skipn i pre ++ rest) cs = None) ->
  k (pos + List.length pre) rest cs = Some r ->
  lscan p k pos (pre ++ rest) cs = Some r.
Proof.
  intros p k pre rest. induction pre as [|c pre IH]; intros pos cs r Hp Hn Hs.
  - cbn [app List.length] in *. rewrite Nat.add_0_r in Hs. rewrite lscan_eq, Hs. reflexivity.
  - cbn [forallb] in Hp. apply andb_true_iff in Hp. destruct Hp as [Hc Hp].
    cbn [app]. rewrite lscan_eq.
    pose proof (Hn 0) as H0. cbn [skipn List.length app] in H0. rewrite Nat.add_0_r in H0.
    rewrite H0 by lia. rewrite Hc. apply IH.
    + exact Hp.
    + intros i Hi. pose proof (Hn (S i)) as H1. cbn [skipn List.length] in H1.
      rewrite Nat.add_succ_comm. apply H1. lia.
    + cbn [List.length] in Hs. rewrite Nat.add_succ_comm. exact Hs.
Qed.

(** * the spec-side predicates with [Nat.eqb] tests instead of numeral patterns *)

Lemma skip_digits_eq : forall s, skip_digits s = skipn (span_len is_digit s) s.
Proof.
  induction s as [|c s IH]; cbn [skip_digits span_len]; [reflexivity|].
  destruct (is_digit c); [cbn [skipn]; exact IH|reflexivity].
Qed.

Lemma match100 : forall (A : Type) (d : byte) (x y : A),
  match d with 100 => x | _ => y end = if Nat.eqb d 100 then x else y.
Proof.
  intros A d x y. do 100 (destruct d as [|d]; [reflexivity|]). destruct d; reflexivity.
Qed.

Lemma token_starts_eq : forall s,
  token_starts s =
  match s with
  | [] => false
  | c :: t =>
    if is_ha c then true
    else if Nat.eqb c 37 then printf_at t || has_prefix s udim2
    else if Nat.eqb c 36 then match t with c2 :: _ => Nat.eqb c2 70 | [] => false end
    else if Nat.eqb c 60 then has_prefix s udim1
    else false
  end.
Proof.
  intros s. destruct s as [|c t]; [reflexivity|]. unfold is_ha, printf_at.
  do 35 (destruct c as [|c]; [reflexivity|]).
  destruct c as [|c]; [reflexivity|].
  destruct c as [|c].
  { (* 36 *) cbn [Nat.eqb orb]. destruct t as [|c2 t2]; [reflexivity|].
    unfold token_starts.
    do 70 (destruct c2 as [|c2]; [reflexivity|]). destruct c2; reflexivity. }
  destruct c as [|c].
  { (* 37 *) cbn [Nat.eqb orb]. unfold token_starts. rewrite skip_digits_eq.
    destruct (skipn (span_len is_digit t) t) as [|d t']; [reflexivity|].
    rewrite match100. destruct (Nat.eqb d 100); reflexivity. }
  do 22 (destruct c as [|c]; [reflexivity|]).
  destruct c as [|c]; [reflexivity|].
  do 3 (destruct c as [|c]; [reflexivity|]).
  destruct c as [|c]; [reflexivity|].
  reflexivity.
Qed.

Lemma is_printf_token_eq : forall p,
  is_printf_token p =
  match p with
  | c :: r => Nat.eqb c 37 && match rev r with
                              | d :: ds => Nat.eqb d 100 && forallb is_digit ds
                              | [] => false
                              end
  | [] => false
  end.
Proof.
  intros p. destruct p as [|c r]; [reflexivity|].
  do 37 (destruct c as [|c]; [reflexivity|]).
  destruct c as [|c]; [|reflexivity].
  unfold is_printf_token. cbn [Nat.eqb andb].
  destruct (rev r) as [|d ds]; [reflexivity|].
  rewrite match100. destruct (Nat.eqb d 100); reflexivity.
Qed.

Lemma is_houdini_token_eq : forall p,
  is_houdini_token p =
  match p with
  | c :: c2 :: ds => Nat.eqb c 36 && Nat.eqb c2 70 && forallb is_digit ds
  | _ => false
  end.
Proof.
  intros p. destruct p as [|c r]; [reflexivity|].
  do 36 (destruct c as [|c]; [destruct r; reflexivity|]).
  destruct c as [|c]; [|destruct r; reflexivity].
  destruct r as [|c2 ds]; [reflexivity|].
  do 70 (destruct c2 as [|c2]; [reflexivity|]).
  destruct c2; reflexivity.
Qed.

Lemma read_int_eq : forall s,
  read_int s =
  match s with
  | c :: r =>
    if Nat.eqb c 45
    then let '(v, n, rest) := read_digits r 0 0 in
         match n with O => None | _ => Some (- v, rest)%Z end
    else let '(v, n, rest) := read_digits s 0 0 in
         match n with O => None | _ => Some (v, rest) end
  | [] => None
  end.
Proof.
  intros s. destruct s as [|c r]; [reflexivity|].
  do 45 (destruct c as [|c]; [reflexivity|]). destruct c; reflexivity.
Qed.

(** * what the spec's range grammar implies about the bytes of a range *)

Lemma read_digits_spec : forall s acc n v n' rest,
  read_digits s acc n = (v, n', rest) ->
  exists ds, s = ds ++ rest /\ forallb is_digit ds = true /\ n' = n + List.length ds.
Proof.
  induction s as [|c s IH]; intros acc n v n' rest H; cbn [read_digits] in H.
  - injection H as _ <- <-. exists []. cbn. auto.
  - destruct (is_digit c) eqn:E.
    + apply IH in H. destruct H as (ds & -> & Hd & ->).
      exists (c :: ds). cbn [app forallb List.length]. rewrite E, Hd.
      split; [reflexivity|]. split; [reflexivity|lia].
    + injection H as _ <- <-. exists []. cbn. auto.
Qed.

(** a successful [read_int] consumed a non-empty prefix: a digit or '-',
    then range-class bytes *)
Lemma read_int_spec : forall s a rest, read_int s = Some (a, rest) ->
  exists c pre, s = (c :: pre) ++ rest /\ is_hd c = true /\ forallb in_range_class pre = true.
Proof.
  intros s a rest H. rewrite read_int_eq in H. destruct s as [|c r]; [discriminate|].
  destruct (Nat.eqb_spec c 45) as [->|Hc].
  - destruct (read_digits r 0 0) as [[v n] rest'] eqn:E.
    apply read_digits_spec in E. destruct E as (ds & -> & Hd & ->).
    destruct ds as [|d ds]; [discriminate|]. injection H as _ <-.
    exists 45, (d :: ds). repeat split.
    eapply forallb_impl; [apply digit_rg|exact Hd].
  - destruct (read_digits (c :: r) 0 0) as [[v n] rest'] eqn:E.
    apply read_digits_spec in E. destruct E as (ds & E & Hd & ->).
    destruct ds as [|d ds]; [discriminate|]. injection H as _ <-.
    cbn [app] in E. injection E as -> ->.
    cbn [forallb] in Hd. apply andb_true_iff in Hd. destruct Hd as [Hd1 Hd2].
    exists d, ds. repeat split; [apply digit_hd, Hd1|].
    eapply forallb_impl; [apply digit_rg|exact Hd2].
Qed.

Lemma parse_comp_spec : forall x cmp, parse_comp x = Some cmp ->
  exists c t, x = c :: t /\ is_hd c = true /\ forallb in_range_class t = true.
Proof.
  intros x cmp H. unfold parse_comp in H.
  destruct (read_int x) as [[a r1]|] eqn:E1; [|discriminate].
  apply read_int_spec in E1. destruct E1 as (c & pre & -> & Hc & Hpre).
  exists c. cbn [app]. eexists; split; [reflexivity|]. split; [exact Hc|].
  rewrite forallb_app, Hpre. cbn [andb].
  destruct r1 as [|c1 r2]; [reflexivity|].
  destruct (Nat.eqb_spec c1 45) as [->|N].
  2:{ exfalso. revert H. clear -N.
      do 45 (destruct c1 as [|c1]; [discriminate|]). destruct c1; [congruence|discriminate]. }
  destruct (read_int r2) as [[b r3]|] eqn:E2; [|discriminate].
  apply read_int_spec in E2. destruct E2 as (c2 & pre2 & -> & Hc2 & Hpre2).
  cbn [forallb app]. rewrite forallb_app, Hpre2, (hd_rg _ Hc2). cbn [andb].
  destruct r3 as [|md r4]; [reflexivity|].
  destruct (is_mod md) eqn:Em; [|discriminate].
  destruct (read_int r4) as [[n r5]|] eqn:E3; [|discriminate].
  destruct r5; [|discriminate].
  apply read_int_spec in E3. destruct E3 as (c4 & pre4 & -> & Hc4 & Hpre4).
  cbn [forallb app]. rewrite forallb_app, Hpre4, (hd_rg _ Hc4), (mod_rg _ Em). reflexivity.
Qed.

Lemma split_commas_spec : forall s cur cs, parse_comps (split_commas s cur) = Some cs ->
  forallb in_range_class (rev cur ++ s) = true /\
  exists c t, rev cur ++ s = c :: t /\ is_hd c = true.
Proof.
  induction s as [|c s IH]; intros cur cs H.
  - cbn [split_commas parse_comps] in H.
    destruct (parse_comp (rev cur)) as [cmp|] eqn:E; [|discriminate].
    apply parse_comp_spec in E. destruct E as (c & t & E & Hc & Ht).
    rewrite app_nil_r, E. cbn [forallb]. rewrite (hd_rg _ Hc), Ht. split; [reflexivity|].
    exists c, t. auto.
  - cbn [split_commas] in H. destruct (Nat.eqb_spec c 44) as [->|N].
    + cbn [parse_comps] in H.
      destruct (parse_comp (rev cur)) as [cmp|] eqn:E; [|discriminate].
      destruct (parse_comps (split_commas s [])) as [cs'|] eqn:E2; [|discriminate].
      apply parse_comp_spec in E. destruct E as (c & t & E & Hc & Ht).
      apply IH in E2. destruct E2 as [E2 _]. cbn [rev app] in E2.
      rewrite forallb_app, E. cbn [forallb]. rewrite (hd_rg _ Hc), Ht, E2. split; [reflexivity|].
      exists c, (t ++ 44 :: s). auto.
    + apply IH in H. cbn [rev] in H. rewrite <- app_assoc in H. exact H.
Qed.

(** the shape of a non-empty range accepted by [range_ok] *)
Lemma range_shape : forall r, range_ok r = true ->
  r = [] \/ exists c t, r = c :: t /\ is_hd c = true /\ forallb in_range_class t = true.
Proof.
  intros r H. destruct r as [|c0 t0]; [left; reflexivity|right].
  unfold range_ok in H. apply andb_true_iff in H. destruct H as [H1 H2].
  apply beq_eq in H1. unfold spec_frames in H2. rewrite H1 in H2.
  destruct (gparse (c0 :: t0)) as [cs|] eqn:E; [|discriminate].
  unfold gparse in E. apply split_commas_spec in E. cbn [rev app] in E.
  destruct E as [Hall (c & t & E & Hc)]. injection E as <- <-.
  exists c0, t0. cbn [forallb] in Hall. apply andb_true_iff in Hall. tauto.
Qed.

(** * the pad token *)

Lemma all_hash_at_eq : forall p, all_hash_at p = forallb is_ha p.
Proof. reflexivity. Qed.

Lemma no_byte_nonl : forall s, no_byte 10 s = true -> forallb nonl s = true.
Proof.
  intros s H. unfold no_byte in H. apply negb_true_iff in H. revert H.
  induction s as [|c s IH]; cbn [existsb forallb]; [reflexivity|].
  intros H. apply orb_false_iff in H. destruct H as [H1 H2].
  unfold nonl at 1. rewrite Nat.eqb_sym, H1, (IH H2). reflexivity.
Qed.

Lemma ext_head : forall e, ext_ok e = true ->
  forallb nonl e = true /\ (e = [] \/ exists t, e = 46 :: t).
Proof.
  intros e H. destruct e as [|c t]; [split; [reflexivity|left; reflexivity]|].
  unfold ext_ok in H. apply andb_true_iff in H. destruct H as [H1 H2].
  apply Nat.eqb_eq in H1. subst c. split; [|right; exists t; reflexivity].
  apply no_byte_nonl. exact H2.
Qed.

Lemma span_ext_head : forall p e, p 46 = false -> (e = [] \/ exists t, e = 46 :: t) -> span_len p e = 0.
Proof.
  intros p e Hp [->|(t & ->)]; [reflexivity|]. apply span_zero. exact Hp.
Qed.

(** the pattern reads exactly the pad token when an extension follows *)
Lemma pad_len_token : forall p e, is_pad_token p = true -> (e = [] \/ exists t, e = 46 :: t) ->
  pad_len (p ++ e) = Some (List.length p) /\ exists h t, p = h :: t /\ pad_head h = true.
Proof.
  intros p e H He. destruct p as [|c t]; [discriminate|].
  unfold is_pad_token in H.
  apply orb_true_iff in H. destruct H as [H|H].
  apply orb_true_iff in H. destruct H as [H|H].
  apply orb_true_iff in H. destruct H as [H|H].
  apply orb_true_iff in H. destruct H as [H|H].
  - (* #@ run *)
    rewrite all_hash_at_eq in H. cbn [forallb] in H. apply andb_true_iff in H. destruct H as [Hc Ht].
    split.
    + cbn [app pad_len]. rewrite Hc. rewrite (span_app_all _ _ _ Ht).
      rewrite (span_ext_head is_ha e) by (reflexivity || assumption).
      cbn [List.length]. f_equal. lia.
    + exists c, t. split; [reflexivity|]. unfold pad_head. rewrite Hc. reflexivity.
  - (* printf *)
    rewrite is_printf_token_eq in H. apply andb_true_iff in H. destruct H as [Hc H].
    apply Nat.eqb_eq in Hc. subst c.
    destruct (rev t) as [|d ds] eqn:Er; [discriminate|].
    apply andb_true_iff in H. destruct H as [Hd Hds]. apply Nat.eqb_eq in Hd. subst d.
    assert (Et : t = rev ds ++ [100]).
    { rewrite <- (rev_involutive t), Er. reflexivity. }
    subst t. split; [|exists 37, (rev ds ++ [100]); split; reflexivity].
    apply forallb_rev in Hds.
    cbn [app pad_len]. change (is_ha 37) with false. cbn [Nat.eqb]. cbv iota.
    unfold printf_at. rewrite <- app_assoc. rewrite (span_app_all _ _ _ Hds).
    cbn [app]. rewrite (span_zero is_digit 100) by reflexivity. rewrite Nat.add_0_r.
    rewrite skipn_len_app. cbn [Nat.eqb]. cbv iota.
    cbn [List.length]. rewrite app_length. cbn [List.length]. f_equal. lia.
  - (* houdini *)
    rewrite is_houdini_token_eq in H. destruct t as [|c2 ds]; [discriminate|].
    apply andb_true_iff in H. destruct H as [H Hds].
    apply andb_true_iff in H. destruct H as [Hc Hc2].
    apply Nat.eqb_eq in Hc. apply Nat.eqb_eq in Hc2. subst c c2.
    split; [|exists 36, (70 :: ds); split; reflexivity].
    cbn [app pad_len]. change (is_ha 36) with false. cbn [Nat.eqb]. cbv iota.
    rewrite (span_app_all _ _ _ Hds).
    rewrite (span_ext_head is_digit e) by (reflexivity || assumption).
    cbn [List.length]. f_equal. lia.
  - apply beq_eq in H. rewrite H. split; [destruct He as [->|(t' & ->)]; reflexivity|].
    exists 60, (s2b "UDIM>"). split; reflexivity.
  - apply beq_eq in H. rewrite H. split; [destruct He as [->|(t' & ->)]; reflexivity|].
    exists 37, (s2b "(UDIM)d"). split; reflexivity.
Qed.

(** * what follows dir ++ base *)

(** [R] starts with a range head or a pad head, and the byte after its
    leading digit run is not 'd' *)
Definition follow_ok (R : bytes) : Prop :=
  (exists h R', R = h :: R' /\ (is_hd h || pad_head h) = true) /\ printf_at R = false.

Lemma printf_at_run : forall (r X : bytes), forallb in_range_class r = true ->
  printf_at X = false -> printf_at (r ++ X) = false.
Proof.
  intros r X Hr HX. induction r as [|c r IH]; [exact HX|].
  cbn [forallb] in Hr. apply andb_true_iff in Hr. destruct Hr as [Hc Hr].
  unfold printf_at. cbn [app span_len]. destruct (is_digit c).
  - cbn [skipn]. apply IH. exact Hr.
  - cbn [skipn]. apply rg_not_d. exact Hc.
Qed.

Lemma printf_at_pad : forall h t, pad_head h = true -> printf_at (h :: t) = false.
Proof.
  intros h t H. unfold printf_at. rewrite (span_zero _ _ _ (pad_not_digit _ H)).
  cbn [skipn]. apply pad_not_d. exact H.
Qed.

Lemma follow_range : forall c t h X, is_hd c = true -> forallb in_range_class t = true ->
  pad_head h = true -> follow_ok ((c :: t) ++ h :: X).
Proof.
  intros c t h X Hc Ht Hh. split.
  - exists c, (t ++ h :: X). split; [reflexivity|]. rewrite Hc. reflexivity.
  - apply printf_at_run.
    + cbn [forallb]. rewrite (hd_rg _ Hc), Ht. reflexivity.
    + apply printf_at_pad. exact Hh.
Qed.

Lemma follow_pad : forall h X, pad_head h = true -> follow_ok (h :: X).
Proof.
  intros h X Hh. split.
  - exists h, X. split; [reflexivity|]. rewrite Hh. apply orb_true_r.
  - apply printf_at_pad. exact Hh.
Qed.

(** * the tail of dir ++ base cannot start a range *)

Lemma tail_rev_digits : forall c l y, is_hd c = true -> forallb in_range_class l = true ->
  tail_ok_rev (l ++ c :: y) = false.
Proof.
  intros c l y Hc. induction l as [|a l IH]; intros Hl.
  - cbn [app tail_ok_rev]. unfold is_hd in Hc. rewrite Hc. reflexivity.
  - cbn [forallb] in Hl. apply andb_true_iff in Hl. destruct Hl as [Ha Hl].
    cbn [app tail_ok_rev]. rewrite Ha. destruct (is_digit a || Nat.eqb a 45); [reflexivity|].
    apply IH. exact Hl.
Qed.

Lemma tail_digits : forall pre c t, is_hd c = true -> forallb in_range_class t = true ->
  tail_ok (pre ++ c :: t) = false.
Proof.
  intros pre c t Hc Ht. unfold tail_ok. rewrite rev_app_distr. cbn [rev].
  rewrite <- !app_assoc. cbn [app]. apply tail_rev_digits; [exact Hc|].
  apply forallb_rev. exact Ht.
Qed.

Lemma no_token_suffix : forall pre x, no_token (pre ++ x) = true -> no_token x = true.
Proof.
  induction pre as [|a pre IH]; intros x H; [exact H|].
  cbn [app no_token] in H. apply andb_true_iff in H. destruct H as [_ H]. apply IH. exact H.
Qed.

Lemma in_udim_tail : forall h (l : bytes), (is_hd h || pad_head h) = true ->
  In h l -> forallb (fun x => negb (is_hd x || pad_head x)) l = true -> False.
Proof.
  intros h l Hh Hin Hl. rewrite forallb_forall in Hl. apply Hl in Hin.
  rewrite Hh in Hin. discriminate.
Qed.

(** no pad token is read at an offset inside dir ++ base *)
Lemma no_pad_inside : forall pre c t R,
  no_token (pre ++ c :: t) = true -> tail_ok (pre ++ c :: t) = true -> follow_ok R ->
  pad_len ((c :: t) ++ R) = None.
Proof.
  intros pre c t R Hnt Htl [(h & R' & -> & Hh) Hpf].
  apply no_token_suffix in Hnt. cbn [no_token] in Hnt.
  apply andb_true_iff in Hnt. destruct Hnt as [Hts _]. apply negb_true_iff in Hts.
  rewrite token_starts_eq in Hts.
  cbn [app]. unfold pad_len.
  destruct (is_ha c); [discriminate|].
  destruct (Nat.eqb_spec c 37) as [->|N37].
  { apply orb_false_iff in Hts. destruct Hts as [Hp Hu].
    assert (Hp' : printf_at (t ++ h :: R') = false).
    { destruct (forallb is_digit t) eqn:Ed.
      - destruct t as [|d t'].
        + exact Hpf.
        + exfalso. cbn [forallb] in Ed. apply andb_true_iff in Ed. destruct Ed as [Ed1 Ed2].
          assert (Hx : tail_ok ((pre ++ [37]) ++ d :: t') = false).
          { apply tail_digits; [apply digit_hd, Ed1|].
            eapply forallb_impl; [apply digit_rg|exact Ed2]. }
          rewrite <- app_assoc in Hx. exact (eq_true_false_abs _ Htl Hx).
      - destruct (span_app_stop is_digit t (h :: R') Ed) as [H1 (d & t' & Hd & H2 & H3)].
        unfold printf_at in *. rewrite H1, H3. rewrite H2 in Hp. exact Hp. }
    rewrite Hp'.
    match goal with |- context [has_prefix ?a ?b] => destruct (has_prefix a b) eqn:Hu' end; [|reflexivity].
    exfalso. change (37 :: t ++ h :: R') with ((37 :: t) ++ h :: R') in Hu'.
    apply (prefix_straddle 37 (s2b "(UDIM)d")) in Hu'.
    destruct Hu' as [Hu'|(h' & R'' & E & Hin)]; [exact (eq_true_false_abs _ Hu' Hu)|].
    injection E as <- <-. eapply in_udim_tail; [exact Hh|exact Hin|reflexivity]. }
  destruct (Nat.eqb_spec c 36) as [->|N36].
  { destruct t as [|c2 t2].
    - cbn [app]. destruct (Nat.eqb_spec h 70) as [->|]; [discriminate|reflexivity].
    - cbn [app]. rewrite Hts. reflexivity. }
  destruct (Nat.eqb_spec c 60) as [->|N60]; [|reflexivity].
  match goal with |- context [has_prefix ?a ?b] => destruct (has_prefix a b) eqn:Hu' end; [|reflexivity].
  exfalso. change (60 :: t ++ h :: R') with ((60 :: t) ++ h :: R') in Hu'.
  apply (prefix_straddle 60 (s2b "UDIM>")) in Hu'.
  destruct Hu' as [Hu'|(h' & R'' & E & Hin)]; [exact (eq_true_false_abs _ Hu' Hts)|].
  injection E as <- <-. eapply in_udim_tail; [exact Hh|exact Hin|reflexivity].
Qed.

(** * (1) the suffix expression fails at every offset inside dir ++ base *)

Lemma kre_fails_inside : forall pre c t R pos cs,
  no_token (pre ++ c :: t) = true -> tail_ok (pre ++ c :: t) = true -> follow_ok R ->
  kre_result pos ((c :: t) ++ R) cs = None.
Proof.
  intros pre c t R pos cs Hnt Htl HR. cbn [app]. unfold kre_result.
  destruct (is_hd c) eqn:Ehd.
  - cbv zeta. destruct (forallb in_range_class t) eqn:Et.
    + rewrite (tail_digits pre c t Ehd Et) in Htl. discriminate.
    + destruct (span_app_stop in_range_class t R Et) as [H1 (d & t' & Hd & H2 & H3)].
      rewrite H1, H3. unfold pt_result.
      rewrite (no_pad_inside (pre ++ c :: firstn (span_len in_range_class t) t) d t' R); [reflexivity| |  |exact HR].
      * rewrite <- app_assoc. cbn [app]. rewrite <- H2, firstn_skipn. exact Hnt.
      * rewrite <- app_assoc. cbn [app]. rewrite <- H2, firstn_skipn. exact Htl.
  - unfold pt_result. change (c :: t ++ R) with ((c :: t) ++ R).
    rewrite (no_pad_inside pre c t R Hnt Htl HR). reflexivity.
Qed.

(** * (2) and succeeds right after it, reading exactly range, pad, ext *)

Lemma pt_at_pad : forall pos p e cs, is_pad_token p = true -> ext_ok e = true ->
  pt_result pos (p ++ e) cs =
  Some ((4, (pos + List.length p, pos + List.length p + List.length e))
        :: (3, (pos, pos + List.length p)) :: cs).
Proof.
  intros pos p e cs Hp He. destruct (ext_head e He) as [Hnl Hhd].
  destruct (pad_len_token p e Hp Hhd) as [Hlen _].
  unfold pt_result. rewrite Hlen, skipn_len_app, Hnl. reflexivity.
Qed.

Definition caps_at (pos : nat) (r p e : bytes) (cs : caps) : caps :=
  (4, (pos + List.length r + List.length p, pos + List.length r + List.length p + List.length e))
  :: (3, (pos + List.length r, pos + List.length r + List.length p))
  :: match r with [] => cs | _ :: _ => (2, (pos, pos + List.length r)) :: cs end.

Lemma kre_at_name : forall pos r p e cs,
  range_ok r = true -> is_pad_token p = true -> ext_ok e = true ->
  kre_result pos (r ++ p ++ e) cs = Some (caps_at pos r p e cs).
Proof.
  intros pos r p e cs Hr Hp He.
  destruct (ext_head e He) as [Hnl Hhd].
  destruct (pad_len_token p e Hp Hhd) as [_ (h & tp & Ep & Hh)].
  destruct (range_shape r Hr) as [->|(c & t & -> & Hc & Ht)].
  - cbn [app]. unfold kre_result, caps_at. cbn [List.length]. rewrite !Nat.add_0_r.
    rewrite Ep at 1. cbn [app]. rewrite (pad_not_hd _ Hh).
    apply pt_at_pad; assumption.
  - cbn [app]. unfold kre_result, caps_at. rewrite Hc. cbv zeta.
    rewrite (span_app_all _ _ _ Ht).
    assert (Hz : span_len in_range_class (p ++ e) = 0).
    { rewrite Ep. cbn [app]. apply span_zero, pad_not_rg, Hh. }
    rewrite Hz, Nat.add_0_r, skipn_len_app. cbn [List.length].
    apply pt_at_pad; assumption.
Qed.

(** * the follow-up string satisfies [follow_ok] *)

Lemma follow_rpe : forall r p e, range_ok r = true -> is_pad_token p = true -> ext_ok e = true ->
  follow_ok (r ++ p ++ e).
Proof.
  intros r p e Hr Hp He.
  destruct (ext_head e He) as [Hnl Hhd].
  destruct (pad_len_token p e Hp Hhd) as [_ (h & tp & -> & Hh)].
  destruct (range_shape r Hr) as [->|(c & t & -> & Hc & Ht)].
  - cbn [app]. apply follow_pad. exact Hh.
  - change ((h :: tp) ++ e) with (h :: tp ++ e). apply follow_range; assumption.
Qed.

Lemma no_byte_cls : forall s, no_byte 10 s = true -> forallb (cls_match true [(10, 10)]) s = true.
Proof.
  intros s H. apply no_byte_nonl in H. eapply forallb_impl; [|exact H].
  intros c Hc. rewrite cls_nonl. exact Hc.
Qed.

(** * the match of the whole pattern *)

Theorem split_rmatch : forall name r p e,
  no_byte 10 name = true -> no_token name = true -> tail_ok name = true ->
  range_ok r = true -> is_pad_token p = true -> ext_ok e = true ->
  rmatch R_splitPattern (name ++ r ++ p ++ e) =
  Some (caps_at (List.length name) r p e [(1, (0, List.length name))]).
Proof.
  intros name r p e Hnl Hnt Htl Hr Hp He. rewrite split_char.
  apply lscan_first.
  - apply no_byte_cls. exact Hnl.
  - intros i Hi. cbv beta.
    destruct (skipn i name) as [|c t] eqn:E.
    { apply (f_equal (@List.length _)) in E. rewrite skipn_length in E. cbn [List.length] in E. lia. }
    apply (kre_fails_inside (firstn i name) c t).
    + rewrite <- E, firstn_skipn. exact Hnt.
    + rewrite <- E, firstn_skipn. exact Htl.
    + apply follow_rpe; assumption.
  - cbv beta. cbn [Nat.add]. apply kre_at_name; assumption.
Qed.

Theorem split_captures : forall d b r p e, unambiguous d b r p e = true ->
  submatches R_splitPattern (d ++ b ++ r ++ p ++ e) 4 = Some [d ++ b; r; p; e].
Proof.
  intros d b r p e H. unfold unambiguous in H.
  repeat (apply andb_true_iff in H; let H' := fresh "U" in destruct H as [H H']).
  rewrite (app_assoc d b). set (name := d ++ b) in *.
  unfold submatches. rewrite (split_rmatch name r p e) by assumption.
  unfold caps_at. f_equal. cbn [seq map].
  assert (E1 : cap_get (name ++ r ++ p ++ e)
                 ((4, (List.length name + List.length r + List.length p,
                       List.length name + List.length r + List.length p + List.length e))
                  :: (3, (List.length name + List.length r, List.length name + List.length r + List.length p))
                  :: match r with
                     | [] => [(1, (0, List.length name))]
                     | _ :: _ => [(2, (List.length name, List.length name + List.length r)); (1, (0, List.length name))]
                     end) 2 = r).
  { destruct r as [|c t]; [reflexivity|].
    unfold cap_get. cbn [cap_lookup Nat.eqb].
    apply (slice_mid _ _ _ name (c :: t) (p ++ e)); reflexivity. }
  f_equal; [|f_equal; [exact E1|f_equal; [|f_equal]]].
  - assert (E : cap_get (name ++ r ++ p ++ e)
                 ((4, (List.length name + List.length r + List.length p,
                       List.length name + List.length r + List.length p + List.length e))
                  :: (3, (List.length name + List.length r, List.length name + List.length r + List.length p))
                  :: match r with
                     | [] => [(1, (0, List.length name))]
                     | _ :: _ => [(2, (List.length name, List.length name + List.length r)); (1, (0, List.length name))]
                     end) 1 = slice (name ++ r ++ p ++ e) 0 (List.length name)).
    { destruct r; reflexivity. }
    rewrite E. apply (slice_mid _ _ _ [] name (r ++ p ++ e)); reflexivity.
  - unfold cap_get. cbn [cap_lookup Nat.eqb].
    apply (slice_mid _ _ _ (name ++ r) p e).
    + rewrite <- app_assoc. reflexivity.
    + rewrite app_length. reflexivity.
    + reflexivity.
  - unfold cap_get. cbn [cap_lookup Nat.eqb].
    apply (slice_mid _ _ _ (name ++ r ++ p) e []).
    + rewrite app_nil_r, <- !app_assoc. reflexivity.
    + rewrite !app_length. lia.
    + reflexivity.
Qed.

(** * filepath.Split on dir ++ base *)

Lemma last_index_from_app : forall c x y i acc,
  last_index_from c (x ++ y) i acc = last_index_from c y (i + List.length x) (last_index_from c x i acc).
Proof.
  intros c x. induction x as [|a x IH]; intros y i acc; cbn [app last_index_from List.length].
  - rewrite Nat.add_0_r. reflexivity.
  - rewrite IH. f_equal. lia.
Qed.

Lemma last_index_from_none : forall c y i acc, no_byte c y = true -> last_index_from c y i acc = acc.
Proof.
  intros c y. unfold no_byte. induction y as [|a y IH]; intros i acc H; [reflexivity|].
  cbn [existsb] in H. apply negb_true_iff in H. apply orb_false_iff in H. destruct H as [H1 H2].
  cbn [last_index_from]. rewrite Nat.eqb_sym, H1. apply IH. rewrite H2. reflexivity.
Qed.

Theorem path_split_dir_base : forall d b, dir_ok d = true -> no_byte 47 b = true ->
  path_split (d ++ b) = (d, b).
Proof.
  intros d b Hd Hb. unfold path_split, last_index, c_slash.
  rewrite last_index_from_app, (last_index_from_none _ _ _ _ Hb).
  unfold dir_ok in Hd. destruct (rev d) as [|c rd] eqn:E.
  - apply (f_equal (@rev _)) in E. rewrite rev_involutive in E. subst d. reflexivity.
  - apply Nat.eqb_eq in Hd. subst c.
    apply (f_equal (@rev _)) in E. rewrite rev_involutive in E. cbn [rev] in E. subst d.
    rewrite last_index_from_app. cbn [last_index_from Nat.eqb Nat.add].
    replace (S (List.length (rev rd))) with (List.length (rev rd ++ [47]))
      by (rewrite app_length; cbn [List.length]; lia).
    rewrite firstn_len_app, skipn_len_app. reflexivity.
Qed.

(** * C03: the constructor decomposes the concatenation losslessly *)

Theorem split_roundtrip : forall d b r p e st, unambiguous d b r p e = true ->
  exists q, new_fileseq (d ++ b ++ r ++ p ++ e) st = Ok q /\
    q_dir q = d /\ q_base q = b /\ q_pad q = p /\ q_ext q = e /\
    q_zfill q = padding_chars_size st p /\
    q_fs q = opt_frameset r /\
    q_string q = d ++ b ++ q_frange q ++ p ++ e /\
    q_format_default q = q_string q /\ q_style q = st.
Proof.
  intros d b r p e st H. unfold new_fileseq. rewrite (split_captures d b r p e H).
  unfold unambiguous in H.
  repeat (apply andb_true_iff in H; let H' := fresh "U" in destruct H as [H H']).
  rewrite (path_split_dir_base d b) by assumption.
  eexists. split; [reflexivity|]. cbn [set_padding q_dir q_base q_pad q_ext q_zfill q_fs q_style].
  repeat split.
Qed.

(** the range text is kept verbatim when the range parses, and is empty
    when there is none *)
Theorem split_roundtrip_frange : forall d b r p e st q, unambiguous d b r p e = true ->
  new_fileseq (d ++ b ++ r ++ p ++ e) st = Ok q ->
  (forall f, new_frameset r = Ok f ->
     q_frange q = r /\ q_string q = d ++ b ++ r ++ p ++ e) /\
  (r = [] -> q_frange q = [] /\ q_string q = d ++ b ++ p ++ e).
Proof.
  intros d b r p e st q H Hq.
  destruct (split_roundtrip d b r p e st H) as (q' & Hq' & _ & _ & _ & _ & _ & Hfs & Hs & _).
  rewrite Hq in Hq'. injection Hq' as <-.
  split.
  - intros f Hf. assert (E : q_frange q = r).
    { unfold q_frange. rewrite Hfs. unfold opt_frameset. rewrite Hf.
      unfold new_frameset in Hf.
      destruct (frame_range_matches r) as [ms| | |]; try discriminate. cbn [bind] in Hf.
      destruct (handle_matches [] ms) as [bl| | |]; try discriminate. cbn [bind] in Hf.
      injection Hf as <-. reflexivity. }
    split; [exact E|]. rewrite Hs, E. reflexivity.
  - intros ->. assert (E : q_frange q = []).
    { unfold q_frange. rewrite Hfs. reflexivity. }
    split; [exact E|]. rewrite Hs, E. reflexivity.
Qed.

Print Assumptions split_captures.
Print Assumptions split_roundtrip.
Print Assumptions split_roundtrip_frange.
