(** C14: a single plain ("A-B") or stepped ("A-BxN") range is answered
    arithmetically.  Parsing such a text builds ONE block by a constructor
    application (no loop over the frames), and every accessor of a one-block
    frame set has a closed form that holds for every magnitude ([Z] is
    unbounded).  The examples at the end are evaluated by [vm_compute] on
    astronomical ranges: they terminate only because nothing is enumerated. *)
From GFS Require Import Base Dec Regex GenRegex GenPadTables Ranges Pad FrameSet
  SpecRanges RegexKit RangeRegex DecProofs RangeBasics AppendProofs PadRangeProofs FramePathProofs.
Local Open Scope Z_scope.

(** text of  A-B  and  A-BxN *)
Definition plain_text (a b : Z) : bytes := itoa a ++ c_minus :: itoa b.
Definition stepped_text (a b n : Z) : bytes := itoa a ++ c_minus :: itoa b ++ c_x :: itoa n.
Definition dir_step (a b k : Z) : Z := if a <=? b then Z.abs k else - Z.abs k.

(** * Part 1: the parser builds one block *)

(** a text made of numerals, '-' and 'x' holds no pad character, space or comma *)
Definition plainc (c : byte) : Prop := c <> 35%nat /\ c <> 64%nat /\ c <> 32%nat /\ c <> 44%nat.

Lemma numeral_plainc : forall t, numeral t -> Forall plainc t.
Proof.
  intros t H. unfold plainc.
  pose proof (numeral_avoids t 35%nat H ltac:(lia) eq_refl) as H1.
  pose proof (numeral_avoids t 64%nat H ltac:(lia) eq_refl) as H2.
  pose proof (numeral_avoids t 32%nat H ltac:(lia) eq_refl) as H3.
  pose proof (numeral_avoids t 44%nat H ltac:(lia) eq_refl) as H4.
  rewrite Forall_forall in *. intros x Hx.
  repeat split; [apply H1 | apply H2 | apply H3 | apply H4]; exact Hx.
Qed.

Lemma plain_text_plainc : forall a b, Forall plainc (plain_text a b).
Proof.
  intros a b. unfold plain_text. apply Forall_app. split; [apply numeral_plainc, itoa_numeral|].
  constructor; [unfold plainc, c_minus; lia | apply numeral_plainc, itoa_numeral].
Qed.

Lemma stepped_text_plainc : forall a b n, Forall plainc (stepped_text a b n).
Proof.
  intros a b n. unfold stepped_text. apply Forall_app. split; [apply numeral_plainc, itoa_numeral|].
  constructor; [unfold plainc, c_minus; lia|].
  apply Forall_app. split; [apply numeral_plainc, itoa_numeral|].
  constructor; [unfold plainc, c_x; lia | apply numeral_plainc, itoa_numeral].
Qed.

(** such a text is its own single component *)
Lemma plainc_components : forall t, Forall plainc t ->
  split_on c_comma (strip_pad_and_space t) = [t].
Proof.
  intros t H.
  assert (Hs : strip_pad_and_space t = t).
  { unfold strip_pad_and_space. change all_chars with [[35%nat]; [64%nat]].
    cbn [fold_left strip_key].
    rewrite (remove_byte_id 35%nat t) by (eapply Forall_impl; [|exact H]; unfold plainc; intros; tauto).
    rewrite (remove_byte_id 64%nat t) by (eapply Forall_impl; [|exact H]; unfold plainc; intros; tauto).
    apply remove_byte_id. eapply Forall_impl; [|exact H]. unfold plainc, c_space. intros; tauto. }
  rewrite Hs. apply split_on_single.
  eapply Forall_impl; [|exact H]. unfold plainc, c_comma. intros; tauto.
Qed.

Theorem plain_range_one_block : forall a b, fits_int a = true -> fits_int b = true ->
  new_frameset (plain_text a b) =
  Ok (mkFS (plain_text a b) [new_range a b (if a >? b then -1 else 1)]).
Proof.
  intros a b Ha Hb. unfold new_frameset, frame_range_matches.
  rewrite (plainc_components _ (plain_text_plainc a b)).
  cbn [match_parts]. rewrite match_part_char.
  assert (E : tcomp (plain_text a b) = Some [itoa a; itoa b])
    by (apply tcomp_build2; apply itoa_numeral).
  rewrite E. cbn [bind].
  cbn [handle_matches handle_match].
  rewrite (parse_int_some _ _ (atoi_itoa a Ha)). cbn [bind].
  rewrite (parse_int_some _ _ (atoi_itoa b Hb)). cbn [bind].
  f_equal. f_equal. unfold append_unique, rs_append. cbn [app].
  rewrite Z.gtb_ltb.
  destruct (Z.ltb_spec b a) as [L|L]; cbn [Z.eqb Z.abs Z.opp];
    destruct (Z.leb_spec a b) as [L'|L']; try lia; reflexivity.
Qed.

Theorem stepped_range_one_block : forall a b n,
  fits_int a = true -> fits_int b = true -> fits_int n = true -> n <> 0 ->
  new_frameset (stepped_text a b n) =
  Ok (mkFS (stepped_text a b n) [new_range a b (dir_step a b n)]).
Proof.
  intros a b n Ha Hb Hn Hnz. unfold new_frameset, frame_range_matches.
  rewrite (plainc_components _ (stepped_text_plainc a b n)).
  cbn [match_parts]. rewrite match_part_char.
  assert (E : tcomp (stepped_text a b n) = Some [itoa a; itoa b; [120%nat]; itoa n])
    by (apply tcomp_build4; try apply itoa_numeral; reflexivity).
  rewrite E. cbn [bind]. cbn [handle_matches handle_match].
  rewrite (parse_int_some _ _ (atoi_itoa n Hn)). cbn [bind].
  rewrite (proj2 (Z.eqb_neq n 0) Hnz).
  rewrite (parse_int_some _ _ (atoi_itoa a Ha)). cbn [bind].
  rewrite (parse_int_some _ _ (atoi_itoa b Hb)). cbn [bind].
  unfold append_unique, rs_append. rewrite (proj2 (Z.eqb_neq n 0) Hnz). reflexivity.
Qed.

(** the block that is built is well formed *)
Lemma plain_block_wf : forall a b, wf (new_range a b (if a >? b then -1 else 1)).
Proof.
  intros a b. apply new_range_wf. rewrite Z.gtb_ltb.
  destruct (Z.ltb_spec b a); lia.
Qed.

Lemma stepped_block_wf : forall a b n, n <> 0 -> wf (new_range a b (dir_step a b n)).
Proof.
  intros a b n H. apply new_range_wf. unfold dir_step.
  destruct (Z.leb_spec a b); lia.
Qed.

(** * Part 2: closed-form answers of a one-block frame set *)

Lemma on_grid_index : forall r v, wf r ->
  (on_grid r v <-> exists k, 0 <= k <= cnt r /\ v = r_start r + r_step r * k).
Proof.
  intros r v H. rewrite <- (enum_on_grid r v H). apply enum_In_iff. exact H.
Qed.

Lemma single_index : forall r v, rs_index [r] v = ir_index r v \/
  (ir_index r v < 0 /\ rs_index [r] v = -1).
Proof.
  intros r v. unfold rs_index. cbn [rs_index_from].
  destruct (Z.geb_spec (ir_index r v) 0) as [G|G]; [left; lia | right; split; [lia | reflexivity]].
Qed.

Theorem single_block_answers : forall fr r, wf r -> let f := mkFS fr [r] in
  fs_len f = Z.of_nat (enum_count r) /\
  fs_start f = r_start r /\
  fs_end f = r_start r + r_step r * (Z.of_nat (enum_count r) - 1) /\
  (forall i, 0 <= i < Z.of_nat (enum_count r) -> fs_frame f i = Some (r_start r + r_step r * i)) /\
  (forall i, i < 0 \/ Z.of_nat (enum_count r) <= i -> fs_frame f i = None) /\
  (forall v, fs_has_frame f v = true <-> on_grid r v) /\
  (forall v, on_grid r v ->
     exists k, 0 <= k < Z.of_nat (enum_count r) /\ v = r_start r + r_step r * k /\ fs_index f v = k) /\
  (forall v, ~ on_grid r v -> fs_index f v = -1).
Proof.
  intros fr r H f. subst f.
  unfold fs_len, fs_start, fs_end, fs_frame, fs_has_frame, fs_index. cbn [fs_blocks].
  pose proof (enum_count_cnt r H) as Hc. pose proof (cnt_nonneg r H) as Hn.
  pose proof (wf_step_nz r H) as Hnz.
  split; [|split; [|split; [|split; [|split; [|split; [|split]]]]]].
  - unfold rs_len. cbn [fold_left]. rewrite (ir_len_count r H). lia.
  - reflexivity.
  - unfold rs_end. cbn [last]. apply ir_end_closed. exact H.
  - intros i Hi. unfold rs_value.
    destruct (Z.ltb_spec i 0) as [L|L]; [lia|]. cbn [rs_value_from].
    rewrite (ir_len_count r H), Z.sub_0_r.
    destruct (Z.ltb_spec i (Z.of_nat (enum_count r))) as [L'|L']; [|lia].
    rewrite (ir_value_in r i H) by lia. reflexivity.
  - intros i Hi. unfold rs_value.
    destruct (Z.ltb_spec i 0) as [L|L]; [reflexivity|]. cbn [rs_value_from].
    rewrite (ir_len_count r H), Z.sub_0_r.
    destruct (Z.ltb_spec i (Z.of_nat (enum_count r))) as [L'|L']; [lia|]. reflexivity.
  - intros v. unfold rs_contains. cbn [existsb]. rewrite orb_false_r.
    rewrite (ir_contains_In r v H). apply enum_on_grid. exact H.
  - intros v Hv. apply (on_grid_index r v H) in Hv. destruct Hv as [k [Hk E]].
    exists k. split; [lia|]. split; [exact E|].
    assert (Hi : ir_index r v = k).
    { unfold ir_index. fold (ir_contains r v).
      rewrite (proj2 (ir_contains_grid r v H)) by (exists k; split; [exact Hk | exact E]).
      cbn [negb]. replace (v - r_start r) with (r_step r * k) by lia.
      unfold go_div. rewrite quot_mul_exact by exact Hnz.
      destruct (Z.ltb_spec k 0); [lia | reflexivity]. }
    destruct (single_index r v) as [E'|[L _]]; lia.
  - intros v Hv. destruct (single_index r v) as [E'|[_ E']]; [|exact E'].
    rewrite E'. unfold ir_index. fold (ir_contains r v).
    destruct (ir_contains r v) eqn:C; [|reflexivity].
    exfalso. apply Hv. apply (enum_on_grid r v H). apply (ir_contains_In r v H). exact C.
Qed.

(** the count in terms of the text's numbers *)
Lemma new_range_fields : forall a b st, st <> 0 ->
  r_start (new_range a b st) = a /\ r_end (new_range a b st) = b /\ r_step (new_range a b st) = st.
Proof.
  intros a b st H. unfold new_range. rewrite (proj2 (Z.eqb_neq st 0) H). repeat split.
Qed.

Theorem plain_count : forall a b,
  Z.of_nat (enum_count (new_range a b (if a >? b then -1 else 1))) = Z.abs (b - a) + 1.
Proof.
  intros a b. rewrite (enum_count_cnt _ (plain_block_wf a b)). unfold cnt.
  assert (Hs : (if a >? b then -1 else 1) <> 0) by (destruct (a >? b); lia).
  destruct (new_range_fields a b _ Hs) as (-> & -> & ->).
  destruct (a >? b); cbn [Z.abs]; rewrite Z.div_1_r; reflexivity.
Qed.

Theorem stepped_count : forall a b n, n <> 0 ->
  Z.of_nat (enum_count (new_range a b (dir_step a b n))) = Z.abs (b - a) / Z.abs n + 1.
Proof.
  intros a b n H. rewrite (enum_count_cnt _ (stepped_block_wf a b n H)). unfold cnt.
  assert (Hs : dir_step a b n <> 0) by (unfold dir_step; destruct (a <=? b); lia).
  destruct (new_range_fields a b _ Hs) as (-> & -> & ->).
  unfold dir_step. destruct (a <=? b); rewrite ?Z.abs_opp, Z.abs_involutive; reflexivity.
Qed.

(** the two halves together: the answers of the parsed text *)
Theorem stepped_range_answers : forall a b n,
  fits_int a = true -> fits_int b = true -> fits_int n = true -> n <> 0 ->
  exists f, new_frameset (stepped_text a b n) = Ok f /\
    let len := Z.abs (b - a) / Z.abs n + 1 in
    let st := dir_step a b n in
    fs_len f = len /\ fs_start f = a /\ fs_end f = a + st * (len - 1) /\
    (forall i, 0 <= i < len -> fs_frame f i = Some (a + st * i)) /\
    (forall i, i < 0 \/ len <= i -> fs_frame f i = None) /\
    (forall k, 0 <= k < len -> fs_has_frame f (a + st * k) = true /\ fs_index f (a + st * k) = k) /\
    (forall v, (forall k, 0 <= k < len -> v <> a + st * k) ->
               fs_has_frame f v = false /\ fs_index f v = -1).
Proof.
  intros a b n Ha Hb Hn Hnz. eexists. split; [apply stepped_range_one_block; assumption|].
  cbv zeta. set (r := new_range a b (dir_step a b n)).
  pose proof (stepped_block_wf a b n Hnz) as Hwf. fold r in Hwf.
  pose proof (stepped_count a b n Hnz) as Hcnt. fold r in Hcnt.
  assert (Hs : dir_step a b n <> 0) by (unfold dir_step; destruct (a <=? b); lia).
  destruct (new_range_fields a b _ Hs) as (Es & _ & Est). fold r in Es, Est.
  destruct (single_block_answers (stepped_text a b n) r Hwf)
    as (A1 & A2 & A3 & A4 & A5 & A6 & A7 & A8).
  rewrite Hcnt, Es, Est in *.
  assert (Hgrid : forall v, on_grid r v <->
            exists k, 0 <= k < Z.abs (b - a) / Z.abs n + 1 /\ v = a + dir_step a b n * k).
  { intros v. rewrite (on_grid_index r v Hwf), Es, Est.
    pose proof (enum_count_cnt r Hwf) as Hc. rewrite Hcnt in Hc.
    split; intros [k [Hk E]]; exists k; (split; [lia | exact E]). }
  repeat split; try assumption.
  - apply A6. apply Hgrid. exists k. split; [assumption | reflexivity].
  - destruct (A7 (a + dir_step a b n * k)) as [k' [Hk' [E' Ei]]].
    { apply Hgrid. exists k. split; [assumption | reflexivity]. }
    rewrite Ei. assert (dir_step a b n * k = dir_step a b n * k') as E'' by lia.
    apply Z.mul_reg_l in E''; [lia | exact Hs].
  - destruct (fs_has_frame _ v) eqn:C; [|reflexivity].
    apply A6 in C. apply Hgrid in C. destruct C as [k [Hk E]]. exfalso. exact (H k Hk E).
  - apply A8. intros G. apply Hgrid in G. destruct G as [k [Hk E]]. exact (H k Hk E).
Qed.

Theorem plain_range_answers : forall a b, fits_int a = true -> fits_int b = true ->
  exists f, new_frameset (plain_text a b) = Ok f /\
    let len := Z.abs (b - a) + 1 in
    let st := if a >? b then -1 else 1 in
    fs_len f = len /\ fs_start f = a /\ fs_end f = b /\
    (forall i, 0 <= i < len -> fs_frame f i = Some (a + st * i)) /\
    (forall i, i < 0 \/ len <= i -> fs_frame f i = None) /\
    (forall v, fs_has_frame f v = true <-> (a <= v <= b \/ b <= v <= a)) /\
    (forall v, (a <= v <= b \/ b <= v <= a) -> fs_index f v = Z.abs (v - a)) /\
    (forall v, ~ (a <= v <= b \/ b <= v <= a) -> fs_index f v = -1).
Proof.
  intros a b Ha Hb. eexists. split; [apply plain_range_one_block; assumption|].
  cbv zeta. set (st := if a >? b then -1 else 1).
  set (r := new_range a b st).
  pose proof (plain_block_wf a b) as Hwf. fold st in Hwf. fold r in Hwf.
  pose proof (plain_count a b) as Hcnt. fold st in Hcnt. fold r in Hcnt.
  assert (Hs : st <> 0) by (unfold st; destruct (a >? b); lia).
  destruct (new_range_fields a b _ Hs) as (Es & Ee & Est). fold r in Es, Ee, Est.
  assert (Hdir : (a <= b /\ st = 1) \/ (b < a /\ st = -1)).
  { unfold st. rewrite Z.gtb_ltb. destruct (Z.ltb_spec b a); lia. }
  destruct (single_block_answers (plain_text a b) r Hwf)
    as (A1 & A2 & A3 & A4 & A5 & A6 & A7 & A8).
  rewrite Hcnt, Es, Est in *.
  assert (Hgrid : forall v, on_grid r v <-> (a <= v <= b \/ b <= v <= a)).
  { intros v. unfold on_grid. rewrite Es, Ee, Est. split.
    - intros [k [_ [_ Hr]]]. exact Hr.
    - intros Hr. exists (Z.abs (v - a)). split; [lia|]. split; [lia | exact Hr]. }
  repeat split; try assumption.
  - lia.
  - intros C. apply Hgrid. apply A6. exact C.
  - intros C. apply A6. apply Hgrid. exact C.
  - intros v Hv. destruct (A7 v) as [k [Hk [E Ei]]]; [apply Hgrid; exact Hv|]. lia.
  - intros v Hv. apply A8. intros G. apply Hv. apply Hgrid. exact G.
Qed.

(** * Part 3: astronomical ranges, evaluated.  Each of these enumerates
    nothing: 10^18 / 7 frames could not be walked. *)

Definition fs_of (s : string) : frameset :=
  match new_frameset (s2b s) with Ok f => f | _ => mkFS [] [] end.

Definition huge_up : string := "1-1000000000000000000x7".
Definition huge_down : string := "9000000000000000000--9000000000000000000x-1000003".
Definition huge_plain : string := "-9223372036854775808-9223372036854775807".

Example huge_up_text : s2b huge_up = stepped_text 1 1000000000000000000 7.
Proof. vm_compute. reflexivity. Qed.

Example huge_up_parses :
  new_frameset (s2b huge_up) = Ok (mkFS (s2b huge_up) [mkR 1 1000000000000000000 7]).
Proof. vm_compute. reflexivity. Qed.

Example huge_up_len : fs_len (fs_of huge_up) = 142857142857142858.
Proof. vm_compute. reflexivity. Qed.

Example huge_up_start_end :
  fs_start (fs_of huge_up) = 1 /\ fs_end (fs_of huge_up) = 1000000000000000000.
Proof. vm_compute. split; reflexivity. Qed.

Example huge_up_frame : fs_frame (fs_of huge_up) 100000000000000000 = Some 700000000000000001.
Proof. vm_compute. reflexivity. Qed.

Example huge_up_frame_last :
  fs_frame (fs_of huge_up) 142857142857142857 = Some 1000000000000000000 /\
  fs_frame (fs_of huge_up) 142857142857142858 = None /\
  fs_frame (fs_of huge_up) (-1) = None.
Proof. vm_compute. repeat split; reflexivity. Qed.

Example huge_up_index : fs_index (fs_of huge_up) 700000000000000001 = 100000000000000000.
Proof. vm_compute. reflexivity. Qed.

Example huge_up_index_off_grid :
  fs_index (fs_of huge_up) 700000000000000002 = -1 /\
  fs_index (fs_of huge_up) 1000000000000000008 = -1.
Proof. vm_compute. split; reflexivity. Qed.

Example huge_up_has :
  fs_has_frame (fs_of huge_up) 700000000000000001 = true /\
  fs_has_frame (fs_of huge_up) 700000000000000002 = false /\
  fs_has_frame (fs_of huge_up) 1000000000000000000 = true /\
  fs_has_frame (fs_of huge_up) 1000000000000000007 = false /\
  fs_has_frame (fs_of huge_up) 0 = false.
Proof. vm_compute. repeat split; reflexivity. Qed.

(** descending, negative end, negative step text *)
Example huge_down_text :
  s2b huge_down = stepped_text 9000000000000000000 (-9000000000000000000) (-1000003).
Proof. vm_compute. reflexivity. Qed.

Example huge_down_parses :
  new_frameset (s2b huge_down) =
  Ok (mkFS (s2b huge_down) [mkR 9000000000000000000 (-9000000000000000000) (-1000003)]).
Proof. vm_compute. reflexivity. Qed.

Example huge_down_len : fs_len (fs_of huge_down) = 17999946000162.
Proof. vm_compute. reflexivity. Qed.

Example huge_down_end : fs_end (fs_of huge_down) = 9000000000000000000 - 1000003 * 17999946000161.
Proof. vm_compute. reflexivity. Qed.

Example huge_down_frame :
  fs_frame (fs_of huge_down) 9000000000000 = Some (9000000000000000000 - 1000003 * 9000000000000) /\
  fs_frame (fs_of huge_down) 17999946000161 = Some (9000000000000000000 - 1000003 * 17999946000161) /\
  fs_frame (fs_of huge_down) 17999946000162 = None.
Proof. vm_compute. repeat split; reflexivity. Qed.

Example huge_down_index :
  fs_index (fs_of huge_down) (9000000000000000000 - 1000003 * 9000000000000) = 9000000000000 /\
  fs_index (fs_of huge_down) (9000000000000000000 - 1000003 * 9000000000000 - 1) = -1.
Proof. vm_compute. split; reflexivity. Qed.

Example huge_down_has :
  fs_has_frame (fs_of huge_down) (9000000000000000000 - 1000003 * 12345678901234) = true /\
  fs_has_frame (fs_of huge_down) (9000000000000000000 - 1000003 * 12345678901234 + 1) = false /\
  fs_has_frame (fs_of huge_down) (-9000000000000000000) = false.
Proof. vm_compute. repeat split; reflexivity. Qed.

(** the whole int64 line as a plain range: 2^64 frames *)
Example huge_plain_text : s2b huge_plain = plain_text int_min int_max.
Proof. vm_compute. reflexivity. Qed.

Example huge_plain_answers :
  fs_len (fs_of huge_plain) = 2 ^ 64 /\
  fs_frame (fs_of huge_plain) (2 ^ 63) = Some 0 /\
  fs_frame (fs_of huge_plain) (2 ^ 64 - 1) = Some int_max /\
  fs_frame (fs_of huge_plain) (2 ^ 64) = None /\
  fs_index (fs_of huge_plain) 0 = 2 ^ 63 /\
  fs_has_frame (fs_of huge_plain) (-1) = true.
Proof. vm_compute. repeat split; reflexivity. Qed.

(** the same numbers, from the theorems (no evaluation of the range functions) *)
Example huge_up_by_theorem : exists f, new_frameset (s2b huge_up) = Ok f /\
  fs_len f = 142857142857142858 /\ fs_frame f 100000000000000000 = Some 700000000000000001 /\
  fs_index f 700000000000000001 = 100000000000000000.
Proof.
  destruct (stepped_range_answers 1 1000000000000000000 7 eq_refl eq_refl eq_refl ltac:(lia))
    as (f & Hf & Hlen & _ & _ & Hfr & _ & Hidx & _).
  rewrite <- huge_up_text in Hf. exists f. split; [exact Hf|].
  split; [rewrite Hlen; reflexivity|]. split.
  - rewrite (Hfr 100000000000000000) by (vm_compute; split; congruence). reflexivity.
  - change 700000000000000001 with (1 + dir_step 1 1000000000000000000 7 * 100000000000000000).
    apply Hidx. vm_compute. split; congruence.
Qed.

Print Assumptions plain_range_one_block.
Print Assumptions stepped_range_one_block.
Print Assumptions single_block_answers.
Print Assumptions plain_count.
Print Assumptions stepped_count.
Print Assumptions stepped_range_answers.
Print Assumptions plain_range_answers.
