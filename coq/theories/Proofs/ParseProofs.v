(** End-to-end correctness of the frame-range parser model ([new_frameset])
    against the independent specification of the shorthand ([spec_frames]). *)
From GFS Require Import Base Dec Regex GenRegex GenPadTables Ranges Pad FrameSet SpecRange SpecRanges RegexKit RangeRegex DecProofs RangeBasics AppendProofs.
Local Open Scope Z_scope.

(** * stage 1: ignored characters *)

Lemma all_chars_eq : all_chars = [[35%nat]; [64%nat]].
Proof. reflexivity. Qed.

Theorem strip_pad_and_space_strip : forall s, strip_pad_and_space s = strip s.
Proof.
  intros s. unfold strip_pad_and_space. rewrite all_chars_eq.
  cbn [fold_left strip_key]. unfold remove_byte, strip, ignored, c_space.
  induction s as [|a s IH]; [reflexivity|].
  cbn [filter].
  destruct (Nat.eqb a 35) eqn:E35; cbn [negb].
  - rewrite orb_true_r. cbn [orb negb]. exact IH.
  - cbn [filter]. destruct (Nat.eqb a 64) eqn:E64; cbn [negb].
    + rewrite orb_true_r. cbn [negb]. exact IH.
    + cbn [filter]. destruct (Nat.eqb a 32) eqn:E32; cbn [negb orb].
      * exact IH.
      * f_equal. exact IH.
Qed.

(** * stage 2: splitting on commas *)

Lemma split_on_nonempty : forall c s, split_on c s <> [].
Proof.
  intros c s. destruct s as [|x r]; cbn [split_on]; [discriminate|].
  destruct (Nat.eqb x c); [discriminate|].
  destruct (split_on c r); discriminate.
Qed.

Lemma split_commas_acc : forall t cur,
  split_commas t cur =
  match split_on c_comma t with
  | h :: tl => (rev cur ++ h) :: tl
  | [] => []
  end.
Proof.
  unfold c_comma.
  intros t. induction t as [|c r IH]; intros cur.
  - cbn [split_commas split_on]. rewrite app_nil_r. reflexivity.
  - cbn [split_commas split_on]. destruct (Nat.eqb c 44).
    + rewrite app_nil_r. f_equal. rewrite IH. cbn [rev app].
      pose proof (split_on_nonempty 44%nat r) as N.
      destruct (split_on 44%nat r) as [|h tl]; [congruence | reflexivity].
    + rewrite IH. pose proof (split_on_nonempty 44%nat r) as N.
      destruct (split_on 44%nat r) as [|h tl]; [congruence|].
      cbn [rev]. rewrite <- app_assoc. reflexivity.
Qed.

Theorem split_on_split_commas : forall t, split_on c_comma t = split_commas t [].
Proof.
  intros t. rewrite split_commas_acc.
  pose proof (split_on_nonempty c_comma t) as N.
  destruct (split_on c_comma t) as [|h tl]; [congruence | reflexivity].
Qed.

(** * stage 3: one component *)

(** [texts_comp] of AppendProofs without the range check *)
Definition texts_comp_big (mt : list bytes) : option comp :=
  match mt with
  | [a] => match atoi_big a with Some za => Some (CSingle za) | None => None end
  | [a; b] => match atoi_big a, atoi_big b with Some za, Some zb => Some (CRange za zb) | _, _ => None end
  | [a; b; [md]; n] =>
    match atoi_big a, atoi_big b, atoi_big n with
    | Some za, Some zb, Some zn => Some (CStep za zb md zn)
    | _, _, _ => None
    end
  | _ => None
  end.

(** what [tcomp] produces: numerals and one of the three modifiers *)
Definition good_texts (mt : list bytes) : Prop :=
  match mt with
  | [a] => numeral a
  | [a; b] => numeral a /\ numeral b
  | [a; b; [md]; n] =>
    numeral a /\ numeral b /\ numeral n /\ (md = 120%nat \/ md = 121%nat \/ md = 58%nat)
  | _ => False
  end.

Lemma span_firstn_S : forall s k, span_len is_digit s = S k ->
  firstn (S k) s <> [] /\ all_digits (firstn (S k) s).
Proof.
  intros s k H. split.
  - rewrite <- H. eapply span_firstn_nonempty. exact H.
  - rewrite <- H. apply span_digits.
Qed.

Lemma num_len_numeral : forall s n, num_len s = S n -> numeral (firstn (S n) s).
Proof.
  intros s n H. rewrite num_len_eq in H. destruct s as [|c r]; [discriminate|].
  destruct (Nat.eqb_spec c 45) as [->|Hc].
  - destruct (span_len is_digit r) as [|k] eqn:E; [discriminate|].
    injection H as <-. cbn [firstn]. apply numeral_neg. apply span_firstn_S. exact E.
  - destruct (span_firstn_S _ _ H) as [A B]. apply numeral_digits; assumption.
Qed.

Lemma numeral_atoi_big : forall t, numeral t -> exists v, atoi_big t = Some v.
Proof. intros t H. eexists. apply atoi_big_numeral. exact H. Qed.

Lemma parse_comp_eq : forall s, parse_comp s =
  match read_int s with
  | None => None
  | Some (a, r1) =>
    match r1 with
    | [] => Some (CSingle a)
    | c :: r2 =>
      if Nat.eqb c 45 then
        match read_int r2 with
        | None => None
        | Some (b, r3) =>
          match r3 with
          | [] => Some (CRange a b)
          | md :: r4 =>
            if is_mod md then
              match read_int r4 with
              | Some (n, []) => Some (CStep a b md n)
              | _ => None
              end
            else None
          end
        end
      else None
    end
  end.
Proof.
  intros s. unfold parse_comp.
  destruct (read_int s) as [[a r1]|]; [|reflexivity].
  destruct r1 as [|c r2]; [reflexivity|].
  do 45 (destruct c as [|c]; [reflexivity|]).
  destruct c as [|c]; reflexivity.
Qed.

Lemma is_mod_eq : forall md,
  is_mod md = (Nat.eqb md 58 || Nat.eqb md 120 || Nat.eqb md 121)%bool.
Proof.
  intros md. unfold is_mod.
  destruct (Nat.eqb md 58), (Nat.eqb md 120), (Nat.eqb md 121); reflexivity.
Qed.

Lemma mod_cases : forall md,
  (Nat.eqb md 58 || Nat.eqb md 120 || Nat.eqb md 121)%bool = true ->
  md = 120%nat \/ md = 121%nat \/ md = 58%nat.
Proof.
  intros md H.
  destruct (Nat.eqb_spec md 58); [tauto|].
  destruct (Nat.eqb_spec md 120); [tauto|].
  destruct (Nat.eqb_spec md 121); [tauto|]. discriminate.
Qed.

(** the spec's recursive-descent reader and the regex-free reading of the
    implementation's patterns agree on every string *)
Lemma read_int_O : forall s, num_len s = O -> read_int s = None.
Proof. intros s H. rewrite read_int_num_len, H. reflexivity. Qed.

Lemma read_int_S : forall s n, num_len s = S n ->
  exists v, atoi_big (firstn (S n) s) = Some v /\ read_int s = Some (v, skipn (S n) s).
Proof.
  intros s n H. destruct (numeral_atoi_big _ (num_len_numeral _ _ H)) as [v E].
  exists v. split; [exact E|]. rewrite read_int_num_len, H. cbv zeta. rewrite E. reflexivity.
Qed.

Theorem parse_comp_tcomp : forall p,
  parse_comp p = match tcomp p with Some t => texts_comp_big t | None => None end.
Proof.
  intros p. rewrite parse_comp_eq, tcomp_eq.
  destruct (num_len p) as [|n1] eqn:E1; [rewrite (read_int_O _ E1); reflexivity|].
  destruct (read_int_S _ _ E1) as [va [Ea Ra]]. rewrite Ra.
  destruct (skipn (S n1) p) as [|c r2]; [cbn [texts_comp_big]; rewrite Ea; reflexivity|].
  destruct (Nat.eqb c 45); [|reflexivity].
  destruct (num_len r2) as [|n2] eqn:E2; [rewrite (read_int_O _ E2); reflexivity|].
  destruct (read_int_S _ _ E2) as [vb [Eb Rb]]. rewrite Rb.
  destruct (skipn (S n2) r2) as [|md r3];
    [cbn [texts_comp_big]; rewrite Ea, Eb; reflexivity|].
  rewrite is_mod_eq.
  destruct (Nat.eqb md 58 || Nat.eqb md 120 || Nat.eqb md 121)%bool; [|reflexivity].
  destruct (num_len r3) as [|n3] eqn:E3; [rewrite (read_int_O _ E3); reflexivity|].
  destruct (read_int_S _ _ E3) as [vn [En Rn]]. rewrite Rn.
  destruct (skipn (S n3) r3) as [|x r4]; [|reflexivity].
  cbn [texts_comp_big]. rewrite Ea, Eb, En. reflexivity.
Qed.

Theorem tcomp_good : forall p t, tcomp p = Some t -> good_texts t.
Proof.
  intros p t. rewrite tcomp_eq.
  destruct (num_len p) as [|n1] eqn:E1; [discriminate|].
  pose proof (num_len_numeral _ _ E1) as Na.
  destruct (skipn (S n1) p) as [|c r2]; [intros H; injection H as <-; exact Na|].
  destruct (Nat.eqb c 45); [|discriminate].
  destruct (num_len r2) as [|n2] eqn:E2; [discriminate|].
  pose proof (num_len_numeral _ _ E2) as Nb.
  destruct (skipn (S n2) r2) as [|md r3]; [intros H; injection H as <-; split; assumption|].
  destruct (Nat.eqb md 58 || Nat.eqb md 120 || Nat.eqb md 121)%bool eqn:Em; [|discriminate].
  destruct (num_len r3) as [|n3] eqn:E3; [discriminate|].
  pose proof (num_len_numeral _ _ E3) as Nn.
  destruct (skipn (S n3) r3) as [|x r4]; [|discriminate].
  intros H; injection H as <-. cbn [good_texts].
  repeat split; try assumption. apply mod_cases. exact Em.
Qed.

Definition mod_ok (c : comp) : Prop :=
  match c with
  | CStep _ _ md _ => md = 120%nat \/ md = 121%nat \/ md = 58%nat
  | _ => True
  end.

Lemma good_texts_big : forall t, good_texts t ->
  exists c, texts_comp_big t = Some c /\ mod_ok c.
Proof.
  intros t G.
  destruct t as [|a [|b [|m [|n [|x r]]]]]; cbn [good_texts] in G; try contradiction.
  - destruct (numeral_atoi_big _ G) as [va Ea].
    eexists. cbn [texts_comp_big]. rewrite Ea. split; [reflexivity | exact I].
  - destruct G as [Ga Gb].
    destruct (numeral_atoi_big _ Ga) as [va Ea]. destruct (numeral_atoi_big _ Gb) as [vb Eb].
    eexists. cbn [texts_comp_big]. rewrite Ea, Eb. split; [reflexivity | exact I].
  - destruct m as [|md [|md2 m']]; contradiction.
  - destruct m as [|md [|md2 m']]; try contradiction.
    destruct G as [Ga [Gb [Gn Gm]]].
    destruct (numeral_atoi_big _ Ga) as [va Ea]. destruct (numeral_atoi_big _ Gb) as [vb Eb].
    destruct (numeral_atoi_big _ Gn) as [vn En].
    eexists. cbn [texts_comp_big]. rewrite Ea, Eb, En. split; [reflexivity | exact Gm].
  - destruct m as [|md [|md2 m']]; contradiction.
Qed.

(** * stage 4: the range check *)

Theorem texts_comp_fits : forall t,
  texts_comp t =
  match texts_comp_big t with
  | Some c => if comp_fits c then Some c else None
  | None => None
  end.
Proof.
  intros t.
  destruct t as [|a [|b [|m [|n [|x r]]]]]; try reflexivity.
  - cbn [texts_comp texts_comp_big]. unfold atoi.
    destruct (atoi_big a) as [va|]; [|reflexivity].
    cbn [comp_fits]. destruct (fits_int va); reflexivity.
  - cbn [texts_comp texts_comp_big]. unfold atoi.
    destruct (atoi_big a) as [va|]; [|reflexivity].
    destruct (atoi_big b) as [vb|]; [|destruct (fits_int va); reflexivity].
    cbn [comp_fits]. destruct (fits_int va), (fits_int vb); reflexivity.
  - destruct m as [|md [|md2 m']]; reflexivity.
  - destruct m as [|md [|md2 m']]; try reflexivity.
    cbn [texts_comp texts_comp_big]. unfold atoi.
    destruct (atoi_big a) as [va|]; [|reflexivity].
    destruct (atoi_big b) as [vb|]; [|destruct (fits_int va); reflexivity].
    destruct (atoi_big n) as [vn|];
      [|destruct (fits_int va), (fits_int vb); reflexivity].
    cbn [comp_fits]. destruct (fits_int va), (fits_int vb), (fits_int vn); reflexivity.
  - destruct m as [|md [|md2 m']]; reflexivity.
Qed.

(** * stage 5: all components *)

Definition part_rel (mt : list bytes) (c : comp) : Prop :=
  texts_comp_big mt = Some c /\ mod_ok c.

(** the regex stage and the spec's recogniser accept the same part lists *)
Theorem match_parts_parse_comps : forall parts,
  (exists ms cs, match_parts parts = Ok ms /\ parse_comps parts = Some cs /\
                 Forall2 part_rel ms cs) \/
  (exists e, match_parts parts = Err e /\ parse_comps parts = None).
Proof.
  intros parts. induction parts as [|p r IH].
  - left. exists [], []. repeat split. constructor.
  - cbn [match_parts parse_comps]. rewrite match_part_char, parse_comp_tcomp.
    destruct (tcomp p) as [t|] eqn:Et.
    + destruct (good_texts_big t (tcomp_good _ _ Et)) as [c [Ec Hm]]. rewrite Ec.
      destruct IH as [[ms [cs [H1 [H2 H3]]]]|[e [H1 H2]]].
      * left. exists (t :: ms), (c :: cs). rewrite H1, H2. cbn [bind].
        repeat split. constructor; [split; assumption | exact H3].
      * right. exists e. rewrite H1, H2. split; reflexivity.
    + right. exists E_PARSE. split; reflexivity.
Qed.

(** [match_parts] in terms of [tcomp] *)
Corollary match_parts_ok_iff : forall parts ms,
  match_parts parts = Ok ms <-> Forall2 (fun p mt => tcomp p = Some mt) parts ms.
Proof.
  intros parts. induction parts as [|p r IH]; intros ms.
  - cbn [match_parts]. split.
    + intros H. injection H as <-. constructor.
    + intros H. inversion H. reflexivity.
  - cbn [match_parts]. rewrite match_part_char. split.
    + intros H. destruct (tcomp p) as [t|] eqn:Et; [|discriminate].
      destruct (match_parts r) as [rest| | |] eqn:Er; cbn [bind] in H; try discriminate.
      injection H as <-. constructor; [exact Et|]. apply IH. reflexivity.
    + intros H. inversion H as [|p' mt r' ms' Hp Hr]; subst. rewrite Hp.
      apply IH in Hr. rewrite Hr. reflexivity.
Qed.

(** the second stage: appending component after component *)
Theorem handle_matches_denote : forall ms cs, Forall2 part_rel ms cs ->
  forall bl, WF bl ->
  if (forallb comp_fits cs && forallb comp_nonzero cs)%bool then
    exists bl', handle_matches bl ms = Ok bl' /\ WF bl' /\
                enum_all bl' = enum_all bl ++ dedup_first (flat_map expand cs) (enum_all bl)
  else exists e, handle_matches bl ms = Err e.
Proof.
  intros ms cs HF. induction HF as [|mt c ms cs [Hb Hm] HF IH]; intros bl HWF.
  - cbn [forallb andb]. exists bl. split; [reflexivity|]. split; [exact HWF|].
    cbn [flat_map dedup_first]. rewrite app_nil_r. reflexivity.
  - cbn [forallb handle_matches].
    pose proof (texts_comp_fits mt) as Ht. rewrite Hb in Ht.
    destruct (comp_fits c) eqn:Ef.
    + pose proof (handle_match_spec bl mt c HWF Ht Hm) as H1.
      destruct (comp_nonzero c) eqn:En.
      * destruct H1 as [bl1 [Hm1 [HWF1 He1]]]. rewrite Hm1. cbn [bind andb].
        specialize (IH bl1 HWF1).
        destruct (forallb comp_fits cs && forallb comp_nonzero cs)%bool.
        -- destruct IH as [bl2 [Hm2 [HWF2 He2]]]. exists bl2.
           split; [exact Hm2|]. split; [exact HWF2|]. cbn [flat_map].
           apply (dedup_chain _ _ _ _ _ He1 He2).
        -- exact IH.
      * destruct H1 as [e He]. rewrite He. cbn [bind andb].
        rewrite andb_false_r. exists e. reflexivity.
    + destruct (handle_match_err bl mt Ht) as [e He]. rewrite He. cbn [bind andb].
      exists e. reflexivity.
Qed.

(** * the main theorem *)

Theorem parse_denotes : forall s,
  match new_frameset s with
  | Ok f => spec_frames s = Some (fs_frames f) /\ fs_range f = s
  | Err _ => spec_frames s = None
  | Panic _ => False
  | OutOfFuel => False
  end.
Proof.
  intros s. unfold new_frameset, frame_range_matches, spec_frames, gparse.
  rewrite strip_pad_and_space_strip, split_on_split_commas.
  destruct (match_parts_parse_comps (split_commas (strip s) []))
    as [[ms [cs [H1 [H2 H3]]]]|[e [H1 H2]]]; rewrite H1, H2; cbn [bind]; [|reflexivity].
  pose proof (handle_matches_denote ms cs H3 [] WF_nil) as H.
  destruct (forallb comp_fits cs && forallb comp_nonzero cs)%bool.
  - destruct H as [bl [Hm [HWF He]]]. rewrite Hm. cbn [bind]. split; [|reflexivity].
    unfold fs_frames. cbn [fs_blocks].
    rewrite (rs_iter_enum_all _ (proj1 HWF)), He. reflexivity.
  - destruct H as [e He]. rewrite He. reflexivity.
Qed.

Corollary is_frame_range_iff : forall s,
  is_frame_range s = true <-> (exists l, spec_frames s = Some l).
Proof.
  intros s. unfold is_frame_range. pose proof (parse_denotes s) as H.
  destruct (new_frameset s) as [f|e|n|]; cbn [is_ok]; try contradiction.
  - destruct H as [H _]. split; [intros _; eexists; exact H | reflexivity].
  - rewrite H. split; [discriminate | intros [l Hl]; discriminate].
Qed.

Corollary is_frame_range_parser : forall s,
  is_frame_range s = true <-> (exists f, new_frameset s = Ok f).
Proof.
  intros s. unfold is_frame_range.
  destruct (new_frameset s) as [f|e|n|]; cbn [is_ok];
    (split; [intros H; try discriminate; eexists; reflexivity
            | intros [f' Hf]; try discriminate; reflexivity]).
Qed.

Print Assumptions parse_denotes.
Print Assumptions is_frame_range_iff.
Print Assumptions is_frame_range_parser.
