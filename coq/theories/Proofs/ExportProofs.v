(** The reference-counting protocol of the cgo handle tables
    (/repo/exp/cpp/export/storage.go; model: Model/Export.v; translated
    programs: Gen/GenStorage.v) holds for every interleaving.

    Contents
    1. [gen_programs_match]: the programs gfsgen translated from storage.go
       are the programs of the model.
    2. The id generator, bit level: [xor64_range], [xor64_nonzero],
       [xor64_injective].
    3.-4. Lists, the map, sums; what [wstep] does, case by case.
    5. Ghost ownership on top of the model: [gworld] = world + [gw_owns]
       (thread -> slot -> references held) + [gw_cur] (operation in flight);
       [gstep]; the discipline [allowedb]; [disciplined_g] / [disciplined].
       A ghost schedule interleaves scheduler steps [GStep i] with hand-overs
       [GGive t u k] (thread t passes one of its references to thread u
       between two of its operations).  Hand-overs do not exist in the model
       (they do not touch [gw_w]); they are what lets two threads share a
       handle: the model's operations alone never give a thread a reference
       to a handle another thread created.
    6. The inductive invariant [InvC] / [Inv]: [Inv_init], [Inv_step].
    7. [refcount_invariant], [pending_removal_removes],
       [released_means_removed], [owner_lookup_succeeds], [stale_is_noop],
       and their corollaries for [frameset_progs] / [fileseq_progs].
    8. Non-vacuity examples.

    The only assumption is the section hypothesis [xor64_orbit_distinct]
    (Marsaglia's full-period claim, as far as the run needs it); it is an
    explicit premise [orbit_distinct seed (count_adds threads)] of the closed
    theorems.  Everything is "Closed under the global context". *)
From GFS Require Import Base Export GenStorage.
Local Open Scope Z_scope.

(* ------------------------------------------------------------------ *)
(** * 1. The tie to the source *)

Theorem gen_programs_match :
  frameset_progs = expected_progs /\ fileseq_progs = expected_progs.
Proof. split; reflexivity. Qed.

(* ------------------------------------------------------------------ *)
(** * 2. The id generator, bit level *)

Lemma small_iff_mod : forall n x, 0 <= n -> (0 <= x < 2 ^ n <-> x mod 2 ^ n = x).
Proof.
  intros n x Hn; split; intro H.
  - apply Z.mod_small; exact H.
  - rewrite <- H. apply Z.mod_pos_bound. apply Z.pow_pos_nonneg; lia.
Qed.

Lemma testbit_high : forall n x i, 0 <= n -> 0 <= x < 2 ^ n -> n <= i -> Z.testbit x i = false.
Proof.
  intros n x i Hn Hx Hi.
  apply (small_iff_mod n x Hn) in Hx. rewrite <- Hx.
  apply Z.mod_pow2_bits_high; lia.
Qed.

Lemma lxor_range : forall n a b, 0 <= n -> 0 <= a < 2 ^ n -> 0 <= b < 2 ^ n -> 0 <= Z.lxor a b < 2 ^ n.
Proof.
  intros n a b Hn Ha Hb. apply small_iff_mod; [exact Hn|].
  apply Z.bits_inj'. intros i Hi.
  destruct (Z_lt_le_dec i n) as [Hlt|Hge].
  - rewrite Z.mod_pow2_bits_low by lia. reflexivity.
  - rewrite Z.mod_pow2_bits_high by lia.
    rewrite Z.lxor_spec, (testbit_high n a i), (testbit_high n b i) by assumption. reflexivity.
Qed.

Lemma shl_range : forall n a x, 0 <= n -> 0 <= (x * 2 ^ a) mod 2 ^ n < 2 ^ n.
Proof. intros. apply Z.mod_pos_bound. apply Z.pow_pos_nonneg; lia. Qed.

Lemma shr_range : forall n b x, 0 <= b -> 0 <= x < 2 ^ n -> 0 <= x / 2 ^ b < 2 ^ n.
Proof.
  intros n b x Hb Hx.
  assert (0 < 2 ^ b) by (apply Z.pow_pos_nonneg; lia).
  split. apply Z.div_pos; lia.
  apply Z.le_lt_trans with x; [|lia]. apply Z.div_le_upper_bound; nia.
Qed.

(** the two kinds of xorshift step on [n]-bit values *)
Definition stepL (n a x : Z) : Z := Z.lxor x ((x * 2 ^ a) mod 2 ^ n).
Definition stepR (b x : Z) : Z := Z.lxor x (x / 2 ^ b).

Lemma stepL_bit : forall n a x i, 0 < a -> 0 <= i < n ->
  Z.testbit (stepL n a x) i = xorb (Z.testbit x i) (Z.testbit x (i - a)).
Proof.
  intros. unfold stepL. rewrite Z.lxor_spec, Z.mod_pow2_bits_low by lia.
  rewrite Z.mul_pow2_bits by lia. reflexivity.
Qed.

Lemma stepR_bit : forall b x i, 0 < b -> 0 <= i ->
  Z.testbit (stepR b x) i = xorb (Z.testbit x i) (Z.testbit x (i + b)).
Proof.
  intros. unfold stepR. rewrite Z.lxor_spec, Z.div_pow2_bits by lia. reflexivity.
Qed.

Lemma xorb_cancel_r : forall a b c, xorb a c = xorb b c -> a = b.
Proof. destruct a, b, c; simpl; congruence. Qed.

(** [x ^ (x << a)] determines [x]: recover the bits from the low end *)
Lemma stepL_inj : forall n a x y, 0 <= n -> 0 < a -> 0 <= x < 2 ^ n -> 0 <= y < 2 ^ n ->
  stepL n a x = stepL n a y -> x = y.
Proof.
  intros n a x y Hn Ha Hx Hy E.
  apply Z.bits_inj'. intros i Hi. revert i Hi.
  apply (Zlt_0_ind (fun i => Z.testbit x i = Z.testbit y i)).
  intros i IH Hi.
  destruct (Z_lt_le_dec i n) as [Hlt|Hge].
  - assert (B : Z.testbit (stepL n a x) i = Z.testbit (stepL n a y) i) by (rewrite E; reflexivity).
    rewrite !stepL_bit in B by lia.
    destruct (Z_lt_le_dec (i - a) 0) as [Hneg|Hpos].
    + rewrite (Z.testbit_neg_r x (i - a)), (Z.testbit_neg_r y (i - a)) in B by lia.
      apply xorb_cancel_r in B. exact B.
    + rewrite (IH (i - a)) in B by lia. apply xorb_cancel_r in B. exact B.
  - rewrite (testbit_high n x i), (testbit_high n y i) by assumption. reflexivity.
Qed.

(** [x ^ (x >> b)] determines [x]: recover the bits from the high end *)
Lemma stepR_inj : forall n b x y, 0 <= n -> 0 < b -> 0 <= x < 2 ^ n -> 0 <= y < 2 ^ n ->
  stepR b x = stepR b y -> x = y.
Proof.
  intros n b x y Hn Hb Hx Hy E.
  assert (K : forall m : nat, forall i, 0 <= i -> n - Z.of_nat m <= i -> Z.testbit x i = Z.testbit y i).
  { induction m as [|m IH]; intros i Hi Hm.
    - rewrite (testbit_high n x i), (testbit_high n y i) by (try assumption; lia). reflexivity.
    - assert (B : Z.testbit (stepR b x) i = Z.testbit (stepR b y) i) by (rewrite E; reflexivity).
      rewrite !stepR_bit in B by lia.
      rewrite (IH (i + b)) in B by lia. apply xorb_cancel_r in B. exact B. }
  apply Z.bits_inj'. intros i Hi. apply (K (Z.to_nat n) i Hi). lia.
Qed.

Lemma xor64_steps : forall x, xor64 x = stepL 64 17 (stepR 7 (stepL 64 13 x)).
Proof. reflexivity. Qed.

Lemma stepL_range : forall n a x, 0 <= n -> 0 <= x < 2 ^ n -> 0 <= stepL n a x < 2 ^ n.
Proof. intros. apply lxor_range; auto. apply shl_range; auto. Qed.
Lemma stepR_range : forall n b x, 0 <= n -> 0 <= b -> 0 <= x < 2 ^ n -> 0 <= stepR b x < 2 ^ n.
Proof. intros. apply lxor_range; auto. apply shr_range; auto. Qed.

(** the generator stays inside the 64-bit values *)
Theorem xor64_range : forall x, 0 <= x < two64 -> 0 <= xor64 x < two64.
Proof.
  intros x Hx. rewrite xor64_steps. unfold two64 in *.
  apply stepL_range; [lia|]. apply stepR_range; [lia|lia|]. apply stepL_range; [lia|exact Hx].
Qed.

(** the generator is injective on the 64-bit values *)
Theorem xor64_injective : forall x y, 0 <= x < two64 -> 0 <= y < two64 -> xor64 x = xor64 y -> x = y.
Proof.
  intros x y Hx Hy E. rewrite !xor64_steps in E. unfold two64 in *.
  apply stepL_inj in E; try lia.
  - apply stepR_inj with (n := 64) in E; try lia.
    + apply stepL_inj in E; try lia; assumption.
    + apply stepL_range; [lia|assumption].
    + apply stepL_range; [lia|assumption].
  - apply stepR_range; [lia|lia|]. apply stepL_range; [lia|assumption].
  - apply stepR_range; [lia|lia|]. apply stepL_range; [lia|assumption].
Qed.

(** a non-zero state never produces the id 0 *)
Theorem xor64_nonzero : forall x, 0 < x < two64 -> xor64 x <> 0.
Proof.
  intros x Hx E.
  assert (x = 0); [|lia].
  apply xor64_injective; [lia|unfold two64; lia|]. rewrite E. reflexivity.
Qed.

Lemma xor64_pos_range : forall x, 0 < x < two64 -> 0 < xor64 x < two64.
Proof.
  intros x Hx. pose proof (xor64_range x ltac:(lia)). pose proof (xor64_nonzero x Hx). lia.
Qed.

(* ------------------------------------------------------------------ *)
(** * 3. Lists, the map, sums *)

Lemma length_set_nth : forall {A} (l : list A) i v, List.length (set_nth l i v) = List.length l.
Proof. intros A l; induction l; destruct i; simpl; auto. Qed.

Lemma nth_error_set_nth_eq : forall {A} (l : list A) i v,
  (i < List.length l)%nat -> nth_error (set_nth l i v) i = Some v.
Proof. intros A l; induction l; destruct i; simpl; intros; try lia; auto. apply IHl; lia. Qed.

Lemma nth_error_set_nth_neq : forall {A} (l : list A) i j v,
  j <> i -> nth_error (set_nth l i v) j = nth_error l j.
Proof. intros A l; induction l; destruct i, j; simpl; intros; try congruence; auto. Qed.

Lemma length_upd_nth : forall l c v, List.length (upd_nth l c v) = List.length l.
Proof. induction l; destruct c; simpl; auto. Qed.

Lemma nth_upd_nth_eq : forall l c v, (c < List.length l)%nat -> nth c (upd_nth l c v) 0 = v.
Proof. induction l; destruct c; simpl; intros; try lia; auto. apply IHl; lia. Qed.

Lemma nth_upd_nth_neq : forall l c k v, k <> c -> nth k (upd_nth l c v) 0 = nth k l 0.
Proof. induction l; destruct c, k; simpl; intros; try congruence; auto. Qed.

Lemma nth_app_last : forall (l : list Z) x, nth (List.length l) (l ++ [x]) 0 = x.
Proof. intros. rewrite app_nth2 by lia. rewrite Nat.sub_diag. reflexivity. Qed.

Lemma NoDup_snoc : forall {A} (l : list A) x, NoDup l -> ~ In x l -> NoDup (l ++ [x]).
Proof.
  induction l; simpl; intros x Hn Hx.
  - constructor; [intros []|constructor].
  - inversion Hn; subst. constructor.
    + rewrite in_app_iff. simpl. intros [H|[H|[]]]; [tauto|subst; tauto].
    + apply IHl; tauto.
Qed.

Lemma map_find_app : forall m h c h',
  map_find (m ++ [(h, c)]) h' =
  match map_find m h' with Some x => Some x | None => if h =? h' then Some c else None end.
Proof.
  induction m as [|[k c0] m IH]; intros; simpl.
  - reflexivity.
  - destruct (k =? h'); [reflexivity|apply IH].
Qed.

Lemma map_find_del : forall m h h',
  map_find (map_del m h) h' = if h =? h' then None else map_find m h'.
Proof.
  induction m as [|[k c0] m IH]; intros; simpl.
  - destruct (h =? h'); reflexivity.
  - destruct (k =? h) eqn:E1; simpl.
    + rewrite IH. destruct (h =? h') eqn:E2; [reflexivity|].
      apply Z.eqb_eq in E1. subst k. rewrite E2. reflexivity.
    + rewrite IH. destruct (h =? h') eqn:E2.
      * apply Z.eqb_eq in E2. subst h'. rewrite E1. reflexivity.
      * reflexivity.
Qed.

Lemma map_find_in : forall m h, In h (map fst m) -> exists c, map_find m h = Some c.
Proof.
  induction m as [|[k c0] m IH]; simpl; intros h H; [tauto|].
  destruct (k =? h) eqn:E; [eauto|]. destruct H as [H|H]; [apply Z.eqb_neq in E; tauto|auto].
Qed.

Lemma map_find_some_in : forall m h c, map_find m h = Some c -> In (h, c) m.
Proof.
  induction m as [|[k c0] m IH]; simpl; intros h c H; [discriminate|].
  destruct (k =? h) eqn:E.
  - apply Z.eqb_eq in E. inversion H; subst. auto.
  - auto.
Qed.

Lemma in_map_fst_del : forall m h x, In x (map fst (map_del m h)) -> In x (map fst m).
Proof.
  intros m h x H. unfold map_del in H. apply in_map_iff in H. destruct H as [[k c] [E H]].
  apply filter_In in H. apply in_map_iff. exists (k, c). tauto.
Qed.

Lemma NoDup_map_fst_del : forall m h, NoDup (map fst m) -> NoDup (map fst (map_del m h)).
Proof.
  induction m as [|[k c0] m IH]; simpl; intros h H; [constructor|].
  inversion H; subst. destruct (k =? h); simpl; [apply IH; assumption|].
  constructor; [|apply IH; assumption].
  intro Hin. apply in_map_fst_del in Hin. tauto.
Qed.

(** sums over the threads *)
Fixpoint sumf (n : nat) (f : nat -> nat) : nat :=
  match n with O => O | S m => (sumf m f + f m)%nat end.

Lemma sumf_ext : forall n f g, (forall t, (t < n)%nat -> f t = g t) -> sumf n f = sumf n g.
Proof. induction n; simpl; intros f g H; auto. rewrite (IHn f g), H; auto. Qed.

Lemma sumf_upd : forall n f g i, (i < n)%nat -> (forall t, t <> i -> g t = f t) ->
  (sumf n g + f i = sumf n f + g i)%nat.
Proof.
  induction n; simpl; intros f g i Hi H; [lia|].
  destruct (Nat.eq_dec i n) as [->|Hne].
  - rewrite (sumf_ext n g f); [lia|]. intros; apply H; lia.
  - rewrite (H n) by auto. specialize (IHn f g i ltac:(lia) H). lia.
Qed.

Lemma sumf_ge : forall n f i, (i < n)%nat -> (f i <= sumf n f)%nat.
Proof.
  induction n; simpl; intros f i Hi; [lia|].
  destruct (Nat.eq_dec i n) as [->|Hne]; [lia|]. specialize (IHn f i ltac:(lia)). lia.
Qed.

Lemma sumf_zero : forall n f, (forall t, (t < n)%nat -> f t = 0%nat) -> sumf n f = 0%nat.
Proof. induction n; simpl; intros f H; auto. rewrite IHn, H; auto. Qed.

(** point updates *)
Definition upd2 (f : nat -> nat -> nat) (i k v : nat) : nat -> nat -> nat :=
  fun t k' => if ((t =? i) && (k' =? k))%nat then v else f t k'.
Definition upd1 {A} (f : nat -> A) (i : nat) (v : A) : nat -> A :=
  fun t => if (t =? i)%nat then v else f t.

Lemma upd2_eq : forall f i k v, upd2 f i k v i k = v.
Proof. intros. unfold upd2. rewrite !Nat.eqb_refl. reflexivity. Qed.
Lemma upd2_neq : forall f i k v t k', t <> i \/ k' <> k -> upd2 f i k v t k' = f t k'.
Proof.
  intros. unfold upd2. destruct (Nat.eqb_spec t i), (Nat.eqb_spec k' k); simpl; auto. lia.
Qed.
Lemma upd1_eq : forall {A} (f : nat -> A) i v, upd1 f i v i = v.
Proof. intros. unfold upd1. rewrite Nat.eqb_refl. reflexivity. Qed.
Lemma upd1_neq : forall {A} (f : nat -> A) i v t, t <> i -> upd1 f i v t = f t.
Proof. intros. unfold upd1. destruct (Nat.eqb_spec t i); auto. lia. Qed.

(** [tot nT owns k]: all references to slot [k] held by the [nT] threads *)
Definition tot (nT : nat) (owns : nat -> nat -> nat) (k : nat) : nat := sumf nT (fun t => owns t k).

Lemma tot_upd2_other : forall nT owns i k v k', k' <> k -> tot nT (upd2 owns i k v) k' = tot nT owns k'.
Proof. intros. unfold tot. apply sumf_ext. intros. apply upd2_neq. auto. Qed.

Lemma tot_upd2_same : forall nT owns i k v, (i < nT)%nat ->
  (tot nT (upd2 owns i k v) k + owns i k = tot nT owns k + v)%nat.
Proof.
  intros. unfold tot.
  rewrite (sumf_upd nT (fun t => owns t k) (fun t => upd2 owns i k v t k) i H).
  - rewrite upd2_eq. reflexivity.
  - intros. apply upd2_neq. auto.
Qed.

Lemma tot_ge : forall nT owns i k, (i < nT)%nat -> (owns i k <= tot nT owns k)%nat.
Proof. intros. unfold tot. apply (sumf_ge nT (fun t => owns t k) i H). Qed.

(** Adds still to be issued *)
Fixpoint adds (ops : list opk) : nat :=
  match ops with [] => O | OAdd :: r => S (adds r) | _ :: r => adds r end.
Definition pending (l : list (thr * list opk)) : nat := list_sum (map (fun to => adds (snd to)) l).
Definition count_adds (threads : list (list opk)) : nat := list_sum (map adds threads).

Lemma pending_set_nth : forall l i t ops t' ops', nth_error l i = Some (t, ops) ->
  (pending (set_nth l i (t', ops')) + adds ops = pending l + adds ops')%nat.
Proof.
  unfold pending. induction l as [|[t0 o0] l IH]; destruct i; simpl; intros; try discriminate.
  - inversion H; subst. lia.
  - specialize (IH i t ops t' ops' H). lia.
Qed.

Lemma pending_init : forall threads,
  pending (map (fun ops => (mkT [] 0 None 0, ops)) threads) = count_adds threads.
Proof.
  unfold pending, count_adds. intros. rewrite map_map. reflexivity.
Qed.

(* ------------------------------------------------------------------ *)
(** * 4. What one scheduler step does, case by case (expected programs) *)

Definition D2 : list instr := [IAtomicAddGet (-1); IRetIfNonZero; ILock; IDeleteIfZero; IUnlock].
Definition D3 : list instr := [ILock; IDeleteIfZero; IUnlock].

Section StepEquations.
Variables (w : world) (i : nat).
Local Notation g := (w_g w).

Lemma wstep_none : nth_error (w_thr w) i = None -> wstep expected_progs w i = w.
Proof. intros H. unfold wstep. rewrite H. reflexivity. Qed.

Lemma wstep_done : forall h c v, nth_error (w_thr w) i = Some (mkT [] h c v, []) ->
  wstep expected_progs w i = w.
Proof. intros h c v H. unfold wstep. rewrite H. reflexivity. Qed.

Lemma wstep_add : forall h c v r, nth_error (w_thr w) i = Some (mkT [] h c v, OAdd :: r) ->
  wstep expected_progs w i =
  mkW (mkG (g_map g ++ [(xor64 (g_rand g), List.length (g_cells g))]) (g_cells g ++ [1]) (xor64 (g_rand g)))
      (set_nth (w_thr w) i (mkT [] (xor64 (g_rand g)) (Some (List.length (g_cells g))) 0, r))
      (w_slots w ++ [xor64 (g_rand g)]) (w_log w).
Proof. intros h c v r H. unfold wstep. rewrite H. reflexivity. Qed.

(** first block of Incref / Decref: the lookup under the read lock *)
Lemma wstep_incref_found : forall h c v r hh cc,
  nth_error (w_thr w) i = Some (mkT [] h c v, r) ->
  map_find (g_map g) hh = Some cc ->
  forall o r', r = o :: r' -> start_op expected_progs w o = mkT incref_prog hh None 0 ->
  wstep expected_progs w i =
  mkW g (set_nth (w_thr w) i (mkT [IAtomicAdd 1] hh (Some cc) 0, r')) (w_slots w) (w_log w).
Proof.
  intros h c v r hh cc H F o r' -> S. unfold wstep. rewrite H. cbn [t_prog]. rewrite S.
  unfold incref_prog, tstep. cbn -[map_find]. rewrite F. reflexivity.
Qed.

Lemma wstep_incref_missing : forall h c v r hh,
  nth_error (w_thr w) i = Some (mkT [] h c v, r) ->
  map_find (g_map g) hh = None ->
  forall o r', r = o :: r' -> start_op expected_progs w o = mkT incref_prog hh None 0 ->
  wstep expected_progs w i =
  mkW g (set_nth (w_thr w) i (mkT [] hh None 0, r')) (w_slots w) (w_log w).
Proof.
  intros h c v r hh H F o r' -> S. unfold wstep. rewrite H. cbn [t_prog]. rewrite S.
  unfold incref_prog, tstep. cbn -[map_find]. rewrite F. reflexivity.
Qed.

Lemma wstep_decref_found : forall h c v r hh cc,
  nth_error (w_thr w) i = Some (mkT [] h c v, r) ->
  map_find (g_map g) hh = Some cc ->
  forall o r', r = o :: r' -> start_op expected_progs w o = mkT decref_prog hh None 0 ->
  wstep expected_progs w i =
  mkW g (set_nth (w_thr w) i (mkT D2 hh (Some cc) 0, r')) (w_slots w) (w_log w).
Proof.
  intros h c v r hh cc H F o r' -> S. unfold wstep. rewrite H. cbn [t_prog]. rewrite S.
  unfold decref_prog, tstep. cbn -[map_find]. rewrite F. reflexivity.
Qed.

Lemma wstep_decref_missing : forall h c v r hh,
  nth_error (w_thr w) i = Some (mkT [] h c v, r) ->
  map_find (g_map g) hh = None ->
  forall o r', r = o :: r' -> start_op expected_progs w o = mkT decref_prog hh None 0 ->
  wstep expected_progs w i =
  mkW g (set_nth (w_thr w) i (mkT [] hh None 0, r')) (w_slots w) (w_log w).
Proof.
  intros h c v r hh H F o r' -> S. unfold wstep. rewrite H. cbn [t_prog]. rewrite S.
  unfold decref_prog, tstep. cbn -[map_find]. rewrite F. reflexivity.
Qed.

Lemma wstep_get : forall h c v r hh,
  nth_error (w_thr w) i = Some (mkT [] h c v, r) ->
  forall o r', r = o :: r' -> start_op expected_progs w o = mkT get_prog hh None 0 ->
  wstep expected_progs w i =
  mkW g (set_nth (w_thr w) i (mkT [] hh (map_find (g_map g) hh) 0, r')) (w_slots w)
      (w_log w ++ [(i, 1, match map_find (g_map g) hh with Some _ => 1 | None => 0 end)]).
Proof.
  intros h c v r hh H o r' -> S. unfold wstep. rewrite H. cbn [t_prog]. rewrite S. reflexivity.
Qed.

Lemma wstep_len : forall h c v r, nth_error (w_thr w) i = Some (mkT [] h c v, OLen :: r) ->
  wstep expected_progs w i =
  mkW g (set_nth (w_thr w) i (mkT [] 0 None (Z.of_nat (List.length (g_map g))), r)) (w_slots w)
      (w_log w ++ [(i, 2, Z.of_nat (List.length (g_map g)))]).
Proof. intros h c v r H. unfold wstep. rewrite H. reflexivity. Qed.

(** second block of Incref: the atomic increment *)
Lemma wstep_inc2 : forall h c v r,
  nth_error (w_thr w) i = Some (mkT [IAtomicAdd 1] h (Some c) v, r) ->
  wstep expected_progs w i =
  mkW (mkG (g_map g) (upd_nth (g_cells g) c ((nth c (g_cells g) 0 + 1) mod two32)) (g_rand g))
      (set_nth (w_thr w) i (mkT [] h (Some c) v, r)) (w_slots w) (w_log w).
Proof. intros h c v r H. unfold wstep. rewrite H. reflexivity. Qed.

(** second block of Decref: the atomic decrement and the test of its result *)
Lemma wstep_dec2 : forall h c v r,
  nth_error (w_thr w) i = Some (mkT D2 h (Some c) v, r) ->
  let v' := (nth c (g_cells g) 0 + -1) mod two32 in
  wstep expected_progs w i =
  mkW (mkG (g_map g) (upd_nth (g_cells g) c v') (g_rand g))
      (set_nth (w_thr w) i (mkT (if v' =? 0 then D3 else []) h (Some c) v', r)) (w_slots w) (w_log w).
Proof.
  intros h c v r H v'. unfold wstep. rewrite H. unfold D2, tstep. cbn -[Z.modulo two32 Z.add].
  fold v'. destruct (v' =? 0); reflexivity.
Qed.

(** third block of Decref: re-check under the write lock, delete *)
Lemma wstep_dec3 : forall h c v r,
  nth_error (w_thr w) i = Some (mkT D3 h (Some c) v, r) ->
  nth c (g_cells g) 0 = 0 ->
  wstep expected_progs w i =
  mkW (mkG (map_del (g_map g) h) (g_cells g) (g_rand g))
      (set_nth (w_thr w) i (mkT [] h (Some c) v, r)) (w_slots w) (w_log w).
Proof.
  intros h c v r H Z0. unfold wstep. rewrite H. unfold D3, tstep. cbn -[map_del].
  rewrite Z0. reflexivity.
Qed.
End StepEquations.

(* ------------------------------------------------------------------ *)
(** * 5. Ghost ownership

    [gw_owns t k] is the number of references to slot [k] (the k-th handle
    created) that thread [t] holds; [gw_cur t] is the operation thread [t] has
    in flight.  Neither influences the model: [gw_w] evolves by [wstep]
    (lemma [gexec_world]). *)

Record gworld : Type := mkGW {
  gw_w : world;
  gw_owns : nat -> nat -> nat;
  gw_cur : nat -> option opk }.

Definition total (gw : gworld) (k : nat) : nat :=
  tot (List.length (w_thr (gw_w gw))) (gw_owns gw) k.

(** thread [i] runs one block.  Ownership changes exactly at the three
    commit points: the block that creates slot [k] gives its thread one
    reference; the atomic increment of an [OIncref k] one more; the atomic
    decrement of an [ODecref k] takes one away. *)
Definition gstep_thr (P : progs) (gw : gworld) (i : nat) : gworld :=
  let w := gw_w gw in
  match nth_error (w_thr w) i with
  | None => gw
  | Some (t, ops) =>
    let block :=
        match t_prog t, ops with
        | [], [] => None
        | [], o :: _ => Some (Some o, hd_error (t_prog (start_op P w o)))
        | ins :: _, _ => Some (gw_cur gw i, Some ins)
        end in
    match block with
    | None => gw
    | Some (cur, head) =>
      let w' := wstep P w i in
      let owns := gw_owns gw in
      let owns' :=
          if (List.length (w_slots w') =? S (List.length (w_slots w)))%nat
          then upd2 owns i (List.length (w_slots w)) 1%nat
          else match cur, head with
               | Some (OIncref k), Some (IAtomicAdd _) => upd2 owns i k (owns i k + 1)%nat
               | Some (ODecref k), Some (IAtomicAddGet _) => upd2 owns i k (owns i k - 1)%nat
               | _, _ => owns
               end in
      mkGW w' owns' (upd1 (gw_cur gw) i cur)
    end
  end.

(** thread [t], between two of its operations, hands one of its references
    to slot [k] over to thread [u] (the Go caller passes the handle on) *)
Definition ggive (gw : gworld) (t u k : nat) : gworld :=
  let o1 := upd2 (gw_owns gw) t k (gw_owns gw t k - 1)%nat in
  mkGW (gw_w gw) (upd2 o1 u k (o1 u k + 1)%nat) (gw_cur gw).

Inductive gact : Type :=
| GStep (i : nat)            (* the scheduler lets thread i run one block *)
| GGive (t u k : nat).       (* ghost only: ownership transfer *)

Definition gstep (P : progs) (gw : gworld) (a : gact) : gworld :=
  match a with GStep i => gstep_thr P gw i | GGive t u k => ggive gw t u k end.

(** THE DISCIPLINE.  Starting [OIncref k] / [ODecref k] requires that slot
    [k] exists and that the thread holds a reference to it; raw-id
    operations ([OStale]) are not used; a thread gives away only a reference
    it holds, and only between its operations; and no handle ever has 2^32
    references outstanding. *)
Definition allowed_thr (gw : gworld) (i : nat) : bool :=
  let w := gw_w gw in
  match nth_error (w_thr w) i with
  | None => true
  | Some (t, ops) =>
    match t_prog t, ops with
    | [], OIncref k :: _ | [], ODecref k :: _ =>
      ((k <? List.length (w_slots w)) && (1 <=? gw_owns gw i k))%nat
    | [], OStale _ _ :: _ => false
    | [], _ => true
    | IAtomicAdd _ :: _, _ =>
      match gw_cur gw i with
      | Some (OIncref k) => Z.of_nat (total gw k) + 1 <? two32
      | _ => true
      end
    | _ :: _, _ => true
    end
  end.

Definition allowedb (gw : gworld) (a : gact) : bool :=
  match a with
  | GStep i => allowed_thr gw i
  | GGive t u k =>
    match nth_error (w_thr (gw_w gw)) t with
    | Some (th, _) =>
      match t_prog th with [] => true | _ => false end
      && (u <? List.length (w_thr (gw_w gw)))%nat && (1 <=? gw_owns gw t k)%nat
    | None => false
    end
  end.

Definition ginit (seed : Z) (threads : list (list opk)) : gworld :=
  mkGW (init_world seed threads) (fun _ _ => O) (fun _ => None).

Definition gexec (P : progs) (gw : gworld) (gs : list gact) : gworld := fold_left (gstep P) gs gw.

Fixpoint disciplinedb_from (P : progs) (gw : gworld) (gs : list gact) : bool :=
  match gs with
  | [] => true
  | a :: r => allowedb gw a && disciplinedb_from P (gstep P gw a) r
  end.

(** a ghost schedule (scheduler steps interleaved with hand-overs) is disciplined *)
Definition disciplined_g (P : progs) (seed : Z) (threads : list (list opk)) (gs : list gact) : Prop :=
  disciplinedb_from P (ginit seed threads) gs = true.

(** a plain schedule is disciplined when no hand-overs are needed *)
Definition disciplined (P : progs) (seed : Z) (threads : list (list opk)) (sched : list nat) : Prop :=
  disciplined_g P seed threads (map GStep sched).

(** the scheduler steps of a ghost schedule *)
Definition erase (gs : list gact) : list nat :=
  flat_map (fun a => match a with GStep i => [i] | GGive _ _ _ => [] end) gs.

Lemma erase_map_GStep : forall sched, erase (map GStep sched) = sched.
Proof. induction sched; simpl; congruence. Qed.

Lemma gstep_thr_world : forall P gw i, gw_w (gstep_thr P gw i) = wstep P (gw_w gw) i.
Proof.
  intros P gw i. unfold gstep_thr, wstep.
  destruct (nth_error (w_thr (gw_w gw)) i) as [[t ops]|]; [|reflexivity].
  destruct (t_prog t) as [|ins p] eqn:Ep; [destruct ops as [|o r]|].
  - rewrite Ep. reflexivity.
  - reflexivity.
  - reflexivity.
Qed.

(** the instrumentation does not change the model's run *)
Lemma gexec_world : forall P gs gw, gw_w (gexec P gw gs) = fold_left (wstep P) (erase gs) (gw_w gw).
Proof.
  induction gs as [|a gs IH]; intros gw; simpl; [reflexivity|].
  unfold gexec in *. rewrite IH. destruct a; simpl.
  - rewrite gstep_thr_world. reflexivity.
  - reflexivity.
Qed.

Lemma gexec_app : forall P gs1 gs2 gw, gexec P gw (gs1 ++ gs2) = gexec P (gexec P gw gs1) gs2.
Proof. intros. unfold gexec. apply fold_left_app. Qed.

Lemma disciplinedb_app : forall P gs1 gs2 gw,
  disciplinedb_from P gw (gs1 ++ gs2) = true ->
  disciplinedb_from P gw gs1 = true /\ disciplinedb_from P (gexec P gw gs1) gs2 = true.
Proof.
  induction gs1 as [|a gs1 IH]; simpl; intros gs2 gw H; [auto|].
  apply andb_true_iff in H. destruct H as [Ha H]. apply IH in H. rewrite Ha. exact H.
Qed.

(** every prefix of a disciplined schedule is disciplined *)
Lemma disciplined_prefix : forall P seed threads pre suf,
  disciplined_g P seed threads (pre ++ suf) -> disciplined_g P seed threads pre.
Proof. intros. apply disciplinedb_app in H. tauto. Qed.

(* ------------------------------------------------------------------ *)
(** * 6. The inductive invariant *)

Fixpoint iter_xor (n : nat) (x : Z) : Z :=
  match n with O => x | S m => xor64 (iter_xor m x) end.

(** Marsaglia's full-period claim, as far as it is needed: the first [n]
    ids produced from [seed] are pairwise distinct *)
Definition orbit_distinct (seed : Z) (n : nat) : Prop :=
  forall i j, (1 <= i)%nat -> (i < j)%nat -> (j <= n)%nat -> iter_xor i seed <> iter_xor j seed.

(** The reachable states of a thread (the program tails [tstep] can leave
    behind) and what is known in each of them.  Cell indices are slot
    numbers: the k-th Add creates cell k and slot k. *)
Inductive thr_ok (nT : nat) (slots : list Z) (owns : nat -> nat -> nat)
          (cur : nat -> option opk) (t : nat) (th : thr) : Prop :=
| TIdle : t_prog th = [] -> thr_ok nT slots owns cur t th
| TInc : forall k,                      (* Incref after its lookup: still holds its reference *)
    t_prog th = [IAtomicAdd 1] -> cur t = Some (OIncref k) -> t_cell th = Some k ->
    (k < List.length slots)%nat -> (1 <= owns t k)%nat -> thr_ok nT slots owns cur t th
| TDec2 : forall k,                     (* Decref after its lookup, before the decrement *)
    t_prog th = D2 -> cur t = Some (ODecref k) -> t_cell th = Some k -> t_h th = nth k slots 0 ->
    (k < List.length slots)%nat -> (1 <= owns t k)%nat -> thr_ok nT slots owns cur t th
| TDec3 : forall k,                     (* Decref whose decrement produced 0: nobody holds a reference *)
    t_prog th = D3 -> cur t = Some (ODecref k) -> t_cell th = Some k -> t_h th = nth k slots 0 ->
    (k < List.length slots)%nat -> tot nT owns k = 0%nat -> thr_ok nT slots owns cur t th.

Definition slot_ok (m : list (Z * nat)) (cells : list Z) (thrs : list (thr * list opk))
           (slots : list Z) (owns : nat -> nat -> nat) (k : nat) : Prop :=
  let c := tot (List.length thrs) owns k in
  nth k cells 0 = Z.of_nat c /\ Z.of_nat c < two32 /\
  ((0 < c)%nat -> map_find m (nth k slots 0) = Some k) /\
  (c = 0%nat -> map_find m (nth k slots 0) = None \/
                exists t th ops, nth_error thrs t = Some (th, ops) /\ t_prog th = D3 /\ t_cell th = Some k).

Lemma thr_ok_mono : forall nT slots slots' owns owns' cur cur' t th,
  thr_ok nT slots owns cur t th ->
  cur' t = cur t ->
  (forall k, (k < List.length slots)%nat -> (k < List.length slots')%nat /\ nth k slots' 0 = nth k slots 0) ->
  (forall k, (owns t k <= owns' t k)%nat) ->
  (forall k, (k < List.length slots)%nat -> tot nT owns k = 0%nat -> tot nT owns' k = 0%nat) ->
  thr_ok nT slots' owns' cur' t th.
Proof.
  intros nT slots slots' owns owns' cur cur' t th H Hc Hs Ho Ht.
  destruct H as [Hp|k Hp Hcu Hce Hk Hown|k Hp Hcu Hce Hh Hk Hown|k Hp Hcu Hce Hh Hk Htot].
  - apply TIdle; auto.
  - apply (TInc _ _ _ _ _ _ k); auto; try congruence.
    + apply Hs; auto.
    + specialize (Ho k); lia.
  - apply (TDec2 _ _ _ _ _ _ k); auto; try congruence.
    + rewrite Hh. symmetry. apply Hs; auto.
    + apply Hs; auto.
    + specialize (Ho k); lia.
  - apply (TDec3 _ _ _ _ _ _ k); auto; try congruence.
    + rewrite Hh. symmetry. apply Hs; auto.
    + apply Hs; auto.
Qed.

Lemma d3_witness_persist : forall (thrs : list (thr * list opk)) i th ops th' ops' k,
  nth_error thrs i = Some (th, ops) ->
  ~ (t_prog th = D3 /\ t_cell th = Some k) ->
  (exists t th0 ops0, nth_error thrs t = Some (th0, ops0) /\ t_prog th0 = D3 /\ t_cell th0 = Some k) ->
  exists t th0 ops0, nth_error (set_nth thrs i (th', ops')) t = Some (th0, ops0) /\
                     t_prog th0 = D3 /\ t_cell th0 = Some k.
Proof.
  intros thrs i th ops th' ops' k Hi Hn (t & th0 & ops0 & Ht & Hp & Hc).
  exists t, th0, ops0. split; [|tauto].
  rewrite nth_error_set_nth_neq; auto.
  intro; subst t. rewrite Hi in Ht. inversion Ht; subst. tauto.
Qed.

Lemma eqb_S_false : forall n, (n =? S n)%nat = false.
Proof. intros. apply Nat.eqb_neq. lia. Qed.

(* ------------------------------------------------------------------ *)
(** * 7. The statements *)

Definition reach (P : progs) (seed : Z) (threads : list (list opk)) (gs : list gact) : gworld :=
  gexec P (ginit seed threads) gs.

(** some thread sits between the block of an [ODecref k] whose decrement
    produced 0 and the block that re-checks under the write lock *)
Definition removal_pending (gw : gworld) (k : nat) : Prop :=
  exists t th ops, nth_error (w_thr (gw_w gw)) t = Some (th, ops) /\
                   gw_cur gw t = Some (ODecref k) /\ t_prog th = D3 /\
                   t_cell th = Some k /\ t_h th = slot_id (gw_w gw) k.

(** [refcount_invariant]: in the world reached after ANY prefix [pre] of a
    disciplined ghost schedule,
    - the instrumented run is the model's run of the scheduler steps of [pre];
    - (a) the ids in the map are pairwise distinct, non-zero 64-bit values;
    - (c) for every slot k the counter of its cell is EXACTLY the number c of
      references the threads hold (no wrap-around: c < 2^32 and the cell
      holds c, not c mod 2^32);
    - (b) if c > 0 the handle is in the map and every lookup of it (by any
      thread: [ILookup] evaluates [map_find] on the shared map) finds cell k;
      if c = 0 the handle is not in the map, or a removal is pending (and
      that thread's next block removes it: [pending_removal_removes]);
    - nobody holds references to slots that do not exist. *)
Definition refcount_invariant_at (P : progs) (seed : Z) (threads : list (list opk)) : Prop :=
  forall pre suf, 0 < seed < two64 -> disciplined_g P seed threads (pre ++ suf) ->
  let gw := reach P seed threads pre in
  let w := gw_w gw in
  let g := w_g w in
  w = run_schedule P seed threads (erase pre) /\
  (NoDup (map fst (g_map g)) /\ forall h, In h (map fst (g_map g)) -> 0 < h < two64) /\
  (forall k, (k < List.length (w_slots w))%nat ->
     let h := slot_id w k in
     let c := total gw k in
     (nth k (g_cells g) 0 = Z.of_nat c /\ Z.of_nat c < two32) /\
     ((0 < c)%nat -> In (h, k) (g_map g) /\ map_find (g_map g) h = Some k) /\
     (c = 0%nat -> ~ In h (map fst (g_map g)) \/ removal_pending gw k)) /\
  (forall t k, (List.length (w_slots w) <= k)%nat -> gw_owns gw t k = 0%nat).

(** a thread committed to a removal performs it in its next block *)
Definition pending_removal_removes_at (P : progs) (seed : Z) (threads : list (list opk)) : Prop :=
  forall gs, 0 < seed < two64 -> disciplined_g P seed threads gs ->
  let gw := reach P seed threads gs in
  let w := gw_w gw in
  forall t th ops k, nth_error (w_thr w) t = Some (th, ops) -> t_prog th = D3 -> t_cell th = Some k ->
  map_find (g_map (w_g (wstep P w t))) (slot_id w k) = None.

(** [released_means_removed]: when every thread is done and all references
    have been given up, the table is empty (nothing leaks) *)
Definition released_means_removed_at (P : progs) (seed : Z) (threads : list (list opk)) : Prop :=
  forall gs, 0 < seed < two64 -> disciplined_g P seed threads gs ->
  let gw := reach P seed threads gs in
  quiescent (gw_w gw) = true -> (forall t k, gw_owns gw t k = 0%nat) ->
  g_map (w_g (gw_w gw)) = [].

(** [owner_lookup_succeeds]: in any reachable state, a thread that holds a
    reference to slot k and issues [OGet k] completes it in its next block,
    finds the cell of slot k and logs 1 (found); the shared state is untouched *)
Definition owner_lookup_succeeds_at (P : progs) (seed : Z) (threads : list (list opk)) : Prop :=
  forall gs, 0 < seed < two64 -> disciplined_g P seed threads gs ->
  let gw := reach P seed threads gs in
  let w := gw_w gw in
  forall i th k r, nth_error (w_thr w) i = Some (th, OGet k :: r) -> t_prog th = [] ->
  (1 <= gw_owns gw i k)%nat ->
  let w' := wstep P w i in
  w_log w' = w_log w ++ [(i, 1, 1)] /\ w_g w' = w_g w /\
  exists th', nth_error (w_thr w') i = Some (th', r) /\ t_prog th' = [] /\ t_cell th' = Some k.

(** what "a thread's lookup" is: [ILookup] evaluates [map_find] on the shared
    map, for whichever thread executes it *)
Lemma lookup_is_map_find : forall g t rest,
  t_cell (snd (exec1 g t ILookup rest)) = map_find (g_map g) (t_h t).
Proof. reflexivity. Qed.

(** the raw id an operation works on *)
Definition op_handle (w : world) (o : opk) : option Z :=
  match o with
  | OIncref k | ODecref k | OGet k => Some (slot_id w k)
  | OStale h _ => Some h
  | OAdd | OLen => None
  end.
Definition op_is_get (o : opk) : bool :=
  match o with OGet _ => true | OStale _ j => (2 <=? j)%nat | _ => false end.

(** [stale_is_noop]: from ANY world (no discipline, any history), an
    Incref / Decref / Get -- by slot or by raw id ([OStale]) -- on an id that
    is not in the map completes in the one block that starts it and changes
    nothing: the shared state (map, cells, generator) and the slots are the
    same, the other threads are untouched, and a Get logs 0 (not found). *)
Definition stale_is_noop_at (P : progs) : Prop :=
  forall w i th o r h,
  nth_error (w_thr w) i = Some (th, o :: r) -> t_prog th = [] ->
  op_handle w o = Some h -> map_find (g_map (w_g w)) h = None ->
  let w' := wstep P w i in
  w_g w' = w_g w /\ w_slots w' = w_slots w /\
  (exists th', nth_error (w_thr w') i = Some (th', r) /\ t_prog th' = []) /\
  (forall j, j <> i -> nth_error (w_thr w') j = nth_error (w_thr w) j) /\
  w_log w' = if op_is_get o then w_log w ++ [(i, 1, 0)] else w_log w.

Section Protocol.
Variable seed : Z.
Variable threads : list (list opk).
Hypothesis xor64_orbit_distinct : orbit_distinct seed (count_adds threads).

Record InvC (m : list (Z * nat)) (cells : list Z) (rnd : Z) (thrs : list (thr * list opk))
       (slots : list Z) (owns : nat -> nat -> nat) (cur : nat -> option opk) : Prop := mkInvC {
  ic_len : List.length cells = List.length slots;
  ic_rand : rnd = iter_xor (List.length slots) seed;
  ic_slots : forall k, (k < List.length slots)%nat -> nth k slots 0 = iter_xor (S k) seed;
  ic_budget : (List.length slots + pending thrs <= count_adds threads)%nat;
  ic_rrange : 0 < rnd < two64;
  ic_srange : forall k, (k < List.length slots)%nat -> 0 < nth k slots 0 < two64;
  ic_map : forall h c, map_find m h = Some c -> (c < List.length slots)%nat /\ nth c slots 0 = h;
  ic_nodup : NoDup (map fst m);
  ic_supp : forall t k, (List.length thrs <= t)%nat \/ (List.length slots <= k)%nat -> owns t k = 0%nat;
  ic_slot : forall k, (k < List.length slots)%nat -> slot_ok m cells thrs slots owns k;
  ic_thr : forall t th ops, nth_error thrs t = Some (th, ops) ->
                            thr_ok (List.length thrs) slots owns cur t th }.

Definition Inv (gw : gworld) : Prop :=
  let w := gw_w gw in
  InvC (g_map (w_g w)) (g_cells (w_g w)) (g_rand (w_g w)) (w_thr w) (w_slots w) (gw_owns gw) (gw_cur gw).

Lemma InvC_slots_inj : forall m cells rnd thrs slots owns cur,
  InvC m cells rnd thrs slots owns cur -> forall k1 k2,
  (k1 < List.length slots)%nat -> (k2 < List.length slots)%nat ->
  nth k1 slots 0 = nth k2 slots 0 -> k1 = k2.
Proof.
  intros m cells rnd thrs slots owns cur H k1 k2 H1 H2 E.
  rewrite (ic_slots _ _ _ _ _ _ _ H k1 H1), (ic_slots _ _ _ _ _ _ _ H k2 H2) in E.
  pose proof (ic_budget _ _ _ _ _ _ _ H) as Hb.
  destruct (lt_eq_lt_dec k1 k2) as [[L|L]|L]; auto; exfalso.
  - apply (xor64_orbit_distinct (S k1) (S k2)); [lia|lia|lia|exact E].
  - apply (xor64_orbit_distinct (S k2) (S k1)); [lia|lia|lia|symmetry; exact E].
Qed.

Lemma InvC_cur_ext : forall m cells rnd thrs slots owns cur cur',
  (forall t, cur' t = cur t) ->
  InvC m cells rnd thrs slots owns cur -> InvC m cells rnd thrs slots owns cur'.
Proof.
  intros m cells rnd thrs slots owns cur cur' E H. destruct H. constructor; auto.
  intros t th ops Ht. eapply thr_ok_mono; eauto.
Qed.

(** ** the initial state *)
Lemma Inv_init : 0 < seed < two64 -> Inv (ginit seed threads).
Proof.
  intros Hs. unfold Inv, ginit, init_world; simpl. constructor; simpl; auto; try (intros; lia).
  - rewrite pending_init. lia.
  - intros h c H; discriminate.
  - constructor.
  - intros t th ops Ht. apply TIdle.
    apply nth_error_In in Ht. apply in_map_iff in Ht. destruct Ht as [o [E _]]. inversion E; reflexivity.
Qed.

(** ** a step that only changes the stepping thread (lookups, Get, Len) *)
Lemma InvC_local : forall m cells rnd thrs slots owns cur i th ops th' ops' c,
  InvC m cells rnd thrs slots owns cur ->
  nth_error thrs i = Some (th, ops) -> t_prog th = [] ->
  (adds ops' <= adds ops)%nat ->
  thr_ok (List.length thrs) slots owns (upd1 cur i c) i th' ->
  InvC m cells rnd (set_nth thrs i (th', ops')) slots owns (upd1 cur i c).
Proof.
  intros m cells rnd thrs slots owns cur i th ops th' ops' c H Hi Hp Ha Hok.
  assert (HiT : (i < List.length thrs)%nat) by (apply nth_error_Some; congruence).
  destruct H as [Hlen Hrand Hslots Hbud Hrr Hsr Hmap Hnd Hsupp Hslot Hthr].
  constructor; auto.
  - pose proof (pending_set_nth thrs i th ops th' ops' Hi). lia.
  - rewrite length_set_nth. auto.
  - intros k Hk. specialize (Hslot k Hk). unfold slot_ok in *. rewrite length_set_nth.
    destruct Hslot as (A & B & C & D). split; [|split; [|split]]; auto.
    intros Hz. destruct (D Hz) as [|W]; [left; auto|right].
    eapply d3_witness_persist; eauto. rewrite Hp. intros [X _]; discriminate.
  - intros t th0 ops0 Ht. rewrite length_set_nth. destruct (Nat.eq_dec t i) as [->|Hne].
    + rewrite nth_error_set_nth_eq in Ht by auto. inversion Ht; subst. auto.
    + rewrite nth_error_set_nth_neq in Ht by auto.
      eapply thr_ok_mono; eauto. apply upd1_neq; auto.
Qed.

(** ** Add: a new slot, a new cell, one reference for the creator *)
Lemma InvC_add : forall m cells rnd thrs slots owns cur i th r,
  InvC m cells rnd thrs slots owns cur ->
  nth_error thrs i = Some (th, OAdd :: r) -> t_prog th = [] ->
  InvC (m ++ [(xor64 rnd, List.length cells)]) (cells ++ [1]) (xor64 rnd)
       (set_nth thrs i (mkT [] (xor64 rnd) (Some (List.length cells)) 0, r))
       (slots ++ [xor64 rnd]) (upd2 owns i (List.length slots) 1%nat) (upd1 cur i (Some OAdd)).
Proof.
  intros m cells rnd thrs slots owns cur i th r H Hi Hp.
  assert (HiT : (i < List.length thrs)%nat) by (apply nth_error_Some; congruence).
  destruct H as [Hlen Hrand Hslots Hbud Hrr Hsr Hmap Hnd Hsupp Hslot Hthr].
  set (n := List.length slots) in *. set (x := xor64 rnd) in *.
  set (th' := mkT [] x (Some (List.length cells)) 0).
  pose proof (pending_set_nth thrs i th (OAdd :: r) th' r Hi) as Hpend. simpl adds in Hpend.
  assert (Hx : x = iter_xor (S n) seed) by (simpl; rewrite <- Hrand; reflexivity).
  assert (Hxr : 0 < x < two64) by (apply xor64_pos_range; exact Hrr).
  assert (Hfresh : forall k, (k < n)%nat -> nth k slots 0 <> x).
  { intros k Hk E. rewrite (Hslots k Hk), Hx in E.
    apply (xor64_orbit_distinct (S k) (S n)); [lia|lia|lia|exact E]. }
  assert (Hnone : map_find m x = None).
  { destruct (map_find m x) as [c|] eqn:E; [|reflexivity].
    destruct (Hmap x c E) as [Hc Hn]. exfalso. apply (Hfresh c Hc Hn). }
  assert (Hlen' : List.length (slots ++ [x]) = S n) by (rewrite app_length; simpl; lia).
  assert (Hold : forall k, (k < n)%nat -> nth k (slots ++ [x]) 0 = nth k slots 0)
    by (intros; apply app_nth1; auto).
  assert (Htot0 : tot (List.length thrs) owns n = 0%nat).
  { unfold tot. apply sumf_zero. intros. apply Hsupp. right. unfold n. lia. }
  constructor.
  - rewrite !app_length. simpl. lia.
  - rewrite Hlen'. exact Hx.
  - rewrite Hlen'. intros k Hk. destruct (Nat.eq_dec k n) as [->|Hne].
    + unfold n. rewrite nth_app_last. exact Hx.
    + rewrite Hold by lia. apply Hslots. lia.
  - rewrite Hlen'. fold th'. lia.
  - exact Hxr.
  - rewrite Hlen'. intros k Hk. destruct (Nat.eq_dec k n) as [->|Hne].
    + unfold n. rewrite nth_app_last. exact Hxr.
    + rewrite Hold by lia. apply Hsr. lia.
  - rewrite Hlen'. intros h c E. rewrite map_find_app in E.
    destruct (map_find m h) as [c0|] eqn:E0.
    + inversion E; subst c0. destruct (Hmap h c E0) as [Hc Hn]. split; [lia|]. rewrite Hold; auto.
    + destruct (x =? h) eqn:Exh; [|discriminate]. apply Z.eqb_eq in Exh. inversion E; subst.
      rewrite Hlen. split; [lia|]. apply nth_app_last.
  - rewrite map_app. simpl. apply NoDup_snoc; auto.
    intro Hin. apply map_find_in in Hin. destruct Hin as [c E]. congruence.
  - rewrite length_set_nth, Hlen'. intros t k Hk. rewrite upd2_neq; [apply Hsupp; fold n; lia|].
    fold n. lia.
  - rewrite Hlen'. intros k Hk. unfold slot_ok. rewrite length_set_nth.
    destruct (Nat.eq_dec k n) as [->|Hne].
    + pose proof (tot_upd2_same (List.length thrs) owns i n 1%nat HiT) as Ht.
      rewrite (Hsupp i n) in Ht by (right; unfold n; lia). rewrite Htot0 in Ht.
      assert (Ht1 : tot (List.length thrs) (upd2 owns i n 1%nat) n = 1%nat) by lia.
      rewrite Ht1. split; [|split; [|split]].
      * rewrite <- Hlen. rewrite app_nth2 by lia. rewrite Nat.sub_diag. reflexivity.
      * reflexivity.
      * replace (nth n (slots ++ [x]) 0) with x by (unfold n; rewrite nth_app_last; reflexivity).
        rewrite map_find_app, Hnone, Z.eqb_refl. rewrite Hlen. reflexivity.
      * intros; lia.
    + assert (Hkn : (k < n)%nat) by lia.
      rewrite (tot_upd2_other _ _ _ _ _ k Hne). rewrite Hold by auto.
      destruct (Hslot k Hkn) as (A & B & C & D). split; [|split; [|split]].
      * rewrite app_nth1 by lia. exact A.
      * exact B.
      * intros Hc. rewrite map_find_app, (C Hc). reflexivity.
      * intros Hz. destruct (D Hz) as [E|W].
        -- left. rewrite map_find_app, E.
           destruct (x =? nth k slots 0) eqn:Exh; [|reflexivity].
           apply Z.eqb_eq in Exh. exfalso. apply (Hfresh k Hkn). auto.
        -- right. eapply d3_witness_persist; eauto. rewrite Hp. intros [X _]; discriminate.
  - intros t th0 ops0 Ht. rewrite length_set_nth. destruct (Nat.eq_dec t i) as [->|Hne].
    + rewrite nth_error_set_nth_eq in Ht by auto. inversion Ht; subst. apply TIdle. reflexivity.
    + rewrite nth_error_set_nth_neq in Ht by auto.
      eapply thr_ok_mono; [apply (Hthr t th0 ops0 Ht)| | | |].
      * apply upd1_neq; auto.
      * intros k Hk. fold n in Hk. rewrite Hlen'. split; [lia|auto].
      * intros k. rewrite upd2_neq; auto.
      * intros k Hk Hz. fold n in Hk. rewrite tot_upd2_other by lia. exact Hz.
Qed.

(** ** Incref, second block: the atomic increment *)
Lemma InvC_inc2 : forall m cells rnd thrs slots owns cur i th ops k th',
  InvC m cells rnd thrs slots owns cur ->
  nth_error thrs i = Some (th, ops) ->
  t_prog th = [IAtomicAdd 1] -> (k < List.length slots)%nat -> (1 <= owns i k)%nat ->
  Z.of_nat (tot (List.length thrs) owns k) + 1 < two32 ->
  t_prog th' = [] ->
  InvC m (upd_nth cells k ((nth k cells 0 + 1) mod two32)) rnd (set_nth thrs i (th', ops)) slots
       (upd2 owns i k (owns i k + 1)%nat) cur.
Proof.
  intros m cells rnd thrs slots owns cur i th ops k th' H Hi Hp Hk Hown Hbound Hp'.
  assert (HiT : (i < List.length thrs)%nat) by (apply nth_error_Some; congruence).
  destruct H as [Hlen Hrand Hslots Hbud Hrr Hsr Hmap Hnd Hsupp Hslot Hthr].
  pose proof (tot_upd2_same (List.length thrs) owns i k (owns i k + 1)%nat HiT) as Htk.
  pose proof (tot_ge (List.length thrs) owns i k HiT) as Hge.
  destruct (Hslot k Hk) as (A & B & C & D).
  assert (Hv : (nth k cells 0 + 1) mod two32 = Z.of_nat (tot (List.length thrs) owns k + 1)).
  { rewrite A. rewrite Z.mod_small; lia. }
  assert (Htk' : tot (List.length thrs) (upd2 owns i k (owns i k + 1)%nat) k
                 = (tot (List.length thrs) owns k + 1)%nat) by lia.
  constructor; auto.
  - rewrite length_upd_nth; auto.
  - pose proof (pending_set_nth thrs i th ops th' ops Hi). lia.
  - rewrite length_set_nth. intros t k0 Hk0. rewrite upd2_neq; [apply Hsupp; auto|]. lia.
  - intros k0 Hk0. unfold slot_ok. rewrite length_set_nth.
    destruct (Nat.eq_dec k0 k) as [->|Hne].
    + rewrite Htk'. split; [|split; [|split]].
      * rewrite nth_upd_nth_eq by (rewrite Hlen; auto). exact Hv.
      * lia.
      * intros _. apply C. lia.
      * intros; lia.
    + rewrite tot_upd2_other by auto. rewrite nth_upd_nth_neq by auto.
      destruct (Hslot k0 Hk0) as (A0 & B0 & C0 & D0). split; [|split; [|split]]; auto.
      intros Hz. destruct (D0 Hz) as [|W]; [left; auto|right].
      eapply d3_witness_persist; eauto. rewrite Hp. intros [X _]; discriminate.
  - intros t th0 ops0 Ht. rewrite length_set_nth. destruct (Nat.eq_dec t i) as [->|Hne].
    + rewrite nth_error_set_nth_eq in Ht by auto. inversion Ht; subst. apply TIdle. auto.
    + rewrite nth_error_set_nth_neq in Ht by auto.
      eapply thr_ok_mono; [apply (Hthr t th0 ops0 Ht)| | | |]; auto.
      * intros k0. rewrite upd2_neq; auto.
      * intros k0 Hk0 Hz. rewrite tot_upd2_other; auto. intro; subst k0. lia.
Qed.

(** ** Decref, second block: the atomic decrement; a result of 0 commits the
    thread to the removal *)
Lemma InvC_dec2 : forall m cells rnd thrs slots owns cur i th ops k,
  InvC m cells rnd thrs slots owns cur ->
  nth_error thrs i = Some (th, ops) ->
  t_prog th = D2 -> cur i = Some (ODecref k) -> t_h th = nth k slots 0 ->
  (k < List.length slots)%nat -> (1 <= owns i k)%nat ->
  let v' := (nth k cells 0 + -1) mod two32 in
  InvC m (upd_nth cells k v') rnd
       (set_nth thrs i (mkT (if v' =? 0 then D3 else []) (t_h th) (Some k) v', ops)) slots
       (upd2 owns i k (owns i k - 1)%nat) cur.
Proof.
  intros m cells rnd thrs slots owns cur i th ops k H Hi Hp Hcu Hh Hk Hown v'.
  assert (HiT : (i < List.length thrs)%nat) by (apply nth_error_Some; congruence).
  destruct H as [Hlen Hrand Hslots Hbud Hrr Hsr Hmap Hnd Hsupp Hslot Hthr].
  pose proof (tot_upd2_same (List.length thrs) owns i k (owns i k - 1)%nat HiT) as Htk.
  pose proof (tot_ge (List.length thrs) owns i k HiT) as Hge.
  destruct (Hslot k Hk) as (A & B & C & D).
  set (owns' := upd2 owns i k (owns i k - 1)%nat) in *.
  assert (Htk' : (tot (List.length thrs) owns' k + 1 = tot (List.length thrs) owns k)%nat) by lia.
  assert (Hv : v' = Z.of_nat (tot (List.length thrs) owns' k)).
  { unfold v'. rewrite A. rewrite Z.mod_small; lia. }
  clearbody v'.
  set (th' := mkT (if v' =? 0 then D3 else []) (t_h th) (Some k) v').
  constructor; auto.
  - rewrite length_upd_nth; auto.
  - pose proof (pending_set_nth thrs i th ops th' ops Hi). lia.
  - rewrite length_set_nth. intros t k0 Hk0. unfold owns'. rewrite upd2_neq; [apply Hsupp; auto|]. lia.
  - intros k0 Hk0. unfold slot_ok. rewrite length_set_nth.
    destruct (Nat.eq_dec k0 k) as [->|Hne].
    + split; [|split; [|split]].
      * rewrite nth_upd_nth_eq by (rewrite Hlen; auto). exact Hv.
      * lia.
      * intros _. apply C. lia.
      * intros Hz. right. exists i, th', ops. split; [apply nth_error_set_nth_eq; auto|].
        unfold th'; simpl. rewrite Hv, Hz. simpl. auto.
    + unfold owns'. rewrite tot_upd2_other by auto. rewrite nth_upd_nth_neq by auto.
      destruct (Hslot k0 Hk0) as (A0 & B0 & C0 & D0). split; [|split; [|split]]; auto.
      intros Hz. destruct (D0 Hz) as [|W]; [left; auto|right].
      eapply d3_witness_persist; eauto. rewrite Hp. intros [X _]; discriminate.
  - intros t th0 ops0 Ht. rewrite length_set_nth. destruct (Nat.eq_dec t i) as [->|Hne].
    + rewrite nth_error_set_nth_eq in Ht by auto. inversion Ht; subst th0 ops0.
      destruct (v' =? 0) eqn:Ev.
      * apply (TDec3 _ _ _ _ _ _ k); unfold th'; simpl; auto.
        apply Z.eqb_eq in Ev. lia.
      * apply TIdle. unfold th'; simpl. reflexivity.
    + rewrite nth_error_set_nth_neq in Ht by auto.
      eapply thr_ok_mono; [apply (Hthr t th0 ops0 Ht)| | | |]; auto.
      * intros k0. unfold owns'. rewrite upd2_neq; auto.
      * intros k0 Hk0 Hz. unfold owns'. rewrite tot_upd2_other; auto. intro; subst k0. lia.
Qed.

(** ** Decref, third block: the counter is still 0, the entry goes *)
Lemma InvC_dec3 : forall m cells rnd thrs slots owns cur i th ops k th',
  InvC m cells rnd thrs slots owns cur ->
  nth_error thrs i = Some (th, ops) ->
  t_prog th = D3 -> t_cell th = Some k -> t_h th = nth k slots 0 ->
  (k < List.length slots)%nat -> tot (List.length thrs) owns k = 0%nat ->
  t_prog th' = [] ->
  InvC (map_del m (t_h th)) cells rnd (set_nth thrs i (th', ops)) slots owns cur.
Proof.
  intros m cells rnd thrs slots owns cur i th ops k th' H Hi Hp Hce Hh Hk Hz Hp'.
  assert (HiT : (i < List.length thrs)%nat) by (apply nth_error_Some; congruence).
  pose proof (InvC_slots_inj _ _ _ _ _ _ _ H) as Hinj.
  destruct H as [Hlen Hrand Hslots Hbud Hrr Hsr Hmap Hnd Hsupp Hslot Hthr].
  constructor; auto.
  - pose proof (pending_set_nth thrs i th ops th' ops Hi). lia.
  - intros h c E. rewrite map_find_del in E. destruct (t_h th =? h); [discriminate|auto].
  - apply NoDup_map_fst_del; auto.
  - rewrite length_set_nth. auto.
  - intros k0 Hk0. unfold slot_ok. rewrite length_set_nth.
    destruct (Hslot k0 Hk0) as (A0 & B0 & C0 & D0).
    destruct (Nat.eq_dec k0 k) as [->|Hne].
    + split; [|split; [|split]]; auto.
      * intros; lia.
      * intros _. left. rewrite map_find_del, Hh, Z.eqb_refl. reflexivity.
    + assert (Hneq : (t_h th =? nth k0 slots 0) = false).
      { apply Z.eqb_neq. rewrite Hh. intro E. apply Hne. symmetry. apply Hinj; auto. }
      rewrite map_find_del, Hneq. split; [|split; [|split]]; auto.
      intros Hz0. destruct (D0 Hz0) as [|W]; [left; auto|right].
      eapply d3_witness_persist; eauto. rewrite Hce. intros [_ X]. inversion X. auto.
  - intros t th0 ops0 Ht. rewrite length_set_nth. destruct (Nat.eq_dec t i) as [->|Hne].
    + rewrite nth_error_set_nth_eq in Ht by auto. inversion Ht; subst. apply TIdle. auto.
    + rewrite nth_error_set_nth_neq in Ht by auto. apply (Hthr t th0 ops0 Ht).
Qed.

(** ** a hand-over keeps every total *)
Lemma InvC_give : forall m cells rnd thrs slots owns cur t u k th ops,
  InvC m cells rnd thrs slots owns cur ->
  nth_error thrs t = Some (th, ops) -> t_prog th = [] ->
  (u < List.length thrs)%nat -> (1 <= owns t k)%nat ->
  let o1 := upd2 owns t k (owns t k - 1)%nat in
  InvC m cells rnd thrs slots (upd2 o1 u k (o1 u k + 1)%nat) cur.
Proof.
  intros m cells rnd thrs slots owns cur t u k th ops H Ht Hp Hu Hown o1.
  assert (HtT : (t < List.length thrs)%nat) by (apply nth_error_Some; congruence).
  destruct H as [Hlen Hrand Hslots Hbud Hrr Hsr Hmap Hnd Hsupp Hslot Hthr].
  set (owns' := upd2 o1 u k (o1 u k + 1)%nat).
  assert (Hkn : (k < List.length slots)%nat).
  { destruct (Nat.lt_ge_cases k (List.length slots)); auto. rewrite (Hsupp t k) in Hown; [lia|auto]. }
  assert (Htot : forall k0, tot (List.length thrs) owns' k0 = tot (List.length thrs) owns k0).
  { intros k0. destruct (Nat.eq_dec k0 k) as [->|Hne].
    - pose proof (tot_upd2_same (List.length thrs) o1 u k (o1 u k + 1)%nat Hu).
      pose proof (tot_upd2_same (List.length thrs) owns t k (owns t k - 1)%nat HtT).
      fold o1 in H0. fold owns' in H. lia.
    - unfold owns', o1. rewrite !tot_upd2_other by auto. reflexivity. }
  constructor; auto.
  - intros t0 k0 Hc. unfold owns', o1. rewrite !upd2_neq; [apply Hsupp; auto| |]; lia.
  - intros k0 Hk0. unfold slot_ok. rewrite Htot. apply (Hslot k0 Hk0).
  - intros t0 th0 ops0 Ht0. destruct (Nat.eq_dec t0 t) as [->|Hne].
    + rewrite Ht in Ht0. inversion Ht0; subst. apply TIdle; auto.
    + eapply thr_ok_mono; [apply (Hthr t0 th0 ops0 Ht0)| | | |]; auto.
      * intros k0. unfold owns', upd2 at 1.
        destruct ((t0 =? u) && (k0 =? k))%nat eqn:E.
        -- apply andb_true_iff in E. destruct E as [E1 E2].
           apply Nat.eqb_eq in E1. apply Nat.eqb_eq in E2. subst.
           unfold o1. rewrite upd2_neq by auto. lia.
        -- unfold o1. rewrite upd2_neq by auto. lia.
      * intros k0 _ Hz0. rewrite Htot. exact Hz0.
Qed.

Arguments wstep : simpl never.

(** ** every step the discipline allows preserves the invariant *)
Lemma Inv_step : forall gw a,
  Inv gw -> allowedb gw a = true -> Inv (gstep expected_progs gw a).
Proof.
  intros [[[m cells rnd] thrs slots log] owns cur] a H Hal. unfold Inv in *. simpl in H.
  destruct a as [i|t u k].
  - (* thread i runs a block *)
    simpl in Hal. unfold allowed_thr in Hal. simpl in Hal.
    simpl. unfold gstep_thr. simpl.
    destruct (nth_error thrs i) as [[th ops]|] eqn:Hi; [|exact H].
    assert (HiT : (i < List.length thrs)%nat) by (apply nth_error_Some; congruence).
    pose proof (ic_thr _ _ _ _ _ _ _ H i th ops Hi) as Hok.
    destruct th as [p h c v].
    destruct Hok as [Hp|k Hp Hcu Hce Hk Hown|k Hp Hcu Hce Hh Hk Hown|k Hp Hcu Hce Hh Hk Htot];
      simpl in Hp; subst p; simpl in *.
    + (* the thread is between operations *)
      destruct ops as [|o r]; [exact H|].
      destruct o as [|k|k|k| |h0 j]; simpl.
      * (* Add *)
        set (w := mkW _ _ _ _). rewrite (wstep_add w i _ _ _ _ Hi). subst w. simpl.
        rewrite app_length. simpl. rewrite Nat.add_1_r, Nat.eqb_refl.
        eapply InvC_add; eauto.
      * (* Incref: the lookup *)
        apply andb_true_iff in Hal. destruct Hal as [Hk Hown].
        apply Nat.ltb_lt in Hk.
        assert (Hown' : (1 <= owns i k)%nat) by (destruct (owns i k); [discriminate|lia]).
        pose proof (tot_ge (List.length thrs) owns i k HiT) as Hge.
        destruct (ic_slot _ _ _ _ _ _ _ H k Hk) as (_ & _ & C & _).
        set (w := mkW _ _ _ _). rewrite (wstep_incref_found w i _ _ _ _ (nth k slots 0) k Hi (C ltac:(lia)) _ _ eq_refl eq_refl).
        subst w. simpl. rewrite eqb_S_false.
        eapply InvC_local; eauto.
        apply (TInc _ _ _ _ _ _ k); simpl; auto. apply upd1_eq.
      * (* Decref: the lookup *)
        apply andb_true_iff in Hal. destruct Hal as [Hk Hown].
        apply Nat.ltb_lt in Hk.
        assert (Hown' : (1 <= owns i k)%nat) by (destruct (owns i k); [discriminate|lia]).
        pose proof (tot_ge (List.length thrs) owns i k HiT) as Hge.
        destruct (ic_slot _ _ _ _ _ _ _ H k Hk) as (_ & _ & C & _).
        set (w := mkW _ _ _ _). rewrite (wstep_decref_found w i _ _ _ _ (nth k slots 0) k Hi (C ltac:(lia)) _ _ eq_refl eq_refl).
        subst w. simpl. rewrite eqb_S_false.
        eapply InvC_local; eauto.
        apply (TDec2 _ _ _ _ _ _ k); simpl; auto. apply upd1_eq.
      * (* Get *)
        set (w := mkW _ _ _ _). rewrite (wstep_get w i _ _ _ _ (nth k slots 0) Hi _ _ eq_refl eq_refl).
        subst w. simpl. rewrite eqb_S_false.
        eapply InvC_local; eauto. apply TIdle. reflexivity.
      * (* Len *)
        set (w := mkW _ _ _ _). rewrite (wstep_len w i _ _ _ _ Hi).
        subst w. simpl. rewrite eqb_S_false.
        eapply InvC_local; eauto. apply TIdle. reflexivity.
      * (* raw ids are excluded by the discipline *)
        discriminate.
    + (* Incref: the increment *)
      inversion Hce; subst c.
      rewrite Hcu in Hal. apply Z.ltb_lt in Hal. unfold total in Hal. simpl in Hal.
      set (w := mkW _ _ _ _). rewrite (wstep_inc2 w i _ _ _ _ Hi). subst w. simpl. rewrite eqb_S_false, Hcu.
      apply InvC_cur_ext with (cur := cur).
      { intros t. unfold upd1. destruct (Nat.eqb_spec t i); subst; auto. }
      eapply InvC_inc2; eauto.
    + (* Decref: the decrement *)
      inversion Hce; subst c.
      set (w := mkW _ _ _ _). rewrite (wstep_dec2 w i _ _ _ _ Hi). subst w. simpl. rewrite eqb_S_false, Hcu.
      apply InvC_cur_ext with (cur := cur).
      { intros t. unfold upd1. destruct (Nat.eqb_spec t i); subst; auto. }
      apply (InvC_dec2 _ _ _ _ _ _ _ _ _ _ _ H Hi); auto.
    + (* Decref: the removal *)
      inversion Hce; subst c.
      destruct (ic_slot _ _ _ _ _ _ _ H k Hk) as (A & _).
      rewrite Htot in A.
      set (w := mkW _ _ _ _). rewrite (wstep_dec3 w i _ _ _ _ Hi A). subst w. simpl. rewrite eqb_S_false, Hcu.
      apply InvC_cur_ext with (cur := cur).
      { intros t. unfold upd1. destruct (Nat.eqb_spec t i); subst; auto. }
      apply (InvC_dec3 _ _ _ _ _ _ _ _ _ _ k _ H Hi); auto.
  - (* a hand-over *)
    simpl in Hal. simpl.
    destruct (nth_error thrs t) as [[th ops]|] eqn:Ht; [|discriminate].
    apply andb_true_iff in Hal. destruct Hal as [Hal Hown].
    apply andb_true_iff in Hal. destruct Hal as [Hp Hu].
    apply Nat.ltb_lt in Hu.
    assert (Hown' : (1 <= owns t k)%nat) by (destruct (owns t k); [discriminate|lia]).
    eapply InvC_give; eauto. destruct (t_prog th); [reflexivity|discriminate].
Qed.

Lemma Inv_exec : forall gs gw,
  Inv gw -> disciplinedb_from expected_progs gw gs = true -> Inv (gexec expected_progs gw gs).
Proof.
  induction gs as [|a gs IH]; simpl; intros gw H Hd; [exact H|].
  apply andb_true_iff in Hd. destruct Hd as [Ha Hd].
  apply IH; auto. apply Inv_step; auto.
Qed.

(** the invariant holds in every state a disciplined run reaches *)
Lemma Inv_reach : forall gs, 0 < seed < two64 ->
  disciplined_g expected_progs seed threads gs -> Inv (reach expected_progs seed threads gs).
Proof. intros gs Hs Hd. apply Inv_exec; [apply Inv_init; auto|exact Hd]. Qed.

Lemma d3_is_removal : forall gw t th ops k, Inv gw ->
  nth_error (w_thr (gw_w gw)) t = Some (th, ops) -> t_prog th = D3 -> t_cell th = Some k ->
  gw_cur gw t = Some (ODecref k) /\ t_h th = slot_id (gw_w gw) k /\
  (k < List.length (w_slots (gw_w gw)))%nat /\ total gw k = 0%nat.
Proof.
  intros gw t th ops k H Ht Hp Hc.
  destruct (ic_thr _ _ _ _ _ _ _ H t th ops Ht) as [Hp'|k' Hp'|k' Hp'|k' Hp' Hcu Hce Hh Hk Htot];
    rewrite Hp in Hp'; try discriminate.
  rewrite Hc in Hce. inversion Hce; subst k'. auto.
Qed.

Theorem refcount_invariant : refcount_invariant_at expected_progs seed threads.
Proof.
  intros pre suf Hs Hd. apply disciplined_prefix in Hd.
  pose proof (Inv_reach pre Hs Hd) as HI.
  set (gw := reach expected_progs seed threads pre) in *. cbv zeta.
  split; [|split; [|split]].
  - unfold gw, reach. rewrite gexec_world. reflexivity.
  - split; [apply (ic_nodup _ _ _ _ _ _ _ HI)|].
    intros h Hin. apply map_find_in in Hin. destruct Hin as [c E].
    destruct (ic_map _ _ _ _ _ _ _ HI h c E) as [Hc <-]. apply (ic_srange _ _ _ _ _ _ _ HI); auto.
  - intros k Hk. destruct (ic_slot _ _ _ _ _ _ _ HI k Hk) as (A & B & C & D).
    fold (total gw k) in A, B, C, D. fold (slot_id (gw_w gw) k) in C, D.
    split; [split; assumption|]. split.
    + intros Hc. specialize (C Hc). split; [apply map_find_some_in|]; exact C.
    + intros Hz. destruct (D Hz) as [E|(t & th & ops & Ht & Hp & Hc)].
      * left. intro Hin. apply map_find_in in Hin. destruct Hin as [c E']. congruence.
      * right. destruct (d3_is_removal gw t th ops k HI Ht Hp Hc) as (X1 & X2 & _).
        exists t, th, ops. auto.
  - intros t k Hk. apply (ic_supp _ _ _ _ _ _ _ HI). auto.
Qed.

Theorem pending_removal_removes : pending_removal_removes_at expected_progs seed threads.
Proof.
  intros gs Hs Hd. pose proof (Inv_reach gs Hs Hd) as HI.
  set (gw := reach expected_progs seed threads gs) in *. cbv zeta.
  intros t th ops k Ht Hp Hc.
  destruct (d3_is_removal gw t th ops k HI Ht Hp Hc) as (_ & Hh & Hk & Hz).
  destruct (ic_slot _ _ _ _ _ _ _ HI k Hk) as (A & _). fold (total gw k) in A. rewrite Hz in A.
  destruct th as [p h c v]. simpl in *. subst p c.
  rewrite (wstep_dec3 _ _ _ _ _ _ Ht A). simpl. rewrite map_find_del, Hh, Z.eqb_refl. reflexivity.
Qed.

Theorem released_means_removed : released_means_removed_at expected_progs seed threads.
Proof.
  intros gs Hs Hd. pose proof (Inv_reach gs Hs Hd) as HI.
  set (gw := reach expected_progs seed threads gs) in *. cbv zeta.
  intros Hq Hz.
  destruct (g_map (w_g (gw_w gw))) as [|[h c] m'] eqn:Em; [reflexivity|exfalso].
  assert (E : map_find (g_map (w_g (gw_w gw))) h = Some c) by (rewrite Em; simpl; rewrite Z.eqb_refl; reflexivity).
  destruct (ic_map _ _ _ _ _ _ _ HI h c E) as [Hc Hh].
  destruct (ic_slot _ _ _ _ _ _ _ HI c Hc) as (_ & _ & _ & D).
  assert (Ht : tot (List.length (w_thr (gw_w gw))) (gw_owns gw) c = 0%nat)
    by (apply sumf_zero; intros; apply Hz).
  destruct (D Ht) as [X|(t & th & ops & Hn & Hp & _)].
  - rewrite Hh in X. congruence.
  - unfold quiescent in Hq. rewrite forallb_forall in Hq.
    specialize (Hq (th, ops) (nth_error_In _ _ Hn)). simpl in Hq. rewrite Hp in Hq. discriminate.
Qed.

Theorem owner_lookup_succeeds : owner_lookup_succeeds_at expected_progs seed threads.
Proof.
  intros gs Hs Hd. pose proof (Inv_reach gs Hs Hd) as HI.
  set (gw := reach expected_progs seed threads gs) in *. cbv zeta.
  intros i th k r Hi Hp Hown.
  assert (HiT : (i < List.length (w_thr (gw_w gw)))%nat) by (apply nth_error_Some; congruence).
  assert (Hk : (k < List.length (w_slots (gw_w gw)))%nat).
  { destruct (Nat.lt_ge_cases k (List.length (w_slots (gw_w gw)))); auto.
    rewrite (ic_supp _ _ _ _ _ _ _ HI i k) in Hown; [lia|auto]. }
  pose proof (tot_ge (List.length (w_thr (gw_w gw))) (gw_owns gw) i k HiT) as Hge.
  destruct (ic_slot _ _ _ _ _ _ _ HI k Hk) as (_ & _ & C & _). specialize (C ltac:(lia)).
  destruct th as [p h c v]. simpl in Hp. subst p.
  rewrite (wstep_get _ _ _ _ _ _ (slot_id (gw_w gw) k) Hi _ _ eq_refl eq_refl).
  unfold slot_id. simpl. rewrite C. split; [reflexivity|]. split; [reflexivity|].
  eexists. split; [apply nth_error_set_nth_eq; auto|]. auto.
Qed.

End Protocol.

Theorem stale_is_noop : stale_is_noop_at expected_progs.
Proof.
  intros w i th o r h Hi Hp Ho F.
  assert (HiT : (i < List.length (w_thr w))%nat) by (apply nth_error_Some; congruence).
  destruct th as [p h0 c v]. simpl in Hp. subst p. cbv zeta.
  assert (Hinc : start_op expected_progs w o = mkT incref_prog h None 0 ->
                 op_is_get o = false ->
    w_g (wstep expected_progs w i) = w_g w /\ w_slots (wstep expected_progs w i) = w_slots w /\
    (exists th', nth_error (w_thr (wstep expected_progs w i)) i = Some (th', r) /\ t_prog th' = []) /\
    (forall j, j <> i -> nth_error (w_thr (wstep expected_progs w i)) j = nth_error (w_thr w) j) /\
    w_log (wstep expected_progs w i) = if op_is_get o then w_log w ++ [(i, 1, 0)] else w_log w).
  { intros S G. rewrite (wstep_incref_missing w i _ _ _ _ h Hi F o r eq_refl S). simpl. rewrite G.
    repeat split; auto.
    - eexists. split; [apply nth_error_set_nth_eq; auto|reflexivity].
    - intros j Hj. apply nth_error_set_nth_neq; auto. }
  assert (Hdec : start_op expected_progs w o = mkT decref_prog h None 0 ->
                 op_is_get o = false ->
    w_g (wstep expected_progs w i) = w_g w /\ w_slots (wstep expected_progs w i) = w_slots w /\
    (exists th', nth_error (w_thr (wstep expected_progs w i)) i = Some (th', r) /\ t_prog th' = []) /\
    (forall j, j <> i -> nth_error (w_thr (wstep expected_progs w i)) j = nth_error (w_thr w) j) /\
    w_log (wstep expected_progs w i) = if op_is_get o then w_log w ++ [(i, 1, 0)] else w_log w).
  { intros S G. rewrite (wstep_decref_missing w i _ _ _ _ h Hi F o r eq_refl S). simpl. rewrite G.
    repeat split; auto.
    - eexists. split; [apply nth_error_set_nth_eq; auto|reflexivity].
    - intros j Hj. apply nth_error_set_nth_neq; auto. }
  assert (Hget : start_op expected_progs w o = mkT get_prog h None 0 ->
                 op_is_get o = true ->
    w_g (wstep expected_progs w i) = w_g w /\ w_slots (wstep expected_progs w i) = w_slots w /\
    (exists th', nth_error (w_thr (wstep expected_progs w i)) i = Some (th', r) /\ t_prog th' = []) /\
    (forall j, j <> i -> nth_error (w_thr (wstep expected_progs w i)) j = nth_error (w_thr w) j) /\
    w_log (wstep expected_progs w i) = if op_is_get o then w_log w ++ [(i, 1, 0)] else w_log w).
  { intros S G. rewrite (wstep_get w i _ _ _ _ h Hi o r eq_refl S). simpl. rewrite G, F.
    repeat split; auto.
    - eexists. split; [apply nth_error_set_nth_eq; auto|reflexivity].
    - intros j Hj. apply nth_error_set_nth_neq; auto. }
  destruct o as [|k|k|k| |h1 j]; simpl in Ho; try discriminate; inversion Ho; subst h.
  - apply Hinc; reflexivity.
  - apply Hdec; reflexivity.
  - apply Hget; reflexivity.
  - destruct j as [|[|j]].
    + apply Hinc; reflexivity.
    + apply Hdec; reflexivity.
    + apply Hget; reflexivity.
Qed.

(** the instrumented run is the model's run *)
Lemma reach_world : forall P seed threads gs,
  gw_w (reach P seed threads gs) = run_schedule P seed threads (erase gs).
Proof. intros. unfold reach. rewrite gexec_world. reflexivity. Qed.

Lemma reach_world_plain : forall P seed threads sched,
  gw_w (reach P seed threads (map GStep sched)) = run_schedule P seed threads sched.
Proof. intros. rewrite reach_world, erase_map_GStep. reflexivity. Qed.

(** ** the bound clause of the discipline cannot fail in short runs: in a
    disciplined run every total is at most the number of scheduler steps made,
    so only a run of 2^32 - 1 or more steps can reach the 2^32 limit
    (any programs [P]) *)
Lemma wstep_length_thr : forall P w i, List.length (w_thr (wstep P w i)) = List.length (w_thr w).
Proof.
  intros P w i. unfold wstep.
  destruct (nth_error (w_thr w) i) as [[t ops]|]; [|reflexivity].
  destruct (match t_prog t, ops with
            | [], o :: r => (start_op P w o, r, Some o)
            | _, _ => (t, ops, None) end) as [[t0 ops0] cur].
  destruct (t_prog t0); [reflexivity|].
  destruct (tstep (w_g w) t0). simpl. apply length_set_nth.
Qed.

Lemma tot_upd2_le : forall nT f i k0 v k,
  (tot nT (upd2 f i k0 v) k <= tot nT f k + (v - f i k0))%nat.
Proof.
  intros nT f i k0 v k. destruct (Nat.eq_dec k k0) as [->|Hne].
  - destruct (Nat.lt_ge_cases i nT) as [Hi|Hi].
    + pose proof (tot_upd2_same nT f i k0 v Hi). lia.
    + unfold tot. rewrite (sumf_ext nT (fun t => upd2 f i k0 v t k0) (fun t => f t k0)); [lia|].
      intros t Ht. apply upd2_neq. lia.
  - rewrite tot_upd2_other by auto. lia.
Qed.

Lemma total_step_le : forall P gw a k, allowedb gw a = true ->
  (total (gstep P gw a) k <= total gw k + match a with GStep _ => 1 | GGive _ _ _ => 0 end)%nat.
Proof.
  intros P gw a k Hal. destruct a as [i|t u k0]; simpl.
  - unfold gstep_thr.
    destruct (nth_error (w_thr (gw_w gw)) i) as [[th ops]|]; [|lia].
    match goal with |- context [match ?b with Some _ => _ | None => _ end] => destruct b as [[cur head]|] end;
      [|lia].
    unfold total. simpl. rewrite wstep_length_thr.
    assert (U : forall k0 v, (v <= gw_owns gw i k0 + 1)%nat ->
                (tot (List.length (w_thr (gw_w gw))) (upd2 (gw_owns gw) i k0 v) k
                 <= tot (List.length (w_thr (gw_w gw))) (gw_owns gw) k + 1)%nat).
    { intros k0 v Hv. pose proof (tot_upd2_le (List.length (w_thr (gw_w gw))) (gw_owns gw) i k0 v k). lia. }
    repeat match goal with
           | |- context [if ?b then _ else _] => destruct b
           | |- context [match ?x with _ => _ end] => destruct x
           end; try (apply U; lia); lia.
  - unfold allowedb in Hal. unfold total, ggive. simpl.
    destruct (nth_error (w_thr (gw_w gw)) t) as [[th ops]|] eqn:Ht; [|discriminate].
    assert (HtT : (t < List.length (w_thr (gw_w gw)))%nat) by (apply nth_error_Some; congruence).
    apply andb_true_iff in Hal. destruct Hal as [Hal Hown].
    apply andb_true_iff in Hal. destruct Hal as [_ Hu].
    apply Nat.ltb_lt in Hu. apply Nat.leb_le in Hown.
    set (nT := List.length (w_thr (gw_w gw))) in *.
    set (o1 := upd2 (gw_owns gw) t k0 (gw_owns gw t k0 - 1)%nat).
    destruct (Nat.eq_dec k k0) as [->|Hne].
    + pose proof (tot_upd2_same nT o1 u k0 (o1 u k0 + 1)%nat Hu).
      pose proof (tot_upd2_same nT (gw_owns gw) t k0 (gw_owns gw t k0 - 1)%nat HtT).
      fold o1 in H0. lia.
    + unfold o1. rewrite !tot_upd2_other by auto. lia.
Qed.

Theorem total_le_steps : forall P seed threads gs k,
  disciplined_g P seed threads gs ->
  (total (reach P seed threads gs) k <= List.length (erase gs))%nat.
Proof.
  intros P seed threads gs k. unfold disciplined_g, reach.
  assert (G : forall gs gw, disciplinedb_from P gw gs = true ->
              (total (gexec P gw gs) k <= total gw k + List.length (erase gs))%nat).
  { induction gs0 as [|a gs0 IH]; intros gw Hd; simpl; [lia|].
    simpl in Hd. apply andb_true_iff in Hd. destruct Hd as [Ha Hd].
    specialize (IH _ Hd). pose proof (total_step_le P gw a k Ha).
    unfold gexec in *. remember (gstep P gw a) as gw' eqn:Egw. clear Egw Hd.
    destruct a; simpl in *; lia. }
  intros Hd. specialize (G gs _ Hd).
  assert (Z0 : total (ginit seed threads) k = 0%nat) by (apply sumf_zero; reflexivity).
  lia.
Qed.

(** consequences used when reading (b): 0 is never a live handle, and a
    released handle with no removal pending is a stale id in the sense of
    [stale_is_noop] *)
Corollary zero_is_never_live : forall seed threads,
  orbit_distinct seed (count_adds threads) ->
  forall gs, 0 < seed < two64 -> disciplined_g expected_progs seed threads gs ->
  map_find (g_map (w_g (gw_w (reach expected_progs seed threads gs)))) 0 = None.
Proof.
  intros seed threads Ho gs Hs Hd.
  destruct (refcount_invariant seed threads Ho gs [] Hs) as (_ & (_ & A) & _).
  { rewrite app_nil_r. exact Hd. }
  destruct (map_find (g_map (w_g (gw_w (reach expected_progs seed threads gs)))) 0) as [c|] eqn:E; auto.
  apply map_find_some_in in E. apply (in_map fst) in E. apply A in E. simpl in E. lia.
Qed.

(** ** the same theorems for the programs generated from storage.go *)
Corollary refcount_invariant_frameset : forall seed threads,
  orbit_distinct seed (count_adds threads) -> refcount_invariant_at frameset_progs seed threads.
Proof. rewrite (proj1 gen_programs_match). exact refcount_invariant. Qed.
Corollary refcount_invariant_fileseq : forall seed threads,
  orbit_distinct seed (count_adds threads) -> refcount_invariant_at fileseq_progs seed threads.
Proof. rewrite (proj2 gen_programs_match). exact refcount_invariant. Qed.

Corollary pending_removal_removes_frameset : forall seed threads,
  orbit_distinct seed (count_adds threads) -> pending_removal_removes_at frameset_progs seed threads.
Proof. rewrite (proj1 gen_programs_match). exact pending_removal_removes. Qed.
Corollary pending_removal_removes_fileseq : forall seed threads,
  orbit_distinct seed (count_adds threads) -> pending_removal_removes_at fileseq_progs seed threads.
Proof. rewrite (proj2 gen_programs_match). exact pending_removal_removes. Qed.

Corollary released_means_removed_frameset : forall seed threads,
  orbit_distinct seed (count_adds threads) -> released_means_removed_at frameset_progs seed threads.
Proof. rewrite (proj1 gen_programs_match). exact released_means_removed. Qed.
Corollary released_means_removed_fileseq : forall seed threads,
  orbit_distinct seed (count_adds threads) -> released_means_removed_at fileseq_progs seed threads.
Proof. rewrite (proj2 gen_programs_match). exact released_means_removed. Qed.

Corollary owner_lookup_succeeds_frameset : forall seed threads,
  orbit_distinct seed (count_adds threads) -> owner_lookup_succeeds_at frameset_progs seed threads.
Proof. rewrite (proj1 gen_programs_match). exact owner_lookup_succeeds. Qed.
Corollary owner_lookup_succeeds_fileseq : forall seed threads,
  orbit_distinct seed (count_adds threads) -> owner_lookup_succeeds_at fileseq_progs seed threads.
Proof. rewrite (proj2 gen_programs_match). exact owner_lookup_succeeds. Qed.

Corollary stale_is_noop_frameset : stale_is_noop_at frameset_progs.
Proof. rewrite (proj1 gen_programs_match). exact stale_is_noop. Qed.
Corollary stale_is_noop_fileseq : stale_is_noop_at fileseq_progs.
Proof. rewrite (proj2 gen_programs_match). exact stale_is_noop. Qed.

(* ------------------------------------------------------------------ *)
(** * 8. Non-vacuity *)

Definition ex_seed : Z := 88172645463325252.

(** thread 0 creates a handle, takes a second reference and hands it to
    thread 1; both then release.  The two Decrefs interleave block by block:
    thread 1 looks up, thread 0 looks up, thread 1 decrements (2 -> 1),
    thread 0 decrements (1 -> 0), thread 0 removes the entry. *)
Definition ex_threads : list (list opk) := [[OAdd; OIncref 0; ODecref 0]; [ODecref 0]]%nat.
Definition ex_sched : list gact :=
  [GStep 0; GStep 0; GStep 0; GGive 0 1 0; GStep 1; GStep 0; GStep 1; GStep 0; GStep 0]%nat.

Definition owns_table (gw : gworld) : list (list nat) :=
  map (fun t => map (gw_owns gw t) (seq 0 (List.length (w_slots (gw_w gw)))))
      (seq 0 (List.length (w_thr (gw_w gw)))).

Example ex_seed_range : 0 < ex_seed < two64.
Proof. vm_compute. split; reflexivity. Qed.

Example ex_orbit : orbit_distinct ex_seed (count_adds ex_threads).
Proof. intros i j H1 H2 H3. vm_compute in H3. lia. Qed.

Example ex_disciplined : disciplined_g expected_progs ex_seed ex_threads ex_sched.
Proof. vm_compute. reflexivity. Qed.

(** the run ends quiescent, all references given up, the map empty *)
Example ex_final :
  let gw := reach expected_progs ex_seed ex_threads ex_sched in
  quiescent (gw_w gw) = true /\ owns_table gw = [[0]; [0]]%nat /\
  g_map (w_g (gw_w gw)) = [] /\ g_cells (w_g (gw_w gw)) = [0].
Proof. vm_compute. auto. Qed.

(** after the hand-over and thread 1's decrement: both lookups done, thread 0
    still holds one reference, the entry is live with counter 1 *)
Example ex_shared :
  let gw := reach expected_progs ex_seed ex_threads (firstn 7 ex_sched) in
  owns_table gw = [[1]; [0]]%nat /\
  g_map (w_g (gw_w gw)) = [(8748534153485358512, 0%nat)] /\ g_cells (w_g (gw_w gw)) = [1] /\
  map (fun to => t_prog (fst to)) (w_thr (gw_w gw)) = [D2; []].
Proof. vm_compute. auto. Qed.

(** after thread 0's decrement: no references left, the entry is still in the
    map with counter 0, and thread 0 is committed to removing it *)
Example ex_removal_pending :
  let gw := reach expected_progs ex_seed ex_threads (firstn 8 ex_sched) in
  owns_table gw = [[0]; [0]]%nat /\
  g_map (w_g (gw_w gw)) = [(8748534153485358512, 0%nat)] /\ g_cells (w_g (gw_w gw)) = [0] /\
  map (fun to => t_prog (fst to)) (w_thr (gw_w gw)) = [D3; []].
Proof. vm_compute. auto. Qed.

(** the theorems apply to this run *)
Example ex_released : g_map (w_g (gw_w (reach expected_progs ex_seed ex_threads ex_sched))) = [].
Proof.
  apply (released_means_removed ex_seed ex_threads ex_orbit ex_sched ex_seed_range ex_disciplined).
  - vm_compute. reflexivity.
  - intros t k.
    destruct (refcount_invariant ex_seed ex_threads ex_orbit ex_sched [] ex_seed_range) as (_ & _ & _ & S).
    { rewrite app_nil_r. exact ex_disciplined. }
    destruct k as [|k]; [|apply S; vm_compute; lia].
    destruct t as [|[|t]]; try (vm_compute; reflexivity).
Qed.

(** the same schedule is disciplined for the generated programs *)
Example ex_disciplined_generated :
  disciplined_g frameset_progs ex_seed ex_threads ex_sched /\
  disciplined_g fileseq_progs ex_seed ex_threads ex_sched.
Proof. split; vm_compute; reflexivity. Qed.

(** without the hand-over the same interleaving is NOT disciplined (thread 1
    releases a reference it does not hold) *)
Example ex_undisciplined :
  disciplinedb_from expected_progs (ginit ex_seed ex_threads)
    (map GStep [0; 0; 0; 1; 0; 1; 0; 0]%nat) = false.
Proof. vm_compute. reflexivity. Qed.

(** a plain schedule: one thread; Get while holding the reference logs 1, Get
    after the release logs 0 *)
Example ex_plain :
  disciplined expected_progs ex_seed [[OAdd; OGet 0; ODecref 0; OGet 0]]%nat [0; 0; 0; 0; 0; 0]%nat /\
  let w := run_schedule expected_progs ex_seed [[OAdd; OGet 0; ODecref 0; OGet 0]]%nat [0; 0; 0; 0; 0; 0]%nat in
  w_log w = [(0%nat, 1, 1); (0%nat, 1, 0)] /\ g_map (w_g w) = [] /\ quiescent w = true.
Proof. split; [vm_compute; reflexivity|vm_compute; auto]. Qed.

(** a raw-id operation is outside the discipline *)
Example ex_stale_excluded :
  disciplined expected_progs ex_seed [[OStale 5 0]]%nat [0]%nat -> False.
Proof. vm_compute. discriminate. Qed.

