(** FrameSet-level corollaries of the range proofs (C02, C08). *)
From GFS Require Import Base Dec Ranges FrameSet SpecRanges SpecRange RangeBasics AppendProofs NormProofs.
Local Open Scope Z_scope.

Lemma fs_frames_enum_all : forall s f, new_frameset s = Ok f -> fs_frames f = enum_all (fs_blocks f).
Proof.
  intros s f H. unfold fs_frames. apply rs_iter_enum_all.
  destruct (new_frameset_WF s f H) as [Hwf _]. exact Hwf.
Qed.

Lemma fs_views : forall s f, new_frameset s = Ok f ->
  let L := fs_frames f in
  NoDup L /\
  fs_len f = Z.of_nat (List.length L) /\
  (forall i, 0 <= i < Z.of_nat (List.length L) -> fs_frame f i = Some (nth (Z.to_nat i) L 0)) /\
  (forall i, i < 0 \/ Z.of_nat (List.length L) <= i -> fs_frame f i = None) /\
  (forall v, fs_index f v = position v L) /\
  (forall v, fs_has_frame f v = true <-> In v L) /\
  fs_start f = hd 0 L /\
  fs_end f = last L 0.
Proof.
  intros s f H L. subst L.
  pose proof (new_frameset_WF s f H) as [Hwf Hnd].
  rewrite (fs_frames_enum_all s f H).
  unfold fs_len, fs_frame, fs_index, fs_has_frame, fs_start, fs_end.
  repeat split.
  - exact Hnd.
  - apply rs_len_length; exact Hwf.
  - intros i Hi. apply rs_value_nth; assumption.
  - intros i Hi. apply rs_value_out; assumption.
  - intros v. apply rs_index_position; exact Hwf.
  - apply rs_contains_In; exact Hwf.
  - apply rs_contains_In; exact Hwf.
  - apply rs_start_hd; exact Hwf.
  - apply rs_end_last; exact Hwf.
Qed.

(** frame-at-index and index-of-frame are inverse bijections *)
Lemma fs_bijection : forall s f, new_frameset s = Ok f ->
  (forall v, In v (fs_frames f) ->
     0 <= fs_index f v < fs_len f /\ fs_frame f (fs_index f v) = Some v) /\
  (forall i, 0 <= i < fs_len f ->
     exists v, fs_frame f i = Some v /\ In v (fs_frames f) /\ fs_index f v = i) /\
  (forall v, ~ In v (fs_frames f) -> fs_index f v = -1 /\ fs_has_frame f v = false).
Proof.
  intros s f H.
  destruct (fs_views s f H) as (Hnd & Hlen & Hnth & Hout & Hidx & Hhas & _ & _).
  split; [|split].
  - intros v Hv.
    destruct (proj1 (position_spec v (fs_frames f)) Hv) as [Hr Hn].
    rewrite Hidx, Hlen. split; [exact Hr|].
    rewrite Hnth by exact Hr. rewrite Hn. reflexivity.
  - intros i Hi. rewrite Hlen in Hi.
    exists (nth (Z.to_nat i) (fs_frames f) 0).
    split; [apply Hnth; exact Hi|].
    assert (Hlt : (Z.to_nat i < List.length (fs_frames f))%nat) by lia.
    split; [apply nth_In; exact Hlt|].
    rewrite Hidx.
    assert (G : forall l (n : nat), NoDup l -> (n < List.length l)%nat -> position (nth n l 0) l = Z.of_nat n).
    { induction l as [|x l IH]; intros n Hn Hl; [cbn in Hl; lia|].
      inversion Hn as [|? ? Hx Hl']; subst.
      destruct n as [|n].
      - cbn. rewrite Z.eqb_refl. reflexivity.
      - cbn [nth position]. cbn in Hl.
        destruct (Z.eqb_spec x (nth n l 0)) as [E|E].
        + exfalso. apply Hx. rewrite E. apply nth_In. lia.
        + rewrite IH by (assumption || lia).
          destruct (Z.ltb_spec (Z.of_nat n) 0); lia. }
    rewrite G by assumption. lia.
  - intros v Hv. split.
    + rewrite Hidx. apply (proj2 (position_spec v (fs_frames f))). exact Hv.
    + destruct (fs_has_frame f v) eqn:E; [|reflexivity].
      exfalso. apply Hv. apply Hhas. exact E.
Qed.

Lemma blocks_nonempty : forall s f, new_frameset s = Ok f -> fs_frames f <> [] -> fs_blocks f <> [].
Proof.
  intros s f H Hne Hb. apply Hne. unfold fs_frames. rewrite Hb. reflexivity.
Qed.

Lemma normalize_members : forall s f, new_frameset s = Ok f -> fs_frames f <> [] ->
  fs_frames (fs_normalize f) = sort_dedup (fs_frames f).
Proof.
  intros s f H Hne.
  pose proof (new_frameset_WF s f H) as [Hwf _].
  pose proof (blocks_nonempty s f H Hne) as Hb.
  destruct (normalized_members (fs_blocks f) Hwf Hb) as [Hwf' Heq].
  unfold fs_frames at 1. unfold fs_normalize. cbn [fs_blocks].
  rewrite rs_iter_enum_all by exact Hwf'.
  rewrite Heq. rewrite (fs_frames_enum_all s f H). reflexivity.
Qed.

Lemma invert_members : forall s f, new_frameset s = Ok f -> fs_frames f <> [] ->
  fs_frames (fs_invert f) = complement (fs_frames f).
Proof.
  intros s f H Hne.
  pose proof (new_frameset_WF s f H) as [Hwf _].
  pose proof (blocks_nonempty s f H Hne) as Hb.
  destruct (inverted_members (fs_blocks f) Hwf Hb) as [Hwf' Heq].
  unfold fs_frames at 1. unfold fs_invert. cbn [fs_blocks].
  rewrite rs_iter_enum_all by exact Hwf'.
  rewrite Heq. rewrite (fs_frames_enum_all s f H). reflexivity.
Qed.

(** Normalize / Invert depend on the member set only: idempotence and
    order-insensitivity at the level of the produced strings *)
Lemma normalize_members_only : forall invert s1 f1 s2 f2,
  new_frameset s1 = Ok f1 -> new_frameset s2 = Ok f2 ->
  fs_frames f1 <> [] -> fs_frames f2 <> [] ->
  (forall v, In v (fs_frames f1) <-> In v (fs_frames f2)) ->
  normalized invert (fs_blocks f1) = normalized invert (fs_blocks f2).
Proof.
  intros invert s1 f1 s2 f2 H1 H2 N1 N2 Hm.
  pose proof (new_frameset_WF s1 f1 H1) as [W1 _].
  pose proof (new_frameset_WF s2 f2 H2) as [W2 _].
  apply normalized_depends_on_members_only;
    try assumption; try (eapply blocks_nonempty; eassumption).
  intros v. rewrite <- (fs_frames_enum_all s1 f1 H1), <- (fs_frames_enum_all s2 f2 H2). apply Hm.
Qed.
