(** The frame paths of a file sequence: [q_frame_int], [q_index], [q_paths];
    soundness of the backtracking matcher (continuations are only ever called
    on a suffix of the input); tiling of the single-frame pattern; a concrete
    single-file path gives itself back at index 0. *)
From GFS Require Import Base Dec Regex GenRegex GenPadTables Ranges Pad FrameSet Path Seq
  SpecRanges RegexKit RangeRegex DecProofs PadProofs RangeBasics AppendProofs FrameSetProofs.

(** * Part 1: paths of a sequence that has a frame set *)

Theorem frame_path_spec : forall q f v, q_fs q = Some f ->
  q_frame_int q v = q_dir q ++ q_base q ++ zfill_int v (q_zfill q) ++ q_ext q.
Proof. intros q f v H. unfold q_frame_int. rewrite H. reflexivity. Qed.

(** = printf %0Nd: the sign counts, never truncates *)
Theorem zfill_int_printf : forall v w,
  (Z.of_nat (List.length (zfill_int v w)) = Z.max (Z.of_nat (List.length (itoa v))) w)%Z /\
  atoi_big (zfill_int v w) = Some v.
Proof. intros v w. split; [apply zfill_int_length_eq | apply zfill_int_value]. Qed.

Theorem index_spec : forall q s f i, q_fs q = Some f -> new_frameset s = Ok f ->
  (0 <= i < fs_len f -> q_index q i = q_frame_int q (nth (Z.to_nat i) (fs_frames f) 0))%Z /\
  ((i < 0 \/ fs_len f <= i)%Z -> q_index q i = []).
Proof.
  intros q s f i Hq Hf.
  destruct (fs_views s f Hf) as (_ & Hlen & Hnth & Hout & _).
  unfold q_index. rewrite Hq. split; intros Hi.
  - rewrite Hnth by (rewrite <- Hlen; exact Hi). reflexivity.
  - rewrite Hout by (rewrite <- Hlen; exact Hi). reflexivity.
Qed.

Lemma frame_int_inj : forall q f a b, q_fs q = Some f ->
  q_frame_int q a = q_frame_int q b -> a = b.
Proof.
  intros q f a b Hq H.
  rewrite (frame_path_spec q f a Hq), (frame_path_spec q f b Hq) in H.
  apply app_inv_head in H. apply app_inv_head in H. apply app_inv_tail in H.
  eapply zfill_int_inj. exact H.
Qed.

Lemma NoDup_map_injective : forall (A B : Type) (g : A -> B) (l : list A),
  (forall a b, g a = g b -> a = b) -> NoDup l -> NoDup (map g l).
Proof.
  intros A B g l Hinj H. induction H as [|x l Hx Hl IH]; cbn [map]; constructor.
  - intros Hin. apply in_map_iff in Hin. destruct Hin as (y & Hy & Hyl).
    apply Hinj in Hy. subst y. contradiction.
  - exact IH.
Qed.

Theorem paths_distinct : forall q s f, q_fs q = Some f -> new_frameset s = Ok f -> NoDup (q_paths q).
Proof.
  intros q s f Hq Hf. unfold q_paths. rewrite Hq.
  apply NoDup_map_injective.
  - intros a b. apply (frame_int_inj q f a b Hq).
  - destruct (fs_views s f Hf) as (Hnd & _). exact Hnd.
Qed.

Theorem index_no_frameset : forall q i, q_fs q = None -> q_index q i = q_string q.
Proof. intros q i H. unfold q_index. rewrite H. reflexivity. Qed.
(** * Part 2a: soundness of the matcher *)

(** the capture groups that occur in a regex *)
Fixpoint grps (r : re) : list nat :=
  match r with
  | RCat a b | RAlt a b => grps a ++ grps b
  | RStar _ a | ROpt _ a => grps a
  | RGrp n a => n :: grps a
  | _ => []
  end.

Definition only_keys (G : list nat) (ex : caps) : Prop := Forall (fun b => In (fst b) G) ex.

(** a matcher-like function calls its continuation on a suffix of the input,
    at the matching position, with extra bindings for groups of [G] only *)
Definition sound_body (body : nat -> bytes -> caps -> K -> option caps) (G : list nat) : Prop :=
  forall pos s cs k res, body pos s cs k = Some res ->
  exists n ex, (n <= List.length s)%nat /\ only_keys G ex /\
               k (pos + n)%nat (skipn n s) (ex ++ cs) = Some res.

Lemma only_keys_nil : forall G, only_keys G [].
Proof. intros G. constructor. Qed.

Lemma only_keys_app : forall G a b, only_keys G a -> only_keys G b -> only_keys G (a ++ b).
Proof. intros G a b Ha Hb. apply Forall_app. split; assumption. Qed.

Lemma only_keys_incl : forall G G' ex, incl G G' -> only_keys G ex -> only_keys G' ex.
Proof.
  intros G G' ex Hi H. unfold only_keys in *. rewrite Forall_forall in *.
  intros b Hb. apply Hi. apply H. exact Hb.
Qed.

Lemma here_sound : forall G (k : K) pos (s : bytes) cs res, k pos s cs = Some res ->
  exists n ex, (n <= List.length s)%nat /\ only_keys G ex /\
               k (pos + n)%nat (skipn n s) (ex ++ cs) = Some res.
Proof.
  intros G k pos s cs res H. exists 0%nat, []. split; [lia|]. split; [apply only_keys_nil|].
  rewrite Nat.add_0_r. exact H.
Qed.

Lemma star_sound : forall body G g, sound_body body G ->
  forall fuel k pos s cs res, star_loop body g k fuel pos s cs = Some res ->
  exists n ex, (n <= List.length s)%nat /\ only_keys G ex /\
               k (pos + n)%nat (skipn n s) (ex ++ cs) = Some res.
Proof.
  intros body G g Hb fuel. induction fuel as [|f IH]; intros k pos s cs res H.
  - rewrite star_loop_O in H. discriminate.
  - assert (Hiter : forall r,
      body pos s cs (fun p' s' cs' => if Nat.eqb p' pos then None else star_loop body g k f p' s' cs') = Some r ->
      exists n ex, (n <= List.length s)%nat /\ only_keys G ex /\
                   k (pos + n)%nat (skipn n s) (ex ++ cs) = Some r).
    { intros r Hr. apply Hb in Hr. destruct Hr as (n & ex & Hn & Hex & Hk).
      destruct (Nat.eqb (pos + n) pos); [discriminate|].
      apply IH in Hk. destruct Hk as (n' & ex' & Hn' & Hex' & Hk).
      rewrite skipn_length in Hn'.
      exists (n + n')%nat, (ex' ++ ex). split; [lia|]. split; [apply only_keys_app; assumption|].
      rewrite skipn_add, Nat.add_assoc, <- app_assoc. exact Hk. }
    destruct g.
    + rewrite star_loop_greedy_S in H.
      destruct (body pos s cs _) as [r|] eqn:E.
      * injection H as ->. apply Hiter. reflexivity.
      * apply here_sound. exact H.
    + rewrite star_loop_lazy_S in H.
      destruct (k pos s cs) as [r|] eqn:E.
      * injection H as ->. apply here_sound. exact E.
      * apply Hiter. exact H.
Qed.

Theorem m_sound : forall r, sound_body (m r) (grps r).
Proof.
  induction r as [|neg rs|a IHa b IHb|a IHa b IHb|g a IHa|g a IHa|n a IHa| |];
    intros pos s cs k res H; cbn [m grps] in *.
  - apply here_sound. exact H.
  - destruct s as [|c s']; [discriminate|].
    destruct (cls_match neg rs c); [|discriminate].
    exists 1%nat, []. split; [cbn [List.length]; lia|]. split; [apply only_keys_nil|].
    rewrite Nat.add_1_r. exact H.
  - apply IHa in H. destruct H as (n & ex & Hn & Hex & Hk).
    apply IHb in Hk. destruct Hk as (n' & ex' & Hn' & Hex' & Hk).
    rewrite skipn_length in Hn'.
    exists (n + n')%nat, (ex' ++ ex). split; [lia|]. split.
    + apply only_keys_app.
      * eapply only_keys_incl; [apply incl_appr, incl_refl | exact Hex'].
      * eapply only_keys_incl; [apply incl_appl, incl_refl | exact Hex].
    + rewrite skipn_add, Nat.add_assoc, <- app_assoc. exact Hk.
  - destruct (m a pos s cs k) as [r|] eqn:E.
    + injection H as ->. apply IHa in E. destruct E as (n & ex & Hn & Hex & Hk).
      exists n, ex. split; [exact Hn|]. split; [|exact Hk].
      eapply only_keys_incl; [apply incl_appl, incl_refl | exact Hex].
    + apply IHb in H. destruct H as (n & ex & Hn & Hex & Hk).
      exists n, ex. split; [exact Hn|]. split; [|exact Hk].
      eapply only_keys_incl; [apply incl_appr, incl_refl | exact Hex].
  - eapply star_sound; [exact IHa | exact H].
  - destruct g.
    + destruct (m a pos s cs k) as [r|] eqn:E.
      * injection H as ->. apply IHa. exact E.
      * apply here_sound. exact H.
    + destruct (k pos s cs) as [r|] eqn:E.
      * injection H as ->. apply here_sound. exact E.
      * apply IHa. exact H.
  - apply IHa in H. destruct H as (n' & ex & Hn & Hex & Hk).
    exists n', ((n, (pos, pos + n')%nat) :: ex). split; [exact Hn|]. split; [|exact Hk].
    constructor; [left; reflexivity|].
    eapply only_keys_incl; [|exact Hex]. apply incl_tl, incl_refl.
  - destruct (Nat.eqb pos 0); [|discriminate]. apply here_sound. exact H.
  - destruct s; [|discriminate]. apply here_sound. exact H.
Qed.

(** * Part 2b: the single-frame pattern tiles its input *)

Lemma only_keys_nil_inv : forall ex, only_keys [] ex -> ex = [].
Proof.
  intros ex H. destruct ex as [|b ex]; [reflexivity|].
  inversion H as [|? ? Hb _]. destruct Hb.
Qed.

Definition SF_NAME : re := RStar false (RCls true [(10, 10)]).
Definition SF_W : list (nat * nat) := [(48, 57); (65, 90); (95, 95); (97, 122)].
Definition SF_EXT : re :=
  RCat (RStar true (RCat (RCls false [(46, 46)])
          (RCat (RStar true (RCls false SF_W))
             (RCat (RCls false [(65, 90); (97, 122)]) (ROpt true (RCls false SF_W))))))
       (ROpt true (RCat (RCls false [(46, 46)])
          (RCat (RCls false [(0, 45); (47, 255)]) (RStar true (RCls false [(0, 45); (47, 255)]))))).

Lemma SF_eq : R_singleFramePattern =
  RCat RBot (RCat (RGrp 1 SF_NAME) (RCat (RGrp 2 NUM) (RCat (RGrp 3 SF_EXT) REot))).
Proof. reflexivity. Qed.

Lemma digit_not_dot : forall c, is_digit c = true -> Nat.eqb c 46 = false.
Proof. intros c H. apply is_digit_neq; [exact H | lia]. Qed.

(** what follows the frame number cannot start with a digit *)
Lemma ext_rejects_digits : forall (k : K) g pos c s cs, is_digit c = true ->
  m (RCat (RGrp g SF_EXT) REot) pos (c :: s) cs k = None.
Proof.
  intros k g pos c s cs H. rewrite m_cat, m_grp. unfold SF_EXT.
  rewrite m_cat, m_star. rewrite star_loop_greedy_S.
  rewrite m_cat, m_cls_cons, cls_single, (digit_not_dot _ H).
  rewrite m_opt_greedy, m_cat, m_cls_cons, cls_single, (digit_not_dot _ H).
  rewrite m_eot. reflexivity.
Qed.

Lemma fp_span_firstn_S : forall s k, span_len is_digit s = S k ->
  firstn (S k) s <> [] /\ all_digits (firstn (S k) s).
Proof.
  intros s k H. split.
  - rewrite <- H. eapply span_firstn_nonempty. exact H.
  - rewrite <- H. apply span_digits.
Qed.

Lemma fp_num_len_numeral : forall s n, num_len s = S n -> numeral (firstn (S n) s).
Proof.
  intros s n H. rewrite num_len_eq in H. destruct s as [|c r]; [discriminate|].
  destruct (Nat.eqb_spec c 45) as [->|Hc].
  - destruct (span_len is_digit r) as [|k] eqn:E; [discriminate|].
    injection H as <-. cbn [firstn]. apply numeral_neg. apply fp_span_firstn_S. exact E.
  - destruct (fp_span_firstn_S _ _ H) as [A B]. apply numeral_digits; assumption.
Qed.

(** the three captures of a successful match are consecutive slices that
    cover the input, and the middle one is a numeral *)
Lemma single_frame_offsets : forall p name frame ext,
  submatches R_singleFramePattern p 3 = Some [name; frame; ext] ->
  exists n1 n2,
    name = firstn n1 p /\ frame = firstn n2 (skipn n1 p) /\ ext = skipn n2 (skipn n1 p) /\
    numeral frame.
Proof.
  intros p name frame ext H. unfold submatches, rmatch in H. rewrite SF_eq in H.
  destruct (m _ 0%nat p [] _) as [res|] eqn:E; [|discriminate].
  cbn [seq map] in H. injection H as H1 H2 H3.
  rewrite m_cat, m_bot0 in E; cbv beta in E. rewrite m_cat, m_grp in E.
  apply m_sound in E. destruct E as (n1 & ex1 & Hn1 & Hex1 & E).
  apply only_keys_nil_inv in Hex1. subst ex1. cbv beta in E. cbn [app Nat.add] in E.
  rewrite m_cat, m_grp, m_num in E.
  2:{ intros pos c s cs Hc. cbv beta. apply ext_rejects_digits. exact Hc. }
  destruct (num_len (skipn n1 p)) as [|n2] eqn:En; [discriminate|]. cbv beta in E.
  rewrite m_cat, m_grp in E.
  apply m_sound in E. destruct E as (n3 & ex3 & Hn3 & Hex3 & E).
  apply only_keys_nil_inv in Hex3. subst ex3. cbv beta in E. cbn [app] in E.
  rewrite m_eot in E.
  destruct (skipn n3 (skipn (S n2) (skipn n1 p))) as [|x t] eqn:E3; [|discriminate].
  injection E as <-.
  cbn [cap_get cap_lookup Nat.eqb] in H1, H2, H3.
  rewrite slice_0 in H1. rewrite slice_off in H2, H3.
  exists n1, (S n2). split; [symmetry; exact H1|]. split; [symmetry; exact H2|]. split.
  - rewrite <- H3. rewrite skipn_add. apply skipn_nil_all. exact E3.
  - rewrite <- H2. apply fp_num_len_numeral. exact En.
Qed.

Theorem single_frame_tiles : forall p name frame ext,
  submatches R_singleFramePattern p 3 = Some [name; frame; ext] ->
  p = name ++ frame ++ ext /\ numeral frame.
Proof.
  intros p name frame ext H.
  destruct (single_frame_offsets p name frame ext H) as (n1 & n2 & -> & -> & -> & Hnum).
  split; [|exact Hnum].
  rewrite (firstn_skipn n2 (skipn n1 p)). symmetry. apply firstn_skipn.
Qed.

(** * Part 2c: a concrete single-file path gives itself back at index 0 *)

(** the frame text is not a negative zero: "-0", "-000", ... *)
Definition not_neg_zero (t : bytes) : Prop := forall ds, t = 45 :: ds -> dval ds 0 <> 0%Z.

Lemma path_split_app : forall p d b, path_split p = (d, b) -> p = d ++ b.
Proof.
  intros p d b H. unfold path_split in H. destruct (last_index c_slash p) as [i|].
  - injection H as <- <-. symmetry. exact (firstn_skipn (S i) p).
  - injection H as <- <-. reflexivity.
Qed.

Lemma remove_byte_id : forall c s, Forall (fun x => x <> c) s -> remove_byte c s = s.
Proof.
  intros c s H. unfold remove_byte. induction H as [|x s Hx Hs IH]; [reflexivity|].
  cbn [filter]. rewrite (proj2 (Nat.eqb_neq x c) Hx). cbn [negb]. rewrite IH. reflexivity.
Qed.

Lemma split_on_single : forall sep s, Forall (fun x => x <> sep) s -> split_on sep s = [s].
Proof.
  intros sep s H. induction H as [|x s Hx Hs IH]; [reflexivity|].
  cbn [split_on]. rewrite (proj2 (Nat.eqb_neq x sep) Hx), IH. reflexivity.
Qed.

Lemma numeral_bytes : forall t, numeral t -> Forall (fun x => x = 45 \/ is_digit x = true) t.
Proof.
  intros t H. destruct (numeral_inv t H) as [(ds & -> & _ & Hd) | (_ & Hd & _)].
  - constructor; [left; reflexivity|].
    eapply Forall_impl; [|exact Hd]. intros a Ha. right. exact Ha.
  - eapply Forall_impl; [|exact Hd]. intros a Ha. right. exact Ha.
Qed.

Lemma numeral_avoids : forall t c, numeral t -> c <> 45 -> is_digit c = false ->
  Forall (fun x => x <> c) t.
Proof.
  intros t c H Hc Hd. eapply Forall_impl; [|apply numeral_bytes; exact H].
  intros a [->|Ha] E; [congruence|]. subst a. congruence.
Qed.

Lemma span_all_digits : forall ds, all_digits ds -> span_len is_digit ds = List.length ds.
Proof. intros ds H. apply span_len_all. apply all_digits_forallb. exact H. Qed.

Lemma num_len_of_numeral : forall t, numeral t -> num_len t = List.length t.
Proof.
  intros t H. rewrite num_len_eq.
  destruct (numeral_inv t H) as [(ds & -> & Hne & Hd) | (Hne & Hd & Hns)].
  - cbn [Nat.eqb List.length]. rewrite (span_all_digits ds Hd).
    destruct ds; [congruence|]. reflexivity.
  - destruct t as [|c r]; [congruence|].
    destruct (Nat.eqb_spec c 45) as [->|Hc]; [exfalso; eapply Hns; reflexivity|].
    apply span_all_digits. exact Hd.
Qed.

Lemma tcomp_numeral : forall t, numeral t -> tcomp t = Some [t].
Proof.
  intros t H. rewrite tcomp_eq. rewrite (num_len_of_numeral t H).
  assert (Hne : t <> []).
  { destruct (numeral_inv t H) as [(ds & -> & _) | (Hne & _)]; [discriminate | exact Hne]. }
  destruct t as [|c r]; [congruence|]. cbn [List.length].
  change (S (List.length r)) with (List.length (c :: r)).
  rewrite skipn_all, firstn_all. reflexivity.
Qed.

Lemma new_frameset_numeral : forall t v, numeral t -> atoi t = Some v ->
  exists f, new_frameset t = Ok f /\ fs_frame f 0 = Some v.
Proof.
  intros t v H Hv. unfold new_frameset, frame_range_matches.
  assert (Hs : strip_pad_and_space t = t).
  { unfold strip_pad_and_space. change all_chars with [[35]; [64]].
    cbn [fold_left strip_key].
    rewrite (remove_byte_id 35 t) by (apply numeral_avoids; [exact H | lia | reflexivity]).
    rewrite (remove_byte_id 64 t) by (apply numeral_avoids; [exact H | lia | reflexivity]).
    apply remove_byte_id. apply numeral_avoids; [exact H | unfold c_space; lia | reflexivity]. }
  rewrite Hs. rewrite split_on_single by (apply numeral_avoids; [exact H | unfold c_comma; lia | reflexivity]).
  cbn [match_parts]. rewrite match_part_char, (tcomp_numeral t H). cbn [bind].
  cbn [handle_matches handle_match]. rewrite (parse_int_some t v Hv). cbn [bind].
  eexists. split; [reflexivity|].
  unfold fs_frame. cbn [fs_blocks]. unfold append_unique. cbn [Z.eqb].
  rewrite Z.leb_refl. unfold rs_append. cbn [app Z.abs]. unfold new_range. cbn [Z.eqb].
  unfold rs_value. cbn [Z.ltb Z.compare rs_value_from].
  unfold ir_len, ir_value, ir_end, cdiv. cbn [r_start r_end r_step Z.eqb orb Z.abs].
  rewrite !Z.sub_diag.
  change ((Z.abs 0 + 1 + 1 - 1) / 1)%Z with 1%Z.
  change (0 <? 1)%Z with true. change (0 <? 0)%Z with false.
  change ((1 =? 1)%positive) with true. cbn [orb]. cbv iota.
  replace (v + 1 * 0)%Z with v by lia.
  rewrite Z.ltb_irrefl, Z.gtb_ltb, Z.ltb_irrefl. cbn [orb andb]. rewrite andb_false_r. reflexivity.
Qed.

Lemma new_frameset_numeral_err : forall t, numeral t -> atoi t = None -> opt_frameset t = None.
Proof.
  intros t H Hv. unfold opt_frameset, new_frameset, frame_range_matches.
  assert (Hs : strip_pad_and_space t = t).
  { unfold strip_pad_and_space. change all_chars with [[35]; [64]].
    cbn [fold_left strip_key].
    rewrite (remove_byte_id 35 t) by (apply numeral_avoids; [exact H | lia | reflexivity]).
    rewrite (remove_byte_id 64 t) by (apply numeral_avoids; [exact H | lia | reflexivity]).
    apply remove_byte_id. apply numeral_avoids; [exact H | unfold c_space; lia | reflexivity]. }
  rewrite Hs. rewrite split_on_single by (apply numeral_avoids; [exact H | unfold c_comma; lia | reflexivity]).
  cbn [match_parts]. rewrite match_part_char, (tcomp_numeral t H). cbn [bind].
  cbn [handle_matches handle_match]. rewrite (parse_int_none t Hv). cbn [bind]. reflexivity.
Qed.

Lemma no_fs_index : forall d b e st,
  q_index (set_padding (mkQ d b e [] 0 None st) []) 0 = d ++ b ++ e.
Proof. reflexivity. Qed.

Lemma numeral_length_pos : forall t, numeral t -> (1 <= Z.of_nat (List.length t))%Z.
Proof.
  intros t H.
  destruct (numeral_inv t H) as [(ds & -> & _) | (Hne & _)].
  - cbn [List.length]. lia.
  - destruct t; [congruence|]. cbn [List.length]. lia.
Qed.

Theorem single_file_roundtrip : forall p st q,
  submatches R_splitPattern p 4 = None ->
  new_fileseq p st = Ok q ->
  (forall name frame ext, submatches R_singleFramePattern (snd (path_split p)) 3 = Some [name; frame; ext] ->
       not_neg_zero frame) ->
  q_index q 0 = p.
Proof.
  intros p st q Hsplit Hq Hfr.
  unfold new_fileseq in Hq. rewrite Hsplit in Hq. unfold new_single in Hq.
  destruct (existsb _ all_chars); [discriminate|].
  destruct (path_split p) as [dir b0] eqn:Eps. cbn [snd] in Hfr. apply path_split_app in Eps.
  set (be := match last_index c_dot b0 with
             | Some i => (firstn i b0, skipn i b0) | None => (b0, []) end) in Hq.
  assert (Hbe : b0 = fst be ++ snd be).
  { subst be. destruct (last_index c_dot b0) as [i|]; cbn [fst snd].
    - symmetry. apply firstn_skipn.
    - rewrite app_nil_r. reflexivity. }
  destruct be as [basename ext]. cbn [fst snd] in Hbe. cbv zeta in Hq.
  assert (Hnofs : Ok (set_padding (mkQ dir basename ext [] 0 None st) []) = Ok q -> q_index q 0 = p).
  { intros E. injection E as <-. rewrite no_fs_index. subst p b0. reflexivity. }
  match type of Hq with (if ?b then _ else _) = _ => destruct b end; [apply Hnofs; exact Hq|].
  destruct (submatches R_singleFramePattern b0 3) as [l|] eqn:Esf; [|apply Hnofs; exact Hq].
  destruct l as [|name [|frame [|ext' [|x l]]]]; try (apply Hnofs; exact Hq).
  pose proof (Hfr name frame ext' eq_refl) as Hnz.
  destruct (single_frame_tiles b0 name frame ext' Esf) as [Htile Hnum].
  destruct (atoi frame) as [v|] eqn:Hv;
    [|rewrite (new_frameset_numeral_err frame Hnum Hv) in Hq; apply Hnofs; exact Hq].
  destruct (new_frameset_numeral frame v Hnum Hv) as (f & Hf & Hf0).
  unfold opt_frameset in Hq. rewrite Hf in Hq.
  injection Hq as <-.
  unfold q_index, set_padding. cbn [q_fs q_dir q_base q_ext q_style].
  rewrite Hf0. unfold q_frame_int. cbn [q_fs q_dir q_base q_ext q_zfill].
  rewrite pad_roundtrip_proof by (apply numeral_length_pos; exact Hnum).
  rewrite zfill_int_reconstruct.
  - rewrite Eps, Htile. reflexivity.
  - exact Hnum.
  - rewrite atoi_atoi_big in Hv. destruct (atoi_big frame) as [z|]; [|discriminate].
    destruct (fits_int z); [|discriminate]. exact Hv.
  - exact Hnz.
Qed.

(** the condition on the recognised frame text is needed *)
Example neg_zero_is_excluded :
  exists q, new_fileseq (s2b "foo.-0.exr") Hash4 = Ok q /\ q_index q 0 = s2b "foo.00.exr".
Proof. eexists. split; vm_compute; reflexivity. Qed.

(** a number that does not fit an int is simply not a frame: the path still comes back *)
Example overflowing_frame_roundtrips :
  exists q, new_fileseq (s2b "foo.99999999999999999999.tar.gz") Hash4 = Ok q /\
            q_index q 0 = s2b "foo.99999999999999999999.tar.gz".
Proof. eexists. split; vm_compute; reflexivity. Qed.

Print Assumptions frame_path_spec.
Print Assumptions zfill_int_printf.
Print Assumptions index_spec.
Print Assumptions paths_distinct.
Print Assumptions index_no_frameset.
Print Assumptions m_sound.
Print Assumptions single_frame_tiles.
Print Assumptions single_file_roundtrip.
