(** Generic lemmas about the backtracking matcher of Lib/Regex.v: a star
    over a single character class is a plain recursive scan, and a greedy
    scan whose continuation rejects class bytes commits to the maximal run. *)
From GFS Require Import Base Regex.

(** * unfolding equations *)

Lemma star_loop_O : forall body g k pos s cs, star_loop body g k O pos s cs = None.
Proof. reflexivity. Qed.

Lemma star_loop_greedy_S : forall body k f pos s cs,
  star_loop body true k (S f) pos s cs =
  match body pos s cs
             (fun p' s' cs' => if Nat.eqb p' pos then None else star_loop body true k f p' s' cs') with
  | Some r => Some r
  | None => k pos s cs
  end.
Proof. reflexivity. Qed.

Lemma star_loop_lazy_S : forall body k f pos s cs,
  star_loop body false k (S f) pos s cs =
  match k pos s cs with
  | Some r => Some r
  | None => body pos s cs
              (fun p' s' cs' => if Nat.eqb p' pos then None else star_loop body false k f p' s' cs')
  end.
Proof. reflexivity. Qed.

Lemma m_cls_cons : forall neg rs pos c s cs k,
  m (RCls neg rs) pos (c :: s) cs k = if cls_match neg rs c then k (S pos) s cs else None.
Proof. reflexivity. Qed.

Lemma m_cls_nil : forall neg rs pos cs k, m (RCls neg rs) pos [] cs k = None.
Proof. reflexivity. Qed.

Lemma m_cat : forall a b pos s cs k,
  m (RCat a b) pos s cs k = m a pos s cs (fun p' s' cs' => m b p' s' cs' k).
Proof. reflexivity. Qed.

Lemma m_grp : forall n a pos s cs k,
  m (RGrp n a) pos s cs k = m a pos s cs (fun p' s' cs' => k p' s' ((n, (pos, p')) :: cs')).
Proof. reflexivity. Qed.

Lemma m_star : forall g a pos s cs k,
  m (RStar g a) pos s cs k = star_loop (m a) g k (S (List.length s)) pos s cs.
Proof. reflexivity. Qed.

Lemma m_opt_greedy : forall a pos s cs k,
  m (ROpt true a) pos s cs k =
  match m a pos s cs k with Some r => Some r | None => k pos s cs end.
Proof. reflexivity. Qed.

Lemma m_bot0 : forall s cs k, m RBot 0 s cs k = k 0%nat s cs.
Proof. reflexivity. Qed.

Lemma m_eot : forall pos s cs k,
  m REot pos s cs k = match s with [] => k pos s cs | _ => None end.
Proof. reflexivity. Qed.

Lemma opt_id : forall (A : Type) (x : option A),
  match x with Some r => Some r | None => None end = x.
Proof. destruct x; reflexivity. Qed.

Lemma eqb_S_n : forall n, Nat.eqb (S n) n = false.
Proof. intros n. apply Nat.eqb_neq. lia. Qed.

(** * greedy / lazy star over a single character class = a recursive scan *)

Fixpoint gscan (p : byte -> bool) (k : K) (pos : nat) (s : bytes) (cs : caps) : option caps :=
  match s with
  | c :: s' => if p c then match gscan p k (S pos) s' cs with Some r => Some r | None => k pos s cs end
               else k pos s cs
  | [] => k pos s cs
  end.

(** Meaning (see [lscan_eq]): try the continuation first, then consume one
    class byte and go on.  Written with [match s] outermost for the guard
    checker. *)
Fixpoint lscan (p : byte -> bool) (k : K) (pos : nat) (s : bytes) (cs : caps) {struct s} : option caps :=
  match s with
  | c :: s' =>
    match k pos s cs with
    | Some r => Some r
    | None => if p c then lscan p k (S pos) s' cs else None
    end
  | [] => k pos s cs
  end.

Lemma lscan_eq : forall p k pos s cs,
  lscan p k pos s cs =
  match k pos s cs with
  | Some r => Some r
  | None => match s with c :: s' => if p c then lscan p k (S pos) s' cs else None | [] => None end
  end.
Proof. intros p k pos s cs. destruct s; cbn [lscan]; [symmetry; apply opt_id | reflexivity]. Qed.

Lemma greedy_cls : forall neg rs k s fuel pos cs, (List.length s < fuel)%nat ->
  star_loop (m (RCls neg rs)) true k fuel pos s cs = gscan (cls_match neg rs) k pos s cs.
Proof.
  intros neg rs k s. induction s as [|c s IH]; intros fuel pos cs H.
  - destruct fuel as [|f]; [cbn in H; lia|].
    rewrite star_loop_greedy_S, m_cls_nil. reflexivity.
  - destruct fuel as [|f]; [cbn in H; lia|].
    rewrite star_loop_greedy_S, m_cls_cons. cbn [gscan].
    destruct (cls_match neg rs c); [|reflexivity].
    rewrite eqb_S_n. rewrite IH by (cbn [List.length] in H; lia). reflexivity.
Qed.

Lemma lazy_cls : forall neg rs k s fuel pos cs, (List.length s < fuel)%nat ->
  star_loop (m (RCls neg rs)) false k fuel pos s cs = lscan (cls_match neg rs) k pos s cs.
Proof.
  intros neg rs k s. induction s as [|c s IH]; intros fuel pos cs H.
  - destruct fuel as [|f]; [cbn in H; lia|].
    rewrite star_loop_lazy_S, m_cls_nil. cbn [lscan]. apply opt_id.
  - destruct fuel as [|f]; [cbn in H; lia|].
    rewrite star_loop_lazy_S, m_cls_cons. cbn [lscan].
    destruct (k pos (c :: s) cs); [reflexivity|].
    destruct (cls_match neg rs c); [|reflexivity].
    rewrite eqb_S_n. apply IH. cbn [List.length] in H. lia.
Qed.

(** the two stars as they appear after [cbn [m]] *)
Lemma m_star_greedy_cls : forall neg rs pos s cs k,
  m (RStar true (RCls neg rs)) pos s cs k = gscan (cls_match neg rs) k pos s cs.
Proof. intros. rewrite m_star. apply greedy_cls. lia. Qed.

Lemma m_star_lazy_cls : forall neg rs pos s cs k,
  m (RStar false (RCls neg rs)) pos s cs k = lscan (cls_match neg rs) k pos s cs.
Proof. intros. rewrite m_star. apply lazy_cls. lia. Qed.

(** * maximal prefix of bytes satisfying p *)

Fixpoint span_len (p : byte -> bool) (s : bytes) : nat :=
  match s with c :: s' => if p c then S (span_len p s') else O | [] => O end.

Lemma span_len_le : forall p s, (span_len p s <= List.length s)%nat.
Proof.
  intros p s. induction s as [|c s IH]; cbn [span_len List.length]; [lia|].
  destruct (p c); lia.
Qed.

Lemma span_len_ext : forall p q s, (forall c, p c = q c) -> span_len p s = span_len q s.
Proof.
  intros p q s H. induction s as [|c s IH]; cbn [span_len]; [reflexivity|].
  rewrite H, IH. reflexivity.
Qed.

(** the byte after the maximal run, if any, is not a class byte *)
Lemma span_len_stop : forall p s c r, skipn (span_len p s) s = c :: r -> p c = false.
Proof.
  intros p s. induction s as [|d s IH]; intros c r H; cbn [span_len] in H.
  - discriminate.
  - destruct (p d) eqn:E.
    + cbn [skipn] in H. eapply IH; eassumption.
    + cbn [skipn] in H. injection H as -> _. exact E.
Qed.

Lemma span_len_forall : forall p s, forallb p (firstn (span_len p s) s) = true.
Proof.
  intros p s. induction s as [|d s IH]; cbn [span_len]; [reflexivity|].
  destruct (p d) eqn:E; [|reflexivity].
  cbn [firstn forallb]. rewrite E, IH. reflexivity.
Qed.

Lemma span_len_all : forall p s, span_len p s = List.length s <-> forallb p s = true.
Proof.
  intros p s. induction s as [|d s IH]; cbn [span_len List.length forallb]; [tauto|].
  destruct (p d); cbn [andb].
  - rewrite <- IH. split; intros; lia.
  - split; intros; [lia | discriminate].
Qed.

(** if the continuation rejects every input that starts with a class byte,
    the greedy scan commits to the maximal run *)
Lemma gscan_commit : forall p k s pos cs,
  (forall pos' c s' cs', p c = true -> k pos' (c :: s') cs' = None) ->
  gscan p k pos s cs = k (pos + span_len p s)%nat (skipn (span_len p s) s) cs.
Proof.
  intros p k s. induction s as [|c s IH]; intros pos cs Hk.
  - cbn [gscan span_len skipn]. rewrite Nat.add_0_r. reflexivity.
  - cbn [gscan span_len]. destruct (p c) eqn:E.
    + rewrite IH by exact Hk. rewrite (Hk pos c s cs E), opt_id.
      cbn [skipn]. rewrite Nat.add_succ_comm. reflexivity.
    + cbn [skipn]. rewrite Nat.add_0_r. reflexivity.
Qed.

(** the same when the continuation only ever sees the end of input *)
Lemma gscan_commit_star : forall neg rs k pos s cs,
  (forall pos' c s' cs', cls_match neg rs c = true -> k pos' (c :: s') cs' = None) ->
  m (RStar true (RCls neg rs)) pos s cs k =
  k (pos + span_len (cls_match neg rs) s)%nat (skipn (span_len (cls_match neg rs) s) s) cs.
Proof. intros. rewrite m_star_greedy_cls. apply gscan_commit. assumption. Qed.

(** * character classes *)

Lemma cls_digit : forall c, cls_match false [(48, 57)] c = is_digit c.
Proof. intros c. unfold cls_match, in_ranges, is_digit. apply orb_false_r. Qed.

Lemma cls_single : forall n c, cls_match false [(n, n)] c = Nat.eqb c n.
Proof.
  intros n c. unfold cls_match, in_ranges. rewrite orb_false_r.
  destruct (Nat.eqb_spec c n) as [->|Hne].
  - rewrite Nat.leb_refl. reflexivity.
  - destruct (Nat.leb_spec n c), (Nat.leb_spec c n); cbn [andb]; try reflexivity. lia.
Qed.

Lemma is_digit_range : forall c, is_digit c = true <-> (48 <= c <= 57)%nat.
Proof.
  intros c. unfold is_digit. rewrite andb_true_iff, !Nat.leb_le. tauto.
Qed.

Lemma is_digit_neq : forall c n, is_digit c = true -> (n < 48 \/ 57 < n)%nat -> Nat.eqb c n = false.
Proof.
  intros c n H Hn. apply is_digit_range in H. apply Nat.eqb_neq. lia.
Qed.

(** * slices *)

Lemma slice_0 : forall s n, slice s 0 n = firstn n s.
Proof. intros. unfold slice. rewrite Nat.sub_0_r. reflexivity. Qed.

Lemma slice_off : forall s a n, slice s a (a + n) = firstn n (skipn a s).
Proof. intros. unfold slice. replace (a + n - a)%nat with n by lia. reflexivity. Qed.

Lemma slice_off_eq : forall s a b n r, skipn a s = r -> b = (a + n)%nat -> slice s a b = firstn n r.
Proof. intros; subst. apply slice_off. Qed.

Lemma skipn_add : forall (s : bytes) a b, skipn (a + b) s = skipn b (skipn a s).
Proof.
  intros s a. revert s. induction a as [|a IH]; intros s b; [reflexivity|].
  destruct s as [|c s]; cbn [Nat.add skipn].
  - destruct b; reflexivity.
  - apply IH.
Qed.

Lemma skipn_S_of : forall (s : bytes) a c r, skipn a s = c :: r -> skipn (S a) s = r.
Proof.
  intros s a c r H. replace (S a) with (a + 1)%nat by lia.
  rewrite skipn_add, H. reflexivity.
Qed.

Lemma skipn_nil_all : forall (s : bytes) n, skipn n s = [] -> firstn n s = s.
Proof.
  intros s n H. rewrite <- (firstn_skipn n s) at 2. rewrite H, app_nil_r. reflexivity.
Qed.
