(** From the independent spec back to the model, through parse_denotes. *)
From GFS Require Import Base Dec Ranges Pad FrameSet Compress SpecRange ParseProofs CompressProofs PadRangeProofs.
Local Open Scope Z_scope.

Lemma spec_to_model : forall s l, spec_frames s = Some l ->
  exists f, new_frameset s = Ok f /\ fs_frames f = l /\ fs_range f = s.
Proof.
  intros s l H. pose proof (parse_denotes s) as P.
  destruct (new_frameset s) as [f|e|n|].
  - destruct P as [P1 P2]. rewrite H in P1. injection P1 as ->. exists f. auto.
  - rewrite P in H. discriminate.
  - contradiction.
  - contradiction.
Qed.

Lemma same_spec_same_parse : forall a b, spec_frames a = spec_frames b ->
  match new_frameset a, new_frameset b with
  | Ok f, Ok g => fs_frames f = fs_frames g
  | Err _, Err _ => True
  | _, _ => False
  end.
Proof.
  intros a b H. pose proof (parse_denotes a) as Pa. pose proof (parse_denotes b) as Pb.
  destruct (new_frameset a) as [f|e|n|]; destruct (new_frameset b) as [g|e'|n'|];
    try contradiction; try exact I.
  - destruct Pa as [Pa _]. destruct Pb as [Pb _]. rewrite Pa, Pb in H. injection H as H. exact H.
  - destruct Pa as [Pa _]. rewrite Pa, Pb in H. discriminate.
  - destruct Pb as [Pb _]. rewrite Pa, Pb in H. discriminate.
Qed.

(** C09 at the level of the parser model *)
Theorem f2r_right_inverse_proof : forall l sorted z, NoDup l -> Forall small l ->
  exists s, frames_to_frame_range l sorted z = Ok s /\
    (l = [] -> s = []) /\
    (l <> [] -> exists f, new_frameset s = Ok f /\ fs_frames f = (if sorted then zsort l else l)).
Proof.
  intros l sorted z Hn Hs.
  destruct (f2r_spec l sorted z Hn Hs) as (s & Hr & He & Hp).
  exists s. split; [exact Hr|]. split; [exact He|].
  intros Hne. destruct (spec_to_model s _ (Hp Hne)) as (f & Hf & Hfr & _).
  exists f. auto.
Qed.

(** C11 at the level of the parser model *)
Theorem pad_preserves_frames_proof : forall s w,
  match new_frameset (pad_frame_range s w), new_frameset s with
  | Ok f, Ok g => fs_frames f = fs_frames g
  | Err _, Err _ => True
  | _, _ => False
  end.
Proof. intros s w. apply same_spec_same_parse. apply pad_preserves_parse. Qed.
