(** C07, the pattern lookup FindSequenceOnDisk / FindSequenceOnDiskPad
    ([find_seq_on_disk], Model/Listing.v): every frame path of the sequence
    returned names an entry of the directory that was read, and when the
    entries taken by the pattern form one width group (in particular when
    they share one digit width) the sequence holds all of them.

    Theorems (all closed under the global context):
      - [find_one_sound]                 every path of the result is
                                         [q_dir t ++ n] for a non-directory
                                         entry [n] of [lookup_dir t] that the
                                         template takes; the result carries the
                                         template's directory, basename, extension
      - [find_one_complete_compatible]   one width group: the result holds ALL
                                         taken names, unless StrictPadding rejects
      - [find_one_complete_uniform]      the special case "one digit width"
      - [find_one_strict_rejects_compatible], [..._uniform]
                                         StrictPadding + padded pattern + other
                                         width: nothing is returned
      - [find_one_none_taken]            nothing taken: nothing returned
      - [find_one_strict_compatible]     StrictPadding: the width is the
                                         pattern's and every frame text is its
                                         number zero-filled to that width
      - [pad_pattern_base_no_digit], [frames_ok_pad_pattern]
                                         a pattern WITH a pad token has no
                                         digit-ending basename: the third
                                         conjunct of [frames_ok] is void
      - [new_fileseq_dir_base]           the first two conjuncts of [tmpl_ok]
                                         hold for every parsed pattern
      - [taken_inv], [taken_intro]       what "taken by the template" means
      - [lookup_example]                 the hypotheses are satisfiable

    Directories.  The lookup reads [lookup_dir t] ("." when the pattern has
    no directory) and hands the lister items whose directory is the cleaned
    prefix [dir_prefix (lookup_dir t)]; in the template branch the lister
    ignores that directory: the one bucket is keyed
    [(q_dir t, q_base t, q_ext t)].  So a file that EXISTS as
    [lookup_dir t / n] is REPORTED as [q_dir t ++ n]: pattern "foo.#.exr"
    scans "." and reports "foo.0001.exr"; "a//b/foo.#.exr" scans "a//b/"
    (the OS resolves it to a/b) and reports "a//b/foo.0001.exr".

    FINDING (digit base, [counterexample_digit_base]; reproduced on the Go
    code): a pattern without pad token whose basename ends in a digit, e.g.
    "a1-2.exr" (basename "a1", extension ".exr"), with ONE matching file
    "a15.exr" on disk.  The one-frame bucket clears the pad because the
    basename ends in a digit, appendSeq re-parses "a15.exr" as frame 15 of
    width 2, the basename is then forced back to "a1" and the range to "5":
    the lookup returns "a15@@.exr" whose only path is "a105.exr", a file that
    does not exist.  (Same with "v2-0001.exr" and the single file
    "v20005.exr": path "v200005.exr".)  Excluded by the third conjunct of
    [frames_ok]; it cannot happen for a pattern that holds a pad token.

    Restriction that is NOT a finding: [tmpl_ok] asks for an extension that
    is empty or starts with '.', because [append_seq_pad] does.  Patterns
    such as "foo.#_v1" evaluated correctly on every directory tried. *)
From Coq Require Import Permutation Sorted.
From GFS Require Import Base Dec Regex GenRegex GenPadTables Ranges Pad FrameSet Compress Path Seq Listing
  SpecRange SpecSeq RegexKit RangeRegex DecProofs PadProofs PadRangeProofs SplitProofs CompressProofs Glue
  FramePathProofs DiskProofs SpecListing ListingProofs1 ListingProofs2 ListingProofs3 ListingProofs4
  ListingProofs5.
Local Open Scope nat_scope.

(** * which directory entries the template takes *)

Definition tkey (t : fileseq) : skey := (q_dir t, q_base t, q_ext t).

(** the bytes of [n] between the template's basename and extension *)
Definition frame_text (t : fileseq) (n : bytes) : bytes :=
  slice n (List.length (q_base t)) (List.length n - List.length (q_ext t)).

Definition is_some {A : Type} (x : option A) : bool := match x with Some _ => true | None => false end.

(** [n] is basename ++ frame ++ extension, frame matches ^-?\d+$ and fits an
    int; names with a leading dot only with the HiddenFiles option *)
Definition taken (hidden : bool) (t : fileseq) (n : bytes) : bool :=
  (hidden || negb (has_prefix n [c_dot])) &&
  (has_prefix n (q_base t) && has_suffix n (q_ext t)) &&
  negb (blen n <? blen (q_base t) + blen (q_ext t))%Z &&
  is_some (rmatch R_rangePatterns_1 (frame_text t n)) &&
  is_some (atoi (frame_text t n)).

Definition mk_fi (fr : bytes) : finfo := mkFI fr (atoi_or_0 fr) (frame_min_size fr).

Lemma classify_taken : forall o t it,
  classify o (Some t) it =
  if taken (o_hidden o) t (fi_name it) then IFrame (tkey t) (frame_text t (fi_name it)) else ISkip.
Proof.
  intros o t it. unfold classify, taken, tkey. fold (frame_text t (fi_name it)).
  destruct (o_hidden o); cbn [negb orb andb].
  - destruct (has_prefix (fi_name it) (q_base t) && has_suffix (fi_name it) (q_ext t)); cbn [negb andb]; [|reflexivity].
    destruct (blen (fi_name it) <? blen (q_base t) + blen (q_ext t))%Z; cbn [negb andb]; [reflexivity|].
    destruct (rmatch R_rangePatterns_1 (frame_text t (fi_name it))); cbn [is_some negb andb]; [|reflexivity].
    destruct (atoi (frame_text t (fi_name it))); reflexivity.
  - destruct (has_prefix (fi_name it) [c_dot]); cbn [negb orb andb]; [reflexivity|].
    destruct (has_prefix (fi_name it) (q_base t) && has_suffix (fi_name it) (q_ext t)); cbn [negb andb]; [|reflexivity].
    destruct (blen (fi_name it) <? blen (q_base t) + blen (q_ext t))%Z; cbn [negb andb]; [reflexivity|].
    destruct (rmatch R_rangePatterns_1 (frame_text t (fi_name it))); cbn [is_some negb andb]; [|reflexivity].
    destruct (atoi (frame_text t (fi_name it))); reflexivity.
Qed.

Lemma range1_numeral : forall fr, is_some (rmatch R_rangePatterns_1 fr) = true <-> numeral fr.
Proof.
  intros fr. pose proof (range1_char fr) as H. unfold submatches in H. split.
  - intros Hs. destruct (rmatch R_rangePatterns_1 fr) as [cs|]; [|discriminate Hs].
    destruct (tcomp fr) as [l|] eqn:E; [|discriminate H].
    apply tcomp_inv in E. destruct E as [a Na Hp|a b Na Nb Hp|a b c n Na Nb Nn Hc Hp]; try discriminate H.
    subst a. exact Na.
  - intros N. rewrite (tcomp_numeral fr N) in H.
    destruct (rmatch R_rangePatterns_1 fr); [reflexivity|discriminate H].
Qed.

(** what a taken name looks like *)
Theorem taken_inv : forall h t n, taken h t n = true ->
  n = q_base t ++ frame_text t n ++ q_ext t /\ numeral (frame_text t n) /\
  (exists v, atoi (frame_text t n) = Some v) /\ (h || negb (has_prefix n [c_dot])) = true.
Proof.
  intros h t n H. unfold taken in H.
  apply andb_true_iff in H. destruct H as [H H5]. apply andb_true_iff in H. destruct H as [H H4].
  apply andb_true_iff in H. destruct H as [H H3]. apply andb_true_iff in H. destruct H as [H1 H2].
  apply andb_true_iff in H2. destruct H2 as [Hp Hs].
  apply negb_true_iff, Z.ltb_ge in H3. unfold blen in H3.
  split; [|split; [|split]].
  - unfold frame_text. apply glob_middle; [exact Hp|exact Hs|lia].
  - apply range1_numeral. exact H4.
  - destruct (atoi (frame_text t n)) as [v|]; [exists v; reflexivity|discriminate H5].
  - exact H1.
Qed.

Lemma has_prefix_intro : forall (p r : bytes), has_prefix (p ++ r) p = true.
Proof.
  induction p as [|x p IH]; intros r; [destruct r; reflexivity|].
  cbn [app has_prefix]. rewrite Nat.eqb_refl, IH. reflexivity.
Qed.

Lemma has_suffix_intro : forall (r p : bytes), has_suffix (r ++ p) p = true.
Proof. intros r p. unfold has_suffix. rewrite rev_app_distr. apply has_prefix_intro. Qed.

Lemma frame_text_mid : forall t fr, frame_text t (q_base t ++ fr ++ q_ext t) = fr.
Proof.
  intros t fr. unfold frame_text. apply (slice_mid _ _ _ (q_base t) fr (q_ext t)); [reflexivity|reflexivity|].
  rewrite !app_length. lia.
Qed.

Theorem taken_intro : forall h t fr v,
  numeral fr -> atoi fr = Some v ->
  (h || negb (has_prefix (q_base t ++ fr ++ q_ext t) [c_dot])) = true ->
  taken h t (q_base t ++ fr ++ q_ext t) = true.
Proof.
  intros h t fr v N A Hv. unfold taken. rewrite frame_text_mid, Hv, A, (proj2 (range1_numeral fr) N).
  rewrite has_prefix_intro.
  replace (has_suffix (q_base t ++ fr ++ q_ext t) (q_ext t)) with true
    by (rewrite app_assoc; symmetry; apply has_suffix_intro).
  cbn [andb is_some]. rewrite !andb_true_r.
  apply negb_true_iff, Z.ltb_ge. unfold blen. rewrite !app_length. lia.
Qed.

(** two taken names with the same frame text are the same name *)
Lemma taken_inj : forall h t n1 n2, taken h t n1 = true -> taken h t n2 = true ->
  frame_text t n1 = frame_text t n2 -> n1 = n2.
Proof.
  intros h t n1 n2 H1 H2 E. apply taken_inv in H1. apply taken_inv in H2.
  destruct H1 as [E1 _]. destruct H2 as [E2 _]. rewrite E1, E2, E. reflexivity.
Qed.

(** the frame records of the taken names, in directory order *)
Definition tnames (h : bool) (t : fileseq) (names : list bytes) : list bytes := filter (taken h t) names.
Definition tframes (h : bool) (t : fileseq) (names : list bytes) : list finfo :=
  map (fun n => mk_fi (frame_text t n)) (tnames h t names).

(** * the first phase with a template: one bucket, or none *)

Definition binv (o : lopts) (t : fileseq) (pre : list finfo) (seqs : list (skey * sinfo)) : Prop :=
  (pre = [] /\ seqs = []) \/
  (pre <> [] /\ exists s, seqs = [(tkey t, s)] /\ s_frames s = pre /\
     (forall fi, s_frames s = [fi] -> s_padding s = padding_chars (o_style o) (blen (f_text fi)))).

Lemma key_eq_refl : forall k, key_eq k k = true.
Proof. intros [[a b] c]. cbn [key_eq]. rewrite !beq_same. reflexivity. Qed.

Lemma collect_tmpl : forall o t items pre seqs files,
  binv o t pre seqs ->
  exists seqs', collect o (Some t) items seqs files = Ok (seqs', files) /\
                binv o t (pre ++ tframes (o_hidden o) t (map fi_name items)) seqs'.
Proof.
  intros o t. induction items as [|it rest IH]; intros pre seqs files B.
  - exists seqs. cbn [collect map]. unfold tframes, tnames. cbn [filter map]. rewrite app_nil_r. auto.
  - cbn [collect map]. rewrite classify_taken. unfold tframes, tnames. cbn [filter].
    destruct (taken (o_hidden o) t (fi_name it)) eqn:Et.
    + cbv zeta. cbn [map].
      set (fr := frame_text t (fi_name it)).
      match goal with |- context [collect o (Some t) rest ?S files] => set (seqs1 := S) end.
      assert (B1 : binv o t (pre ++ [mk_fi fr]) seqs1).
      { right. split; [destruct pre; discriminate|].
        destruct B as [[-> ->]|[Hne (s & -> & Hs & Hp)]].
        - subst seqs1. cbn [bucket_get bucket_set app]. eexists. split; [reflexivity|].
          cbn [s_frames s_padding]. split; [reflexivity|]. intros fi E. injection E as <-. reflexivity.
        - subst seqs1. cbn [bucket_get bucket_set]. rewrite key_eq_refl.
          eexists. split; [reflexivity|].
          split.
          + destruct (blen fr <? s_minw s)%Z; cbn [s_frames]; rewrite Hs; reflexivity.
          + intros fi E. exfalso.
            assert (E' : s_frames s ++ [mk_fi fr] = [fi]).
            { destruct (blen fr <? s_minw s)%Z; exact E. }
            rewrite Hs in E'. destruct pre as [|a [|b l]]; [congruence|discriminate E'|discriminate E']. }
      destruct (IH (pre ++ [mk_fi fr]) seqs1 files B1) as (seqs' & Hc & B').
      exists seqs'. split; [exact Hc|]. rewrite <- app_assoc in B'. exact B'.
    + apply IH. exact B.
Qed.

(** * the bucket: frames, keys *)

Record tfr_ok (fi : finfo) : Prop := mkTF {
  tf_num : numeral (f_text fi);
  tf_nz : not_neg_zero (f_text fi);
  tf_atoi : atoi (f_text fi) = Some (f_num fi);
  tf_small : small (f_num fi);
  tf_minw : f_minw fi = frame_min_size (f_text fi) }.

(** the shape of a sequence the template branch emits *)
Definition tseq (d base ext : bytes) (q : fileseq) : Prop :=
  q_dir q = d /\ q_base q = base /\ q_ext q = ext /\ (1 <= q_zfill q)%Z /\ exists f, q_fs q = Some f.

Lemma trecon_text : forall w fi, tfr_ok fi -> (1 <= w)%Z -> recon w fi ->
  zfill_int (f_num fi) w = f_text fi.
Proof.
  intros w fi F Hw R. apply group_reconstruct.
  - apply (tf_num _ F).
  - apply (tf_nz _ F).
  - apply (tf_atoi _ F).
  - exact Hw.
  - unfold recon in R. rewrite (tf_minw _ F) in R. exact R.
Qed.

Section TBucket.
Variables (o : lopts) (d base ext : bytes).
Hypothesis KO : key_ok d [] base ext.

Lemma t_emit_group : forall cur w, cur <> [] -> (1 <= w)%Z ->
  Forall tfr_ok cur -> Forall (recon w) cur -> NoDup (map f_text cur) ->
  exists fr q, frames_to_frame_range (map f_num cur) true 0%Z = Ok fr /\
    append_seq o d base fr (padding_chars (o_style o) w) ext = Ok q /\
    tseq d base ext q /\ q_zfill q = w /\
    Permutation (q_paths q) (map (fpath d base ext) cur).
Proof.
  intros cur w Hne Hw HF HR HN.
  assert (Htxt : forall fi, In fi cur -> f_text fi = zfill_int (f_num fi) w).
  { intros fi Hin. rewrite Forall_forall in HF, HR. symmetry.
    apply trecon_text; [apply HF|exact Hw|apply HR]; exact Hin. }
  assert (ND : NoDup (map f_num cur)).
  { apply (NoDup_map_factor _ _ _ f_num f_text (fun v => zfill_int v w)); assumption. }
  assert (SM : Forall small (map f_num cur)).
  { apply Forall_map. eapply Forall_impl; [|exact HF]. intros fi F. apply (tf_small _ F). }
  assert (Hl : map f_num cur <> []) by (destruct cur; [congruence|discriminate]).
  destruct (f2r_right_inverse_proof (map f_num cur) true 0%Z ND SM) as (fr & Hfr & _ & _).
  assert (Hsl : no_byte 47 ([] ++ base) = true) by (apply (ko_base47 _ _ _ _ KO)).
  destruct (append_seq_pad o d [] base ext (map f_num cur) fr w
              (ko_dir _ _ _ _ KO) Hsl (ko_nl _ _ _ _ KO) (ko_tok _ _ _ _ KO)
              (ko_ext _ _ _ _ KO) (ko_extnl _ _ _ _ KO) Hl ND SM Hfr Hw) as (f & Hq & Hfs).
  rewrite app_nil_r in Hq.
  exists fr. eexists. split; [exact Hfr|]. split; [exact Hq|].
  split; [|split].
  - unfold tseq. cbn [q_dir q_base q_ext q_zfill q_fs]. repeat split; try exact Hw. exists f. reflexivity.
  - reflexivity.
  - unfold q_paths. cbn [q_fs]. rewrite Hfs.
    apply Permutation_trans with (map (q_frame_int (mkQ d base ext (padding_chars (o_style o) w) w (Some f) (o_style o)))
                                      (map f_num cur)).
    + apply Permutation_map. apply Permutation_sym. apply zsort_perm.
    + rewrite map_map. apply Permutation_refl'. apply map_ext_in. intros fi Hin.
      unfold q_frame_int, fpath. cbn [q_dir q_base q_fs q_zfill q_ext].
      rewrite <- (Htxt fi Hin). reflexivity.
Qed.

Lemma t_group_walk : forall fis cur w out,
  (1 <= w)%Z -> Forall tfr_ok (cur ++ fis) -> Forall (recon w) cur ->
  NoDup (map f_text (cur ++ fis)) ->
  StronglySorted len_le fis -> Forall (fun fi => (w <= blen (f_text fi))%Z) fis ->
  (cur = [] -> match fis with [] => True | fi :: _ => blen (f_text fi) = w end) ->
  exists qs,
    group_walk o d base ext fis w (padding_chars (o_style o) w) (map f_num cur) out = Ok (out ++ qs) /\
    Forall (tseq d base ext) qs /\
    Permutation (flat_map q_paths qs) (map (fpath d base ext) (cur ++ fis)).
Proof.
  induction fis as [|fi rest IH]; intros cur w out Hw HF HR HN HS HW H0.
  - rewrite app_nil_r in *. cbn [group_walk]. destruct cur as [|c0 cur'].
    + exists []. rewrite app_nil_r. split; [reflexivity|]. split; [constructor|apply perm_nil].
    + destruct (t_emit_group (c0 :: cur') w ltac:(discriminate) Hw HF HR HN) as (fr & q & Hfr & Hq & Hsh & _ & Hp).
      cbn [map] in *. rewrite Hfr. cbn [bind]. rewrite Hq. cbn [bind].
      exists [q]. split; [reflexivity|]. split; [constructor; [exact Hsh|constructor]|].
      cbn [flat_map]. rewrite app_nil_r. exact Hp.
  - cbn [group_walk].
    assert (HFfi : tfr_ok fi).
    { rewrite Forall_forall in HF. apply HF. apply in_or_app. right. left. reflexivity. }
    inversion HS as [|a l HSrest HLe]; subst a l.
    inversion HW as [|a l Hwfi HWrest]; subst a l.
    destruct (negb (blen (f_text fi) =? w)%Z && (f_minw fi >? w)%Z) eqn:Eb.
    + apply andb_true_iff in Eb. destruct Eb as [E1 E2].
      apply negb_true_iff, Z.eqb_neq in E1.
      assert (Hcur : cur <> []). { intros ->. apply E1. apply H0. reflexivity. }
      assert (HFc : Forall tfr_ok cur) by (apply Forall_app in HF; apply HF).
      assert (HNc : NoDup (map f_text cur)).
      { rewrite map_app in HN. apply NoDup_app_l in HN. exact HN. }
      destruct (t_emit_group cur w Hcur Hw HFc HR HNc) as (fr & q & Hfr & Hq & Hsh & _ & Hp).
      rewrite Hfr. cbn [bind]. rewrite Hq. cbn [bind].
      set (w' := blen (f_text fi)).
      assert (Hw' : (1 <= w')%Z).
      { apply numeral_length_pos. apply (tf_num _ HFfi). }
      destruct (IH [fi] w' (out ++ [q]) Hw') as (qs & Hqs & Hshs & Hpq).
      * apply Forall_app in HF. apply HF.
      * constructor; [|constructor]. left. reflexivity.
      * rewrite map_app in HN. apply NoDup_app_r in HN. exact HN.
      * exact HSrest.
      * exact HLe.
      * intros E. discriminate E.
      * cbn [map] in Hqs. rewrite Hqs. exists (q :: qs). split; [rewrite <- app_assoc; reflexivity|].
        split; [constructor; assumption|].
        cbn [flat_map]. rewrite map_app. apply Permutation_app; [exact Hp|exact Hpq].
    + assert (HRfi : recon w fi).
      { unfold recon. apply andb_false_iff in Eb. destruct Eb as [E|E].
        - left. apply negb_false_iff, Z.eqb_eq in E. exact E.
        - destruct (Z.eq_dec (blen (f_text fi)) w) as [Ew|Ew]; [left; exact Ew|right].
          rewrite Z.gtb_ltb in E. apply Z.ltb_ge in E.
          pose proof (tf_minw _ HFfi) as Hm. unfold frame_min_size in Hm.
          destruct (blen (f_text fi) =? blen (itoa (atoi_or_0 (f_text fi))))%Z; lia. }
      destruct (IH (cur ++ [fi]) w out Hw) as (qs & Hqs & Hshs & Hpq).
      * rewrite <- app_assoc. exact HF.
      * apply Forall_app. split; [exact HR|]. constructor; [exact HRfi|constructor].
      * rewrite <- app_assoc. exact HN.
      * exact HSrest.
      * exact HWrest.
      * intros E. destruct cur; discriminate E.
      * rewrite map_app in Hqs. cbn [map] in Hqs. exists qs. split; [exact Hqs|].
        split; [exact Hshs|]. rewrite <- app_assoc in Hpq. exact Hpq.
Qed.

(** every frame text has the width [w] or is longer without leading zero:
    the walk never cuts *)
Lemma group_walk_one_group : forall fis w pad frames out,
  (1 <= w)%Z -> Forall (recon w) fis ->
  group_walk o d base ext fis w pad frames out =
  group_walk o d base ext [] w pad (frames ++ map f_num fis) out.
Proof.
  induction fis as [|fi rest IH]; intros w pad frames out Hw1 H.
  - cbn [map]. rewrite app_nil_r. reflexivity.
  - inversion H as [|a l Hfi Hrest]; subst a l.
    cbn [group_walk map].
    assert (E : negb (blen (f_text fi) =? w)%Z && (f_minw fi >? w)%Z = false).
    { destruct Hfi as [E|[_ E]]; [rewrite E, Z.eqb_refl; reflexivity|].
      rewrite E. replace (1 >? w)%Z with false; [apply andb_false_r|].
      symmetry. rewrite Z.gtb_ltb. apply Z.ltb_ge. lia. }
    rewrite E. rewrite (IH w pad (frames ++ [f_num fi]) out Hw1 Hrest).
    rewrite <- app_assoc. reflexivity.
Qed.

End TBucket.

(** * one-frame buckets *)

Lemma pad_choice2 : forall (base P : bytes),
  let pad := match base with
             | [] => P
             | _ :: _ => if last_byte_is_digit_before base then [] else P
             end in
  pad = P \/ (pad = [] /\ last_byte_is_digit_before base = true).
Proof.
  intros base P. destruct base as [|b0 b']; [left; reflexivity|].
  cbv zeta. destruct (last_byte_is_digit_before (b0 :: b')); [right; split|left]; reflexivity.
Qed.

(** what the re-parse of a one-frame bucket WITHOUT pad token needs: the
    optional-frame pattern cuts the name where the template did *)
Definition plain_ok (d base ext : bytes) (fi : finfo) : Prop :=
  is_bytes (base ++ f_text fi ++ ext) /\
  no_token (d ++ base ++ f_text fi ++ ext) = true /\
  submatches R_optionalFramePattern (base ++ f_text fi ++ ext) 3 = Some [base; f_text fi; ext].

Lemma numeral_no_nl : forall t, numeral t -> no_byte 10 t = true.
Proof.
  intros t H. unfold no_byte. apply negb_true_iff.
  destruct (existsb (Nat.eqb 10) t) eqn:E; [|reflexivity].
  apply existsb_exists in E. destruct E as (y & Hin & Hy). apply Nat.eqb_eq in Hy. subst y.
  pose proof (numeral_avoids t 10 H ltac:(lia) eq_refl) as A.
  rewrite Forall_forall in A. exfalso. exact (A 10 Hin eq_refl).
Qed.

Section TBucket2.
Variables (o : lopts) (d base ext : bytes).
Hypothesis KO : key_ok d [] base ext.

Lemma t_single_with_pad : forall fi, tfr_ok fi ->
  exists q, append_seq o d base (itoa (f_num fi))
              (padding_chars (o_style o) (blen (f_text fi))) ext = Ok q /\
            tseq d base ext q /\ q_zfill q = blen (f_text fi) /\
            q_paths q = [fpath d base ext fi].
Proof.
  intros fi F. set (w := blen (f_text fi)).
  assert (Hw : (1 <= w)%Z) by (apply numeral_length_pos; apply (tf_num _ F)).
  assert (Hsl : no_byte 47 ([] ++ base) = true) by (apply (ko_base47 _ _ _ _ KO)).
  destruct (append_seq_pad o d [] base ext [f_num fi] (itoa (f_num fi)) w
              (ko_dir _ _ _ _ KO) Hsl (ko_nl _ _ _ _ KO) (ko_tok _ _ _ _ KO)
              (ko_ext _ _ _ _ KO) (ko_extnl _ _ _ _ KO) ltac:(discriminate)) as (f & Hq & Hfs).
  - constructor; [intros []|constructor].
  - constructor; [apply (tf_small _ F)|constructor].
  - reflexivity.
  - exact Hw.
  - rewrite app_nil_r in Hq. eexists. split; [exact Hq|]. split; [|split].
    + unfold tseq. cbn [q_dir q_base q_ext q_zfill q_fs]. repeat split; try exact Hw. exists f. reflexivity.
    + reflexivity.
    + unfold q_paths. cbn [q_fs]. rewrite Hfs.
      change (zsort [f_num fi]) with [f_num fi]. cbn [map]. unfold q_frame_int, fpath.
      cbn [q_dir q_base q_fs q_zfill q_ext]. unfold w, blen.
      rewrite zfill_int_reconstruct; [reflexivity|apply (tf_num _ F)| |apply (tf_nz _ F)].
      apply atoi_some_big. apply (tf_atoi _ F).
Qed.

Lemma t_single_plain : forall fi, tfr_ok fi -> plain_ok d base ext fi ->
  exists q, append_seq o d base (f_text fi) [] ext = Ok q /\
            tseq d base ext q /\ q_zfill q = blen (f_text fi) /\
            q_paths q = [fpath d base ext fi].
Proof.
  intros fi F (Hb & Htok & Hopt). set (t := f_text fi) in *. set (n := base ++ t ++ ext) in *.
  pose proof (tf_num _ F) as N. fold t in N.
  assert (Hsl : no_byte 47 ([] ++ n) = true).
  { unfold n. cbn [app]. rewrite !no_byte_app, (ko_base47 _ _ _ _ KO),
      (ko_ext47 _ _ _ _ KO), (numeral_no_slash t N). reflexivity. }
  assert (Hnl : no_byte 10 n = true).
  { pose proof (ko_nl _ _ _ _ KO) as H. cbn [app] in H. rewrite no_byte_app in H.
    apply andb_true_iff in H. destruct H as [_ H].
    unfold n. rewrite !no_byte_app, H, (ko_extnl _ _ _ _ KO), (numeral_no_nl t N). reflexivity. }
  destruct (new_fileseq_plain (o_style o) d [] n (ko_dir _ _ _ _ KO) Hsl (or_introl eq_refl)
              Htok Hnl Hb) as (q & Hq & Hdir & Hz).
  cbn [app] in Hq.
  pose proof (tf_atoi _ F) as A. fold t in A.
  assert (Hne : t <> []) by (apply numeral_nonempty; exact N).
  destruct (new_frameset_numeral_frames t _ N A) as (f & Hf & Hfs).
  pose proof (Hz base t ext _ Hopt Hne A) as Hzf.
  assert (Hw : (1 <= blen t)%Z) by (apply numeral_length_pos; exact N).
  exists (force_parts q base ext t). split; [|split; [|split]].
  - unfold append_seq. cbn [app]. fold n. rewrite Hq. reflexivity.
  - rewrite (force_parts_range q base ext t f Hne Hf). unfold tseq.
    cbn [q_dir q_base q_ext q_zfill q_fs]. rewrite Hzf. repeat split; try assumption. exists f. reflexivity.
  - rewrite (force_parts_range q base ext t f Hne Hf). cbn [q_zfill]. exact Hzf.
  - rewrite (force_parts_range q base ext t f Hne Hf).
    unfold q_paths. cbn [q_fs]. rewrite Hfs. cbn [map]. unfold q_frame_int, fpath.
    cbn [q_dir q_base q_fs q_zfill q_ext]. rewrite Hdir, Hzf. unfold blen.
    rewrite zfill_int_reconstruct; [reflexivity|exact N| |apply (tf_nz _ F)].
    apply atoi_some_big. exact A.
Qed.

Theorem t_emit_bucket : forall s,
  s_frames s <> [] -> Forall tfr_ok (s_frames s) -> NoDup (map f_text (s_frames s)) ->
  (forall fi, s_frames s = [fi] -> s_padding s = padding_chars (o_style o) (blen (f_text fi))) ->
  (forall fi, s_frames s = [fi] -> last_byte_is_digit_before base = true -> plain_ok d base ext fi) ->
  exists qs, emit_bucket o (d, base, ext) s = Ok qs /\
    Forall (tseq d base ext) qs /\
    Permutation (flat_map q_paths qs) (map (fpath d base ext) (s_frames s)) /\
    (forall w, Forall (recon w) (s_frames s) ->
               (exists fi, In fi (s_frames s) /\ blen (f_text fi) = w) ->
               exists q, qs = [q] /\ q_zfill q = w).
Proof.
  intros s Hne HF HN Hpad Hplain. unfold emit_bucket.
  destruct (s_frames s) as [|f1 [|f2 r]] eqn:Efr; [congruence| |].
  - (* one frame *)
    inversion HF as [|a l F1 _]; subst a l.
    rewrite (Hpad f1 eq_refl).
    assert (Hw : (1 <= blen (f_text f1))%Z) by (apply numeral_length_pos; apply (tf_num _ F1)).
    pose proof (padding_chars_nonempty (o_style o) _ Hw) as Hpne.
    cbv zeta.
    destruct (pad_choice2 base (padding_chars (o_style o) (blen (f_text f1)))) as [E|[E Hdig]];
      cbv zeta in E; rewrite E.
    + destruct (t_single_with_pad f1 F1) as (q & Hq & Hsh & Hz & Hp).
      destruct (padding_chars (o_style o) (blen (f_text f1))) as [|pc pr] eqn:Epc; [congruence|].
      rewrite Hq. cbn [bind]. exists [q]. split; [reflexivity|].
      split; [constructor; [exact Hsh|constructor]|]. split.
      * cbn [flat_map map]. rewrite app_nil_r, Hp. apply Permutation_refl.
      * intros w _ (fi & [<-|[]] & Hb). exists q. split; [reflexivity|]. rewrite Hz. exact Hb.
    + destruct (t_single_plain f1 F1 (Hplain f1 eq_refl Hdig)) as (q & Hq & Hsh & Hz & Hp).
      rewrite Hq. cbn [bind]. exists [q]. split; [reflexivity|].
      split; [constructor; [exact Hsh|constructor]|]. split.
      * cbn [flat_map map]. rewrite app_nil_r, Hp. apply Permutation_refl.
      * intros w _ (fi & [<-|[]] & Hb). exists q. split; [reflexivity|]. rewrite Hz. exact Hb.
  - (* several frames *)
    set (fr := f1 :: f2 :: r) in *.
    pose proof (fi_sort_perm fr) as P. pose proof (fi_sort_sorted fr) as S.
    destruct (fi_sort fr) as [|f0 srest] eqn:Es.
    { apply Permutation_sym, Permutation_nil in P. subst fr. discriminate P. }
    assert (HF0 : Forall tfr_ok (f0 :: srest)) by (eapply Permutation_Forall; eassumption).
    inversion HF0 as [|a l F0 _]; subst a l.
    assert (HN0 : NoDup (map f_text (f0 :: srest))).
    { eapply Permutation_NoDup; [apply Permutation_map; exact P|exact HN]. }
    assert (Hw0 : (1 <= blen (f_text f0))%Z) by (apply numeral_length_pos; apply (tf_num _ F0)).
    destruct (t_group_walk o d base ext KO (f0 :: srest) [] (blen (f_text f0)) []) as (qs & Hqs & Hsh & Hp).
    + exact Hw0.
    + exact HF0.
    + constructor.
    + exact HN0.
    + exact S.
    + inversion S as [|a l _ HLe]; subst a l. constructor; [lia|exact HLe].
    + intros _. reflexivity.
    + cbn [map app] in Hqs. exists qs. split; [exact Hqs|]. split; [exact Hsh|]. split.
      * eapply Permutation_trans; [exact Hp|]. cbn [app]. apply Permutation_map. apply Permutation_sym. exact P.
      * intros w Hu (fi & Hin & Hb).
        assert (Hu0 : Forall (recon w) (f0 :: srest)) by (eapply Permutation_Forall; eassumption).
        assert (Hb0 : blen (f_text f0) = w).
        { assert (Hin' : In fi (f0 :: srest)) by (eapply Permutation_in; eassumption).
          inversion Hu0 as [|a l R0 _]; subst a l.
          destruct Hin' as [E0|Hin']; [rewrite E0; exact Hb|].
          inversion S as [|a l _ HLe]; subst a l. rewrite Forall_forall in HLe.
          specialize (HLe fi Hin'). unfold len_le in HLe.
          destruct R0 as [E|[E _]]; [exact E|lia]. }
        rewrite Hb0 in *.
        rewrite (group_walk_one_group o d base ext (f0 :: srest) w _ [] [] Hw0 Hu0) in Hqs.
        destruct (t_emit_group o d base ext KO (f0 :: srest) w ltac:(discriminate) Hw0 HF0 Hu0 HN0)
          as (fr' & q & Hfr & Hq & _ & Hz & _).
        cbn [app group_walk] in Hqs. cbn [map] in Hfr. cbn [map] in Hqs.
        rewrite Hfr in Hqs. cbn [bind] in Hqs. rewrite Hq in Hqs. cbn [bind] in Hqs.
        injection Hqs as <-. exists q. split; [reflexivity|exact Hz].
Qed.

End TBucket2.

(** * the hypotheses of the lookup theorems *)

(** the template (the parsed pattern), analogue of [name_ok]:
    - its directory is empty or ends in '/' (always so after filepath.Split);
    - no '/' in basename or extension, no newline, no pad token in
      directory ++ basename (K2, K4);
    - the extension is empty or starts with '.', and holds no newline (K3). *)
Definition tmpl_ok (t : fileseq) : Prop :=
  dir_ok (q_dir t) = true /\
  no_byte 47 (q_base t) = true /\ no_byte 47 (q_ext t) = true /\
  no_byte 10 (q_dir t ++ q_base t) = true /\ no_token (q_dir t ++ q_base t) = true /\
  ext_shape (q_ext t) /\ no_byte 10 (q_ext t) = true.

Lemma tmpl_key_ok : forall t, tmpl_ok t -> key_ok (q_dir t) [] (q_base t) (q_ext t).
Proof.
  intros t (H1 & H2 & H3 & H4 & H5 & H6 & H7). constructor; try assumption. left. reflexivity.
Qed.

(** the same as a boolean, for checking by evaluation *)
Definition tmpl_okb (t : fileseq) : bool :=
  dir_ok (q_dir t) && no_byte 47 (q_base t) && no_byte 47 (q_ext t) &&
  no_byte 10 (q_dir t ++ q_base t) && no_token (q_dir t ++ q_base t) &&
  match q_ext t with [] => true | c :: _ => Nat.eqb c 46 end && no_byte 10 (q_ext t).

Lemma tmpl_okb_ok : forall t, tmpl_okb t = true <-> tmpl_ok t.
Proof.
  intros t. unfold tmpl_okb, tmpl_ok, ext_shape. rewrite !andb_true_iff. split.
  - intros ((((((H1 & H2) & H3) & H4) & H5) & H6) & H7). repeat split; try assumption.
    destruct (q_ext t) as [|c e]; [left; reflexivity|right].
    apply Nat.eqb_eq in H6. subst c. eexists. reflexivity.
  - intros (H1 & H2 & H3 & H4 & H5 & H6 & H7). repeat split; try assumption.
    destruct H6 as [->|(e & ->)]; reflexivity.
Qed.

(** the first two conjuncts hold for every parsed pattern *)
Theorem new_fileseq_dir_base : forall pat st t, new_fileseq pat st = Ok t ->
  dir_ok (q_dir t) = true /\ no_byte 47 (q_base t) = true.
Proof.
  intros pat st t H. unfold new_fileseq in H.
  assert (S : new_single pat st = Ok t -> dir_ok (q_dir t) = true /\ no_byte 47 (q_base t) = true).
  { clear H. intros H. unfold new_single in H.
    destruct (existsb _ all_chars); [discriminate H|].
    destruct (path_split_spec pat) as (d & f & Hs & _ & Hd & Hf). rewrite Hs in H.
    assert (Hb : forall b e, (b, e) = match last_index c_dot f with
                                      | Some i => (firstn i f, skipn i f)
                                      | None => (f, [])
                                      end -> no_byte 47 b = true).
    { intros b e E. destruct (last_index c_dot f); injection E as -> _; [apply no_byte_firstn|]; exact Hf. }
    destruct (match last_index c_dot f with
              | Some i => (firstn i f, skipn i f)
              | None => (f, [])
              end) as [b e] eqn:Ebe.
    specialize (Hb b e eq_refl).
    assert (Dflt : forall q, q = set_padding (mkQ d b e [] 0%Z None st) [] ->
                     dir_ok (q_dir q) = true /\ no_byte 47 (q_base q) = true).
    { intros q ->. cbn [set_padding q_dir q_base]. split; assumption. }
    destruct (match d, b, e with [], [], _ :: _ => true | _, _, _ => false end).
    { injection H as <-. apply Dflt. reflexivity. }
    destruct (submatches R_singleFramePattern f 3) as [l|] eqn:Esf;
      [|injection H as <-; apply Dflt; reflexivity].
    destruct l as [|name [|frame [|ext' [|y l]]]];
      try (injection H as <-; apply Dflt; reflexivity).
    destruct (opt_frameset frame); [|injection H as <-; apply Dflt; reflexivity].
    injection H as <-. cbn [set_padding q_dir q_base]. split; [exact Hd|].
    apply sf_frame_inv in Esf. destruct Esf as (i & k & _ & _ & _ & _ & -> & _).
    apply no_byte_firstn. exact Hf. }
  destruct (submatches R_splitPattern pat 4) as [l|]; [|exact (S H)].
  destruct l as [|name [|rng [|pad [|ext [|y l]]]]]; try exact (S H).
  destruct (path_split_spec name) as (d & f & Hs & _ & Hd & Hf). rewrite Hs in H.
  injection H as <-. cbn [set_padding q_dir q_base]. split; assumption.
Qed.

(** the names of the non-directory entries of the directory read:
    - they are pairwise different;
    - a taken name's frame text is not a negative zero and its value is small
      (K1; the compressor's domain);
    - digit base: when exactly ONE name is taken and the template's basename
      ends in a digit (or a digit and '-'), the optional-frame pattern must
      cut that name where the template did (see [counterexample_digit_base]) *)
Definition frames_ok (h : bool) (t : fileseq) (names : list bytes) : Prop :=
  NoDup names /\
  (forall n, In n names -> taken h t n = true ->
     not_neg_zero (frame_text t n) /\ exists v, atoi (frame_text t n) = Some v /\ small v) /\
  (forall n, tnames h t names = [n] -> last_byte_is_digit_before (q_base t) = true ->
     is_bytes n /\ no_token (q_dir t ++ n) = true /\
     submatches R_optionalFramePattern n 3 = Some [q_base t; frame_text t n; q_ext t]).

Lemma NoDup_map_inj_in : forall (A B : Type) (f : A -> B) (l : list A),
  (forall a b, In a l -> In b l -> f a = f b -> a = b) -> NoDup l -> NoDup (map f l).
Proof.
  intros A B f l. induction l as [|a l IH]; intros Hinj HN; cbn [map]; [constructor|].
  inversion HN as [|y l' Hy Hl]; subst. constructor.
  - intros Hin. apply in_map_iff in Hin. destruct Hin as (b & Hb & Hbl).
    apply Hy. rewrite (Hinj a b (or_introl eq_refl) (or_intror Hbl) (eq_sym Hb)). exact Hbl.
  - apply IH; [|exact Hl]. intros x y Hx Hy'. apply Hinj; right; assumption.
Qed.

Lemma tframes_ok : forall h t names, frames_ok h t names -> Forall tfr_ok (tframes h t names).
Proof.
  intros h t names (_ & Hfr & _). unfold tframes, tnames. apply Forall_map. apply Forall_forall.
  intros n Hin. apply filter_In in Hin. destruct Hin as [Hin Ht].
  destruct (Hfr n Hin Ht) as (NZ & v & Hv & Hs).
  destruct (taken_inv h t n Ht) as (_ & N & _ & _).
  constructor; cbn [mk_fi f_text f_num f_minw]; try assumption.
  - unfold atoi_or_0. rewrite Hv. reflexivity.
  - unfold atoi_or_0. rewrite Hv. exact Hs.
  - reflexivity.
Qed.

Lemma tframes_nodup : forall h t names, NoDup names -> NoDup (map f_text (tframes h t names)).
Proof.
  intros h t names HN. unfold tframes. rewrite map_map. cbn [mk_fi f_text].
  apply NoDup_map_inj_in.
  - intros a b Ha Hb E. unfold tnames in Ha, Hb. apply filter_In in Ha, Hb.
    apply (taken_inj h t); [apply Ha|apply Hb|exact E].
  - unfold tnames. apply NoDup_filter. exact HN.
Qed.

Lemma tframes_paths : forall h t names,
  map (fpath (q_dir t) (q_base t) (q_ext t)) (tframes h t names) =
  map (fun n => q_dir t ++ n) (tnames h t names).
Proof.
  intros h t names. unfold tframes. rewrite map_map. apply map_ext_in. intros n Hin.
  unfold tnames in Hin. apply filter_In in Hin. destruct Hin as [_ Ht].
  destruct (taken_inv h t n Ht) as (E & _). unfold fpath. cbn [mk_fi f_text]. rewrite <- E. reflexivity.
Qed.

(** * the lister with a template *)

(** the frame text of [n] has the width [w], or is longer and has no leading
    zero: it prints the same under the width [w] *)
Definition width_compat (t : fileseq) (w : Z) (n : bytes) : Prop :=
  (blen (frame_text t n) = w \/
   (w < blen (frame_text t n) /\ frame_min_size (frame_text t n) = 1))%Z.

Theorem find_items_tmpl : forall items opts t,
  let o := parse_opts opts (mkLO false false default_style) in
  let names := tnames (o_hidden o) t (map fi_name items) in
  tmpl_ok t -> frames_ok (o_hidden o) t (map fi_name items) ->
  exists qs, find_items items opts (Some t) = Ok qs /\
    Forall (tseq (q_dir t) (q_base t) (q_ext t)) qs /\
    Permutation (flat_map q_paths qs) (map (fun n => q_dir t ++ n) names) /\
    (names = [] -> qs = []) /\
    (forall w, (forall n, In n names -> width_compat t w n) ->
               (exists n, In n names /\ blen (frame_text t n) = w) ->
               exists q, qs = [q] /\ q_zfill q = w).
Proof.
  intros items opts t o names TO FO. unfold find_items. fold o.
  destruct (collect_tmpl o t items [] [] [] (or_introl (conj eq_refl eq_refl))) as (seqs & Hc & B).
  rewrite Hc. cbn [bind app] in *.
  destruct B as [[E ->]|[Hne (s & -> & Hs & Hp)]].
  - (* nothing taken *)
    assert (En : names = []).
    { unfold names. unfold tframes in E. destruct (tnames (o_hidden o) t (map fi_name items)); [reflexivity|discriminate E]. }
    cbn [emit_all bind]. exists []. split; [destruct (o_single o); reflexivity|].
    split; [constructor|]. split; [rewrite En; apply perm_nil|]. split; [reflexivity|].
    intros w _ (n & Hin & _). rewrite En in Hin. destruct Hin.
  - pose proof (tmpl_key_ok t TO) as KO.
    destruct (t_emit_bucket o (q_dir t) (q_base t) (q_ext t) KO s) as (qs & He & Hsh & Hperm & Hu).
    + rewrite Hs. exact Hne.
    + rewrite Hs. apply tframes_ok. exact FO.
    + rewrite Hs. apply tframes_nodup. apply FO.
    + exact Hp.
    + intros fi Efi Hdig. rewrite Hs in Efi. unfold tframes in Efi.
      destruct (tnames (o_hidden o) t (map fi_name items)) as [|n [|n2 l]] eqn:En; try discriminate Efi.
      cbn [map] in Efi. injection Efi as <-.
      destruct FO as (_ & _ & Hd). destruct (Hd n En Hdig) as (Hb & Htok & Hopt).
      assert (Ht : taken (o_hidden o) t n = true).
      { assert (Hin : In n (tnames (o_hidden o) t (map fi_name items))) by (rewrite En; left; reflexivity).
        unfold tnames in Hin. apply filter_In in Hin. apply Hin. }
      destruct (taken_inv _ t n Ht) as (E & _).
      unfold plain_ok. cbn [mk_fi f_text]. rewrite <- E. repeat split; assumption.
    + cbn [emit_all]. fold (tkey t) in He. unfold tkey in *. rewrite He. cbn [bind].
      exists qs. split; [destruct (o_single o); rewrite ?app_nil_r; reflexivity|].
      split; [exact Hsh|]. rewrite Hs, tframes_paths in Hperm. split; [exact Hperm|].
      split.
      * intros En. exfalso. apply Hne. unfold tframes. fold names. rewrite En. reflexivity.
      * intros w Hw (n & Hin & Hb). apply Hu; rewrite Hs; unfold tframes.
        -- apply Forall_map. apply Forall_forall. intros n' Hin'. apply (Hw n' Hin').
        -- exists (mk_fi (frame_text t n)). split; [|exact Hb].
           apply in_map_iff. exists n. split; [reflexivity|exact Hin].
Qed.

(** * options of the lookup *)

Definition lookup_opts (opts : list Z) : lopts :=
  parse_opts (opts ++ pad_opts opts) (mkLO false false default_style).
Definition lookup_hidden (opts : list Z) : bool := existsb (Z.eqb K_HiddenFiles) opts.
Definition lookup_strict (opts : list Z) : bool := existsb (fun o => (o =? K_StrictPadding)%Z) opts.

Lemma lookup_opts_hidden : forall opts, o_hidden (lookup_opts opts) = lookup_hidden opts.
Proof.
  intros opts. unfold lookup_opts, lookup_hidden. rewrite parse_opts_hidden. cbn [o_hidden orb].
  rewrite existsb_app.
  assert (E : existsb (Z.eqb K_HiddenFiles) (pad_opts opts) = false).
  { unfold pad_opts. induction opts as [|z l IH]; [reflexivity|]. cbn [filter].
    destruct ((z =? K_FileOptPadStyleHash1)%Z || (z =? K_FileOptPadStyleHash4)%Z) eqn:Ez; [|exact IH].
    cbn [existsb]. rewrite IH, orb_false_r.
    unfold K_HiddenFiles, K_FileOptPadStyleHash1, K_FileOptPadStyleHash4 in *.
    apply orb_true_iff in Ez. destruct Ez as [Ez|Ez]; apply Z.eqb_eq in Ez; subst z; reflexivity. }
  rewrite E, orb_false_r. reflexivity.
Qed.

(** * restyling an emitted sequence changes neither its parts nor its paths *)

Lemma tseq_restyle : forall d base ext q st, tseq d base ext q ->
  tseq d base ext (set_padding_style q st) /\
  q_zfill (set_padding_style q st) = q_zfill q /\
  q_paths (set_padding_style q st) = q_paths q.
Proof.
  intros d base ext q st (Hd & Hb & He & Hz & f & Hf).
  assert (Ez : q_zfill (set_padding_style q st) = q_zfill q).
  { unfold set_padding_style, set_padding. cbn [q_zfill q_style]. apply pad_roundtrip_proof. exact Hz. }
  split; [|split; [exact Ez|]].
  - unfold tseq. rewrite Ez. unfold set_padding_style, set_padding.
    cbn [q_dir q_base q_ext q_fs]. repeat split; try assumption. exists f. exact Hf.
  - unfold q_paths. replace (q_fs (set_padding_style q st)) with (q_fs q) by reflexivity.
    rewrite Hf. apply map_ext. intros v. unfold q_frame_int.
    replace (q_fs (set_padding_style q st)) with (q_fs q) by reflexivity. rewrite Ez. reflexivity.
Qed.

(** * the scan of the pattern's directory *)

Lemma disk_items_names : forall prefix ents items, disk_items prefix ents = Ok items ->
  map fi_name items = non_dirs ents.
Proof.
  intros prefix ents items H. apply disk_items_shape in H.
  apply (f_equal (map snd)) in H. rewrite !map_map in H. cbn [snd] in H.
  rewrite map_id in H. exact H.
Qed.

Lemma lookup_scan : forall t ents opts items,
  let h := lookup_hidden opts in
  let names := tnames h t (non_dirs ents) in
  tmpl_ok t -> frames_ok h t (non_dirs ents) ->
  disk_items (dir_prefix (lookup_dir t)) ents = Ok items ->
  exists qs, find_items items (opts ++ pad_opts opts) (Some t) = Ok qs /\
    Forall (tseq (q_dir t) (q_base t) (q_ext t)) qs /\
    Permutation (flat_map q_paths qs) (map (fun n => q_dir t ++ n) names) /\
    (names = [] -> qs = []) /\
    (forall w, (forall n, In n names -> width_compat t w n) ->
               (exists n, In n names /\ blen (frame_text t n) = w) ->
               exists q, qs = [q] /\ q_zfill q = w).
Proof.
  intros t ents opts items h names TO FO Hd.
  pose proof (disk_items_names _ _ _ Hd) as En.
  pose proof (find_items_tmpl items (opts ++ pad_opts opts) t TO) as H.
  fold (lookup_opts opts) in H. rewrite lookup_opts_hidden, En in H. cbv zeta in H.
  apply H. exact FO.
Qed.

(** * SOUNDNESS: every frame path of the result is an entry of the directory read *)

Theorem find_one_sound : forall pat st opts rd q t,
  find_seq_on_disk pat st opts rd = Ok (Some q) ->
  new_fileseq pat (style_of_int (eff_style st opts)) = Ok t ->
  tmpl_ok t ->
  (forall ents, rd (lookup_dir t) = Some ents -> frames_ok (lookup_hidden opts) t (non_dirs ents)) ->
  exists ents, rd (lookup_dir t) = Some ents /\
    q_dir q = q_dir t /\ q_base q = q_base t /\ q_ext q = q_ext t /\
    (1 <= q_zfill q)%Z /\ (exists f, q_fs q = Some f) /\
    forall p, In p (q_paths q) ->
      exists n, In n (non_dirs ents) /\ taken (lookup_hidden opts) t n = true /\ p = q_dir t ++ n.
Proof.
  intros pat st opts rd q t H Ht TO FO.
  destruct (find_seq_some _ _ _ _ _ H) as (t' & seqs & q0 & Ht' & Hf & Hin & _ & Hq).
  rewrite Ht in Ht'. injection Ht' as <-.
  destruct (rd (lookup_dir t)) as [ents|] eqn:Hrd; [|discriminate Hf].
  exists ents. split; [reflexivity|].
  unfold find_on_disk in Hf.
  destruct (disk_items (dir_prefix (lookup_dir t)) ents) as [items| | |] eqn:Hd; try discriminate Hf.
  cbn [bind] in Hf.
  destruct (lookup_scan t ents opts items TO (FO ents eq_refl) Hd) as (qs & Hqs & Hsh & Hperm & _).
  rewrite Hqs in Hf. injection Hf as <-.
  rewrite Forall_forall in Hsh. pose proof (Hsh q0 Hin) as Sq0.
  destruct (tseq_restyle _ _ _ q0 (eff_style st opts) Sq0) as ((Hd1 & Hb1 & He1 & Hz1 & Hf1) & _ & Hp).
  rewrite <- Hq in *.
  repeat (split; [assumption|]).
  intros p Hp'. rewrite Hp in Hp'.
  assert (Hfl : In p (flat_map q_paths qs)) by (apply in_flat_map; exists q0; split; assumption).
  apply (Permutation_in _ Hperm) in Hfl. apply in_map_iff in Hfl. destruct Hfl as (n & <- & Hn).
  unfold tnames in Hn. apply filter_In in Hn. destruct Hn as [Hn1 Hn2].
  exists n. repeat split; assumption.
Qed.

(** * COMPLETENESS when the taken names form one group *)

Lemma lookup_ok_tseq : forall strict st t q,
  tseq (q_dir t) (q_base t) (q_ext t) q ->
  lookup_ok strict st t q =
  negb (strict && negb (beq (q_pad t) []) && negb (q_zfill q =? q_zfill t)%Z).
Proof.
  intros strict st t q S. unfold lookup_ok.
  destruct (tseq_restyle _ _ _ q st S) as (_ & Ez & _). rewrite Ez.
  destruct S as (_ & -> & -> & _). rewrite !beq_same. reflexivity.
Qed.

Section OneGroup.
Variables (pat : bytes) (st : Z) (opts : list Z) (rd : bytes -> option (list (bytes * ekind)))
          (t : fileseq) (ents : list (bytes * ekind)) (w : Z).
Hypothesis Ht : new_fileseq pat (style_of_int (eff_style st opts)) = Ok t.
Hypothesis TO : tmpl_ok t.
Hypothesis Hrd : rd (lookup_dir t) = Some ents.
Hypothesis Hdang : forall n, ~ In (n, KLinkDangling) ents.
Hypothesis FO : frames_ok (lookup_hidden opts) t (non_dirs ents).
Let names := tnames (lookup_hidden opts) t (non_dirs ents).
(** [w] is the smallest width on disk and every other frame text is longer
    without leading zero ("1", "10", "100" with w = 1; all of one width) *)
Hypothesis Hw : forall n, In n names -> width_compat t w n.
Hypothesis Hmin : exists n, In n names /\ blen (frame_text t n) = w.

Lemma one_group_scan : exists q0,
  find_on_disk (lookup_dir t) (rd (lookup_dir t)) (opts ++ pad_opts opts) (Some t) = Ok [q0] /\
  tseq (q_dir t) (q_base t) (q_ext t) q0 /\ q_zfill q0 = w /\
  Permutation (q_paths q0) (map (fun n => q_dir t ++ n) names).
Proof.
  rewrite Hrd. unfold find_on_disk.
  pose proof (disk_items_ok (dir_prefix (lookup_dir t)) ents Hdang) as Hd. rewrite Hd. cbn [bind].
  destruct (lookup_scan t ents opts _ TO FO Hd) as (qs & Hqs & Hsh & Hperm & _ & Hu).
  destruct (Hu w Hw Hmin) as (q0 & -> & Hz).
  exists q0. split; [exact Hqs|]. inversion Hsh as [|a l S0 _]; subst a l.
  split; [exact S0|]. split; [exact Hz|].
  cbn [flat_map] in Hperm. rewrite app_nil_r in Hperm. exact Hperm.
Qed.

(** the lookup returns a sequence made of ALL the taken names, unless
    StrictPadding rejects the width *)
Theorem find_one_complete_compatible :
  (lookup_strict opts = false \/ q_pad t = [] \/ q_zfill t = w) ->
  exists q, find_seq_on_disk pat st opts rd = Ok (Some q) /\
    q_dir q = q_dir t /\ q_base q = q_base t /\ q_ext q = q_ext t /\ q_zfill q = w /\
    Permutation (q_paths q) (map (fun n => q_dir t ++ n) names).
Proof.
  intros Hacc. destruct one_group_scan as (q0 & Hscan & S0 & Hz & Hperm).
  rewrite find_seq_on_disk_eq, Ht, Hscan. cbn [filter].
  rewrite (lookup_ok_tseq _ _ t q0 S0). fold (lookup_strict opts).
  assert (Eacc : negb (lookup_strict opts && negb (beq (q_pad t) []) && negb (q_zfill q0 =? q_zfill t)%Z) = true).
  { destruct Hacc as [->|[->|E]]; [reflexivity|cbn [beq negb andb]; rewrite andb_false_r; reflexivity|].
    rewrite Hz, E, Z.eqb_refl. cbn [negb]. rewrite andb_false_r. reflexivity. }
  rewrite Eacc.
  destruct (tseq_restyle _ _ _ q0 (eff_style st opts) S0) as ((Hd1 & Hb1 & He1 & _) & Ez & Hp).
  eexists. split; [reflexivity|].
  repeat (split; [assumption|]). split; [rewrite Ez; exact Hz|]. rewrite Hp. exact Hperm.
Qed.

(** ... and with StrictPadding, a pattern that has padding, and another
    width, it returns nothing *)
Theorem find_one_strict_rejects_compatible :
  lookup_strict opts = true -> q_pad t <> [] -> q_zfill t <> w ->
  find_seq_on_disk pat st opts rd = Ok None.
Proof.
  intros Hs Hp Hz'. destruct one_group_scan as (q0 & Hscan & S0 & Hz & _).
  rewrite find_seq_on_disk_eq, Ht, Hscan. cbn [filter].
  rewrite (lookup_ok_tseq _ _ t q0 S0). fold (lookup_strict opts). rewrite Hs.
  assert (E1 : beq (q_pad t) [] = false).
  { destruct (beq (q_pad t) []) eqn:E; [|reflexivity]. apply beq_eq in E. contradiction. }
  assert (E2 : (q_zfill q0 =? q_zfill t)%Z = false) by (apply Z.eqb_neq; congruence).
  rewrite E1, E2. reflexivity.
Qed.

End OneGroup.

(** the case asked for: the taken names share ONE digit width *)
Lemma uniform_compat : forall t w (names : list bytes), names <> [] ->
  (forall n, In n names -> blen (frame_text t n) = w) ->
  (forall n, In n names -> width_compat t w n) /\ exists n, In n names /\ blen (frame_text t n) = w.
Proof.
  intros t w names Hne Hw. split.
  - intros n Hin. left. apply Hw. exact Hin.
  - destruct names as [|n l]; [congruence|]. exists n. split; [left; reflexivity|apply Hw; left; reflexivity].
Qed.

Theorem find_one_complete_uniform : forall pat st opts rd t ents w,
  new_fileseq pat (style_of_int (eff_style st opts)) = Ok t ->
  tmpl_ok t ->
  rd (lookup_dir t) = Some ents ->
  (forall n, ~ In (n, KLinkDangling) ents) ->
  frames_ok (lookup_hidden opts) t (non_dirs ents) ->
  let names := tnames (lookup_hidden opts) t (non_dirs ents) in
  names <> [] ->
  (forall n, In n names -> blen (frame_text t n) = w) ->
  (lookup_strict opts = false \/ q_pad t = [] \/ q_zfill t = w) ->
  exists q, find_seq_on_disk pat st opts rd = Ok (Some q) /\
    q_dir q = q_dir t /\ q_base q = q_base t /\ q_ext q = q_ext t /\ q_zfill q = w /\
    Permutation (q_paths q) (map (fun n => q_dir t ++ n) names).
Proof.
  intros pat st opts rd t ents w Ht TO Hrd Hdang FO names Hne Hw Hacc.
  destruct (uniform_compat t w names Hne Hw) as [Hc Hm].
  exact (find_one_complete_compatible pat st opts rd t ents w Ht TO Hrd Hdang FO Hc Hm Hacc).
Qed.

Theorem find_one_strict_rejects_uniform : forall pat st opts rd t ents w,
  new_fileseq pat (style_of_int (eff_style st opts)) = Ok t ->
  tmpl_ok t ->
  rd (lookup_dir t) = Some ents ->
  (forall n, ~ In (n, KLinkDangling) ents) ->
  frames_ok (lookup_hidden opts) t (non_dirs ents) ->
  let names := tnames (lookup_hidden opts) t (non_dirs ents) in
  names <> [] ->
  (forall n, In n names -> blen (frame_text t n) = w) ->
  lookup_strict opts = true -> q_pad t <> [] -> q_zfill t <> w ->
  find_seq_on_disk pat st opts rd = Ok None.
Proof.
  intros pat st opts rd t ents w Ht TO Hrd Hdang FO names Hne Hw Hs Hp Hz.
  destruct (uniform_compat t w names Hne Hw) as [Hc Hm].
  exact (find_one_strict_rejects_compatible pat st opts rd t ents w Ht TO Hrd Hdang FO Hc Hm Hs Hp Hz).
Qed.

(** no entry taken: no sequence *)
Theorem find_one_none_taken : forall pat st opts rd t ents,
  new_fileseq pat (style_of_int (eff_style st opts)) = Ok t ->
  rd (lookup_dir t) = Some ents -> (forall n, ~ In (n, KLinkDangling) ents) ->
  tnames (lookup_hidden opts) t (non_dirs ents) = [] ->
  find_seq_on_disk pat st opts rd = Ok None.
Proof.
  intros pat st opts rd t ents Ht Hrd Hdang Hn.
  rewrite find_seq_on_disk_eq, Ht, Hrd. unfold find_on_disk.
  rewrite (disk_items_ok _ ents Hdang). cbn [bind]. unfold find_items.
  fold (lookup_opts opts).
  destruct (collect_tmpl (lookup_opts opts) t (map (mkItem (dir_prefix (lookup_dir t))) (non_dirs ents))
              [] [] [] (or_introl (conj eq_refl eq_refl))) as (seqs & Hc & B).
  rewrite Hc. cbn [bind app] in *.
  rewrite map_map in B. cbn [fi_name] in B. rewrite map_id, lookup_opts_hidden in B.
  unfold tframes in B. rewrite Hn in B. cbn [map] in B.
  destruct B as [[_ ->]|[Hne _]]; [|congruence].
  cbn [emit_all bind]. destruct (o_single (lookup_opts opts)); reflexivity.
Qed.

(** * StrictPadding *)

(** with StrictPadding and a pattern that has padding, the sequence returned
    has the pattern's width, and the frame text of every file it names is its
    frame number zero-filled to that width *)
Theorem find_one_strict_compatible : forall pat st opts rd q t,
  In K_StrictPadding opts ->
  find_seq_on_disk pat st opts rd = Ok (Some q) ->
  new_fileseq pat (style_of_int (eff_style st opts)) = Ok t ->
  q_pad t <> [] ->
  tmpl_ok t ->
  (forall ents, rd (lookup_dir t) = Some ents -> frames_ok (lookup_hidden opts) t (non_dirs ents)) ->
  q_zfill q = q_zfill t /\
  exists ents f, rd (lookup_dir t) = Some ents /\ q_fs q = Some f /\
    forall p, In p (q_paths q) ->
      exists n v, In n (non_dirs ents) /\ p = q_dir t ++ n /\ In v (fs_frames f) /\
                  n = q_base t ++ frame_text t n ++ q_ext t /\
                  frame_text t n = zfill_int v (q_zfill t).
Proof.
  intros pat st opts rd q t Hs H Ht Hpad TO FO.
  pose proof (find_seq_strict pat st opts rd q t Hs H Ht Hpad) as Hz. split; [exact Hz|].
  destruct (find_one_sound pat st opts rd q t H Ht TO FO) as (ents & Hrd & Hd & Hb & He & _ & (f & Hf) & Hp).
  exists ents, f. split; [exact Hrd|]. split; [exact Hf|].
  intros p Hin. destruct (Hp p Hin) as (n & Hn & Htk & Ep).
  destruct (taken_inv _ t n Htk) as (En & _).
  unfold q_paths in Hin. rewrite Hf in Hin. apply in_map_iff in Hin. destruct Hin as (v & Ev & Hv).
  exists n, v. repeat split; try assumption.
  unfold q_frame_int in Ev. rewrite Hf, Hd, Hb, He, Hz in Ev. rewrite Ep in Ev.
  apply app_inv_head in Ev. rewrite En in Ev. apply app_inv_head in Ev. apply app_inv_tail in Ev.
  symmetry. exact Ev.
Qed.

(** * a pattern WITH a pad token never has a basename that ends in a digit *)

Lemma pt_result_none : forall pos pos' u cs cs',
  pt_result pos u cs <> None -> pt_result pos' u cs' <> None.
Proof.
  intros pos pos' u cs cs'. unfold pt_result. destruct (pad_len u) as [n|]; [|auto].
  destruct (forallb nonl (skipn n u)); [discriminate|auto].
Qed.

Lemma pad_len_head : forall c t, pad_len (c :: t) <> None -> pad_head c = true.
Proof.
  intros c t H. unfold pad_len in H. unfold pad_head.
  destruct (is_ha c); [reflexivity|].
  destruct (Nat.eqb c 37); [reflexivity|].
  destruct (Nat.eqb c 36); [reflexivity|].
  destruct (Nat.eqb c 60); [reflexivity|]. congruence.
Qed.

(** if the range-and-pad expression matches at [rest], it matches one byte
    earlier when that byte is a digit or '-' *)
Lemma kre_extend : forall c rest pos pos' cs cs', is_hd c = true ->
  kre_result pos rest cs <> None -> kre_result pos' (c :: rest) cs' <> None.
Proof.
  intros c rest pos pos' cs cs' Hc H. unfold kre_result at 1. rewrite Hc. cbv zeta.
  destruct rest as [|c' t]; [exfalso; apply H; reflexivity|].
  unfold kre_result in H. destruct (is_hd c') eqn:Hc'.
  - cbv zeta in H. cbn [span_len]. rewrite (hd_rg c' Hc'). cbn [skipn].
    eapply pt_result_none. exact H.
  - assert (Hp : pad_head c' = true).
    { apply (pad_len_head c' t). unfold pt_result in H. destruct (pad_len (c' :: t)); [discriminate|].
      exfalso. apply H. reflexivity. }
    rewrite (span_zero _ c' t (pad_not_rg c' Hp)). cbn [skipn].
    eapply pt_result_none. exact H.
Qed.

Lemma split_name_inv : forall s name rng pad ext,
  submatches R_splitPattern s 4 = Some [name; rng; pad; ext] ->
  exists i, i <= List.length s /\ name = firstn i s /\
    kre_result i (skipn i s) [(1, (0, i))] <> None /\
    forall j, j < i -> kre_result j (skipn j s) [(1, (0, j))] = None.
Proof.
  intros s name rng pad ext H. unfold submatches in H. rewrite split_char in H.
  match type of H with context [lscan ?p ?k 0 s []] => destruct (lscan p k 0 s []) as [r|] eqn:E end;
    [|discriminate H].
  apply lscan_inv in E. destruct E as (i & Hi & _ & Hk & Hm). cbn [Nat.add] in Hk, Hm. cbv beta in Hk, Hm.
  exists i. split; [exact Hi|]. split; [|split; [rewrite Hk; discriminate|exact Hm]].
  unfold kre_result in Hk. destruct (skipn i s) as [|c t]; [discriminate Hk|].
  destruct (is_hd c).
  - cbv zeta in Hk. unfold pt_result in Hk.
    destruct (pad_len _) as [n|]; [|discriminate Hk].
    destruct (forallb nonl _); [|discriminate Hk]. injection Hk as <-.
    cbn [seq map] in H. unfold cap_get in H. cbn [cap_lookup Nat.eqb] in H.
    injection H as H1 _ _ _. rewrite slice_0 in H1. symmetry. exact H1.
  - unfold pt_result in Hk.
    destruct (pad_len _) as [n|]; [|discriminate Hk].
    destruct (forallb nonl _); [|discriminate Hk]. injection Hk as <-.
    cbn [seq map] in H. unfold cap_get in H. cbn [cap_lookup Nat.eqb] in H.
    injection H as H1 _ _ _. rewrite slice_0 in H1. symmetry. exact H1.
Qed.

Lemma split_name_last : forall s name rng pad ext c r,
  submatches R_splitPattern s 4 = Some [name; rng; pad; ext] ->
  rev name = c :: r -> is_hd c = false.
Proof.
  intros s name rng pad ext c r H Hr.
  destruct (split_name_inv s name rng pad ext H) as (i & Hi & -> & Hk & Hm).
  destruct (is_hd c) eqn:Hc; [|reflexivity]. exfalso.
  assert (En : firstn i s = rev r ++ [c]).
  { rewrite <- (rev_involutive (firstn i s)), Hr. reflexivity. }
  assert (Hl : i = S (List.length r)).
  { apply (f_equal (@List.length _)) in En. rewrite firstn_length_le in En by exact Hi.
    rewrite app_length, rev_length in En. cbn [List.length] in En. lia. }
  assert (Es : skipn (List.length r) s = c :: skipn i s).
  { rewrite <- (firstn_skipn i s) at 1. rewrite En, <- app_assoc.
    rewrite <- (rev_length r) at 1. rewrite skipn_len_app. reflexivity. }
  specialize (Hm (List.length r) ltac:(lia)). rewrite Es in Hm.
  exact (kre_extend c (skipn i s) i _ _ _ Hc Hk Hm).
Qed.

Theorem pad_pattern_base_no_digit : forall pat st t l,
  submatches R_splitPattern pat 4 = Some l -> new_fileseq pat st = Ok t ->
  last_byte_is_digit_before (q_base t) = false.
Proof.
  intros pat st t l Hs Ht.
  assert (El : exists name rng pad ext, l = [name; rng; pad; ext]).
  { unfold submatches in Hs. destruct (rmatch R_splitPattern pat); [|discriminate Hs].
    injection Hs as <-. cbn [seq map]. eexists _, _, _, _. reflexivity. }
  destruct El as (name & rng & pad & ext & ->).
  unfold new_fileseq in Ht. rewrite Hs in Ht.
  destruct (path_split name) as [dir base] eqn:Ep. injection Ht as <-.
  unfold set_padding. cbn [q_base].
  apply path_split_app in Ep.
  unfold last_byte_is_digit_before. destruct (rev base) as [|c r] eqn:Er; [reflexivity|].
  assert (Hc : is_hd c = false).
  { apply (split_name_last pat name rng pad ext c (r ++ rev dir) Hs).
    rewrite Ep, rev_app_distr, Er. reflexivity. }
  unfold is_hd in Hc. apply orb_false_iff in Hc. destruct Hc as [Hd Hm].
  unfold c_minus. destruct r as [|d0 r']; [exact Hd|]. rewrite Hm. exact Hd.
Qed.

(** for such a pattern the third conjunct of [frames_ok] is void *)
Corollary frames_ok_pad_pattern : forall pat st t l h names,
  submatches R_splitPattern pat 4 = Some l -> new_fileseq pat st = Ok t ->
  NoDup names ->
  (forall n, In n names -> taken h t n = true ->
     not_neg_zero (frame_text t n) /\ exists v, atoi (frame_text t n) = Some v /\ small v) ->
  frames_ok h t names.
Proof.
  intros pat st t l h names Hs Ht HN Hfr. split; [exact HN|]. split; [exact Hfr|].
  intros n _ Hdig. rewrite (pad_pattern_base_no_digit pat st t l Hs Ht) in Hdig. discriminate Hdig.
Qed.

(** * FINDING: a basename that ends in a digit, one file on disk *)

(** pattern "a1-2.exr" (no pad token: basename "a1", extension ".exr"), the
    directory holds the single file "a15.exr".  [tmpl_ok] and the first two
    conjuncts of [frames_ok] hold; the lookup returns a sequence whose only
    path is "a105.exr". *)
Lemma counterexample_digit_base :
  let ents := [(s2b "a15.exr", KFile)] in
  let rd := fun _ : bytes => Some ents in
  exists q t,
    find_seq_on_disk (s2b "a1-2.exr") K_PadStyleHash4 [] rd = Ok (Some q) /\
    new_fileseq (s2b "a1-2.exr") (style_of_int (eff_style K_PadStyleHash4 [])) = Ok t /\
    tmpl_ok t /\ last_byte_is_digit_before (q_base t) = true /\
    tnames (lookup_hidden []) t (non_dirs ents) = [s2b "a15.exr"] /\
    NoDup (non_dirs ents) /\
    (forall n, In n (non_dirs ents) -> taken (lookup_hidden []) t n = true ->
       not_neg_zero (frame_text t n) /\ exists v, atoi (frame_text t n) = Some v /\ small v) /\
    q_paths q = [s2b "a105.exr"].
Proof.
  cbv zeta. eexists. eexists.
  split; [vm_compute; reflexivity|].
  split; [vm_compute; reflexivity|].
  split.
  { unfold tmpl_ok. cbn [q_dir q_base q_ext].
    repeat split; try (vm_compute; reflexivity). right. eexists. reflexivity. }
  split; [vm_compute; reflexivity|].
  split; [vm_compute; reflexivity|].
  split; [constructor; [intros []|constructor]|].
  split; [|vm_compute; reflexivity].
  intros n [<-|[]] _. split.
  - intros ds E. vm_compute in E. discriminate E.
  - exists 5%Z. split; [vm_compute; reflexivity|unfold small; lia].
Qed.

(** * the hypotheses are satisfiable: a concrete directory *)

(** pattern "a//b/foo.#.exr": the lookup reads "a//b/" and reports
    "a//b/foo.0001.exr", "a//b/foo.0002.exr"; the siblings "foo.exr",
    "foo.bar.exr", "foo.1-5.exr", "foo.+5.exr", "bar.0001.exr" and the
    directory "foo.0003.exr" are passed over *)
Example lookup_example :
  let ents := [(s2b "foo.0002.exr", KFile); (s2b "foo.exr", KFile); (s2b "foo.bar.exr", KFile);
               (s2b "foo.0001.exr", KLinkFile); (s2b "foo.1-5.exr", KFile); (s2b "foo.+5.exr", KFile);
               (s2b "bar.0001.exr", KFile); (s2b "foo.0003.exr", KDir)] in
  let rd := fun d : bytes => if beq d (s2b "a//b/") then Some ents else None in
  exists q, find_seq_on_disk (s2b "a//b/foo.#.exr") K_PadStyleHash4 [K_StrictPadding] rd = Ok (Some q) /\
    q_zfill q = 4%Z /\
    Permutation (q_paths q) [s2b "a//b/foo.0002.exr"; s2b "a//b/foo.0001.exr"].
Proof.
  cbv zeta.
  set (ents := [(s2b "foo.0002.exr", KFile); (s2b "foo.exr", KFile); (s2b "foo.bar.exr", KFile);
               (s2b "foo.0001.exr", KLinkFile); (s2b "foo.1-5.exr", KFile); (s2b "foo.+5.exr", KFile);
               (s2b "bar.0001.exr", KFile); (s2b "foo.0003.exr", KDir)]).
  set (rd := fun d : bytes => if beq d (s2b "a//b/") then Some ents else None).
  destruct (new_fileseq (s2b "a//b/foo.#.exr") (style_of_int (eff_style K_PadStyleHash4 [K_StrictPadding])))
    as [t| | |] eqn:Ht; try (vm_compute in Ht; discriminate Ht).
  assert (Et : (q_dir t, q_base t, q_ext t, q_pad t, q_zfill t) =
               (s2b "a//b/", s2b "foo.", s2b ".exr", s2b "#", 4%Z)).
  { vm_compute in Ht. injection Ht as <-. reflexivity. }
  injection Et as Ed Eb Ee Ep Ez.
  assert (TO : tmpl_ok t).
  { unfold tmpl_ok. rewrite Ed, Eb, Ee. repeat split; try (vm_compute; reflexivity).
    right. eexists. reflexivity. }
  assert (Hrd : rd (lookup_dir t) = Some ents).
  { unfold lookup_dir. rewrite Ed. reflexivity. }
  assert (Hnames : tnames (lookup_hidden [K_StrictPadding]) t (non_dirs ents) =
                   [s2b "foo.0002.exr"; s2b "foo.0001.exr"]).
  { vm_compute in Ht. injection Ht as <-. vm_compute. reflexivity. }
  assert (Hft : forall n, In n [s2b "foo.0002.exr"; s2b "foo.0001.exr"] ->
                 frame_text t n = s2b "0002" \/ frame_text t n = s2b "0001").
  { intros n [<-|[<-|[]]]; unfold frame_text; rewrite Eb, Ee; [left|right]; reflexivity. }
  destruct (find_one_complete_uniform _ _ _ rd t ents 4%Z Ht TO Hrd) as (q & Hq & _ & _ & _ & Hz & Hp).
  - intros n Hin. unfold ents in Hin. cbn [In] in Hin.
    repeat (destruct Hin as [Hin|Hin]; [discriminate Hin|]). exact Hin.
  - split; [|split].
    + apply nodupb_NoDup. vm_compute. reflexivity.
    + intros n Hin Htk.
      assert (Hin' : In n (tnames (lookup_hidden [K_StrictPadding]) t (non_dirs ents)))
        by (unfold tnames; apply filter_In; split; assumption).
      rewrite Hnames in Hin'.
      destruct (Hft n Hin') as [E|E]; rewrite E; (split; [intros ds D; discriminate D|]).
      * exists 2%Z. split; [vm_compute; reflexivity|unfold small; lia].
      * exists 1%Z. split; [vm_compute; reflexivity|unfold small; lia].
    + intros n _ Hdig. rewrite Eb in Hdig. vm_compute in Hdig. discriminate Hdig.
  - rewrite Hnames. discriminate.
  - intros n Hin. rewrite Hnames in Hin. destruct (Hft n Hin) as [E|E]; rewrite E; reflexivity.
  - right. right. exact Ez.
  - exists q. split; [exact Hq|]. split; [exact Hz|]. rewrite Hnames, Ed in Hp. exact Hp.
Qed.

Print Assumptions find_one_sound.
Print Assumptions find_one_complete_compatible.
Print Assumptions find_one_strict_rejects_compatible.
Print Assumptions find_one_complete_uniform.
Print Assumptions find_one_strict_rejects_uniform.
Print Assumptions find_one_none_taken.
Print Assumptions find_one_strict_compatible.
Print Assumptions pad_pattern_base_no_digit.
Print Assumptions new_fileseq_dir_base.
Print Assumptions counterexample_digit_base.
Print Assumptions lookup_example.
