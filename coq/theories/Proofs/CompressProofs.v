(** FramesToFrameRange is a right inverse of the documented range grammar:
    the text it produces parses, fits, and denotes exactly the given frames
    (in the given order, or ascending when [sorted]). *)
From Coq Require Import Permutation Sorted.
From GFS Require Import Base Dec Pad Compress SpecRange RegexKit RangeRegex DecProofs AppendProofs.
Local Open Scope Z_scope.

Definition small (v : Z) : Prop := (- 2 ^ 62 <= v < 2 ^ 62)%Z.

(** * sort.Ints *)

Lemma zinsert_perm : forall x l, Permutation (x :: l) (zinsert x l).
Proof.
  intros x l. induction l as [|y r IH]; cbn [zinsert]; [apply Permutation_refl|].
  destruct (x <=? y); [apply Permutation_refl|].
  eapply perm_trans; [apply perm_swap|]. apply perm_skip. exact IH.
Qed.

Lemma zsort_perm : forall l, Permutation l (zsort l).
Proof.
  intros l. induction l as [|x r IH]; cbn [zsort fold_right]; [constructor|].
  eapply perm_trans; [apply perm_skip; exact IH|]. apply zinsert_perm.
Qed.

Lemma zinsert_sorted : forall x l, StronglySorted Z.le l -> StronglySorted Z.le (zinsert x l).
Proof.
  intros x l. induction l as [|y r IH]; intros H; cbn [zinsert].
  - constructor; constructor.
  - inversion H as [|y' r' Hs Hf]; subst.
    destruct (Z.leb_spec x y) as [L|L].
    + constructor; [exact H|]. constructor; [exact L|].
      eapply Forall_impl; [|exact Hf]. intros v Hv. cbv beta in Hv. lia.
    + constructor; [apply IH; exact Hs|].
      eapply Permutation_Forall; [apply zinsert_perm|].
      constructor; [lia | exact Hf].
Qed.

Theorem zsort_sorted_perm : forall l, Permutation l (zsort l) /\ StronglySorted Z.le (zsort l).
Proof.
  intros l. split; [apply zsort_perm|].
  induction l as [|x r IH]; cbn [zsort fold_right]; [constructor|].
  apply zinsert_sorted. exact IH.
Qed.

(** * the scan for a run *)

Lemma run_0 : forall s d, run s d 0 = [].
Proof. reflexivity. Qed.

Lemma run_pairs_cons2 : forall step a b l,
  run_pairs step (a :: b :: l) = if b - a =? step then S (run_pairs step (b :: l)) else O.
Proof. reflexivity. Qed.

Lemma run_pairs_run : forall step l a,
  firstn (S (run_pairs step (a :: l))) (a :: l) = run a step (S (run_pairs step (a :: l))).
Proof.
  intros step l. induction l as [|b l IH]; intros a.
  - cbn [run_pairs firstn]. rewrite run_cons, run_0. reflexivity.
  - rewrite run_pairs_cons2. destruct (Z.eqb_spec (b - a) step) as [E|E].
    + rewrite run_cons. change (firstn (S (S ?k)) (a :: ?r)) with (a :: firstn (S k) r).
      f_equal. rewrite IH. f_equal. lia.
    + cbn [firstn]. rewrite run_cons, run_0. reflexivity.
Qed.

Lemma run_pairs_nth : forall step l a,
  nth (run_pairs step (a :: l)) (a :: l) 0 = a + step * Z.of_nat (run_pairs step (a :: l)).
Proof.
  intros step l. induction l as [|b l IH]; intros a.
  - cbn [run_pairs nth]. lia.
  - rewrite run_pairs_cons2. destruct (Z.eqb_spec (b - a) step) as [E|E].
    + change (nth (S ?k) (a :: ?r) 0) with (nth k r 0). rewrite IH. lia.
    + cbn [nth]. lia.
Qed.

(** * the shape of the loop's output *)

Definition big_step (step : Z) : bool := (step >? 1) || (step <? -1).

Definition run_comp (f0 step : Z) (i : nat) : comp :=
  if big_step step then CStep f0 (f0 + step * Z.of_nat i) c_x step
  else CRange f0 (f0 + step * Z.of_nat i).

(** any cutting of the frames into single values and arithmetic runs of at
    least two values; the model makes one particular choice *)
Inductive decomp : list Z -> list comp -> Prop :=
| D_nil : decomp [] []
| D_single : forall a rest cs, decomp rest cs -> decomp (a :: rest) (CSingle a :: cs)
| D_run : forall f0 step i rest cs, decomp rest cs ->
    decomp (run f0 step (S (S i)) ++ rest) (run_comp f0 step (S i) :: cs).

Definition comp_text (z : Z) (c : comp) : bytes :=
  match c with
  | CSingle a => zfill_int a z
  | CRange a b => zfill_int a z ++ c_minus :: zfill_int b z
  | CStep a b md n => zfill_int a z ++ c_minus :: zfill_int b z ++ md :: itoa n
  end.

Definition emit (buf t : bytes) : bytes := sep_if_nonempty buf ++ t.

Lemma f2r_loop_S3 : forall fuel f0 f1 f2 r z buf,
  f2r_loop (S fuel) (f0 :: f1 :: f2 :: r) z buf =
  let frames := f0 :: f1 :: f2 :: r in
  let step := f1 - f0 in
  let i := run_pairs step frames in
  let buf := sep_if_nonempty buf in
  match i with
  | O => f2r_loop fuel (skipn 1 frames) z (buf ++ zfill_int f0 z)
  | _ =>
    let better :=
        match i, frames with
        | 1%nat, _ :: g1 :: g2 :: g3 :: _ => (g2 - g1 =? g3 - g2)
        | _, _ => false
        end in
    if better then f2r_loop fuel (skipn 1 frames) z (buf ++ zfill_int f0 z)
    else
      let last := nth i frames 0 in
      let buf := buf ++ zfill_int f0 z ++ c_minus :: zfill_int last z in
      let buf := if (step >? 1) || (step <? -1) then buf ++ c_x :: itoa step else buf in
      f2r_loop fuel (skipn (S i) frames) z buf
  end.
Proof. reflexivity. Qed.

Lemma emit_run_comp : forall buf z f0 step i,
  (if (step >? 1) || (step <? -1)
   then (sep_if_nonempty buf ++ zfill_int f0 z ++ c_minus :: zfill_int (f0 + step * Z.of_nat i) z)
          ++ c_x :: itoa step
   else sep_if_nonempty buf ++ zfill_int f0 z ++ c_minus :: zfill_int (f0 + step * Z.of_nat i) z)
  = emit buf (comp_text z (run_comp f0 step i)).
Proof.
  intros buf z f0 step i. unfold emit, run_comp, big_step.
  destruct ((step >? 1) || (step <? -1)); cbn [comp_text].
  - rewrite <- !app_assoc. cbn [app]. reflexivity.
  - reflexivity.
Qed.

Lemma loop_decomp : forall fuel frames z buf, (List.length frames < fuel)%nat ->
  exists cs, decomp frames cs /\
    f2r_loop fuel frames z buf = Ok (fold_left emit (map (comp_text z) cs) buf).
Proof.
  intros fuel. induction fuel as [|fuel IH]; intros frames z buf Hlen; [lia|].
  destruct frames as [|f0 [|f1 [|f2 r]]].
  - exists []. split; [constructor | reflexivity].
  - exists [CSingle f0]. split; [repeat constructor | reflexivity].
  - exists [CSingle f0; CSingle f1]. split; [repeat constructor | reflexivity].
  - rewrite f2r_loop_S3. cbv zeta.
    pose proof (run_pairs_run (f1 - f0) (f1 :: f2 :: r) f0) as HR.
    pose proof (run_pairs_nth (f1 - f0) (f1 :: f2 :: r) f0) as HN.
    set (frames := f0 :: f1 :: f2 :: r) in *.
    set (step := f1 - f0) in *.
    assert (Hsingle : exists cs, decomp frames cs /\
      f2r_loop fuel (skipn 1 frames) z (sep_if_nonempty buf ++ zfill_int f0 z) =
      Ok (fold_left emit (map (comp_text z) cs) buf)).
    { destruct (IH (skipn 1 frames) z (sep_if_nonempty buf ++ zfill_int f0 z)) as [cs [D E]].
      { unfold frames in *. cbn [skipn List.length] in *. lia. }
      exists (CSingle f0 :: cs). split; [apply D_single; exact D | exact E]. }
    destruct (run_pairs step frames) as [|i] eqn:Ei; [exact Hsingle|].
    match goal with |- context [if ?b then _ else _] => destruct b end; [exact Hsingle|].
    rewrite HN, emit_run_comp.
    destruct (IH (skipn (S (S i)) frames) z (emit buf (comp_text z (run_comp f0 step (S i)))))
      as [cs [D E]].
    { pose proof (skipn_length (S (S i)) frames). unfold frames in *. cbn [List.length] in *. lia. }
    exists (run_comp f0 step (S i) :: cs). split; [|exact E].
    rewrite <- (firstn_skipn (S (S i)) frames), HR. apply D_run.
    exact D.
Qed.

(** * what a cutting denotes *)

Lemma big_step_spec : forall step, big_step step = true <-> (step > 1 \/ step < -1).
Proof.
  intros step. unfold big_step. rewrite orb_true_iff, Z.gtb_lt, Z.ltb_lt. lia.
Qed.

Lemma walk_run_eq : forall f0 step n, step <> 0 -> (1 <= n)%nat ->
  walk f0 (f0 + step * Z.of_nat n) (Z.abs step) = run f0 step (S n).
Proof.
  intros f0 step n Hs Hn. rewrite walk_run.
  replace (f0 + step * Z.of_nat n - f0) with (step * Z.of_nat n) by lia.
  rewrite Z.abs_mul, (Z.abs_eq (Z.of_nat n)) by lia.
  rewrite (Z.mul_comm (Z.abs step)), Z.div_mul by lia.
  replace (Z.to_nat (Z.of_nat n + 1)) with (S n) by lia.
  f_equal. destruct (Z.leb_spec f0 (f0 + step * Z.of_nat n)) as [L|L]; nia.
Qed.

Lemma NoDup_app_remove_l : forall (l1 l2 : list Z), NoDup (l1 ++ l2) -> NoDup l2.
Proof.
  intros l1. induction l1 as [|a l1 IH]; intros l2 H; [exact H|].
  inversion H; subst. apply IH. assumption.
Qed.

Lemma NoDup_app_remove_r : forall (l1 l2 : list Z), NoDup (l1 ++ l2) -> NoDup l1.
Proof.
  intros l1. induction l1 as [|a l1 IH]; intros l2 H; [constructor|].
  inversion H as [|x l Hn Hd]; subst. constructor.
  - intros Hin. apply Hn. apply in_or_app. left. exact Hin.
  - eapply IH. exact Hd.
Qed.

Lemma run_two_step_nonzero : forall f0 step i rest,
  NoDup (run f0 step (S (S i)) ++ rest) -> step <> 0.
Proof.
  intros f0 step i rest H. apply NoDup_app_remove_r in H.
  rewrite run_cons, run_cons in H. inversion H as [|x l Hn _]; subst.
  intros E. apply Hn. left. lia.
Qed.

Lemma expand_run_comp : forall f0 step i, step <> 0 ->
  expand (run_comp f0 step (S i)) = run f0 step (S (S i)).
Proof.
  intros f0 step i Hs. unfold run_comp. destruct (big_step step) eqn:E.
  - cbn [expand]. change (Nat.eqb c_x 120) with true. cbv iota.
    apply walk_run_eq; [exact Hs | lia].
  - cbn [expand].
    assert (A : Z.abs step = 1).
    { destruct (big_step_spec step) as [_ B].
      assert (C : ~ (step > 1 \/ step < -1)) by (intros C; rewrite (B C) in E; discriminate).
      lia. }
    rewrite <- A. apply walk_run_eq; [exact Hs | lia].
Qed.

Lemma decomp_expand : forall frames cs, decomp frames cs -> NoDup frames ->
  flat_map expand cs = frames.
Proof.
  intros frames cs D. induction D as [|a rest cs D IH|f0 step i rest cs D IH]; intros ND.
  - reflexivity.
  - cbn [flat_map expand app]. f_equal. apply IH. inversion ND; assumption.
  - cbn [flat_map]. rewrite expand_run_comp by (eapply run_two_step_nonzero; exact ND).
    f_equal. apply IH. eapply NoDup_app_remove_l. exact ND.
Qed.

Definition mod_ok (c : comp) : Prop :=
  match c with CStep _ _ md _ => md = c_x | _ => True end.

Lemma decomp_mod : forall frames cs, decomp frames cs -> Forall mod_ok cs.
Proof.
  intros frames cs D. induction D as [|a rest cs D IH|f0 step i rest cs D IH].
  - constructor.
  - constructor; [exact I | exact IH].
  - constructor; [|exact IH]. unfold run_comp. destruct (big_step step); cbn; trivial.
Qed.

Lemma small_fits : forall v, small v -> fits_int v = true.
Proof.
  intros v H. unfold small in H. unfold fits_int, int_min, int_max.
  rewrite andb_true_iff, !Z.leb_le. lia.
Qed.

Lemma small_diff_fits : forall a b, small a -> small b -> fits_int (b - a) = true.
Proof.
  intros a b Ha Hb. unfold small in *. unfold fits_int, int_min, int_max.
  rewrite andb_true_iff, !Z.leb_le. lia.
Qed.

Lemma decomp_fits : forall frames cs, decomp frames cs -> NoDup frames -> Forall small frames ->
  Forall (fun c => comp_fits c = true /\ comp_nonzero c = true) cs.
Proof.
  intros frames cs D. induction D as [|a rest cs D IH|f0 step i rest cs D IH]; intros ND SM.
  - constructor.
  - inversion ND; inversion SM; subst. constructor; [|apply IH; assumption].
    split; [cbn [comp_fits]; apply small_fits; assumption | reflexivity].
  - pose proof (run_two_step_nonzero _ _ _ _ ND) as Hs.
    apply Forall_app in SM. destruct SM as [SR SM].
    constructor; [|apply IH; [eapply NoDup_app_remove_l; exact ND | exact SM]].
    rewrite Forall_forall in SR.
    assert (S0 : small f0).
    { apply SR. apply run_In. exists O. split; [lia|]. lia. }
    assert (S1 : small (f0 + step)).
    { apply SR. apply run_In. exists 1%nat. split; [lia|]. lia. }
    assert (S2 : small (f0 + step * Z.of_nat (S i))).
    { apply SR. apply run_In. exists (S i). split; [lia|]. lia. }
    assert (F : fits_int step = true).
    { replace step with ((f0 + step) - f0) by lia. apply small_diff_fits; assumption. }
    unfold run_comp. destruct (big_step step); cbn [comp_fits comp_nonzero].
    + rewrite !small_fits, F by assumption. split; [reflexivity|].
      destruct (Z.eqb_spec step 0); [contradiction | reflexivity].
    + rewrite !small_fits by assumption. split; reflexivity.
Qed.

(** * reading the text of a component back *)

Definition nondig (rest : bytes) : Prop :=
  match rest with c :: _ => is_digit c = false | [] => True end.

Lemma span_len_digits_app : forall ds rest, all_digits ds -> nondig rest ->
  span_len is_digit (ds ++ rest) = List.length ds.
Proof.
  intros ds rest H N. induction ds as [|c r IH].
  - cbn [app List.length]. destruct rest as [|c r]; [reflexivity|].
    cbn [span_len]. cbn [nondig] in N. rewrite N. reflexivity.
  - apply all_digits_cons in H. destruct H as [Hc Hr].
    cbn [app span_len List.length]. rewrite Hc, IH by exact Hr. reflexivity.
Qed.

Lemma num_len_numeral_app : forall t rest, numeral t -> nondig rest ->
  num_len (t ++ rest) = List.length t.
Proof.
  intros t rest H N. destruct (numeral_inv t H) as [[ds [-> [A B]]]|[A [B C]]].
  - change ((45%nat :: ds) ++ rest) with (45%nat :: (ds ++ rest)). unfold num_len.
    rewrite span_len_digits_app by assumption.
    destruct ds as [|c r]; [congruence|]. reflexivity.
  - destruct t as [|c r]; [congruence|].
    change ((c :: r) ++ rest) with (c :: (r ++ rest)). rewrite num_len_eq.
    pose proof B as B'. apply all_digits_cons in B'. destruct B' as [Hc _].
    apply digit_not_sign in Hc. destruct Hc as [Hc _].
    apply Nat.eqb_neq in Hc. rewrite Hc.
    change (c :: (r ++ rest)) with ((c :: r) ++ rest).
    apply span_len_digits_app; assumption.
Qed.

Lemma numeral_nonempty : forall t, numeral t -> t <> [].
Proof.
  intros t H. destruct (numeral_inv t H) as [[ds [-> _]]|[A _]]; [discriminate | exact A].
Qed.

Lemma read_int_numeral_app : forall t v rest, numeral t -> atoi_big t = Some v -> nondig rest ->
  read_int (t ++ rest) = Some (v, rest).
Proof.
  intros t v rest H A N. rewrite read_int_num_len, num_len_numeral_app by assumption.
  pose proof (numeral_nonempty t H) as NE.
  assert (E1 : firstn (List.length t) (t ++ rest) = t).
  { rewrite firstn_app, Nat.sub_diag, firstn_all. cbn [firstn]. apply app_nil_r. }
  assert (E2 : skipn (List.length t) (t ++ rest) = rest).
  { rewrite skipn_app, Nat.sub_diag, skipn_all. reflexivity. }
  destruct (List.length t) as [|k] eqn:L.
  - destruct t; [congruence | discriminate].
  - cbv zeta. rewrite E1, E2, A. reflexivity.
Qed.

Lemma read_int_zfill_app : forall a z rest, nondig rest ->
  read_int (zfill_int a z ++ rest) = Some (a, rest).
Proof.
  intros a z rest N. apply read_int_numeral_app;
    [apply zfill_int_numeral | apply zfill_int_value | exact N].
Qed.

Lemma read_int_zfill : forall a z, read_int (zfill_int a z) = Some (a, []).
Proof.
  intros a z. pose proof (read_int_zfill_app a z [] I) as H.
  rewrite app_nil_r in H. exact H.
Qed.

Lemma read_int_itoa : forall n, read_int (itoa n) = Some (n, []).
Proof.
  intros n. pose proof (read_int_numeral_app (itoa n) n [] (itoa_numeral n) (atoi_big_itoa n) I) as H.
  rewrite app_nil_r in H. exact H.
Qed.

Lemma is_mod_nondig : forall md r, is_mod md = true -> nondig (md :: r).
Proof.
  intros md r H. cbn [nondig]. unfold is_mod in H.
  rewrite !orb_true_iff, !Nat.eqb_eq in H.
  destruct (is_digit md) eqn:E; [|reflexivity]. apply is_digit_range in E. lia.
Qed.

Lemma parse_comp_text : forall z c,
  match c with CStep _ _ md _ => is_mod md = true | _ => True end ->
  parse_comp (comp_text z c) = Some c.
Proof.
  intros z [a|a b|a b md n] H; unfold parse_comp; cbn [comp_text].
  - rewrite read_int_zfill. reflexivity.
  - rewrite read_int_zfill_app by reflexivity. unfold c_minus. cbv beta iota.
    rewrite read_int_zfill. reflexivity.
  - rewrite read_int_zfill_app by reflexivity. unfold c_minus. cbv beta iota.
    rewrite read_int_zfill_app by (apply is_mod_nondig; exact H). cbv beta iota.
    rewrite H, read_int_itoa. reflexivity.
Qed.

Lemma mod_ok_is_mod : forall c, mod_ok c ->
  match c with CStep _ _ md _ => is_mod md = true | _ => True end.
Proof. intros [a|a b|a b md n] H; cbn in *; [exact I | exact I | subst md; reflexivity]. Qed.

(** * the characters of a component *)

Definition tchar (c : byte) : Prop := is_digit c = true \/ c = 45%nat \/ c = 120%nat.

Lemma digits_tchar : forall ds, all_digits ds -> Forall tchar ds.
Proof.
  intros ds H. eapply Forall_impl; [|exact H]. intros c Hc. left. exact Hc.
Qed.

Lemma numeral_tchar : forall t, numeral t -> Forall tchar t.
Proof.
  intros t H. destruct (numeral_inv t H) as [[ds [-> [A B]]]|[A [B C]]].
  - constructor; [right; left; reflexivity | apply digits_tchar; exact B].
  - apply digits_tchar. exact B.
Qed.

Lemma comp_text_tchar : forall z c, mod_ok c -> Forall tchar (comp_text z c).
Proof.
  intros z [a|a b|a b md n] H; cbn [comp_text].
  - apply numeral_tchar, zfill_int_numeral.
  - apply Forall_app. split; [apply numeral_tchar, zfill_int_numeral|].
    constructor; [right; left; reflexivity | apply numeral_tchar, zfill_int_numeral].
  - cbn in H. subst md.
    apply Forall_app. split; [apply numeral_tchar, zfill_int_numeral|].
    constructor; [right; left; reflexivity|].
    apply Forall_app. split; [apply numeral_tchar, zfill_int_numeral|].
    constructor; [right; right; reflexivity | apply numeral_tchar, itoa_numeral].
Qed.

Lemma tchar_not_comma : forall c, tchar c -> c <> 44%nat.
Proof. intros c [H|[H|H]]; [apply is_digit_range in H|..]; lia. Qed.

Lemma tchar_not_ignored : forall c, tchar c -> ignored c = false.
Proof.
  intros c H. unfold ignored. rewrite !orb_false_iff, !Nat.eqb_neq.
  destruct H as [H|[H|H]]; [apply is_digit_range in H|..]; lia.
Qed.

Lemma comp_text_nonempty : forall z c, comp_text z c <> [].
Proof.
  intros z c. assert (N : forall a, zfill_int a z <> [])
    by (intros a; apply numeral_nonempty, zfill_int_numeral).
  destruct c as [a|a b|a b md n]; cbn [comp_text]; [apply N|..];
    intros E; apply app_eq_nil in E; destruct E as [E _]; exact (N _ E).
Qed.

(** * joining with commas and splitting again *)

Definition tail_text (ts : list bytes) : bytes := flat_map (fun t => 44%nat :: t) ts.

Lemma sep_nonempty : forall buf, buf <> [] -> sep_if_nonempty buf = buf ++ [44%nat].
Proof. intros [|c r] H; [congruence | reflexivity]. Qed.

Lemma fold_emit_nonempty : forall ts buf, buf <> [] ->
  fold_left emit ts buf = buf ++ tail_text ts.
Proof.
  intros ts. induction ts as [|t ts IH]; intros buf H; cbn [fold_left tail_text flat_map].
  - symmetry. apply app_nil_r.
  - rewrite IH.
    + unfold emit. rewrite sep_nonempty by exact H. rewrite <- !app_assoc. reflexivity.
    + unfold emit. rewrite sep_nonempty by exact H. intros E.
      apply app_eq_nil in E. destruct E as [E _]. apply app_eq_nil in E. destruct E; discriminate.
Qed.

Lemma fold_emit_nil : forall t ts, t <> [] -> fold_left emit (t :: ts) [] = t ++ tail_text ts.
Proof.
  intros t ts H. cbn [fold_left]. change (emit [] t) with t. apply fold_emit_nonempty. exact H.
Qed.

Lemma split_commas_app : forall t rest cur, Forall (fun c => c <> 44%nat) t ->
  split_commas (t ++ rest) cur = split_commas rest (rev t ++ cur).
Proof.
  intros t. induction t as [|c t IH]; intros rest cur H; [reflexivity|].
  inversion H as [|x l Hc Ht]; subst. cbn [app split_commas].
  apply Nat.eqb_neq in Hc. rewrite Hc, IH by exact Ht.
  cbn [rev]. rewrite <- app_assoc. reflexivity.
Qed.

Lemma split_join : forall ts t, Forall (Forall (fun c => c <> 44%nat)) (t :: ts) ->
  split_commas (t ++ tail_text ts) [] = t :: ts.
Proof.
  intros ts. induction ts as [|t' ts IH]; intros t H; inversion H as [|x l Ht Hts]; subst.
  - cbn [tail_text flat_map]. rewrite split_commas_app by exact Ht.
    cbn [split_commas]. rewrite app_nil_r, rev_involutive. reflexivity.
  - cbn [tail_text flat_map]. rewrite split_commas_app by exact Ht.
    cbn [app split_commas Nat.eqb]. rewrite app_nil_r, rev_involutive. f_equal.
    apply IH. exact Hts.
Qed.

Lemma strip_id : forall s, Forall (fun c => ignored c = false) s -> strip s = s.
Proof.
  intros s H. unfold strip. induction H as [|c r Hc Hr IH]; [reflexivity|].
  cbn [filter]. rewrite Hc. cbn [negb]. f_equal. exact IH.
Qed.

Lemma join_not_ignored : forall ts t, Forall (Forall tchar) (t :: ts) ->
  Forall (fun c => ignored c = false) (t ++ tail_text ts).
Proof.
  intros ts. induction ts as [|t' ts IH]; intros t H; inversion H as [|x l Ht Hts]; subst.
  - cbn [tail_text flat_map]. rewrite app_nil_r.
    eapply Forall_impl; [|exact Ht]. apply tchar_not_ignored.
  - cbn [tail_text flat_map]. apply Forall_app. split.
    + eapply Forall_impl; [|exact Ht]. apply tchar_not_ignored.
    + cbn [app]. constructor; [reflexivity|]. apply IH. exact Hts.
Qed.

Lemma parse_comps_texts : forall z cs, Forall mod_ok cs ->
  parse_comps (map (comp_text z) cs) = Some cs.
Proof.
  intros z cs H. induction H as [|c cs Hc Hcs IH]; [reflexivity|].
  cbn [map parse_comps]. rewrite parse_comp_text by (apply mod_ok_is_mod; exact Hc).
  rewrite IH. reflexivity.
Qed.

(** * the whole function *)

Lemma decomp_nil_inv : forall frames, decomp frames [] -> frames = [].
Proof. intros frames D. inversion D. reflexivity. Qed.

Lemma zsort_nil_inv : forall l, zsort l = [] -> l = [].
Proof.
  intros l H. pose proof (zsort_perm l) as P. rewrite H in P.
  apply Permutation_sym, Permutation_nil in P. exact P.
Qed.

Lemma f2r_shape : forall l (sorted : bool) z, l <> [] ->
  exists c cs, decomp (if sorted then zsort l else l) (c :: cs) /\
    frames_to_frame_range l sorted z =
    Ok (comp_text z c ++ tail_text (map (comp_text z) cs)).
Proof.
  intros l sorted z Hl. destruct l as [|a [|b r]]; [congruence|..].
  - exists (CSingle a), []. split.
    + destruct sorted; repeat constructor.
    + cbn [frames_to_frame_range map tail_text flat_map comp_text]. rewrite app_nil_r. reflexivity.
  - set (l := a :: b :: r) in *.
    set (fr := if sorted then zsort l else l).
    assert (Hfr : fr <> []).
    { unfold fr. destruct sorted; [|exact Hl]. intros E. apply zsort_nil_inv in E. contradiction. }
    destruct (loop_decomp (S (List.length fr)) fr z []) as [cs [D E]]; [lia|].
    destruct cs as [|c cs]; [apply decomp_nil_inv in D; contradiction|].
    exists c, cs. split; [exact D|].
    change (frames_to_frame_range l sorted z) with (f2r_loop (S (List.length fr)) fr z []).
    rewrite E. cbn [map]. rewrite fold_emit_nil by apply comp_text_nonempty. reflexivity.
Qed.

Lemma texts_no_comma : forall z cs, Forall mod_ok cs ->
  Forall (Forall (fun c => c <> 44%nat)) (map (comp_text z) cs).
Proof.
  intros z cs H. apply Forall_map. eapply Forall_impl; [|exact H].
  intros c Hc. eapply Forall_impl; [|apply comp_text_tchar; exact Hc]. apply tchar_not_comma.
Qed.

Lemma texts_tchar : forall z cs, Forall mod_ok cs ->
  Forall (Forall tchar) (map (comp_text z) cs).
Proof.
  intros z cs H. apply Forall_map. eapply Forall_impl; [|exact H].
  intros c Hc. apply comp_text_tchar. exact Hc.
Qed.

Theorem f2r_spec : forall l sorted z, NoDup l -> Forall small l ->
  exists s, frames_to_frame_range l sorted z = Ok s /\
    (l = [] -> s = []) /\
    (l <> [] -> spec_frames s = Some (if sorted then zsort l else l)).
Proof.
  intros l sorted z ND SM. destruct l as [|a r].
  - exists []. split; [reflexivity|]. split; [reflexivity | congruence].
  - set (l := a :: r) in *.
    destruct (f2r_shape l sorted z ltac:(discriminate)) as [c [cs [D E]]].
    eexists. split; [exact E|]. split; [discriminate|]. intros _.
    set (fr := if sorted then zsort l else l) in *.
    assert (ND' : NoDup fr).
    { unfold fr. destruct sorted; [|exact ND].
      eapply Permutation_NoDup; [apply zsort_perm | exact ND]. }
    assert (SM' : Forall small fr).
    { unfold fr. destruct sorted; [|exact SM].
      eapply Permutation_Forall; [apply zsort_perm | exact SM]. }
    pose proof (decomp_mod _ _ D) as M.
    pose proof (decomp_fits _ _ D ND' SM') as F.
    pose proof (decomp_expand _ _ D ND') as X.
    unfold spec_frames.
    rewrite strip_id by (apply (join_not_ignored (map (comp_text z) cs) (comp_text z c));
                         apply (texts_tchar z (c :: cs)); exact M).
    unfold gparse.
    rewrite split_join by (apply (texts_no_comma z (c :: cs)); exact M).
    change (comp_text z c :: map (comp_text z) cs) with (map (comp_text z) (c :: cs)).
    rewrite parse_comps_texts by exact M.
    assert (B : forallb comp_fits (c :: cs) && forallb comp_nonzero (c :: cs) = true).
    { rewrite andb_true_iff, !forallb_forall. rewrite Forall_forall in F.
      split; intros x Hx; apply F; exact Hx. }
    rewrite B. unfold denote. rewrite X.
    rewrite dedup_first_NoDup_id; [reflexivity | exact ND' | intros v _ []].
Qed.

Lemma comp_text_padded : forall z c, mod_ok c ->
  match c with
  | CSingle _ => (z <= Z.of_nat (num_len (comp_text z c)))%Z
  | CRange _ _ | CStep _ _ _ _ =>
      (z <= Z.of_nat (num_len (comp_text z c)))%Z /\
      (z <= Z.of_nat (num_len (skipn (S (num_len (comp_text z c))) (comp_text z c))))%Z
  end.
Proof.
  intros z c M.
  assert (L : forall a, (z <= Z.of_nat (List.length (zfill_int a z)))%Z)
    by (intros a; pose proof (zfill_int_length a z); lia).
  assert (SK : forall (t rest : bytes), skipn (S (List.length t)) (t ++ 45%nat :: rest) = rest).
  { intros t rest. induction t as [|x t IH]; [reflexivity | exact IH]. }
  destruct c as [a|a b|a b md n]; cbn [comp_text].
  - rewrite <- (app_nil_r (zfill_int a z)).
    rewrite num_len_numeral_app by (try apply zfill_int_numeral; exact I). apply L.
  - unfold c_minus.
    rewrite num_len_numeral_app by (try apply zfill_int_numeral; reflexivity).
    split; [apply L|]. rewrite SK.
    rewrite <- (app_nil_r (zfill_int b z)).
    rewrite num_len_numeral_app by (try apply zfill_int_numeral; exact I). apply L.
  - unfold c_minus. cbn in M. subst md.
    rewrite num_len_numeral_app by (try apply zfill_int_numeral; reflexivity).
    split; [apply L|]. rewrite SK.
    rewrite num_len_numeral_app by (try apply zfill_int_numeral; reflexivity). apply L.
Qed.

Theorem f2r_padded : forall l sorted z s, NoDup l -> frames_to_frame_range l sorted z = Ok s -> (2 <= z)%Z ->
  Forall (fun part => forall c, parse_comp part = Some c ->
            match c with
            | CSingle _ => (z <= Z.of_nat (num_len part))%Z
            | CRange _ _ | CStep _ _ _ _ =>
                (z <= Z.of_nat (num_len part))%Z /\
                (z <= Z.of_nat (num_len (skipn (S (num_len part)) part)))%Z
            end) (split_commas s []).
Proof.
  intros l sorted z s _ E _. destruct l as [|a r].
  - cbn in E. injection E as <-. cbn [split_commas rev]. constructor; [|constructor].
    intros c H. discriminate.
  - destruct (f2r_shape (a :: r) sorted z ltac:(discriminate)) as [c [cs [D E']]].
    rewrite E' in E. injection E as <-.
    pose proof (decomp_mod _ _ D) as M.
    rewrite split_join by (apply (texts_no_comma z (c :: cs)); exact M).
    change (comp_text z c :: map (comp_text z) cs) with (map (comp_text z) (c :: cs)).
    apply Forall_map. eapply Forall_impl; [|exact M].
    intros c0 M0 c1 P. rewrite parse_comp_text in P by (apply mod_ok_is_mod; exact M0).
    injection P as <-. apply comp_text_padded. exact M0.
Qed.

Print Assumptions f2r_spec.
Print Assumptions f2r_padded.
Print Assumptions zsort_sorted_perm.

(** sanity: real outputs *)
Example f2r_ex1 : frames_to_frame_range [-5; -3; -1] false 3 = Ok (s2b "-05--01x2").
Proof. vm_compute. reflexivity. Qed.
Example f2r_ex2 : frames_to_frame_range [5; 3; 1; 2; 4] true 3 = Ok (s2b "001-005").
Proof. vm_compute. reflexivity. Qed.
Example f2r_ex3 : frames_to_frame_range [-1; -3; -5; 10] false 3 = Ok (s2b "-01--05x-2,010").
Proof. vm_compute. reflexivity. Qed.
