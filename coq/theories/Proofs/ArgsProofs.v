(** How the model of cmd/seqls turns its ARGUMENTS into listing jobs
    (Model/Seqls.v: [classify_arg], [dedup_bytes], [jobs_of], [seqls_lines];
    cmd/seqls/manager.go: preparePaths + load / loadRecursive).

    Property clause C17: "a bad argument (unreadable directory, unparsable or
    unmatched pattern) never suppresses or alters the listing produced for the
    other arguments".  In the model a BAD argument is one that, once cleaned, does
    not classify as a directory: it is either taken for a sequence pattern
    ([APattern]) or ignored because it is an existing file ([AIgnored]).

    Contents
      - [dedup_bytes_spec]  the de-duplication keeps exactly the first occurrences, in order
        ([dedup_bytes_In], [dedup_bytes_NoDup], [dedup_bytes_app], [dedup_bytes_split],
         [dedup_bytes_seen_filter], [dedup_bytes_insert_perm]);
      - [bad_argument_keeps_directory_jobs]        (no side condition, both modes);
      - [bad_argument_only_adds_its_own_pattern]   (a permutation in general; an exact
        equation, [bad_argument_pattern_position], when the argument does not recur later;
        [pattern_position_counterexample] shows why only a permutation holds in general);
      - [bad_argument_is_isolated_in_the_output]   (printed lines; the corner of the empty
        argument list is [only_bad_argument_lines] / [empty_corner_counterexample]);
      - [duplicate_arguments_are_listed_once]      (and [duplicate_argument_anywhere]);
      - [argument_order_of_directories_matters_only_through_links] (non-recursive mode);
      - [ArgsExample]: a concrete tree with arguments [dir; missing pattern; dir2; file; dir]. *)
From Coq Require Import Permutation.
From GFS Require Import Base Dec Regex GenRegex GenPadTables Ranges Pad FrameSet Compress Path Seq
  Listing Seqls WalkProofs SeqlsCover.
Local Open Scope nat_scope.

(** membership in the [seen] accumulator, as [dedup_bytes] tests it *)
Local Notation inb x l := (existsb (beq x) l).

(* ------------------------------------------------------------------ *)
(** * small list facts *)

Lemma inb_In : forall (x : bytes) l, inb x l = true <-> In x l.
Proof.
  intros x l. rewrite existsb_exists. split.
  - intros (y & Hy & E). apply wbeq_eq in E. subst y. exact Hy.
  - intros H. exists x. split; [exact H|apply wbeq_refl].
Qed.

Lemma inb_not_In : forall (x : bytes) l, inb x l = false <-> ~ In x l.
Proof.
  intros x l. rewrite <- inb_In. destruct (inb x l); split; intros H.
  - discriminate H.
  - exfalso. apply H. reflexivity.
  - intros K. discriminate K.
  - reflexivity.
Qed.

Lemma filter_id : forall (A : Type) (p : A -> bool) l,
  (forall y, In y l -> p y = true) -> filter p l = l.
Proof.
  intros A p l. induction l as [|a l IH]; intros H; [reflexivity|].
  cbn [filter]. rewrite (H a (or_introl eq_refl)). f_equal. apply IH.
  intros y Hy. apply H. right. exact Hy.
Qed.

Lemma flat_map_of_map : forall (A B C : Type) (h : A -> B) (g : B -> list C) l,
  flat_map g (map h l) = flat_map (fun x => g (h x)) l.
Proof.
  intros A B C h g l. induction l as [|a l IH]; [reflexivity|].
  cbn [map flat_map]. rewrite IH. reflexivity.
Qed.

(** dropping elements that contribute nothing *)
Lemma flat_map_filter_neutral : forall (A B : Type) (g : A -> list B) (p : A -> bool) l,
  (forall y, In y l -> p y = false -> g y = []) -> flat_map g (filter p l) = flat_map g l.
Proof.
  intros A B g p l. induction l as [|a l IH]; intros H; [reflexivity|].
  cbn [filter flat_map].
  assert (IH' : flat_map g (filter p l) = flat_map g l).
  { apply IH. intros y Hy. apply H. right. exact Hy. }
  destruct (p a) eqn:E.
  - cbn [flat_map]. rewrite IH'. reflexivity.
  - rewrite (H a (or_introl eq_refl) E), IH'. reflexivity.
Qed.

(* ------------------------------------------------------------------ *)
(** * 1. [dedup_bytes]: first occurrences, in order *)

(** only the SET of seen strings matters *)
Lemma dedup_bytes_ext : forall l s1 s2,
  (forall x, inb x s1 = inb x s2) -> dedup_bytes l s1 = dedup_bytes l s2.
Proof.
  induction l as [|a r IH]; intros s1 s2 H; [reflexivity|].
  cbn [dedup_bytes]. rewrite (H a). destruct (inb a s2).
  - apply IH. exact H.
  - f_equal. apply IH. intros x. cbn [existsb]. rewrite (H x). reflexivity.
Qed.

Lemma dedup_bytes_In : forall l seen x,
  In x (dedup_bytes l seen) <-> In x l /\ inb x seen = false.
Proof.
  induction l as [|a r IH]; intros seen x; cbn [dedup_bytes].
  - split; [intros []|intros [[] _]].
  - destruct (inb a seen) eqn:E.
    + rewrite IH. split.
      * intros [H1 H2]. split; [right; exact H1|exact H2].
      * intros [[Ha|H1] H2]; [subst a; congruence|split; assumption].
    + cbn [In]. rewrite IH. cbn [existsb]. split.
      * intros [Ha|[H1 H2]].
        -- subst a. split; [left; reflexivity|exact E].
        -- apply orb_false_iff in H2. split; [right; exact H1|apply H2].
      * intros [[Ha|H1] H2]; [left; exact Ha|].
        destruct (beq x a) eqn:Exa.
        -- left. symmetry. apply wbeq_eq. exact Exa.
        -- right. split; [exact H1|]. rewrite H2. reflexivity.
Qed.

Lemma dedup_bytes_NoDup : forall l seen, NoDup (dedup_bytes l seen).
Proof.
  induction l as [|a r IH]; intros seen; cbn [dedup_bytes]; [constructor|].
  destruct (inb a seen); [apply IH|].
  constructor; [|apply IH].
  intros K. apply dedup_bytes_In in K. destruct K as [_ K].
  cbn [existsb] in K. rewrite wbeq_refl in K. discriminate.
Qed.

(** a non-empty [seen] only filters the result *)
Lemma dedup_bytes_seen_filter : forall l s1 s2,
  dedup_bytes l (s1 ++ s2) = filter (fun x => negb (inb x s1)) (dedup_bytes l s2).
Proof.
  induction l as [|x r IH]; intros s1 s2; [reflexivity|].
  cbn [dedup_bytes]. rewrite existsb_app.
  destruct (inb x s2) eqn:E2.
  - rewrite orb_true_r. apply IH.
  - rewrite orb_false_r. cbn [filter]. destruct (inb x s1) eqn:E1; cbn [negb].
    + rewrite <- (IH s1 (x :: s2)). apply dedup_bytes_ext. intros y.
      rewrite !existsb_app. cbn [existsb].
      destruct (beq y x) eqn:Eyx; [|reflexivity].
      apply wbeq_eq in Eyx. subst y. rewrite E1. reflexivity.
    + f_equal. rewrite <- (IH s1 (x :: s2)). apply dedup_bytes_ext. intros y.
      cbn [existsb]. rewrite !existsb_app. cbn [existsb].
      destruct (beq y x), (inb y s1); reflexivity.
Qed.

Lemma dedup_bytes_app : forall l1 l2 seen,
  dedup_bytes (l1 ++ l2) seen = dedup_bytes l1 seen ++ dedup_bytes l2 (l1 ++ seen).
Proof.
  induction l1 as [|x l1 IH]; intros l2 seen; [reflexivity|].
  cbn [app dedup_bytes]. destruct (inb x seen) eqn:E.
  - rewrite IH. f_equal. apply dedup_bytes_ext. intros y. cbn [existsb].
    destruct (beq y x) eqn:Eyx; [|reflexivity].
    apply wbeq_eq in Eyx. subst y. cbn [orb]. rewrite existsb_app, E, orb_true_r. reflexivity.
  - rewrite IH. cbn [app]. f_equal. f_equal. apply dedup_bytes_ext. intros y.
    cbn [existsb]. rewrite !existsb_app. cbn [existsb].
    destruct (beq y x), (inb y l1); reflexivity.
Qed.

(** the usable form: what one element in the middle contributes *)
Lemma dedup_bytes_split : forall l1 x l2 seen,
  dedup_bytes (l1 ++ x :: l2) seen =
    dedup_bytes l1 seen ++ (if inb x (l1 ++ seen) then [] else [x]) ++
    filter (fun y => negb (beq y x)) (dedup_bytes l2 (l1 ++ seen)).
Proof.
  intros l1 x l2 seen. rewrite dedup_bytes_app. f_equal. cbn [dedup_bytes].
  destruct (inb x (l1 ++ seen)) eqn:E; cbn [app].
  - symmetry. apply filter_id. intros y Hy. apply dedup_bytes_In in Hy. destruct Hy as [_ Hy].
    destruct (beq y x) eqn:Eyx; [|reflexivity].
    apply wbeq_eq in Eyx. subst y. congruence.
  - f_equal. change (x :: l1 ++ seen) with ([x] ++ (l1 ++ seen)).
    rewrite dedup_bytes_seen_filter. apply filter_ext. intros y.
    cbn [existsb]. rewrite orb_false_r. reflexivity.
Qed.

(** an element that is absent from [l] and not yet seen is kept where it stands *)
Lemma dedup_bytes_split_fresh : forall l1 x l2 seen,
  ~ In x l2 ->
  dedup_bytes (l1 ++ x :: l2) seen =
    dedup_bytes l1 seen ++ (if inb x (l1 ++ seen) then [] else [x]) ++ dedup_bytes l2 (l1 ++ seen).
Proof.
  intros l1 x l2 seen Hx. rewrite dedup_bytes_split. f_equal. f_equal.
  apply filter_id. intros y Hy. apply dedup_bytes_In in Hy. destruct Hy as [Hy _].
  destruct (beq y x) eqn:Eyx; [|reflexivity].
  apply wbeq_eq in Eyx. subst y. contradiction.
Qed.

(** inserting one element anywhere: up to order, it is added iff it is new *)
Lemma dedup_bytes_insert_perm : forall l1 x l2,
  Permutation (dedup_bytes (l1 ++ x :: l2) [])
              ((if inb x (l1 ++ l2) then [] else [x]) ++ dedup_bytes (l1 ++ l2) []).
Proof.
  intros l1 x l2. apply NoDup_Permutation.
  - apply dedup_bytes_NoDup.
  - destruct (inb x (l1 ++ l2)) eqn:E; cbn [app]; [apply dedup_bytes_NoDup|].
    constructor; [|apply dedup_bytes_NoDup].
    intros K. apply dedup_bytes_In in K. destruct K as [K _].
    apply inb_not_In in E. contradiction.
  - intros y. rewrite in_app_iff, !dedup_bytes_In, !in_app_iff. cbn [In existsb].
    destruct (inb x (l1 ++ l2)) eqn:E.
    + apply inb_In in E. apply in_app_iff in E. cbn [In].
      split; intros H; intuition (subst; intuition).
    + cbn [In]. split; intros H; intuition.
Qed.

Theorem dedup_bytes_spec : forall l seen,
  NoDup (dedup_bytes l seen) /\
  (forall x, In x (dedup_bytes l seen) <-> In x l /\ ~ In x seen) /\
  (forall l1 x l2, l = l1 ++ x :: l2 ->
     dedup_bytes l seen =
       dedup_bytes l1 seen ++ (if inb x (l1 ++ seen) then [] else [x]) ++
       filter (fun y => negb (beq y x)) (dedup_bytes l2 (l1 ++ seen))) /\
  dedup_bytes l seen = filter (fun x => negb (inb x seen)) (dedup_bytes l []).
Proof.
  intros l seen. split; [apply dedup_bytes_NoDup|]. split; [|split].
  - intros x. rewrite dedup_bytes_In, inb_not_In. reflexivity.
  - intros l1 x l2 ->. apply dedup_bytes_split.
  - rewrite <- dedup_bytes_seen_filter, app_nil_r. reflexivity.
Qed.

(** with the empty accumulator, as [jobs_of] calls it *)
Corollary dedup_bytes_nil_spec : forall l,
  NoDup (dedup_bytes l []) /\
  (forall x, In x (dedup_bytes l []) <-> In x l) /\
  (forall l1 x l2, l = l1 ++ x :: l2 ->
     dedup_bytes l [] =
       dedup_bytes l1 [] ++ (if inb x l1 then [] else [x]) ++
       filter (fun y => negb (beq y x)) (dedup_bytes l2 l1)).
Proof.
  intros l. destruct (dedup_bytes_spec l []) as (H1 & H2 & H3 & _).
  split; [exact H1|]. split.
  - intros x. rewrite H2. cbn [In]. tauto.
  - intros l1 x l2 E. rewrite (H3 l1 x l2 E), app_nil_r. reflexivity.
Qed.

(* ------------------------------------------------------------------ *)
(** * [jobs_of], unfolded *)

Definition pat_of (k : argk) : list bytes := match k with APattern p => [p] | _ => [] end.
Definition root_of (k : argk) : list (bytes * bytes) := match k with ADir s r => [(s, r)] | _ => [] end.

(** the pattern jobs and the directory roots of a list of CLEANED, de-duplicated arguments *)
Definition pats_of (t : tree) (cl : list bytes) : list bytes := flat_map (fun c => pat_of (classify_arg t c)) cl.
Definition roots_of (t : tree) (cl : list bytes) : list (bytes * bytes) := flat_map (fun c => root_of (classify_arg t c)) cl.

(** the walks from the roots, threading the cache of followed link targets *)
Definition walk_all (f : sflags) (t : tree) (roots : list (bytes * bytes)) : list (bytes * bytes) :=
  fst (fold_left (fun acc sr =>
                    let '(js, cache) := acc in
                    let '(j, c) := walk_root t (sf_all f) (fst sr) (snd sr) cache in
                    (js ++ j, c)) roots ([], [])).

Definition dir_jobs (f : sflags) (t : tree) (roots : list (bytes * bytes)) : list (bytes * bytes) :=
  if sf_recurse f then walk_all f t roots else roots.

Lemma jobs_of_unfold : forall f t args,
  jobs_of f t args =
    (pats_of t (dedup_bytes (map path_clean args) []),
     dir_jobs f t (roots_of t (dedup_bytes (map path_clean args) []))).
Proof.
  intros f t args. unfold jobs_of, pats_of, roots_of, dir_jobs, walk_all.
  rewrite !flat_map_of_map. destruct (sf_recurse f); reflexivity.
Qed.

Lemma pats_of_app : forall t l1 l2, pats_of t (l1 ++ l2) = pats_of t l1 ++ pats_of t l2.
Proof. intros. unfold pats_of. apply flat_map_app. Qed.

Lemma pats_of_perm : forall t l1 l2, Permutation l1 l2 -> Permutation (pats_of t l1) (pats_of t l2).
Proof. intros t l1 l2 H. unfold pats_of. apply Permutation_flat_map. exact H. Qed.

Lemma roots_of_app : forall t l1 l2, roots_of t (l1 ++ l2) = roots_of t l1 ++ roots_of t l2.
Proof. intros. unfold roots_of. apply flat_map_app. Qed.

(** an argument is a directory argument when, cleaned, it classifies as [ADir] *)
Definition is_dir_arg (t : tree) (a : bytes) : Prop := exists s r, classify_arg t (path_clean a) = ADir s r.

Lemma not_dir_no_root : forall t a, ~ is_dir_arg t a -> root_of (classify_arg t (path_clean a)) = [].
Proof.
  intros t a H. destruct (classify_arg t (path_clean a)) as [s r| |] eqn:E; try reflexivity.
  exfalso. apply H. exists s, r. exact E.
Qed.

(** a bad argument is a pattern or an ignored file *)
Lemma bad_argument_cases : forall t a, ~ is_dir_arg t a ->
  (exists p, classify_arg t (path_clean a) = APattern p) \/ classify_arg t (path_clean a) = AIgnored.
Proof.
  intros t a H. destruct (classify_arg t (path_clean a)) as [s r|p|] eqn:E.
  - exfalso. apply H. exists s, r. exact E.
  - left. exists p. reflexivity.
  - right. reflexivity.
Qed.

(* ------------------------------------------------------------------ *)
(** * 2. a bad argument leaves the directory jobs alone *)

(** on the cleaned lists: the roots do not see an element without a root *)
Lemma roots_of_insert : forall t l1 c l2,
  root_of (classify_arg t c) = [] ->
  roots_of t (dedup_bytes (l1 ++ c :: l2) []) = roots_of t (dedup_bytes (l1 ++ l2) []).
Proof.
  intros t l1 c l2 Hc. rewrite dedup_bytes_split, dedup_bytes_app, !roots_of_app. f_equal.
  assert (E0 : roots_of t (if inb c (l1 ++ []) then [] else [c]) = []).
  { destruct (inb c (l1 ++ [])); [reflexivity|]. unfold roots_of. cbn [flat_map]. rewrite Hc. reflexivity. }
  rewrite E0. cbn [app]. unfold roots_of. apply flat_map_filter_neutral.
  intros y _ Hy. apply negb_false_iff in Hy. apply wbeq_eq in Hy. subst y. exact Hc.
Qed.

(** No side condition: whether or not the bad argument duplicates (after cleaning) another
    argument, before or after it, and in both modes - the walks of [-r] are folded over the
    same roots, so the cache of followed links is threaded identically. *)
Theorem bad_argument_keeps_directory_jobs : forall f t args1 bad args2,
  ~ is_dir_arg t bad ->
  snd (jobs_of f t (args1 ++ bad :: args2)) = snd (jobs_of f t (args1 ++ args2)).
Proof.
  intros f t args1 bad args2 Hbad. rewrite !jobs_of_unfold. cbn [snd].
  rewrite !map_app. cbn [map].
  rewrite (roots_of_insert t _ _ _ (not_dir_no_root t bad Hbad)). reflexivity.
Qed.

(* ------------------------------------------------------------------ *)
(** * 3. ... and adds at most its own pattern *)

(** is the argument [a] (cleaned) already among the (cleaned) [others]? *)
Definition dup_arg (a : bytes) (others : list bytes) : bool := inb (path_clean a) (map path_clean others).

Lemma dup_arg_In : forall a others, dup_arg a others = true <-> In (path_clean a) (map path_clean others).
Proof. intros. unfold dup_arg. apply inb_In. Qed.

(** the pattern job an argument contributes of its own *)
Definition own_pattern (t : tree) (a : bytes) (others : list bytes) : list bytes :=
  if dup_arg a others then [] else pat_of (classify_arg t (path_clean a)).

(** This holds for ANY argument (a directory argument has no pattern of its own).  A
    permutation, not an equation: when the argument recurs LATER in the list, it is the later
    copy that is dropped, so its pattern moves forward ([pattern_position_counterexample]). *)
Theorem argument_only_adds_its_own_pattern : forall f t args1 a args2,
  Permutation (fst (jobs_of f t (args1 ++ a :: args2)))
              (own_pattern t a (args1 ++ args2) ++ fst (jobs_of f t (args1 ++ args2))).
Proof.
  intros f t args1 a args2. rewrite !jobs_of_unfold. cbn [fst].
  rewrite !map_app. cbn [map].
  pose proof (dedup_bytes_insert_perm (map path_clean args1) (path_clean a) (map path_clean args2)) as HP.
  apply (pats_of_perm t) in HP.
  eapply Permutation_trans; [exact HP|].
  rewrite pats_of_app. apply Permutation_app_tail.
  unfold own_pattern, dup_arg. rewrite map_app.
  destruct (inb (path_clean a) (map path_clean args1 ++ map path_clean args2)).
  - apply perm_nil.
  - unfold pats_of. cbn [flat_map]. rewrite app_nil_r. apply Permutation_refl.
Qed.

Theorem bad_argument_only_adds_its_own_pattern : forall f t args1 bad args2,
  ~ is_dir_arg t bad ->
  (forall p, classify_arg t (path_clean bad) = APattern p ->
     dup_arg bad (args1 ++ args2) = false ->
     Permutation (fst (jobs_of f t (args1 ++ bad :: args2))) (p :: fst (jobs_of f t (args1 ++ args2)))) /\
  (classify_arg t (path_clean bad) = AIgnored \/ dup_arg bad (args1 ++ args2) = true ->
     Permutation (fst (jobs_of f t (args1 ++ bad :: args2))) (fst (jobs_of f t (args1 ++ args2)))).
Proof.
  intros f t args1 bad args2 _.
  pose proof (argument_only_adds_its_own_pattern f t args1 bad args2) as HP.
  unfold own_pattern in HP. split.
  - intros p Hp Hd. rewrite Hd, Hp in HP. exact HP.
  - intros [Hi|Hd].
    + rewrite Hi in HP. destruct (dup_arg bad (args1 ++ args2)); exact HP.
    + rewrite Hd in HP. exact HP.
Qed.

(** the exact position, when the argument does not recur later: its pattern (if it is one
    and is not a copy of an earlier argument) stands between those of [args1] and the rest *)
Theorem argument_pattern_position : forall f t args1 a args2,
  ~ In (path_clean a) (map path_clean args2) ->
  exists rest,
    fst (jobs_of f t (args1 ++ args2)) = fst (jobs_of f t args1) ++ rest /\
    fst (jobs_of f t (args1 ++ a :: args2)) =
      fst (jobs_of f t args1) ++ own_pattern t a (args1 ++ args2) ++ rest.
Proof.
  intros f t args1 a args2 Hnot.
  exists (pats_of t (dedup_bytes (map path_clean args2) (map path_clean args1 ++ []))).
  rewrite !jobs_of_unfold. cbn [fst]. rewrite !map_app. cbn [map].
  rewrite (dedup_bytes_split_fresh _ _ _ [] Hnot), dedup_bytes_app, !pats_of_app.
  split; [reflexivity|]. f_equal. f_equal.
  unfold own_pattern, dup_arg. rewrite map_app, app_nil_r, existsb_app.
  apply inb_not_In in Hnot. rewrite Hnot, orb_false_r.
  destruct (inb (path_clean a) (map path_clean args1)); [reflexivity|].
  unfold pats_of. cbn [flat_map]. rewrite app_nil_r. reflexivity.
Qed.

Corollary bad_argument_pattern_position : forall f t args1 bad args2,
  ~ is_dir_arg t bad ->
  ~ In (path_clean bad) (map path_clean (args1 ++ args2)) ->
  exists rest,
    fst (jobs_of f t (args1 ++ args2)) = fst (jobs_of f t args1) ++ rest /\
    fst (jobs_of f t (args1 ++ bad :: args2)) =
      fst (jobs_of f t args1) ++
      match classify_arg t (path_clean bad) with APattern p => [p] | _ => [] end ++ rest.
Proof.
  intros f t args1 bad args2 _ Hnot.
  assert (H2 : ~ In (path_clean bad) (map path_clean args2)).
  { intros K. apply Hnot. rewrite map_app. apply in_or_app. right. exact K. }
  destruct (argument_pattern_position f t args1 bad args2 H2) as (rest & E1 & E2).
  exists rest. split; [exact E1|]. rewrite E2. unfold own_pattern.
  assert (Ed : dup_arg bad (args1 ++ args2) = false).
  { destruct (dup_arg bad (args1 ++ args2)) eqn:E; [|reflexivity]. apply dup_arg_In in E. contradiction. }
  rewrite Ed. reflexivity.
Qed.

(* ------------------------------------------------------------------ *)
(** * 5. duplicates are listed once *)

(** an argument that (cleaned) already occurred EARLIER changes nothing at all *)
Theorem duplicate_argument_anywhere : forall f t args1 a args2,
  In (path_clean a) (map path_clean args1) ->
  jobs_of f t (args1 ++ a :: args2) = jobs_of f t (args1 ++ args2).
Proof.
  intros f t args1 a args2 Hin. rewrite !jobs_of_unfold, !map_app. cbn [map].
  assert (E : dedup_bytes (map path_clean args1 ++ path_clean a :: map path_clean args2) [] =
              dedup_bytes (map path_clean args1 ++ map path_clean args2) []).
  { rewrite !dedup_bytes_app. f_equal. cbn [dedup_bytes].
    rewrite app_nil_r. apply inb_In in Hin. rewrite Hin. reflexivity. }
  rewrite E. reflexivity.
Qed.

Theorem duplicate_arguments_are_listed_once : forall f t args a,
  In (path_clean a) (map path_clean args) ->
  jobs_of f t (args ++ [a]) = jobs_of f t args.
Proof.
  intros f t args a Hin.
  rewrite (duplicate_argument_anywhere f t args a [] Hin), app_nil_r. reflexivity.
Qed.

(* ------------------------------------------------------------------ *)
(** * 6. non-recursive mode: the directory jobs, by unfolding *)

Theorem argument_order_of_directories_matters_only_through_links : forall f t args,
  sf_recurse f = false ->
  snd (jobs_of f t args) =
    flat_map (fun c => match classify_arg t c with ADir s r => [(s, r)] | _ => [] end)
             (dedup_bytes (map path_clean args) []).
Proof.
  intros f t args Hr. rewrite jobs_of_unfold. cbn [snd]. unfold dir_jobs. rewrite Hr. reflexivity.
Qed.

(** and in both modes the jobs are a function of the ordered roots alone *)
Lemma directory_jobs_from_roots : forall f t args,
  snd (jobs_of f t args) = dir_jobs f t (roots_of t (dedup_bytes (map path_clean args) [])).
Proof. intros. rewrite jobs_of_unfold. reflexivity. Qed.

(* ------------------------------------------------------------------ *)
(** * 4. the printed lines *)

(** the last step of [seqls_lines]: [-a]bsolute or as spelled *)
Definition render (f : sflags) (cwd : bytes) (ls : list bytes) : list bytes :=
  if sf_abs f then map (absolute cwd) ls else ls.

Definition job_lines (f : sflags) (t : tree) (jobs : list bytes * list (bytes * bytes)) : list bytes :=
  flat_map (pattern_job_lines f t) (fst jobs) ++
  flat_map (fun sr => dir_job_lines f t (fst sr) (snd sr)) (snd jobs).

Lemma seqls_lines_nonempty : forall f cwd t args, args <> [] ->
  seqls_lines f cwd t args = render f cwd (job_lines f t (jobs_of f t args)).
Proof.
  intros f cwd t args Hne. destruct args as [|a0 args0]; [contradiction|].
  unfold seqls_lines, render, job_lines. destruct (jobs_of f t (a0 :: args0)) as [pats dirs].
  reflexivity.
Qed.

Lemma render_app : forall f cwd l1 l2, render f cwd (l1 ++ l2) = render f cwd l1 ++ render f cwd l2.
Proof. intros. unfold render. destruct (sf_abs f); [apply map_app|reflexivity]. Qed.

Lemma render_perm : forall f cwd l1 l2, Permutation l1 l2 -> Permutation (render f cwd l1) (render f cwd l2).
Proof. intros f cwd l1 l2 H. unfold render. destruct (sf_abs f); [apply Permutation_map|]; exact H. Qed.

Lemma render_off : forall f cwd l, sf_abs f = false -> render f cwd l = l.
Proof. intros f cwd l H. unfold render. rewrite H. reflexivity. Qed.

(** the lines a bad argument prints of its own: those of its pattern (none when the pattern
    does not parse or matches nothing), none for an ignored file, none for a duplicate *)
Definition own_lines (f : sflags) (t : tree) (a : bytes) (others : list bytes) : list bytes :=
  flat_map (pattern_job_lines f t) (own_pattern t a others).

Lemma own_lines_cases : forall f t a others,
  own_lines f t a others =
    if dup_arg a others then []
    else match classify_arg t (path_clean a) with
         | APattern p => pattern_job_lines f t p
         | _ => []
         end.
Proof.
  intros f t a others. unfold own_lines, own_pattern.
  destruct (dup_arg a others); [reflexivity|].
  destruct (classify_arg t (path_clean a)); cbn [pat_of flat_map]; rewrite ?app_nil_r; reflexivity.
Qed.

(** the general form, for either setting of [-a] *)
Theorem bad_argument_is_isolated_gen : forall f cwd t args1 bad args2,
  ~ is_dir_arg t bad -> args1 ++ args2 <> [] ->
  Permutation (seqls_lines f cwd t (args1 ++ bad :: args2))
              (seqls_lines f cwd t (args1 ++ args2) ++ render f cwd (own_lines f t bad (args1 ++ args2))).
Proof.
  intros f cwd t args1 bad args2 Hbad Hne.
  assert (Hne' : args1 ++ bad :: args2 <> []).
  { intros K. symmetry in K. exact (app_cons_not_nil _ _ _ K). }
  rewrite (seqls_lines_nonempty f cwd t _ Hne'), (seqls_lines_nonempty f cwd t _ Hne).
  rewrite <- render_app. apply render_perm. unfold job_lines.
  rewrite (bad_argument_keeps_directory_jobs f t args1 bad args2 Hbad).
  set (D := flat_map (fun sr => dir_job_lines f t (fst sr) (snd sr)) (snd (jobs_of f t (args1 ++ args2)))).
  pose proof (Permutation_flat_map (pattern_job_lines f t)
                (argument_only_adds_its_own_pattern f t args1 bad args2)) as HP.
  rewrite flat_map_app in HP. fold (own_lines f t bad (args1 ++ args2)) in HP.
  eapply Permutation_trans; [apply Permutation_app_tail; exact HP|].
  rewrite <- app_assoc.
  eapply Permutation_trans; [apply Permutation_app_comm|].
  rewrite <- app_assoc. apply Permutation_refl.
Qed.

(** C17 at the level of the printed lines (as spelled, no [-a]): the lines with the bad
    argument are the lines without it, plus the bad argument's own *)
Theorem bad_argument_is_isolated_in_the_output : forall f cwd t args1 bad args2,
  sf_abs f = false -> ~ is_dir_arg t bad -> args1 ++ args2 <> [] ->
  Permutation (seqls_lines f cwd t (args1 ++ bad :: args2))
              (seqls_lines f cwd t (args1 ++ args2) ++
               if dup_arg bad (args1 ++ args2) then []
               else match classify_arg t (path_clean bad) with
                    | APattern p => pattern_job_lines f t p
                    | _ => []
                    end).
Proof.
  intros f cwd t args1 bad args2 Ha Hbad Hne.
  rewrite <- own_lines_cases, <- (render_off f cwd (own_lines f t bad (args1 ++ args2)) Ha).
  apply bad_argument_is_isolated_gen; assumption.
Qed.

(** the corner: a bad argument ALONE.  Then there is no other argument, and the list
    without it is empty, which seqls reads as "." - so the statement above cannot hold
    ([empty_corner_counterexample]); what holds is that only its own lines are printed *)
Theorem only_bad_argument_lines : forall f cwd t bad,
  ~ is_dir_arg t bad ->
  seqls_lines f cwd t [bad] =
    render f cwd match classify_arg t (path_clean bad) with
                 | APattern p => pattern_job_lines f t p
                 | _ => []
                 end.
Proof.
  intros f cwd t bad Hbad.
  rewrite (seqls_lines_nonempty f cwd t [bad]) by discriminate.
  f_equal. unfold job_lines. rewrite jobs_of_unfold. cbn [fst snd map dedup_bytes existsb].
  unfold roots_of, pats_of. cbn [flat_map]. rewrite (not_dir_no_root t bad Hbad).
  assert (E : dir_jobs f t ([] ++ []) = []).
  { unfold dir_jobs, walk_all. destruct (sf_recurse f); reflexivity. }
  rewrite E. cbn [flat_map]. rewrite !app_nil_r.
  destruct (classify_arg t (path_clean bad)); cbn [pat_of flat_map]; rewrite ?app_nil_r; reflexivity.
Qed.

(** hence, for a bad argument that is no copy of another: the output is that of the others
    together with that of the bad argument alone (either setting of [-a]) *)
Corollary bad_argument_output_is_the_sum : forall f cwd t args1 bad args2,
  ~ is_dir_arg t bad -> args1 ++ args2 <> [] ->
  ~ In (path_clean bad) (map path_clean (args1 ++ args2)) ->
  Permutation (seqls_lines f cwd t (args1 ++ bad :: args2))
              (seqls_lines f cwd t (args1 ++ args2) ++ seqls_lines f cwd t [bad]).
Proof.
  intros f cwd t args1 bad args2 Hbad Hne Hnot.
  rewrite (only_bad_argument_lines f cwd t bad Hbad).
  pose proof (bad_argument_is_isolated_gen f cwd t args1 bad args2 Hbad Hne) as HP.
  rewrite own_lines_cases in HP.
  assert (Ed : dup_arg bad (args1 ++ args2) = false).
  { destruct (dup_arg bad (args1 ++ args2)) eqn:E; [|reflexivity]. apply dup_arg_In in E. contradiction. }
  rewrite Ed in HP. exact HP.
Qed.

(** in particular nothing of the other arguments' output is lost or changed *)
Corollary bad_argument_suppresses_nothing : forall f cwd t args1 bad args2 line,
  ~ is_dir_arg t bad -> args1 ++ args2 <> [] ->
  In line (seqls_lines f cwd t (args1 ++ args2)) ->
  In line (seqls_lines f cwd t (args1 ++ bad :: args2)).
Proof.
  intros f cwd t args1 bad args2 line Hbad Hne Hin.
  eapply Permutation_in.
  - apply Permutation_sym. apply (bad_argument_is_isolated_gen f cwd t args1 bad args2 Hbad Hne).
  - apply in_or_app. left. exact Hin.
Qed.

(* ------------------------------------------------------------------ *)
(** * a concrete tree *)

Module ArgsExample.
Import WalkExamples.

(** directories [a] (a two-frame sequence, a single file, a sub-directory) and [b] *)
Definition ex_tree : tree :=
  [D "." "a"; D "." "b"; F "a" "f"; F "a" "x.1.exr"; F "a" "x.2.exr"; D "a" "sub"; F "a/sub" "h"; F "b" "g"].

(** [dir; missing pattern; dir2; existing file; dir] - the last spelled differently *)
Definition ex_args : list bytes := [s2b "a"; s2b "nothing.#.exr"; s2b "b"; s2b "a/f"; s2b "./a/"].

Definition plain_flags : sflags := mkSF false false false false false.
Definition rec_flags   : sflags := mkSF true false false false false.     (* -r *)

Example ex_classes :
  map (fun a => classify_arg ex_tree (path_clean a)) ex_args =
  [ADir (s2b "a") (s2b "a"); APattern (s2b "nothing.#.exr"); ADir (s2b "b") (s2b "b"); AIgnored;
   ADir (s2b "a") (s2b "a")].
Proof. vm_compute. reflexivity. Qed.

Example ex_jobs_plain :
  jobs_of plain_flags ex_tree ex_args = ([s2b "nothing.#.exr"], [P "a" "a"; P "b" "b"]).
Proof. vm_compute. reflexivity. Qed.

Example ex_jobs_rec :
  jobs_of rec_flags ex_tree ex_args = ([s2b "nothing.#.exr"], [P "a" "a"; P "a/sub" "a/sub"; P "b" "b"]).
Proof. vm_compute. reflexivity. Qed.

(** the same directory jobs as for the good arguments alone *)
Example ex_jobs_good_only :
  jobs_of rec_flags ex_tree [s2b "a"; s2b "b"] = ([], [P "a" "a"; P "a/sub" "a/sub"; P "b" "b"]).
Proof. vm_compute. reflexivity. Qed.

Example ex_lines :
  seqls_lines rec_flags (s2b "/w") ex_tree ex_args =
  [s2b "a/x.1,2@.exr"; s2b "a/f"; s2b "a/sub/h"; s2b "b/g"] /\
  seqls_lines rec_flags (s2b "/w") ex_tree [s2b "a"; s2b "b"] =
  [s2b "a/x.1,2@.exr"; s2b "a/f"; s2b "a/sub/h"; s2b "b/g"].
Proof. vm_compute. split; reflexivity. Qed.

(** Why theorem 3 is a permutation: the bad argument recurs later, the LATER copy is the
    one dropped, and its pattern job moves forward. *)
Example pattern_position_counterexample :
  fst (jobs_of plain_flags ex_tree ([] ++ s2b "p" :: [s2b "q"; s2b "p"])) = [s2b "p"; s2b "q"] /\
  fst (jobs_of plain_flags ex_tree ([] ++ [s2b "q"; s2b "p"])) = [s2b "q"; s2b "p"].
Proof. vm_compute. split; reflexivity. Qed.

(** Why the bad argument's own lines must be dropped when it is a copy of another argument:
    the pattern is listed once, not twice. *)
Example duplicate_pattern_counterexample :
  seqls_lines plain_flags (s2b "/w") ex_tree ([s2b "a/x.#.exr"] ++ s2b "a/x.#.exr" :: []) = [s2b "a/x.1,2@.exr"] /\
  seqls_lines plain_flags (s2b "/w") ex_tree ([s2b "a/x.#.exr"] ++ []) ++
    pattern_job_lines plain_flags ex_tree (s2b "a/x.#.exr") = [s2b "a/x.1,2@.exr"; s2b "a/x.1,2@.exr"].
Proof. vm_compute. split; reflexivity. Qed.

(** Why [args1 ++ args2 <> []] is needed: without the bad argument the list is empty,
    which means "."; with it, "." is not listed. *)
Example empty_corner_counterexample :
  seqls_lines plain_flags (s2b "/w") ex_tree ([] ++ s2b "nothing.#.exr" :: []) = [] /\
  seqls_lines plain_flags (s2b "/w") (F "." "top" :: ex_tree) ([] ++ s2b "nothing.#.exr" :: []) = [] /\
  seqls_lines plain_flags (s2b "/w") (F "." "top" :: ex_tree) ([] ++ []) = [s2b "./top"].
Proof. vm_compute. repeat split; reflexivity. Qed.

(** the theorems instantiated on the example *)
Lemma ex_missing_is_bad : ~ is_dir_arg ex_tree (s2b "nothing.#.exr").
Proof. intros (s & r & H). vm_compute in H. discriminate. Qed.

Lemma ex_file_is_bad : ~ is_dir_arg ex_tree (s2b "a/f").
Proof. intros (s & r & H). vm_compute in H. discriminate. Qed.

Example ex_isolated :
  snd (jobs_of rec_flags ex_tree ex_args) = snd (jobs_of rec_flags ex_tree [s2b "a"; s2b "b"]).
Proof.
  unfold ex_args.
  etransitivity;
    [exact (bad_argument_keeps_directory_jobs rec_flags ex_tree [s2b "a"] (s2b "nothing.#.exr")
              [s2b "b"; s2b "a/f"; s2b "./a/"] ex_missing_is_bad)|].
  etransitivity;
    [exact (bad_argument_keeps_directory_jobs rec_flags ex_tree [s2b "a"; s2b "b"] (s2b "a/f")
              [s2b "./a/"] ex_file_is_bad)|].
  apply f_equal.
  apply (duplicate_arguments_are_listed_once rec_flags ex_tree [s2b "a"; s2b "b"] (s2b "./a/")).
  vm_compute. left. reflexivity.
Qed.
End ArgsExample.

Print Assumptions dedup_bytes_spec.
Print Assumptions bad_argument_keeps_directory_jobs.
Print Assumptions argument_only_adds_its_own_pattern.
Print Assumptions bad_argument_only_adds_its_own_pattern.
Print Assumptions bad_argument_pattern_position.
Print Assumptions bad_argument_is_isolated_gen.
Print Assumptions bad_argument_is_isolated_in_the_output.
Print Assumptions only_bad_argument_lines.
Print Assumptions bad_argument_output_is_the_sum.
Print Assumptions duplicate_arguments_are_listed_once.
Print Assumptions argument_order_of_directories_matters_only_through_links.
