(** Proofs about [normalized] (Normalize / Invert of InclusiveRanges): the
    single-pass run-compaction state machine keeps exactly the members (or
    the non-members) of Min..Max, in ascending order, without duplicates. *)
From GFS Require Import Base Ranges SpecRanges SpecRange RangeBasics.
Local Open Scope Z_scope.

Definition keepv (invert : bool) (bl : iranges) (v : Z) : bool :=
  if invert then negb (rs_contains bl v) else rs_contains bl v.

(** integers lo, lo+1, ..., hi *)
Definition zseq (lo hi : Z) : list Z :=
  map (fun i => lo + Z.of_nat i) (seq 0 (Z.to_nat (hi - lo + 1))).

(** ---- consecutive integers ---- *)

(** lo, lo+1, ..., lo+n-1 *)
Definition zfrom (lo : Z) (n : nat) : list Z := map (fun i => lo + Z.of_nat i) (seq 0 n).

Lemma zseq_zfrom : forall lo hi, zseq lo hi = zfrom lo (Z.to_nat (hi - lo + 1)).
Proof. reflexivity. Qed.

Lemma zfrom_S : forall lo n, zfrom lo (S n) = lo :: zfrom (lo + 1) n.
Proof.
  intros lo n. unfold zfrom. simpl. f_equal; [lia|].
  rewrite <- seq_shift, map_map. apply map_ext. intros i. lia.
Qed.

Lemma In_zfrom : forall n lo v, In v (zfrom lo n) <-> lo <= v < lo + Z.of_nat n.
Proof.
  induction n as [|n IH]; intros lo v.
  - simpl. lia.
  - rewrite zfrom_S. simpl. rewrite IH. lia.
Qed.

Lemma In_zseq : forall lo hi v, In v (zseq lo hi) <-> lo <= v <= hi.
Proof. intros lo hi v. rewrite zseq_zfrom, In_zfrom. lia. Qed.

(** ---- strictly ascending lists ---- *)

Fixpoint asc (l : list Z) : Prop :=
  match l with
  | [] => True
  | x :: r => (forall y, In y r -> x < y) /\ asc r
  end.

Lemma asc_zfrom : forall n lo, asc (zfrom lo n).
Proof.
  induction n as [|n IH]; intros lo.
  - exact I.
  - rewrite zfrom_S. split; [|apply IH].
    intros y Hy. apply In_zfrom in Hy. lia.
Qed.

Lemma asc_filter : forall (f : Z -> bool) l, asc l -> asc (filter f l).
Proof.
  intros f l. induction l as [|a l IH]; intros H.
  - exact I.
  - destruct H as [Ha Hl]. simpl. destruct (f a).
    + split; [|apply IH; exact Hl].
      intros y Hy. apply filter_In in Hy. apply Ha. apply Hy.
    + apply IH; exact Hl.
Qed.

Lemma asc_ext : forall l1 l2, asc l1 -> asc l2 ->
  (forall v, In v l1 <-> In v l2) -> l1 = l2.
Proof.
  induction l1 as [|a l1 IH]; intros l2 H1 H2 Hm.
  - destruct l2 as [|z l2]; [reflexivity|].
    exfalso. apply (proj2 (Hm z)). left; reflexivity.
  - destruct l2 as [|z l2].
    + exfalso. apply (proj1 (Hm a)). left; reflexivity.
    + destruct H1 as [Ha H1]. destruct H2 as [Hz H2].
      assert (Haz : a = z).
      { assert (A : In a (z :: l2)) by (apply Hm; left; reflexivity).
        assert (B : In z (a :: l1)) by (apply Hm; left; reflexivity).
        destruct A as [A|A]; [symmetry; exact A|].
        destruct B as [B|B]; [exact B|].
        apply Hz in A. apply Ha in B. lia. }
      subst z. f_equal. apply IH; [exact H1|exact H2|].
      intros v. split; intros Hv.
      * assert (A : In v (a :: l2)) by (apply Hm; right; exact Hv).
        destruct A as [A|A]; [|exact A].
        subst v. apply Ha in Hv. lia.
      * assert (A : In v (a :: l1)) by (apply Hm; right; exact Hv).
        destruct A as [A|A]; [|exact A].
        subst v. apply Hz in Hv. lia.
Qed.

Lemma asc_NoDup : forall l, asc l -> NoDup l.
Proof.
  induction l as [|a l IH]; intros H.
  - constructor.
  - destruct H as [Ha Hl]. constructor; [|apply IH; exact Hl].
    intros Hin. apply Ha in Hin. lia.
Qed.

(** ---- sort_dedup ---- *)

Lemma In_zins : forall x l v, In v (zins x l) <-> v = x \/ In v l.
Proof.
  intros x l v. induction l as [|y l IH]; simpl.
  - intuition.
  - destruct (Z.ltb_spec x y) as [Hlt|Hge]; simpl.
    + intuition.
    + destruct (Z.eqb_spec x y) as [Heq|Hne]; simpl.
      * subst y. intuition.
      * rewrite IH. intuition.
Qed.

Lemma asc_zins : forall x l, asc l -> asc (zins x l).
Proof.
  intros x l. induction l as [|y l IH]; intros H; simpl.
  - split; [intros y []|exact I].
  - destruct H as [Hy Hl].
    destruct (Z.ltb_spec x y) as [Hlt|Hge]; simpl.
    + split; [|split; [exact Hy|exact Hl]].
      intros z [Hz|Hz]; [lia|]. apply Hy in Hz. lia.
    + destruct (Z.eqb_spec x y) as [Heq|Hne]; simpl.
      * split; [exact Hy|exact Hl].
      * split; [|apply IH; exact Hl].
        intros z Hz. apply In_zins in Hz. destruct Hz as [Hz|Hz]; [lia|].
        apply Hy; exact Hz.
Qed.

Lemma In_sort_dedup : forall l v, In v (sort_dedup l) <-> In v l.
Proof.
  intros l v. induction l as [|x l IH]; simpl.
  - tauto.
  - unfold sort_dedup in *. rewrite In_zins, IH. intuition.
Qed.

Lemma asc_sort_dedup : forall l, asc (sort_dedup l).
Proof.
  induction l as [|x l IH]; simpl.
  - exact I.
  - apply asc_zins. exact IH.
Qed.

(** ---- minimum / maximum folds ---- *)

Lemma fold_min_spec : forall l d,
  fold_left Z.min l d <= d /\
  (forall x, In x l -> fold_left Z.min l d <= x) /\
  (fold_left Z.min l d = d \/ In (fold_left Z.min l d) l).
Proof.
  induction l as [|a l IH]; intros d; simpl.
  - split; [lia|]. split; [intros x []|left; reflexivity].
  - destruct (IH (Z.min d a)) as (A & B & C).
    split; [lia|]. split.
    + intros x [Hx|Hx]; [subst x; lia|apply B; exact Hx].
    + destruct C as [C|C].
      * destruct (Z.min_spec d a) as [[_ E]|[_ E]].
        -- left. rewrite C. exact E.
        -- right; left. rewrite C. symmetry; exact E.
      * right; right; exact C.
Qed.

Lemma fold_max_spec : forall l d,
  d <= fold_left Z.max l d /\
  (forall x, In x l -> x <= fold_left Z.max l d) /\
  (fold_left Z.max l d = d \/ In (fold_left Z.max l d) l).
Proof.
  induction l as [|a l IH]; intros d; simpl.
  - split; [lia|]. split; [intros x []|left; reflexivity].
  - destruct (IH (Z.max d a)) as (A & B & C).
    split; [lia|]. split.
    + intros x [Hx|Hx]; [subst x; lia|apply B; exact Hx].
    + destruct C as [C|C].
      * destruct (Z.max_spec d a) as [[_ E]|[_ E]].
        -- right; left. rewrite C. symmetry; exact E.
        -- left. rewrite C. exact E.
      * right; right; exact C.
Qed.

Lemma lmin_hd : forall l, l <> [] ->
  In (lmin l (hd 0 l)) l /\ (forall x, In x l -> lmin l (hd 0 l) <= x).
Proof.
  intros l Hl. destruct l as [|a l]; [congruence|].
  unfold lmin. destruct (fold_min_spec (a :: l) (hd 0 (a :: l))) as (A & B & C).
  split; [|exact B].
  destruct C as [C|C]; [|exact C]. rewrite C. left; reflexivity.
Qed.

Lemma lmax_hd : forall l, l <> [] ->
  In (lmax l (hd 0 l)) l /\ (forall x, In x l -> x <= lmax l (hd 0 l)).
Proof.
  intros l Hl. destruct l as [|a l]; [congruence|].
  unfold lmax. destruct (fold_max_spec (a :: l) (hd 0 (a :: l))) as (A & B & C).
  split; [|exact B].
  destruct C as [C|C]; [|exact C]. rewrite C. left; reflexivity.
Qed.

Lemma zmin_list_lmin : forall l, zmin_list l = lmin l (hd 0 l).
Proof.
  intros [|a l]; [reflexivity|].
  unfold zmin_list, lmin. simpl. rewrite Z.min_id. reflexivity.
Qed.

Lemma zmax_list_lmax : forall l, zmax_list l = lmax l (hd 0 l).
Proof.
  intros [|a l]; [reflexivity|].
  unfold zmax_list, lmax. simpl. rewrite Z.max_id. reflexivity.
Qed.

(** least / greatest member are determined by the set of members *)
Lemma least_unique : forall (l1 l2 : list Z) m1 m2,
  (forall v, In v l1 <-> In v l2) ->
  In m1 l1 -> (forall x, In x l1 -> m1 <= x) ->
  In m2 l2 -> (forall x, In x l2 -> m2 <= x) -> m1 = m2.
Proof.
  intros l1 l2 m1 m2 Hm I1 L1 I2 L2.
  apply Hm in I1. apply Hm in I2. apply L1 in I2. apply L2 in I1. lia.
Qed.

Lemma greatest_unique : forall (l1 l2 : list Z) m1 m2,
  (forall v, In v l1 <-> In v l2) ->
  In m1 l1 -> (forall x, In x l1 -> x <= m1) ->
  In m2 l2 -> (forall x, In x l2 -> x <= m2) -> m1 = m2.
Proof.
  intros l1 l2 m1 m2 Hm I1 L1 I2 L2.
  apply Hm in I1. apply Hm in I2. apply L1 in I2. apply L2 in I1. lia.
Qed.

(** ---- every well-formed range has a value ---- *)

Lemma enum_count_pos : forall r, wf r -> (0 < enum_count r)%nat.
Proof.
  intros r Hw. unfold enum_count.
  assert (0 <= Z.abs (r_end r - r_start r) / Z.abs (r_step r)).
  { apply Z.div_pos; [lia|]. unfold wf in Hw. lia. }
  lia.
Qed.

Lemma enum_all_nonempty : forall bl, Forall wf bl -> bl <> [] -> enum_all bl <> [].
Proof.
  intros bl Hw Hne. destruct bl as [|b bl]; [congruence|].
  inversion Hw as [|? ? Hb _]; subst.
  apply enum_count_pos in Hb.
  unfold enum_all. simpl. unfold enum.
  destruct (enum_count b) as [|k]; [lia|].
  simpl. discriminate.
Qed.

(** bounds of a block list *)
Lemma rs_min_max_props : forall bl, Forall wf bl -> bl <> [] ->
  (In (rs_min bl) (enum_all bl) /\ forall x, In x (enum_all bl) -> rs_min bl <= x) /\
  (In (rs_max bl) (enum_all bl) /\ forall x, In x (enum_all bl) -> x <= rs_max bl).
Proof.
  intros bl Hw Hne.
  rewrite (rs_min_spec bl Hw Hne), (rs_max_spec bl Hw Hne).
  pose proof (enum_all_nonempty bl Hw Hne) as Hl.
  split; [apply lmin_hd; exact Hl|apply lmax_hd; exact Hl].
Qed.

(** ---- what a flushed run enumerates ---- *)

(** s, s+st, ..., s+(p-1)*st *)
Definition pendv (s st p : Z) : list Z :=
  map (fun i => s + st * Z.of_nat i) (seq 0 (Z.to_nat p)).

Lemma pendv_0 : forall s st, pendv s st 0 = [].
Proof. reflexivity. Qed.

Lemma pendv_1 : forall s st, pendv s st 1 = [s].
Proof. intros s st. unfold pendv. simpl. f_equal. lia. Qed.

Lemma pendv_S : forall s st p, 0 <= p -> pendv s st (p + 1) = pendv s st p ++ [s + st * p].
Proof.
  intros s st p Hp. unfold pendv.
  replace (Z.to_nat (p + 1)) with (S (Z.to_nat p)) by lia.
  rewrite seq_S, map_app. simpl. rewrite Z2Nat.id by lia. reflexivity.
Qed.

Lemma enum_run : forall s e st p, 1 <= st -> 1 <= p -> e = s + (p - 1) * st ->
  enum (new_range s e st) = pendv s st p.
Proof.
  intros s e st p Hst Hp He. unfold new_range.
  destruct (Z.eqb_spec st 0) as [H0|_]; [lia|].
  unfold enum, enum_count, pendv. cbn [r_start r_end r_step].
  replace (e - s) with ((p - 1) * st) by lia.
  assert (0 <= (p - 1) * st) by (apply Z.mul_nonneg_nonneg; lia).
  rewrite (Z.abs_eq ((p - 1) * st)) by lia.
  rewrite (Z.abs_eq st) by lia.
  rewrite Z.div_mul by lia.
  replace (p - 1 + 1) with p by lia. reflexivity.
Qed.

Lemma run_wf : forall s e st p, 1 <= st -> 1 <= p -> e = s + (p - 1) * st ->
  wf (new_range s e st).
Proof.
  intros s e st p Hst Hp He. apply new_range_wf.
  destruct (Z.eq_dec p 1) as [H1|H1].
  - right; right; right. subst p. lia.
  - right; left. split; [|lia].
    assert (1 * 1 <= (p - 1) * st) by (apply Z.mul_le_mono_nonneg; lia). lia.
Qed.

Lemma enum_all_app1 : forall out r, enum_all (out ++ [r]) = enum_all out ++ enum r.
Proof.
  intros out r. unfold enum_all. rewrite flat_map_app. simpl. rewrite app_nil_r. reflexivity.
Qed.

(** ---- the state machine, abstracted over the keep test ---- *)

Definition gstep (keep : Z -> bool) (st : nstate) (current : Z) : nstate :=
  if negb (keep current) then
    if n_pending st <? 2 then
      mkN (n_start st) (n_end st) (n_step st + 1) (n_pending st) (n_out st)
    else if negb (current + 1 - n_end st =? n_step st) then
      mkN current (n_end st) 1 0 (rs_append (n_out st) (n_start st) (n_end st) (n_step st))
    else st
  else
    let flush := (n_pending st >=? 2) && negb (current - n_end st =? n_step st) in
    let out := if flush then rs_append (n_out st) (n_start st) (n_end st) (n_step st) else n_out st in
    let pending := if flush then 0 else n_pending st in
    if pending =? 0 then mkN current current 1 1 out
    else mkN (n_start st) current (n_step st) (pending + 1) out.

Lemma norm_step_gstep : forall invert bl st cur,
  norm_step invert bl st cur = gstep (keepv invert bl) st cur.
Proof.
  intros invert bl st cur. unfold norm_step, gstep, keepv.
  destruct invert; destruct (rs_contains bl cur); reflexivity.
Qed.

(** [F] is the list of kept integers so far, [cur] the next integer *)
Definition Inv (F : list Z) (cur : Z) (st : nstate) : Prop :=
  Forall wf (n_out st) /\
  enum_all (n_out st) ++ pendv (n_start st) (n_step st) (n_pending st) = F /\
  (n_pending st = 0 \/
   (n_pending st = 1 /\ n_end st = n_start st /\ 1 <= n_step st /\
    n_start st + n_step st = cur) \/
   (2 <= n_pending st /\ 1 <= n_step st /\
    n_end st = n_start st + (n_pending st - 1) * n_step st)).

Local Arguments pendv : simpl never.
Local Arguments enum_all : simpl never.

Ltac red_state :=
  cbn [Z.geb Z.compare Pos.compare Pos.compare_cont andb negb Z.eqb Z.ltb
       n_start n_end n_step n_pending n_out].

Lemma Inv_step : forall (keep : Z -> bool) F cur st, Inv F cur st ->
  Inv (F ++ (if keep cur then [cur] else [])) (cur + 1) (gstep keep st cur).
Proof.
  intros keep F cur [s e stp p out]. unfold Inv, gstep.
  cbn [n_start n_end n_step n_pending n_out].
  intros (Hwf & HF & Hc). subst F.
  destruct (keep cur); cbn [negb].
  - (* current is kept *)
    destruct Hc as [H0|[(H1 & He & Hst & Hcur)|(H2 & Hst & He)]].
    + subst p. red_state. split; [exact Hwf|]. split.
      * rewrite pendv_0, pendv_1, app_nil_r. reflexivity.
      * right; left. lia.
    + subst p. red_state. split; [exact Hwf|]. split.
      * rewrite pendv_S by lia.
        rewrite app_assoc. f_equal. f_equal. lia.
      * right; right. lia.
    + rewrite Z.geb_leb. destruct (Z.leb_spec 2 p) as [_|Hlt]; [|lia].
      cbn [andb].
      destruct (Z.eqb_spec (cur - e) stp) as [Heq|Hne]; cbn [negb].
      * destruct (Z.eqb_spec p 0) as [Hp0|_]; [lia|].
        cbn [n_start n_end n_step n_pending n_out].
        split; [exact Hwf|]. split.
        -- rewrite pendv_S by lia. rewrite app_assoc. f_equal. f_equal. lia.
        -- right; right. lia.
      * cbn [Z.eqb n_start n_end n_step n_pending n_out].
        unfold rs_append. split.
        -- apply Forall_app. split; [exact Hwf|].
           constructor; [|constructor]. apply (run_wf s e stp p); lia.
        -- split.
           ++ rewrite enum_all_app1, pendv_1.
              rewrite (enum_run s e stp p) by lia. reflexivity.
           ++ right; left. lia.
  - (* current is skipped *)
    destruct Hc as [H0|[(H1 & He & Hst & Hcur)|(H2 & Hst & He)]].
    + subst p. red_state. split; [exact Hwf|]. split.
      * rewrite !pendv_0, !app_nil_r. reflexivity.
      * left; reflexivity.
    + subst p. red_state. split; [exact Hwf|]. split.
      * rewrite !pendv_1, app_nil_r. reflexivity.
      * right; left. lia.
    + destruct (Z.ltb_spec p 2) as [Hlt|_]; [lia|].
      destruct (Z.eqb_spec (cur + 1 - e) stp) as [Heq|Hne]; cbn [negb].
      * cbn [n_start n_end n_step n_pending n_out].
        split; [exact Hwf|]. split.
        -- rewrite app_nil_r. reflexivity.
        -- right; right. lia.
      * cbn [n_start n_end n_step n_pending n_out].
        unfold rs_append. split.
        -- apply Forall_app. split; [exact Hwf|].
           constructor; [|constructor]. apply (run_wf s e stp p); lia.
        -- split.
           ++ rewrite enum_all_app1, pendv_0, !app_nil_r.
              rewrite (enum_run s e stp p) by lia. reflexivity.
           ++ left; reflexivity.
Qed.

Lemma Inv_fold : forall (keep : Z -> bool) n cur F st, Inv F cur st ->
  Inv (F ++ filter keep (zfrom cur n)) (cur + Z.of_nat n)
      (fold_left (gstep keep) (zfrom cur n) st).
Proof.
  intros keep. induction n as [|n IH]; intros cur F st H.
  - simpl. rewrite app_nil_r. replace (cur + 0) with cur by lia. exact H.
  - rewrite zfrom_S. simpl fold_left. simpl filter.
    apply (Inv_step keep) in H. apply IH in H.
    replace (cur + Z.of_nat (S n)) with (cur + 1 + Z.of_nat n) by lia.
    destruct (keep cur).
    + rewrite <- app_assoc in H. exact H.
    + rewrite app_nil_r in H. exact H.
Qed.

Lemma fold_left_ext : forall (A B : Type) (f g : A -> B -> A) l a,
  (forall a x, f a x = g a x) -> fold_left f l a = fold_left g l a.
Proof.
  intros A B f g l. induction l as [|x l IH]; intros a H; simpl.
  - reflexivity.
  - rewrite H. apply IH. exact H.
Qed.

(** ---- main theorems ---- *)

Theorem normalized_filter : forall invert bl, Forall wf bl -> bl <> [] ->
  let out := normalized invert bl in
  Forall wf out /\ enum_all out = filter (keepv invert bl) (zseq (rs_min bl) (rs_max bl)).
Proof.
  intros invert bl Hw Hne. cbv zeta.
  destruct (rs_min_max_props bl Hw Hne) as ((Imin & Lmin) & (Imax & Lmax)).
  assert (Hle : rs_min bl <= rs_max bl) by (apply Lmin; exact Imax).
  unfold normalized.
  set (lo := rs_min bl) in *. set (hi := rs_max bl) in *.
  assert (Hwt : wf (new_range lo hi 1)).
  { apply (run_wf lo hi 1 (hi - lo + 1)); lia. }
  rewrite (ir_iter_enum _ Hwt).
  rewrite (enum_run lo hi 1 (hi - lo + 1)) by lia.
  assert (Hz : pendv lo 1 (hi - lo + 1) = zfrom lo (Z.to_nat (hi - lo + 1))).
  { unfold pendv, zfrom. apply map_ext. intros i. lia. }
  rewrite Hz, zseq_zfrom.
  rewrite (fold_left_ext _ _ _ _ _ _ (norm_step_gstep invert bl)).
  assert (H0 : Inv [] lo (mkN 0 0 0 0 [])).
  { unfold Inv. cbn. split; [constructor|]. split; [reflexivity|]. left; reflexivity. }
  apply (Inv_fold (keepv invert bl) (Z.to_nat (hi - lo + 1))) in H0.
  simpl app in H0.
  set (k := keepv invert bl) in *.
  set (F := filter k (zfrom lo (Z.to_nat (hi - lo + 1)))) in *.
  destruct (fold_left (gstep k) (zfrom lo (Z.to_nat (hi - lo + 1))) (mkN 0 0 0 0 []))
    as [s e stp p out].
  unfold Inv in H0. cbn [n_start n_end n_step n_pending n_out] in *.
  destruct H0 as (Hwf & HF & Hc).
  rewrite Z.gtb_ltb.
  destruct (Z.ltb_spec 0 p) as [Hp|Hp].
  - assert (Hrun : 1 <= stp /\ 1 <= p /\ e = s + (p - 1) * stp).
    { destruct Hc as [H0|[(H1 & He & Hst & Hcur)|(H2 & Hst & He)]]; [lia| |lia].
      subst p. lia. }
    destruct Hrun as (Hst & Hp1 & He).
    unfold rs_append. split.
    + apply Forall_app. split; [exact Hwf|].
      constructor; [|constructor]. apply (run_wf s e stp p); assumption.
    + rewrite enum_all_app1. rewrite (enum_run s e stp p) by assumption. exact HF.
  - assert (p = 0) by lia. subst p.
    rewrite pendv_0, app_nil_r in HF. split; [exact Hwf|exact HF].
Qed.

Lemma negb_true_not : forall (b : bool) (P : Prop), (b = true <-> P) -> (negb b = true <-> ~ P).
Proof.
  intros b P H. destruct b; simpl; split; intros H1.
  - discriminate.
  - exfalso. apply H1. apply H. reflexivity.
  - intros HP. apply H in HP. discriminate.
  - reflexivity.
Qed.

Theorem normalized_members : forall bl, Forall wf bl -> bl <> [] ->
  Forall wf (normalized false bl) /\ enum_all (normalized false bl) = sort_dedup (enum_all bl).
Proof.
  intros bl Hw Hne.
  destruct (normalized_filter false bl Hw Hne) as (Hwf & Heq).
  split; [exact Hwf|]. rewrite Heq.
  destruct (rs_min_max_props bl Hw Hne) as ((Imin & Lmin) & (Imax & Lmax)).
  apply asc_ext.
  - apply asc_filter. rewrite zseq_zfrom. apply asc_zfrom.
  - apply asc_sort_dedup.
  - intros v. rewrite filter_In, In_zseq, In_sort_dedup.
    unfold keepv. rewrite (rs_contains_In bl v Hw).
    split; [intros [_ H]; exact H|].
    intros H. split; [|exact H]. split; [apply Lmin|apply Lmax]; exact H.
Qed.

Theorem inverted_members : forall bl, Forall wf bl -> bl <> [] ->
  Forall wf (normalized true bl) /\ enum_all (normalized true bl) = complement (enum_all bl).
Proof.
  intros bl Hw Hne.
  destruct (normalized_filter true bl Hw Hne) as (Hwf & Heq).
  split; [exact Hwf|]. rewrite Heq.
  destruct (rs_min_max_props bl Hw Hne) as ((Imin & Lmin) & (Imax & Lmax)).
  unfold complement.
  rewrite zmin_list_lmin, zmax_list_lmax.
  rewrite <- (rs_min_spec bl Hw Hne), <- (rs_max_spec bl Hw Hne).
  set (lo := rs_min bl) in *. set (hi := rs_max bl) in *.
  change (map (fun i : nat => lo + 1 + Z.of_nat i) (seq 0 (Z.to_nat (hi - lo - 1))))
    with (zfrom (lo + 1) (Z.to_nat (hi - lo - 1))).
  apply asc_ext.
  - apply asc_filter. rewrite zseq_zfrom. apply asc_zfrom.
  - apply asc_filter. apply asc_zfrom.
  - intros v. rewrite !filter_In, In_zseq, In_zfrom.
    unfold keepv.
    rewrite (negb_true_not _ _ (rs_contains_In bl v Hw)).
    assert (Hex : existsb (Z.eqb v) (enum_all bl) = true <-> In v (enum_all bl)).
    { rewrite existsb_exists. split.
      - intros (x & Hx & Hvx). apply Z.eqb_eq in Hvx. subst x. exact Hx.
      - intros Hv. exists v. split; [exact Hv|apply Z.eqb_refl]. }
    rewrite (negb_true_not _ _ Hex).
    split; intros [Hr Hn]; (split; [|exact Hn]).
    + assert (v <> lo) by (intros E; apply Hn; rewrite E; exact Imin).
      assert (v <> hi) by (intros E; apply Hn; rewrite E; exact Imax).
      lia.
    + lia.
Qed.

Theorem normalized_WF : forall invert bl, Forall wf bl -> bl <> [] -> WF (normalized invert bl).
Proof.
  intros invert bl Hw Hne.
  destruct (normalized_filter invert bl Hw Hne) as (Hwf & Heq).
  split; [exact Hwf|]. rewrite Heq.
  apply asc_NoDup. apply asc_filter. rewrite zseq_zfrom. apply asc_zfrom.
Qed.

Theorem normalized_depends_on_members_only : forall invert a b,
  Forall wf a -> Forall wf b -> a <> [] -> b <> [] ->
  (forall v, In v (enum_all a) <-> In v (enum_all b)) ->
  normalized invert a = normalized invert b.
Proof.
  intros invert a b Hwa Hwb Hna Hnb Hm.
  destruct (rs_min_max_props a Hwa Hna) as ((Imina & Lmina) & (Imaxa & Lmaxa)).
  destruct (rs_min_max_props b Hwb Hnb) as ((Iminb & Lminb) & (Imaxb & Lmaxb)).
  assert (Emin : rs_min a = rs_min b)
    by (apply (least_unique (enum_all a) (enum_all b)); assumption).
  assert (Emax : rs_max a = rs_max b)
    by (apply (greatest_unique (enum_all a) (enum_all b)); assumption).
  assert (Ec : forall v, rs_contains a v = rs_contains b v).
  { intros v. pose proof (rs_contains_In a v Hwa) as Ha.
    pose proof (rs_contains_In b v Hwb) as Hb. specialize (Hm v).
    destruct (rs_contains a v); destruct (rs_contains b v); try reflexivity.
    - symmetry. apply Hb, Hm, Ha. reflexivity.
    - apply Ha, Hm, Hb. reflexivity. }
  assert (Es : forall st cur, norm_step invert a st cur = norm_step invert b st cur).
  { intros st cur. unfold norm_step. rewrite Ec. reflexivity. }
  unfold normalized. rewrite Emin, Emax.
  rewrite (fold_left_ext _ _ _ _ _ _ Es). reflexivity.
Qed.
