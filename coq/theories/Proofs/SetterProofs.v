(** Setters, Copy and Split of a file sequence: what they change, and that
    they change nothing else, for every history of calls.

    - [sop] / [run_sops]: a history of setter calls and its interpretation in
      the model (Seq.v).
    - [comps] / [comp_step]: an independent replay of a history on the seven
      components of a sequence (directory, basename, extension, pad
      characters, zero-fill width, frame set, pad style).
    - [setters_compose]: the model's state after any history is the replay.
    - [setter_frames]: per setter, everything that does NOT change.
    - [copy_spec], [split_spec]: Copy and Split of a sequence whose components
      lie in the unambiguous domain of SpecSeq.v.

    Independence of a copy.  The model is purely functional: [q_copy q] is a
    value, and no later setter applied to [q] (or to the copy) can be observed
    through the other.  The aliasing question of the Go implementation (Copy
    re-parses String(), hence shares no pointer with the receiver) has no
    counterpart to prove here; it is immediate. *)
From GFS Require Import Base Dec Regex GenRegex GenPadTables Ranges Pad FrameSet Path Seq SpecRange SpecSeq
     AppendProofs ParseProofs PadProofs PadRangeProofs SeqProofs Glue FramePathProofs.
Local Open Scope Z_scope.

(** * Histories of setter calls *)

Inductive sop : Type :=
| SDir (d : bytes)
| SBase (b : bytes)
| SExt (e : bytes)
| SPad (p : bytes)
| SStyle (st : Z)
| SRange (r : bytes)
| SFrameSet (f : option frameset).

Definition apply_sop (q : fileseq) (o : sop) : fileseq :=
  match o with
  | SDir d => set_dirname q d
  | SBase b => set_basename q b
  | SExt e => set_ext q e
  | SPad p => set_padding q p
  | SStyle st => set_padding_style q st
  | SRange r => fst (set_frame_range q r)
  | SFrameSet f => set_frameset q f
  end.

Definition run_sops (q : fileseq) (ops : list sop) : fileseq := fold_left apply_sop ops q.

(** * The seven components and their replay *)

Record comps : Type := mkC {
  c_dir : bytes; c_base : bytes; c_ext : bytes; c_pad : bytes;
  c_zfill : Z; c_fs : option frameset; c_style : pstyle }.

Definition components (q : fileseq) : comps :=
  mkC (q_dir q) (q_base q) (q_ext q) (q_pad q) (q_zfill q) (q_fs q) (q_style q).

(** the directory always ends with a separator; the separator is '\' as soon
    as the given string holds one, '/' otherwise *)
Definition has_backslash (d : bytes) : bool := existsb (Nat.eqb 92) d.
Definition with_sep (d : bytes) : bytes :=
  let sep := if has_backslash d then 92%nat else 47%nat in
  match rev d with
  | x :: _ => if Nat.eqb x sep then d else d ++ [sep]
  | [] => [sep]
  end.

(** the extension always starts with '.' *)
Definition with_dot (e : bytes) : bytes := if has_prefix e [46%nat] then e else 46%nat :: e.

Definition comp_step (c : comps) (o : sop) : comps :=
  match o with
  | SDir d => mkC (with_sep d) (c_base c) (c_ext c) (c_pad c) (c_zfill c) (c_fs c) (c_style c)
  | SBase b => mkC (c_dir c) b (c_ext c) (c_pad c) (c_zfill c) (c_fs c) (c_style c)
  | SExt e => mkC (c_dir c) (c_base c) (with_dot e) (c_pad c) (c_zfill c) (c_fs c) (c_style c)
  | SPad p => mkC (c_dir c) (c_base c) (c_ext c) p (padding_chars_size (c_style c) p) (c_fs c) (c_style c)
  | SStyle st =>
    (* the pad characters are recomputed from the CURRENT width under the new
       style, and the width is then re-read from those characters *)
    let s := style_of_int st in
    let p := padding_chars s (c_zfill c) in
    mkC (c_dir c) (c_base c) (c_ext c) p (padding_chars_size s p) (c_fs c) s
  | SRange r =>
    (* the decision is the specification's: a string outside the documented
       shorthand changes nothing *)
    match spec_frames r with
    | Some _ => mkC (c_dir c) (c_base c) (c_ext c) (c_pad c) (c_zfill c) (opt_frameset r) (c_style c)
    | None => c
    end
  | SFrameSet f => mkC (c_dir c) (c_base c) (c_ext c) (c_pad c) (c_zfill c) f (c_style c)
  end.

(** ** the replay functions against the model's own formulations *)

Lemma with_sep_model : forall d,
  with_sep d = (if ends_with_byte d (path_sep d) then d else d ++ [path_sep d]).
Proof.
  intros d. unfold with_sep, ends_with_byte, path_sep, has_backslash, c_slash.
  destruct (rev d) as [|x t] eqn:E; [|reflexivity].
  apply (f_equal (@rev byte)) in E. rewrite rev_involutive in E. subst d. reflexivity.
Qed.

Lemma with_dot_model : forall e,
  with_dot e = match e with 46%nat :: _ => e | _ => c_dot :: e end.
Proof.
  intros e. unfold with_dot, c_dot. destruct e as [|c r]; [reflexivity|].
  destruct r; do 47 (destruct c as [|c]; [reflexivity|]); reflexivity.
Qed.

Lemma srange_model : forall q r,
  fst (set_frame_range q r) =
  match spec_frames r with
  | Some _ => set_frameset q (opt_frameset r)
  | None => q
  end.
Proof.
  intros q r. unfold set_frame_range, opt_frameset.
  pose proof (parse_denotes r) as P.
  destruct (new_frameset r) as [f|e|n|]; try contradiction.
  - destruct P as [P _]. rewrite P. reflexivity.
  - rewrite P. reflexivity.
Qed.

Lemma step_ok : forall q o, components (apply_sop q o) = comp_step (components q) o.
Proof.
  intros q o. destruct o as [d|b|e|p|st|r|f]; cbn [apply_sop comp_step].
  - unfold set_dirname, components. cbn. rewrite with_sep_model. reflexivity.
  - reflexivity.
  - unfold set_ext, components. cbn. rewrite with_dot_model. reflexivity.
  - reflexivity.
  - reflexivity.
  - rewrite srange_model. cbn [components c_dir c_base c_ext c_pad c_zfill c_fs c_style].
    destruct (spec_frames r); reflexivity.
  - reflexivity.
Qed.

(** * Every history is its replay *)

Theorem setters_compose : forall ops q,
  let q' := run_sops q ops in
  q_string q' = q_dir q' ++ q_base q' ++ q_frange q' ++ q_pad q' ++ q_ext q' /\
  components q' = fold_left comp_step ops (components q).
Proof.
  intros ops q q'. split; [reflexivity|]. subst q'. unfold run_sops.
  revert q. induction ops as [|o ops IH]; intros q; cbn [fold_left]; [reflexivity|].
  rewrite IH, step_ok. reflexivity.
Qed.

(** the components determine every observation made through the accessors *)
Lemma components_inj : forall q1 q2, components q1 = components q2 -> q1 = q2.
Proof. intros [] [] H. unfold components in H. cbn in H. injection H as -> -> -> -> -> -> ->. reflexivity. Qed.

Corollary histories_agree : forall ops1 ops2 q1 q2,
  fold_left comp_step ops1 (components q1) = fold_left comp_step ops2 (components q2) ->
  run_sops q1 ops1 = run_sops q2 ops2.
Proof.
  intros ops1 ops2 q1 q2 H. apply components_inj.
  rewrite (proj2 (setters_compose ops1 q1)), (proj2 (setters_compose ops2 q2)). exact H.
Qed.

(** * What each setter leaves alone *)

Definition unchanged_by (o : sop) (q q' : fileseq) : Prop :=
  match o with
  | SDir _ =>
    q_base q' = q_base q /\ q_ext q' = q_ext q /\ q_pad q' = q_pad q /\ q_zfill q' = q_zfill q /\
    q_fs q' = q_fs q /\ q_style q' = q_style q /\ q_frange q' = q_frange q /\ q_len q' = q_len q
  | SBase _ =>
    q_dir q' = q_dir q /\ q_ext q' = q_ext q /\ q_pad q' = q_pad q /\ q_zfill q' = q_zfill q /\
    q_fs q' = q_fs q /\ q_style q' = q_style q /\ q_frange q' = q_frange q /\ q_len q' = q_len q
  | SExt _ =>
    q_dir q' = q_dir q /\ q_base q' = q_base q /\ q_pad q' = q_pad q /\ q_zfill q' = q_zfill q /\
    q_fs q' = q_fs q /\ q_style q' = q_style q /\ q_frange q' = q_frange q /\ q_len q' = q_len q
  | SPad _ =>
    q_dir q' = q_dir q /\ q_base q' = q_base q /\ q_ext q' = q_ext q /\
    q_fs q' = q_fs q /\ q_style q' = q_style q /\ q_frange q' = q_frange q /\ q_len q' = q_len q
  | SStyle _ =>
    q_dir q' = q_dir q /\ q_base q' = q_base q /\ q_ext q' = q_ext q /\
    q_fs q' = q_fs q /\ q_frange q' = q_frange q /\ q_len q' = q_len q /\
    (1 <= q_zfill q ->
       q_zfill q' = q_zfill q /\ (forall v, q_frame_int q' v = q_frame_int q v) /\
       (q_fs q <> None -> q_paths q' = q_paths q))
  | SRange _ | SFrameSet _ =>
    q_dir q' = q_dir q /\ q_base q' = q_base q /\ q_ext q' = q_ext q /\ q_pad q' = q_pad q /\
    q_zfill q' = q_zfill q /\ q_style q' = q_style q
  end.

Lemma set_dirname_frame : forall q d, unchanged_by (SDir d) q (set_dirname q d).
Proof. intros q d. cbn. repeat split; reflexivity. Qed.
Lemma set_basename_frame : forall q b, unchanged_by (SBase b) q (set_basename q b).
Proof. intros q b. cbn. repeat split; reflexivity. Qed.
Lemma set_ext_frame : forall q e, unchanged_by (SExt e) q (set_ext q e).
Proof. intros q e. cbn. repeat split; reflexivity. Qed.
Lemma set_padding_frame : forall q p, unchanged_by (SPad p) q (set_padding q p).
Proof. intros q p. cbn. repeat split; reflexivity. Qed.
Lemma set_frameset_frame : forall q f, unchanged_by (SFrameSet f) q (set_frameset q f).
Proof. intros q f. cbn. repeat split; reflexivity. Qed.
Lemma set_frame_range_frame : forall q r, unchanged_by (SRange r) q (fst (set_frame_range q r)).
Proof.
  intros q r. unfold set_frame_range. destruct (new_frameset r); cbn; repeat split; reflexivity.
Qed.
Lemma set_padding_style_frame : forall q st, unchanged_by (SStyle st) q (set_padding_style q st).
Proof.
  intros q st. cbn [unchanged_by].
  repeat (split; [reflexivity|]). intros H. split; [|split].
  - apply style_switch_keeps_width_proof. exact H.
  - apply style_switch_keeps_paths_proof. exact H.
  - (* without a frame set the only path is String(), which shows the pad characters *)
    intros Hfs. unfold q_paths. change (q_fs (set_padding_style q st)) with (q_fs q).
    destruct (q_fs q) as [f|]; [|congruence].
    apply map_ext. intros v. apply style_switch_keeps_paths_proof. exact H.
Qed.

Theorem setter_frames : forall q o, unchanged_by o q (apply_sop q o).
Proof.
  intros q o. destruct o; cbn [apply_sop].
  - apply set_dirname_frame.
  - apply set_basename_frame.
  - apply set_ext_frame.
  - apply set_padding_frame.
  - apply set_padding_style_frame.
  - apply set_frame_range_frame.
  - apply set_frameset_frame.
Qed.

(** * Individual setters *)

Theorem failed_set_frame_range : forall q r,
  (forall f, new_frameset r <> Ok f) -> set_frame_range q r = (q, false).
Proof.
  intros q r H. unfold set_frame_range.
  destruct (new_frameset r) as [f|e|n|] eqn:E; try reflexivity.
  exfalso. exact (H f eq_refl).
Qed.

(** the same through the specification: outside the documented shorthand *)
Corollary failed_set_frame_range_spec : forall q r,
  spec_frames r = None -> set_frame_range q r = (q, false).
Proof.
  intros q r H. apply failed_set_frame_range. intros f E.
  pose proof (parse_denotes r) as P. rewrite E in P. destruct P as [P _]. congruence.
Qed.

Theorem successful_set_frame_range : forall q r l, spec_frames r = Some l ->
  exists f, set_frame_range q r = (set_frameset q (Some f), true) /\
            fs_range f = r /\ fs_frames f = l /\
            q_frange (fst (set_frame_range q r)) = r.
Proof.
  intros q r l H. destruct (spec_to_model r l H) as (f & Hf & Hl & Hr).
  exists f. unfold set_frame_range. rewrite Hf. cbn. auto.
Qed.

(** [d <> []] is not needed: the empty string becomes "/" *)
Theorem dirname_separator : forall q d, existsb (Nat.eqb 92) d = false ->
  q_dir (set_dirname q d) = (if ends_with_byte d 47%nat then d else d ++ [47%nat]).
Proof.
  intros q d H. unfold set_dirname, path_sep. cbn [q_dir]. rewrite H. reflexivity.
Qed.

Theorem dirname_separator_windows : forall q d, existsb (Nat.eqb 92) d = true ->
  q_dir (set_dirname q d) = (if ends_with_byte d 92%nat then d else d ++ [92%nat]).
Proof.
  intros q d H. unfold set_dirname, path_sep. cbn [q_dir]. rewrite H. reflexivity.
Qed.

(** [e <> []] is not needed: the empty string becomes "." *)
Theorem ext_dot : forall q e,
  q_ext (set_ext q e) = (if has_prefix e [46%nat] then e else 46%nat :: e).
Proof.
  intros q e. unfold set_ext. cbn [q_ext]. rewrite <- with_dot_model. reflexivity.
Qed.

Theorem paths_follow_components : forall q f v, q_fs q = Some f ->
  q_frame_int q v = q_dir q ++ q_base q ++ zfill_int v (q_zfill q) ++ q_ext q.
Proof. exact frame_path_spec. Qed.

Corollary paths_follow_components_all : forall q f, q_fs q = Some f ->
  q_paths q = map (fun v => q_dir q ++ q_base q ++ zfill_int v (q_zfill q) ++ q_ext q) (fs_frames f).
Proof.
  intros q f H. unfold q_paths. rewrite H. apply map_ext. intros v.
  apply (frame_path_spec q f v H).
Qed.

(** after any history, the paths are those of the replayed components *)
Corollary history_paths : forall ops q f,
  let c := fold_left comp_step ops (components q) in
  c_fs c = Some f ->
  q_paths (run_sops q ops) =
  map (fun v => c_dir c ++ c_base c ++ zfill_int v (c_zfill c) ++ c_ext c) (fs_frames f).
Proof.
  intros ops q f c H. subst c. rewrite <- (proj2 (setters_compose ops q)) in *.
  cbn [components c_fs c_dir c_base c_zfill c_ext] in *.
  apply paths_follow_components_all. exact H.
Qed.

(** * Invariants kept by every history *)

Definition fs_wf (o : option frameset) : Prop :=
  match o with Some f => spec_frames (fs_range f) = Some (fs_frames f) | None => True end.
Definition sop_wf (o : sop) : Prop := match o with SFrameSet f => fs_wf f | _ => True end.
(** the width is the one read from the pad characters; the frame set holds
    the frames its own range string denotes *)
Definition seq_inv (q : fileseq) : Prop :=
  q_zfill q = padding_chars_size (q_style q) (q_pad q) /\ fs_wf (q_fs q).

Lemma seq_inv_step : forall q o, sop_wf o -> seq_inv q -> seq_inv (apply_sop q o).
Proof.
  intros q o Ho [Hz Hf]. destruct o as [d|b|e|p|st|r|f]; cbn [apply_sop]; try (split; assumption).
  - split; [reflexivity | exact Hf].
  - split; [reflexivity | exact Hf].
  - unfold set_frame_range. pose proof (parse_denotes r) as P.
    destruct (new_frameset r) as [f|e|n|]; cbn [fst]; try (split; assumption).
    split; [exact Hz|]. cbn. destruct P as [P1 P2]. rewrite P2. exact P1.
Qed.

Theorem history_invariant : forall ops q, Forall sop_wf ops -> seq_inv q -> seq_inv (run_sops q ops).
Proof.
  unfold run_sops. induction ops as [|o ops IH]; intros q Hw Hq; cbn [fold_left]; [exact Hq|].
  inversion Hw as [|? ? Ho Hr]; subst. apply IH; [exact Hr|]. apply seq_inv_step; assumption.
Qed.

Lemma new_fileseq_inv : forall d b r p e st, unambiguous d b r p e = true ->
  exists q, new_fileseq (d ++ b ++ r ++ p ++ e) st = Ok q /\ seq_inv q.
Proof.
  intros d b r p e st H.
  destruct (split_roundtrip_full d b r p e st H)
    as (q & Hq & Hd & Hb & Hr & Hp & He & Hz & Hst & _ & _ & Hn & Hs).
  exists q. split; [exact Hq|]. split; [rewrite Hz, Hst, Hp; reflexivity|].
  destruct r as [|c r'].
  - rewrite (Hn eq_refl). exact I.
  - destruct (Hs ltac:(discriminate)) as (f & Hf & Hsp). rewrite Hf. cbn.
    unfold q_frange in Hr. rewrite Hf in Hr. rewrite Hr. exact Hsp.
Qed.

(** * Copy *)

Definition roundtrippable (q : fileseq) : Prop :=
  unambiguous (q_dir q) (q_base q) (q_frange q) (q_pad q) (q_ext q) = true /\
  q_zfill q = padding_chars_size (q_style q) (q_pad q) /\
  (match q_fs q with
   | Some f => q_frange q <> [] /\ spec_frames (fs_range f) = Some (fs_frames f)
   | None => q_frange q = []
   end).

Lemma spec_frames_nil : spec_frames [] = None.
Proof. vm_compute. reflexivity. Qed.

(** the domain condition plus the invariants every history keeps *)
Lemma roundtrippable_intro : forall q,
  unambiguous (q_dir q) (q_base q) (q_frange q) (q_pad q) (q_ext q) = true ->
  seq_inv q -> roundtrippable q.
Proof.
  intros q Hu [Hz Hf]. split; [exact Hu|]. split; [exact Hz|].
  unfold q_frange. destruct (q_fs q) as [f|]; [|reflexivity].
  cbn in Hf. split; [|exact Hf]. intros E. rewrite E, spec_frames_nil in Hf. discriminate.
Qed.

(** re-parsing the components of [q] with any admissible range in the middle *)
Lemma rt_reparse : forall q r, roundtrippable q ->
  unambiguous (q_dir q) (q_base q) r (q_pad q) (q_ext q) = true ->
  exists c, new_fileseq (q_dir q ++ q_base q ++ r ++ q_pad q ++ q_ext q) (q_style q) = Ok c /\
    q_dir c = q_dir q /\ q_base c = q_base q /\ q_ext c = q_ext q /\ q_pad c = q_pad q /\
    q_zfill c = q_zfill q /\ q_style c = q_style q /\ q_frange c = r /\
    q_string c = q_dir q ++ q_base q ++ r ++ q_pad q ++ q_ext q /\
    (r = [] -> q_fs c = None) /\
    (r <> [] -> exists g, q_fs c = Some g /\ spec_frames r = Some (fs_frames g)).
Proof.
  intros q r (_ & Hz & _) Hu.
  destruct (split_roundtrip_full _ _ _ _ _ (q_style q) Hu)
    as (c & Hc & Hd & Hb & Hr & Hp & He & Hzc & Hst & Hs & _ & Hn & Hsome).
  exists c. rewrite Hz. repeat split; assumption.
Qed.

Lemma frame_int_same : forall q c f g,
  q_dir c = q_dir q -> q_base c = q_base q -> q_ext c = q_ext q -> q_zfill c = q_zfill q ->
  q_fs q = Some f -> q_fs c = Some g ->
  forall v, q_frame_int c v = q_frame_int q v.
Proof.
  intros q c f g Hd Hb He Hz Hf Hg v. unfold q_frame_int.
  rewrite Hd, Hb, He, Hz, Hf, Hg. reflexivity.
Qed.

(** Counter-example outside the domain: after SetDirname "C:\win" the directory
    ends with '\'; String() re-parses with an empty directory and the basename
    "C:\win\...".  [dir_ok] (part of [unambiguous]) excludes it. *)
Theorem copy_spec : forall q, roundtrippable q ->
  exists c, q_copy q = Some c /\
    q_dir c = q_dir q /\ q_base c = q_base q /\ q_ext c = q_ext q /\ q_pad c = q_pad q /\
    q_zfill c = q_zfill q /\ q_style c = q_style q /\ q_frange c = q_frange q /\
    q_string c = q_string q /\ q_paths c = q_paths q /\
    (* the frame sets agree on what they denote (their block lists may differ) *)
    match q_fs q, q_fs c with
    | Some f, Some g => fs_range g = fs_range f /\ fs_frames g = fs_frames f
    | None, None => True
    | _, _ => False
    end /\
    seq_inv c.
Proof.
  intros q Hrt. pose proof Hrt as (Hu & Hz & Hf).
  destruct (rt_reparse q (q_frange q) Hrt Hu)
    as (c & Hc & Hd & Hb & He & Hp & Hzc & Hst & Hr & Hs & Hn & Hsome).
  exists c. unfold q_copy. change (q_string q) with (q_dir q ++ q_base q ++ q_frange q ++ q_pad q ++ q_ext q).
  rewrite Hc. repeat (split; [first [reflexivity | assumption]|]).
  assert (Hinv : seq_inv c).
  { destruct (new_fileseq_inv _ _ _ _ _ (q_style q) Hu) as (c' & Hc' & Hi).
    rewrite Hc in Hc'. injection Hc' as <-. exact Hi. }
  destruct (q_fs q) as [f|] eqn:Ef.
  - destruct Hf as [Hne Hsp]. destruct (Hsome Hne) as (g & Hg & Hgs).
    assert (Hrg : fs_range g = fs_range f).
    { unfold q_frange in Hr. rewrite Hg, Ef in Hr. exact Hr. }
    assert (Hfr : fs_frames g = fs_frames f).
    { unfold q_frange in Hgs. rewrite Ef in Hgs. rewrite Hsp in Hgs. injection Hgs as Hgs. auto. }
    split; [|split; [rewrite Hg; split; assumption | exact Hinv]].
    unfold q_paths. rewrite Hg, Ef, Hfr. apply map_ext.
    apply (frame_int_same q c f g); assumption.
  - split; [|split; [rewrite (Hn Hf); exact I | exact Hinv]].
    unfold q_paths. rewrite (Hn Hf), Ef. rewrite Hs. reflexivity.
Qed.

(** a copy can be copied again *)
Corollary copy_roundtrippable : forall q c, roundtrippable q -> q_copy q = Some c -> roundtrippable c.
Proof.
  intros q c Hrt Hc. destruct (copy_spec q Hrt)
    as (c' & Hc' & Hd & Hb & He & Hp & _ & _ & Hr & _ & _ & _ & Hinv).
  rewrite Hc in Hc'. injection Hc' as <-. apply roundtrippable_intro; [|exact Hinv].
  rewrite Hd, Hb, He, Hp, Hr. exact (proj1 Hrt).
Qed.

(** * Split *)

(** ** list facts *)

Lemma sp_beq_refl : forall a, beq a a = true.
Proof. induction a as [|x a IH]; cbn [beq]; [reflexivity|]. rewrite Nat.eqb_refl. exact IH. Qed.

Lemma sp_beq_eq : forall a b, beq a b = true -> a = b.
Proof.
  induction a as [|x a IH]; intros [|y b] H; cbn [beq] in H; try discriminate; [reflexivity|].
  apply andb_true_iff in H. destruct H as [H1 H2].
  apply Nat.eqb_eq in H1. subst y. f_equal. apply IH. exact H2.
Qed.

Lemma split_on_single_inv : forall sep s x, split_on sep s = [x] -> x = s.
Proof.
  intros sep s. induction s as [|c r IH]; intros x H; cbn [split_on] in H.
  - injection H as <-. reflexivity.
  - pose proof (PadRangeProofs.split_on_nonempty sep r) as NE.
    destruct (Nat.eqb c sep).
    + injection H as _ H. congruence.
    + destruct (split_on sep r) as [|h t]; [congruence|].
      injection H as <- ->. f_equal. apply IH. reflexivity.
Qed.

Lemma map_fix_Forall : forall (A : Type) (f : A -> A) l, map f l = l -> Forall (fun x => f x = x) l.
Proof.
  intros A f l. induction l as [|x r IH]; intros H; constructor.
  - cbn [map] in H. injection H as H _. exact H.
  - apply IH. cbn [map] in H. injection H as _ H. exact H.
Qed.

Lemma dedup_dedup : forall l s seen, (forall v, In v s -> In v seen) ->
  dedup_first (dedup_first l s) seen = dedup_first l seen.
Proof.
  induction l as [|a l IH]; intros s seen Hs; cbn [dedup_first]; [reflexivity|].
  destruct (existsb (Z.eqb a) s) eqn:E1.
  - apply existsb_eqb_In in E1. apply Hs in E1. apply existsb_eqb_In in E1. rewrite E1.
    apply IH. exact Hs.
  - cbn [dedup_first]. destruct (existsb (Z.eqb a) seen) eqn:E2.
    + apply IH. intros v [<-|Hv]; [apply existsb_eqb_In; exact E2 | apply Hs; exact Hv].
    + f_equal. apply IH. intros v [<-|Hv]; [left; reflexivity | right; apply Hs; exact Hv].
Qed.

(** de-duplicating each piece first does not change the de-duplicated whole *)
Lemma dedup_flat_pieces : forall (A : Type) (g h : A -> list Z) (l : list A),
  (forall x, h x = dedup_first (g x) []) ->
  forall seen, dedup_first (flat_map h l) seen = dedup_first (flat_map g l) seen.
Proof.
  intros A g h l Hh. induction l as [|x r IH]; intros seen; cbn [flat_map]; [reflexivity|].
  rewrite !dedup_first_app, Hh. rewrite dedup_dedup by (intros v []). f_equal.
  rewrite IH. apply dedup_first_ext. intros v. rewrite !in_app_iff, dedup_first_In.
  cbn [In]. tauto.
Qed.

(** first-occurrence de-duplication of a list of paths *)
Fixpoint dedup_first_paths (l seen : list bytes) : list bytes :=
  match l with
  | [] => []
  | x :: r => if existsb (beq x) seen then dedup_first_paths r seen
              else x :: dedup_first_paths r (x :: seen)
  end.

Lemma dedup_paths_map : forall (g : Z -> bytes), (forall a b, g a = g b -> a = b) ->
  forall l seen, dedup_first_paths (map g l) (map g seen) = map g (dedup_first l seen).
Proof.
  intros g Hinj.
  assert (Hex : forall a seen, existsb (beq (g a)) (map g seen) = existsb (Z.eqb a) seen).
  { intros a seen. induction seen as [|x r IH]; cbn [map existsb]; [reflexivity|].
    rewrite IH. f_equal. destruct (Z.eqb_spec a x) as [->|Hne]; [apply sp_beq_refl|].
    destruct (beq (g a) (g x)) eqn:E; [|reflexivity].
    apply sp_beq_eq, Hinj in E. contradiction. }
  induction l as [|a l IH]; intros seen; cbn [map dedup_first_paths dedup_first]; [reflexivity|].
  rewrite Hex. destruct (existsb (Z.eqb a) seen); [apply IH|].
  cbn [map]. f_equal. apply (IH (a :: seen)).
Qed.

(** ** the comma components of an admissible range *)

Lemma parse_comps_Forall2 : forall (P : bytes -> Prop) l cs, Forall P l -> parse_comps l = Some cs ->
  Forall2 (fun p c => parse_comp p = Some c /\ P p) l cs.
Proof.
  intros P l. induction l as [|p r IH]; intros cs HP H; cbn [parse_comps] in H.
  - injection H as <-. constructor.
  - inversion HP as [|? ? Hp Hr]; subst.
    destruct (parse_comp p) as [c|] eqn:Ec; [|discriminate].
    destruct (parse_comps r) as [cs'|] eqn:Er; [|discriminate].
    injection H as <-. constructor; [split; [exact Ec | exact Hp]|].
    apply IH; [exact Hr | reflexivity].
Qed.

Lemma range_parts : forall r, r <> [] -> range_ok r = true ->
  exists cs,
    Forall2 (fun p c => parse_comp p = Some c /\ (strip p = p /\ nocomma p)) (split_on 44%nat r) cs /\
    forallb comp_fits cs = true /\ forallb comp_nonzero cs = true /\
    spec_frames r = Some (denote cs).
Proof.
  intros r Hne H. unfold range_ok in H. destruct r as [|c0 r0]; [congruence|].
  apply andb_true_iff in H. destruct H as [Hs Hp]. apply sp_beq_eq in Hs.
  set (r := c0 :: r0) in *.
  assert (HF : Forall (fun p => strip p = p /\ nocomma p) (split_on 44%nat r)).
  { pose proof (strip_split r) as S. rewrite Hs in S. symmetry in S.
    apply map_fix_Forall in S. pose proof (split_on_parts_nocomma r) as N.
    revert S N. generalize (split_on 44%nat r). intros l S. induction S; intros N; constructor.
    - inversion N; subst. split; assumption.
    - inversion N; subst. apply IHS. assumption. }
  unfold spec_frames, gparse in *. rewrite Hs in *. rewrite split_commas_nil in *.
  destruct (parse_comps (split_on 44%nat r)) as [cs|] eqn:Ep; [|discriminate].
  destruct (forallb comp_fits cs && forallb comp_nonzero cs)%bool eqn:Ef; [|discriminate].
  apply andb_true_iff in Ef. destruct Ef as [Ef1 Ef2].
  exists cs. split; [|split; [exact Ef1 | split; [exact Ef2 | reflexivity]]].
  apply parse_comps_Forall2; assumption.
Qed.

Lemma part_range_ok : forall p c, parse_comp p = Some c -> strip p = p -> nocomma p ->
  comp_fits c = true -> comp_nonzero c = true ->
  p <> [] /\ range_ok p = true /\ spec_frames p = Some (dedup_first (expand c) []).
Proof.
  intros p c Hc Hs Hn Hf Hz.
  assert (Hne : p <> []). { intros ->. vm_compute in Hc. discriminate. }
  assert (Hsp : spec_frames p = Some (dedup_first (expand c) [])).
  { unfold spec_frames, gparse. rewrite Hs, split_commas_nil, (split_on_nocomma p Hn).
    cbn [parse_comps]. rewrite Hc. cbn [forallb]. rewrite Hf, Hz. cbn [andb].
    unfold denote. cbn [flat_map]. rewrite app_nil_r. reflexivity. }
  split; [exact Hne|]. split; [|exact Hsp].
  unfold range_ok. destruct p as [|x t]; [congruence|].
  rewrite Hs, sp_beq_refl, Hsp. reflexivity.
Qed.

Lemma unambiguous_replace_range : forall d b r r' p e,
  unambiguous d b r p e = true -> range_ok r' = true -> unambiguous d b r' p e = true.
Proof.
  intros d b r r' p e H H'. unfold unambiguous in *.
  apply andb_true_iff in H. destruct H as [H He].
  apply andb_true_iff in H. destruct H as [H Hp].
  apply andb_true_iff in H. destruct H as [H Hr].
  rewrite H, H', Hp, He. reflexivity.
Qed.

(** ** Split as a map over the comma components *)

Definition part_of (q : fileseq) (fr : bytes) : option fileseq :=
  match new_fileseq (q_dir q ++ q_base q ++ fr ++ q_pad q ++ q_ext q) (q_style q) with
  | Ok c => Some c
  | _ => None
  end.

(** the one-component shortcut of Split (Copy) is the general case *)
Lemma q_split_map : forall q f, q_fs q = Some f ->
  q_split q = map (part_of q) (split_on 44%nat (fs_range f)).
Proof.
  intros q f H. unfold q_split. rewrite H. change c_comma with 44%nat.
  pose proof (PadRangeProofs.split_on_nonempty 44%nat (fs_range f)) as NE.
  destruct (split_on 44%nat (fs_range f)) as [|x [|y t]] eqn:E; [congruence| |reflexivity].
  apply split_on_single_inv in E. subst x. cbn [map]. unfold q_copy, part_of, q_string, q_frange.
  rewrite H. reflexivity.
Qed.

Definition frames_of_part (o : option fileseq) : list Z :=
  match o with
  | Some c => match q_fs c with Some g => fs_frames g | None => [] end
  | None => []
  end.
Definition paths_of (o : option fileseq) : list bytes :=
  match o with Some c => q_paths c | None => [] end.

(** what one element of Split is, for the comma component [r] *)
Definition good_part (q : fileseq) (r : bytes) (o : option fileseq) : Prop :=
  exists c, o = Some c /\
    q_dir c = q_dir q /\ q_base c = q_base q /\ q_ext c = q_ext q /\ q_pad c = q_pad q /\
    q_zfill c = q_zfill q /\ q_style c = q_style q /\
    q_frange c = r /\ q_string c = q_dir q ++ q_base q ++ r ++ q_pad q ++ q_ext q /\
    spec_frames r = Some (frames_of_part o) /\
    q_paths c = map (q_frame_int q) (frames_of_part o).

Lemma part_ok : forall q f p c, roundtrippable q -> q_fs q = Some f ->
  parse_comp p = Some c -> strip p = p -> nocomma p -> comp_fits c = true -> comp_nonzero c = true ->
  good_part q p (part_of q p) /\ frames_of_part (part_of q p) = dedup_first (expand c) [].
Proof.
  intros q f p c Hrt Hf Hc Hs Hn Hfit Hnz.
  destruct (part_range_ok p c Hc Hs Hn Hfit Hnz) as (Hne & Hok & Hsp).
  pose proof (unambiguous_replace_range _ _ _ p _ _ (proj1 Hrt) Hok) as Hu.
  destruct (rt_reparse q p Hrt Hu)
    as (s & Hnew & Hd & Hb & He & Hp & Hz & Hst & Hr & Hstr & _ & Hsome).
  destruct (Hsome Hne) as (g & Hg & Hgs).
  unfold part_of. rewrite Hnew.
  assert (Hfr : frames_of_part (Some s) = fs_frames g). { unfold frames_of_part. rewrite Hg. reflexivity. }
  split.
  - exists s. rewrite Hfr. repeat (split; [first [reflexivity | assumption]|]).
    unfold q_paths. rewrite Hg. apply map_ext. apply (frame_int_same q s f g); assumption.
  - rewrite Hfr. rewrite Hsp in Hgs. injection Hgs as Hgs. auto.
Qed.

Lemma parts_all : forall q f, roundtrippable q -> q_fs q = Some f ->
  forall L cs,
  Forall2 (fun p c => parse_comp p = Some c /\ (strip p = p /\ nocomma p)) L cs ->
  forallb comp_fits cs = true -> forallb comp_nonzero cs = true ->
  Forall2 (good_part q) L (map (part_of q) L) /\
  flat_map frames_of_part (map (part_of q) L) = flat_map (fun c => dedup_first (expand c) []) cs.
Proof.
  intros q f Hrt Hf L cs H. induction H as [|p c L cs (Hc & Hs & Hn) HL IH]; intros Hfit Hnz.
  - split; [constructor | reflexivity].
  - cbn [forallb] in Hfit, Hnz.
    apply andb_true_iff in Hfit. destruct Hfit as [Hfit1 Hfit2].
    apply andb_true_iff in Hnz. destruct Hnz as [Hnz1 Hnz2].
    destruct (IH Hfit2 Hnz2) as [IH1 IH2].
    destruct (part_ok q f p c Hrt Hf Hc Hs Hn Hfit1 Hnz1) as [G1 G2].
    cbn [map flat_map]. split; [constructor; assumption|]. rewrite G2, IH2. reflexivity.
Qed.

Lemma good_parts_paths : forall q L parts, Forall2 (good_part q) L parts ->
  flat_map paths_of parts = map (q_frame_int q) (flat_map frames_of_part parts).
Proof.
  intros q L parts H. induction H as [|r o L parts G HL IH]; [reflexivity|].
  cbn [flat_map]. rewrite map_app, IH. f_equal.
  destruct G as (c & -> & G). cbn [paths_of]. apply G.
Qed.

(** Split: one sequence per comma component of the range, each with the
    directory, basename, pad characters, width, style and extension of the
    original and with that component as its range; the frames (and paths) of
    the parts, concatenated in order and kept at their first occurrence, are
    the frames (and paths) of the original.  Overlapping components
    ("1-5,3-8") make the plain concatenation longer than the original. *)
Theorem split_spec : forall q f, roundtrippable q -> q_fs q = Some f ->
  let parts := q_split q in
  let ranges := split_commas (q_frange q) [] in
  List.length parts = List.length ranges /\
  Forall (fun o => exists c, o = Some c /\
            q_dir c = q_dir q /\ q_base c = q_base q /\ q_ext c = q_ext q /\
            q_pad c = q_pad q /\ q_zfill c = q_zfill q /\ q_style c = q_style q) parts /\
  (* part i carries component i: its range, its string, its frames, its paths *)
  Forall2 (fun r o => exists c, o = Some c /\ q_frange c = r /\
            q_string c = q_dir q ++ q_base q ++ r ++ q_pad q ++ q_ext q /\
            spec_frames r = Some (frames_of_part o) /\
            q_paths c = map (q_frame_int q) (frames_of_part o)) ranges parts /\
  dedup_first (flat_map frames_of_part parts) [] = fs_frames f /\
  dedup_first_paths (flat_map paths_of parts) [] = q_paths q.
Proof.
  intros q f Hrt Hf parts ranges. subst parts ranges.
  pose proof Hrt as (Hu & _ & Hfs). rewrite Hf in Hfs. destruct Hfs as [Hne Hsp].
  assert (Hrange : q_frange q = fs_range f). { unfold q_frange. rewrite Hf. reflexivity. }
  rewrite (q_split_map q f Hf), split_commas_nil, Hrange.
  rewrite Hrange in Hne.
  destruct (range_parts (fs_range f) Hne) as (cs & HF2 & Hfit & Hnz & Hden).
  { rewrite <- Hrange. apply (unambiguous_range_ok _ _ _ _ _ Hu). }
  destruct (parts_all q f Hrt Hf _ _ HF2 Hfit Hnz) as [HG Hfl].
  assert (Hframes : dedup_first (flat_map frames_of_part (map (part_of q) (split_on 44%nat (fs_range f)))) []
                    = fs_frames f).
  { rewrite Hfl. rewrite (dedup_flat_pieces comp expand (fun c => dedup_first (expand c) [])) by reflexivity.
    rewrite Hsp in Hden. injection Hden as Hden. exact (eq_sym Hden). }
  split; [apply map_length|]. split; [|split; [|split; [exact Hframes|]]].
  - clear -HG. induction HG as [|r o L parts G HL IH]; constructor; [|exact IH].
    destruct G as (c & -> & Hd & Hb & He & Hp & Hz & Hst & _). exists c. repeat split; assumption.
  - clear -HG. induction HG as [|r o L parts G HL IH]; constructor; [|exact IH].
    destruct G as (c & -> & _ & _ & _ & _ & _ & _ & Hr & Hs & Hsp & Hpa). exists c. repeat split; assumption.
  - rewrite (good_parts_paths q _ _ HG).
    change (@nil bytes) with (map (q_frame_int q) []).
    rewrite dedup_paths_map by (intros a b; apply (frame_int_inj q f a b Hf)).
    rewrite Hframes. unfold q_paths. rewrite Hf. reflexivity.
Qed.

(** the components put back together with commas are the original range *)
Lemma join_split_on : forall sep s, join_with sep (split_on sep s) = s.
Proof.
  intros sep s. induction s as [|c r IH]; [reflexivity|].
  cbn [split_on]. pose proof (PadRangeProofs.split_on_nonempty sep r) as NE.
  destruct (Nat.eqb_spec c sep) as [->|Hc].
  - destruct (split_on sep r) as [|h t] eqn:E; [congruence|].
    change (join_with sep ([] :: h :: t)) with ([] ++ sep :: join_with sep (h :: t)).
    rewrite IH. reflexivity.
  - destruct (split_on sep r) as [|h t] eqn:E; [congruence|].
    destruct t as [|h' t'].
    + cbn [join_with] in *. rewrite IH. reflexivity.
    + change (join_with sep ((c :: h) :: h' :: t')) with (c :: (h ++ sep :: join_with sep (h' :: t'))).
      change (join_with sep (h :: h' :: t')) with (h ++ sep :: join_with sep (h' :: t')) in IH.
      rewrite IH. reflexivity.
Qed.

Corollary split_ranges_join : forall q,
  join_with 44%nat (split_commas (q_frange q) []) = q_frange q.
Proof. intros q. rewrite split_commas_nil. apply join_split_on. Qed.

(** * Worked examples *)

Definition ex_seq (s : bytes) (st : pstyle) : fileseq :=
  match new_fileseq s st with Ok q => q | _ => mkQ [] [] [] [] 0 None st end.

(** "/a/foo.1-5,3-8@.exr": the parts overlap; 11 paths concatenated, 8 after
    first-occurrence de-duplication, which are the original's *)
Example overlap_example :
  let q := ex_seq (s2b "/a/foo.1-5,3-8@.exr") Hash4 in
  List.length (flat_map paths_of (q_split q)) = 11%nat /\
  List.length (q_paths q) = 8%nat /\
  dedup_first_paths (flat_map paths_of (q_split q)) [] = q_paths q.
Proof. vm_compute. repeat split; reflexivity. Qed.

(** a history mixing every setter, under both styles *)
Example history_example :
  let q := ex_seq (s2b "/a/foo.1-3,7-9x2#.exr") Hash4 in
  let ops := [SDir (s2b "/x/y"); SBase (s2b "bar_"); SExt (s2b "jpg"); SPad (s2b "@@@");
              SStyle 0; SRange (s2b "10-20x5,bad"); SRange (s2b "10-20x5");
              SStyle 1; SFrameSet None; SRange (s2b "1-2")] in
  let q' := run_sops q ops in
  q_string q' = s2b "/x/y/bar_1-2@@@.jpg" /\ q_zfill q' = 3 /\ q_style q' = Hash4 /\
  q_paths q' = [s2b "/x/y/bar_001.jpg"; s2b "/x/y/bar_002.jpg"].
Proof. vm_compute. repeat split; reflexivity. Qed.

(** the hypotheses of [copy_spec] / [split_spec] hold after any history that
    ends in the unambiguous domain *)
Corollary history_roundtrippable : forall ops q, Forall sop_wf ops -> seq_inv q ->
  let q' := run_sops q ops in
  unambiguous (q_dir q') (q_base q') (q_frange q') (q_pad q') (q_ext q') = true ->
  roundtrippable q'.
Proof.
  intros ops q Hw Hq q' Hu. apply roundtrippable_intro; [exact Hu|].
  apply history_invariant; assumption.
Qed.

(** the domain is inhabited by the worked examples: freshly parsed, under
    both styles, and after the history above *)
Example roundtrippable_examples :
  roundtrippable (ex_seq (s2b "/a/foo.1-3,7-9x2#.exr") Hash1) /\
  roundtrippable (ex_seq (s2b "/a/foo.1-3,7-9x2#.exr") Hash4) /\
  roundtrippable (ex_seq (s2b "/a/foo.1-5,3-8@.exr") Hash4) /\
  roundtrippable (run_sops (ex_seq (s2b "/a/foo.1-3,7-9x2#.exr") Hash4)
    [SDir (s2b "/x/y"); SBase (s2b "bar_"); SExt (s2b "jpg"); SPad (s2b "@@@");
     SStyle 0; SRange (s2b "10-20x5,bad"); SRange (s2b "10-20x5");
     SStyle 1; SFrameSet None; SRange (s2b "1-2")]).
Proof.
  repeat split; try (vm_compute; reflexivity); vm_compute; discriminate.
Qed.

Print Assumptions setters_compose.
Print Assumptions setter_frames.
Print Assumptions failed_set_frame_range.
Print Assumptions dirname_separator.
Print Assumptions ext_dot.
Print Assumptions paths_follow_components.
Print Assumptions history_invariant.
Print Assumptions copy_spec.
Print Assumptions split_spec.
Print Assumptions history_roundtrippable.
