(** C03 assembled: the regex-level decomposition (SplitProofs) plus the
    range parser's correctness (ParseProofs). *)
From GFS Require Import Base Dec Regex GenRegex GenPadTables Ranges Pad FrameSet Path Seq SpecRange SpecSeq
     RegexKit SplitProofs ParseProofs.
Local Open Scope Z_scope.

Lemma unambiguous_range_ok : forall d b r p e, unambiguous d b r p e = true -> range_ok r = true.
Proof.
  intros d b r p e H. unfold unambiguous in H.
  repeat (apply andb_true_iff in H; destruct H as [H ?]). assumption.
Qed.

Lemma range_ok_parses : forall r, r <> [] -> range_ok r = true ->
  exists f, new_frameset r = Ok f /\ spec_frames r = Some (fs_frames f) /\ fs_range f = r.
Proof.
  intros r Hne H. unfold range_ok in H. destruct r as [|c r']; [congruence|].
  apply andb_true_iff in H. destruct H as [_ H].
  pose proof (parse_denotes (c :: r')) as P.
  destruct (new_frameset (c :: r')) as [f|e|n|].
  - exists f. destruct P as [P1 P2]. auto.
  - rewrite P in H. discriminate.
  - contradiction.
  - contradiction.
Qed.

Theorem split_roundtrip_full : forall d b r p e st, unambiguous d b r p e = true ->
  exists q, new_fileseq (d ++ b ++ r ++ p ++ e) st = Ok q /\
    q_dir q = d /\ q_base q = b /\ q_frange q = r /\ q_pad q = p /\ q_ext q = e /\
    q_zfill q = padding_chars_size st p /\ q_style q = st /\
    q_string q = d ++ b ++ r ++ p ++ e /\
    q_format_default q = d ++ b ++ r ++ p ++ e /\
    (r = [] -> q_fs q = None) /\
    (r <> [] -> exists f, q_fs q = Some f /\ spec_frames r = Some (fs_frames f)).
Proof.
  intros d b r p e st H.
  destruct (split_roundtrip d b r p e st H) as (q & Hq & Hd & Hb & Hp & He & Hz & Hfs & Hs & Hf & Hst).
  exists q. split; [exact Hq|].
  assert (Hfr : q_frange q = r /\ (r = [] -> q_fs q = None) /\
                (r <> [] -> exists f, q_fs q = Some f /\ spec_frames r = Some (fs_frames f))).
  { destruct r as [|c r'].
    - assert (E : opt_frameset [] = None) by (vm_compute; reflexivity).
      rewrite E in Hfs. unfold q_frange. rewrite Hfs.
      split; [reflexivity|]. split; [intros _; reflexivity | intros X; congruence].
    - destruct (range_ok_parses (c :: r') ltac:(discriminate) (unambiguous_range_ok _ _ _ _ _ H))
        as (f & Hnf & Hsp & Hrg).
      unfold opt_frameset in Hfs. rewrite Hnf in Hfs.
      unfold q_frange. rewrite Hfs. split; [exact Hrg|].
      split; [intros X; discriminate | intros _; exists f; split; [reflexivity | exact Hsp]]. }
  destruct Hfr as (Hfr & Hnone & Hsome).
  repeat split; try assumption.
  - rewrite Hs, Hfr. reflexivity.
  - rewrite Hf, Hs, Hfr. reflexivity.
Qed.
