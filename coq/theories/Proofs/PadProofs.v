(** Proofs about the pad model (C10). *)
From GFS Require Import Base Dec Regex GenRegex GenPadTables Ranges Pad FrameSet Path Seq.
Local Open Scope Z_scope.

Definition pad_byte (c : byte) : Prop := c = 35%nat \/ c = 64%nat.

Lemma udim_no_match : forall s pos, Forall pad_byte s -> rsearch_from R_udimPattern pos s = false.
Proof.
  induction s as [|c s IH]; intros pos H.
  - destruct pos; reflexivity.
  - inversion H as [|? ? Hc Hs]; subst.
    cbn [rsearch_from].
    assert (E: m R_udimPattern pos (c :: s) [] (fun _ _ cs => Some cs) = None).
    { unfold R_udimPattern. destruct Hc; subst c; cbn; destruct (Nat.eqb pos 0); reflexivity. }
    rewrite E. apply IH. exact Hs.
Qed.

Lemma printf_no_match : forall c s, pad_byte c -> alt_pad_size R_printfPattern (c :: s) = None.
Proof.
  intros c s Hc. unfold alt_pad_size, submatches, rmatch, R_printfPattern.
  destruct Hc; subst c; cbn; reflexivity.
Qed.

Lemma houdini_no_match : forall c s, pad_byte c -> alt_pad_size R_houdiniPattern (c :: s) = None.
Proof.
  intros c s Hc. unfold alt_pad_size, submatches, rmatch, R_houdiniPattern.
  destruct Hc; subst c; cbn; reflexivity.
Qed.

(** on a non-empty string of pad bytes the size is the per-character sum *)
Lemma size_is_sum : forall st c s, Forall pad_byte (c :: s) ->
  padding_chars_size st (c :: s) =
  fold_left (fun acc x => acc + table_lookup (char_size_table st) [x]) (c :: s) 0.
Proof.
  intros st c s H. unfold padding_chars_size.
  unfold rsearch. rewrite (udim_no_match _ _ H).
  inversion H as [|? ? Hc Hs]; subst.
  rewrite (printf_no_match c s Hc), (houdini_no_match c s Hc). reflexivity.
Qed.

Lemma fold_sum_repeat : forall st (c : byte) n acc,
  fold_left (fun a x => a + table_lookup (char_size_table st) [x]) (repeat_bytes [c] n) acc
  = acc + Z.of_nat n * table_lookup (char_size_table st) [c].
Proof.
  intros st c n. induction n as [|n IH]; intros acc.
  - cbn. lia.
  - cbn [repeat_bytes app fold_left]. rewrite IH. lia.
Qed.

Lemma forall_repeat : forall (c : byte) n, pad_byte c -> Forall pad_byte (repeat_bytes [c] n).
Proof. intros c n H. induction n; cbn; constructor; assumption. Qed.

Lemma size_repeat : forall st (c : byte) n, pad_byte c -> (0 < n)%nat ->
  padding_chars_size st (repeat_bytes [c] n) = Z.of_nat n * table_lookup (char_size_table st) [c].
Proof.
  intros st c n Hc Hn. destruct n as [|n]; [lia|].
  change (repeat_bytes [c] (S n)) with (c :: repeat_bytes [c] n).
  rewrite size_is_sum.
  - change (c :: repeat_bytes [c] n) with (repeat_bytes [c] (S n)).
    rewrite fold_sum_repeat. lia.
  - constructor; [assumption | apply forall_repeat; assumption].
Qed.

(** C10, first clause: width -> characters -> width, for every width >= 1 *)
Lemma pad_roundtrip_proof : forall st n, 1 <= n ->
  padding_chars_size st (padding_chars st n) = n.
Proof.
  intros st n Hn. destruct st; unfold padding_chars.
  - (* Hash1 *)
    destruct (Z.leb_spec n 0); [lia|].
    change (default_char Hash1) with [35%nat].
    rewrite size_repeat; [|left; reflexivity|lia].
    cbn [char_size_table]. unfold hash1_char_size. cbn [table_lookup beq Nat.eqb andb c_hash c_at].
    rewrite Z2Nat.id; lia.
  - (* Hash4 *)
    destruct (Z.leb_spec n 0); [lia|].
    unfold go_mod, go_div.
    destruct (Z.eqb_spec (Z.rem n 4) 0) as [E|E].
    + rewrite size_repeat; [|left; reflexivity|].
      * cbn [char_size_table]. unfold hash4_char_size. cbn [table_lookup beq Nat.eqb andb c_hash c_at].
        pose proof (Z.quot_rem' n 4). rewrite Z2Nat.id; [lia|].
        apply Z.quot_pos; lia.
      * pose proof (Z.quot_rem' n 4).
        assert (0 < Z.quot n 4) by lia. lia.
    + rewrite size_repeat; [|right; reflexivity|lia].
      cbn [char_size_table]. unfold hash4_char_size. cbn [table_lookup beq Nat.eqb andb c_hash c_at].
      rewrite Z2Nat.id; lia.
Qed.

(** single characters *)
Lemma size_hash : forall st, padding_chars_size st [35%nat] = match st with Hash4 => 4 | Hash1 => 1 end.
Proof. destruct st; vm_compute; reflexivity. Qed.
Lemma size_at : forall st, padding_chars_size st [64%nat] = 1.
Proof. destruct st; vm_compute; reflexivity. Qed.
Lemma size_udim : forall st,
  padding_chars_size st (s2b "<UDIM>") = 4 /\ padding_chars_size st (s2b "%(UDIM)d") = 4.
Proof. destruct st; vm_compute; split; reflexivity. Qed.

(** C10, last clause: switching the style keeps the width, hence every frame path *)
Lemma style_switch_keeps_width_proof : forall q st, 1 <= q_zfill q ->
  q_zfill (set_padding_style q st) = q_zfill q.
Proof.
  intros q st H. unfold set_padding_style, set_padding. cbn [q_zfill q_style].
  apply pad_roundtrip_proof. exact H.
Qed.

Lemma style_switch_keeps_paths_proof : forall q st, 1 <= q_zfill q ->
  forall f, q_frame_int (set_padding_style q st) f = q_frame_int q f.
Proof.
  intros q st H f. unfold q_frame_int.
  rewrite style_switch_keeps_width_proof by exact H.
  unfold set_padding_style, set_padding. cbn. reflexivity.
Qed.
