(** The guards of the anchored panic sites carry a proof.

    For each site of Model/Checked.v:

    - [<site>_guard_suffices]: for ALL inputs the checked variant (Go's guard
      in front of a primitive that panics like Go's) returns [Ok] of what the
      unchecked model function computes.  So it never returns [Panic], and
      every theorem about the unchecked model is a theorem about the checked
      one.
    - [<site>_guard_needed]: the same text with the guard deleted returns
      [Panic <site>] on a concrete input (by computation), both at the clause
      and, where there is one, at the public entry point.  The first theorem
      would be false without the guard; it is not vacuous.
    - where it is cheap, [<site>_guard_exact]: the unguarded text panics on
      exactly the inputs the guard turns away, i.e. the Go guard is neither
      weaker nor stronger than the run-time check needs.

    Every [guard_needed] witness below was also run against the Go code at
    HEAD and against HEAD with the quoted lines deleted (go test / seqinfo):
    HEAD returns, the edited code panics with "slice bounds out of range
    [2:1]" (a1), "index out of range [-1]" (a2, both guards), "index out of
    range [3] with length 3" (b), "nil pointer dereference" (c unguarded
    walk, d, e). *)
From GFS Require Import Base Dec Regex GenRegex GenPadTables Ranges Pad FrameSet Compress Path Seq
  Listing Seqinfo Checked TotalProofs SetterProofs SeqinfoProofs.
Local Open Scope Z_scope.

(** * The checked primitives *)

Lemma slice_chk_ok : forall site s lo hi, (lo <= hi)%nat -> (hi <= List.length s)%nat ->
  slice_chk site s lo hi = Ok (slice s lo hi).
Proof.
  intros site s lo hi H1 H2. unfold slice_chk.
  apply Nat.leb_le in H1. apply Nat.leb_le in H2. rewrite H1, H2. reflexivity.
Qed.

Lemma slice_chk_cases : forall site s lo hi,
  (slice_chk site s lo hi = Ok (slice s lo hi) /\ (lo <= hi <= List.length s)%nat) \/
  (slice_chk site s lo hi = Panic site /\ ~ (lo <= hi <= List.length s)%nat).
Proof.
  intros site s lo hi. unfold slice_chk.
  destruct (Nat.leb_spec lo hi) as [H1|H1]; destruct (Nat.leb_spec hi (List.length s)) as [H2|H2];
    cbn [andb]; [left | right | right | right]; (split; [reflexivity | lia]).
Qed.

Lemma index_chk_ok : forall site s i, 0 <= i < blen s ->
  index_chk site s i = Ok (nth (Z.to_nat i) s 0%nat).
Proof.
  intros site s i [H1 H2]. unfold index_chk.
  apply Z.leb_le in H1. apply Z.ltb_lt in H2. rewrite H1, H2. reflexivity.
Qed.

Lemma index_chk_panic : forall site s i, i < 0 \/ blen s <= i -> index_chk site s i = Panic site.
Proof.
  intros site s i H. unfold index_chk.
  destruct (Z.leb_spec 0 i) as [H1|H1]; destruct (Z.ltb_spec i (blen s)) as [H2|H2];
    cbn [andb]; try reflexivity. lia.
Qed.

Lemma nth_chk_ok : forall site l k, (k < List.length l)%nat -> nth_chk site l k = Ok (nth k l 0).
Proof.
  intros site l k H. unfold nth_chk.
  destruct (nth_error l k) as [v|] eqn:E.
  - rewrite (nth_error_nth l k 0 E). reflexivity.
  - apply nth_error_None in E. lia.
Qed.

Lemma nth_chk_panic : forall site l k, (List.length l <= k)%nat -> nth_chk site l k = Panic site.
Proof.
  intros site l k H. unfold nth_chk. apply nth_error_None in H. rewrite H. reflexivity.
Qed.

Lemma tail_chk_ok : forall site l k, (k <= List.length l)%nat -> tail_chk site l k = Ok (skipn k l).
Proof. intros site l k H. unfold tail_chk. apply Nat.leb_le in H. rewrite H. reflexivity. Qed.

Lemma deref_chk_some : forall A site (a : A), deref_chk site (Some a) = Ok a.
Proof. reflexivity. Qed.

(** * (a1) the template slice of findSequencesInList *)

(** Go's guard is EXACTLY the run-time check of line 781: the slice panics if
    and only if the name is shorter than basename plus extension.  (The
    HasPrefix/HasSuffix test of line 774 plays no part in safety.) *)
Lemma template_slice_guard_exact : forall name base ext : bytes,
  (blen name <? blen base + blen ext) = false <->
  slice_chk_int Site_template_slice name (blen base) (blen name - blen ext)
  = Ok (slice name (List.length base) (List.length name - List.length ext)).
Proof.
  intros name base ext. unfold slice_chk_int, blen. split.
  - intros H. apply Z.ltb_ge in H.
    destruct (Z.ltb_spec (Z.of_nat (List.length base)) 0) as [H0|H0]; [lia|].
    destruct (Z.ltb_spec (Z.of_nat (List.length name) - Z.of_nat (List.length ext)) 0) as [H1|H1]; [lia|].
    cbn [orb].
    replace (Z.to_nat (Z.of_nat (List.length base))) with (List.length base) by lia.
    replace (Z.to_nat (Z.of_nat (List.length name) - Z.of_nat (List.length ext)))
      with (List.length name - List.length ext)%nat by lia.
    apply slice_chk_ok; lia.
  - intros H. apply Z.ltb_ge.
    destruct (Z.ltb_spec (Z.of_nat (List.length base)) 0) as [H0|H0]; [lia|].
    destruct (Z.ltb_spec (Z.of_nat (List.length name) - Z.of_nat (List.length ext)) 0) as [H1|H1];
      cbn [orb] in H; [discriminate|].
    destruct (slice_chk_cases Site_template_slice name (Z.to_nat (Z.of_nat (List.length base)))
                (Z.to_nat (Z.of_nat (List.length name) - Z.of_nat (List.length ext))))
      as [[_ B]|[E _]]; [lia | rewrite E in H; discriminate].
Qed.

Theorem template_slice_guard_suffices : forall o tmpl it,
  classify_chk o tmpl it = Ok (classify o tmpl it).
Proof.
  intros o tmpl it. unfold classify_chk, classify. cbv zeta.
  destruct (negb (o_hidden o) && has_prefix (fi_name it) [c_dot]); [reflexivity|].
  destruct tmpl as [t|]; [|reflexivity].
  destruct (negb (has_prefix (fi_name it) (q_base t) && has_suffix (fi_name it) (q_ext t))); [reflexivity|].
  destruct (blen (fi_name it) <? blen (q_base t) + blen (q_ext t)) eqn:G; [reflexivity|].
  apply template_slice_guard_exact in G. rewrite G. cbn [bind].
  destruct (negb _); [reflexivity|].
  destruct (atoi _); reflexivity.
Qed.

(** the template "a.#.a" (basename "a.", extension ".a") and the file "a.a":
    prefix and suffix overlap, Go would evaluate "a.a"[2:1] *)
Example template_slice_guard_needed :
  (* at the clause *)
  classify_unguarded (mkLO false false Hash4)
     (Some (mkQ [] (s2b "ab") (s2b "ba") (s2b "#") 4 None Hash4)) (mkItem [] (s2b "aba"))
  = Panic Site_template_slice /\
  (* at findSequencesInList, with the template NewFileSequencePad gives for "a.#.a" *)
  (exists t, new_fileseq (s2b "a.#.a") Hash4 = Ok t /\
     find_items_with classify_unguarded single_frame_pad_chk frames_to_frame_range_chk
        [mkItem [] (s2b "a.a")] [] (Some t) = Panic Site_template_slice /\
     find_items_chk [mkItem [] (s2b "a.a")] [] (Some t) = Ok []).
Proof.
  split; [vm_compute; reflexivity|].
  eexists. split; [vm_compute; reflexivity|]. split; vm_compute; reflexivity.
Qed.

(** * (a2) the byte in front of the frame, single-frame branch *)

Lemma blen_rev : forall s : bytes, blen (rev s) = blen s.
Proof. intros s. unfold blen. rewrite rev_length. reflexivity. Qed.

(** [base[len(base)-(k+1)]] is byte [k] from the end, when there is one *)
Lemma index_from_end : forall site (base : bytes) k, (k < List.length base)%nat ->
  index_chk site base (blen base - Z.of_nat (S k)) = Ok (nth k (rev base) 0%nat).
Proof.
  intros site base k H. unfold blen. rewrite index_chk_ok by (unfold blen; lia).
  f_equal.
  replace (Z.to_nat (Z.of_nat (List.length base) - Z.of_nat (S k)))
    with (List.length base - S k)%nat by lia.
  pose proof (@rev_nth _ (rev base) 0%nat (List.length base - S k)%nat) as R.
  rewrite rev_involutive, rev_length in R. rewrite R by lia.
  f_equal. lia.
Qed.

Lemma beq_nil_r : forall s : bytes, beq s [] = match s with [] => true | _ => false end.
Proof. intros [|c r]; reflexivity. Qed.

Lemma has_suffix_minus : forall base : bytes,
  has_suffix base [c_minus] = match rev base with c :: _ => Nat.eqb c 45 | [] => false end.
Proof.
  intros base. unfold has_suffix. change (rev [c_minus]) with [45%nat].
  destruct (rev base) as [|c r]; [reflexivity|].
  destruct r; cbn [has_prefix]; rewrite andb_true_r; apply Nat.eqb_sym.
Qed.

Theorem single_frame_index_guard_suffices : forall base padding,
  single_frame_pad_chk base padding = Ok (single_frame_pad base padding).
Proof.
  intros base padding. unfold single_frame_pad_chk, single_frame_pad.
  rewrite beq_nil_r. destruct base as [|b0 br]; [reflexivity|].
  cbn [negb]. set (base := b0 :: br).
  unfold last_byte_is_digit_before. rewrite has_suffix_minus. rewrite <- (blen_rev base).
  assert (Hlen : List.length (rev base) = List.length base) by apply rev_length.
  assert (Hidx : forall k, (k < List.length (rev base))%nat ->
            index_chk Site_single_frame_index base (blen (rev base) - Z.of_nat (S k))
            = Ok (nth k (rev base) 0%nat)).
  { intros k Hk. rewrite blen_rev. apply index_from_end. lia. }
  pose proof (Hidx 0%nat) as I0. pose proof (Hidx 1%nat) as I1. clear Hidx.
  change (Z.of_nat 1) with 1 in I0. change (Z.of_nat 2) with 2 in I1.
  destruct (rev base) as [|c r] eqn:E.
  { exfalso. subst base. cbn [List.length] in Hlen. discriminate. }
  change c_minus with 45%nat.
  destruct r as [|d r'].
  - (* one byte: pos = 1 whatever it is *)
    assert (H2 : (2 <=? blen [c]) = false) by reflexivity.
    rewrite H2, andb_false_r.
    rewrite I0 by (cbn [List.length]; lia). cbn [bind nth]. reflexivity.
  - assert (H2 : (2 <=? blen (c :: d :: r')) = true).
    { apply Z.leb_le. unfold blen. cbn [List.length]. lia. }
    rewrite H2, andb_true_r.
    destruct (Nat.eqb c 45).
    + rewrite I1 by (cbn [List.length]; lia). cbn [bind nth]. reflexivity.
    + rewrite I0 by (cbn [List.length]; lia). cbn [bind nth]. reflexivity.
Qed.

(** both guards are exact: each unguarded text panics on precisely the base
    names its guard turns away, and is the checked text everywhere else *)
Lemma single_frame_index_guard1_exact : forall base padding,
  (base = [] -> single_frame_pad_unguarded base padding = Panic Site_single_frame_index) /\
  (base <> [] -> single_frame_pad_unguarded base padding = single_frame_pad_chk base padding).
Proof.
  intros base padding. split.
  - intros ->. vm_compute. reflexivity.
  - intros H. unfold single_frame_pad_chk. rewrite beq_nil_r.
    destruct base; [congruence | reflexivity].
Qed.

Lemma single_frame_index_guard2_exact : forall base padding,
  (base = [c_minus] -> single_frame_pad_unguarded2 base padding = Panic Site_single_frame_index) /\
  (base <> [c_minus] -> single_frame_pad_unguarded2 base padding = single_frame_pad_chk base padding).
Proof.
  intros base padding. split.
  - intros ->. vm_compute. reflexivity.
  - intros H. unfold single_frame_pad_unguarded2, single_frame_pad_chk.
    destruct (negb (beq base [])); [|reflexivity].
    destruct (has_suffix base [c_minus]) eqn:S; [|reflexivity].
    destruct (Z.leb_spec 2 (blen base)) as [L|L]; [reflexivity|].
    exfalso. apply H. unfold blen in L.
    destruct base as [|x [|y r]]; [vm_compute in S; discriminate | | cbn [List.length] in L; lia].
    rewrite has_suffix_minus in S. cbn [rev app] in S.
    apply Nat.eqb_eq in S. subst x. reflexivity.
Qed.

(** "1.exr" has an empty basename; "--1.exr" has basename "-" (frame "-1") *)
Example single_frame_index_guard_needed :
  single_frame_pad_unguarded [] (s2b "#") = Panic Site_single_frame_index /\
  single_frame_pad_unguarded2 (s2b "-") (s2b "#") = Panic Site_single_frame_index /\
  (* at findSequencesInList *)
  find_items_with classify_chk single_frame_pad_unguarded frames_to_frame_range_chk
     [mkItem [] (s2b "1.exr")] [] None = Panic Site_single_frame_index /\
  find_items_with classify_chk single_frame_pad_unguarded2 frames_to_frame_range_chk
     [mkItem [] (s2b "--1.exr")] [] None = Panic Site_single_frame_index /\
  is_ok (find_items_chk [mkItem [] (s2b "1.exr")] [] None) = true /\
  is_ok (find_items_chk [mkItem [] (s2b "--1.exr")] [] None) = true.
Proof. repeat split; vm_compute; reflexivity. Qed.

(** * (b) FramesToFrameRange *)

Theorem f2r_lookahead_guard_suffices : forall i frames,
  f2r_better_chk i frames = Ok (f2r_better i frames).
Proof.
  intros i frames. unfold f2r_better_chk, f2r_better.
  destruct i as [|[|i]]; cbn [Nat.eqb andb]; try reflexivity.
  destruct (Z.ltb_spec 3 (Z.of_nat (List.length frames))) as [H|H].
  - destruct frames as [|a [|b [|c [|d r]]]]; cbn [List.length] in H; try lia. reflexivity.
  - destruct frames as [|a [|b [|c [|d r]]]]; cbn [List.length] in H; try lia; reflexivity.
Qed.

(** the guard is exact: without it the look-ahead panics exactly when the
    scan stopped after one pair in a window of fewer than four *)
Lemma f2r_lookahead_guard_exact : forall i frames,
  (i = 1%nat /\ (List.length frames <= 3)%nat ->
   f2r_better_unguarded i frames = Panic Site_f2r_lookahead) /\
  (~ (i = 1%nat /\ (List.length frames <= 3)%nat) ->
   f2r_better_unguarded i frames = f2r_better_chk i frames).
Proof.
  intros i frames. split.
  - intros [-> H]. unfold f2r_better_unguarded. cbn [Nat.eqb].
    destruct frames as [|a [|b [|c [|d r]]]]; cbn [List.length] in H; try lia; reflexivity.
  - intros H. unfold f2r_better_unguarded, f2r_better_chk.
    destruct (Nat.eqb_spec i 1) as [->|Hi]; [|reflexivity]. cbn [andb].
    destruct (Z.ltb_spec 3 (Z.of_nat (List.length frames))) as [L|L]; [reflexivity|].
    exfalso. apply H. split; [reflexivity | lia].
Qed.

Lemma run_pairs_lt : forall step l, l <> [] -> (run_pairs step l < List.length l)%nat.
Proof.
  intros step l. induction l as [|a r IH]; [congruence|]. intros _.
  destruct r as [|b r']; [cbn; lia|].
  change (run_pairs step (a :: b :: r')) with (if b - a =? step then S (run_pairs step (b :: r')) else O).
  destruct (b - a =? step); [|cbn [List.length]; lia].
  assert (H : (run_pairs step (b :: r') < List.length (b :: r'))%nat) by (apply IH; discriminate).
  cbn [List.length] in *. lia.
Qed.

Lemma f2r_loop_with_S3 : forall better fuel f0 f1 f2 r z buf,
  f2r_loop_with better (S fuel) (f0 :: f1 :: f2 :: r) z buf =
  let frames := f0 :: f1 :: f2 :: r in
  do g1 <- nth_chk Site_f2r_window frames 1;
  do g0 <- nth_chk Site_f2r_window frames 0;
  let step := g1 - g0 in
  let i := run_pairs step frames in
  let buf := sep_if_nonempty buf in
  match i with
  | O =>
    do f0' <- nth_chk Site_f2r_window frames 0;
    do rest <- tail_chk Site_f2r_window frames 1;
    f2r_loop_with better fuel rest z (buf ++ zfill_int f0' z)
  | _ =>
    do b <- better i frames;
    if b then
      do f0' <- nth_chk Site_f2r_window frames 0;
      do rest <- tail_chk Site_f2r_window frames 1;
      f2r_loop_with better fuel rest z (buf ++ zfill_int f0' z)
    else
      do f0' <- nth_chk Site_f2r_window frames 0;
      do last <- nth_chk Site_f2r_window frames i;
      let buf := buf ++ zfill_int f0' z ++ c_minus :: zfill_int last z in
      let buf := if (step >? 1) || (step <? -1) then buf ++ c_x :: itoa step else buf in
      do rest <- tail_chk Site_f2r_window frames (S i);
      f2r_loop_with better fuel rest z buf
  end.
Proof. reflexivity. Qed.

(** [CompressProofs.f2r_loop_S3] with the look-ahead named *)
Lemma f2r_loop_S3_better : forall fuel f0 f1 f2 r z buf,
  f2r_loop (S fuel) (f0 :: f1 :: f2 :: r) z buf =
  let frames := f0 :: f1 :: f2 :: r in
  let step := f1 - f0 in
  let i := run_pairs step frames in
  let buf := sep_if_nonempty buf in
  match i with
  | O => f2r_loop fuel (skipn 1 frames) z (buf ++ zfill_int f0 z)
  | _ =>
    if f2r_better i frames then f2r_loop fuel (skipn 1 frames) z (buf ++ zfill_int f0 z)
    else
      let last := nth i frames 0 in
      let buf := buf ++ zfill_int f0 z ++ c_minus :: zfill_int last z in
      let buf := if (step >? 1) || (step <? -1) then buf ++ c_x :: itoa step else buf in
      f2r_loop fuel (skipn (S i) frames) z buf
  end.
Proof. reflexivity. Qed.

(** the window loop with every index checked is the model's loop, for any
    look-ahead clause that agrees with the model's *)
Lemma f2r_loop_with_eq : forall better,
  (forall i frames, better i frames = Ok (f2r_better i frames)) ->
  forall fuel frames z buf, f2r_loop_with better fuel frames z buf = f2r_loop fuel frames z buf.
Proof.
  intros better Hb fuel. induction fuel as [|fuel IH]; intros frames z buf; [reflexivity|].
  destruct frames as [|f0 [|f1 [|f2 r]]]; try reflexivity.
  rewrite f2r_loop_with_S3, f2r_loop_S3_better. cbv zeta.
  set (frames := f0 :: f1 :: f2 :: r).
  change (nth_chk Site_f2r_window frames 1) with (@Ok Z f1).
  change (nth_chk Site_f2r_window frames 0) with (@Ok Z f0).
  cbn [bind].
  assert (Hlen : (3 <= List.length frames)%nat) by (subst frames; cbn [List.length]; lia).
  pose proof (run_pairs_lt (f1 - f0) frames ltac:(subst frames; discriminate)) as Hlt.
  destruct (run_pairs (f1 - f0) frames) as [|n] eqn:Ei.
  - rewrite tail_chk_ok by lia. cbn [bind]. apply IH.
  - rewrite Hb. cbn [bind].
    destruct (f2r_better (S n) frames).
    + rewrite tail_chk_ok by lia. cbn [bind]. apply IH.
    + rewrite nth_chk_ok by lia. cbn [bind]. rewrite tail_chk_ok by lia. cbn [bind]. apply IH.
Qed.

Lemma frames_to_frame_range_with_eq : forall better,
  (forall i frames, better i frames = Ok (f2r_better i frames)) ->
  forall frames sorted z,
  frames_to_frame_range_with better frames sorted z = frames_to_frame_range frames sorted z.
Proof.
  intros better Hb frames sorted z. unfold frames_to_frame_range_with, frames_to_frame_range.
  destruct frames as [|a [|b r]]; try reflexivity. apply f2r_loop_with_eq. exact Hb.
Qed.

(** FramesToFrameRange with all its indices checked returns, for EVERY list,
    the string of the unchecked model *)
Theorem f2r_guard_suffices : forall frames sorted z,
  frames_to_frame_range_chk frames sorted z = frames_to_frame_range frames sorted z /\
  exists s, frames_to_frame_range_chk frames sorted z = Ok s.
Proof.
  intros frames sorted z.
  assert (E : frames_to_frame_range_chk frames sorted z = frames_to_frame_range frames sorted z)
    by (apply frames_to_frame_range_with_eq; exact f2r_lookahead_guard_suffices).
  split; [exact E|]. rewrite E. apply f2r_total.
Qed.

(** 1,2,4: the scan stops after one pair and the window has three frames; Go
    would evaluate frames[3] *)
Example f2r_lookahead_guard_needed :
  f2r_better_unguarded 1 [1; 2; 4] = Panic Site_f2r_lookahead /\
  frames_to_frame_range_unguarded [1; 2; 4] true 0 = Panic Site_f2r_lookahead /\
  frames_to_frame_range_chk [1; 2; 4] true 0 = Ok (s2b "1-2,4") /\
  (* at findSequencesInList *)
  find_items_with classify_chk single_frame_pad_chk frames_to_frame_range_unguarded
     [mkItem [] (s2b "a.1.exr"); mkItem [] (s2b "a.2.exr"); mkItem [] (s2b "a.4.exr")] [] None
  = Panic Site_f2r_lookahead.
Proof. repeat split; vm_compute; reflexivity. Qed.

(** * findSequencesInList with all three sites checked is the model's *)

Lemma collect_with_eq : forall cls,
  (forall o tmpl it, cls o tmpl it = Ok (classify o tmpl it)) ->
  forall o tmpl items seqs files,
  collect_with cls o tmpl items seqs files = Listing.collect o tmpl items seqs files.
Proof.
  intros cls Hc o tmpl items. induction items as [|it rest IH]; intros seqs files; [reflexivity|].
  cbn [collect_with Listing.collect]. rewrite Hc. cbn [bind].
  destruct (classify o tmpl it) as [|base frame ext|key frame].
  - apply IH.
  - destruct (o_single o); [|apply IH].
    destruct (new_fileseq (fi_dir it ++ fi_name it) (o_style o)); cbn [bind]; try reflexivity. apply IH.
  - apply IH.
Qed.

Lemma group_walk_with_eq : forall f2r,
  (forall l s z, f2r l s z = frames_to_frame_range l s z) ->
  forall o dir base ext fis cur_w pad frames out,
  group_walk_with f2r o dir base ext fis cur_w pad frames out
  = group_walk o dir base ext fis cur_w pad frames out.
Proof.
  intros f2r Hf o dir base ext fis. induction fis as [|fi rest IH]; intros cur_w pad frames out.
  - cbn [group_walk_with group_walk]. destruct frames; [reflexivity|]. rewrite Hf. reflexivity.
  - cbn [group_walk_with group_walk]. rewrite Hf.
    destruct (negb (blen (f_text fi) =? cur_w) && (f_minw fi >? cur_w)); [|apply IH].
    destruct (frames_to_frame_range frames true 0); cbn [bind]; try reflexivity.
    destruct (append_seq o dir base a pad ext); cbn [bind]; try reflexivity. apply IH.
Qed.

Lemma emit_bucket_with_eq : forall padf f2r,
  (forall b p, padf b p = Ok (single_frame_pad b p)) ->
  (forall l s z, f2r l s z = frames_to_frame_range l s z) ->
  forall o k s, emit_bucket_with padf f2r o k s = emit_bucket o k s.
Proof.
  intros padf f2r Hp Hf o [[dir base] ext] s. unfold emit_bucket_with, emit_bucket.
  destruct (s_frames s) as [|fi [|fi2 r]]; [reflexivity| |].
  - rewrite Hp. cbn [bind]. unfold single_frame_pad. reflexivity.
  - destruct (fi_sort (fi :: fi2 :: r)); [reflexivity|]. apply group_walk_with_eq. exact Hf.
Qed.

Lemma emit_all_with_eq : forall padf f2r,
  (forall b p, padf b p = Ok (single_frame_pad b p)) ->
  (forall l s z, f2r l s z = frames_to_frame_range l s z) ->
  forall o m, emit_all_with padf f2r o m = emit_all o m.
Proof.
  intros padf f2r Hp Hf o m. induction m as [|[k s] r IH]; [reflexivity|].
  cbn [emit_all_with emit_all]. rewrite (emit_bucket_with_eq padf f2r Hp Hf), IH. reflexivity.
Qed.

Theorem find_items_chk_eq : forall items opts tmpl,
  find_items_chk items opts tmpl = find_items items opts tmpl.
Proof.
  intros items opts tmpl. unfold find_items_chk, find_items_with, find_items. cbv zeta.
  rewrite (collect_with_eq classify_chk template_slice_guard_suffices).
  destruct (Listing.collect _ tmpl items [] []) as [[seqs files]|e|n|]; cbn [bind]; try reflexivity.
  rewrite (emit_all_with_eq single_frame_pad_chk frames_to_frame_range_chk
             single_frame_index_guard_suffices (fun l s z => proj1 (f2r_guard_suffices l s z))).
  reflexivity.
Qed.

(** so the checked listing never panics (and never runs out of fuel), by the
    existing totality theorem of the unchecked one *)
Corollary find_items_chk_total : forall items opts tmpl, total (find_items_chk items opts tmpl).
Proof. intros. rewrite find_items_chk_eq. apply find_items_total. Qed.

(** * (c) the parts of Split *)

Definition walk_guarded {A} (use : fileseq -> A) (p : option fileseq) : outcome (list A) :=
  match p with
  | None => Ok []
  | Some _ => do c <- deref_chk Site_split_nil p; Ok [use c]
  end.
Definition walk_unguarded {A} (use : fileseq -> A) (p : option fileseq) : outcome (list A) :=
  do c <- deref_chk Site_split_nil p; Ok [use c].

Lemma each_part_guarded : forall A (use : fileseq -> A) parts,
  each_part (walk_guarded use) parts
  = Ok (flat_map (fun p => match p with Some c => [use c] | None => [] end) parts).
Proof.
  intros A use parts. induction parts as [|[c|] r IH]; [reflexivity| |];
    cbn [each_part walk_guarded deref_chk bind flat_map]; rewrite IH; reflexivity.
Qed.

Lemma each_part_all_some : forall A (use : fileseq -> A) parts,
  Forall (fun p => exists c, p = Some c) parts ->
  each_part (walk_unguarded use) parts = each_part (walk_guarded use) parts /\
  List.length (flat_map (fun p => match p with Some c => [use c] | None => [] end) parts)
  = List.length parts.
Proof.
  intros A use parts H. induction H as [|p r [c ->] _ [IH1 IH2]]; [split; reflexivity|].
  split.
  - cbn [each_part]. rewrite IH1. reflexivity.
  - cbn [flat_map List.length app]. rewrite IH2. reflexivity.
Qed.

(** the nil test in the loop over Split() suffices, for EVERY sequence *)
Theorem split_guard_suffices : forall A (use : fileseq -> A) q,
  split_walk_chk use q = Ok (split_uses use q).
Proof. intros A use q. exact (each_part_guarded A use (q_split q)). Qed.

(** The other way to be safe is the precondition of C12 ([copy_spec],
    [split_spec]): on a round-trippable sequence every part of Split is
    non-nil, so even the walk WITHOUT the nil test returns, and visits every
    part.  Split itself has no guard; this precondition is what the existing
    Split theorems assume, and outside it (after a setter put a byte into a
    component that the grammar cannot read back) a part can be nil. *)
Lemma split_parts_some : forall q, roundtrippable q ->
  Forall (fun p => exists c, p = Some c) (q_split q).
Proof.
  intros q Hrt. destruct (q_fs q) as [f|] eqn:Hf.
  - destruct (split_spec q f Hrt Hf) as (_ & HF & _).
    eapply Forall_impl; [|exact HF]. cbv beta. intros p (c & Hc & _). exists c. exact Hc.
  - destruct (copy_spec q Hrt) as (c & Hc & _).
    unfold q_split. rewrite Hf. constructor; [|constructor]. exists c. exact Hc.
Qed.

Theorem split_domain_suffices : forall A (use : fileseq -> A) q, roundtrippable q ->
  split_walk_unguarded use q = Ok (split_uses use q) /\
  List.length (split_uses use q) = List.length (q_split q).
Proof.
  intros A use q Hrt.
  destruct (each_part_all_some A use (q_split q) (split_parts_some q Hrt)) as [E L].
  split; [|exact L].
  unfold split_walk_unguarded. fold (walk_unguarded use). rewrite E. apply each_part_guarded.
Qed.

(** NewFileSequence("foo.1,3#.exr"), SetBasename("b\n@"), Split(): neither
    "b\n@1#.exr" nor "b\n@3#.exr" parses ('.' of the pattern does not match a
    newline, and a pad character is present), both parts are nil, and so is
    Copy() *)
Example split_guard_needed :
  let q := set_basename (ex_seq (s2b "foo.1,3#.exr") Hash4) [98; 10; 64]%nat in
  q_split q = [None; None] /\ q_copy q = None /\
  split_walk_unguarded q_frange q = Panic Site_split_nil /\
  split_walk_chk q_frange q = Ok [].
Proof. repeat split; vm_compute; reflexivity. Qed.

(** * (d) padders[style] *)

Lemma padder_fallback : forall style,
  match padders_lookup style with Some p => Some p | None => default_padding end
  = Some (style_of_int style).
Proof.
  intros style. unfold padders_lookup, default_padding, style_of_int.
  destruct (style =? K_PadStyleHash1); [reflexivity|].
  destruct (style =? K_PadStyleHash4); reflexivity.
Qed.

Theorem padder_guard_suffices : forall style,
  (forall q, set_padding_style_chk q style = Ok (set_padding_style q style)) /\
  (forall sequence, new_fileseq_pad_chk sequence style = new_fileseq sequence (style_of_int style)).
Proof.
  intros style. split.
  - intros q. unfold set_padding_style_chk, set_padding_style. cbv zeta.
    rewrite padder_fallback. reflexivity.
  - intros sequence. unfold new_fileseq_pad_chk. cbv zeta. rewrite padder_fallback. reflexivity.
Qed.

(** the guard is exact: the fallback is taken, and needed, for precisely the
    styles that are not keys of the map *)
Lemma padder_guard_exact : forall q style,
  (style <> K_PadStyleHash1 /\ style <> K_PadStyleHash4 ->
   set_padding_style_unguarded q style = Panic Site_padder_nil) /\
  (style = K_PadStyleHash1 \/ style = K_PadStyleHash4 ->
   set_padding_style_unguarded q style = set_padding_style_chk q style).
Proof.
  intros q style. unfold set_padding_style_unguarded, set_padding_style_chk, padders_lookup. cbv zeta.
  split.
  - intros [H1 H4]. apply Z.eqb_neq in H1. apply Z.eqb_neq in H4. rewrite H1, H4. reflexivity.
  - intros [->| ->]; reflexivity.
Qed.

Example padder_guard_needed :
  set_padding_style_unguarded (ex_seq (s2b "foo.1-3#.exr") Hash4) 7 = Panic Site_padder_nil /\
  new_fileseq_pad_unguarded (s2b "foo.1-3#.exr") 7 = Panic Site_padder_nil /\
  is_ok (set_padding_style_chk (ex_seq (s2b "foo.1-3#.exr") Hash4) 7) = true /\
  is_ok (new_fileseq_pad_chk (s2b "foo.1-3#.exr") 7) = true.
Proof. repeat split; vm_compute; reflexivity. Qed.

(** sequence.go:738 has no fallback and needs none: the three constants
    findSequencesInList can look up are all keys; and [defaultPadding] itself
    (pad.go:32) is not nil *)
Lemma listing_padder_lookup_total :
  Forall (fun style => exists st, padders_lookup style = Some st) listing_styles /\
  default_padding = Some default_style.
Proof. split; [repeat constructor; eexists; reflexivity | reflexivity]. Qed.

(** * (e) cmd/seqinfo: the re-parse of a frame path *)

(** Go's guard tests [err], the dereference needs [fs]: they agree because
    NewFileSequencePad returns either [(nil, err)] or [(seq, nil)] *)
Lemma new_fileseq_pair_contract : forall path st fs err,
  new_fileseq_pair path st = Ok (fs, err) -> (err = true <-> fs = None).
Proof.
  intros path st fs err. unfold new_fileseq_pair.
  destruct (new_fileseq path st); intros H; inversion H; subst; split; congruence.
Qed.

Theorem reparse_guard_suffices : forall path st,
  reparse_frame_chk path st = reparse_frame path st /\
  exists v, reparse_frame_chk path st = Ok v.
Proof.
  intros path st.
  assert (E : reparse_frame_chk path st = reparse_frame path st).
  { unfold reparse_frame_chk, reparse_frame, new_fileseq_pair.
    destruct (new_fileseq path st); reflexivity. }
  split; [exact E|]. rewrite E.
  pose proof (reparse_frame_total path st) as T. unfold reparse_frame in *.
  destruct (new_fileseq path st); cbn [total] in T; try contradiction; eexists; reflexivity.
Qed.

Lemma run_stage_chk_eq : forall st o refmt s q,
  run_stage_with reparse_frame_chk st o refmt s q = run_stage st o refmt s q.
Proof.
  intros st o refmt s q. destruct s; try reflexivity; cbn [run_stage_with run_stage].
  - destruct (so_index o); [|reflexivity]. destruct (q_index q z); [reflexivity|].
    apply reparse_guard_suffices.
  - destruct (so_frame o); [|reflexivity]. apply reparse_guard_suffices.
Qed.

Lemma run_stages_chk_eq : forall st o refmt pl q,
  run_stages_with reparse_frame_chk st o refmt pl q = run_stages st o refmt pl q.
Proof.
  intros st o refmt pl. induction pl as [|s rest IH]; intros q; [reflexivity|].
  cbn [run_stages_with run_stages]. rewrite run_stage_chk_eq.
  destruct (run_stage st o refmt s q) as [[q'|]|e|n|]; cbn [bind]; try reflexivity. apply IH.
Qed.

(** the whole option pipeline, in any stage order, and [parse] itself *)
Theorem seqinfo_run_chk_eq : forall pl pattern o refmt,
  seqinfo_run_chk pl pattern o refmt = seqinfo_run pl pattern o refmt.
Proof.
  intros pl pattern o refmt. unfold seqinfo_run_chk, seqinfo_run_with, seqinfo_run. cbv zeta.
  destruct (new_fileseq pattern _); try reflexivity. rewrite run_stages_chk_eq. reflexivity.
Qed.

Corollary seqinfo_parse_chk_total : forall pattern o refmt,
  seqinfo_run_chk reference_pipeline pattern o refmt = seqinfo_parse pattern o refmt /\
  exists r, seqinfo_run_chk reference_pipeline pattern o refmt = Ok r.
Proof.
  intros pattern o refmt. rewrite seqinfo_run_chk_eq. split.
  - apply seqinfo_run_reference.
  - apply seqinfo_run_total.
Qed.

(** seqinfo --basename "b\n@" --frame 2 /a/foo.1-3#.exr: the frame path
    "/a/b\n@0002.exr" does not parse back *)
Example reparse_guard_needed :
  reparse_frame_unguarded [98; 10; 64; 50]%nat Hash4 = Panic Site_seqinfo_nil /\
  reparse_frame_chk [98; 10; 64; 50]%nat Hash4 = Ok None /\
  seqinfo_run_with reparse_frame_unguarded reference_pipeline (s2b "/a/foo.1-3#.exr")
     (mkSO [] [98; 10; 64]%nat [] [] [] false false false None (Some 2)) None
  = Panic Site_seqinfo_nil /\
  seqinfo_run_chk reference_pipeline (s2b "/a/foo.1-3#.exr")
     (mkSO [] [98; 10; 64]%nat [] [] [] false false false None (Some 2)) None
  = Ok (err_result (s2b "/a/foo.1-3#.exr")).
Proof. repeat split; vm_compute; reflexivity. Qed.

(** * Summary *)

(** every anchored panic site is guarded: for all inputs the checked variant
    returns [Ok] of the unchecked model's value (sites a-d), or the unchecked
    model's own outcome, which is an [Ok] (sites b at function level, and e) *)
Theorem anchored_panic_sites_are_guarded :
  (* a1  sequence.go:777-781 *)
  (forall o tmpl it, classify_chk o tmpl it = Ok (classify o tmpl it)) /\
  (* a2  sequence.go:907-916 *)
  (forall base padding, single_frame_pad_chk base padding = Ok (single_frame_pad base padding)) /\
  (* b   fileseq.go:189-192, and every other index of the loop *)
  (forall i frames, f2r_better_chk i frames = Ok (f2r_better i frames)) /\
  (forall frames sorted z,
     frames_to_frame_range_chk frames sorted z = frames_to_frame_range frames sorted z /\
     exists s, frames_to_frame_range_chk frames sorted z = Ok s) /\
  (* c   the walk over Split() with its nil test *)
  (forall A (use : fileseq -> A) q, split_walk_chk use q = Ok (split_uses use q)) /\
  (* d   sequence.go:467-472 and 82-85 *)
  (forall style,
     (forall q, set_padding_style_chk q style = Ok (set_padding_style q style)) /\
     (forall sequence, new_fileseq_pad_chk sequence style = new_fileseq sequence (style_of_int style))) /\
  (* e   cmd/seqinfo/seqinfo.go:270-275, 280-285 *)
  (forall path st,
     reparse_frame_chk path st = reparse_frame path st /\ exists v, reparse_frame_chk path st = Ok v).
Proof.
  split; [exact template_slice_guard_suffices|].
  split; [exact single_frame_index_guard_suffices|].
  split; [exact f2r_lookahead_guard_suffices|].
  split; [exact f2r_guard_suffices|].
  split; [exact split_guard_suffices|].
  split; [exact padder_guard_suffices|].
  exact reparse_guard_suffices.
Qed.

(** and at the entry points: the checked listing, compression and seqinfo
    pipeline ARE the unchecked ones, so C15 ([TotalProofs]) and every other
    theorem about them speaks about functions whose slices, indices and
    dereferences are checked *)
Theorem checked_entry_points_agree :
  (forall items opts tmpl, find_items_chk items opts tmpl = find_items items opts tmpl) /\
  (forall frames sorted z, frames_to_frame_range_chk frames sorted z = frames_to_frame_range frames sorted z) /\
  (forall pl pattern o refmt, seqinfo_run_chk pl pattern o refmt = seqinfo_run pl pattern o refmt).
Proof.
  split; [exact find_items_chk_eq|].
  split; [exact (fun f s z => proj1 (f2r_guard_suffices f s z)) | exact seqinfo_run_chk_eq].
Qed.

(** ... and each of them fails without its guard *)
Theorem anchored_guards_are_needed :
  (exists o tmpl it, classify_unguarded o tmpl it = Panic Site_template_slice) /\
  (exists base padding, single_frame_pad_unguarded base padding = Panic Site_single_frame_index) /\
  (exists base padding, single_frame_pad_unguarded2 base padding = Panic Site_single_frame_index) /\
  (exists i frames, f2r_better_unguarded i frames = Panic Site_f2r_lookahead) /\
  (exists q, split_walk_unguarded q_frange q = Panic Site_split_nil) /\
  (exists q style, set_padding_style_unguarded q style = Panic Site_padder_nil) /\
  (exists sequence style, new_fileseq_pad_unguarded sequence style = Panic Site_padder_nil) /\
  (exists path st, reparse_frame_unguarded path st = Panic Site_seqinfo_nil).
Proof.
  split; [do 3 eexists; exact (proj1 template_slice_guard_needed)|].
  split; [do 2 eexists; exact (proj1 single_frame_index_guard_needed)|].
  split; [do 2 eexists; exact (proj1 (proj2 single_frame_index_guard_needed))|].
  split; [do 2 eexists; exact (proj1 f2r_lookahead_guard_needed)|].
  split; [eexists; exact (proj1 (proj2 (proj2 split_guard_needed)))|].
  split; [do 2 eexists; exact (proj1 padder_guard_needed)|].
  split; [do 2 eexists; exact (proj1 (proj2 padder_guard_needed))|].
  do 2 eexists; exact (proj1 reparse_guard_needed).
Qed.

Print Assumptions anchored_panic_sites_are_guarded.
Print Assumptions checked_entry_points_agree.
Print Assumptions anchored_guards_are_needed.
Print Assumptions split_domain_suffices.
Print Assumptions template_slice_guard_exact.
Print Assumptions single_frame_index_guard1_exact.
Print Assumptions single_frame_index_guard2_exact.
Print Assumptions f2r_lookahead_guard_exact.
Print Assumptions padder_guard_exact.
Print Assumptions find_items_chk_total.
Print Assumptions seqinfo_parse_chk_total.
