(** Listing, stage D: the buckets collect every visible numbered file once;
    assembly of the exact-cover theorem. *)
From Coq Require Import Permutation Sorted.
From GFS Require Import Base Dec Regex GenRegex GenPadTables Ranges Pad FrameSet Compress Path Seq Listing
  SpecRange SpecSeq RegexKit RangeRegex DecProofs PadProofs SplitProofs CompressProofs Glue
  FramePathProofs SpecListing ListingProofs1 ListingProofs2 ListingProofs3.
Local Open Scope nat_scope.

(** * pad tokens: prefixes, and the stray backslash after the directory *)

Lemma has_prefix_nil : forall s : bytes, has_prefix s [] = true.
Proof. destruct s; reflexivity. Qed.

Lemma has_prefix_app : forall (s b l : bytes), has_prefix s l = true -> has_prefix (s ++ b) l = true.
Proof.
  intros s b l. revert s. induction l as [|a l IH]; intros s H; [apply has_prefix_nil|].
  destruct s as [|c s]; [discriminate H|]. cbn [has_prefix app] in *.
  apply andb_true_iff in H. destruct H as [H1 H2]. rewrite H1, (IH s H2). reflexivity.
Qed.

Lemma printf_at_cons : forall c r, printf_at (c :: r) = if is_digit c then printf_at r else Nat.eqb c 100.
Proof. intros c r. unfold printf_at. cbn [span_len]. destruct (is_digit c); reflexivity. Qed.

Lemma printf_at_app : forall t b, printf_at t = true -> printf_at (t ++ b) = true.
Proof.
  induction t as [|c t IH]; intros b H; [discriminate H|].
  cbn [app]. rewrite printf_at_cons in *. destruct (is_digit c); [apply IH; exact H|exact H].
Qed.

Lemma token_starts_app : forall a b, token_starts a = true -> token_starts (a ++ b) = true.
Proof.
  intros a b H. rewrite token_starts_eq in *. destruct a as [|c t]; [discriminate H|].
  cbn [app]. destruct (is_ha c); [reflexivity|].
  destruct (Nat.eqb c 37).
  { apply orb_true_iff in H. apply orb_true_iff. destruct H as [H|H].
    - left. apply printf_at_app. exact H.
    - right. change (c :: t ++ b) with ((c :: t) ++ b). apply has_prefix_app. exact H. }
  destruct (Nat.eqb c 36).
  { destruct t as [|c2 t2]; [discriminate H|]. exact H. }
  destruct (Nat.eqb c 60); [|discriminate H].
  change (c :: t ++ b) with ((c :: t) ++ b). apply has_prefix_app. exact H.
Qed.

Lemma no_token_prefix : forall a b, no_token (a ++ b) = true -> no_token a = true.
Proof.
  induction a as [|c a IH]; intros b H; [reflexivity|].
  cbn [app no_token] in *. apply andb_true_iff in H. destruct H as [H1 H2].
  rewrite (IH b H2), andb_true_r. apply negb_true_iff. apply negb_true_iff in H1.
  destruct (token_starts (c :: a)) eqn:E; [|reflexivity].
  apply (token_starts_app _ b) in E. cbn [app] in E. congruence.
Qed.

Lemma has_prefix_cut : forall (l u v v' : bytes), ~ In 47 l ->
  has_prefix (u ++ 47 :: v) l = has_prefix (u ++ 47 :: v') l.
Proof.
  induction l as [|a l IH]; intros u v v' Hl; [rewrite !has_prefix_nil; reflexivity|].
  destruct u as [|c u]; cbn [app has_prefix].
  - rewrite (proj2 (Nat.eqb_neq a 47)); [reflexivity|]. intros ->. apply Hl. left. reflexivity.
  - rewrite (IH u v v'); [reflexivity|]. intros H. apply Hl. right. exact H.
Qed.

Lemma printf_at_cut : forall t v v', printf_at (t ++ 47 :: v) = printf_at (t ++ 47 :: v').
Proof.
  induction t as [|c t IH]; intros v v'; cbn [app]; rewrite !printf_at_cons.
  - reflexivity.
  - rewrite (IH v v'). reflexivity.
Qed.

Lemma token_starts_cut : forall u v v', token_starts (u ++ 47 :: v) = token_starts (u ++ 47 :: v').
Proof.
  intros u v v'. rewrite !token_starts_eq. destruct u as [|c t]; cbn [app]; [reflexivity|].
  destruct (is_ha c); [reflexivity|].
  destruct (Nat.eqb c 37).
  { rewrite (printf_at_cut t v v').
    change (c :: t ++ 47 :: v) with ((c :: t) ++ 47 :: v).
    change (c :: t ++ 47 :: v') with ((c :: t) ++ 47 :: v').
    f_equal. apply has_prefix_cut. cbn. intuition discriminate. }
  destruct (Nat.eqb c 36).
  { destruct t as [|c2 t2]; reflexivity. }
  destruct (Nat.eqb c 60); [|reflexivity].
  change (c :: t ++ 47 :: v) with ((c :: t) ++ 47 :: v).
  change (c :: t ++ 47 :: v') with ((c :: t) ++ 47 :: v').
  apply has_prefix_cut. cbn. intuition discriminate.
Qed.

Lemma dir_ok_snoc : forall d, d <> [] -> dir_ok d = true -> exists u, d = u ++ [47].
Proof.
  intros d Hne H. unfold dir_ok in H. destruct (rev d) as [|c r] eqn:E.
  - apply (f_equal (@rev _)) in E. rewrite rev_involutive in E. contradiction.
  - apply Nat.eqb_eq in H. subst c. exists (rev r).
    apply (f_equal (@rev _)) in E. rewrite rev_involutive in E. exact E.
Qed.

(** a backslash put right after the directory creates no pad token *)
Lemma no_token_insert : forall d f, d <> [] -> dir_ok d = true ->
  no_token (d ++ f) = true -> no_token (d ++ 92 :: f) = true.
Proof.
  induction d as [|c d IH]; intros f Hne Hd H; [congruence|].
  cbn [app no_token] in *. apply andb_true_iff in H. destruct H as [H1 H2].
  apply andb_true_iff. split.
  - destruct (dir_ok_snoc (c :: d) Hne Hd) as (u & Eu).
    change (c :: d ++ 92 :: f) with ((c :: d) ++ 92 :: f).
    change (c :: d ++ f) with ((c :: d) ++ f) in H1.
    rewrite Eu in *. rewrite <- app_assoc in *. cbn [app] in *.
    rewrite (token_starts_cut u (92 :: f) f). exact H1.
  - destruct d as [|c' d'].
    + cbn [app no_token] in *. rewrite H2. reflexivity.
    + apply IH; [discriminate| |exact H2]. rewrite dir_ok_cons in Hd by discriminate. exact Hd.
Qed.

(** * items *)

Definition real_dir (dir : bytes) : bytes := fst (path_split dir).
Definition ipath (it : fitem) : bytes := real_dir (fi_dir it) ++ fi_name it.

Record item_ok (d x : bytes) (it : fitem) : Prop := mkIO {
  io_dir : fi_dir it = d ++ x;
  io_dok : dir_ok d = true;
  io_x : x = [] \/ (x = [92] /\ d <> []);
  io_n47 : no_byte 47 (fi_name it) = true;
  io_bytes : is_bytes (fi_name it);
  io_nl : no_byte 10 (d ++ x ++ fi_name it) = true;
  io_tok : no_token (d ++ x ++ fi_name it) = true;
  io_frame : forall base frame ext,
      submatches R_optionalFramePattern (fi_name it) 3 = Some [base; frame; ext] ->
      frame <> [] -> not_neg_zero frame /\ exists v, atoi frame = Some v /\ small v }.

Lemma real_dir_eq : forall d x, dir_ok d = true -> x = [] \/ (x = [92] /\ d <> []) -> real_dir (d ++ x) = d.
Proof.
  intros d x Hd Hx. unfold real_dir. rewrite (path_split_dir_base d x Hd (x_no_slash d x Hx)). reflexivity.
Qed.

Lemma is_bytes_app : forall a b, is_bytes (a ++ b) <-> is_bytes a /\ is_bytes b.
Proof. intros a b. unfold is_bytes. apply Forall_app. Qed.

Theorem item_of_path_ok : forall p, name_ok (path_clean p) ->
  exists d x, item_ok d x (item_of_path p) /\ ipath (item_of_path p) = path_clean p /\
              fi_name (item_of_path p) = snd (path_split (path_clean p)).
Proof.
  intros p (Hb & Hnl & Hnt & Hfr).
  destruct (item_of_path_spec p) as (d & x & f & Hs & Hp & Hd & Hf & Hdir & Hname & Hx).
  rewrite Hs in Hfr. cbn [snd] in Hfr. rewrite Hp in *.
  exists d, x. split; [|split].
  - constructor; rewrite ?Hname; try assumption.
    + apply is_bytes_app in Hb. apply Hb.
    + rewrite !no_byte_app in *. destruct Hx as [->|[-> _]]; cbn [no_byte existsb negb andb]; exact Hnl.
    + destruct Hx as [->|[-> Hne]]; [exact Hnt|]. cbn [app]. apply no_token_insert; assumption.
  - unfold ipath. rewrite Hdir, Hname, (real_dir_eq d x Hd Hx). reflexivity.
  - rewrite Hname, Hs. reflexivity.
Qed.

(** * the classification of an item *)

Definition is_frame (o : lopts) (it : fitem) : bool :=
  match classify o None it with IFrame _ _ => true | _ => false end.
Definition is_single (o : lopts) (it : fitem) : bool :=
  match classify o None it with ISingle _ _ _ => true | _ => false end.
Definition ivisible (o : lopts) (it : fitem) : bool :=
  o_hidden o || negb (has_prefix (fi_name it) [c_dot]).

Lemma classify_cases : forall o d x it, item_ok d x it ->
  exists b t e, submatches R_optionalFramePattern (fi_name it) 3 = Some [b; t; e] /\
    fi_name it = b ++ t ++ e /\ (t = [] \/ numeral t) /\ ext_shape e /\
    classify o None it =
      if negb (ivisible o it) then ISkip
      else match t with
           | [] => ISingle b t e
           | _ => match b, e with
                  | [], [] => ISingle b t e
                  | _, _ => IFrame (fi_dir it, b, e) t
                  end
           end.
Proof.
  intros o d x it IO.
  assert (Hnl : no_byte 10 (fi_name it) = true).
  { pose proof (io_nl _ _ _ IO) as H. rewrite !no_byte_app in H.
    apply andb_true_iff in H. destruct H as [_ H]. apply andb_true_iff in H. apply H. }
  destruct (optional_frame_total _ Hnl) as (b & t & e & Ho).
  destruct (optional_frame_tiles _ _ _ _ Ho) as (Hn & Ht & He).
  exists b, t, e. repeat split; try assumption.
  unfold classify, ivisible. rewrite Ho, negb_orb, negb_involutive. reflexivity.
Qed.

Lemma ivisible_split : forall o d x it, item_ok d x it ->
  ivisible o it = is_frame o it || is_single o it /\ (is_frame o it && is_single o it = false).
Proof.
  intros o d x it IO. destruct (classify_cases o d x it IO) as (b & t & e & _ & _ & _ & _ & Hc).
  unfold is_frame, is_single. rewrite Hc. destruct (ivisible o it); cbn [negb].
  - destruct t as [|c t']; [split; reflexivity|]. destruct b, e; split; reflexivity.
  - split; reflexivity.
Qed.

(** * buckets *)

Definition bpaths (ks : skey * sinfo) : list bytes :=
  let '(dir, base, ext) := fst ks in map (fpath (real_dir dir) base ext) (s_frames (snd ks)).
Definition all_paths (m : list (skey * sinfo)) : list bytes := flat_map bpaths m.

Definition bucket_ok (o : lopts) (ks : skey * sinfo) : Prop :=
  let '(dir, base, ext) := fst ks in let s := snd ks in
  exists d x, dir = d ++ x /\ key_ok d x base ext /\ s_frames s <> [] /\
    Forall (frame_ok d x base ext) (s_frames s) /\ NoDup (map f_text (s_frames s)) /\
    (forall fi, s_frames s = [fi] -> s_padding s = padding_chars (o_style o) (blen (f_text fi))).

Theorem emit_all_spec : forall o m, Forall (bucket_ok o) m ->
  exists qs, emit_all o m = Ok qs /\ Permutation (flat_map q_paths qs) (all_paths m).
Proof.
  intros o m H. induction H as [|[[[dir base] ext] s] m Hb Hm IH].
  - exists []. split; [reflexivity|apply perm_nil].
  - destruct IH as (qs2 & E2 & P2).
    unfold bucket_ok in Hb. cbn [fst snd] in Hb. destruct Hb as (d & x & -> & KO & Hne & HF & HN & Hp).
    destruct (emit_bucket_spec o d x base ext KO s Hne HF HN Hp) as (qs1 & E1 & P1).
    exists (qs1 ++ qs2). cbn [emit_all].
    match goal with |- context [emit_bucket ?a ?b ?c] =>
      replace (emit_bucket a b c) with (Ok qs1) by (symmetry; exact E1) end.
    cbn [bind]. rewrite E2. cbn [bind].
    split; [reflexivity|]. rewrite flat_map_app. unfold all_paths. cbn [flat_map].
    apply Permutation_app; [|exact P2]. unfold bpaths. cbn [fst snd].
    rewrite (real_dir_eq d x (ko_dir _ _ _ _ KO) (ko_x _ _ _ _ KO)). exact P1.
Qed.

Lemma key_eq_true : forall a b, key_eq a b = true -> a = b.
Proof.
  intros [[a1 a2] a3] [[b1 b2] b3] H. cbn [key_eq] in H.
  apply andb_true_iff in H. destruct H as [H H3]. apply andb_true_iff in H. destruct H as [H1 H2].
  apply beq_eq in H1, H2, H3. subst. reflexivity.
Qed.

Lemma bucket_set_none : forall m k v, bucket_get m k = None -> bucket_set m k v = m ++ [(k, v)].
Proof.
  induction m as [|[k' v'] m IH]; intros k v H; [reflexivity|].
  cbn [bucket_get bucket_set] in *. destruct (key_eq k' k); [discriminate H|].
  rewrite (IH k v H). reflexivity.
Qed.

Lemma bucket_set_some : forall m k v s, bucket_get m k = Some s ->
  exists m1 m2, m = m1 ++ (k, s) :: m2 /\ bucket_set m k v = m1 ++ (k, v) :: m2.
Proof.
  induction m as [|[k' v'] m IH]; intros k v s H; [discriminate H|].
  cbn [bucket_get bucket_set] in *. destruct (key_eq k' k) eqn:E.
  - injection H as ->. apply key_eq_true in E. subst k'. exists [], m. split; reflexivity.
  - destruct (IH k v s H) as (m1 & m2 & -> & E2). exists ((k', v') :: m1), m2.
    rewrite E2. split; reflexivity.
Qed.

Lemma all_paths_app : forall m1 m2, all_paths (m1 ++ m2) = all_paths m1 ++ all_paths m2.
Proof. intros. unfold all_paths. apply flat_map_app. Qed.

Lemma no_byte_parts : forall c (a b t e : bytes), no_byte c (a ++ b ++ t ++ e) = true ->
  no_byte c a = true /\ no_byte c b = true /\ no_byte c t = true /\ no_byte c e = true.
Proof.
  intros c a b t e H. rewrite !no_byte_app in H.
  apply andb_true_iff in H. destruct H as [H1 H]. apply andb_true_iff in H. destruct H as [H2 H].
  apply andb_true_iff in H. destruct H as [H3 H4]. auto.
Qed.

(** a numbered file: its key, its frame record, its path *)
Lemma frame_item : forall d x it b t e, item_ok d x it ->
  submatches R_optionalFramePattern (fi_name it) 3 = Some [b; t; e] ->
  fi_name it = b ++ t ++ e -> numeral t -> ext_shape e ->
  key_ok d x b e /\ frame_ok d x b e (mkFI t (atoi_or_0 t) (frame_min_size t)) /\
  fpath d b e (mkFI t (atoi_or_0 t) (frame_min_size t)) = ipath it.
Proof.
  intros d x it b t e IO Ho Hn Ht He.
  pose proof (io_n47 _ _ _ IO) as H47. rewrite Hn in H47.
  assert (H47' : no_byte 47 ([] ++ b ++ t ++ e) = true) by exact H47.
  apply no_byte_parts in H47'. destruct H47' as (_ & Hb47 & _ & He47).
  pose proof (io_nl _ _ _ IO) as Hnl. rewrite Hn in Hnl.
  replace (d ++ x ++ b ++ t ++ e) with ((d ++ x) ++ b ++ t ++ e) in Hnl by (rewrite <- app_assoc; reflexivity).
  apply no_byte_parts in Hnl. destruct Hnl as (Hdx & Hb10 & _ & He10).
  pose proof (io_tok _ _ _ IO) as Htok. rewrite Hn in Htok.
  assert (Hne : t <> []) by (apply numeral_nonempty; exact Ht).
  destruct (io_frame _ _ _ IO b t e Ho Hne) as (NZ & v & Hv & Hsm).
  split; [|split].
  - constructor; try assumption.
    + apply (io_dok _ _ _ IO).
    + apply (io_x _ _ _ IO).
    + rewrite app_assoc, no_byte_app, Hdx, Hb10. reflexivity.
    + apply (no_token_prefix _ (t ++ e)). rewrite <- !app_assoc. exact Htok.
  - constructor; cbn [f_text f_num f_minw]; try assumption; try reflexivity.
    + unfold atoi_or_0. rewrite Hv. reflexivity.
    + unfold atoi_or_0. rewrite Hv. exact Hsm.
    + rewrite <- Hn. exact Ho.
    + rewrite <- Hn. apply (io_bytes _ _ _ IO).
  - unfold fpath, ipath. cbn [f_text]. rewrite (io_dir _ _ _ IO), Hn.
    rewrite (real_dir_eq d x (io_dok _ _ _ IO) (io_x _ _ _ IO)). reflexivity.
Qed.

Lemma dir_split_unique : forall d x d' x',
  dir_ok d = true -> x = [] \/ (x = [92] /\ d <> []) ->
  dir_ok d' = true -> x' = [] \/ (x' = [92] /\ d' <> []) ->
  d ++ x = d' ++ x' -> d = d' /\ x = x'.
Proof.
  intros d x d' x' Hd Hx Hd' Hx' E.
  assert (d = d').
  { rewrite <- (real_dir_eq d x Hd Hx), <- (real_dir_eq d' x' Hd' Hx'), E. reflexivity. }
  subst d'. apply app_inv_head in E. auto.
Qed.

Section FrameStep.
Variables (o : lopts) (d x : bytes) (it : fitem) (b t e : bytes) (seqs : list (skey * sinfo)).
Hypothesis IO : item_ok d x it.
Hypothesis Ho : submatches R_optionalFramePattern (fi_name it) 3 = Some [b; t; e].
Hypothesis Hn : fi_name it = b ++ t ++ e.
Hypothesis Ht : numeral t.
Hypothesis He : ext_shape e.
Hypothesis Hseqs : Forall (bucket_ok o) seqs.
Hypothesis Hnew : ~ In (ipath it) (all_paths seqs).

Let key : skey := (fi_dir it, b, e).
Let fi := mkFI t (atoi_or_0 t) (frame_min_size t).
Let w := blen t.

Lemma frame_step : forall si,
  si = match bucket_get seqs key with
       | None => mkSI [fi] (padding_chars (o_style o) w) w
       | Some s =>
         if (w <? s_minw s)%Z then mkSI (s_frames s ++ [fi]) (padding_chars (o_style o) w) w
         else mkSI (s_frames s ++ [fi]) (s_padding s) (s_minw s)
       end ->
  Forall (bucket_ok o) (bucket_set seqs key si) /\
  Permutation (all_paths (bucket_set seqs key si)) (all_paths seqs ++ [ipath it]).
Proof.
  intros si Hsi.
  destruct (frame_item d x it b t e IO Ho Hn Ht He) as (KO & FO & Hpath).
  fold fi in FO, Hpath.
  pose proof (real_dir_eq d x (io_dok _ _ _ IO) (io_x _ _ _ IO)) as Hrd.
  destruct (bucket_get seqs key) as [s|] eqn:Eg.
  - destruct (bucket_set_some seqs key si s Eg) as (m1 & m2 & Em & Es).
    assert (Hfr : s_frames si = s_frames s ++ [fi]).
    { rewrite Hsi. destruct (w <? s_minw s)%Z; reflexivity. }
    rewrite Em in Hseqs. apply Forall_app in Hseqs. destruct Hseqs as [H1 H2].
    inversion H2 as [|a l Hb H3]; subst a l.
    unfold bucket_ok in Hb. cbn [fst snd key] in Hb.
    destruct Hb as (d' & x' & Edir & KO' & Hne & HF & HN & _).
    rewrite (io_dir _ _ _ IO) in Edir.
    destruct (dir_split_unique d x d' x' (io_dok _ _ _ IO) (io_x _ _ _ IO)
                (ko_dir _ _ _ _ KO') (ko_x _ _ _ _ KO') Edir) as [<- <-].
    assert (Hbp : forall s0, bpaths (key, s0) = map (fpath d b e) (s_frames s0)).
    { intros s0. unfold bpaths, key. cbn [fst snd]. rewrite (io_dir _ _ _ IO), Hrd. reflexivity. }
    split.
    + rewrite Es. apply Forall_app. split; [exact H1|]. constructor; [|exact H3].
      unfold bucket_ok. cbn [fst snd key]. exists d, x. split; [apply (io_dir _ _ _ IO)|].
      split; [exact KO|]. rewrite Hfr. split; [|split; [|split]].
      * destruct (s_frames s); discriminate.
      * apply Forall_app. split; [exact HF|]. constructor; [exact FO|constructor].
      * rewrite map_app. cbn [map].
        assert (Hnin : ~ In (f_text fi) (map f_text (s_frames s))).
        { intros Hin. apply in_map_iff in Hin. destruct Hin as (fj & Ej & Hj).
          apply Hnew. rewrite Em, all_paths_app. apply in_or_app. right.
          unfold all_paths. cbn [flat_map]. apply in_or_app. left.
          rewrite Hbp. apply in_map_iff. exists fj. split; [|exact Hj].
          rewrite <- Hpath. unfold fpath. rewrite Ej. reflexivity. }
        clear - HN Hnin. induction (map f_text (s_frames s)) as [|a l IH]; cbn [app].
        { constructor; [intros []|constructor]. }
        inversion HN as [|y l' Hy Hl]; subst. constructor.
        -- intros Hin. apply in_app_or in Hin. destruct Hin as [Hin|[Hin|[]]]; [contradiction|].
           apply Hnin. left. symmetry. exact Hin.
        -- apply IH; [exact Hl|]. intros Hin. apply Hnin. right. exact Hin.
      * intros fj E1. destruct (s_frames s) as [|a [|a' l]]; [congruence|discriminate E1|discriminate E1].
    + rewrite Es, Em, !all_paths_app. unfold all_paths at 2 4. cbn [flat_map].
      rewrite !Hbp, Hfr, map_app. cbn [map]. rewrite Hpath.
      rewrite <- !app_assoc. apply Permutation_app_head. apply Permutation_app_head.
      cbn [app]. apply Permutation_cons_append.
  - rewrite (bucket_set_none seqs key si Eg). split.
    + apply Forall_app. split; [exact Hseqs|]. constructor; [|constructor].
      unfold bucket_ok. cbn [fst snd key]. exists d, x. split; [apply (io_dir _ _ _ IO)|].
      split; [exact KO|]. rewrite Hsi. cbn [s_frames s_padding].
      split; [discriminate|]. split; [constructor; [exact FO|constructor]|].
      split; [constructor; [intros []|constructor]|].
      intros fj E1. injection E1 as <-. reflexivity.
    + rewrite all_paths_app. apply Permutation_app_head.
      unfold all_paths. cbn [flat_map]. rewrite app_nil_r. unfold bpaths, key. cbn [fst snd].
      rewrite (io_dir _ _ _ IO), Hrd, Hsi. cbn [s_frames map]. rewrite Hpath. apply Permutation_refl.
Qed.
End FrameStep.

(** * the first phase *)

Theorem collect_spec : forall o items seqs files,
  Forall (fun it => exists d x, item_ok d x it) items ->
  Forall (bucket_ok o) seqs ->
  NoDup (all_paths seqs ++ map ipath items) ->
  exists seqs' singles,
    collect o None items seqs files = Ok (seqs', files ++ singles) /\
    Forall (bucket_ok o) seqs' /\
    Permutation (all_paths seqs') (all_paths seqs ++ map ipath (filter (is_frame o) items)) /\
    (o_single o = true ->
       map q_paths singles = map (fun it => [ipath it]) (filter (is_single o) items)) /\
    (o_single o = false -> singles = []).
Proof.
  intros o items. induction items as [|it rest IH]; intros seqs files HI HS HN.
  - exists seqs, []. rewrite app_nil_r. cbn [collect filter map]. rewrite app_nil_r.
    repeat split; auto.
  - inversion HI as [|a l (d & x & IO) HI']; subst a l.
    destruct (classify_cases o d x it IO) as (b & t & e & Ho & Hn & Ht & He & Hc).
    cbn [map] in HN.
    pose proof (NoDup_remove_1 _ _ _ HN) as HN'.
    assert (Hnew : ~ In (ipath it) (all_paths seqs)).
    { intros Hin. apply (NoDup_remove_2 _ _ _ HN). apply in_or_app. left. exact Hin. }
    assert (Hip : ipath it = d ++ fi_name it).
    { unfold ipath. rewrite (io_dir _ _ _ IO), (real_dir_eq d x (io_dok _ _ _ IO) (io_x _ _ _ IO)). reflexivity. }
    (* the three kinds of item *)
    assert (HSkip : classify o None it = ISkip ->
      exists seqs' singles,
        collect o None (it :: rest) seqs files = Ok (seqs', files ++ singles) /\
        Forall (bucket_ok o) seqs' /\
        Permutation (all_paths seqs') (all_paths seqs ++ map ipath (filter (is_frame o) (it :: rest))) /\
        (o_single o = true ->
           map q_paths singles = map (fun it => [ipath it]) (filter (is_single o) (it :: rest))) /\
        (o_single o = false -> singles = [])).
    { intros E. cbn [collect filter]. unfold is_frame at 1, is_single at 1. rewrite E.
      apply IH; assumption. }
    assert (HSingle : classify o None it = ISingle b t e ->
      exists seqs' singles,
        collect o None (it :: rest) seqs files = Ok (seqs', files ++ singles) /\
        Forall (bucket_ok o) seqs' /\
        Permutation (all_paths seqs') (all_paths seqs ++ map ipath (filter (is_frame o) (it :: rest))) /\
        (o_single o = true ->
           map q_paths singles = map (fun it => [ipath it]) (filter (is_single o) (it :: rest))) /\
        (o_single o = false -> singles = [])).
    { intros E. cbn [collect filter]. unfold is_frame at 1, is_single at 1. rewrite E.
      destruct (o_single o) eqn:Es.
      - assert (Hsl : no_byte 47 (x ++ fi_name it) = true).
        { rewrite no_byte_app, (x_no_slash d x (io_x _ _ _ IO)), (io_n47 _ _ _ IO). reflexivity. }
        assert (Hnl : no_byte 10 (fi_name it) = true).
        { pose proof (io_nl _ _ _ IO) as H. rewrite !no_byte_app in H.
          apply andb_true_iff in H. destruct H as [_ H]. apply andb_true_iff in H. apply H. }
        destruct (plain_entry (o_style o) d x (fi_name it) b t e (io_dok _ _ _ IO) Hsl (io_x _ _ _ IO)
                    (io_tok _ _ _ IO) Hnl (io_bytes _ _ _ IO) Ho) as (q & Hq & Hp).
        { intros Hne. destruct (io_frame _ _ _ IO b t e Ho Hne) as (NZ & v & Hv & _).
          split; [exact NZ|]. exists v. exact Hv. }
        rewrite (io_dir _ _ _ IO), <- app_assoc, Hq. cbn [bind].
        destruct (IH seqs (files ++ [force_parts q b e t]) HI' HS HN')
          as (seqs' & singles & Hcol & Hok & Hperm & H1 & H2).
        exists seqs', (force_parts q b e t :: singles).
        rewrite <- app_assoc in Hcol. cbn [app] in Hcol.
        split; [exact Hcol|]. split; [exact Hok|]. split; [exact Hperm|].
        split; [|intros; discriminate].
        intros _. cbn [map]. rewrite Hp, Hip, (H1 eq_refl). reflexivity.
      - destruct (IH seqs files HI' HS HN') as (seqs' & singles & Hcol & Hok & Hperm & H1 & H2).
        exists seqs', singles. split; [exact Hcol|]. split; [exact Hok|]. split; [exact Hperm|].
        split; [intros; discriminate|exact H2]. }
    assert (HFrame : classify o None it = IFrame (fi_dir it, b, e) t -> numeral t ->
      exists seqs' singles,
        collect o None (it :: rest) seqs files = Ok (seqs', files ++ singles) /\
        Forall (bucket_ok o) seqs' /\
        Permutation (all_paths seqs') (all_paths seqs ++ map ipath (filter (is_frame o) (it :: rest))) /\
        (o_single o = true ->
           map q_paths singles = map (fun it => [ipath it]) (filter (is_single o) (it :: rest))) /\
        (o_single o = false -> singles = [])).
    { intros E Hnum. cbn [collect filter]. unfold is_frame at 1, is_single at 1. rewrite E. cbv zeta.
      match goal with |- context [collect o None rest (bucket_set seqs ?K ?SI) files] =>
        pose proof (frame_step o d x it b t e seqs IO Ho Hn Hnum He HS Hnew SI eq_refl) as [Hok' Hperm']
      end.
      match type of Hok' with Forall _ ?S' =>
        destruct (IH S' files HI' Hok') as (seqs' & singles & Hcol & Hok & Hperm & H1 & H2)
      end.
      { eapply Permutation_NoDup; [|exact HN].
        apply Permutation_sym.
        eapply Permutation_trans; [apply Permutation_app_tail; exact Hperm'|].
        rewrite <- app_assoc. reflexivity. }
      exists seqs', singles. split; [exact Hcol|]. split; [exact Hok|]. split; [|split; assumption].
      eapply Permutation_trans; [exact Hperm|].
      eapply Permutation_trans; [apply Permutation_app_tail; exact Hperm'|].
      rewrite <- app_assoc. reflexivity. }
    rewrite Hc in HSkip, HSingle, HFrame.
    destruct (ivisible o it); cbn [negb] in *; [|apply HSkip; reflexivity].
    destruct t as [|c0 t']; [apply HSingle; reflexivity|].
    destruct Ht as [Ht|Ht]; [discriminate Ht|].
    destruct b as [|b0 b']; [destruct e as [|e0 e']|]; [apply HSingle; reflexivity| |];
      apply HFrame; (reflexivity || exact Ht).
Qed.

(** * options *)

Lemma parse_opts_single : forall opts o0,
  o_single (parse_opts opts o0) = o_single o0 || existsb (Z.eqb K_SingleFiles) opts.
Proof.
  induction opts as [|z opts IH]; intros o0; cbn [parse_opts existsb]; [rewrite orb_false_r; reflexivity|].
  rewrite IH, (Z.eqb_sym K_SingleFiles z).
  unfold K_SingleFiles, K_HiddenFiles, K_FileOptPadStyleHash1, K_FileOptPadStyleHash4.
  destruct (Z.eqb_spec z 1); [cbn [o_single]; rewrite orb_true_r; reflexivity|].
  destruct (Z.eqb_spec z 0); [reflexivity|].
  destruct (Z.eqb_spec z 2); [reflexivity|].
  destruct (Z.eqb_spec z 3); reflexivity.
Qed.

Lemma parse_opts_hidden : forall opts o0,
  o_hidden (parse_opts opts o0) = o_hidden o0 || existsb (Z.eqb K_HiddenFiles) opts.
Proof.
  induction opts as [|z opts IH]; intros o0; cbn [parse_opts existsb]; [rewrite orb_false_r; reflexivity|].
  rewrite IH, (Z.eqb_sym K_HiddenFiles z).
  unfold K_SingleFiles, K_HiddenFiles, K_FileOptPadStyleHash1, K_FileOptPadStyleHash4.
  destruct (Z.eqb_spec z 1); [subst z; reflexivity|].
  destruct (Z.eqb_spec z 0); [cbn [o_hidden]; rewrite orb_true_r; reflexivity|].
  destruct (Z.eqb_spec z 2); [reflexivity|].
  destruct (Z.eqb_spec z 3); reflexivity.
Qed.

(** * assembly *)

Lemma filter_split_perm : forall (A : Type) (f g h : A -> bool) (l : list A),
  (forall a, In a l -> f a = g a || h a /\ g a && h a = false) ->
  Permutation (filter f l) (filter g l ++ filter h l).
Proof.
  intros A f g h l. induction l as [|a l IH]; intros H; [apply perm_nil|].
  cbn [filter]. destruct (H a (or_introl eq_refl)) as [H1 H2].
  assert (IH' : Permutation (filter f l) (filter g l ++ filter h l)).
  { apply IH. intros a' Ha'. apply H. right. exact Ha'. }
  rewrite H1. destruct (g a), (h a); cbn [orb andb] in *; try discriminate.
  - cbn [app]. apply perm_skip. exact IH'.
  - eapply Permutation_trans; [apply perm_skip; exact IH'|]. apply Permutation_middle.
  - exact IH'.
Qed.

Lemma concat_singletons : forall (A B : Type) (f : A -> B) (l : list A),
  List.concat (map (fun a => [f a]) l) = map f l.
Proof. intros A B f l. induction l as [|a l IH]; [reflexivity|]. cbn [map List.concat app]. rewrite IH. reflexivity. Qed.

Lemma filter_map_comm : forall (A B : Type) (f : A -> B) (p : B -> bool) (l : list A),
  filter p (map f l) = map f (filter (fun a => p (f a)) l).
Proof.
  intros A B f p l. induction l as [|a l IH]; [reflexivity|]. cbn [map filter].
  destruct (p (f a)); cbn [map]; rewrite IH; reflexivity.
Qed.

(** the two halves of the result *)
Theorem find_in_list_decomp : forall paths opts,
  NoDup (map path_clean paths) -> Forall (fun p => name_ok (path_clean p)) paths ->
  let o := parse_opts opts (mkLO false false default_style) in
  let items := map item_of_path paths in
  exists seqs fseqs singles,
    collect o None items [] [] = Ok (seqs, singles) /\ emit_all o seqs = Ok fseqs /\
    find_in_list paths opts = Ok (if o_single o then fseqs ++ singles else fseqs) /\
    Permutation (flat_map q_paths fseqs) (map ipath (filter (is_frame o) items)) /\
    (o_single o = true -> flat_map q_paths singles = map ipath (filter (is_single o) items)) /\
    (o_single o = false -> singles = []).
Proof.
  intros paths opts HN HF o items.
  assert (HI : Forall (fun it => exists d x, item_ok d x it) items).
  { unfold items. apply Forall_map. eapply Forall_impl; [|exact HF].
    intros p Hp. destruct (item_of_path_ok p Hp) as (d & x & IO & _). exists d, x. exact IO. }
  assert (Hpaths : map ipath items = map path_clean paths).
  { unfold items. rewrite map_map. apply map_ext_in. intros p Hp.
    rewrite Forall_forall in HF. destruct (item_of_path_ok p (HF p Hp)) as (d & x & _ & E & _). exact E. }
  destruct (collect_spec o items [] []) as (seqs & singles & Hcol & Hok & Hperm & H1 & H2).
  - exact HI.
  - constructor.
  - cbn [all_paths flat_map app]. rewrite Hpaths. exact HN.
  - destruct (emit_all_spec o seqs Hok) as (fseqs & Hemit & Hpf).
    cbn [app] in Hcol. exists seqs, fseqs, singles.
    split; [exact Hcol|]. split; [exact Hemit|]. split; [|split; [|split]].
    + unfold find_in_list, find_items. fold o. fold items. rewrite Hcol. cbn [bind].
      rewrite Hemit. reflexivity.
    + eapply Permutation_trans; [exact Hpf|]. exact Hperm.
    + intros Hs. rewrite flat_map_concat_map, (H1 Hs). apply concat_singletons.
    + exact H2.
Qed.

Theorem listing_exact_cover : forall paths opts,
  NoDup (map path_clean paths) -> Forall (fun p => name_ok (path_clean p)) paths ->
  existsb (Z.eqb K_SingleFiles) opts = true ->
  exists seqs, find_in_list paths opts = Ok seqs /\
    Permutation (flat_map q_paths seqs)
                (filter (visible (existsb (Z.eqb K_HiddenFiles) opts)) (map path_clean paths)).
Proof.
  intros paths opts HN HF Hs.
  destruct (find_in_list_decomp paths opts HN HF) as (seqs & fseqs & singles & _ & _ & Hr & Hp & H1 & _).
  set (o := parse_opts opts (mkLO false false default_style)) in *.
  set (items := map item_of_path paths) in *.
  assert (Hso : o_single o = true) by (unfold o; rewrite parse_opts_single, Hs; reflexivity).
  assert (Hho : o_hidden o = existsb (Z.eqb K_HiddenFiles) opts) by (unfold o; rewrite parse_opts_hidden; reflexivity).
  rewrite Hso in Hr. exists (fseqs ++ singles). split; [exact Hr|].
  rewrite flat_map_app, (H1 Hso).
  assert (HI : forall it, In it items -> exists d x, item_ok d x it).
  { intros it Hin. unfold items in Hin. apply in_map_iff in Hin. destruct Hin as (p & <- & Hp').
    rewrite Forall_forall in HF. destruct (item_of_path_ok p (HF p Hp')) as (d & x & IO & _).
    exists d, x. exact IO. }
  assert (Heq : map ipath (filter (ivisible o) items) =
                filter (visible (existsb (Z.eqb K_HiddenFiles) opts)) (map path_clean paths)).
  { unfold items. rewrite <- Hho.
    assert (E : forall p, In p paths ->
               ipath (item_of_path p) = path_clean p /\
               ivisible o (item_of_path p) = visible (o_hidden o) (path_clean p)).
    { intros p Hp'. rewrite Forall_forall in HF.
      destruct (item_of_path_ok p (HF p Hp')) as (d & x & _ & E1 & E2).
      split; [exact E1|]. unfold ivisible, visible. rewrite E2. reflexivity. }
    clear - E. induction paths as [|p l IH]; [reflexivity|]. cbn [filter map].
    destruct (E p (or_introl eq_refl)) as [E1 E2]. rewrite E2.
    assert (IH' := IH (fun q Hq => E q (or_intror Hq))).
    destruct (visible (o_hidden o) (path_clean p)); cbn [map]; rewrite ?E1, IH'; reflexivity. }
  rewrite <- Heq.
  eapply Permutation_trans; [apply Permutation_app_tail; exact Hp|].
  rewrite <- map_app.
  apply Permutation_map. apply Permutation_sym. apply filter_split_perm.
  intros it Hin. destruct (HI it Hin) as (d & x & IO). apply (ivisible_split o d x it IO).
Qed.

Print Assumptions listing_exact_cover.
