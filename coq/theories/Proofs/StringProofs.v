(** The printed form of a range container parses back to the same values:
    InclusiveRange.String, InclusiveRanges.String and the strings stored by
    FrameSet.Normalize / Invert / InvertedFrameRange.

    Side conditions.  A printed number is read back by strconv.Atoi, so it has
    to fit an int: [fits_block].  For the frame sets produced by [normalized]
    the starts and ends of the blocks are members, hence fit because the
    members of a parsed frame set fit ([frames_fit], proved below from
    [parse_denotes]).  The step of a block with two values or more is the
    difference of two members; that difference fits only when the members do
    not span more than an int: [span_ok].  [small_span_ok] shows that the
    window of CompressProofs ([small]: -2^62 <= v < 2^62) is enough. *)
From GFS Require Import Base Dec Ranges Pad FrameSet Compress SpecRange SpecRanges
  RangeBasics DecProofs AppendProofs NormProofs ParseProofs PadRangeProofs
  CompressProofs Glue FrameSetProofs.
Local Open Scope Z_scope.

(** * one block *)

Definition fits_block (r : irange) : Prop :=
  fits_int (r_start r) = true /\ fits_int (ir_end r) = true /\ fits_int (r_step r) = true.

(** what [ir_string] prints, as a component of the range grammar *)
Definition block_comp (r : irange) : comp :=
  if ir_end r =? r_start r then CSingle (r_start r)
  else if big_step (r_step r) then CStep (r_start r) (ir_end r) 120%nat (r_step r)
  else CRange (r_start r) (ir_end r).

Lemma ir_string_text : forall r, ir_string itoa r = comp_text 0 (block_comp r).
Proof.
  intros r. unfold ir_string, block_comp, big_step.
  destruct (ir_end r =? r_start r); cbn [negb].
  - cbn [comp_text]. rewrite app_nil_r. reflexivity.
  - destruct ((r_step r >? 1) || (r_step r <? -1)); cbn [comp_text].
    + reflexivity.
    + rewrite app_nil_r. reflexivity.
Qed.

Lemma block_comp_mod : forall r, mod_ok (block_comp r).
Proof.
  intros r. unfold block_comp.
  destruct (ir_end r =? r_start r); [exact I|].
  destruct (big_step (r_step r)); [reflexivity | exact I].
Qed.

Lemma enum_is_run : forall r, enum r = run (r_start r) (r_step r) (enum_count r).
Proof. reflexivity. Qed.

(** the printed range  start-end x |step|  walks exactly the block *)
Lemma walk_block : forall r, wf r ->
  walk (r_start r) (ir_end r) (Z.abs (r_step r)) = enum r.
Proof.
  intros r H. pose proof (wf_step_nz r H) as Hnz.
  rewrite enum_is_run, (ir_end_closed r H), (RangeBasics.enum_count_S r H).
  set (n := Z.to_nat (cnt r)).
  replace (Z.of_nat (S n) - 1) with (Z.of_nat n) by lia.
  destruct n as [|n].
  - replace (r_start r + r_step r * Z.of_nat 0) with (r_start r) by lia.
    rewrite walk_same by lia. rewrite run_cons. reflexivity.
  - apply walk_run_eq; [exact Hnz | lia].
Qed.

Lemma expand_block : forall r, wf r -> expand (block_comp r) = enum r.
Proof.
  intros r H. pose proof (walk_block r H) as W. pose proof (wf_step_nz r H) as Hnz.
  unfold block_comp. destruct (Z.eqb_spec (ir_end r) (r_start r)) as [E|E].
  - cbn [expand]. rewrite E, walk_same in W by lia. exact W.
  - destruct (big_step (r_step r)) eqn:B.
    + cbn [expand]. change (Nat.eqb 120 120) with true. cbv iota. exact W.
    + cbn [expand].
      assert (A : Z.abs (r_step r) = 1).
      { destruct (big_step_spec (r_step r)) as [_ B'].
        assert (C : ~ (r_step r > 1 \/ r_step r < -1))
          by (intros C; rewrite (B' C) in B; discriminate).
        lia. }
      rewrite <- A. exact W.
Qed.

Lemma block_comp_nonzero : forall r, wf r -> comp_nonzero (block_comp r) = true.
Proof.
  intros r H. pose proof (wf_step_nz r H) as Hnz. unfold block_comp.
  destruct (ir_end r =? r_start r); [reflexivity|].
  destruct (big_step (r_step r)); [|reflexivity].
  cbn [comp_nonzero]. destruct (Z.eqb_spec (r_step r) 0); [contradiction | reflexivity].
Qed.

Lemma block_comp_fits : forall r, fits_block r -> comp_fits (block_comp r) = true.
Proof.
  intros r (A & B & C). unfold block_comp.
  destruct (ir_end r =? r_start r); [exact A|].
  destruct (big_step (r_step r)); cbn [comp_fits]; rewrite A, B; [rewrite C|]; reflexivity.
Qed.

Theorem block_string_parses : forall r, wf r -> fits_block r ->
  parse_comp (ir_string itoa r) = Some (block_comp r) /\
  expand (block_comp r) = enum r /\
  comp_fits (block_comp r) = true /\ comp_nonzero (block_comp r) = true.
Proof.
  intros r H F. split; [|split; [|split]].
  - rewrite ir_string_text. apply parse_comp_text. apply mod_ok_is_mod, block_comp_mod.
  - apply expand_block. exact H.
  - apply block_comp_fits. exact F.
  - apply block_comp_nonzero. exact H.
Qed.

(** * a block list *)

Lemma join_tail : forall ts t, join_with c_comma (t :: ts) = t ++ tail_text ts.
Proof.
  induction ts as [|t' ts IH]; intros t.
  - cbn [join_with tail_text flat_map]. rewrite app_nil_r. reflexivity.
  - change (join_with c_comma (t :: t' :: ts)) with (t ++ c_comma :: join_with c_comma (t' :: ts)).
    rewrite IH. reflexivity.
Qed.

Lemma rs_string_texts : forall b bl,
  rs_string itoa (b :: bl) =
  comp_text 0 (block_comp b) ++ tail_text (map (comp_text 0) (map block_comp bl)).
Proof.
  intros b bl. unfold rs_string. cbn [map]. rewrite join_tail, ir_string_text.
  f_equal. f_equal. rewrite map_map. apply map_ext. intros r. apply ir_string_text.
Qed.

Lemma blocks_mod : forall bl, Forall mod_ok (map block_comp bl).
Proof. intros bl. apply Forall_map. apply Forall_forall. intros r _. apply block_comp_mod. Qed.

(** the printed text is read back as the components [block_comp] *)
Lemma rs_string_gparse : forall bl, bl <> [] ->
  gparse (strip (rs_string itoa bl)) = Some (map block_comp bl).
Proof.
  intros [|b bl] Hne; [congruence|].
  pose proof (blocks_mod (b :: bl)) as M. cbn [map] in M.
  rewrite rs_string_texts.
  rewrite strip_id by (apply (join_not_ignored (map (comp_text 0) (map block_comp bl))
                                               (comp_text 0 (block_comp b)));
                       apply (texts_tchar 0 (block_comp b :: map block_comp bl)); exact M).
  unfold gparse.
  rewrite split_join by (apply (texts_no_comma 0 (block_comp b :: map block_comp bl)); exact M).
  change (comp_text 0 (block_comp b) :: map (comp_text 0) (map block_comp bl))
    with (map (comp_text 0) (map block_comp (b :: bl))).
  apply parse_comps_texts. exact M.
Qed.

Lemma blocks_nonzero : forall bl, Forall wf bl -> forallb comp_nonzero (map block_comp bl) = true.
Proof.
  intros bl H. apply forallb_forall. intros c Hc. apply in_map_iff in Hc.
  destruct Hc as [r [<- Hr]]. apply block_comp_nonzero.
  rewrite Forall_forall in H. apply H. exact Hr.
Qed.

Lemma blocks_expand : forall bl, Forall wf bl -> flat_map expand (map block_comp bl) = enum_all bl.
Proof.
  intros bl H. induction H as [|r bl Hr _ IH]; [reflexivity|].
  cbn [map flat_map]. rewrite (expand_block r Hr), IH. reflexivity.
Qed.

(** the exact value of the spec on a printed block list *)
Lemma rs_string_spec_if : forall bl, WF bl -> bl <> [] ->
  spec_frames (rs_string itoa bl) =
  if forallb comp_fits (map block_comp bl) then Some (enum_all bl) else None.
Proof.
  intros bl [Hwf Hnd] Hne. unfold spec_frames.
  rewrite (rs_string_gparse bl Hne), (blocks_nonzero bl Hwf), andb_true_r.
  destruct (forallb comp_fits (map block_comp bl)); [|reflexivity].
  unfold denote. rewrite (blocks_expand bl Hwf).
  rewrite dedup_first_NoDup_id; [reflexivity | exact Hnd | intros v _ []].
Qed.

Lemma blocks_fit : forall bl, Forall fits_block bl -> forallb comp_fits (map block_comp bl) = true.
Proof.
  intros bl H. apply forallb_forall. intros c Hc. apply in_map_iff in Hc.
  destruct Hc as [r [<- Hr]]. apply block_comp_fits.
  rewrite Forall_forall in H. apply H. exact Hr.
Qed.

Theorem rs_string_spec : forall bl, WF bl -> bl <> [] -> Forall fits_block bl ->
  spec_frames (rs_string itoa bl) = Some (enum_all bl).
Proof.
  intros bl HWF Hne F. rewrite (rs_string_spec_if bl HWF Hne), (blocks_fit bl F). reflexivity.
Qed.

Theorem rs_string_reparses : forall bl, WF bl -> bl <> [] -> Forall fits_block bl ->
  exists f, new_frameset (rs_string itoa bl) = Ok f /\ fs_frames f = enum_all bl.
Proof.
  intros bl HWF Hne F.
  destruct (spec_to_model _ _ (rs_string_spec bl HWF Hne F)) as (f & A & B & _).
  exists f. split; assumption.
Qed.

(** * the members of a parsed frame set fit an int *)

Lemma fits_between : forall a b v, fits_int a = true -> fits_int b = true ->
  (a <= v <= b \/ b <= v <= a) -> fits_int v = true.
Proof.
  intros a b v Ha Hb H. unfold fits_int in *.
  rewrite andb_true_iff, !Z.leb_le in *. lia.
Qed.

Lemma walk_bounds : forall a b k v, 0 < k -> In v (walk a b k) ->
  a <= v <= b \/ b <= v <= a.
Proof.
  intros a b k v Hk H. rewrite walk_run in H. apply run_In in H.
  destruct H as [i [Hi ->]].
  assert (D : 0 <= Z.abs (b - a) / k) by (apply Z.div_pos; lia).
  assert (I : Z.of_nat i <= Z.abs (b - a) / k) by lia.
  pose proof (Z.mul_div_le (Z.abs (b - a)) k Hk) as M.
  assert (N : k * Z.of_nat i <= Z.abs (b - a)) by nia.
  destruct (Z.leb_spec a b); [left | right]; nia.
Qed.

Lemma expand_bounds : forall c v, comp_nonzero c = true -> In v (expand c) ->
  match c with
  | CSingle a => v = a
  | CRange a b | CStep a b _ _ => a <= v <= b \/ b <= v <= a
  end.
Proof.
  intros [a|a b|a b md n] v NZ H; cbn [expand] in H.
  - destruct H as [H|[]]. congruence.
  - apply (walk_bounds a b 1); [lia | exact H].
  - cbn [comp_nonzero] in NZ. apply negb_true_iff, Z.eqb_neq in NZ.
    destruct (Nat.eqb md 120); [apply (walk_bounds a b (Z.abs n)); [lia | exact H]|].
    destruct (Nat.eqb md 121).
    + apply filter_In in H. destruct H as [H _]. apply (walk_bounds a b 1); [lia | exact H].
    + apply in_flat_map in H. destruct H as [i [Hi H]]. apply in_seq in Hi.
      apply (walk_bounds a b (Z.abs n - Z.of_nat i)); [lia | exact H].
Qed.

Lemma expand_fits : forall c v, comp_fits c = true -> comp_nonzero c = true ->
  In v (expand c) -> fits_int v = true.
Proof.
  intros c v F NZ H. pose proof (expand_bounds c v NZ H) as B.
  destruct c as [a|a b|a b md n]; cbn [comp_fits] in F.
  - subst v. exact F.
  - apply andb_true_iff in F. destruct F as [Fa Fb]. exact (fits_between a b v Fa Fb B).
  - apply andb_true_iff in F. destruct F as [F _].
    apply andb_true_iff in F. destruct F as [Fa Fb]. exact (fits_between a b v Fa Fb B).
Qed.

Lemma spec_frames_fit : forall s l, spec_frames s = Some l ->
  Forall (fun v => fits_int v = true) l.
Proof.
  intros s l H. unfold spec_frames in H.
  destruct (gparse (strip s)) as [cs|]; [|discriminate].
  destruct (forallb comp_fits cs && forallb comp_nonzero cs) eqn:B; [|discriminate].
  injection H as <-. apply andb_true_iff in B. destruct B as [F NZ].
  rewrite forallb_forall in F, NZ.
  apply Forall_forall. intros v Hv. unfold denote in Hv.
  apply dedup_first_In in Hv. destruct Hv as [Hv _].
  apply in_flat_map in Hv. destruct Hv as [c [Hc Hv]].
  exact (expand_fits c v (F c Hc) (NZ c Hc) Hv).
Qed.

Theorem frames_fit : forall s f, new_frameset s = Ok f ->
  Forall (fun v => fits_int v = true) (fs_frames f).
Proof.
  intros s f H. pose proof (parse_denotes s) as P. rewrite H in P.
  destruct P as [P _]. exact (spec_frames_fit s _ P).
Qed.

(** * the blocks of Normalize / Invert fit *)

(** no two members further apart than an int *)
Definition span_ok (l : list Z) : Prop :=
  forall a b, In a l -> In b l -> fits_int (b - a) = true.

Lemma small_span_ok : forall l, Forall small l -> span_ok l.
Proof.
  intros l H a b Ha Hb. rewrite Forall_forall in H.
  apply small_diff_fits; apply H; assumption.
Qed.

Lemma span_ok_bound : forall l, zmax_list l - zmin_list l <= int_max -> span_ok l.
Proof.
  intros l H a b Ha Hb.
  assert (Hl : l <> []) by (intros E; subst l; destruct Ha).
  rewrite zmin_list_lmin, zmax_list_lmax in H.
  destruct (lmin_hd l Hl) as [_ Lmin]. destruct (lmax_hd l Hl) as [_ Lmax].
  pose proof (Lmin a Ha). pose proof (Lmin b Hb). pose proof (Lmax a Ha). pose proof (Lmax b Hb).
  unfold fits_int. rewrite andb_true_iff, !Z.leb_le. unfold int_min, int_max in *. lia.
Qed.

Lemma block_fits_members : forall r, wf r ->
  (forall v, In v (enum r) -> fits_int v = true) ->
  (forall a b, In a (enum r) -> In b (enum r) -> fits_int (b - a) = true) ->
  comp_fits (block_comp r) = true.
Proof.
  intros r H F D.
  pose proof (start_In_enum r H) as Is.
  assert (Ie : In (ir_end r) (enum r)).
  { destruct (enum_snoc r H) as [l E]. rewrite E. apply in_or_app. right. left. reflexivity. }
  unfold block_comp. destruct (Z.eqb_spec (ir_end r) (r_start r)) as [E|E]; [exact (F _ Is)|].
  destruct (big_step (r_step r)); cbn [comp_fits]; rewrite (F _ Is), (F _ Ie); [|reflexivity].
  cbn [andb].
  assert (I1 : In (r_start r + r_step r) (enum r)).
  { apply (enum_In_iff r _ H). exists 1. split; [|lia].
    pose proof (cnt_nonneg r H) as Hn. pose proof (ir_end_cnt r H) as Hc.
    assert (cnt r <> 0) by (intros Z0; rewrite Z0 in Hc; lia). lia. }
  replace (r_step r) with ((r_start r + r_step r) - r_start r) by lia.
  exact (D _ _ Is I1).
Qed.

Lemma blocks_fit_members : forall bl, Forall wf bl ->
  (forall v, In v (enum_all bl) -> fits_int v = true) ->
  (forall a b, In a (enum_all bl) -> In b (enum_all bl) -> fits_int (b - a) = true) ->
  forallb comp_fits (map block_comp bl) = true.
Proof.
  intros bl H F D. apply forallb_forall. intros c Hc. apply in_map_iff in Hc.
  destruct Hc as [r [<- Hr]].
  assert (Sub : forall v, In v (enum r) -> In v (enum_all bl)).
  { intros v Hv. unfold enum_all. apply in_flat_map. exists r. split; assumption. }
  rewrite Forall_forall in H.
  apply block_fits_members; [apply H; exact Hr | |]; intros; [apply F | apply D]; apply Sub; assumption.
Qed.

Lemma complement_bounds : forall l v, In v (complement l) -> zmin_list l < v < zmax_list l.
Proof.
  intros l v H. unfold complement in H. apply filter_In in H. destruct H as [H _].
  apply in_map_iff in H. destruct H as [i [<- Hi]]. apply in_seq in Hi. lia.
Qed.

Lemma normalized_fit : forall s f, new_frameset s = Ok f -> fs_frames f <> [] ->
  span_ok (fs_frames f) ->
  forallb comp_fits (map block_comp (normalized false (fs_blocks f))) = true.
Proof.
  intros s f H Hne SP.
  pose proof (new_frameset_WF s f H) as [Hwf _].
  pose proof (blocks_nonempty s f H Hne) as Hb.
  destruct (normalized_members (fs_blocks f) Hwf Hb) as [Hwf' Heq].
  pose proof (frames_fit s f H) as FF. rewrite Forall_forall in FF.
  rewrite <- (fs_frames_enum_all s f H) in Heq.
  apply blocks_fit_members; [exact Hwf' | |]; rewrite Heq.
  - intros v Hv. apply (proj1 (In_sort_dedup _ _)) in Hv. apply FF. exact Hv.
  - intros a b Ha Hb'. apply (proj1 (In_sort_dedup _ _)) in Ha.
    apply (proj1 (In_sort_dedup _ _)) in Hb'. apply SP; assumption.
Qed.

Lemma inverted_fit : forall s f, new_frameset s = Ok f -> fs_frames f <> [] ->
  span_ok (fs_frames f) ->
  forallb comp_fits (map block_comp (normalized true (fs_blocks f))) = true.
Proof.
  intros s f H Hne SP.
  pose proof (new_frameset_WF s f H) as [Hwf _].
  pose proof (blocks_nonempty s f H Hne) as Hb.
  destruct (inverted_members (fs_blocks f) Hwf Hb) as [Hwf' Heq].
  pose proof (frames_fit s f H) as FF. rewrite Forall_forall in FF.
  rewrite <- (fs_frames_enum_all s f H) in Heq.
  set (L := fs_frames f) in *.
  assert (Ilo : In (zmin_list L) L) by (rewrite zmin_list_lmin; apply lmin_hd; exact Hne).
  assert (Ihi : In (zmax_list L) L) by (rewrite zmax_list_lmax; apply lmax_hd; exact Hne).
  apply blocks_fit_members; [exact Hwf' | |]; rewrite Heq.
  - intros v Hv. apply complement_bounds in Hv.
    apply (fits_between (zmin_list L) (zmax_list L)); [apply FF; exact Ilo | apply FF; exact Ihi | lia].
  - intros a b Ha Hb'. apply complement_bounds in Ha, Hb'.
    apply (fits_between (zmin_list L - zmax_list L) (zmax_list L - zmin_list L));
      [apply SP; assumption | apply SP; assumption | lia].
Qed.

(** * FrameSet level *)

Lemma rs_iter_nonempty : forall bl, rs_iter bl <> [] -> bl <> [].
Proof. intros bl H E. apply H. rewrite E. reflexivity. Qed.

Lemma no_frames_no_blocks : forall s f, new_frameset s = Ok f -> fs_frames f = [] -> fs_blocks f = [].
Proof.
  intros s f H E. pose proof (new_frameset_WF s f H) as [Hwf _].
  rewrite (fs_frames_enum_all s f H) in E.
  destruct (fs_blocks f) as [|b bl] eqn:B; [reflexivity|].
  exfalso. apply (RangeBasics.enum_all_nonempty (b :: bl) Hwf); [discriminate | exact E].
Qed.

(** an accepted string can denote no frame at all ("1-5y1"); the model of
    Invert then yields the single block 0 (the scan runs over Min..Max = 0..0) *)
Lemma normalized_true_nil : normalized true [] = [mkR 0 0 1].
Proof. reflexivity. Qed.

Lemma normalized_blocks : forall invert s f, new_frameset s = Ok f ->
  (invert = false -> fs_frames f <> []) ->
  let bl := normalized invert (fs_blocks f) in WF bl /\ rs_iter bl = enum_all bl.
Proof.
  intros invert s f H Hne bl.
  assert (W : WF bl).
  { destruct (fs_frames f) as [|a l] eqn:E.
    - destruct invert; [|exfalso; apply Hne; reflexivity].
      unfold bl. rewrite (no_frames_no_blocks s f H E), normalized_true_nil.
      split; [repeat constructor; unfold wf; cbn; lia|].
      cbn. repeat constructor. intros [].
    - pose proof (new_frameset_WF s f H) as [Hwf _].
      apply normalized_WF; [exact Hwf|].
      eapply blocks_nonempty; [exact H | rewrite E; discriminate]. }
  split; [exact W | apply rs_iter_enum_all; apply W].
Qed.

Lemma inverted_fit_all : forall s f, new_frameset s = Ok f -> span_ok (fs_frames f) ->
  forallb comp_fits (map block_comp (normalized true (fs_blocks f))) = true.
Proof.
  intros s f H SP. destruct (fs_frames f) as [|a l] eqn:E.
  - rewrite (no_frames_no_blocks s f H E), normalized_true_nil. reflexivity.
  - apply (inverted_fit s f H); [rewrite E; discriminate | rewrite E; exact SP].
Qed.

(** a printed block list that the parser accepts denotes its values, whatever
    the size of the numbers *)
Lemma rs_string_accepted : forall bl g, WF bl -> bl <> [] ->
  new_frameset (rs_string itoa bl) = Ok g -> fs_frames g = enum_all bl.
Proof.
  intros bl g HWF Hne H. pose proof (parse_denotes (rs_string itoa bl)) as P.
  rewrite H in P. destruct P as [P _]. rewrite (rs_string_spec_if bl HWF Hne) in P.
  destruct (forallb comp_fits (map block_comp bl)); [|discriminate].
  injection P as P. symmetry. exact P.
Qed.

Lemma rs_string_spec_fit : forall bl, WF bl -> bl <> [] ->
  forallb comp_fits (map block_comp bl) = true ->
  spec_frames (rs_string itoa bl) = Some (enum_all bl).
Proof. intros bl HWF Hne F. rewrite (rs_string_spec_if bl HWF Hne), F. reflexivity. Qed.

Lemma normalize_frames_nonempty : forall s f, new_frameset s = Ok f -> fs_frames f <> [] ->
  fs_frames (fs_normalize f) <> [].
Proof.
  intros s f H Hne. rewrite (normalize_members s f H Hne).
  destruct (fs_frames f) as [|a l] eqn:E; [congruence|].
  intros Z0. assert (I : In a (sort_dedup (a :: l))) by (apply In_sort_dedup; left; reflexivity).
  rewrite Z0 in I. destruct I.
Qed.

(** the spec value of the strings stored by Normalize and Invert *)
Lemma normalize_string_spec : forall s f, new_frameset s = Ok f -> fs_frames f <> [] ->
  span_ok (fs_frames f) ->
  spec_frames (fs_range (fs_normalize f)) = Some (fs_frames (fs_normalize f)).
Proof.
  intros s f H Hne SP.
  destruct (normalized_blocks false s f H (fun _ => Hne)) as [W It].
  pose proof (normalize_frames_nonempty s f H Hne) as Hn.
  unfold fs_normalize, fs_frames in *. cbn [fs_range fs_blocks] in *.
  rewrite It.
  exact (rs_string_spec_fit _ W (rs_iter_nonempty _ Hn) (normalized_fit s f H Hne SP)).
Qed.

Lemma inverted_string_spec : forall s f, new_frameset s = Ok f ->
  fs_frames (fs_invert f) <> [] -> span_ok (fs_frames f) ->
  spec_frames (fs_range (fs_invert f)) = Some (fs_frames (fs_invert f)).
Proof.
  intros s f H Hn SP.
  destruct (normalized_blocks true s f H ltac:(discriminate)) as [W It].
  unfold fs_invert, fs_frames in *. cbn [fs_range fs_blocks] in *.
  rewrite It.
  exact (rs_string_spec_fit _ W (rs_iter_nonempty _ Hn) (inverted_fit_all s f H SP)).
Qed.

Theorem normalize_string_reparses : forall s f, new_frameset s = Ok f -> fs_frames f <> [] ->
  span_ok (fs_frames f) ->
  exists g, new_frameset (fs_range (fs_normalize f)) = Ok g /\
            fs_frames g = fs_frames (fs_normalize f).
Proof.
  intros s f H Hne SP.
  destruct (spec_to_model _ _ (normalize_string_spec s f H Hne SP)) as (g & A & B & _).
  exists g. split; assumption.
Qed.

Theorem inverted_string_reparses : forall s f, new_frameset s = Ok f ->
  fs_frames (fs_invert f) <> [] -> span_ok (fs_frames f) ->
  exists g, new_frameset (fs_range (fs_invert f)) = Ok g /\
            fs_frames g = fs_frames (fs_invert f).
Proof.
  intros s f H Hn SP.
  destruct (spec_to_model _ _ (inverted_string_spec s f H Hn SP)) as (g & A & B & _).
  exists g. split; assumption.
Qed.

Theorem inverted_padded_same_members : forall s f w, new_frameset s = Ok f ->
  fs_frames (fs_invert f) <> [] -> span_ok (fs_frames f) ->
  exists g, new_frameset (fs_inverted_frame_range f w) = Ok g /\
            fs_frames g = fs_frames (fs_invert f).
Proof.
  intros s f w H Hn SP.
  pose proof (inverted_string_spec s f H Hn SP) as SPEC.
  assert (E : spec_frames (fs_inverted_frame_range f w) = Some (fs_frames (fs_invert f))).
  { unfold fs_inverted_frame_range. change (rs_string itoa (normalized true (fs_blocks f)))
      with (fs_range (fs_invert f)).
    destruct (w >? 1); [rewrite pad_preserves_parse|]; exact SPEC. }
  destruct (spec_to_model _ _ E) as (g & A & B & _).
  exists g. split; assumption.
Qed.

Theorem inverted_empty_string : forall s f, new_frameset s = Ok f -> fs_frames f <> [] ->
  fs_frames (fs_invert f) = [] -> fs_range (fs_invert f) = [].
Proof.
  intros s f H Hne E.
  destruct (normalized_blocks true s f H ltac:(discriminate)) as [[Hwf _] It].
  unfold fs_invert, fs_frames in *. cbn [fs_range fs_blocks] in *.
  rewrite It in E.
  destruct (normalized true (fs_blocks f)) as [|b bl]; [reflexivity|].
  exfalso. apply (RangeBasics.enum_all_nonempty (b :: bl) Hwf); [discriminate | exact E].
Qed.

(** no size condition here: the string is assumed to be accepted *)
Theorem normalize_idempotent_string : forall s f g, new_frameset s = Ok f -> fs_frames f <> [] ->
  new_frameset (fs_range (fs_normalize f)) = Ok g ->
  fs_range (fs_normalize g) = fs_range (fs_normalize f).
Proof.
  intros s f g H Hne G.
  destruct (normalized_blocks false s f H (fun _ => Hne)) as [W It].
  pose proof (normalize_frames_nonempty s f H Hne) as Hn.
  pose proof (normalize_members s f H Hne) as M.
  assert (Fg : fs_frames g = fs_frames (fs_normalize f)).
  { unfold fs_normalize, fs_frames in Hn, G |- *. cbn [fs_range fs_blocks] in *.
    rewrite It. exact (rs_string_accepted _ g W (rs_iter_nonempty _ Hn) G). }
  assert (Hg : fs_frames g <> []) by (rewrite Fg; exact Hn).
  unfold fs_normalize. cbn [fs_range]. f_equal.
  apply (normalize_members_only false _ g s f G H Hg Hne).
  intros v. rewrite Fg, M. apply In_sort_dedup.
Qed.

(** the same statements under the window of CompressProofs *)
Corollary normalize_string_reparses_small : forall s f, new_frameset s = Ok f ->
  fs_frames f <> [] -> Forall small (fs_frames f) ->
  exists g, new_frameset (fs_range (fs_normalize f)) = Ok g /\
            fs_frames g = fs_frames (fs_normalize f).
Proof. intros s f H Hne SM. apply (normalize_string_reparses s f H Hne), small_span_ok, SM. Qed.

Corollary inverted_padded_same_members_small : forall s f w, new_frameset s = Ok f ->
  fs_frames (fs_invert f) <> [] -> Forall small (fs_frames f) ->
  exists g, new_frameset (fs_inverted_frame_range f w) = Ok g /\
            fs_frames g = fs_frames (fs_invert f).
Proof. intros s f w H Hn SM. apply (inverted_padded_same_members s f w H Hn), small_span_ok, SM. Qed.

(** * the size condition is needed

    Two frames further apart than an int: Normalize joins them into one block
    whose step is their distance, and the printed step is rejected by Atoi.
    (In the implementation the scan over Min..Max would not finish; the model
    has no such limit, and int arithmetic would wrap long before.) *)

Lemma enum_point : forall a, enum (mkR a a 1) = [a].
Proof.
  intros a. unfold enum, enum_count. cbn [r_start r_end r_step].
  rewrite Z.sub_diag. change (Z.to_nat (Z.abs 0 / Z.abs 1 + 1)) with 1%nat.
  cbn [seq map]. f_equal. lia.
Qed.

Lemma wf_point : forall a, wf (mkR a a 1).
Proof. intros a. unfold wf. cbn. lia. Qed.

Lemma zfrom_snoc : forall lo n, zfrom lo (S n) = zfrom lo n ++ [lo + Z.of_nat n].
Proof. intros lo n. unfold zfrom. rewrite seq_S, map_app. reflexivity. Qed.

Lemma skip_run : forall bl m cur st,
  (forall v, cur <= v < cur + Z.of_nat m -> rs_contains bl v = false) ->
  n_pending st = 1 ->
  fold_left (norm_step false bl) (zfrom cur m) st =
  mkN (n_start st) (n_end st) (n_step st + Z.of_nat m) 1 (n_out st).
Proof.
  intros bl m. induction m as [|m IH]; intros cur [s e stp p out] Hc Hp;
    cbn [n_start n_end n_step n_pending n_out] in *; subst p.
  - cbn [zfrom map seq fold_left]. f_equal. lia.
  - rewrite zfrom_S. cbn [fold_left]. unfold norm_step at 2.
    rewrite (Hc cur) by lia. cbn [negb n_pending n_start n_end n_step n_out Z.ltb Z.compare Pos.compare Pos.compare_cont].
    rewrite IH; [|intros v Hv; apply Hc; lia | reflexivity].
    cbn [n_start n_end n_step n_pending n_out]. f_equal. lia.
Qed.

Lemma keep_first : forall bl cur, rs_contains bl cur = true ->
  norm_step false bl (mkN 0 0 0 0 []) cur = mkN cur cur 1 1 [].
Proof. intros bl cur H. unfold norm_step. rewrite H. reflexivity. Qed.

Lemma keep_second : forall bl cur s e stp out, rs_contains bl cur = true ->
  norm_step false bl (mkN s e stp 1 out) cur = mkN s cur stp 2 out.
Proof. intros bl cur s e stp out H. unfold norm_step. rewrite H. reflexivity. Qed.

Lemma two_point_normalized : forall lo hi, lo < hi ->
  normalized false [mkR lo lo 1; mkR hi hi 1] = [mkR lo hi (hi - lo)].
Proof.
  intros lo hi Hlt. set (bl := [mkR lo lo 1; mkR hi hi 1]).
  assert (Hw : Forall wf bl) by (constructor; [apply wf_point|constructor; [apply wf_point|constructor]]).
  assert (En : enum_all bl = [lo; hi]).
  { unfold bl, enum_all. cbn [flat_map]. rewrite !enum_point. reflexivity. }
  assert (Cin : forall v, rs_contains bl v = true <-> (v = lo \/ v = hi)).
  { intros v. rewrite (rs_contains_In bl v Hw), En. cbn [In]. intuition. }
  assert (Cout : forall v, lo < v < hi -> rs_contains bl v = false).
  { intros v Hv. destruct (rs_contains bl v) eqn:E; [|reflexivity].
    apply Cin in E. lia. }
  assert (Clo : rs_contains bl lo = true) by (apply Cin; left; reflexivity).
  assert (Chi : rs_contains bl hi = true) by (apply Cin; right; reflexivity).
  destruct (rs_min_max_props bl Hw ltac:(discriminate)) as ((Imin & Lmin) & (Imax & Lmax)).
  rewrite En in *.
  assert (Emin : rs_min bl = lo).
  { pose proof (Lmin lo (or_introl eq_refl)). destruct Imin as [E|[E|[]]]; lia. }
  assert (Emax : rs_max bl = hi).
  { pose proof (Lmax hi (or_intror (or_introl eq_refl))). destruct Imax as [E|[E|[]]]; lia. }
  unfold normalized. rewrite Emin, Emax.
  assert (Hwt : wf (new_range lo hi 1)) by (apply (run_wf lo hi 1 (hi - lo + 1)); lia).
  rewrite (ir_iter_enum _ Hwt), (enum_run lo hi 1 (hi - lo + 1)) by lia.
  assert (Hz : pendv lo 1 (hi - lo + 1) = zfrom lo (Z.to_nat (hi - lo + 1))).
  { unfold pendv, zfrom. apply map_ext. intros i. lia. }
  rewrite Hz.
  set (m := Z.to_nat (hi - lo - 1)).
  replace (Z.to_nat (hi - lo + 1)) with (S (S m)) by lia.
  rewrite zfrom_S, zfrom_snoc. cbn [fold_left]. rewrite fold_left_app. cbn [fold_left].
  rewrite (keep_first bl lo Clo).
  rewrite skip_run; [|intros v Hv; apply Cout; lia | reflexivity].
  cbn [n_start n_end n_step n_pending n_out].
  replace (lo + 1 + Z.of_nat m) with hi by lia.
  rewrite (keep_second bl hi _ _ _ _ Chi).
  cbn [n_start n_end n_step n_pending n_out]. change (2 >? 0) with true. cbv iota.
  unfold rs_append, new_range. cbn [app].
  replace (1 + Z.of_nat m) with (hi - lo) by lia.
  destruct (Z.eqb_spec (hi - lo) 0); [lia | reflexivity].
Qed.

Definition wide : bytes := s2b "-9223372036854775808,9223372036854775807".
Definition wide_fs : frameset := mkFS wide [mkR int_min int_min 1; mkR int_max int_max 1].

Lemma wide_parses : new_frameset wide = Ok wide_fs.
Proof. vm_compute. reflexivity. Qed.

Theorem span_needed :
  new_frameset wide = Ok wide_fs /\ fs_frames wide_fs = [int_min; int_max] /\
  fs_range (fs_normalize wide_fs) =
    s2b "-9223372036854775808-9223372036854775807x18446744073709551615" /\
  new_frameset (fs_range (fs_normalize wide_fs)) = Err E_INT.
Proof.
  split; [exact wide_parses|]. split; [vm_compute; reflexivity|].
  unfold fs_normalize, wide_fs. cbn [fs_range fs_blocks].
  rewrite (two_point_normalized int_min int_max) by (vm_compute; reflexivity).
  split; vm_compute; reflexivity.
Qed.

Print Assumptions block_string_parses.
Print Assumptions rs_string_spec.
Print Assumptions rs_string_reparses.
Print Assumptions frames_fit.
Print Assumptions normalize_string_reparses.
Print Assumptions inverted_string_reparses.
Print Assumptions inverted_padded_same_members.
Print Assumptions inverted_empty_string.
Print Assumptions normalize_idempotent_string.
Print Assumptions span_needed.

(** sanity: real outputs *)
Example str_ex1 :
  rs_string itoa (append_unique (append_unique [] (-5) (-1) 2) 10 1 (-3)) = s2b "-5--1x2,10-1x-3".
Proof. vm_compute. reflexivity. Qed.
Example str_ex2 : forall f, new_frameset (s2b "1-10x3,20-15") = Ok f ->
  fs_range (fs_normalize f) = s2b "1-4x3,7-10x3,15-20" /\
  fs_range (fs_invert f) = s2b "2-3,5-6,8-9,11-14" /\
  fs_inverted_frame_range f 3 = s2b "002-003,005-006,008-009,011-014".
Proof. intros f H. vm_compute in H. injection H as <-. vm_compute. repeat split. Qed.
