(** C06 / C07: the directory scan (findSequencesOnDisk, ListFiles) against the
    list API (FindSequencesInList), and what the pattern lookup
    (FindSequenceOnDiskPad) can return.

    The operating system is an oracle value: [readdir] is what
    Open/Readdir/Stat reported.

    Laws of filepath.Clean proved here from the definition of [path_clean]:
      - [path_clean_idem]        Clean (Clean p) = Clean p
      - [clean_child]            Clean (dir_prefix p ++ n) = dir_prefix p ++ n
      - [path_split_dir_name]    Split (d ++ "/" ++ n) = (d ++ "/", n)

    FINDINGS (both are concrete, see the [counterexample_*] lemmas):
      - a file name holding a backslash makes the list API build the item
        directory "a/b/\" where the scan builds "a/b/": the item equality at
        the heart of [on_disk_is_in_list] fails, so the theorem asks for
        names without backslash;
      - for a directory that cleans to "." the scan reports "./name" while the
        list API reports an empty directory ([on_disk_is_in_list_dot]). *)
From GFS Require Import Base Dec Regex GenRegex GenPadTables Ranges Pad FrameSet Compress Path Seq Listing.

Definition c_bslash : byte := 92.

Definition entry_name_ok (n : bytes) : Prop :=
  n <> [] /\ ~ In c_slash n /\ n <> [c_dot] /\ n <> [c_dot; c_dot].

(** names of the entries of kind KFile or KLinkFile, in order *)
Fixpoint non_dirs (ents : list (bytes * ekind)) : list bytes :=
  match ents with
  | [] => []
  | (n, k) :: r =>
    match k with
    | KFile | KLinkFile => n :: non_dirs r
    | _ => non_dirs r
    end
  end.

(** * Byte strings *)

Lemma dk_beq_iff : forall a b, beq a b = true <-> a = b.
Proof.
  induction a as [|x a IH]; destruct b as [|y b]; simpl; split; intro H;
    try discriminate; auto.
  - apply andb_true_iff in H. destruct H as [H1 H2].
    apply Nat.eqb_eq in H1. apply IH in H2. subst; auto.
  - inversion H; subst. rewrite Nat.eqb_refl. simpl. apply IH. auto.
Qed.

Lemma is_dot_iff : forall e, is_dot e = true <-> e = [c_dot].
Proof. intro e. unfold is_dot. apply dk_beq_iff. Qed.
Lemma is_dotdot_iff : forall e, is_dotdot e = true <-> e = [c_dot; c_dot].
Proof. intro e. unfold is_dotdot. apply dk_beq_iff. Qed.

Lemma firstn_skipn_len : forall (a b : bytes),
  firstn (List.length a) (a ++ b) = a /\ skipn (List.length a) (a ++ b) = b.
Proof.
  induction a as [|x a IH]; intro b; simpl; auto.
  destruct (IH b) as [H1 H2]. rewrite H1, H2. auto.
Qed.

(** ** split / join *)

Lemma split_on_none : forall c s, ~ In c s -> split_on c s = [s].
Proof.
  induction s as [|a s IH]; simpl; intro H; auto.
  destruct (Nat.eqb_spec a c) as [E|E].
  - exfalso. apply H. left. auto.
  - rewrite IH; auto.
Qed.

Lemma split_on_app_sep : forall c x r, ~ In c x ->
  split_on c (x ++ c :: r) = x :: split_on c r.
Proof.
  induction x as [|a x IH]; simpl; intros r H.
  - rewrite Nat.eqb_refl. reflexivity.
  - destruct (Nat.eqb_spec a c) as [E|E].
    + exfalso. apply H. left. auto.
    + rewrite IH; auto.
Qed.

Lemma join_cons2 : forall c x y r,
  join_with c (x :: y :: r) = x ++ c :: join_with c (y :: r).
Proof. reflexivity. Qed.

Lemma split_join : forall c E, E <> [] -> Forall (fun e => ~ In c e) E ->
  split_on c (join_with c E) = E.
Proof.
  induction E as [|x E IH]; intros Hne HF; [congruence|].
  inversion HF as [|? ? Hx HE]; subst.
  destruct E as [|y E].
  - simpl. apply split_on_none; auto.
  - rewrite join_cons2. rewrite split_on_app_sep; auto.
    f_equal. apply IH; auto. discriminate.
Qed.

Lemma split_on_parts : forall c s, Forall (fun e => ~ In c e) (split_on c s).
Proof.
  induction s as [|a s IH]; simpl.
  - constructor; auto.
  - destruct (Nat.eqb_spec a c) as [E|E].
    + constructor; auto.
    + destruct (split_on c s) as [|h t].
      * constructor; auto. intros [H|[]]. congruence.
      * inversion IH; subst. constructor; auto.
        intros [H|H]; [congruence|auto].
Qed.

Lemma join_snoc : forall c E a, E <> [] ->
  join_with c (E ++ [a]) = join_with c E ++ c :: a.
Proof.
  induction E as [|x E IH]; intros a Hne; [congruence|].
  destruct E as [|y E].
  - reflexivity.
  - change ((x :: y :: E) ++ [a]) with (x :: y :: (E ++ [a])).
    rewrite !join_cons2.
    change (y :: E ++ [a]) with ((y :: E) ++ [a]).
    rewrite IH by discriminate. rewrite <- app_assoc. reflexivity.
Qed.

Lemma join_last : forall c E a, exists P, join_with c (E ++ [a]) = P ++ a.
Proof.
  intros c E a. destruct E as [|x E].
  - exists []. reflexivity.
  - exists (join_with c (x :: E) ++ [c]).
    rewrite join_snoc by discriminate. rewrite <- app_assoc. reflexivity.
Qed.

Lemma join_head : forall E, E <> [] ->
  Forall (fun e => e <> [] /\ ~ In c_slash e) E ->
  exists c b, join_with c_slash E = c :: b /\ c <> c_slash.
Proof.
  intros E Hne HF. destruct E as [|e1 E]; [congruence|].
  inversion HF as [|? ? [H1 H2] _]; subst.
  destruct e1 as [|c e1]; [congruence|].
  assert (c <> c_slash) by (intro; subst; apply H2; left; auto).
  destruct E as [|y E].
  - exists c, e1. auto.
  - exists c, (e1 ++ c_slash :: join_with c_slash (y :: E)). auto.
Qed.

(** ** ends_with_byte, path_sep, path_split *)

Lemma ends_with_true : forall p c, ends_with_byte p c = true -> exists d, p = d ++ [c].
Proof.
  intros p c H. unfold ends_with_byte in H.
  destruct (rev p) as [|x l] eqn:E; [discriminate|].
  apply Nat.eqb_eq in H. subst x.
  exists (rev l). rewrite <- (rev_involutive p), E. reflexivity.
Qed.

Lemma ends_with_snoc : forall d c, ends_with_byte (d ++ [c]) c = true.
Proof.
  intros. unfold ends_with_byte. rewrite rev_app_distr. simpl. apply Nat.eqb_refl.
Qed.

Lemma ends_with_app_false : forall x a c, a <> [] -> ~ In c a ->
  ends_with_byte (x ++ a) c = false.
Proof.
  intros x a c Hne Hin. unfold ends_with_byte. rewrite rev_app_distr.
  destruct (rev a) as [|y l] eqn:E.
  - exfalso. apply Hne. rewrite <- (rev_involutive a), E. reflexivity.
  - simpl. apply Nat.eqb_neq. intro; subst y. apply Hin.
    apply in_rev. rewrite E. left. auto.
Qed.

Lemma path_sep_slash : forall p, ~ In c_bslash p -> path_sep p = c_slash.
Proof.
  intros p H. unfold path_sep.
  destruct (existsb (Nat.eqb 92) p) eqn:E; auto.
  apply existsb_exists in E. destruct E as (x & Hx & Hq).
  apply Nat.eqb_eq in Hq. subst x. contradiction.
Qed.

Lemma lif_none : forall c s i acc, ~ In c s -> last_index_from c s i acc = acc.
Proof.
  induction s as [|x s IH]; simpl; intros i acc H; auto.
  destruct (Nat.eqb_spec x c) as [E|E].
  - exfalso. apply H. left. auto.
  - apply IH. auto.
Qed.

Lemma lif_app : forall c x y i acc,
  last_index_from c (x ++ y) i acc =
  last_index_from c y (i + List.length x) (last_index_from c x i acc).
Proof.
  induction x as [|a x IH]; simpl; intros y i acc.
  - rewrite Nat.add_0_r. reflexivity.
  - rewrite IH. f_equal. lia.
Qed.

(** law (iii): filepath.Split cuts after the last separator *)
Lemma path_split_dir_name : forall d n, ~ In c_slash n ->
  path_split (d ++ [c_slash] ++ n) = (d ++ [c_slash], n).
Proof.
  intros d n H. unfold path_split, last_index.
  rewrite lif_app. simpl last_index_from. rewrite ?Nat.eqb_refl.
  rewrite lif_none by auto. simpl Nat.add.
  replace (S (List.length d)) with (List.length (d ++ [c_slash])) by (rewrite app_length; simpl; lia).
  rewrite app_assoc.
  destruct (firstn_skipn_len (d ++ [c_slash]) n) as [H1 H2].
  rewrite H1, H2. reflexivity.
Qed.

Lemma path_split_no_dir : forall n, ~ In c_slash n -> path_split n = ([], n).
Proof.
  intros n H. unfold path_split, last_index. rewrite lif_none; auto.
Qed.

(** * filepath.Clean *)

(** one element against the stack *)
Definition step (rooted : bool) (stack : list bytes) (e : bytes) : list bytes :=
  match e with
  | [] => stack
  | _ =>
    if is_dot e then stack
    else if is_dotdot e then
      match stack with
      | top :: below => if is_dotdot top then e :: stack else below
      | [] => if rooted then stack else e :: stack
      end
    else e :: stack
  end.

Lemma clean_elems_fold : forall r l s,
  clean_elems r l s = rev (fold_left (step r) l s).
Proof.
  induction l as [|e l IH]; intro s; [reflexivity|].
  simpl fold_left. rewrite <- IH.
  destruct e as [|c e]; [reflexivity|].
  simpl. destruct (is_dot (c :: e)); [reflexivity|].
  destruct (is_dotdot (c :: e)); [|reflexivity].
  destruct s as [|top below]; [destruct r; reflexivity|].
  destruct (is_dotdot top); reflexivity.
Qed.

(** what a stack of a cleaned path looks like (top first): no "", no ".",
    no separator inside an element, and ".." only on top of ".." in a
    relative path *)
Fixpoint good (rooted : bool) (S : list bytes) : Prop :=
  match S with
  | [] => True
  | a :: S' =>
    a <> [] /\ ~ In c_slash a /\ a <> [c_dot] /\
    (a = [c_dot; c_dot] ->
     rooted = false /\ match S' with [] => True | top :: _ => top = [c_dot; c_dot] end) /\
    good rooted S'
  end.

Lemma good_tail : forall r a S, good r (a :: S) -> good r S.
Proof. intros r a S H. simpl in H. tauto. Qed.

Lemma good_Forall : forall r S, good r S ->
  Forall (fun e => e <> [] /\ ~ In c_slash e) S.
Proof.
  induction S as [|a S IH]; intro H; constructor.
  - simpl in H. tauto.
  - apply IH. eapply good_tail; eauto.
Qed.

Lemma good_cons : forall r a S,
  a <> [] -> ~ In c_slash a -> a <> [c_dot] ->
  (a = [c_dot; c_dot] ->
   r = false /\ match S with [] => True | top :: _ => top = [c_dot; c_dot] end) ->
  good r S -> good r (a :: S).
Proof. intros. simpl. tauto. Qed.

Lemma step_good : forall r S e, good r S -> ~ In c_slash e -> good r (step r S e).
Proof.
  intros r S e G Hs. destruct e as [|c e]; [exact G|].
  unfold step.
  destruct (is_dot (c :: e)) eqn:Hd; [exact G|].
  assert (Hnd : c :: e <> [c_dot]).
  { intro E. apply is_dot_iff in E. congruence. }
  destruct (is_dotdot (c :: e)) eqn:Hdd.
  - destruct S as [|top below].
    + destruct r; [exact G|].
      apply good_cons; auto; discriminate.
    + destruct (is_dotdot top) eqn:Ht.
      * apply is_dotdot_iff in Ht.
        pose proof G as G'. simpl in G'. destruct G' as (_ & _ & _ & Hi & _).
        destruct (Hi Ht) as [Hr _].
        apply good_cons; auto; discriminate.
      * eapply good_tail; eauto.
  - apply good_cons; auto; try discriminate.
    intro E. apply is_dotdot_iff in E. congruence.
Qed.

Lemma fold_good : forall r l S, good r S -> Forall (fun e => ~ In c_slash e) l ->
  good r (fold_left (step r) l S).
Proof.
  induction l as [|e l IH]; intros S G HF; [exact G|].
  inversion HF; subst. simpl. apply IH; auto. apply step_good; auto.
Qed.

Lemma step_push : forall r a S, good r (a :: S) -> step r S a = a :: S.
Proof.
  intros r a S G. simpl in G. destruct G as (Hne & _ & Hnd & Hi & _).
  destruct a as [|c a]; [congruence|].
  unfold step.
  destruct (is_dot (c :: a)) eqn:Hd.
  { apply is_dot_iff in Hd. congruence. }
  destruct (is_dotdot (c :: a)) eqn:Hdd; [|reflexivity].
  apply is_dotdot_iff in Hdd. destruct (Hi Hdd) as [Hr Ht].
  destruct S as [|top below].
  - rewrite Hr. reflexivity.
  - apply is_dotdot_iff in Ht. rewrite Ht. reflexivity.
Qed.

Lemma fold_rev_good : forall r S, good r S -> fold_left (step r) (rev S) [] = S.
Proof.
  induction S as [|a S IH]; intro G; [reflexivity|].
  simpl rev. rewrite fold_left_app. rewrite IH by (eapply good_tail; eauto).
  simpl. apply step_push. exact G.
Qed.

(** the text of a cleaned path, from its stack *)
Definition render (rooted : bool) (S : list bytes) : bytes :=
  let body := join_with c_slash (rev S) in
  if rooted then c_slash :: body
  else match body with [] => [c_dot] | _ => body end.

(** every result of filepath.Clean is the text of a good stack *)
Lemma path_clean_render : forall p, exists r S, good r S /\ path_clean p = render r S.
Proof.
  intro p. destruct p as [|c p].
  - exists false, []. simpl. auto.
  - exists (Nat.eqb c c_slash), (fold_left (step (Nat.eqb c c_slash)) (split_on c_slash (c :: p)) []).
    split.
    + apply fold_good; [exact I|]. apply split_on_parts.
    + unfold path_clean, render. rewrite clean_elems_fold. reflexivity.
Qed.

Lemma path_clean_rooted : forall b,
  path_clean (c_slash :: b) =
  c_slash :: join_with c_slash (clean_elems true (split_on c_slash b) []).
Proof.
  intro b. unfold path_clean. rewrite Nat.eqb_refl.
  cbn [split_on]. rewrite Nat.eqb_refl. reflexivity.
Qed.

Lemma path_clean_unrooted : forall c b, c <> c_slash ->
  path_clean (c :: b) =
  match join_with c_slash (clean_elems false (split_on c_slash (c :: b)) []) with
  | [] => [c_dot]
  | x => x
  end.
Proof.
  intros c b H. unfold path_clean.
  destruct (Nat.eqb_spec c c_slash) as [E|E]; [contradiction|].
  destruct (join_with c_slash (clean_elems false (split_on c_slash (c :: b)) [])); reflexivity.
Qed.

Lemma noslash_rev : forall r S, good r S -> Forall (fun e => ~ In c_slash e) (rev S).
Proof.
  intros r S G. apply Forall_rev. apply good_Forall in G.
  eapply Forall_impl; [|exact G]. simpl. tauto.
Qed.

Lemma clean_rev_good : forall r S, good r S -> S <> [] ->
  clean_elems r (split_on c_slash (join_with c_slash (rev S))) [] = rev S.
Proof.
  intros r S G Hne. rewrite split_join.
  - rewrite clean_elems_fold. rewrite fold_rev_good; auto.
  - intro E. apply Hne. rewrite <- (rev_involutive S), E. reflexivity.
  - eapply noslash_rev; eauto.
Qed.

(** the text of a good stack is a fixed point of Clean *)
Lemma clean_render : forall r S, good r S -> path_clean (render r S) = render r S.
Proof.
  intros r S G. destruct r.
  - unfold render. rewrite path_clean_rooted.
    destruct S as [|a S]; [reflexivity|].
    rewrite clean_rev_good; auto. discriminate.
  - destruct S as [|a S]; [reflexivity|].
    unfold render.
    destruct (join_head (rev (a :: S))) as (c & b & Hj & Hc).
    { simpl. intro E. apply app_eq_nil in E. destruct E; discriminate. }
    { apply Forall_rev. eapply good_Forall; eauto. }
    assert (Hfix : path_clean (join_with c_slash (rev (a :: S))) = join_with c_slash (rev (a :: S))).
    { rewrite Hj at 1. rewrite path_clean_unrooted by auto. rewrite <- Hj.
      rewrite clean_rev_good by (auto; discriminate).
      rewrite Hj. reflexivity. }
    rewrite Hj in *. exact Hfix.
Qed.

(** law (i) *)
Theorem path_clean_idem : forall p, path_clean (path_clean p) = path_clean p.
Proof.
  intro p. destruct (path_clean_render p) as (r & S & G & H).
  rewrite H. apply clean_render. exact G.
Qed.

Lemma good_child : forall r S n, good r S -> entry_name_ok n -> good r (n :: S).
Proof.
  intros r S n G (H1 & H2 & H3 & H4). simpl. repeat split; auto; congruence.
Qed.

Lemma render_child : forall r S n, good r S -> entry_name_ok n ->
  render r S <> [c_dot] ->
  (if ends_with_byte (render r S) c_slash then render r S else render r S ++ [c_slash]) ++ n
  = render r (n :: S).
Proof.
  intros r S n G Hn Hdot.
  destruct S as [|a S].
  - destruct r; [reflexivity|]. exfalso. apply Hdot. reflexivity.
  - assert (Ha : a <> [] /\ ~ In c_slash a) by (simpl in G; tauto).
    destruct Ha as [Ha1 Ha2].
    assert (HE : rev (a :: S) <> []).
    { simpl. intro E. apply app_eq_nil in E. destruct E; discriminate. }
    destruct (join_last c_slash (rev S) a) as [P HP].
    change (rev S ++ [a]) with (rev (a :: S)) in HP.
    assert (Hj : join_with c_slash (rev (n :: a :: S)) =
                 join_with c_slash (rev (a :: S)) ++ c_slash :: n).
    { change (rev (n :: a :: S)) with (rev (a :: S) ++ [n]). apply join_snoc. exact HE. }
    destruct r.
    + unfold render. rewrite Hj.
      replace (ends_with_byte (c_slash :: join_with c_slash (rev (a :: S))) c_slash) with false.
      * simpl. rewrite <- app_assoc. reflexivity.
      * rewrite HP. symmetry. apply (ends_with_app_false (c_slash :: P)); auto.
    + unfold render. rewrite Hj.
      assert (Hne : join_with c_slash (rev (a :: S)) <> []).
      { rewrite HP. intro E. apply app_eq_nil in E. tauto. }
      destruct (join_with c_slash (rev (a :: S))) as [|x l] eqn:Ej; [congruence|].
      replace (ends_with_byte (x :: l) c_slash) with false.
      * simpl. rewrite <- app_assoc. reflexivity.
      * rewrite HP. symmetry. apply ends_with_app_false; auto.
Qed.

(** law (ii): a name appended to the prefix of a cleaned directory is clean *)
Theorem clean_child : forall path n,
  ~ In c_bslash (path_clean path) -> path_clean path <> [c_dot] -> entry_name_ok n ->
  path_clean (dir_prefix path ++ n) = dir_prefix path ++ n.
Proof.
  intros path n Hb Hd Hn. unfold dir_prefix. rewrite path_sep_slash by auto.
  destruct (path_clean_render path) as (r & S & G & H).
  rewrite H in *. rewrite render_child by auto.
  apply clean_render. apply good_child; auto.
Qed.

(** law (ii) in the wording of the task: [d] is a cleaned directory *)
Corollary clean_join : forall d n,
  path_clean d = d -> ~ In c_bslash d -> d <> [c_dot] -> entry_name_ok n ->
  ends_with_byte d c_slash = false ->
  path_clean (d ++ [c_slash] ++ n) = d ++ [c_slash] ++ n.
Proof.
  intros d n Hc Hb Hd Hn He.
  pose proof (clean_child d n) as H. unfold dir_prefix in H.
  rewrite Hc in H. rewrite path_sep_slash in H by auto. rewrite He in H.
  rewrite <- app_assoc in H. apply H; auto.
Qed.

Corollary clean_root_child : forall n, entry_name_ok n ->
  path_clean ([c_slash] ++ n) = [c_slash] ++ n.
Proof.
  intros n Hn. apply (clean_child [c_slash] n); auto.
  - simpl. intros [H|[]]. discriminate.
  - discriminate.
Qed.

Lemma dir_prefix_ends : forall path, ~ In c_bslash (path_clean path) ->
  exists d, dir_prefix path = d ++ [c_slash].
Proof.
  intros path Hb. unfold dir_prefix. rewrite path_sep_slash by auto.
  destruct (ends_with_byte (path_clean path) c_slash) eqn:E.
  - apply ends_with_true in E. exact E.
  - eauto.
Qed.

Lemma dir_prefix_no_bslash : forall path, ~ In c_bslash (path_clean path) ->
  ~ In c_bslash (dir_prefix path).
Proof.
  intros path Hb. unfold dir_prefix. rewrite path_sep_slash by auto.
  destruct (ends_with_byte (path_clean path) c_slash); auto.
  intro H. apply in_app_or in H. destruct H as [H|[H|[]]]; [auto|discriminate].
Qed.

(** the heart of C06 *)
Theorem item_of_path_child : forall path n,
  ~ In c_bslash (path_clean path) -> path_clean path <> [c_dot] ->
  entry_name_ok n -> ~ In c_bslash n ->
  item_of_path (dir_prefix path ++ n) = mkItem (dir_prefix path) n.
Proof.
  intros path n Hb Hd Hn Hnb. unfold item_of_path.
  rewrite clean_child by auto.
  rewrite path_sep_slash.
  2:{ intro H. apply in_app_or in H. destruct H; [|auto].
      eapply dir_prefix_no_bslash; eauto. }
  destruct (dir_prefix_ends path Hb) as [d Hdp]. rewrite Hdp.
  rewrite <- app_assoc. rewrite path_split_dir_name by (destruct Hn; tauto).
  rewrite ends_with_snoc.
  destruct (d ++ [c_slash]) eqn:E; [|reflexivity].
  apply app_eq_nil in E. destruct E; discriminate.
Qed.

(** * C06: the scan *)

Lemma non_dirs_in : forall ents n, In n (non_dirs ents) -> exists k, In (n, k) ents.
Proof.
  induction ents as [|[m k] r IH]; simpl; intros n H; [contradiction|].
  destruct k; simpl in H;
    try (destruct H as [H|H]; [subst; eexists; left; reflexivity|]);
    destruct (IH n H) as [k' Hk]; exists k'; right; exact Hk.
Qed.

Lemma disk_items_ok : forall prefix ents,
  (forall n, ~ In (n, KLinkDangling) ents) ->
  disk_items prefix ents = Ok (map (mkItem prefix) (non_dirs ents)).
Proof.
  induction ents as [|[m k] r IH]; intro H; [reflexivity|].
  assert (Hr : forall n, ~ In (n, KLinkDangling) r).
  { intros n Hn. apply (H n). right. exact Hn. }
  destruct k; simpl; try rewrite (IH Hr); try reflexivity.
  exfalso. apply (H m). left. reflexivity.
Qed.

Theorem on_disk_is_in_list : forall path ents opts,
  Forall (fun e => entry_name_ok (fst e)) ents ->
  Forall (fun e => ~ In c_bslash (fst e)) ents ->
  (forall n, ~ In (n, KLinkDangling) ents) ->
  ~ In c_bslash (path_clean path) ->
  path_clean path <> [c_dot] ->
  find_on_disk path (Some ents) opts None =
  find_in_list (map (fun n => dir_prefix path ++ n) (non_dirs ents)) opts.
Proof.
  intros path ents opts Hok Hnb Hdang Hb Hd.
  unfold find_on_disk, find_in_list. rewrite disk_items_ok by auto.
  simpl bind. f_equal. rewrite map_map. apply map_ext_in.
  intros n Hn. symmetry.
  destruct (non_dirs_in _ _ Hn) as [k Hk].
  rewrite Forall_forall in Hok, Hnb.
  apply item_of_path_child; auto.
  - apply (Hok _ Hk).
  - apply (Hnb _ Hk).
Qed.

(** FINDING 1: a name with a backslash (legal on Unix).  The scan keeps the
    directory "a/b/", the list API turns '\' into the separator and reports
    the directory "a/b/\". *)
Lemma counterexample_backslash_item :
  item_of_path (dir_prefix (s2b "a/b") ++ s2b "x\y.1.exr")
  = mkItem (s2b "a/b/\") (s2b "x\y.1.exr")
  /\ entry_name_ok (s2b "x\y.1.exr").
Proof.
  split; [vm_compute; reflexivity|].
  unfold entry_name_ok. repeat split; try discriminate.
  vm_compute. intuition discriminate.
Qed.

(** On this example the two results still agree: appendSeq re-parses
    dir ++ base ++ ..., the stray '\' lands in the re-parsed basename and the
    basename is then overwritten.  No result-level difference was found by
    evaluation on 25 names holding a backslash; the general result-level
    statement for such names is neither proved nor refuted here. *)
Lemma backslash_example_results_agree :
  let ents := [(s2b "x\y.1.exr", KFile); (s2b "x\y.2.exr", KFile); (s2b "p.1.exr", KFile)] in
  find_on_disk (s2b "a/b") (Some ents) [K_SingleFiles] None =
  find_in_list (map (fun n => dir_prefix (s2b "a/b") ++ n) (non_dirs ents)) [K_SingleFiles].
Proof. vm_compute. reflexivity. Qed.

(** FINDING 2: the directory "." (spellings "", ".", "./", "a/..").  The scan
    hands "./name" to the lister; the list API cleans "./name" to "name" and
    reports an empty directory. *)
Lemma dir_prefix_dot : forall path, path_clean path = [c_dot] ->
  dir_prefix path = [c_dot; c_slash].
Proof. intros path H. unfold dir_prefix. rewrite H. reflexivity. Qed.

Lemma item_of_path_dot_child : forall n, entry_name_ok n ->
  item_of_path ([c_dot; c_slash] ++ n) = mkItem [] n.
Proof.
  intros n Hn. pose proof Hn as (H1 & H2 & H3 & H4).
  assert (Hc : path_clean ([c_dot; c_slash] ++ n) = n).
  { simpl app. rewrite path_clean_unrooted by discriminate.
    cbn [split_on]. change (Nat.eqb c_dot c_slash) with false.
    cbn iota. rewrite Nat.eqb_refl. rewrite (split_on_none _ n H2).
    cbn [split_on].
    change (clean_elems false [[c_dot]; n] []) with (clean_elems false [n] []).
    rewrite clean_elems_fold. simpl fold_left.
    rewrite (step_push false n []) by (apply good_child; [exact I|exact Hn]).
    simpl. destruct n; [congruence|reflexivity]. }
  unfold item_of_path. rewrite Hc. rewrite path_split_no_dir by auto. reflexivity.
Qed.

Theorem on_disk_is_in_list_dot : forall path ents opts,
  Forall (fun e => entry_name_ok (fst e)) ents ->
  (forall n, ~ In (n, KLinkDangling) ents) ->
  path_clean path = [c_dot] ->
  find_on_disk path (Some ents) opts None =
    find_items (map (mkItem [c_dot; c_slash]) (non_dirs ents)) opts None
  /\
  find_in_list (map (fun n => dir_prefix path ++ n) (non_dirs ents)) opts =
    find_items (map (mkItem []) (non_dirs ents)) opts None.
Proof.
  intros path ents opts Hok Hdang Hd. rewrite (dir_prefix_dot path Hd). split.
  - unfold find_on_disk. rewrite (dir_prefix_dot path Hd).
    rewrite disk_items_ok by auto. reflexivity.
  - unfold find_in_list. f_equal. rewrite map_map. apply map_ext_in.
    intros n Hn. destruct (non_dirs_in _ _ Hn) as [k Hk].
    rewrite Forall_forall in Hok. apply item_of_path_dot_child. apply (Hok _ Hk).
Qed.

Lemma counterexample_dot :
  let ents := [(s2b "f.1.exr", KFile)] in
  map q_dir (match find_on_disk (s2b ".") (Some ents) [] None with Ok l => l | _ => [] end)
    = [s2b "./"] /\
  map q_dir (match find_in_list (map (fun n => dir_prefix (s2b ".") ++ n) (non_dirs ents)) []
             with Ok l => l | _ => [] end)
    = [[]].
Proof. vm_compute. split; reflexivity. Qed.

Theorem on_disk_unreadable : forall path opts t, exists e, find_on_disk path None opts t = Err e.
Proof. intros. exists E_IO. reflexivity. Qed.

Lemma disk_items_dangling : forall prefix ents n, In (n, KLinkDangling) ents ->
  exists e, disk_items prefix ents = Err e.
Proof.
  induction ents as [|[m k] r IH]; intros n H; [contradiction|].
  destruct H as [H|H].
  - inversion H; subst. exists E_IO. reflexivity.
  - destruct (IH n H) as [e He].
    destruct k; simpl; rewrite ?He; simpl; eauto.
Qed.

Theorem on_disk_dangling : forall path ents opts t n, In (n, KLinkDangling) ents ->
  exists e, find_on_disk path (Some ents) opts t = Err e.
Proof.
  intros path ents opts t n H. unfold find_on_disk.
  destruct (disk_items_dangling (dir_prefix path) ents n H) as [e He].
  rewrite He. exists e. reflexivity.
Qed.

(** every item handed to the lister is (dir_prefix path, name) for a
    non-directory entry, in the order of the listing *)
Lemma disk_items_shape : forall prefix ents items, disk_items prefix ents = Ok items ->
  map (fun it => (fi_dir it, fi_name it)) items = map (fun n => (prefix, n)) (non_dirs ents).
Proof.
  induction ents as [|[m k] r IH]; intros items H.
  - inversion H. reflexivity.
  - destruct k; simpl in H; try (apply IH; exact H); try discriminate;
      (destruct (disk_items prefix r) as [rest| | |] eqn:E; simpl in H; try discriminate;
       inversion H; subst; simpl; f_equal; apply IH; reflexivity).
Qed.

Theorem on_disk_paths_under_dir : forall path ents items,
  disk_items (dir_prefix path) ents = Ok items ->
  map (fun it => (fi_dir it, fi_name it)) items =
  map (fun n => (dir_prefix path, n)) (non_dirs ents).
Proof. intros. apply disk_items_shape. assumption. Qed.

(** the scan is the lister applied to exactly these items *)
Theorem on_disk_is_find_items : forall path ents opts t,
  (forall n, ~ In (n, KLinkDangling) ents) ->
  find_on_disk path (Some ents) opts t =
  find_items (map (mkItem (dir_prefix path)) (non_dirs ents)) opts t.
Proof.
  intros. unfold find_on_disk. rewrite disk_items_ok by auto. reflexivity.
Qed.

(** ListFiles (/repo/sequence.go:591) *)
Definition list_files (path : bytes) (readdir : option (list (bytes * ekind))) : outcome (list fileseq) :=
  find_on_disk path readdir [K_SingleFiles] None.

Theorem list_files_is_single_files : forall path rd,
  list_files path rd = find_on_disk path rd [K_SingleFiles] None.
Proof. reflexivity. Qed.

Corollary list_files_is_in_list : forall path ents,
  Forall (fun e => entry_name_ok (fst e)) ents ->
  Forall (fun e => ~ In c_bslash (fst e)) ents ->
  (forall n, ~ In (n, KLinkDangling) ents) ->
  ~ In c_bslash (path_clean path) ->
  path_clean path <> [c_dot] ->
  list_files path (Some ents) =
  find_in_list (map (fun n => dir_prefix path ++ n) (non_dirs ents)) [K_SingleFiles].
Proof. intros. unfold list_files. apply on_disk_is_in_list; auto. Qed.

(** * C07: the pattern lookup *)

(** the pad style the lookup works with: the argument overridden by the
    pad-style options, left to right *)
Definition eff_style (style : Z) (opts : list Z) : Z :=
  fold_left (fun st o =>
               if (o =? K_FileOptPadStyleHash1)%Z then K_PadStyleHash1
               else if (o =? K_FileOptPadStyleHash4)%Z then K_PadStyleHash4
               else st) opts style.

(** the directory the lookup reads *)
Definition lookup_dir (t : fileseq) : bytes :=
  match q_dir t with [] => [c_dot] | d => d end.

Definition pad_opts (opts : list Z) : list Z :=
  filter (fun o => (o =? K_FileOptPadStyleHash1)%Z || (o =? K_FileOptPadStyleHash4)%Z) opts.

Definition lookup_ok (strict : bool) (style1 : Z) (t q : fileseq) : bool :=
  beq (q_base q) (q_base t) && beq (q_ext q) (q_ext t) &&
  negb (strict && negb (beq (q_pad t) []) &&
        negb (q_zfill (set_padding_style q style1) =? q_zfill t)%Z).

(** the definition, with its parts named *)
Lemma find_seq_on_disk_eq : forall pat st opts rd,
  find_seq_on_disk pat st opts rd =
  match new_fileseq pat (style_of_int (eff_style st opts)) with
  | Err _ => Ok None
  | Panic n => Panic n
  | OutOfFuel => OutOfFuel
  | Ok t =>
    match find_on_disk (lookup_dir t) (rd (lookup_dir t)) (opts ++ pad_opts opts) (Some t) with
    | Err e => Err e
    | Panic n => Panic n
    | OutOfFuel => OutOfFuel
    | Ok seqs =>
      match filter (lookup_ok (existsb (fun o => (o =? K_StrictPadding)%Z) opts) (eff_style st opts) t) seqs with
      | q :: _ => Ok (Some (set_padding_style q (eff_style st opts)))
      | [] => Ok None
      end
    end
  end.
Proof. reflexivity. Qed.

Theorem find_seq_bad_pattern : forall pat st opts rd e,
  new_fileseq pat (style_of_int (eff_style st opts)) = Err e ->
  find_seq_on_disk pat st opts rd = Ok None.
Proof. intros pat st opts rd e H. rewrite find_seq_on_disk_eq, H. reflexivity. Qed.

Theorem find_seq_missing_dir : forall pat st opts rd t,
  new_fileseq pat (style_of_int (eff_style st opts)) = Ok t ->
  rd (lookup_dir t) = None ->
  exists e, find_seq_on_disk pat st opts rd = Err e.
Proof.
  intros pat st opts rd t H Hrd. rewrite find_seq_on_disk_eq, H, Hrd.
  exists E_IO. reflexivity.
Qed.

Theorem find_seq_dangling : forall pat st opts rd t ents n,
  new_fileseq pat (style_of_int (eff_style st opts)) = Ok t ->
  rd (lookup_dir t) = Some ents -> In (n, KLinkDangling) ents ->
  exists e, find_seq_on_disk pat st opts rd = Err e.
Proof.
  intros pat st opts rd t ents n H Hrd Hin. rewrite find_seq_on_disk_eq, H, Hrd.
  destruct (on_disk_dangling (lookup_dir t) ents (opts ++ pad_opts opts) (Some t) n Hin) as [e He].
  rewrite He. exists e. reflexivity.
Qed.

(** what a successful lookup returns: one of the sequences the lister found
    in the pattern's directory with the pattern as template, restyled, and
    passing the filter *)
Lemma find_seq_some : forall pat st opts rd q,
  find_seq_on_disk pat st opts rd = Ok (Some q) ->
  exists t seqs q0,
    new_fileseq pat (style_of_int (eff_style st opts)) = Ok t /\
    find_on_disk (lookup_dir t) (rd (lookup_dir t)) (opts ++ pad_opts opts) (Some t) = Ok seqs /\
    In q0 seqs /\
    lookup_ok (existsb (fun o => (o =? K_StrictPadding)%Z) opts) (eff_style st opts) t q0 = true /\
    q = set_padding_style q0 (eff_style st opts).
Proof.
  intros pat st opts rd q H. rewrite find_seq_on_disk_eq in H.
  destruct (new_fileseq pat (style_of_int (eff_style st opts))) as [t| | |] eqn:Ht; try discriminate.
  destruct (find_on_disk (lookup_dir t) (rd (lookup_dir t)) (opts ++ pad_opts opts) (Some t))
    as [seqs| | |] eqn:Hf; try discriminate.
  destruct (filter _ seqs) as [|q0 l] eqn:F; [discriminate|].
  inversion H; subst.
  assert (Hin : In q0 (q0 :: l)) by (left; reflexivity).
  rewrite <- F in Hin. apply filter_In in Hin. destruct Hin as [Hin Hok].
  exists t, seqs, q0. repeat split; auto.
Qed.

Theorem find_seq_base_ext : forall pat st opts rd q,
  find_seq_on_disk pat st opts rd = Ok (Some q) ->
  exists t, new_fileseq pat (style_of_int (eff_style st opts)) = Ok t /\
            q_base q = q_base t /\ q_ext q = q_ext t.
Proof.
  intros pat st opts rd q H.
  destruct (find_seq_some _ _ _ _ _ H) as (t & seqs & q0 & Ht & _ & _ & Hok & Hq).
  exists t. split; [exact Ht|].
  unfold lookup_ok in Hok. apply andb_true_iff in Hok. destruct Hok as [Hok _].
  apply andb_true_iff in Hok. destruct Hok as [Hb He].
  apply dk_beq_iff in Hb. apply dk_beq_iff in He. subst q. simpl. auto.
Qed.

Theorem find_seq_strict : forall pat st opts rd q t,
  In K_StrictPadding opts ->
  find_seq_on_disk pat st opts rd = Ok (Some q) ->
  new_fileseq pat (style_of_int (eff_style st opts)) = Ok t ->
  q_pad t <> [] ->
  q_zfill q = q_zfill t.
Proof.
  intros pat st opts rd q t Hs H Ht Hpad.
  destruct (find_seq_some _ _ _ _ _ H) as (t' & seqs & q0 & Ht' & _ & _ & Hok & Hq).
  rewrite Ht in Ht'. inversion Ht'; subst t'. clear Ht'.
  assert (Hstrict : existsb (fun o => (o =? K_StrictPadding)%Z) opts = true).
  { apply existsb_exists. exists K_StrictPadding. split; [auto|apply Z.eqb_refl]. }
  rewrite Hstrict in Hok. unfold lookup_ok in Hok.
  apply andb_true_iff in Hok. destruct Hok as [_ Hok].
  assert (Hp : beq (q_pad t) [] = false).
  { destruct (beq (q_pad t) []) eqn:E; auto. apply dk_beq_iff in E. contradiction. }
  rewrite Hp in Hok. simpl in Hok. rewrite negb_involutive in Hok.
  apply Z.eqb_eq in Hok. subst q. exact Hok.
Qed.

(** ** the template glob of [classify] *)

Lemma has_prefix_app : forall p s, has_prefix s p = true -> exists r, s = p ++ r.
Proof.
  induction p as [|x p IH]; intros s H.
  - exists s. reflexivity.
  - destruct s as [|y s]; [discriminate|]. simpl in H.
    apply andb_true_iff in H. destruct H as [H1 H2].
    apply Nat.eqb_eq in H1. subst y.
    destruct (IH s H2) as [r Hr]. exists r. subst s. reflexivity.
Qed.

Lemma has_suffix_app : forall p s, has_suffix s p = true -> exists r, s = r ++ p.
Proof.
  intros p s H. unfold has_suffix in H. apply has_prefix_app in H.
  destruct H as [r Hr]. exists (rev r).
  rewrite <- (rev_involutive s), Hr, rev_app_distr, rev_involutive. reflexivity.
Qed.

Lemma glob_middle : forall (name base ext : bytes),
  has_prefix name base = true -> has_suffix name ext = true ->
  List.length base + List.length ext <= List.length name ->
  name = base ++ slice name (List.length base) (List.length name - List.length ext) ++ ext.
Proof.
  intros name base ext Hp Hs Hl.
  apply has_prefix_app in Hp. destruct Hp as [r Hr].
  apply has_suffix_app in Hs. destruct Hs as [x Hx].
  assert (Hm : exists m, r = m ++ ext).
  { rewrite Hr in Hx. apply app_eq_app in Hx. destruct Hx as [l [[H1 H2]|[H1 H2]]].
    - assert (l = []).
      { subst name. rewrite H1, H2 in Hl. rewrite !app_length in Hl.
        destruct l; auto. simpl in Hl. lia. }
      subst l. exists []. simpl in *. auto.
    - exists l. auto. }
  destruct Hm as [m Hm]. subst r. subst name.
  f_equal. unfold slice.
  destruct (firstn_skipn_len base (m ++ ext)) as [_ H2]. rewrite H2.
  replace (List.length (base ++ m ++ ext) - List.length ext - List.length base) with (List.length m)
    by (rewrite !app_length; lia).
  destruct (firstn_skipn_len m ext) as [H1 _]. rewrite H1. reflexivity.
Qed.

(** with a template, an item is taken only if its name is the template's
    basename, then a numeral that fits an int, then the template's
    extension; the key is the template's *)
Theorem template_only_numbered_siblings : forall o t it k fr,
  classify o (Some t) it = IFrame k fr ->
  fi_name it = q_base t ++ fr ++ q_ext t /\
  (exists v, atoi fr = Some v) /\
  (exists m, rmatch R_rangePatterns_1 fr = Some m) /\
  k = (q_dir t, q_base t, q_ext t).
Proof.
  intros o t it k fr H. unfold classify in H.
  destruct (negb (o_hidden o) && has_prefix (fi_name it) [c_dot]); [discriminate|].
  destruct (has_prefix (fi_name it) (q_base t) && has_suffix (fi_name it) (q_ext t)) eqn:Hps;
    [|discriminate].
  simpl negb in H. cbv iota in H.
  destruct (blen (fi_name it) <? blen (q_base t) + blen (q_ext t))%Z eqn:Hlen; [discriminate|].
  remember (slice (fi_name it) (List.length (q_base t)) (List.length (fi_name it) - List.length (q_ext t))) as frame.
  destruct (rmatch R_rangePatterns_1 frame) as [m|] eqn:Hm; [|discriminate].
  simpl negb in H. cbv iota in H.
  destruct (atoi frame) as [v|] eqn:Hv; [|discriminate].
  inversion H; subst k fr.
  apply andb_true_iff in Hps. destruct Hps as [Hp Hs].
  apply Z.ltb_ge in Hlen. unfold blen in Hlen.
  repeat split; eauto.
  rewrite Heqframe. apply glob_middle; auto. lia.
Qed.

Theorem template_never_single : forall o t it b f e,
  classify o (Some t) it <> ISingle b f e.
Proof.
  intros o t it b f e. unfold classify.
  destruct (negb (o_hidden o) && has_prefix (fi_name it) [c_dot]); [discriminate|].
  destruct (negb (has_prefix (fi_name it) (q_base t) && has_suffix (fi_name it) (q_ext t)));
    [discriminate|].
  destruct (blen (fi_name it) <? blen (q_base t) + blen (q_ext t))%Z; [discriminate|].
  destruct (negb match rmatch R_rangePatterns_1 _ with Some _ => true | None => false end);
    [discriminate|].
  destruct (atoi _); discriminate.
Qed.

(** the three ways a sibling is passed over *)
Theorem template_skips : forall o t it,
  (has_prefix (fi_name it) (q_base t) && has_suffix (fi_name it) (q_ext t) = false
   \/ (blen (fi_name it) < blen (q_base t) + blen (q_ext t))%Z
   \/ atoi (slice (fi_name it) (List.length (q_base t)) (List.length (fi_name it) - List.length (q_ext t))) = None) ->
  classify o (Some t) it = ISkip.
Proof.
  intros o t it H. unfold classify.
  destruct (negb (o_hidden o) && has_prefix (fi_name it) [c_dot]); [reflexivity|].
  destruct (has_prefix (fi_name it) (q_base t) && has_suffix (fi_name it) (q_ext t)) eqn:Hps;
    [|reflexivity].
  simpl negb. cbv iota.
  destruct (blen (fi_name it) <? blen (q_base t) + blen (q_ext t))%Z eqn:Hlen; [reflexivity|].
  apply Z.ltb_ge in Hlen.
  destruct H as [H|[H|H]]; [discriminate|lia|].
  rewrite H.
  destruct (negb match rmatch R_rangePatterns_1 _ with Some _ => true | None => false end);
    reflexivity.
Qed.
