(** The callback of cmd/seqls (manager.go, loadRecursive, [walkFn]; Model/WalkFn.v,
    Gen/GenWalkFn.v) takes, entry by entry, exactly the decision of the walk model
    ([WalkLts.wnode], i.e. the clauses of [Seqls.walk_entries]).

    0. [reference_callback_spec]: the statement list, run by the interpreter, is a closed
       decision table ([callback_spec]).  Everything below is read off that table.
    1. [callback_is_wnode] (for the GENERATED list; [reference_callback_is_wnode] for the
       reference list): in the atomic case the job sent on [w.inDirs], whether fastwalk
       reads the entry as a directory, and the new cache are those of [wnode].  The Go
       cache holds more than the model cache (the spelled paths of the followed links are
       inserted too): [cache_rel].
    2. [callback_linearizable]: with other goroutines inserting between the read probe and
       the write lock, the answer and the emission are those of an atomic run at the moment
       the write lock is held.  The caches are equal as sets once the others' insertions
       are counted, and equal as lists when the read probe misses.  (The statement with
       plain equality of the caches is false: [linearizable_cache_not_equal].)
    3. [callback_never_lists_a_file], 4. [hidden_link_still_caches].
    5. Examples by computation.
    6. [generated_callback_is_reference]: the only lemma that looks at the generated
       list. *)
From GFS Require Import Base Path Listing Seqls WalkLts WalkFn GenWalkFn WalkProofs.
Local Open Scope nat_scope.

(* ------------------------------------------------------------------ *)
(** * The generated list is the reference list *)

Lemma generated_callback_is_reference : GenWalkFn.callback = reference_callback.
Proof. reflexivity. Qed.

(* ------------------------------------------------------------------ *)
(** * One-level unfolding of the interpreter *)

(** [exec] with the statement lists of the compound statements run by [exec_list] *)
Definition exec1 (i : wfin) (s : wfstmt) (st : wfst) : wfst :=
  match wf_returned st with
  | Some _ => st
  | None =>
    match s with
    | WDeclIsDir => set_isdir st false
    | WDeclRet => set_ret st RNil
    | WSetIsDir => set_isdir st true
    | WIfDirElseLink dirb linkb =>
      match wi_typ i with
      | TDir => exec_list i dirb st
      | TSymlink => exec_list i linkb st
      | TOther => st
      end
    | WIfStatIsDir body => if wi_stat_dir i then exec_list i body st else st
    | WEvalSymlinks => set_tgt st (wi_tgt i)
    | WRetTraverse => set_ret st RTraverse
    | WRetSkipFiles => set_ret st RSkipFiles
    | WCacheProbeRead => set_exists st (cache_has (wf_tgt st) (wf_cache st))
    | WIfExists thenb elseb => if wf_exists st then exec_list i thenb st else exec_list i elseb st
    | WLock => set_cache st (wi_interf i ++ wf_cache st)
    | WUnlock => st
    | WIfRecheck thenb elseb =>
      let st1 := set_exists st (cache_has (wf_tgt st) (wf_cache st)) in
      if wf_exists st1 then exec_list i thenb st1 else exec_list i elseb st1
    | WCacheInsertTgt => set_cache st (wf_tgt st :: wf_cache st)
    | WCacheInsertPath => set_cache st (wi_path i :: wf_cache st)
    | WIfNotDirReturn => if negb (wf_isdir st) then do_return st (answer_of_ret (wf_ret st)) else st
    | WHiddenSkip => if negb (wi_all i) && hidden_dir (wi_path i) then do_return st ASkipDir else st
    | WEmit => set_emitted st
    | WReturnRet => do_return st (answer_of_ret (wf_ret st))
    end
  end.

Lemma run_eq : forall i l st,
  (fix run (l : list wfstmt) (st : wfst) {struct l} : wfst :=
     match l with
     | [] => st
     | s :: r => run r (exec i s st)
     end) l st = exec_list i l st.
Proof. intros i l. induction l as [|s r IH]; intros st; cbn [exec_list]; auto. Qed.

Lemma exec_eq : forall i s st, exec i s st = exec1 i s st.
Proof.
  intros i s st. unfold exec1.
  destruct s; cbn [exec]; rewrite ?run_eq; reflexivity.
Qed.

Lemma exec_list_cons : forall i s r st, exec_list i (s :: r) st = exec_list i r (exec1 i s st).
Proof. intros i s r st. cbn [exec_list]. rewrite exec_eq. reflexivity. Qed.

Lemma exec_list_nil : forall i st, exec_list i [] st = st.
Proof. reflexivity. Qed.

(** Run the next statement of a list whose state is explicit (a constructor), and only
    such a list: the state never becomes a stuck [if], nothing is duplicated.  Tests that
    do not compute ([cache_has], the hidden test) are left for the caller to rewrite. *)
Ltac wf_step :=
  match goal with
  | |- context [exec_list ?i (?s :: ?r) (mkWFst ?a ?b ?c ?d ?e ?f ?g)] =>
    rewrite (exec_list_cons i s r (mkWFst a b c d e f g));
    cbv beta iota zeta delta
        [exec1 wf_returned wf_isdir wf_ret wf_exists wf_tgt wf_cache wf_emitted
         set_isdir set_ret set_exists set_tgt set_cache set_emitted do_return
         wi_typ wi_stat_dir wi_tgt wi_path wi_all wi_interf answer_of_ret];
    cbn [negb]
  | |- context [exec_list ?i [] (mkWFst ?a ?b ?c ?d ?e ?f ?g)] =>
    rewrite (exec_list_nil i (mkWFst a b c d e f g))
  end.

(* ------------------------------------------------------------------ *)
(** * 0. The decision table of the callback *)

Definition callback_spec (typ : wtyp) (sd : bool) (tgt path : bytes) (all : bool)
           (interf cache : list bytes) : wanswer * bool * list bytes :=
  let skip := negb all && hidden_dir path in
  match typ with
  | TDir => if skip then (ASkipDir, false, cache) else (ANil, true, cache)
  | TOther => (ANil, false, cache)
  | TSymlink =>
    if sd then
      if mem tgt cache then
        if skip then (ASkipDir, false, cache) else (ASkipFiles, true, cache)
      else
        if mem tgt (interf ++ cache) then
          if skip then (ASkipDir, false, interf ++ cache) else (ASkipFiles, true, interf ++ cache)
        else
          if skip then (ASkipDir, false, path :: tgt :: interf ++ cache)
          else (ATraverse, true, path :: tgt :: interf ++ cache)
    else (ANil, false, cache)
  end.

Lemma reference_callback_spec : forall typ sd tgt path all interf cache,
  callback_result reference_callback typ sd tgt path all interf cache
  = callback_spec typ sd tgt path all interf cache.
Proof.
  intros typ sd tgt path all interf cache.
  unfold callback_spec, mem. cbv zeta.
  destruct (negb all && hidden_dir path) eqn:Hskip;
  destruct (existsb (beq tgt) cache) eqn:Hprobe;
  destruct (existsb (beq tgt) (interf ++ cache)) eqn:Hrecheck;
  destruct typ; destruct sd;
  unfold callback_result, reference_callback, wf_init;
  repeat (wf_step; unfold cache_has; rewrite ?Hskip, ?Hprobe, ?Hrecheck);
  cbn [wf_returned wf_emitted wf_cache]; reflexivity.
Qed.

(* ------------------------------------------------------------------ *)
(** * Sets of byte strings *)

Lemma mem_app : forall x a b, mem x (a ++ b) = mem x a || mem x b.
Proof. intros x a b. unfold mem. apply existsb_app. Qed.

Lemma mem_cons : forall x y c, mem x (y :: c) = beq x y || mem x c.
Proof. reflexivity. Qed.

(** decide an equation between boolean combinations of membership tests *)
Ltac mem_cases :=
  repeat (rewrite mem_app || rewrite mem_cons);
  repeat match goal with
         | |- context [beq ?a ?b] => destruct (beq a b)
         | |- context [mem ?a ?b] => destruct (mem a b)
         end;
  reflexivity.

(** The Go cache [gc] against the model cache [mc]: the Go cache is the model cache plus
    the spelled paths [paths] of the links followed so far ([cache[path] = struct{}{}]). *)
Definition cache_rel (gc mc paths : list bytes) : Prop :=
  forall x, mem x gc = mem x mc || mem x paths.

Lemma cache_rel_insert : forall gc mc paths p tg,
  cache_rel gc mc paths -> cache_rel (p :: tg :: gc) (tg :: mc) (p :: paths).
Proof.
  intros gc mc paths p tg Hrel x. rewrite !mem_cons, (Hrel x). mem_cases.
Qed.

(** the entry is a link to a directory whose target the model inserts now *)
Definition newly_followed (n : tnode) (mc : list bytes) : bool :=
  match tn_kind n with
  | KLinkDir => negb (mem (tn_target n) mc)
  | _ => false
  end.

(* ------------------------------------------------------------------ *)
(** * 1. The callback takes the decision of [wnode] (atomic case) *)

(** [t]: the tree; [n]: the entry; [sp]: the spelled path of the directory being read;
    [gc]/[mc]: Go cache and model cache.  The callback is called with the inputs of the
    kind of [n], [path := sp/name], [tgt := tn_target n] (not looked at unless [n] is a
    link to a directory), no interference.  Side condition: the target that is looked up
    is not one of the spelled link paths that only the Go cache holds (needed:
    [side_condition_needed] below; on a real file system a spelled link path names a
    symlink and EvalSymlinks never returns the name of a symlink).
    - the job: the path is sent on [w.inDirs] exactly when [wnode] has a job, and the
      job is (path, real directory);
    - fastwalk reads the entry as a directory exactly when [wnode] creates a work item,
      and the item holds the entries of the real directory spelled under [path];
    - the caches stay related, [path] joining the spelled paths exactly when the target
      was newly inserted. *)
Theorem reference_callback_is_wnode : forall t n sp all gc mc paths ans em gc',
  cache_rel gc mc paths ->
  (tn_kind n = KLinkDir -> mem (tn_target n) paths = false) ->
  callback_result reference_callback
                  (fst (kind_inputs (tn_kind n))) (snd (kind_inputs (tn_kind n)))
                  (tn_target n) (join_path sp (tn_name n)) all [] gc = (ans, em, gc') ->
  let path := join_path sp (tn_name n) in
  let o := wnode t all sp n mc in
  wo_jobs o = (if em then [(path, real_of n)] else []) /\
  wo_new o = (if traverses (fst (kind_inputs (tn_kind n))) ans
              then [mkWork path (children t (real_of n))] else []) /\
  cache_rel gc' (wo_cache o) (if newly_followed n mc then path :: paths else paths).
Proof.
  intros t n sp all gc mc paths ans em gc' Hrel Hnp Hres path o.
  subst o. fold path in Hres.
  rewrite reference_callback_spec in Hres.
  unfold callback_spec in Hres. cbv zeta in Hres. cbn [app] in Hres.
  unfold wnode, real_of, newly_followed. fold path.
  destruct (tn_kind n) eqn:Hk; cbn [kind_inputs fst snd] in Hres.
  - (* KFile *)
    inversion Hres; subst. cbn [wo_jobs wo_new wo_cache traverses]. auto.
  - (* KDir *)
    destruct (negb all && hidden_dir path) eqn:Hskip;
      inversion Hres; subst; cbn [wo_jobs wo_new wo_cache traverses]; auto.
  - (* KLinkFile *)
    inversion Hres; subst. cbn [wo_jobs wo_new wo_cache traverses]. auto.
  - (* KLinkDir *)
    assert (Hg : mem (tn_target n) gc = mem (tn_target n) mc).
    { rewrite (Hrel (tn_target n)), (Hnp eq_refl). apply orb_false_r. }
    rewrite Hg in Hres.
    change (existsb (beq (tn_target n)) mc) with (mem (tn_target n) mc).
    destruct (mem (tn_target n) mc) eqn:Hm;
      destruct (negb all && hidden_dir path) eqn:Hskip;
      inversion Hres; subst;
      cbn [negb wo_jobs wo_new wo_cache traverses];
      repeat split; auto using cache_rel_insert.
  - (* KLinkDangling *)
    inversion Hres; subst. cbn [wo_jobs wo_new wo_cache traverses]. auto.
Qed.

(** the same for the list the translator printed *)
Theorem callback_is_wnode : forall t n sp all gc mc paths ans em gc',
  cache_rel gc mc paths ->
  (tn_kind n = KLinkDir -> mem (tn_target n) paths = false) ->
  callback_result GenWalkFn.callback
                  (fst (kind_inputs (tn_kind n))) (snd (kind_inputs (tn_kind n)))
                  (tn_target n) (join_path sp (tn_name n)) all [] gc = (ans, em, gc') ->
  let path := join_path sp (tn_name n) in
  let o := wnode t all sp n mc in
  wo_jobs o = (if em then [(path, real_of n)] else []) /\
  wo_new o = (if traverses (fst (kind_inputs (tn_kind n))) ans
              then [mkWork path (children t (real_of n))] else []) /\
  cache_rel gc' (wo_cache o) (if newly_followed n mc then path :: paths else paths).
Proof.
  rewrite generated_callback_is_reference. exact reference_callback_is_wnode.
Qed.

(** the two "exactly when" readings *)
Corollary callback_emits_iff_job : forall t n sp all gc mc paths ans em gc',
  cache_rel gc mc paths ->
  (tn_kind n = KLinkDir -> mem (tn_target n) paths = false) ->
  callback_result GenWalkFn.callback
                  (fst (kind_inputs (tn_kind n))) (snd (kind_inputs (tn_kind n)))
                  (tn_target n) (join_path sp (tn_name n)) all [] gc = (ans, em, gc') ->
  (em = true <-> wo_jobs (wnode t all sp n mc) <> []) /\
  (traverses (fst (kind_inputs (tn_kind n))) ans = true <-> wo_new (wnode t all sp n mc) <> []).
Proof.
  intros t n sp all gc mc paths ans em gc' Hrel Hnp Hres.
  destruct (callback_is_wnode t n sp all gc mc paths ans em gc' Hrel Hnp Hres) as [Hj [Hn _]].
  rewrite Hj, Hn. split.
  - destruct em; split; intros H; solve [reflexivity | discriminate | exfalso; apply H; reflexivity].
  - destruct (traverses (fst (kind_inputs (tn_kind n))) ans);
      split; intros H; solve [reflexivity | discriminate | exfalso; apply H; reflexivity].
Qed.

(* ------------------------------------------------------------------ *)
(** * 2. Interference between the read probe and the write lock *)

(** [interf]: what other goroutines inserted after [mu.RUnlock()] and before [mu.Lock()]
    (they can only insert: the hypothesis "the cache only grows" is built into
    [WLock], cache := interf ++ cache).  The answer and the emission are those of the
    ATOMIC callback run on [interf ++ cache], the cache at the moment the write lock is
    held.  When the read probe already finds the target the interference is irrelevant
    (the target is in [interf ++ cache] too) - but then the callback never takes the write
    lock, its own cache value does not contain [interf], and the resulting caches differ
    by exactly [interf]: they are equal as sets once the others' insertions are counted
    (third conjunct), and equal as lists when the write lock is taken (fourth). *)
Theorem callback_linearizable : forall typ sd tgt path all interf cache a e c a' e' c',
  callback_result reference_callback typ sd tgt path all interf cache = (a, e, c) ->
  callback_result reference_callback typ sd tgt path all [] (interf ++ cache) = (a', e', c') ->
  a = a' /\ e = e' /\
  (forall x, mem x c' = mem x interf || mem x c) /\
  (typ = TSymlink -> sd = true -> mem tgt cache = false -> c = c').
Proof.
  intros typ sd tgt path all interf cache a e c a' e' c' H1 H2.
  rewrite reference_callback_spec in H1, H2.
  unfold callback_spec in H1, H2. cbv zeta in H1, H2. cbn [app] in H2.
  rewrite mem_app in H1, H2.
  destruct typ; [ | destruct sd | ];
    destruct (negb all && hidden_dir path) eqn:Hskip;
    destruct (mem tgt cache) eqn:Hprobe;
    destruct (mem tgt interf) eqn:Hint;
    cbn [orb] in H1, H2;
    inversion H1; inversion H2; subst;
    (split; [reflexivity|]); (split; [reflexivity|]);
    (split; [intros x; mem_cases | intros; congruence]).
Qed.

(** The statement with plain equality of the results is false: a seen target and one
    unrelated insertion by somebody else. *)
Example linearizable_cache_not_equal :
  let tgt := s2b "r/d" in let other := s2b "r/e" in
  callback_result reference_callback TSymlink true tgt (s2b "a/l") false [other] [tgt]
    = (ASkipFiles, true, [tgt]) /\
  callback_result reference_callback TSymlink true tgt (s2b "a/l") false [] ([other] ++ [tgt])
    = (ASkipFiles, true, [other; tgt]).
Proof. vm_compute. split; reflexivity. Qed.

(* ------------------------------------------------------------------ *)
(** * 3. Anything that is not a directory or a link to one *)

Theorem callback_never_lists_a_file : forall typ sd tgt path all interf cache,
  typ = TOther \/ (typ = TSymlink /\ sd = false) ->
  callback_result reference_callback typ sd tgt path all interf cache = (ANil, false, cache) /\
  traverses typ ANil = false.
Proof.
  intros typ sd tgt path all interf cache H.
  rewrite reference_callback_spec. unfold callback_spec.
  destruct H as [H | [H1 H2]]; subst; auto.
Qed.

(* ------------------------------------------------------------------ *)
(** * 4. A hidden link to a directory is not listed but its target is cached *)

(** The cache insertion comes BEFORE the hidden test: a hidden link to a directory that
    was not seen before answers SkipDir and emits nothing, but its target (and its path)
    are in the cache afterwards, so a later visible link to the same target is listed and
    NOT entered.  [walk_entries] / [wnode] copy this ([W_link_hidden_new]). *)
Theorem hidden_link_still_caches : forall tgt path interf cache,
  hidden_dir path = true ->
  mem tgt (interf ++ cache) = false ->
  callback_result reference_callback TSymlink true tgt path false interf cache
    = (ASkipDir, false, path :: tgt :: interf ++ cache) /\
  mem tgt (path :: tgt :: interf ++ cache) = true /\
  traverses TSymlink ASkipDir = false.
Proof.
  intros tgt path interf cache Hh Hm.
  rewrite reference_callback_spec. unfold callback_spec. cbv zeta.
  assert (Hc : mem tgt cache = false).
  { rewrite mem_app in Hm. apply orb_false_iff in Hm. tauto. }
  rewrite Hc, Hm, Hh. cbn [negb andb].
  split; [reflexivity|]. split; [|reflexivity].
  rewrite !mem_cons, wbeq_refl. apply orb_true_r.
Qed.

(** the model's side of the same behaviour *)
Lemma hidden_link_still_caches_model : forall t sp n mc,
  tn_kind n = KLinkDir ->
  hidden_dir (join_path sp (tn_name n)) = true ->
  mem (tn_target n) mc = false ->
  wnode t false sp n mc = mkWO [] (tn_target n :: mc) [] [].
Proof.
  intros t sp n mc Hk Hh Hm. unfold wnode. rewrite Hk, Hh.
  change (existsb (beq (tn_target n)) mc) with (mem (tn_target n) mc).
  rewrite Hm. reflexivity.
Qed.

(* ------------------------------------------------------------------ *)
(** * 6 (cont.). Theorems 2-4 for the generated list *)

Corollary generated_callback_linearizable : forall typ sd tgt path all interf cache a e c a' e' c',
  callback_result GenWalkFn.callback typ sd tgt path all interf cache = (a, e, c) ->
  callback_result GenWalkFn.callback typ sd tgt path all [] (interf ++ cache) = (a', e', c') ->
  a = a' /\ e = e' /\
  (forall x, mem x c' = mem x interf || mem x c) /\
  (typ = TSymlink -> sd = true -> mem tgt cache = false -> c = c').
Proof. rewrite generated_callback_is_reference. exact callback_linearizable. Qed.

Corollary generated_callback_never_lists_a_file : forall typ sd tgt path all interf cache,
  typ = TOther \/ (typ = TSymlink /\ sd = false) ->
  callback_result GenWalkFn.callback typ sd tgt path all interf cache = (ANil, false, cache) /\
  traverses typ ANil = false.
Proof. rewrite generated_callback_is_reference. exact callback_never_lists_a_file. Qed.

Corollary generated_hidden_link_still_caches : forall tgt path interf cache,
  hidden_dir path = true ->
  mem tgt (interf ++ cache) = false ->
  callback_result GenWalkFn.callback TSymlink true tgt path false interf cache
    = (ASkipDir, false, path :: tgt :: interf ++ cache) /\
  mem tgt (path :: tgt :: interf ++ cache) = true /\
  traverses TSymlink ASkipDir = false.
Proof. rewrite generated_callback_is_reference. exact hidden_link_still_caches. Qed.

(* ------------------------------------------------------------------ *)
(** * 5. Examples (the generated list, by computation) *)

Definition ex_run (typ : wtyp) (sd : bool) (tgt path : string) (all : bool)
           (interf cache : list bytes) : wanswer * bool * list bytes :=
  callback_result GenWalkFn.callback typ sd (s2b tgt) (s2b path) all interf cache.

(** a plain directory: listed and read *)
Example ex_plain_dir :
  ex_run TDir true "" "a/b" false [] [s2b "r/x"] = (ANil, true, [s2b "r/x"]) /\ traverses TDir ANil = true.
Proof. vm_compute. split; reflexivity. Qed.

(** a hidden directory: neither; with -a: both; ".." is not hidden *)
Example ex_hidden_dir :
  ex_run TDir true "" "a/.b" false [] [] = (ASkipDir, false, []) /\ traverses TDir ASkipDir = false.
Proof. vm_compute. split; reflexivity. Qed.

Example ex_hidden_dir_all :
  ex_run TDir true "" "a/.b" true [] [] = (ANil, true, []).
Proof. vm_compute. reflexivity. Qed.

Example ex_dotdot_dir :
  ex_run TDir true "" "a/.." false [] [] = (ANil, true, []).
Proof. vm_compute. reflexivity. Qed.

(** a link to a directory not seen before: listed, read, target and path cached *)
Example ex_new_link :
  ex_run TSymlink true "r/d" "a/l" false [] [s2b "r/x"]
    = (ATraverse, true, [s2b "a/l"; s2b "r/d"; s2b "r/x"]) /\ traverses TSymlink ATraverse = true.
Proof. vm_compute. split; reflexivity. Qed.

(** a link to a directory seen before: listed, not read *)
Example ex_seen_link :
  ex_run TSymlink true "r/d" "a/l" false [] [s2b "r/x"; s2b "r/d"]
    = (ASkipFiles, true, [s2b "r/x"; s2b "r/d"]) /\ traverses TSymlink ASkipFiles = false.
Proof. vm_compute. split; reflexivity. Qed.

(** a hidden link to a directory not seen before: not listed, not read, cached *)
Example ex_hidden_new_link :
  ex_run TSymlink true "r/d" "a/.l" false [] []
    = (ASkipDir, false, [s2b "a/.l"; s2b "r/d"]) /\ traverses TSymlink ASkipDir = false.
Proof. vm_compute. split; reflexivity. Qed.

(** a link to a file, a dangling link, a regular file *)
Example ex_link_to_file :
  ex_run TSymlink false "r/f" "a/l" false [] [s2b "r/x"] = (ANil, false, [s2b "r/x"]) /\ traverses TSymlink ANil = false.
Proof. vm_compute. split; reflexivity. Qed.

Example ex_regular_file :
  ex_run TOther false "" "a/f.1.exr" false [] [s2b "r/x"] = (ANil, false, [s2b "r/x"]) /\ traverses TOther ANil = false.
Proof. vm_compute. split; reflexivity. Qed.

(** somebody else inserts the target between the read probe and the write lock: the
    re-check under the write lock sees it, the link is listed but not read *)
Example ex_lost_race :
  ex_run TSymlink true "r/d" "a/l" false [s2b "r/d"] [s2b "r/x"]
    = (ASkipFiles, true, [s2b "r/d"; s2b "r/x"]) /\
  ex_run TSymlink true "r/d" "a/l" false [] [s2b "r/d"; s2b "r/x"]
    = (ASkipFiles, true, [s2b "r/d"; s2b "r/x"]).
Proof. vm_compute. split; reflexivity. Qed.

(** the hypotheses of [callback_is_wnode] are satisfiable, the conclusion is not trivial:
    directory r holds the link l -> r/d; r/d holds a directory s.  The model cache is
    empty, the Go cache too. *)
Definition ex_tree : tree :=
  [mkTN (s2b "r") (s2b "l") KLinkDir (s2b "r/d");
   mkTN (s2b "r") (s2b "d") KDir [];
   mkTN (s2b "r/d") (s2b "s") KDir []].
Definition ex_link : tnode := mkTN (s2b "r") (s2b "l") KLinkDir (s2b "r/d").

Example ex_wnode_new_link :
  wnode ex_tree false (s2b "r") ex_link []
  = mkWO [mkWork (s2b "r/l") [mkTN (s2b "r/d") (s2b "s") KDir []]]
         [s2b "r/d"] [(s2b "r/l", s2b "r/d")] [s2b "r/d"] /\
  callback_result GenWalkFn.callback TSymlink true (s2b "r/d") (s2b "r/l") false [] []
  = (ATraverse, true, [s2b "r/l"; s2b "r/d"]).
Proof. vm_compute. split; reflexivity. Qed.

Example ex_callback_is_wnode_applies :
  let o := wnode ex_tree false (s2b "r") ex_link [] in
  wo_jobs o = [(s2b "r/l", s2b "r/d")] /\
  wo_new o = [mkWork (s2b "r/l") (children ex_tree (s2b "r/d"))] /\
  cache_rel [s2b "r/l"; s2b "r/d"] (wo_cache o) [s2b "r/l"].
Proof.
  assert (Hrel : cache_rel [] [] []) by (intros x; reflexivity).
  assert (Hnp : tn_kind ex_link = KLinkDir -> mem (tn_target ex_link) [] = false) by reflexivity.
  exact (callback_is_wnode ex_tree ex_link (s2b "r") false [] [] []
                           ATraverse true [s2b "r/l"; s2b "r/d"] Hrel Hnp eq_refl).
Qed.

(** The side condition of [callback_is_wnode] is needed: if the target of a link IS a
    spelled link path that the Go cache holds (here the Go cache holds "r/k", the spelled
    path of a link followed earlier whose target the model cache has under another name),
    the callback says "seen" where the model follows the link. *)
Example side_condition_needed :
  let n := mkTN (s2b "r") (s2b "l") KLinkDir (s2b "r/k") in
  cache_rel [s2b "r/k"; s2b "q"] [s2b "q"] [s2b "r/k"] /\
  callback_result GenWalkFn.callback TSymlink true (s2b "r/k") (s2b "r/l") false [] [s2b "r/k"; s2b "q"]
    = (ASkipFiles, true, [s2b "r/k"; s2b "q"]) /\
  wo_new (wnode ex_tree false (s2b "r") n [s2b "q"]) = [mkWork (s2b "r/l") []].
Proof.
  split.
  - intros x. rewrite !mem_cons. cbn [mem existsb]. mem_cases.
  - vm_compute. split; reflexivity.
Qed.

(* ------------------------------------------------------------------ *)
Print Assumptions callback_is_wnode.
Print Assumptions reference_callback_is_wnode.
Print Assumptions callback_linearizable.
Print Assumptions callback_never_lists_a_file.
Print Assumptions hidden_link_still_caches.
Print Assumptions generated_callback_is_reference.
