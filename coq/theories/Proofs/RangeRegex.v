(** All-strings characterisations of the generated regexes used by the
    frame-range code (rangePatterns 0/1/2) and by the printf / houdini pad
    tokens, in terms of a regex-free scanner. *)
From GFS Require Import Base Dec Regex GenRegex GenPadTables Pad FrameSet RegexKit.

(** length of the longest prefix of s of the shape  -?digit+  (0 if there is none) *)
Definition num_len (s : bytes) : nat :=
  match s with
  | 45 :: r => match span_len is_digit r with O => O | n => S n end
  | _ => span_len is_digit s
  end.

(** hand-written reading of one comma-separated component: the capture strings *)
Definition tcomp (p : bytes) : option (list bytes) :=
  let n1 := num_len p in
  match n1 with O => None | _ =>
  let a := firstn n1 p in
  match skipn n1 p with
  | [] => Some [a]
  | 45 :: r2 =>
    let n2 := num_len r2 in
    match n2 with O => None | _ =>
    let b := firstn n2 r2 in
    match skipn n2 r2 with
    | [] => Some [a; b]
    | md :: r3 =>
      if (Nat.eqb md 58 || Nat.eqb md 120 || Nat.eqb md 121) then
        let n3 := num_len r3 in
        match n3 with O => None | _ =>
        match skipn n3 r3 with [] => Some [a; b; [md]; firstn n3 r3] | _ => None end end
      else None
    end end
  | _ => None
  end end.

(** * the same definitions with [Nat.eqb] tests instead of numeral patterns *)

Lemma num_len_eq : forall s,
  num_len s =
  match s with
  | [] => O
  | c :: r => if Nat.eqb c 45
              then match span_len is_digit r with O => O | S n => S (S n) end
              else span_len is_digit s
  end.
Proof.
  intros s. destruct s as [|c r]; [reflexivity|].
  do 45 (destruct c as [|c]; [reflexivity|]).
  destruct c as [|c]; [|reflexivity].
  unfold num_len. cbn [Nat.eqb]. destruct (span_len is_digit r); reflexivity.
Qed.

Lemma tcomp_eq : forall p,
  tcomp p =
  match num_len p with
  | O => None
  | S n1 =>
    match skipn (S n1) p with
    | [] => Some [firstn (S n1) p]
    | c :: r2 =>
      if Nat.eqb c 45 then
        match num_len r2 with
        | O => None
        | S n2 =>
          match skipn (S n2) r2 with
          | [] => Some [firstn (S n1) p; firstn (S n2) r2]
          | md :: r3 =>
            if (Nat.eqb md 58 || Nat.eqb md 120 || Nat.eqb md 121) then
              match num_len r3 with
              | O => None
              | S n3 =>
                match skipn (S n3) r3 with
                | [] => Some [firstn (S n1) p; firstn (S n2) r2; [md]; firstn (S n3) r3]
                | _ => None
                end
              end
            else None
          end
        end
      else None
    end
  end.
Proof.
  intros p. unfold tcomp. cbv zeta.
  destruct (num_len p) as [|n1]; [reflexivity|].
  destruct (skipn (S n1) p) as [|c r2]; [reflexivity|].
  do 45 (destruct c as [|c]; [reflexivity|]).
  destruct c as [|c]; [|reflexivity].
  cbn [Nat.eqb].
  destruct (num_len r2) as [|n2]; [reflexivity|].
  destruct (skipn (S n2) r2) as [|md r3]; [reflexivity|].
  destruct (Nat.eqb md 58 || Nat.eqb md 120 || Nat.eqb md 121); [|reflexivity].
  destruct (num_len r3) as [|n3]; reflexivity.
Qed.

(** * the sub-expression  -?\d+  *)

Definition NUM : re :=
  RCat (ROpt true (RCls false [(45, 45)]))
       (RCat (RCls false [(48, 57)]) (RStar true (RCls false [(48, 57)]))).

Definition rejects_digits (k : K) : Prop :=
  forall pos c s cs, is_digit c = true -> k pos (c :: s) cs = None.

Lemma digit_not_dash : forall c, is_digit c = true -> Nat.eqb c 45 = false.
Proof. intros c H. apply is_digit_neq; [exact H | lia]. Qed.

Lemma digit_not_d : forall c, is_digit c = true -> Nat.eqb c 100 = false.
Proof. intros c H. apply is_digit_neq; [exact H | lia]. Qed.

Lemma cls_mod : forall c,
  cls_match false [(58, 58); (120, 121)] c = (Nat.eqb c 58 || Nat.eqb c 120 || Nat.eqb c 121).
Proof.
  intros c. unfold cls_match, in_ranges. rewrite orb_false_r.
  destruct (Nat.eqb_spec c 58), (Nat.eqb_spec c 120), (Nat.eqb_spec c 121),
           (Nat.leb_spec 58 c), (Nat.leb_spec c 58), (Nat.leb_spec 120 c), (Nat.leb_spec c 121);
    cbn [andb orb]; try reflexivity; lia.
Qed.

Lemma digit_not_mod : forall c, is_digit c = true ->
  (Nat.eqb c 58 || Nat.eqb c 120 || Nat.eqb c 121) = false.
Proof.
  intros c H. rewrite !(is_digit_neq c _ H) by lia. reflexivity.
Qed.

Lemma m_digits : forall k, rejects_digits k -> forall pos s cs,
  m (RCat (RCls false [(48, 57)]) (RStar true (RCls false [(48, 57)]))) pos s cs k =
  match span_len is_digit s with
  | O => None
  | S n => k (pos + S n)%nat (skipn (S n) s) cs
  end.
Proof.
  intros k Hk pos s cs. rewrite m_cat. destruct s as [|c s]; [reflexivity|].
  rewrite m_cls_cons, cls_digit. cbn [span_len].
  destruct (is_digit c); [|reflexivity].
  rewrite gscan_commit_star.
  - rewrite (span_len_ext _ is_digit s cls_digit). cbn [skipn].
    rewrite Nat.add_succ_r. reflexivity.
  - intros pos' c' s' cs' H. rewrite cls_digit in H. apply Hk. exact H.
Qed.

Lemma m_num : forall k, rejects_digits k -> forall pos s cs,
  m NUM pos s cs k =
  match num_len s with
  | O => None
  | S n => k (pos + S n)%nat (skipn (S n) s) cs
  end.
Proof.
  intros k Hk pos s cs. unfold NUM. rewrite m_cat, m_opt_greedy, num_len_eq.
  destruct s as [|c r].
  - rewrite m_cls_nil, m_digits by exact Hk. reflexivity.
  - rewrite m_cls_cons, cls_single. destruct (Nat.eqb_spec c 45) as [->|Hc].
    + rewrite !m_digits by exact Hk. cbn [span_len].
      change (is_digit 45) with false. cbv iota.
      destruct (span_len is_digit r) as [|n]; [reflexivity|].
      rewrite opt_id. cbn [skipn]. f_equal. lia.
    + rewrite m_digits by exact Hk. reflexivity.
Qed.

(** the three range patterns in terms of NUM *)
Lemma R0_eq : R_rangePatterns_0 =
  RCat RBot (RCat (RGrp 1 NUM) (RCat (RCls false [(45, 45)]) (RCat (RGrp 2 NUM) REot))).
Proof. reflexivity. Qed.

Lemma R1_eq : R_rangePatterns_1 = RCat RBot (RCat (RGrp 1 NUM) REot).
Proof. reflexivity. Qed.

Lemma R2_eq : R_rangePatterns_2 =
  RCat RBot (RCat (RGrp 1 NUM) (RCat (RCls false [(45, 45)]) (RCat (RGrp 2 NUM)
    (RCat (RGrp 3 (RCls false [(58, 58); (120, 121)])) (RCat (RGrp 4 NUM) REot))))).
Proof. reflexivity. Qed.

(** continuations that start with a non-digit class, or with \z, reject digits *)
Ltac rej :=
  unfold rejects_digits;
  let H := fresh "H" in
  intros ? ? ? ? H; cbv beta;
  repeat first [ rewrite m_cat | rewrite m_grp ];
  first [ rewrite m_eot; reflexivity
        | rewrite m_cls_cons, cls_single, (digit_not_dash _ H); reflexivity
        | rewrite m_cls_cons, cls_mod, (digit_not_mod _ H); reflexivity ].

(** capture slices: [H] gives the suffix at a canonical offset *)
Ltac slc H := eapply slice_off_eq; [ rewrite <- H; f_equal; lia | lia ].

(** case analysis on whatever matches remain (right-hand sides), innermost
    scrutinee first *)
Ltac blast :=
  repeat match goal with
         | |- context [match ?x with _ => _ end] =>
           lazymatch x with
           | context [match _ with _ => _ end] => fail
           | _ => destruct x
           end
         end;
  reflexivity.

Theorem range1_char : forall p,
  submatches R_rangePatterns_1 p 1 =
  match tcomp p with Some [a] => Some [a] | _ => None end.
Proof.
  intros p. rewrite tcomp_eq. unfold submatches, rmatch. rewrite R1_eq.
  rewrite m_cat, m_bot0; cbv beta.
  rewrite m_cat, m_grp, m_num by rej.
  destruct (num_len p) as [|n1] eqn:E1; [reflexivity|]. cbv beta.
  rewrite m_eot.
  destruct (skipn (S n1) p) as [|c r2] eqn:E2.
  - cbn [seq map cap_get cap_lookup Nat.eqb]. rewrite slice_off. reflexivity.
  - blast.
Qed.

Theorem range0_char : forall p,
  submatches R_rangePatterns_0 p 2 =
  match tcomp p with Some [a; b] => Some [a; b] | _ => None end.
Proof.
  intros p. rewrite tcomp_eq. unfold submatches, rmatch. rewrite R0_eq.
  rewrite m_cat, m_bot0; cbv beta.
  rewrite m_cat, m_grp, m_num by rej.
  destruct (num_len p) as [|n1] eqn:E1; [reflexivity|]. cbv beta.
  rewrite m_cat.
  destruct (skipn (S n1) p) as [|c r2] eqn:E2; [reflexivity|].
  rewrite m_cls_cons, cls_single.
  destruct (Nat.eqb_spec c 45) as [->|Hc]; [|reflexivity]. cbv beta.
  rewrite m_cat, m_grp, m_num by rej.
  destruct (num_len r2) as [|n2] eqn:E3; [reflexivity|]. cbv beta.
  rewrite m_eot.
  assert (H2 : skipn (S n1 + 1) p = r2).
  { rewrite skipn_add, E2. reflexivity. }
  destruct (skipn (S n2) r2) as [|md r3] eqn:E4.
  - cbn [seq map cap_get cap_lookup Nat.eqb].
    rewrite slice_off. cbn [skipn].
    f_equal. f_equal. f_equal. slc H2.
  - blast.
Qed.

Theorem range2_char : forall p,
  submatches R_rangePatterns_2 p 4 =
  match tcomp p with Some [a; b; md; n] => Some [a; b; md; n] | _ => None end.
Proof.
  intros p. rewrite tcomp_eq. unfold submatches, rmatch. rewrite R2_eq.
  rewrite m_cat, m_bot0; cbv beta.
  rewrite m_cat, m_grp, m_num by rej.
  destruct (num_len p) as [|n1] eqn:E1; [reflexivity|]. cbv beta.
  rewrite m_cat.
  destruct (skipn (S n1) p) as [|c r2] eqn:E2; [reflexivity|].
  rewrite m_cls_cons, cls_single.
  destruct (Nat.eqb_spec c 45) as [->|Hc]; [|reflexivity]. cbv beta.
  rewrite m_cat, m_grp, m_num by rej.
  destruct (num_len r2) as [|n2] eqn:E3; [reflexivity|]. cbv beta.
  rewrite m_cat, m_grp.
  assert (H2 : skipn (S n1 + 1) p = r2).
  { rewrite skipn_add, E2. reflexivity. }
  destruct (skipn (S n2) r2) as [|md r3] eqn:E4; [reflexivity|].
  rewrite m_cls_cons, cls_mod.
  destruct (Nat.eqb md 58 || Nat.eqb md 120 || Nat.eqb md 121) eqn:E5; [|reflexivity].
  cbv beta.
  rewrite m_cat, m_grp, m_num by rej.
  destruct (num_len r3) as [|n3] eqn:E6; [reflexivity|]. cbv beta.
  rewrite m_eot.
  assert (H4 : skipn (S n1 + 1 + S n2) p = md :: r3).
  { rewrite skipn_add, H2. exact E4. }
  assert (H5 : skipn (S n1 + 1 + S n2 + 1) p = r3).
  { rewrite skipn_add, H4. reflexivity. }
  destruct (skipn (S n3) r3) as [|x r4] eqn:E7; [|reflexivity].
  cbn [seq map cap_get cap_lookup Nat.eqb].
  rewrite slice_off. cbn [skipn].
  change [md] with (firstn 1 (md :: r3)).
  f_equal. f_equal. f_equal; [slc H2|]. f_equal; [slc H4|]. f_equal. slc H5.
Qed.

(** [tcomp] yields one, two or four strings *)
Lemma tcomp_shape : forall p,
  match tcomp p with
  | None | Some [_] | Some [_; _] | Some [_; _; _; _] => True
  | _ => False
  end.
Proof.
  intros p. rewrite tcomp_eq.
  repeat match goal with
         | |- context [match ?x with _ => _ end] =>
           lazymatch x with
           | context [match _ with _ => _ end] => fail
           | _ => destruct x
           end
         end; exact I.
Qed.

Theorem match_part_char : forall p, match_part p = tcomp p.
Proof.
  intros p. unfold match_part, N_rangePatterns_0, N_rangePatterns_1, N_rangePatterns_2.
  cbv zeta. rewrite range0_char, range1_char, range2_char.
  pose proof (tcomp_shape p) as H.
  destruct (tcomp p) as [[|a [|b [|c [|d [|e l]]]]]|]; try reflexivity; contradiction.
Qed.

Theorem pad_part_char : forall p pad, pad_part p pad =
  match tcomp p with
  | Some [a] => zfill_string a pad
  | Some [a; b] => zfill_string a pad ++ c_minus :: zfill_string b pad
  | Some [a; b; md; n] => zfill_string a pad ++ c_minus :: zfill_string b pad ++ md ++ n
  | _ => p
  end.
Proof.
  intros p pad. unfold pad_part. rewrite range0_char, range1_char, range2_char.
  destruct (tcomp p) as [[|a [|b [|c [|d [|e l]]]]]|]; reflexivity.
Qed.

(** * printf / houdini pad tokens *)

Theorem printf_char : forall s, submatches R_printfPattern s 1 =
  match s with
  | 37 :: r => let n := span_len is_digit r in
               match skipn n r with [100] => Some [firstn n r] | _ => None end
  | _ => None end.
Proof.
  intros s. unfold submatches, rmatch, R_printfPattern.
  rewrite m_cat, m_bot0; cbv beta. rewrite m_cat.
  destruct s as [|c r]; [reflexivity|].
  rewrite m_cls_cons, cls_single.
  destruct (Nat.eqb_spec c 37) as [->|Hc].
  2:{ do 37 (destruct c as [|c]; [reflexivity|]).
      destruct c as [|c]; [congruence|reflexivity]. }
  cbv beta zeta. rewrite m_cat, m_grp, gscan_commit_star.
  2:{ intros pos' c' s' cs' H. rewrite cls_digit in H.
      rewrite m_cat, m_cls_cons, cls_single, (digit_not_d _ H). reflexivity. }
  rewrite (span_len_ext _ is_digit r cls_digit).
  set (n := span_len is_digit r). rewrite m_cat.
  destruct (skipn n r) as [|d t] eqn:E; [reflexivity|].
  rewrite m_cls_cons, cls_single.
  destruct (Nat.eqb_spec d 100) as [->|Hd].
  - rewrite m_eot. destruct t as [|x t]; [|reflexivity].
    cbn [seq map cap_get cap_lookup Nat.eqb]. rewrite slice_off. reflexivity.
  - do 100 (destruct d as [|d]; [reflexivity|]).
    destruct d as [|d]; [congruence|reflexivity].
Qed.

Theorem houdini_char : forall s, submatches R_houdiniPattern s 1 =
  match s with
  | 36 :: 70 :: r => if Nat.eqb (span_len is_digit r) (List.length r) then Some [r] else None
  | _ => None end.
Proof.
  intros s. unfold submatches, rmatch, R_houdiniPattern.
  rewrite m_cat, m_bot0; cbv beta. rewrite m_cat, m_cat.
  destruct s as [|c s]; [reflexivity|].
  rewrite m_cls_cons, cls_single.
  destruct (Nat.eqb_spec c 36) as [->|Hc].
  2:{ do 36 (destruct c as [|c]; [reflexivity|]).
      destruct c as [|c]; [congruence|reflexivity]. }
  destruct s as [|c r]; [reflexivity|].
  rewrite m_cls_cons, cls_single.
  destruct (Nat.eqb_spec c 70) as [->|Hc].
  2:{ do 70 (destruct c as [|c]; [reflexivity|]).
      destruct c as [|c]; [congruence|reflexivity]. }
  rewrite m_cat, m_grp, gscan_commit_star.
  2:{ intros pos' c' s' cs' H. reflexivity. }
  rewrite (span_len_ext _ is_digit r cls_digit).
  pose proof (span_len_le is_digit r) as Hle.
  set (n := span_len is_digit r) in *. rewrite m_eot.
  destruct (skipn n r) as [|d t] eqn:E.
  - assert (Hn : n = List.length r).
    { apply (f_equal (@List.length _)) in E. rewrite skipn_length in E.
      cbn [List.length] in E. lia. }
    rewrite (proj2 (Nat.eqb_eq _ _) Hn).
    cbn [seq map cap_get cap_lookup Nat.eqb]. rewrite slice_off. cbn [skipn].
    rewrite (skipn_nil_all _ _ E). reflexivity.
  - assert (Hn : n <> List.length r).
    { apply (f_equal (@List.length _)) in E. rewrite skipn_length in E.
      cbn [List.length] in E. lia. }
    rewrite (proj2 (Nat.eqb_neq _ _) Hn). reflexivity.
Qed.

Print Assumptions range0_char.
Print Assumptions range1_char.
Print Assumptions range2_char.
Print Assumptions match_part_char.
Print Assumptions pad_part_char.
Print Assumptions printf_char.
Print Assumptions houdini_char.
