(** C15: no modelled entry point panics or runs out of fuel.

    An [outcome] is [total] when it is [Ok] or [Err]: the Go call returns
    (possibly with an error) instead of panicking, and the model's own fuel
    never runs out.  Every entry point that returns an [outcome] is total for
    EVERY input; (historical note) [seqinfo_parse] used to be the one exception: it
    reproduces the nil dereference of cmd/seqinfo when a frame path it built
    itself does not parse back ([Panic_nil_seq]), and it can reach no other
    panic.

    The other entry points are plain (total) Gallina functions that return
    values, so there is nothing to prove for them: [pad_frame_range],
    [padding_chars], [padding_chars_size], [zfill_string], [zfill_int],
    [q_string], [q_index], [q_frame_int], [q_frame_str], [q_paths], [q_len],
    [q_start], [q_end], [q_copy], [q_split], the setters ([set_dirname],
    [set_basename], [set_ext], [set_padding], [set_padding_style] - an unknown
    style falls back to the default mapper -, [set_frameset],
    [set_frame_range]), the frame set accessors ([fs_len], [fs_index],
    [fs_frame], [fs_frames], [fs_has_frame], [fs_start], [fs_end],
    [fs_frame_range_padded], [fs_invert], [fs_normalize],
    [fs_inverted_frame_range]), [normalized], [is_frame_range],
    [path_split], [path_clean].  Gallina has no partial functions and no
    exceptions; their Go counterparts' run-time guards (index, slice, nil,
    division) are the [Panic] sites of the functions treated below. *)
From GFS Require Import Base Dec Regex GenRegex GenPadTables Ranges Pad FrameSet Compress Path Seq
  Listing Seqinfo CompressProofs.
Local Open Scope Z_scope.

Definition total {A} (x : outcome A) : Prop :=
  match x with Ok _ | Err _ => True | Panic _ | OutOfFuel => False end.

(** * the vocabulary of totality *)

Lemma total_ok : forall A (a : A), total (Ok a).
Proof. intros A a. exact I. Qed.

Lemma total_err : forall A e, total (@Err A e).
Proof. intros A e. exact I. Qed.

Lemma total_bind : forall A B (x : outcome A) (f : A -> outcome B),
  total x -> (forall a, x = Ok a -> total (f a)) -> total (bind x f).
Proof.
  intros A B x f Hx Hf. destruct x as [a|e|n|]; cbn [bind total] in *;
    [apply Hf; reflexivity | exact I | contradiction | contradiction].
Qed.

Lemma total_cases : forall A (x : outcome A), total x -> (exists a, x = Ok a) \/ (exists e, x = Err e).
Proof.
  intros A x H. destruct x as [a|e|n|]; cbn [total] in H;
    [left; eexists; reflexivity | right; eexists; reflexivity | contradiction | contradiction].
Qed.

Lemma total_not_panic : forall A (x : outcome A) n, total x -> x <> Panic n.
Proof. intros A x n H E. subst x. exact H. Qed.

Lemma total_not_fuel : forall A (x : outcome A), total x -> x <> OutOfFuel.
Proof. intros A x H E. subst x. exact H. Qed.

(** * NewFrameSet / IsFrameRange *)

Lemma match_parts_total : forall parts, total (match_parts parts).
Proof.
  induction parts as [|p r IH]; cbn [match_parts]; [exact I|].
  destruct (match_part p); [|exact I].
  apply total_bind; [exact IH | intros; exact I].
Qed.

Lemma parse_int_total : forall s, total (parse_int s).
Proof. intros s. unfold parse_int. destruct (atoi s); exact I. Qed.

Lemma mod_switch_total : forall (md : bytes) (X Y C D : outcome iranges),
  total X -> total Y -> total C -> total D ->
  total (match md with
         | [120%nat] => X
         | [121%nat] => Y
         | [58%nat] => C
         | _ => D
         end).
Proof.
  intros md X Y C D HX HY HC HD. destruct md as [|m l]; [exact HD|].
  do 122 (destruct m as [|m]; [destruct l; assumption|]).
  destruct l; assumption.
Qed.

Lemma handle_match_total : forall bl mt, total (handle_match bl mt).
Proof.
  intros bl mt. unfold handle_match.
  destruct mt as [|a [|b [|md [|c [|x l]]]]]; try exact I.
  - apply total_bind; [apply parse_int_total | intros; exact I].
  - apply total_bind; [apply parse_int_total | intros].
    apply total_bind; [apply parse_int_total | intros; exact I].
  - apply total_bind; [apply parse_int_total | intros chunk _].
    destruct (chunk =? 0); [exact I|].
    apply total_bind; [apply parse_int_total | intros s _].
    apply total_bind; [apply parse_int_total | intros e _].
    apply mod_switch_total; exact I.
Qed.

Lemma handle_matches_total : forall ms bl, total (handle_matches bl ms).
Proof.
  induction ms as [|mt r IH]; intros bl; cbn [handle_matches]; [exact I|].
  apply total_bind; [apply handle_match_total | intros bl' _; apply IH].
Qed.

Theorem new_frameset_total : forall s, total (new_frameset s).
Proof.
  intros s. unfold new_frameset, frame_range_matches.
  apply total_bind; [apply match_parts_total | intros ms _].
  apply total_bind; [apply handle_matches_total | intros; exact I].
Qed.

Theorem is_frame_range_agrees : forall s,
  is_frame_range s = true <-> exists f, new_frameset s = Ok f.
Proof.
  intros s. unfold is_frame_range, is_ok. split.
  - destruct (new_frameset s) as [f| | |]; try discriminate. intros _. exists f. reflexivity.
  - intros [f E]. rewrite E. reflexivity.
Qed.

(** the negative side: [false] is exactly a returned error *)
Theorem is_frame_range_false : forall s,
  is_frame_range s = false <-> exists e, new_frameset s = Err e.
Proof.
  intros s. unfold is_frame_range, is_ok. pose proof (new_frameset_total s) as T. split.
  - destruct (new_frameset s) as [f|e| |]; try discriminate; try contradiction.
    intros _. exists e. reflexivity.
  - intros [e E]. rewrite E. reflexivity.
Qed.

(** * NewFileSequencePad *)

Lemma new_single_total : forall s st, total (new_single s st).
Proof.
  intros s st. unfold new_single.
  destruct (existsb _ all_chars); [exact I|].
  destruct (path_split s) as [dir b0].
  destruct (match last_index c_dot b0 with
            | Some i => (firstn i b0, skipn i b0) | None => (b0, []) end) as [basename ext].
  match goal with |- total (if ?b then _ else _) => destruct b end; [exact I|].
  destruct (submatches R_singleFramePattern b0 3) as [l|]; [|exact I].
  destruct l as [|name [|frame [|ext' [|x l]]]]; try exact I.
  destruct (opt_frameset frame); exact I.
Qed.

Theorem new_fileseq_total : forall s st, total (new_fileseq s st).
Proof.
  intros s st. unfold new_fileseq.
  destruct (submatches R_splitPattern s 4) as [l|]; [|apply new_single_total].
  destruct l as [|name [|rng [|pad [|ext [|x l]]]]]; try apply new_single_total.
  destruct (path_split name). exact I.
Qed.

(** * FramesToFrameRange: for EVERY list, duplicates and any order included *)

Lemma zsort_length : forall l, List.length (zsort l) = List.length l.
Proof.
  assert (Hins : forall x l, List.length (zinsert x l) = S (List.length l)).
  { intros x l. induction l as [|y r IH]; cbn [zinsert List.length]; [reflexivity|].
    destruct (x <=? y); cbn [List.length]; [reflexivity | rewrite IH; reflexivity]. }
  induction l as [|x r IH]; [reflexivity|].
  unfold zsort in *. cbn [fold_right]. rewrite Hins, IH. reflexivity.
Qed.

Theorem f2r_total : forall l sorted z, exists s, frames_to_frame_range l sorted z = Ok s.
Proof.
  intros l sorted z. unfold frames_to_frame_range.
  destruct l as [|a [|b r]]; [eexists; reflexivity | eexists; reflexivity|].
  set (fr := if sorted then zsort (a :: b :: r) else a :: b :: r).
  destruct (loop_decomp (S (List.length fr)) fr z []) as [cs [_ E]]; [lia|].
  eexists. exact E.
Qed.

Corollary f2r_total' : forall l sorted z, total (frames_to_frame_range l sorted z).
Proof. intros l sorted z. destruct (f2r_total l sorted z) as [s E]. rewrite E. exact I. Qed.

(** the loop itself: fuel above the length is always enough *)
Theorem f2r_loop_total : forall fuel frames z buf, (List.length frames < fuel)%nat ->
  exists s, f2r_loop fuel frames z buf = Ok s.
Proof.
  intros fuel frames z buf H. destruct (loop_decomp fuel frames z buf H) as [cs [_ E]].
  eexists. exact E.
Qed.

(** * FindSequencesInList / findSequencesInList *)

Lemma append_seq_total : forall o dir base frange pad ext,
  total (append_seq o dir base frange pad ext).
Proof.
  intros. unfold append_seq. apply total_bind; [apply new_fileseq_total | intros; exact I].
Qed.

Lemma collect_total : forall o tmpl items seqs files, total (Listing.collect o tmpl items seqs files).
Proof.
  intros o tmpl items. induction items as [|it rest IH]; intros seqs files;
    cbn [Listing.collect]; [exact I|].
  destruct (classify o tmpl it) as [|base frame ext|key frame].
  - apply IH.
  - destruct (o_single o); [|apply IH].
    apply total_bind; [apply new_fileseq_total | intros q _; apply IH].
  - cbv zeta. apply IH.
Qed.

Lemma flush_total : forall o dir base ext pad frames (out : list fileseq) (k : fileseq -> outcome (list fileseq)),
  (forall q, total (k q)) ->
  total (do fr <- frames_to_frame_range frames true 0;
         do q <- append_seq o dir base fr pad ext; k q).
Proof.
  intros o dir base ext pad frames out k Hk.
  apply total_bind; [apply f2r_total' | intros fr _].
  apply total_bind; [apply append_seq_total | intros q _; apply Hk].
Qed.

Lemma group_walk_total : forall o dir base ext fis cur_w pad frames out,
  total (group_walk o dir base ext fis cur_w pad frames out).
Proof.
  intros o dir base ext fis. induction fis as [|fi rest IH]; intros cur_w pad frames out;
    cbn [group_walk].
  - destruct frames as [|f fs]; [exact I|].
    apply (flush_total o dir base ext pad (f :: fs) out (fun q => Ok (out ++ [q]))).
    intros q. exact I.
  - match goal with |- total (if ?b then _ else _) => destruct b end; [|apply IH].
    apply total_bind; [apply f2r_total' | intros fr _].
    apply total_bind; [apply append_seq_total | intros q _]. cbv zeta. apply IH.
Qed.

Lemma emit_bucket_total : forall o k s, total (emit_bucket o k s).
Proof.
  intros o [[dir base] ext] s. unfold emit_bucket.
  destruct (s_frames s) as [|fi [|fi' l]] eqn:E; [exact I | |].
  - cbv zeta. apply total_bind; [apply append_seq_total | intros; exact I].
  - cbv zeta. destruct (fi_sort (fi :: fi' :: l)); [exact I | apply group_walk_total].
Qed.

Lemma emit_all_total : forall o m, total (emit_all o m).
Proof.
  intros o m. induction m as [|[k s] r IH]; cbn [emit_all]; [exact I|].
  apply total_bind; [apply emit_bucket_total | intros a _].
  apply total_bind; [exact IH | intros; exact I].
Qed.

Theorem find_items_total : forall items opts tmpl, total (find_items items opts tmpl).
Proof.
  intros items opts tmpl. unfold find_items. cbv zeta.
  apply total_bind; [apply collect_total | intros [seqs files] _].
  apply total_bind; [apply emit_all_total | intros; exact I].
Qed.

Theorem find_in_list_total : forall paths opts, total (find_in_list paths opts).
Proof. intros paths opts. unfold find_in_list. apply find_items_total. Qed.

(** * the directory side *)

Lemma disk_items_total : forall prefix ents, total (disk_items prefix ents).
Proof.
  intros prefix ents. induction ents as [|[name k] r IH]; cbn [disk_items]; [exact I|].
  destruct k; try exact IH; try exact I;
    (apply total_bind; [exact IH | intros; exact I]).
Qed.

Theorem find_on_disk_total : forall path rd opts tmpl, total (find_on_disk path rd opts tmpl).
Proof.
  intros path rd opts tmpl. unfold find_on_disk. destruct rd as [ents|]; [|exact I].
  apply total_bind; [apply disk_items_total | intros items _; apply find_items_total].
Qed.

Theorem find_seq_on_disk_total : forall pat st opts rd, total (find_seq_on_disk pat st opts rd).
Proof.
  intros pat st opts rd. unfold find_seq_on_disk. cbv zeta.
  match goal with |- total (match ?x with _ => _ end) =>
    pose proof (new_fileseq_total pat (style_of_int
      (fold_left (fun st0 o => if o =? K_FileOptPadStyleHash1 then K_PadStyleHash1
                               else if o =? K_FileOptPadStyleHash4 then K_PadStyleHash4
                               else st0) opts st))) as T;
    destruct x as [t|e|n|] end; try exact I; try contradiction.
  match goal with |- total (match ?x with _ => _ end) =>
    match x with
    | find_on_disk ?d ?r ?o ?tm => pose proof (find_on_disk_total d r o tm) as T2
    end;
    destruct x as [seqs|e|n|] end; try exact I; try contradiction.
  match goal with |- total (match ?x with _ => _ end) => destruct x end; exact I.
Qed.

(** * cmd/seqinfo: after the repair (a frame path that does not re-parse is
    reported as the entry's error) the option pipeline never panics either *)

Lemma reparse_frame_total : forall path st, total (reparse_frame path st).
Proof.
  intros path st. unfold reparse_frame. pose proof (new_fileseq_total path st) as T.
  destruct (new_fileseq path st); try exact I; contradiction.
Qed.

Theorem seqinfo_parse_total : forall pat o rf, total (seqinfo_parse pat o rf).
Proof.
  intros pat o rf. unfold seqinfo_parse. cbv zeta.
  pose proof (new_fileseq_total pat (if so_hash1 o then Hash1 else Hash4)) as T0.
  destruct (new_fileseq pat (if so_hash1 o then Hash1 else Hash4)) as [q0|e|n|]; try exact I; try contradiction.
  match goal with |- total (match ?x with Some _ => _ | None => _ end) => destruct x as [q1|] end; [|exact I].
  match goal with |- total (if ?b then _ else _) => destruct b end; [exact I|].
  match goal with |- total (bind ?x _) => assert (Hx : total x); [|destruct x as [o8|e8|n8|]; try exact I; try contradiction] end.
  { destruct (so_index o) as [i|]; [|exact I].
    match goal with |- total (match ?l with [] => _ | _ :: _ => _ end) => destruct l end; [exact I|].
    apply reparse_frame_total. }
  cbn [bind]. destruct o8 as [q8|]; [|exact I].
  match goal with |- total (bind ?x _) => assert (Hy : total x); [|destruct x as [o9|e9|n9|]; try exact I; try contradiction] end.
  { destruct (so_frame o) as [f|]; [|exact I]. apply reparse_frame_total. }
  cbn [bind]. destruct o9; exact I.
Qed.

(** the repaired witness: --basename "b\n@" with --frame 2 used to dereference a nil sequence *)
Example seqinfo_former_panic_is_an_error :
  match seqinfo_parse (s2b "/a/foo.1-3#.exr")
          (mkSO [] [98; 10; 64]%nat [] [] [] false false false None (Some 2%Z)) None with
  | Ok r => sr_error r = true
  | _ => False
  end.
Proof. vm_compute. reflexivity. Qed.

Print Assumptions seqinfo_parse_total.
