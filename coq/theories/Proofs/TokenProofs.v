(** The widths of the printf ("%0Nd", "%Nd", "%d") and houdini ("$FN", "$F")
    pad tokens (C10): PaddingCharsSize counts N, and 1 when N is absent, zero,
    or does not fit an int.  The UDIM search (an UNANCHORED MatchString of
    [(^<UDIM>)|(%\(UDIM\)d$)]) is shown to fail on every such token. *)
From GFS Require Import Base Dec Regex GenRegex GenPadTables Pad RegexKit RangeRegex DecProofs PadProofs.
Local Open Scope Z_scope.

(** * the UDIM search *)

Local Notation K0 := (fun (_ : nat) (_ : bytes) (cs : caps) => Some cs).

Lemma rsearch_from_cons : forall r pos (c : byte) (s : bytes),
  rsearch_from r pos (c :: s) =
  match m r pos (c :: s) [] K0 with Some _ => true | None => rsearch_from r (S pos) s end.
Proof. reflexivity. Qed.

(** a head byte other than '<' and '%' starts no UDIM match, at any offset *)
Lemma udim_head_other : forall pos (c : byte) (s : bytes),
  Nat.eqb c 60 = false -> Nat.eqb c 37 = false ->
  m R_udimPattern pos (c :: s) [] K0 = None.
Proof.
  intros pos c s H60 H37. unfold R_udimPattern. cbn [m].
  rewrite !cls_single, H60, H37. destruct (Nat.eqb pos 0); reflexivity.
Qed.

(** '%' followed by a byte other than '(' starts no UDIM match *)
Lemma udim_head_pct : forall pos (c : byte) (s : bytes),
  Nat.eqb c 40 = false ->
  m R_udimPattern pos (37%nat :: c :: s) [] K0 = None.
Proof.
  intros pos c s H40. unfold R_udimPattern. cbn [m].
  rewrite !cls_single. change (Nat.eqb 37 60) with false. change (Nat.eqb 37 37) with true.
  cbv iota. rewrite H40. destruct (Nat.eqb pos 0); reflexivity.
Qed.

(** a lone '%' at the end of the input starts no UDIM match *)
Lemma udim_head_pct_end : forall pos, m R_udimPattern pos [37%nat] [] K0 = None.
Proof. intros pos. unfold R_udimPattern. cbn. destruct (Nat.eqb pos 0); reflexivity. Qed.

Lemma udim_nil : forall pos, m R_udimPattern pos [] [] K0 = None.
Proof. intros pos. unfold R_udimPattern. cbn. destruct (Nat.eqb pos 0); reflexivity. Qed.

Definition no_udim_start (c : byte) : Prop := Nat.eqb c 60 = false /\ Nat.eqb c 37 = false.

(** no offset of a string without '<' and '%' starts a UDIM match *)
Lemma udim_search_other : forall (s : bytes) pos, Forall no_udim_start s ->
  rsearch_from R_udimPattern pos s = false.
Proof.
  induction s as [|c s IH]; intros pos H.
  - cbn [rsearch_from]. rewrite udim_nil. reflexivity.
  - inversion H as [|? ? [H60 H37] Hs]; subst.
    cbn [rsearch_from].  rewrite (udim_head_other pos c s H60 H37).
    apply IH. exact Hs.
Qed.

Lemma digit_no_udim : forall c, is_digit c = true -> no_udim_start c.
Proof. intros c H. split; apply is_digit_neq; try exact H; lia. Qed.

Lemma digits_no_udim : forall ds, all_digits ds -> Forall no_udim_start ds.
Proof.
  intros ds H. unfold all_digits in H. eapply Forall_impl; [|exact H].
  intros c Hc. apply digit_no_udim. exact Hc.
Qed.

Lemma digits_d_no_udim : forall ds, all_digits ds -> Forall no_udim_start (ds ++ [100%nat]).
Proof.
  intros ds H. apply Forall_app. split; [apply digits_no_udim; exact H|].
  constructor; [split; reflexivity | constructor].
Qed.

(** the head of [ds ++ "d"] is a digit or 'd', never '(' *)
Lemma digits_d_head : forall ds, all_digits ds ->
  exists c r, ds ++ [100%nat] = c :: r /\ Nat.eqb c 40 = false.
Proof.
  intros [|c r] H.
  - exists 100%nat, []. split; reflexivity.
  - exists c, (r ++ [100%nat]). split; [reflexivity|].
    apply all_digits_cons in H. destruct H as [Hc _].
    apply is_digit_neq; [exact Hc | lia].
Qed.

Theorem udim_search_printf : forall ds, all_digits ds ->
  rsearch R_udimPattern (37%nat :: ds ++ [100%nat]) = false.
Proof.
  intros ds H. unfold rsearch.
  destruct (digits_d_head ds H) as [c [r [E H40]]].
  pose proof (digits_d_no_udim ds H) as F. rewrite E in *.
  rewrite rsearch_from_cons. pose proof (udim_head_pct 0 c r H40) as X. nb. rewrite X.
  apply udim_search_other. exact F.
Qed.

Theorem udim_search_houdini : forall ds, all_digits ds ->
  rsearch R_udimPattern (36%nat :: 70%nat :: ds) = false.
Proof.
  intros ds H. unfold rsearch. apply udim_search_other.
  constructor; [split; reflexivity|]. constructor; [split; reflexivity|].
  apply digits_no_udim. exact H.
Qed.

(** * the digit run of the tokens *)

Lemma span_len_digits_stop : forall ds c r, all_digits ds -> is_digit c = false ->
  span_len is_digit (ds ++ c :: r) = List.length ds.
Proof.
  intros ds c r H Hc. induction ds as [|d ds IH]; cbn [app span_len List.length].
  - rewrite Hc. reflexivity.
  - apply all_digits_cons in H. destruct H as [Hd Hr]. rewrite Hd, (IH Hr). reflexivity.
Qed.

Lemma span_len_digits_all : forall ds, all_digits ds -> span_len is_digit ds = List.length ds.
Proof. intros ds H. apply span_len_all, all_digits_forallb. exact H. Qed.

Lemma skipn_length_app : forall (a b : bytes), skipn (List.length a) (a ++ b) = b.
Proof. intros a b. induction a as [|x a IH]; cbn [List.length skipn app]; [reflexivity | exact IH]. Qed.

Lemma firstn_length_app : forall (a b : bytes), firstn (List.length a) (a ++ b) = a.
Proof.
  intros a b. induction a as [|x a IH]; cbn [List.length firstn app]; [reflexivity|].
  rewrite IH. reflexivity.
Qed.

(** the printf pattern captures exactly the digits *)
Theorem printf_token_capture : forall ds, all_digits ds ->
  submatches R_printfPattern (37%nat :: ds ++ [100%nat]) 1 = Some [ds].
Proof.
  intros ds H. rewrite printf_char. cbv beta iota zeta.
  pose proof (span_len_digits_stop ds 100%nat [] H eq_refl) as X.
  pose proof (skipn_length_app ds [100%nat]) as Y.
  pose proof (firstn_length_app ds [100%nat]) as Z0.
  nb. rewrite X, Y, Z0. reflexivity.
Qed.

(** the houdini pattern captures exactly the digits *)
Theorem houdini_token_capture : forall ds, all_digits ds ->
  submatches R_houdiniPattern (36%nat :: 70%nat :: ds) 1 = Some [ds].
Proof.
  intros ds H. rewrite houdini_char. cbv beta iota zeta.
  pose proof (span_len_digits_all ds H) as X. nb. rewrite X, Nat.eqb_refl. reflexivity.
Qed.

(** a printf token is not a houdini token (the first byte differs) *)
Lemma houdini_not_printf : forall s, alt_pad_size R_houdiniPattern (37%nat :: s) = None.
Proof. intros s. unfold alt_pad_size. rewrite houdini_char. reflexivity. Qed.

Lemma printf_not_houdini : forall s, alt_pad_size R_printfPattern (36%nat :: s) = None.
Proof. intros s. unfold alt_pad_size. rewrite printf_char. reflexivity. Qed.

Definition token_width (ds : bytes) : Z :=
  match atoi ds with Some v => if v <? 1 then 1 else v | None => 1 end.

Lemma alt_pad_size_printf : forall ds, all_digits ds ->
  alt_pad_size R_printfPattern (37%nat :: ds ++ [100%nat]) = Some (token_width ds).
Proof.
  intros ds H. unfold alt_pad_size, token_width. rewrite (printf_token_capture ds H).
  destruct (atoi ds) as [v|]; [|reflexivity]. destruct (v <? 1); reflexivity.
Qed.

Lemma alt_pad_size_houdini : forall ds, all_digits ds ->
  alt_pad_size R_houdiniPattern (36%nat :: 70%nat :: ds) = Some (token_width ds).
Proof.
  intros ds H. unfold alt_pad_size, token_width. rewrite (houdini_token_capture ds H).
  destruct (atoi ds) as [v|]; [|reflexivity]. destruct (v <? 1); reflexivity.
Qed.

(** * the two theorems *)

(** %0Nd and %Nd count N, 1 when N is absent, zero, or does not fit an int *)
Theorem printf_token_counts : forall st ds, all_digits ds ->
  padding_chars_size st (37%nat :: ds ++ [100%nat]) =
  match atoi ds with Some v => if v <? 1 then 1 else v | None => 1 end.
Proof.
  intros st ds H. unfold padding_chars_size.
  rewrite (udim_search_printf ds H), (alt_pad_size_printf ds H). reflexivity.
Qed.

(** $FN counts N, 1 when N is absent or zero or does not fit *)
Theorem houdini_token_counts : forall st ds, all_digits ds ->
  padding_chars_size st (36%nat :: 70%nat :: ds) =
  match atoi ds with Some v => if v <? 1 then 1 else v | None => 1 end.
Proof.
  intros st ds H. unfold padding_chars_size.
  rewrite (udim_search_houdini ds H), (printf_not_houdini (70%nat :: ds)),
          (alt_pad_size_houdini ds H). reflexivity.
Qed.

(** * the value read from the digits, made explicit *)

(** a non-empty digit string that fits an int counts its value (leading
    zeros are insignificant); 0 counts 1 *)
Corollary token_width_value : forall ds, ds <> [] -> all_digits ds ->
  token_width ds =
  if fits_int (dval ds 0) then (if dval ds 0 <? 1 then 1 else dval ds 0) else 1.
Proof.
  intros ds Hne H. unfold token_width.
  rewrite atoi_atoi_big, (atoi_big_digits ds Hne H).
  destruct (fits_int (dval ds 0)); reflexivity.
Qed.

Corollary token_width_empty : token_width [] = 1.
Proof. reflexivity. Qed.

(** the width is always at least 1 *)
Corollary token_width_pos : forall ds, 1 <= token_width ds.
Proof.
  intros ds. unfold token_width. destruct (atoi ds) as [v|]; [|lia].
  destruct (Z.ltb_spec v 1); lia.
Qed.

(** * concrete tokens *)

Example ex_printf_04 : forall st, padding_chars_size st (s2b "%04d") = 4.
Proof. destruct st; vm_compute; reflexivity. Qed.
Example ex_printf_d : forall st, padding_chars_size st (s2b "%d") = 1.
Proof. destruct st; vm_compute; reflexivity. Qed.
Example ex_printf_0 : forall st, padding_chars_size st (s2b "%0d") = 1.
Proof. destruct st; vm_compute; reflexivity. Qed.
Example ex_printf_00012 : forall st, padding_chars_size st (s2b "%00012d") = 12.
Proof. destruct st; vm_compute; reflexivity. Qed.
Example ex_printf_huge : forall st, padding_chars_size st (s2b "%99999999999999999999d") = 1.
Proof. destruct st; vm_compute; reflexivity. Qed.
Example ex_houdini_3 : forall st, padding_chars_size st (s2b "$F3") = 3.
Proof. destruct st; vm_compute; reflexivity. Qed.
Example ex_houdini_none : forall st, padding_chars_size st (s2b "$F") = 1.
Proof. destruct st; vm_compute; reflexivity. Qed.
Example ex_houdini_0 : forall st, padding_chars_size st (s2b "$F0") = 1.
Proof. destruct st; vm_compute; reflexivity. Qed.

Print Assumptions printf_token_counts.
Print Assumptions houdini_token_counts.
