(** The recursive directory walk of cmd/seqls (Model/Seqls.v [walk_entries], [walk_root];
    manager.go loadRecursive) against a fuel-free specification.

    1. [Walk] is the walk as an inductive relation without fuel, one constructor per
       clause of [walk_entries].  [walk_entries'] is [walk_entries] instrumented with a
       "ran out of fuel" flag and the list of link targets that were recursed into; it is
       equal to [walk_entries] on jobs and cache ([walk_entries'_eq]).  When the flag is
       off the result satisfies [Walk] ([walk_entries_sound]), more fuel changes nothing
       ([walk_fuel_monotone]), every [Walk] derivation is found by some fuel
       ([walk_entries_complete]), [Walk] is a function ([Walk_functional]).  For every tree
       whose real directories are ranked ([acyclic]: a KDir entry lies strictly deeper than
       its parent; implied by "no directory entry is named ." , [no_dot_acyclic]), with any
       links (cyclic, aliased, dangling targets), the walk terminates ([walk_terminates]) and
       the fuel of [walk_root] suffices ([walk_root_fuel_enough]).
    2. Without links the jobs are exactly the directories reachable through entries that
       are not skipped, each once, spelled by re-rooting ([walk_visits_exactly]).
    3. A link target is recursed into at most once, and never when it is already in the
       cache ([walk_follows_once], [walk_seen_link]). *)
From GFS Require Import Base Path Listing Seqls.
Local Open Scope nat_scope.

(* ------------------------------------------------------------------ *)
(** * Vocabulary *)

Definition node_real (n : tnode) : bytes := real_join (tn_parent n) (tn_name n).
Definition is_dir (n : tnode) : bool := match tn_kind n with KDir => true | _ => false end.
Definition is_link (n : tnode) : bool := match tn_kind n with KLinkDir => true | _ => false end.
Definition mem (x : bytes) (c : list bytes) : bool := existsb (beq x) c.
(** the entry spelled [sp] is not listed and not entered *)
Definition skipped (all : bool) (sp : bytes) : bool := negb all && hidden_dir sp.

Lemma wbeq_refl : forall a, beq a a = true.
Proof. induction a; simpl; auto. rewrite Nat.eqb_refl; auto. Qed.

Lemma wbeq_eq : forall a b, beq a b = true -> a = b.
Proof.
  induction a; destruct b; simpl; intros H; try discriminate; auto.
  apply andb_true_iff in H. destruct H as [H1 H2].
  apply Nat.eqb_eq in H1. subst. f_equal; auto.
Qed.

Lemma wbeq_false : forall a b, beq a b = false -> a <> b.
Proof. intros a b H E. subst. rewrite wbeq_refl in H. discriminate. Qed.

Lemma mem_In : forall x c, mem x c = true <-> In x c.
Proof.
  unfold mem. intros x c. rewrite existsb_exists. split.
  - intros [y [Hy E]]. apply wbeq_eq in E. subst. auto.
  - intros H. exists x. split; auto. apply wbeq_refl.
Qed.

Lemma mem_false : forall x c, mem x c = false <-> ~ In x c.
Proof.
  intros x c. rewrite <- mem_In. destruct (mem x c); split; intros; try discriminate; auto.
  exfalso; auto.
Qed.

Lemma children_In : forall t r n, In n (children t r) <-> In n t /\ tn_parent n = r.
Proof.
  unfold children. intros. rewrite filter_In. split; intros [H1 H2]; split; auto.
  - apply wbeq_eq; auto.
  - subst. apply wbeq_refl.
Qed.

Lemma incl_children : forall t r, incl (children t r) t.
Proof. intros t r n H. apply children_In in H. tauto. Qed.

(* ------------------------------------------------------------------ *)
(** * The fuel-free specification *)

Inductive Walk (t : tree) (all : bool)
  : bytes -> list tnode -> list bytes -> list (bytes * bytes) -> list bytes -> Prop :=
| W_nil : forall sp c, Walk t all sp [] c [] c
| W_other : forall sp n rest c j2 c2,                       (* files, links to files, dangling links *)
    tn_kind n <> KDir -> tn_kind n <> KLinkDir ->
    Walk t all sp rest c j2 c2 ->
    Walk t all sp (n :: rest) c j2 c2
| W_dir_hidden : forall sp n rest c j2 c2,
    tn_kind n = KDir -> skipped all (join_path sp (tn_name n)) = true ->
    Walk t all sp rest c j2 c2 ->
    Walk t all sp (n :: rest) c j2 c2
| W_dir : forall sp n rest c j1 c1 j2 c2,
    tn_kind n = KDir -> skipped all (join_path sp (tn_name n)) = false ->
    Walk t all (join_path sp (tn_name n)) (children t (node_real n)) c j1 c1 ->
    Walk t all sp rest c1 j2 c2 ->
    Walk t all sp (n :: rest) c ((join_path sp (tn_name n), node_real n) :: j1 ++ j2) c2
| W_link_hidden_new : forall sp n rest c j2 c2,             (* cached although never listed *)
    tn_kind n = KLinkDir -> mem (tn_target n) c = false ->
    skipped all (join_path sp (tn_name n)) = true ->
    Walk t all sp rest (tn_target n :: c) j2 c2 ->
    Walk t all sp (n :: rest) c j2 c2
| W_link_hidden_seen : forall sp n rest c j2 c2,
    tn_kind n = KLinkDir -> mem (tn_target n) c = true ->
    skipped all (join_path sp (tn_name n)) = true ->
    Walk t all sp rest c j2 c2 ->
    Walk t all sp (n :: rest) c j2 c2
| W_link_new : forall sp n rest c j1 c1 j2 c2,              (* first time: listed and entered *)
    tn_kind n = KLinkDir -> mem (tn_target n) c = false ->
    skipped all (join_path sp (tn_name n)) = false ->
    Walk t all (join_path sp (tn_name n)) (children t (tn_target n)) (tn_target n :: c) j1 c1 ->
    Walk t all sp rest c1 j2 c2 ->
    Walk t all sp (n :: rest) c ((join_path sp (tn_name n), tn_target n) :: j1 ++ j2) c2
| W_link_seen : forall sp n rest c j2 c2,                   (* target already followed: listed only *)
    tn_kind n = KLinkDir -> mem (tn_target n) c = true ->
    skipped all (join_path sp (tn_name n)) = false ->
    Walk t all sp rest c j2 c2 ->
    Walk t all sp (n :: rest) c ((join_path sp (tn_name n), tn_target n) :: j2) c2.

(** [walk_root] without fuel *)
Inductive WalkRoot (t : tree) (all : bool) (root real : bytes) (c : list bytes)
  : list (bytes * bytes) -> list bytes -> Prop :=
| WR_hidden : skipped all root = true -> WalkRoot t all root real c [] c
| WR_walk : forall j c', skipped all root = false ->
    Walk t all root (children t real) c j c' ->
    WalkRoot t all root real c ((root, real) :: j) c'.

(* ------------------------------------------------------------------ *)
(** * The instrumented walk *)

Record wres : Type := mkW {
  w_jobs : list (bytes * bytes);
  w_cache : list bytes;
  w_trunc : bool;                (* some call was cut short by the fuel *)
  w_followed : list bytes        (* link targets recursed into, in order *)
}.

Definition wcomb (r1 r2 : wres) : wres :=
  mkW (w_jobs r1 ++ w_jobs r2) (w_cache r2) (w_trunc r1 || w_trunc r2) (w_followed r1 ++ w_followed r2).

(** what one entry does, [rec] being the walk one level down *)
Definition walk_node' (rec : bytes -> list tnode -> list bytes -> wres)
           (t : tree) (all : bool) (sp : bytes) (n : tnode) (c : list bytes) : wres :=
  let sp' := join_path sp (tn_name n) in
  match tn_kind n with
  | KDir =>
    if skipped all sp' then mkW [] c false []
    else let r := rec sp' (children t (node_real n)) c in
         mkW ((sp', node_real n) :: w_jobs r) (w_cache r) (w_trunc r) (w_followed r)
  | KLinkDir =>
    let tgt := tn_target n in
    if mem tgt c then
      if skipped all sp' then mkW [] c false [] else mkW [(sp', tgt)] c false []
    else
      if skipped all sp' then mkW [] (tgt :: c) false []
      else let r := rec sp' (children t tgt) (tgt :: c) in
           mkW ((sp', tgt) :: w_jobs r) (w_cache r) (w_trunc r) (tgt :: w_followed r)
  | _ => mkW [] c false []
  end.

Fixpoint walk_entries' (fuel : nat) (t : tree) (all : bool) (sp : bytes) (ents : list tnode)
         (c : list bytes) {struct fuel} : wres :=
  match ents with
  | [] => mkW [] c false []
  | n :: rest =>
    match fuel with
    | O => mkW [] c true []
    | S fuel' =>
      let r1 := walk_node' (walk_entries' fuel' t all) t all sp n c in
      wcomb r1 (walk_entries' fuel' t all sp rest (w_cache r1))
    end
  end.

Definition not_truncated (fuel : nat) (t : tree) (all : bool) (sp : bytes) (ents : list tnode)
           (c : list bytes) : Prop :=
  w_trunc (walk_entries' fuel t all sp ents c) = false.

Lemma walk_entries'_nil : forall fuel t all sp c, walk_entries' fuel t all sp [] c = mkW [] c false [].
Proof. destruct fuel; reflexivity. Qed.

Lemma walk_entries'_cons : forall fuel t all sp n rest c,
  walk_entries' (S fuel) t all sp (n :: rest) c =
  let r1 := walk_node' (walk_entries' fuel t all) t all sp n c in
  wcomb r1 (walk_entries' fuel t all sp rest (w_cache r1)).
Proof. reflexivity. Qed.

(** the instrumented walk computes the jobs and the cache of the model, whatever the fuel *)
Theorem walk_entries'_eq : forall fuel t all sp ents c,
  walk_entries fuel t all sp ents c =
  (w_jobs (walk_entries' fuel t all sp ents c), w_cache (walk_entries' fuel t all sp ents c)).
Proof.
  induction fuel; intros t all sp ents c.
  - destruct ents; reflexivity.
  - destruct ents as [|n rest]; [reflexivity|].
    rewrite walk_entries'_cons. cbv zeta. unfold walk_node', skipped, mem.
    simpl walk_entries.
    destruct (tn_kind n);
      try (rewrite IHfuel; reflexivity).
    + destruct (negb all && hidden_dir (join_path sp (tn_name n))).
      * rewrite IHfuel. reflexivity.
      * rewrite IHfuel. simpl. rewrite IHfuel. reflexivity.
    + destruct (existsb (beq (tn_target n)) c); simpl;
        destruct (negb all && hidden_dir (join_path sp (tn_name n))); simpl;
          repeat (rewrite IHfuel; simpl); reflexivity.
Qed.

(* ------------------------------------------------------------------ *)
(** * Soundness, fuel monotonicity, completeness *)

Lemma walk_entries'_sound : forall fuel t all sp ents c,
  not_truncated fuel t all sp ents c ->
  Walk t all sp ents c (w_jobs (walk_entries' fuel t all sp ents c))
                       (w_cache (walk_entries' fuel t all sp ents c)).
Proof.
  unfold not_truncated.
  induction fuel; intros t all sp ents c H.
  - destruct ents; simpl in *; [constructor | discriminate].
  - destruct ents as [|n rest]; [constructor|].
    rewrite walk_entries'_cons in *. cbv zeta in *.
    simpl in H. apply orb_false_iff in H. destruct H as [H1 H2].
    apply IHfuel in H2. revert H1 H2.
    unfold walk_node'.
    destruct (tn_kind n) eqn:K.
    + intros _ H2. simpl in *. apply W_other; auto; congruence.
    + destruct (skipped all (join_path sp (tn_name n))) eqn:S; simpl; intros H1 H2.
      * apply W_dir_hidden; auto.
      * eapply W_dir; [auto|auto|apply IHfuel; exact H1|exact H2].
    + intros _ H2. simpl in *. apply W_other; auto; congruence.
    + destruct (mem (tn_target n) c) eqn:M;
        destruct (skipped all (join_path sp (tn_name n))) eqn:S; simpl; intros H1 H2.
      * apply W_link_hidden_seen; auto.
      * apply W_link_seen; auto.
      * apply W_link_hidden_new; auto.
      * eapply W_link_new; [auto|auto|auto|apply IHfuel; exact H1|exact H2].
    + intros _ H2. simpl in *. apply W_other; auto; congruence.
Qed.

(** the statement on the model's own function *)
Theorem walk_entries_sound : forall fuel t all sp ents c jobs c',
  walk_entries fuel t all sp ents c = (jobs, c') ->
  not_truncated fuel t all sp ents c ->
  Walk t all sp ents c jobs c'.
Proof.
  intros fuel t all sp ents c jobs c' E H.
  rewrite walk_entries'_eq in E. inversion E; subst.
  apply walk_entries'_sound; auto.
Qed.

Lemma walk_node'_ext : forall rec1 rec2 t all sp n c,
  (forall sp' ents' c', w_trunc (rec1 sp' ents' c') = false -> rec2 sp' ents' c' = rec1 sp' ents' c') ->
  w_trunc (walk_node' rec1 t all sp n c) = false ->
  walk_node' rec2 t all sp n c = walk_node' rec1 t all sp n c.
Proof.
  intros rec1 rec2 t all sp n c H. unfold walk_node'.
  destruct (tn_kind n); try reflexivity.
  - destruct (skipped all (join_path sp (tn_name n))); simpl; intros T; try reflexivity.
    rewrite H by assumption. reflexivity.
  - destruct (mem (tn_target n) c); destruct (skipped all (join_path sp (tn_name n)));
      simpl; intros T; try reflexivity.
    rewrite H by assumption. reflexivity.
Qed.

Lemma walk_entries'_mono : forall fuel t all sp ents c,
  not_truncated fuel t all sp ents c ->
  forall fuel', fuel <= fuel' ->
  walk_entries' fuel' t all sp ents c = walk_entries' fuel t all sp ents c.
Proof.
  unfold not_truncated.
  induction fuel; intros t all sp ents c H fuel' L.
  - destruct ents; simpl in H; [|discriminate]. rewrite walk_entries'_nil. reflexivity.
  - destruct ents as [|n rest]; [rewrite !walk_entries'_nil; reflexivity|].
    destruct fuel' as [|fuel']; [lia|]. apply le_S_n in L.
    rewrite walk_entries'_cons in *. cbv zeta in *.
    simpl in H. apply orb_false_iff in H. destruct H as [H1 H2].
    rewrite (walk_node'_ext (walk_entries' fuel t all) (walk_entries' fuel' t all)); auto.
    rewrite (IHfuel _ _ _ _ _ H2 fuel' L). reflexivity.
Qed.

(** once the fuel did not run out, more fuel changes nothing (jobs, cache, flag) *)
Theorem walk_fuel_monotone : forall fuel k t all sp ents c,
  not_truncated fuel t all sp ents c ->
  walk_entries (fuel + k) t all sp ents c = walk_entries fuel t all sp ents c /\
  not_truncated (fuel + k) t all sp ents c.
Proof.
  intros fuel k t all sp ents c H.
  assert (E : walk_entries' (fuel + k) t all sp ents c = walk_entries' fuel t all sp ents c)
    by (apply walk_entries'_mono; auto; lia).
  split.
  - rewrite !walk_entries'_eq, E. reflexivity.
  - unfold not_truncated. rewrite E. exact H.
Qed.

(** every derivation of the specification is computed by some fuel (its height) *)
Lemma walk_entries'_complete : forall t all sp ents c jobs c',
  Walk t all sp ents c jobs c' ->
  exists fuel, not_truncated fuel t all sp ents c /\
               w_jobs (walk_entries' fuel t all sp ents c) = jobs /\
               w_cache (walk_entries' fuel t all sp ents c) = c'.
Proof.
  assert (two : forall f1 f2 t all sp1 e1 c1 sp2 e2 c2,
            not_truncated f1 t all sp1 e1 c1 -> not_truncated f2 t all sp2 e2 c2 ->
            walk_entries' (Nat.max f1 f2) t all sp1 e1 c1 = walk_entries' f1 t all sp1 e1 c1 /\
            walk_entries' (Nat.max f1 f2) t all sp2 e2 c2 = walk_entries' f2 t all sp2 e2 c2).
  { intros. split; apply walk_entries'_mono; auto; lia. }
  unfold not_truncated in *.
  induction 1.
  - exists 0. simpl. auto.
  - destruct IHWalk as [f [T [J C]]]. exists (S f).
    rewrite walk_entries'_cons. cbv zeta. unfold walk_node'.
    destruct (tn_kind n); try congruence; simpl; auto.
  - destruct IHWalk as [f [T [J C]]]. exists (S f).
    rewrite walk_entries'_cons. cbv zeta. unfold walk_node'. rewrite H, H0. simpl. auto.
  - destruct IHWalk1 as [f1 [T1 [J1 C1]]]. destruct IHWalk2 as [f2 [T2 [J2 C2]]].
    exists (S (Nat.max f1 f2)).
    rewrite walk_entries'_cons. cbv zeta. unfold walk_node'. rewrite H, H0.
    destruct (two f1 f2 t all _ _ _ _ _ _ T1 T2) as [E1 E2].
    rewrite E1. simpl. rewrite C1, E2, T1, T2, J1, J2, C2. simpl. auto.
  - destruct IHWalk as [f [T [J C]]]. exists (S f).
    rewrite walk_entries'_cons. cbv zeta. unfold walk_node'. rewrite H, H0, H1. simpl. auto.
  - destruct IHWalk as [f [T [J C]]]. exists (S f).
    rewrite walk_entries'_cons. cbv zeta. unfold walk_node'. rewrite H, H0, H1. simpl. auto.
  - destruct IHWalk1 as [f1 [T1 [J1 C1]]]. destruct IHWalk2 as [f2 [T2 [J2 C2]]].
    exists (S (Nat.max f1 f2)).
    rewrite walk_entries'_cons. cbv zeta. unfold walk_node'. rewrite H, H0, H1.
    destruct (two f1 f2 t all _ _ _ _ _ _ T1 T2) as [E1 E2].
    rewrite E1. simpl. rewrite C1, E2, T1, T2, J1, J2, C2. simpl. auto.
  - destruct IHWalk as [f [T [J C]]]. exists (S f).
    rewrite walk_entries'_cons. cbv zeta. unfold walk_node'. rewrite H, H0, H1. simpl.
    rewrite T, J, C. auto.
Qed.

Theorem walk_entries_complete : forall t all sp ents c jobs c',
  Walk t all sp ents c jobs c' ->
  exists fuel, forall k,
    not_truncated (fuel + k) t all sp ents c /\
    walk_entries (fuel + k) t all sp ents c = (jobs, c').
Proof.
  intros t all sp ents c jobs c' W.
  destruct (walk_entries'_complete _ _ _ _ _ _ _ W) as [f [T [J C]]].
  exists f. intros k. destruct (walk_fuel_monotone f k _ _ _ _ _ T) as [E T'].
  split; auto. rewrite E, walk_entries'_eq, J, C. reflexivity.
Qed.

(** the specification determines the result *)
Theorem Walk_functional : forall t all sp ents c j1 c1 j2 c2,
  Walk t all sp ents c j1 c1 -> Walk t all sp ents c j2 c2 -> j1 = j2 /\ c1 = c2.
Proof.
  intros t all sp ents c j1 c1 j2 c2 W1 W2.
  destruct (walk_entries_complete _ _ _ _ _ _ _ W1) as [f1 H1].
  destruct (walk_entries_complete _ _ _ _ _ _ _ W2) as [f2 H2].
  destruct (H1 f2) as [_ E1]. destruct (H2 f1) as [_ E2].
  replace (f2 + f1) with (f1 + f2) in E2 by lia.
  rewrite E1 in E2. inversion E2. auto.
Qed.

(* ------------------------------------------------------------------ *)
(** * The cache: it only grows, by fresh targets; a target is followed at most once *)

(** [r] extends the cache [c] by new, pairwise distinct targets; the targets recursed
    into are among the new ones, each once *)
Definition ext_ok (c : list bytes) (r : wres) : Prop :=
  exists added,
    w_cache r = added ++ c /\ NoDup added /\ (forall x, In x added -> ~ In x c) /\
    incl (w_followed r) added /\ NoDup (w_followed r).

Lemma NoDup_app_intro : forall (A : Type) (a b : list A),
  NoDup a -> NoDup b -> (forall x, In x a -> ~ In x b) -> NoDup (a ++ b).
Proof.
  induction a; simpl; intros b Ha Hb D; auto.
  inversion Ha; subst. constructor.
  - rewrite in_app_iff. intros [H|H]; auto. apply (D a); auto.
  - apply IHa; auto.
Qed.

Lemma ext_ok_comb : forall c r1 r2, ext_ok c r1 -> ext_ok (w_cache r1) r2 -> ext_ok c (wcomb r1 r2).
Proof.
  intros c r1 r2 [a1 [E1 [N1 [D1 [I1 F1]]]]] [a2 [E2 [N2 [D2 [I2 F2]]]]].
  exists (a2 ++ a1). simpl. rewrite E1 in *.
  split; [rewrite E2, app_assoc; reflexivity|].
  split.
  { apply NoDup_app_intro; auto. intros x H2 H1. apply (D2 x H2). apply in_or_app; auto. }
  split.
  { intros x H. apply in_app_or in H. destruct H as [H|H].
    - intros Hc. apply (D2 x H). apply in_or_app; auto.
    - auto. }
  split.
  { intros x H. apply in_app_or in H. apply in_or_app. destruct H; [right|left]; auto. }
  apply NoDup_app_intro; auto.
  intros x H1 H2. apply (D2 x (I2 x H2)). apply in_or_app. left. auto.
Qed.

Lemma walk_node'_ext_ok : forall rec t all sp n c,
  (forall sp' ents' c', ext_ok c' (rec sp' ents' c')) ->
  ext_ok c (walk_node' rec t all sp n c).
Proof.
  intros rec t all sp n c H.
  assert (Z : forall j, ext_ok c (mkW j c false [])).
  { intros j. exists []. simpl. repeat split; auto using NoDup_nil, incl_nil_l. }
  unfold walk_node'.
  destruct (tn_kind n); auto.
  - destruct (skipped all (join_path sp (tn_name n))); auto.
    destruct (H (join_path sp (tn_name n)) (children t (node_real n)) c) as [a P].
    exists a. simpl. exact P.
  - destruct (mem (tn_target n) c) eqn:M; destruct (skipped all (join_path sp (tn_name n))); auto.
    + apply mem_false in M. exists [tn_target n]. simpl.
      split; auto. split; [constructor; auto using NoDup_nil|].
      split; [intros x [<-|[]]; auto|]. split; auto using NoDup_nil, incl_nil_l.
    + apply mem_false in M.
      destruct (H (join_path sp (tn_name n)) (children t (tn_target n)) (tn_target n :: c))
        as [a [E [N [D [I F]]]]].
      assert (Na : ~ In (tn_target n) a) by (intros X; apply (D _ X); left; auto).
      exists (a ++ [tn_target n]). simpl.
      split; [rewrite E, <- app_assoc; reflexivity|].
      split.
      { apply NoDup_app_intro; auto.
        - constructor; auto using NoDup_nil.
        - intros x Hx [<-|[]]. auto. }
      split.
      { intros x Hx. apply in_app_or in Hx. destruct Hx as [Hx|[<-|[]]]; auto.
        intros Hc. apply (D x Hx). right. auto. }
      split.
      { intros x [<-|Hx]; apply in_or_app; [right; left; auto | left; auto]. }
      constructor; auto.
Qed.

Lemma walk_entries'_ext_ok : forall fuel t all sp ents c, ext_ok c (walk_entries' fuel t all sp ents c).
Proof.
  assert (Z : forall c, ext_ok c (mkW [] c false [])).
  { intros c. exists []. simpl. repeat split; auto using NoDup_nil, incl_nil_l. }
  assert (Z' : forall c, ext_ok c (mkW [] c true [])).
  { intros c. exists []. simpl. repeat split; auto using NoDup_nil, incl_nil_l. }
  induction fuel; intros t all sp ents c.
  - destruct ents; simpl; auto.
  - destruct ents as [|n rest]; [simpl; auto|].
    rewrite walk_entries'_cons. cbv zeta.
    apply ext_ok_comb; auto.
    apply walk_node'_ext_ok. intros. apply IHfuel.
Qed.

(** Theorem 3.  The link targets the walk recursed into are pairwise distinct, were not in
    the cache the walk started with, and are in the cache it ends with: so over any number
    of roots sharing the cache, a target is followed at most once. *)
Theorem walk_follows_once : forall fuel t all sp ents c,
  let r := walk_entries' fuel t all sp ents c in
  NoDup (w_followed r) /\
  (forall tgt, In tgt (w_followed r) -> mem tgt c = false /\ mem tgt (w_cache r) = true) /\
  (forall x, mem x c = true -> mem x (w_cache r) = true) /\
  (NoDup c -> NoDup (w_cache r)).
Proof.
  intros fuel t all sp ents c r.
  destruct (walk_entries'_ext_ok fuel t all sp ents c) as [a [E [N [D [I F]]]]].
  fold r in E, I, F. split; auto. split; [|split].
  - intros tgt H. split.
    + apply mem_false. apply D. apply I. exact H.
    + apply mem_In. rewrite E. apply in_or_app. left. apply I. exact H.
  - intros x H. apply mem_In. apply mem_In in H. rewrite E. apply in_or_app. auto.
  - intros Nc. rewrite E. apply NoDup_app_intro; auto.
Qed.

Corollary walk_follows_count : forall (dec : forall a b : bytes, {a = b} + {a <> b}) fuel t all sp ents c tgt,
  count_occ dec (w_followed (walk_entries' fuel t all sp ents c)) tgt <= 1.
Proof.
  intros. apply NoDup_count_occ. apply (walk_follows_once fuel t all sp ents c).
Qed.

(** every followed target was listed *)
Lemma walk_followed_job : forall fuel t all sp ents c tgt,
  In tgt (w_followed (walk_entries' fuel t all sp ents c)) ->
  exists s, In (s, tgt) (w_jobs (walk_entries' fuel t all sp ents c)).
Proof.
  induction fuel; intros t all sp ents c tgt H.
  - destruct ents; simpl in H; contradiction.
  - destruct ents as [|n rest]; [simpl in H; contradiction|].
    rewrite walk_entries'_cons in *. cbv zeta in *. simpl in *.
    apply in_app_or in H. destruct H as [H|H].
    + assert (X : exists s, In (s, tgt) (w_jobs (walk_node' (walk_entries' fuel t all) t all sp n c))).
      { revert H. unfold walk_node'.
        destruct (tn_kind n); simpl; try contradiction.
        - destruct (skipped all (join_path sp (tn_name n))); simpl; try contradiction.
          intros H. destruct (IHfuel _ _ _ _ _ _ H) as [s Hs]. exists s. right. auto.
        - destruct (mem (tn_target n) c); destruct (skipped all (join_path sp (tn_name n)));
            simpl; try contradiction.
          intros [<-|H].
          + eexists. left. reflexivity.
          + destruct (IHfuel _ _ _ _ _ _ H) as [s Hs]. exists s. right. auto. }
      destruct X as [s Hs]. exists s. apply in_or_app. auto.
    + destruct (IHfuel _ _ _ _ _ _ H) as [s Hs]. exists s. apply in_or_app. auto.
Qed.

(** a link whose target is already in the cache: one job (none when skipped), nothing below
    it, the cache unchanged *)
Theorem walk_seen_link : forall fuel t all sp n rest c,
  tn_kind n = KLinkDir -> mem (tn_target n) c = true ->
  walk_entries (S fuel) t all sp (n :: rest) c =
  let '(j2, c2) := walk_entries fuel t all sp rest c in
  ((if skipped all (join_path sp (tn_name n)) then [] else [(join_path sp (tn_name n), tn_target n)]) ++ j2, c2).
Proof.
  intros fuel t all sp n rest c K M. unfold mem, skipped in *. simpl. rewrite K, M. simpl.
  destruct (negb all && hidden_dir (join_path sp (tn_name n)));
    destruct (walk_entries fuel t all sp rest c); reflexivity.
Qed.

Theorem Walk_seen_link : forall t all sp n rest c jobs c',
  tn_kind n = KLinkDir -> mem (tn_target n) c = true ->
  Walk t all sp (n :: rest) c jobs c' ->
  exists j2, Walk t all sp rest c j2 c' /\
    jobs = (if skipped all (join_path sp (tn_name n)) then [] else [(join_path sp (tn_name n), tn_target n)]) ++ j2.
Proof.
  intros t all sp n rest c jobs c' K M W.
  inversion W; subst; try congruence.
  - exists jobs. match goal with S : skipped _ _ = _ |- _ => rewrite S end. auto.
  - exists j2. match goal with S : skipped _ _ = _ |- _ => rewrite S end. auto.
Qed.

(* ------------------------------------------------------------------ *)
(** * Well-formed trees and the fuel bound *)

(** Real directories nest finitely: some rank strictly grows from a directory to each of
    its KDir entries.  Nothing is asked of links, files, targets or duplicates. *)
Definition acyclic_by (rank : bytes -> nat) (t : tree) : Prop :=
  forall n, In n t -> tn_kind n = KDir -> rank (tn_parent n) < rank (node_real n).
Definition acyclic (t : tree) : Prop := exists rank, acyclic_by rank t.

(** distinct KDir entries are distinct directories *)
Definition dirs_unique (t : tree) : Prop := NoDup (map node_real (filter is_dir t)).

Definition wf_tree (t : tree) : Prop := acyclic t /\ dirs_unique t.

(** a sufficient condition: no directory entry is named "." *)
Definition slashes (r : bytes) : nat := List.length (filter (Nat.eqb c_slash) r).
Definition depth (r : bytes) : nat := if beq r [c_dot] then 0 else S (slashes r).

Lemma slashes_join : forall a b, slashes (a ++ c_slash :: b) = slashes a + S (slashes b).
Proof.
  intros a b. unfold slashes. rewrite filter_app, app_length. reflexivity.
Qed.

Theorem no_dot_acyclic : forall t,
  (forall n, In n t -> tn_kind n = KDir -> tn_name n <> [c_dot]) -> acyclic t.
Proof.
  intros t H. exists depth. intros n Hn K. specialize (H n Hn K).
  unfold node_real, real_join, depth.
  destruct (beq (tn_parent n) [c_dot]) eqn:E.
  - destruct (beq (tn_name n) [c_dot]) eqn:E'; [|lia].
    apply wbeq_eq in E'. contradiction.
  - assert (X : beq (tn_parent n ++ c_slash :: tn_name n) [c_dot] = false).
    { destruct (tn_parent n) as [|a [|b p]]; simpl; auto; rewrite andb_false_r; reflexivity. }
    rewrite X, slashes_join. lia.
Qed.

Section FuelBound.
Variable rank : bytes -> nat.
Variable t : tree.
Hypothesis Hrank : acyclic_by rank t.

(** entries at rank [k] or deeper *)
Definition below (k : nat) : nat := List.length (filter (fun n => Nat.leb k (rank (tn_parent n))) t).
(** link entries whose target is not cached yet *)
Definition pending (c : list bytes) : nat :=
  List.length (filter (fun n => is_link n && negb (mem (tn_target n) c)) t).

Lemma filter_len_le : forall (A : Type) (p q : A -> bool) l,
  (forall x, p x = true -> q x = true) -> List.length (filter p l) <= List.length (filter q l).
Proof.
  induction l; simpl; intros H; auto.
  specialize (IHl H). pose proof (H a) as Ha.
  destruct (p a); destruct (q a); simpl; try lia;
    specialize (Ha eq_refl); discriminate.
Qed.

Lemma filter_len_lt : forall (A : Type) (p q : A -> bool) l a,
  (forall x, p x = true -> q x = true) -> In a l -> p a = false -> q a = true ->
  List.length (filter p l) < List.length (filter q l).
Proof.
  induction l; simpl; intros b H Hin Hp Hq; [contradiction|].
  destruct Hin as [->|Hin].
  - rewrite Hp, Hq. simpl. pose proof (filter_len_le A p q l H). lia.
  - specialize (IHl b H Hin Hp Hq). pose proof (H a) as Ha.
    destruct (p a); destruct (q a); simpl; try lia;
      specialize (Ha eq_refl); discriminate.
Qed.

Lemma filter_len_split : forall (A : Type) (p q s : A -> bool) l,
  (forall x, p x = true -> s x = true /\ q x = false) -> (forall x, q x = true -> s x = true) ->
  List.length (filter p l) + List.length (filter q l) <= List.length (filter s l).
Proof.
  induction l; simpl; intros H1 H2; auto.
  specialize (IHl H1 H2). pose proof (H1 a) as Ha. pose proof (H2 a) as Hb.
  destruct (p a).
  - destruct (Ha eq_refl) as [Es Eq]. rewrite Es, Eq. simpl. lia.
  - destruct (q a).
    + rewrite (Hb eq_refl). simpl. lia.
    + destruct (s a); simpl; lia.
Qed.

Lemma filter_len_all : forall (A : Type) (p : A -> bool) l, List.length (filter p l) <= List.length l.
Proof. induction l; simpl; auto. destruct (p a); simpl; lia. Qed.

Lemma below_anti : forall k k', k <= k' -> below k' <= below k.
Proof.
  intros k k' L. apply filter_len_le. intros x H.
  apply Nat.leb_le in H. apply Nat.leb_le. lia.
Qed.

Lemma below_children : forall r, List.length (children t r) + below (S (rank r)) <= below (rank r).
Proof.
  intros r. unfold children, below. apply filter_len_split.
  - intros x H. apply wbeq_eq in H. rewrite H. split.
    + apply Nat.leb_le. lia.
    + apply Nat.leb_gt. lia.
  - intros x H. apply Nat.leb_le in H. apply Nat.leb_le. lia.
Qed.

Lemma below_le : forall k, below k <= List.length t.
Proof. intros. apply filter_len_all. Qed.

Lemma pending_le : forall c, pending c <= List.length t.
Proof. intros. apply filter_len_all. Qed.

Lemma pending_mono : forall c c', (forall x, mem x c = true -> mem x c' = true) -> pending c' <= pending c.
Proof.
  intros c c' H. apply filter_len_le. intros x Hx.
  apply andb_true_iff in Hx. destruct Hx as [L M]. rewrite L. simpl.
  destruct (mem (tn_target x) c) eqn:E; auto.
  rewrite (H _ E) in M. discriminate.
Qed.

Lemma pending_fresh : forall n c, In n t -> tn_kind n = KLinkDir -> mem (tn_target n) c = false ->
  S (pending (tn_target n :: c)) <= pending c.
Proof.
  intros n c Hn K M. apply (filter_len_lt tnode _ _ t n); auto.
  - intros x Hx. apply andb_true_iff in Hx. destruct Hx as [L X]. rewrite L. simpl.
    simpl in X. destruct (mem (tn_target x) c); auto. rewrite orb_true_r in X. discriminate.
  - unfold is_link. rewrite K. simpl. rewrite wbeq_refl. reflexivity.
  - unfold is_link. rewrite K, M. reflexivity.
Qed.

Lemma node_cache_grows : forall fuel all sp n c x,
  mem x c = true -> mem x (w_cache (walk_node' (walk_entries' fuel t all) t all sp n c)) = true.
Proof.
  intros fuel all sp n c x H.
  destruct (walk_node'_ext_ok (walk_entries' fuel t all) t all sp n c) as [a [E _]].
  { intros. apply walk_entries'_ext_ok. }
  apply mem_In. rewrite E. apply in_or_app. right. apply mem_In. exact H.
Qed.

(** The fuel a call needs: one unit per sibling still to visit, plus the entries that lie
    deeper in the real tree, plus one whole tree per link target not followed yet. *)
Lemma fuel_bound : forall fuel all sp ents c k,
  incl ents t ->
  (forall n, In n ents -> tn_kind n = KDir -> k <= rank (node_real n)) ->
  List.length ents + below k + pending c * List.length t <= fuel ->
  not_truncated fuel t all sp ents c.
Proof.
  unfold not_truncated.
  induction fuel; intros all sp ents c k I R L.
  - destruct ents; [reflexivity|]. simpl in L. lia.
  - destruct ents as [|n rest]; [reflexivity|].
    rewrite walk_entries'_cons. cbv zeta. simpl w_trunc. simpl List.length in L.
    assert (Hn : In n t) by (apply I; left; auto).
    apply orb_false_iff. split.
    + unfold walk_node'. destruct (tn_kind n) eqn:K; try reflexivity.
      * destruct (skipped all (join_path sp (tn_name n))); simpl; [reflexivity|].
        apply IHfuel with (k := S (rank (node_real n))).
        -- apply incl_children.
        -- intros m Hm Km. apply children_In in Hm. destruct Hm as [Hm Pm].
           pose proof (Hrank m Hm Km) as X. rewrite Pm in X. lia.
        -- pose proof (below_children (node_real n)).
           pose proof (below_anti k (rank (node_real n)) (R n (or_introl eq_refl) K)). lia.
      * destruct (mem (tn_target n) c) eqn:M;
          destruct (skipped all (join_path sp (tn_name n))); simpl; try reflexivity.
        apply IHfuel with (k := S (rank (tn_target n))).
        -- apply incl_children.
        -- intros m Hm Km. apply children_In in Hm. destruct Hm as [Hm Pm].
           pose proof (Hrank m Hm Km) as X. rewrite Pm in X. lia.
        -- pose proof (below_children (tn_target n)).
           pose proof (below_le (rank (tn_target n))).
           pose proof (Nat.mul_le_mono_r _ _ (List.length t) (pending_fresh n c Hn K M)) as X.
           simpl in X. lia.
    + apply IHfuel with (k := k).
      * intros m Hm. apply I. right. exact Hm.
      * intros m Hm. apply R. right. exact Hm.
      * pose proof (Nat.mul_le_mono_r _ _ (List.length t)
                      (pending_mono c _ (node_cache_grows fuel all sp n c))) as X.
        lia.
Qed.

Lemma fuel_bound_children : forall all sp r c,
  not_truncated (List.length t * S (List.length t)) t all sp (children t r) c.
Proof.
  intros all sp r c. apply fuel_bound with (k := S (rank r)).
  - apply incl_children.
  - intros m Hm Km. apply children_In in Hm. destruct Hm as [Hm Pm].
    pose proof (Hrank m Hm Km) as X. rewrite Pm in X. lia.
  - pose proof (below_children r). pose proof (below_le (rank r)).
    pose proof (Nat.mul_le_mono_r _ _ (List.length t) (pending_le c)) as X.
    rewrite Nat.mul_succ_r. lia.
Qed.

End FuelBound.

(* ------------------------------------------------------------------ *)
(** * Termination *)

Lemma walk_children_total : forall t all sp r c, acyclic t ->
  exists jobs c', Walk t all sp (children t r) c jobs c'.
Proof.
  intros t all sp r c [rank H].
  pose proof (fuel_bound_children rank t H all sp r c) as T.
  eexists. eexists. apply walk_entries'_sound. exact T.
Qed.

(** The specification relates every call to a result: the walk terminates on every
    tree whose real directories nest finitely, whatever the links (cyclic, aliased,
    pointing anywhere), the starting cache, and the entries handed in. *)
Theorem walk_terminates : forall t all sp ents c, acyclic t ->
  exists jobs c', Walk t all sp ents c jobs c'.
Proof.
  intros t all sp ents c A. revert c.
  induction ents as [|n rest IH]; intros c.
  - exists [], c. constructor.
  - destruct (tn_kind n) eqn:K.
    + destruct (IH c) as [j2 [c2 W2]]. exists j2, c2. apply W_other; auto; congruence.
    + destruct (skipped all (join_path sp (tn_name n))) eqn:S.
      * destruct (IH c) as [j2 [c2 W2]]. exists j2, c2. apply W_dir_hidden; auto.
      * destruct (walk_children_total t all (join_path sp (tn_name n)) (node_real n) c A) as [j1 [c1 W1]].
        destruct (IH c1) as [j2 [c2 W2]]. eexists. eexists. eapply W_dir; eauto.
    + destruct (IH c) as [j2 [c2 W2]]. exists j2, c2. apply W_other; auto; congruence.
    + destruct (mem (tn_target n) c) eqn:M; destruct (skipped all (join_path sp (tn_name n))) eqn:S.
      * destruct (IH c) as [j2 [c2 W2]]. exists j2, c2. apply W_link_hidden_seen; auto.
      * destruct (IH c) as [j2 [c2 W2]]. eexists. eexists. eapply W_link_seen; eauto.
      * destruct (IH (tn_target n :: c)) as [j2 [c2 W2]]. exists j2, c2. apply W_link_hidden_new; auto.
      * destruct (walk_children_total t all (join_path sp (tn_name n)) (tn_target n) (tn_target n :: c) A)
          as [j1 [c1 W1]].
        destruct (IH c1) as [j2 [c2 W2]]. eexists. eexists. eapply W_link_new; eauto.
    + destruct (IH c) as [j2 [c2 W2]]. exists j2, c2. apply W_other; auto; congruence.
Qed.

(** hence [walk_entries] with enough fuel is the specification *)
Corollary walk_entries_total : forall t all sp ents c, acyclic t ->
  exists fuel jobs c', Walk t all sp ents c jobs c' /\
    forall k, not_truncated (fuel + k) t all sp ents c /\ walk_entries (fuel + k) t all sp ents c = (jobs, c').
Proof.
  intros t all sp ents c A.
  destruct (walk_terminates t all sp ents c A) as [jobs [c' W]].
  destruct (walk_entries_complete _ _ _ _ _ _ _ W) as [fuel H].
  exists fuel, jobs, c'. auto.
Qed.

(** The fuel [walk_root] hands out is enough: [length t * S (length t)] already is. *)
Theorem walk_root_fuel_enough : forall t all root real c, acyclic t ->
  not_truncated (S (List.length t * S (List.length t))) t all root (children t real) c /\
  WalkRoot t all root real c (fst (walk_root t all root real c)) (snd (walk_root t all root real c)).
Proof.
  intros t all root real c [rank H].
  pose proof (fuel_bound_children rank t H all root real c) as T.
  assert (E : walk_entries' (S (List.length t * S (List.length t))) t all root (children t real) c =
              walk_entries' (List.length t * S (List.length t)) t all root (children t real) c)
    by (apply walk_entries'_mono; auto).
  split.
  - unfold not_truncated. rewrite E. exact T.
  - unfold walk_root. fold (skipped all root).
    destruct (skipped all root) eqn:S.
    + simpl. apply WR_hidden. exact S.
    + cbv zeta. rewrite walk_entries'_eq, E. simpl.
      apply WR_walk; auto. apply walk_entries'_sound. exact T.
Qed.

Corollary walk_root_spec : forall t all root real c jobs c', acyclic t ->
  walk_root t all root real c = (jobs, c') <-> WalkRoot t all root real c jobs c'.
Proof.
  intros t all root real c jobs c' A.
  destruct (walk_root_fuel_enough t all root real c A) as [_ W].
  split.
  - intros E. rewrite E in W. exact W.
  - intros W'. destruct (walk_root t all root real c) as [j0 c0]. simpl in W.
    inversion W; inversion W'; subst; try congruence.
    match goal with A : Walk _ _ _ _ _ ?j1 ?c1, B : Walk _ _ _ _ _ ?j2 ?c2 |- _ =>
      destruct (Walk_functional _ _ _ _ _ _ _ _ _ A B) end.
    subst. reflexivity.
Qed.

(* ------------------------------------------------------------------ *)
(** * Trees without links: the walk visits exactly the reachable directories *)

Definition no_links (t : tree) : Prop := forall n, In n t -> tn_kind n <> KLinkDir.

(** [(s', r')] is [(s, r)] or lies below a KDir entry of [r] that is not skipped *)
Inductive reach (t : tree) (all : bool) : bytes -> bytes -> bytes -> bytes -> Prop :=
| reach_refl : forall s r, reach t all s r s r
| reach_step : forall s r n s' r',
    In n t -> tn_kind n = KDir -> tn_parent n = r ->
    skipped all (join_path s (tn_name n)) = false ->
    reach t all (join_path s (tn_name n)) (node_real n) s' r' ->
    reach t all s r s' r'.

Definition reachable (t : tree) (all : bool) (root real r : bytes) : Prop :=
  exists s, reach t all root real s r.

(** the real path [r] below [real], spelled from [root] *)
Definition spelled_of (root real r : bytes) : bytes :=
  if beq r real then root
  else if beq real [c_dot] then root ++ c_slash :: r
  else root ++ skipn (List.length real) r.

Definition from_ents (t : tree) (all : bool) (sp : bytes) (ents : list tnode) (s' r' : bytes) : Prop :=
  exists n, In n ents /\ tn_kind n = KDir /\ skipped all (join_path sp (tn_name n)) = false /\
            reach t all (join_path sp (tn_name n)) (node_real n) s' r'.

Lemma from_ents_cons : forall t all sp n rest s' r',
  from_ents t all sp (n :: rest) s' r' <->
  (tn_kind n = KDir /\ skipped all (join_path sp (tn_name n)) = false /\
   reach t all (join_path sp (tn_name n)) (node_real n) s' r') \/
  from_ents t all sp rest s' r'.
Proof.
  intros. unfold from_ents. split.
  - intros [m [[<-|Hm] P]]; [left; exact P | right; exists m; auto].
  - intros [P | [m [Hm P]]]; [exists n; split; [left; auto | exact P] | exists m; split; [right; auto | exact P]].
Qed.

Lemma reach_unfold : forall t all s r s' r',
  reach t all s r s' r' <-> (s' = s /\ r' = r) \/ from_ents t all s (children t r) s' r'.
Proof.
  intros. split.
  - intros H. inversion H; subst; auto.
    right. exists n. split; [apply children_In; auto|]. auto.
  - intros [[-> ->] | [n [Hn [K [S R]]]]]; [constructor|].
    apply children_In in Hn. destruct Hn as [Hn P].
    eapply reach_step; eauto.
Qed.

Lemma jobs_char : forall t all sp ents c jobs c',
  Walk t all sp ents c jobs c' -> no_links t -> incl ents t ->
  forall s' r', In (s', r') jobs <-> from_ents t all sp ents s' r'.
Proof.
  intros t all sp ents c jobs c' W NL. induction W; intros I s' r';
    try (exfalso; apply (NL n); [apply I; left; reflexivity | assumption]).
  - split; [intros [] | intros [m [[] _]]].
  - rewrite from_ents_cons, <- IHW by (intros m Hm; apply I; right; auto).
    split; auto. intros [[K _] | X]; auto. congruence.
  - rewrite from_ents_cons, <- IHW by (intros m Hm; apply I; right; auto).
    split; auto. intros [[_ [S _]] | X]; auto. congruence.
  - rewrite from_ents_cons, <- IHW2 by (intros m Hm; apply I; right; auto).
    rewrite reach_unfold, <- IHW1 by apply incl_children.
    simpl. rewrite in_app_iff. split.
    + intros [E | [X | X]]; auto.
      inversion E; subst. left. auto.
    + intros [[_ [_ [[-> ->] | X]]] | X]; auto.
Qed.

(** ancestors in the real tree, hidden or not *)
Inductive anc (t : tree) : bytes -> bytes -> Prop :=
| anc_refl : forall r, anc t r r
| anc_step : forall r r1 n r', anc t r r1 -> In n t -> tn_kind n = KDir -> tn_parent n = r1 ->
    r' = node_real n -> anc t r r'.

Lemma anc_head : forall t n r', In n t -> tn_kind n = KDir -> anc t (node_real n) r' -> anc t (tn_parent n) r'.
Proof.
  intros t n r' Hn K H. remember (node_real n) as a eqn:Ea. induction H.
  - subst. eapply anc_step; eauto. constructor.
  - eapply anc_step; eauto.
Qed.

Lemma reach_anc : forall t all s r s' r', reach t all s r s' r' -> anc t r r'.
Proof.
  induction 1; [constructor|]. subst. apply anc_head; auto.
Qed.

Lemma NoDup_map_inj : forall (A B : Type) (f : A -> B) l a b,
  NoDup (map f l) -> In a l -> In b l -> f a = f b -> a = b.
Proof.
  induction l; simpl; intros x y N Hx Hy E; [contradiction|].
  inversion N; subst.
  destruct Hx as [->|Hx]; destruct Hy as [->|Hy]; auto.
  - exfalso. apply H1. rewrite E. apply in_map. auto.
  - exfalso. apply H1. rewrite <- E. apply in_map. auto.
Qed.

Lemma NoDup_map_filter : forall (A B : Type) (f : A -> B) (p : A -> bool) l,
  NoDup (map f l) -> NoDup (map f (filter p l)).
Proof.
  induction l; simpl; intros N; auto. inversion N; subst.
  destruct (p a); simpl; auto. constructor; auto.
  intros X. apply H1. apply in_map_iff in X. destruct X as [x [E Hx]].
  apply filter_In in Hx. rewrite <- E. apply in_map. tauto.
Qed.

Lemma filter_comm : forall (A : Type) (p q : A -> bool) l, filter p (filter q l) = filter q (filter p l).
Proof.
  induction l; simpl; auto.
  destruct (q a) eqn:Q; destruct (p a) eqn:P; simpl; rewrite ?Q, ?P, IHl; reflexivity.
Qed.

Lemma real_join_dot : forall r name, real_join r name = [c_dot] -> r = [c_dot].
Proof.
  intros r name. unfold real_join. destruct (beq r [c_dot]) eqn:E.
  - intros _. apply wbeq_eq. exact E.
  - destruct r as [|a [|b r]]; simpl; intros X; inversion X.
Qed.

Lemma real_join_join : forall r name y, real_join r name <> [c_dot] ->
  real_join (real_join r name) y = real_join r (name ++ c_slash :: y).
Proof.
  intros r name y H. unfold real_join at 1.
  destruct (beq (real_join r name) [c_dot]) eqn:E; [apply wbeq_eq in E; contradiction|].
  unfold real_join. destruct (beq r [c_dot]); [reflexivity|].
  rewrite <- app_assoc. reflexivity.
Qed.

Lemma skipn_app_exact : forall (A : Type) (a b : list A), skipn (List.length a) (a ++ b) = b.
Proof. induction a; simpl; auto. Qed.

Lemma neq_beq_false : forall a b, a <> b -> beq a b = false.
Proof. intros a b H. destruct (beq a b) eqn:E; auto. apply wbeq_eq in E. contradiction. Qed.

Section LinkFree.
Variable rank : bytes -> nat.
Variable t : tree.
Hypothesis Hrank : acyclic_by rank t.
Hypothesis Huniq : dirs_unique t.
Hypothesis Hnl : no_links t.

Lemma anc_rank : forall r r', anc t r r' -> r = r' \/ rank r < rank r'.
Proof.
  induction 1; auto. subst. right.
  pose proof (Hrank n H0 H1). destruct IHanc as [->|L]; lia.
Qed.

Lemma dir_unique : forall n m, In n t -> In m t -> tn_kind n = KDir -> tn_kind m = KDir ->
  node_real n = node_real m -> n = m.
Proof.
  intros n m Hn Hm Kn Km E.
  apply (NoDup_map_inj _ _ node_real (filter is_dir t)); auto;
    apply filter_In; split; auto; unfold is_dir; rewrite ?Kn, ?Km; reflexivity.
Qed.

Lemma anc_linear : forall r2 r', anc t r2 r' -> forall r1, anc t r1 r' -> anc t r1 r2 \/ anc t r2 r1.
Proof.
  induction 1 as [r2 | r2 ra n r' A IH Hn K P E]; intros r1 H1; auto.
  inversion H1 as [? | ? rb m ? B Hm Km Pm Em]; subst.
  - right. eapply anc_step; eauto.
  - assert (n = m) by (apply dir_unique; auto). subst m. apply IH. exact B.
Qed.

Lemma sib_no_anc : forall n1 n2, In n1 t -> In n2 t -> tn_kind n1 = KDir -> tn_kind n2 = KDir ->
  tn_parent n1 = tn_parent n2 -> node_real n1 <> node_real n2 ->
  anc t (node_real n1) (node_real n2) -> False.
Proof.
  intros n1 n2 H1 H2 K1 K2 P D A.
  inversion A as [? E | ? rb m ? B Hm Km Pm Em]; subst.
  - apply D. assumption.
  - assert (n2 = m) by (apply dir_unique; auto). subst m.
    pose proof (Hrank n1 H1 K1) as X. rewrite P in X.
    destruct (anc_rank _ _ B) as [E|L]; [rewrite E in X|]; lia.
Qed.

Lemma sib_disjoint : forall n1 n2 r', In n1 t -> In n2 t -> tn_kind n1 = KDir -> tn_kind n2 = KDir ->
  tn_parent n1 = tn_parent n2 -> node_real n1 <> node_real n2 ->
  anc t (node_real n1) r' -> anc t (node_real n2) r' -> False.
Proof.
  intros n1 n2 r' H1 H2 K1 K2 P D A1 A2.
  destruct (anc_linear _ _ A2 _ A1) as [X|X].
  - apply (sib_no_anc n1 n2); auto.
  - apply (sib_no_anc n2 n1); auto.
Qed.

Lemma jobs_anc : forall all sp ents c jobs c' r',
  Walk t all sp ents c jobs c' -> incl ents t -> In r' (map snd jobs) ->
  exists m, In m ents /\ tn_kind m = KDir /\ anc t (node_real m) r'.
Proof.
  intros all sp ents c jobs c' r' W I H.
  apply in_map_iff in H. destruct H as [[s x] [E H]]. simpl in E. subst x.
  apply (jobs_char _ _ _ _ _ _ _ W Hnl I) in H.
  destruct H as [m [Hm [K [_ R]]]]. exists m. split; auto. split; auto.
  eapply reach_anc; eauto.
Qed.

Lemma nodup_children : forall r, NoDup (map node_real (filter is_dir (children t r))).
Proof.
  intros r. unfold children. rewrite filter_comm. apply NoDup_map_filter. exact Huniq.
Qed.

Lemma block_fresh : forall all sp r c j1 c1,
  Walk t all sp (children t r) c j1 c1 -> ~ In r (map snd j1).
Proof.
  intros all sp r c j1 c1 W H.
  destruct (jobs_anc _ _ _ _ _ _ _ W (incl_children t r) H) as [m [Hm [K A]]].
  apply children_In in Hm. destruct Hm as [Hm P].
  pose proof (Hrank m Hm K) as X. rewrite P in X.
  destruct (anc_rank _ _ A) as [E|L]; [rewrite E in X|]; lia.
Qed.

Lemma jobs_nodup : forall all sp ents c jobs c',
  Walk t all sp ents c jobs c' -> incl ents t ->
  (exists p, forall n, In n ents -> tn_parent n = p) ->
  NoDup (map node_real (filter is_dir ents)) ->
  NoDup (map snd jobs).
Proof.
  intros all sp ents c jobs c' W. induction W; intros I [p Hp] N;
    try (exfalso; apply (Hnl n); [apply I; left; reflexivity | assumption]).
  - constructor.
  - apply IHW.
    + intros m Hm; apply I; right; auto.
    + exists p. intros m Hm. apply Hp. right. auto.
    + simpl in N. destruct (is_dir n); simpl in N; [inversion N|]; auto.
  - apply IHW.
    + intros m Hm; apply I; right; auto.
    + exists p. intros m Hm. apply Hp. right. auto.
    + simpl in N. destruct (is_dir n); simpl in N; [inversion N|]; auto.
  - assert (In n t) as Hn by (apply I; left; auto).
    assert (I2 : incl rest t) by (intros m Hm; apply I; right; auto).
    simpl in N. unfold is_dir at 1 in N. rewrite H in N. simpl in N. inversion N as [|? ? Nn N2]; subst.
    assert (Sib : forall m, In m rest -> tn_kind m = KDir ->
                  In m t /\ tn_parent n = tn_parent m /\ node_real n <> node_real m).
    { intros m Hm Km. split; [apply I2; auto|]. split.
      - rewrite (Hp n), (Hp m); auto; [right|left]; auto.
      - intros E. apply Nn. rewrite E. apply in_map. apply filter_In. split; auto.
        unfold is_dir. rewrite Km. reflexivity. }
    simpl. rewrite map_app. constructor.
    + rewrite in_app_iff. intros [X|X].
      * revert X. eapply block_fresh; eauto.
      * destruct (jobs_anc _ _ _ _ _ _ _ W2 I2 X) as [m [Hm [Km A]]].
        destruct (Sib m Hm Km) as [Hmt [P D]].
        apply (sib_no_anc m n); auto.
    + apply NoDup_app_intro.
      * apply IHW1; [apply incl_children | | apply nodup_children].
        exists (node_real n). intros m Hm. apply children_In in Hm. tauto.
      * apply IHW2; auto. exists p. intros m Hm. apply Hp. right. auto.
      * intros x X1 X2.
        destruct (jobs_anc _ _ _ _ _ _ _ W1 (incl_children _ _) X1) as [m1 [Hm1 [Km1 A1]]].
        destruct (jobs_anc _ _ _ _ _ _ _ W2 I2 X2) as [m2 [Hm2 [Km2 A2]]].
        destruct (Sib m2 Hm2 Km2) as [Hmt [P D]].
        apply children_In in Hm1. destruct Hm1 as [Hm1 P1].
        apply anc_head in A1; auto. rewrite P1 in A1.
        apply (sib_disjoint n m2 x); auto.
Qed.

Lemma reach_shape : forall all s r s' r', reach t all s r s' r' ->
  (s' = s /\ r' = r) \/
  (rank r < rank r' /\ exists y, s' = s ++ c_slash :: y /\ r' = real_join r y).
Proof.
  induction 1 as [|s r n s' r' Hn K P S R IH]; auto.
  right. pose proof (Hrank n Hn K) as X. rewrite P in X.
  destruct IH as [[-> ->] | [L [y [-> ->]]]].
  - split; auto. exists (tn_name n). unfold node_real. rewrite P. auto.
  - split; [lia|]. exists (tn_name n ++ c_slash :: y). split.
    + unfold join_path. rewrite <- app_assoc. reflexivity.
    + unfold node_real. rewrite P. apply real_join_join.
      intros E. pose proof (real_join_dot _ _ E) as E'.
      unfold node_real in X. rewrite P, E, E' in X. lia.
Qed.

Lemma reach_spelled : forall all root real s r, reach t all root real s r -> s = spelled_of root real r.
Proof.
  intros all root real s r H. unfold spelled_of.
  destruct (reach_shape _ _ _ _ _ H) as [[-> ->] | [L [y [-> ->]]]].
  - rewrite wbeq_refl. reflexivity.
  - rewrite neq_beq_false by (intros E; rewrite E in L; lia).
    unfold real_join. destruct (beq real [c_dot]); [reflexivity|].
    rewrite skipn_app_exact. reflexivity.
Qed.

End LinkFree.

(** without links the cache is never touched *)
Lemma walk_no_links_cache : forall t all sp ents c j c',
  Walk t all sp ents c j c' -> no_links t -> incl ents t -> c' = c.
Proof.
  intros t all sp ents c j c' W Hnl. induction W; intros I;
    try (exfalso; apply (Hnl n); [apply I; left; reflexivity | assumption]); auto.
  - apply IHW. intros m Hm. apply I. right. auto.
  - apply IHW. intros m Hm. apply I. right. auto.
  - rewrite IHW2, IHW1; auto; [apply incl_children | intros m Hm; apply I; right; auto].
Qed.

(** Theorem 2.  In a well-formed tree without links the jobs of [walk_root] are exactly
    the pairs reachable from the root through entries that are not skipped; no real
    directory is listed twice; the spelled path is the real path re-rooted. *)
Theorem walk_visits_exactly : forall t all root real c,
  wf_tree t -> no_links t -> ~ (all = false /\ hidden_dir root = true) ->
  let jobs := fst (walk_root t all root real c) in
  NoDup (map snd jobs) /\
  (forall s r, In (s, r) jobs <-> reach t all root real s r) /\
  (forall r, In r (map snd jobs) <-> reachable t all root real r) /\
  (forall s r, In (s, r) jobs -> s = spelled_of root real r) /\
  snd (walk_root t all root real c) = c.
Proof.
  intros t all root real c [[rank Hrank] Huniq] Hnl Hroot jobs.
  assert (S : skipped all root = false).
  { unfold skipped. destruct all; simpl; auto. destruct (hidden_dir root); auto. exfalso; auto. }
  destruct (walk_root_fuel_enough t all root real c (ex_intro _ rank Hrank)) as [_ W].
  subst jobs. destruct (walk_root t all root real c) as [jobs c']. simpl in *.
  inversion W as [X | j c0 _ Wj]; subst; [congruence|].
  assert (Char : forall s r, In (s, r) ((root, real) :: j) <-> reach t all root real s r).
  { intros s r. rewrite reach_unfold.
    rewrite <- (jobs_char _ _ _ _ _ _ _ Wj Hnl (incl_children _ _)). simpl.
    split; intros [E|E]; auto; [inversion E|destruct E as [-> ->]]; auto. }
  split; [|split; [|split; [|split]]].
  - simpl. constructor.
    + eapply block_fresh; eauto.
    + eapply jobs_nodup; eauto.
      * apply incl_children.
      * exists real. intros m Hm. apply children_In in Hm. tauto.
      * apply nodup_children. exact Huniq.
  - exact Char.
  - intros r. unfold reachable. rewrite in_map_iff. split.
    + intros [[s x] [E H]]. simpl in E. subst x. exists s. apply Char. exact H.
    + intros [s H]. exists (s, r). split; auto. apply Char. exact H.
  - intros s r H. apply Char in H. eapply reach_spelled; eauto.
  - eapply walk_no_links_cache; eauto. apply incl_children.
Qed.

(** the same with the fuel-independence theorems under [wf_tree] *)
Corollary walk_root_fuel_enough_wf : forall t all root real c, wf_tree t ->
  not_truncated (S (List.length t * S (List.length t))) t all root (children t real) c /\
  WalkRoot t all root real c (fst (walk_root t all root real c)) (snd (walk_root t all root real c)).
Proof. intros t all root real c [A _]. apply walk_root_fuel_enough. exact A. Qed.

(* ------------------------------------------------------------------ *)
(** * Concrete trees *)

Module WalkExamples.
Definition D (p n : string) : tnode := mkTN (s2b p) (s2b n) KDir [].
Definition F (p n : string) : tnode := mkTN (s2b p) (s2b n) KFile [].
Definition L (p n tg : string) : tnode := mkTN (s2b p) (s2b n) KLinkDir (s2b tg).
Definition P (s r : string) : bytes * bytes := (s2b s, s2b r).

(** least fuel below [k + n] that is not truncated *)
Fixpoint least_fuel (n k : nat) (t : tree) (all : bool) (sp real : bytes) : nat :=
  match n with
  | O => k
  | S n' => if w_trunc (walk_entries' k t all sp (children t real) []) then least_fuel n' (S k) t all sp real else k
  end.

(** no links: hidden directory [a/.h] (with a child), empty directory [e], files *)
Definition plain : tree :=
  [D "." "a"; D "a" "b"; D "a" ".h"; D "a/.h" "x"; F "a" "f"; D "." "e"; F "a/b" "g"].

Example plain_default :
  walk_root plain false (s2b ".") (s2b ".") [] =
  ([P "." "."; P "./a" "a"; P "./a/b" "a/b"; P "./e" "e"], []).
Proof. vm_compute. reflexivity. Qed.

Example plain_all :
  walk_root plain true (s2b ".") (s2b ".") [] =
  ([P "." "."; P "./a" "a"; P "./a/b" "a/b"; P "./a/.h" "a/.h"; P "./a/.h/x" "a/.h/x"; P "./e" "e"], []).
Proof. vm_compute. reflexivity. Qed.

(** the root ".." from inside [a]: the hidden test does not fire on ".." *)
Example plain_dotdot :
  walk_root plain false (s2b "..") (s2b "a") [] = ([P ".." "a"; P "../b" "a/b"], []).
Proof. vm_compute. reflexivity. Qed.

Example plain_hidden_root : walk_root plain false (s2b ".h") (s2b "a/.h") [] = ([], []).
Proof. vm_compute. reflexivity. Qed.

Example plain_spelled :
  map (fun j => spelled_of (s2b "..") (s2b "a") (snd j)) (fst (walk_root plain true (s2b "..") (s2b "a") []))
  = map fst (fst (walk_root plain true (s2b "..") (s2b "a") [])).
Proof. vm_compute. reflexivity. Qed.

(** the cyclic link a/l -> . : followed once, listed again (not entered) the second time *)
Definition cyclic : tree := [D "." "a"; L "a" "l" "."].

Example cyclic_walk :
  walk_root cyclic false (s2b ".") (s2b ".") [] =
  ([P "." "."; P "./a" "a"; P "./a/l" "."; P "./a/l/a" "a"; P "./a/l/a/l" "."], [s2b "."]).
Proof. vm_compute. reflexivity. Qed.

Example cyclic_followed :
  w_followed (walk_entries' 7 cyclic false (s2b ".") (children cyclic (s2b ".")) []) = [s2b "."]
  /\ least_fuel 20 0 cyclic false (s2b ".") (s2b ".") = 4.
Proof. vm_compute. auto. Qed.

(** aliases and a cycle through three links; a second root shares the cache *)
Definition linked : tree :=
  [D "." "a"; D "a" "b"; D "a" ".h"; D "a/.h" "x"; F "a" "f"; D "." "e";
   L "a/b" "l" "."; L "e" "m" "a/b"; L "." "k" "e"].

Example linked_walk :
  walk_root linked false (s2b ".") (s2b ".") [] =
  ([P "." "."; P "./a" "a"; P "./a/b" "a/b"; P "./a/b/l" ".";
    P "./a/b/l/a" "a"; P "./a/b/l/a/b" "a/b"; P "./a/b/l/a/b/l" ".";
    P "./a/b/l/e" "e"; P "./a/b/l/e/m" "a/b"; P "./a/b/l/e/m/l" ".";
    P "./a/b/l/k" "e"; P "./a/b/l/k/m" "a/b";
    P "./e" "e"; P "./e/m" "a/b"; P "./k" "e"],
   [s2b "e"; s2b "a/b"; s2b "."]).
Proof. vm_compute. reflexivity. Qed.

Example linked_second_root :
  walk_root linked false (s2b "e") (s2b "e") [s2b "e"; s2b "a/b"; s2b "."] =
  ([P "e" "e"; P "e/m" "a/b"], [s2b "e"; s2b "a/b"; s2b "."]).
Proof. vm_compute. reflexivity. Qed.

Example linked_fuel :
  (least_fuel 200 0 linked true (s2b ".") (s2b "."), List.length linked * S (List.length linked)) = (7, 90).
Proof. vm_compute. reflexivity. Qed.

Lemma linked_acyclic : acyclic linked.
Proof.
  apply no_dot_acyclic. intros n H K E. simpl in H.
  repeat (destruct H as [<-|H]; [vm_compute in E; discriminate|]). contradiction.
Qed.

(** a directory entry named "." makes the real tree cyclic: no fuel is enough, [acyclic] is needed *)
Definition selfdir : tree := [D "." "."].
Example selfdir_truncated :
  w_trunc (walk_entries' 50 selfdir true (s2b ".") (children selfdir (s2b ".")) []) = true.
Proof. vm_compute. reflexivity. Qed.

(** the fuel needed does grow with (entries) x (links): a chain re-entered through links at its end *)
Definition chain : tree :=
  [D "." "d1"; D "d1" "d2"; D "d1/d2" "d3"; D "d1/d2/d3" "d4";
   L "d1/d2/d3/d4" "l1" "d1"; L "d1/d2/d3/d4" "l2" "d1/d2"; L "d1/d2/d3/d4" "l3" "d1/d2/d3"].
Example chain_fuel :
  (least_fuel 200 0 chain true (s2b ".") (s2b "."), List.length chain * S (List.length chain)) = (19, 56).
Proof. vm_compute. reflexivity. Qed.
End WalkExamples.
