(** Listing, stage A: the optional-frame pattern and the single-frame pattern
    as lazy scans over one position-free test; the items of FindSequencesInList;
    reconstruction of a frame text from its value and the width of its group. *)
From GFS Require Import Base Dec Regex GenRegex GenPadTables Ranges Pad FrameSet Compress Path Seq Listing
  SpecRange SpecSeq RegexKit RangeRegex DecProofs PadProofs SplitProofs CompressProofs FramePathProofs.
Local Open Scope nat_scope.

(** * success of the matcher does not depend on the position or the captures *)

Fixpoint no_bot (r : re) : Prop :=
  match r with
  | RBot => False
  | RCat a b | RAlt a b => no_bot a /\ no_bot b
  | RStar _ a | ROpt _ a | RGrp _ a => no_bot a
  | _ => True
  end.

Definition isnone {A : Type} (o : option A) : bool := match o with None => true | Some _ => false end.

Definition sim (d : nat) (k k' : K) : Prop :=
  forall p s c c', isnone (k p s c) = isnone (k' (d + p) s c').

Lemma eqb_shift : forall d a b, Nat.eqb (d + a) (d + b) = Nat.eqb a b.
Proof.
  intros d a b. destruct (Nat.eqb_spec a b) as [->|H].
  - apply Nat.eqb_refl.
  - apply Nat.eqb_neq. lia.
Qed.

Lemma star_indep : forall d (body : nat -> bytes -> caps -> K -> option caps),
  (forall k k', sim d k k' -> forall pos s cs cs',
       isnone (body pos s cs k) = isnone (body (d + pos) s cs' k')) ->
  forall g k k', sim d k k' -> forall fuel pos s cs cs',
  isnone (star_loop body g k fuel pos s cs) = isnone (star_loop body g k' fuel (d + pos) s cs').
Proof.
  intros d body Hb g k k' Hk fuel. induction fuel as [|f IH]; intros pos s cs cs'.
  - reflexivity.
  - assert (Hiter :
      isnone (body pos s cs (fun p' s' c' => if Nat.eqb p' pos then None else star_loop body g k f p' s' c')) =
      isnone (body (d + pos) s cs'
                (fun p' s' c' => if Nat.eqb p' (d + pos) then None else star_loop body g k' f p' s' c'))).
    { apply Hb. intros p s1 c c'. rewrite eqb_shift. destruct (Nat.eqb p pos); [reflexivity|apply IH]. }
    pose proof (Hk pos s cs cs') as H0.
    destruct g.
    + rewrite !star_loop_greedy_S.
      destruct (body pos s cs _); destruct (body (d + pos) s cs' _); cbn [isnone] in *;
        try discriminate; try reflexivity. exact H0.
    + rewrite !star_loop_lazy_S.
      destruct (k pos s cs); destruct (k' (d + pos) s cs'); cbn [isnone] in *;
        try discriminate; try reflexivity. exact Hiter.
Qed.

Lemma m_indep : forall r, no_bot r -> forall d k k', sim d k k' -> forall pos s cs cs',
  isnone (m r pos s cs k) = isnone (m r (d + pos) s cs' k').
Proof.
  induction r as [|neg rs|a IHa b IHb|a IHa b IHb|g a IHa|g a IHa|n a IHa| |];
    intros Hnb d k k' Hk pos s cs cs'; cbn [m no_bot] in *.
  - apply Hk.
  - destruct s as [|c s']; [reflexivity|]. destruct (cls_match neg rs c); [|reflexivity].
    rewrite <- Nat.add_succ_r. apply Hk.
  - destruct Hnb as [Ha Hb]. apply IHa; [exact Ha|].
    intros p s1 c c'. apply IHb; assumption.
  - destruct Hnb as [Ha Hb].
    pose proof (IHa Ha d k k' Hk pos s cs cs') as H1.
    destruct (m a pos s cs k); destruct (m a (d + pos) s cs' k'); cbn [isnone] in *;
      try discriminate; try reflexivity.
    apply IHb; assumption.
  - apply star_indep; [|exact Hk]. intros k1 k1' H1. apply IHa; assumption.
  - pose proof (IHa Hnb d k k' Hk pos s cs cs') as H1.
    pose proof (Hk pos s cs cs') as H0.
    destruct g.
    + destruct (m a pos s cs k); destruct (m a (d + pos) s cs' k'); cbn [isnone] in *;
        try discriminate; try reflexivity. exact H0.
    + destruct (k pos s cs); destruct (k' (d + pos) s cs'); cbn [isnone] in *;
        try discriminate; try reflexivity. exact H1.
  - apply IHa; [exact Hnb|]. intros p s1 c c'. apply Hk.
  - destruct Hnb.
  - destruct s; [apply Hk|reflexivity].
Qed.

Lemma kfin_sim : forall d, sim d kfin kfin.
Proof. intros d p s c c'. reflexivity. Qed.

(** * the common tail of the two file-name patterns *)

Definition OF_TAIL : re := RCat (RGrp 3 SF_EXT) REot.
Definition FT : re := RCat (RGrp 2 NUM) OF_TAIL.
Definition T (pos : nat) (s : bytes) (cs : caps) : option caps := m FT pos s cs kfin.
Definition T0 (pos : nat) (s : bytes) (cs : caps) : option caps := m OF_TAIL pos s cs kfin.
Definition KO : K :=
  fun p' s' cs' => match T p' s' ((1, (0, p')) :: cs') with
                   | Some r => Some r
                   | None => T0 p' s' ((1, (0, p')) :: cs')
                   end.
Definition KS : K := fun p' s' cs' => T p' s' ((1, (0, p')) :: cs').

Lemma OF_eq : R_optionalFramePattern =
  RCat RBot (RCat (RGrp 1 SF_NAME) (RCat (ROpt true (RGrp 2 NUM)) OF_TAIL)).
Proof. reflexivity. Qed.

Lemma SF_eq2 : R_singleFramePattern = RCat RBot (RCat (RGrp 1 SF_NAME) FT).
Proof. reflexivity. Qed.

Lemma opt_char : forall s,
  rmatch R_optionalFramePattern s = lscan (cls_match true [(10, 10)]) KO 0 s [].
Proof.
  intros s. unfold rmatch. rewrite OF_eq, m_cat, m_bot0. cbv beta.
  rewrite m_cat, m_grp. unfold SF_NAME. rewrite m_star_lazy_cls.
  apply lscan_ext. intros pos s' cs. unfold KO, T, T0, FT.
  rewrite m_cat, m_opt_greedy. rewrite (m_cat (RGrp 2 NUM) OF_TAIL). reflexivity.
Qed.

Lemma sf_char : forall s,
  rmatch R_singleFramePattern s = lscan (cls_match true [(10, 10)]) KS 0 s [].
Proof.
  intros s. unfold rmatch. rewrite SF_eq2, m_cat, m_bot0. cbv beta.
  rewrite m_cat, m_grp. unfold SF_NAME. rewrite m_star_lazy_cls.
  apply lscan_ext. intros pos s' cs. reflexivity.
Qed.

Definition ext_shape (e : bytes) : Prop := e = [] \/ exists t, e = 46 :: t.

(** what follows the frame number starts with a dot *)
Lemma ext_nodot : forall (k : K) pos c s cs, Nat.eqb c 46 = false ->
  m SF_EXT pos (c :: s) cs k = k pos (c :: s) cs.
Proof.
  intros k pos c s cs H. unfold SF_EXT.
  rewrite m_cat, m_star. rewrite star_loop_greedy_S.
  rewrite m_cat, m_cls_cons, cls_single, H.
  rewrite m_opt_greedy, m_cat, m_cls_cons, cls_single, H. reflexivity.
Qed.

Lemma T0_inv : forall pos s cs res, T0 pos s cs = Some res ->
  res = (3, (pos, pos + List.length s)) :: cs /\ ext_shape s.
Proof.
  intros pos s cs res H. unfold T0, OF_TAIL in H. split.
  - rewrite m_cat, m_grp in H. apply m_sound in H. destruct H as (n3 & ex & Hn & Hex & E).
    apply only_keys_nil_inv in Hex. subst ex. cbv beta in E. cbn [app] in E. rewrite m_eot in E.
    destruct (skipn n3 s) eqn:E3; [|discriminate]. injection E as <-.
    assert (n3 = List.length s).
    { apply (f_equal (@List.length _)) in E3. rewrite skipn_length in E3. cbn [List.length] in E3. lia. }
    subst n3. reflexivity.
  - destruct s as [|c s]; [left; reflexivity|].
    destruct (Nat.eqb_spec c 46) as [->|Hc]; [right; eexists; reflexivity|].
    exfalso. rewrite m_cat, m_grp, ext_nodot in H by (apply Nat.eqb_neq; exact Hc).
    rewrite m_eot in H. discriminate.
Qed.

(** position-free: does the extension expression match the whole of [u]? *)
Definition ext_match (u : bytes) : bool := negb (isnone (T0 0 u [])).

Lemma OF_TAIL_no_bot : no_bot OF_TAIL.
Proof. cbn. tauto. Qed.

Lemma T0_char : forall pos s cs,
  T0 pos s cs = if ext_match s then Some ((3, (pos, pos + List.length s)) :: cs) else None.
Proof.
  intros pos s cs. unfold ext_match.
  pose proof (m_indep OF_TAIL OF_TAIL_no_bot pos kfin kfin (kfin_sim pos) 0 s [] cs) as H.
  rewrite Nat.add_0_r in H. fold (T0 0 s []) in H. fold (T0 pos s cs) in H.
  destruct (T0 pos s cs) as [res|] eqn:E.
  - destruct (T0_inv _ _ _ _ E) as [-> _]. destruct (T0 0 s []); [reflexivity|discriminate].
  - destruct (T0 0 s []); [discriminate|reflexivity].
Qed.

Lemma ext_match_shape : forall u, ext_match u = true -> ext_shape u.
Proof.
  intros u H. unfold ext_match in H. destruct (T0 0 u []) as [res|] eqn:E; [|discriminate].
  apply T0_inv in E. apply E.
Qed.

Lemma ext_match_nil : ext_match [] = true.
Proof. reflexivity. Qed.

(** length of the frame number read at the head of [u], when the rest is an extension *)
Definition frame_at (u : bytes) : option nat :=
  match num_len u with
  | O => None
  | S n => if ext_match (skipn (S n) u) then Some (S n) else None
  end.

Lemma T_char : forall pos s cs,
  T pos s cs =
  match frame_at s with
  | Some k => Some ((3, (pos + k, pos + k + List.length (skipn k s))) :: (2, (pos, pos + k)) :: cs)
  | None => None
  end.
Proof.
  intros pos s cs. unfold T, FT, frame_at. rewrite m_cat, m_grp, m_num.
  2:{ intros p c s' cs' Hc. cbv beta. unfold OF_TAIL. apply ext_rejects_digits. exact Hc. }
  destruct (num_len s) as [|n]; [reflexivity|]. cbv beta.
  fold (T0 (pos + S n) (skipn (S n) s) ((2, (pos, pos + S n)) :: cs)).
  rewrite T0_char. destruct (ext_match (skipn (S n) s)); reflexivity.
Qed.

(** frame length at [u] for the optional pattern: [Some 0] = no frame number *)
Definition opt_at (u : bytes) : option nat :=
  match frame_at u with
  | Some k => Some k
  | None => if ext_match u then Some 0 else None
  end.

Lemma frame_at_pos : forall u k, frame_at u = Some k -> 0 < k.
Proof.
  intros u k H. unfold frame_at in H. destruct (num_len u); [discriminate|].
  destruct (ext_match _); [|discriminate]. injection H as <-. lia.
Qed.

(** * lazy scans: first success *)

Lemma lscan_inv : forall p (k : K) s pos cs r, lscan p k pos s cs = Some r ->
  exists i, i <= List.length s /\ forallb p (firstn i s) = true /\
    k (pos + i) (skipn i s) cs = Some r /\
    forall j, j < i -> k (pos + j) (skipn j s) cs = None.
Proof.
  intros p k s. induction s as [|c s IH]; intros pos cs r H.
  - cbn [lscan] in H. exists 0. cbn [firstn skipn forallb List.length]. rewrite Nat.add_0_r.
    repeat split; [lia|exact H|intros j Hj; lia].
  - rewrite lscan_eq in H. destruct (k pos (c :: s) cs) as [r'|] eqn:E.
    + injection H as ->. exists 0. cbn [firstn skipn forallb]. rewrite Nat.add_0_r.
      repeat split; [lia|exact E|intros j Hj; lia].
    + destruct (p c) eqn:Hc; [|discriminate].
      apply IH in H. destruct H as (i & Hi & Hp & Hk & Hm).
      exists (S i). cbn [firstn skipn forallb List.length]. rewrite Hc, Hp.
      rewrite Nat.add_succ_r. repeat split; [lia|exact Hk|].
      intros j Hj. destruct j as [|j].
      * cbn [skipn]. rewrite Nat.add_0_r. exact E.
      * cbn [skipn]. rewrite Nat.add_succ_r. apply Hm. lia.
Qed.

Lemma lscan_intro : forall p (k : K) s pos cs r i, i <= List.length s ->
  forallb p (firstn i s) = true ->
  k (pos + i) (skipn i s) cs = Some r ->
  (forall j, j < i -> k (pos + j) (skipn j s) cs = None) ->
  lscan p k pos s cs = Some r.
Proof.
  intros p k s pos cs r i Hi Hp Hk Hm.
  rewrite <- (firstn_skipn i s).
  assert (Hl : List.length (firstn i s) = i) by (apply firstn_length_le; exact Hi).
  apply lscan_first.
  - exact Hp.
  - intros j Hj. rewrite Hl in Hj.
    replace (skipn j (firstn i s) ++ skipn i s) with (skipn j s); [apply Hm; exact Hj|].
    rewrite <- (firstn_skipn i s) at 1. rewrite skipn_app.
    rewrite Hl. replace (j - i) with 0 by lia. reflexivity.
  - rewrite Hl. exact Hk.
Qed.

Lemma lscan_none : forall p (k : K) s pos cs,
  (forall j, j <= List.length s -> k (pos + j) (skipn j s) cs = None) ->
  lscan p k pos s cs = None.
Proof.
  intros p k s. induction s as [|c s IH]; intros pos cs H.
  - cbn [lscan]. specialize (H 0). cbn [skipn] in H. rewrite Nat.add_0_r in H. apply H. cbn; lia.
  - rewrite lscan_eq. pose proof (H 0) as H0. cbn [skipn] in H0. rewrite Nat.add_0_r in H0.
    rewrite H0 by lia. destruct (p c); [|reflexivity].
    apply IH. intros j Hj. specialize (H (S j)). cbn [skipn List.length] in H.
    rewrite Nat.add_succ_r in H. apply H. lia.
Qed.

(** some success exists: the scan succeeds, at or before it *)
Lemma lscan_some : forall p (k : K) s pos cs i, i <= List.length s ->
  forallb p (firstn i s) = true -> k (pos + i) (skipn i s) cs <> None ->
  lscan p k pos s cs <> None.
Proof.
  intros p k s. induction s as [|c s IH]; intros pos cs i Hi Hp Hk.
  - assert (i = 0) by (cbn [List.length] in Hi; lia). subst i.
    cbn [lscan]. cbn [skipn] in Hk. rewrite Nat.add_0_r in Hk. exact Hk.
  - rewrite lscan_eq. destruct (k pos (c :: s) cs) eqn:E; [discriminate|].
    destruct i as [|i].
    + cbn [skipn] in Hk. rewrite Nat.add_0_r in Hk. contradiction.
    + cbn [firstn forallb] in Hp. apply andb_true_iff in Hp. destruct Hp as [Hc Hp]. rewrite Hc.
      apply (IH (S pos) cs i); [cbn [List.length] in Hi; lia|exact Hp|].
      cbn [skipn] in Hk. rewrite Nat.add_succ_r in Hk. exact Hk.
Qed.

(** * the two patterns at the level of their captures *)

Lemma KO_char : forall pos u cs,
  KO pos u cs =
  match frame_at u with
  | Some k => Some ((3, (pos + k, pos + k + List.length (skipn k u))) :: (2, (pos, pos + k)) :: (1, (0, pos)) :: cs)
  | None => if ext_match u then Some ((3, (pos, pos + List.length u)) :: (1, (0, pos)) :: cs) else None
  end.
Proof.
  intros pos u cs. unfold KO. rewrite T_char, T0_char. destruct (frame_at u); reflexivity.
Qed.

Lemma KO_none : forall pos u cs, KO pos u cs = None <-> opt_at u = None.
Proof.
  intros pos u cs. rewrite KO_char. unfold opt_at.
  destruct (frame_at u); [split; discriminate|]. destruct (ext_match u); split; congruence.
Qed.

Lemma KS_char : forall pos u cs,
  KS pos u cs =
  match frame_at u with
  | Some k => Some ((3, (pos + k, pos + k + List.length (skipn k u))) :: (2, (pos, pos + k)) :: (1, (0, pos)) :: cs)
  | None => None
  end.
Proof. intros pos u cs. unfold KS. apply T_char. Qed.

Lemma caps3_get : forall (s : bytes) i k,
  map (fun j => cap_get s ((3, (i + k, i + k + List.length (skipn k (skipn i s)))) :: (2, (i, i + k)) :: [(1, (0, i))]) (S j))
      (seq 0 3) = [firstn i s; firstn k (skipn i s); skipn k (skipn i s)].
Proof.
  intros s i k. cbn [seq map]. unfold cap_get. cbn [cap_lookup Nat.eqb].
  rewrite slice_0, !slice_off, skipn_add, firstn_all. reflexivity.
Qed.

Lemma caps2_get : forall (s : bytes) i,
  map (fun j => cap_get s ((3, (i, i + List.length (skipn i s))) :: [(1, (0, i))]) (S j))
      (seq 0 3) = [firstn i s; []; skipn i s].
Proof.
  intros s i. cbn [seq map]. unfold cap_get. cbn [cap_lookup Nat.eqb].
  rewrite slice_0, slice_off, firstn_all. reflexivity.
Qed.

Lemma cls_nonl_forallb : forall s, forallb (cls_match true [(10, 10)]) s = forallb nonl s.
Proof.
  induction s as [|c s IH]; [reflexivity|]. cbn [forallb]. rewrite cls_nonl, IH. reflexivity.
Qed.

Lemma opt_frame_inv : forall n b f e,
  submatches R_optionalFramePattern n 3 = Some [b; f; e] ->
  exists i k, i <= List.length n /\ forallb nonl (firstn i n) = true /\
    (forall j, j < i -> opt_at (skipn j n) = None) /\
    opt_at (skipn i n) = Some k /\
    b = firstn i n /\ f = firstn k (skipn i n) /\ e = skipn k (skipn i n).
Proof.
  intros n b f e H. unfold submatches in H. rewrite opt_char in H.
  destruct (lscan _ KO 0 n []) as [r|] eqn:E; [|discriminate].
  apply lscan_inv in E. destruct E as (i & Hi & Hp & Hk & Hm). cbn [Nat.add] in Hk.
  rewrite cls_nonl_forallb in Hp.
  assert (Hm' : forall j, j < i -> opt_at (skipn j n) = None).
  { intros j Hj. apply (KO_none (0 + j) _ []). apply Hm. exact Hj. }
  rewrite KO_char in Hk. unfold opt_at.
  destruct (frame_at (skipn i n)) as [k|] eqn:Ef.
  - injection Hk as <-. rewrite caps3_get in H. injection H as <- <- <-.
    exists i, k. repeat split; try assumption. unfold opt_at. rewrite Ef. reflexivity.
  - destruct (ext_match (skipn i n)) eqn:Ee; [|discriminate].
    injection Hk as <-. rewrite caps2_get in H. injection H as <- <- <-.
    exists i, 0. repeat split; try assumption. unfold opt_at. rewrite Ef, Ee. reflexivity.
Qed.

Lemma sf_frame_inv : forall n b f e,
  submatches R_singleFramePattern n 3 = Some [b; f; e] ->
  exists i k, i <= List.length n /\ forallb nonl (firstn i n) = true /\
    (forall j, j < i -> frame_at (skipn j n) = None) /\
    frame_at (skipn i n) = Some k /\
    b = firstn i n /\ f = firstn k (skipn i n) /\ e = skipn k (skipn i n).
Proof.
  intros n b f e H. unfold submatches in H. rewrite sf_char in H.
  destruct (lscan _ KS 0 n []) as [r|] eqn:E; [|discriminate].
  apply lscan_inv in E. destruct E as (i & Hi & Hp & Hk & Hm). cbn [Nat.add] in Hk.
  rewrite cls_nonl_forallb in Hp.
  assert (Hm' : forall j, j < i -> frame_at (skipn j n) = None).
  { intros j Hj. specialize (Hm j Hj). rewrite KS_char in Hm.
    destruct (frame_at (skipn j n)); [discriminate|reflexivity]. }
  rewrite KS_char in Hk.
  destruct (frame_at (skipn i n)) as [k|] eqn:Ef; [|discriminate].
  injection Hk as <-. rewrite caps3_get in H. injection H as <- <- <-.
  exists i, k. repeat split; assumption.
Qed.

Lemma sf_frame_intro : forall n i k, i <= List.length n -> forallb nonl (firstn i n) = true ->
  (forall j, j < i -> frame_at (skipn j n) = None) ->
  frame_at (skipn i n) = Some k ->
  submatches R_singleFramePattern n 3 = Some [firstn i n; firstn k (skipn i n); skipn k (skipn i n)].
Proof.
  intros n i k Hi Hp Hm Hk. unfold submatches. rewrite sf_char.
  rewrite (lscan_intro _ KS n 0 []
             ((3, (i + k, i + k + List.length (skipn k (skipn i n)))) :: (2, (i, i + k)) :: [(1, (0, i))]) i Hi).
  - rewrite caps3_get. reflexivity.
  - rewrite cls_nonl_forallb. exact Hp.
  - cbn [Nat.add]. rewrite KS_char, Hk. reflexivity.
  - intros j Hj. rewrite KS_char, (Hm j Hj). reflexivity.
Qed.

(** the single-frame pattern matches as soon as some offset qualifies *)
Lemma sf_some : forall n i, i <= List.length n -> forallb nonl (firstn i n) = true ->
  frame_at (skipn i n) <> None ->
  exists b f e, submatches R_singleFramePattern n 3 = Some [b; f; e].
Proof.
  intros n i Hi Hp Hk. unfold submatches. rewrite sf_char.
  destruct (lscan _ KS 0 n []) as [r|] eqn:E.
  - cbn [seq map]. eexists _, _, _. reflexivity.
  - exfalso. revert E. apply (lscan_some _ KS n 0 [] i Hi).
    + rewrite cls_nonl_forallb. exact Hp.
    + cbn [Nat.add]. rewrite KS_char. destruct (frame_at (skipn i n)); [discriminate|contradiction].
Qed.

(** (1) the three captures tile the name; the frame is empty or a numeral;
    the extension is empty or starts with a dot *)
Theorem optional_frame_tiles : forall n b f e,
  submatches R_optionalFramePattern n 3 = Some [b; f; e] ->
  n = b ++ f ++ e /\ (f = [] \/ numeral f) /\ ext_shape e.
Proof.
  intros n b f e H. apply opt_frame_inv in H.
  destruct H as (i & k & Hi & Hp & Hm & Hk & -> & -> & ->).
  split; [|split].
  - rewrite (firstn_skipn k (skipn i n)). symmetry. apply firstn_skipn.
  - unfold opt_at in Hk. destruct (frame_at (skipn i n)) as [k'|] eqn:Ef.
    + injection Hk as ->. right. unfold frame_at in Ef.
      destruct (num_len (skipn i n)) as [|n2] eqn:En; [discriminate|].
      destruct (ext_match _); [|discriminate]. injection Ef as <-.
      apply fp_num_len_numeral. exact En.
    + destruct (ext_match _); [|discriminate]. injection Hk as <-. left. reflexivity.
  - apply ext_match_shape. unfold opt_at in Hk.
    destruct (frame_at (skipn i n)) as [k'|] eqn:Ef.
    + injection Hk as ->. unfold frame_at in Ef.
      destruct (num_len (skipn i n)) as [|n2]; [discriminate|].
      destruct (ext_match (skipn (S n2) (skipn i n))) eqn:Ee; [|discriminate].
      injection Ef as <-. exact Ee.
    + destruct (ext_match (skipn i n)) eqn:Ee; [|discriminate]. injection Hk as <-. exact Ee.
Qed.

(** the optional pattern matches every newline-free name *)
Lemma optional_frame_total : forall n, no_byte 10 n = true ->
  exists b f e, submatches R_optionalFramePattern n 3 = Some [b; f; e].
Proof.
  intros n Hn. unfold submatches. rewrite opt_char.
  destruct (lscan _ KO 0 n []) as [r|] eqn:E.
  - cbn [seq map]. eexists _, _, _. reflexivity.
  - exfalso. revert E. apply (lscan_some _ KO n 0 [] (List.length n)); [lia| |].
    + rewrite firstn_all. apply no_byte_cls. exact Hn.
    + rewrite skipn_all. cbn [Nat.add]. rewrite KO_char. cbn. discriminate.
Qed.

(** a frame number found by the optional pattern is found, with the same
    captures, by the single-frame pattern on a longer string, provided no
    offset inside the added prefix qualifies *)
Lemma sf_of_opt : forall pre n b f e,
  submatches R_optionalFramePattern n 3 = Some [b; f; e] -> f <> [] ->
  forallb nonl pre = true ->
  (forall j, j < List.length pre -> frame_at (skipn j (pre ++ n)) = None) ->
  submatches R_singleFramePattern (pre ++ n) 3 = Some [pre ++ b; f; e].
Proof.
  intros pre n b f e H Hf Hpre Hfail. apply opt_frame_inv in H.
  destruct H as (i & k & Hi & Hp & Hm & Hk & -> & -> & ->).
  assert (Hsk : forall j, skipn (List.length pre + j) (pre ++ n) = skipn j n).
  { intros j. rewrite skipn_add, skipn_len_app. reflexivity. }
  assert (Hfa : frame_at (skipn i n) = Some k).
  { unfold opt_at in Hk. destruct (frame_at (skipn i n)); [exact Hk|].
    destruct (ext_match _); [|discriminate]. injection Hk as <-. cbn [firstn] in Hf. congruence. }
  pose proof (sf_frame_intro (pre ++ n) (List.length pre + i) k) as S.
  rewrite Hsk in S. rewrite firstn_app in S.
  replace (List.length pre + i - List.length pre) with i in S by lia.
  rewrite firstn_all2 in S by lia. apply S.
  - rewrite app_length. lia.
  - rewrite forallb_app, Hpre, Hp. reflexivity.
  - intros j Hj. destruct (Nat.lt_ge_cases j (List.length pre)) as [L|G]; [apply Hfail; exact L|].
    replace j with (List.length pre + (j - List.length pre)) by lia. rewrite Hsk.
    specialize (Hm (j - List.length pre) ltac:(lia)). unfold opt_at in Hm.
    destruct (frame_at _); [discriminate|reflexivity].
  - exact Hfa.
Qed.

(** * (2) the items of FindSequencesInList *)

Lemma dir_ok_cons : forall c d, d <> [] -> dir_ok (c :: d) = dir_ok d.
Proof.
  intros c d H. unfold dir_ok. cbn [rev]. destruct (rev d) as [|x r] eqn:E.
  - apply (f_equal (@rev _)) in E. rewrite rev_involutive in E. contradiction.
  - reflexivity.
Qed.

Lemma split_exists : forall p : bytes, exists d f, p = d ++ f /\ dir_ok d = true /\ no_byte 47 f = true.
Proof.
  induction p as [|c p IH].
  - exists [], []. repeat split.
  - destruct IH as (d & f & -> & Hd & Hf). destruct d as [|c' d'].
    + destruct (Nat.eqb_spec c 47) as [->|Hc].
      * exists [47], f. repeat split. exact Hf.
      * exists [], (c :: f). repeat split. unfold no_byte in *. cbn [existsb app].
        rewrite (proj2 (Nat.eqb_neq 47 c)) by congruence. exact Hf.
    + exists (c :: c' :: d'), f. repeat split; [|exact Hf].
      rewrite dir_ok_cons by discriminate. exact Hd.
Qed.

Lemma path_split_spec : forall p, exists d f,
  path_split p = (d, f) /\ p = d ++ f /\ dir_ok d = true /\ no_byte 47 f = true.
Proof.
  intros p. destruct (split_exists p) as (d & f & -> & Hd & Hf).
  exists d, f. split; [apply path_split_dir_base; assumption|]. repeat split; assumption.
Qed.

Lemma dir_ok_ends : forall d c, d <> [] -> dir_ok d = true -> ends_with_byte d c = Nat.eqb 47 c.
Proof.
  intros d c Hne H. unfold dir_ok in H. unfold ends_with_byte. destruct (rev d) as [|x r] eqn:E.
  - apply (f_equal (@rev _)) in E. rewrite rev_involutive in E. contradiction.
  - apply Nat.eqb_eq in H. subst x. reflexivity.
Qed.

Theorem item_of_path_spec : forall p, exists d x f,
  path_split (path_clean p) = (d, f) /\ path_clean p = d ++ f /\
  dir_ok d = true /\ no_byte 47 f = true /\
  fi_dir (item_of_path p) = d ++ x /\ fi_name (item_of_path p) = f /\
  (x = [] \/ (x = [92] /\ d <> [])).
Proof.
  intros p. destruct (path_split_spec (path_clean p)) as (d & f & Hs & Hp & Hd & Hf).
  unfold item_of_path. rewrite Hs. destruct d as [|c d'].
  - exists [], [], f. cbn [fi_dir fi_name app]. repeat split; try assumption. left. reflexivity.
  - rewrite (dir_ok_ends (c :: d') _ ltac:(discriminate) Hd). unfold path_sep.
    destruct (existsb (Nat.eqb 92) (path_clean p)).
    + exists (c :: d'), [92], f. cbn [fi_dir fi_name Nat.eqb]. repeat split; try assumption.
      right. split; [reflexivity|discriminate].
    + exists (c :: d'), [], f. cbn [fi_dir fi_name Nat.eqb c_slash]. rewrite app_nil_r.
      repeat split; try assumption. left. reflexivity.
Qed.

(** * (3) a frame text from its value and the width of its group *)

Local Open Scope Z_scope.

Lemma canonical_length : forall t v, numeral t -> not_neg_zero t -> atoi_big t = Some v ->
  List.length t = List.length (itoa v) -> t = itoa v.
Proof.
  intros t v N NZ A L.
  transitivity (zfill_int v (Z.of_nat (List.length t))).
  - symmetry. apply zfill_int_reconstruct; assumption.
  - apply zfill_int_narrow. nb. rewrite L. lia.
Qed.

Lemma atoi_some_big : forall t v, atoi t = Some v -> atoi_big t = Some v.
Proof.
  intros t v H. unfold atoi in H. destruct (atoi_big t) as [z|]; [|discriminate].
  destruct (fits_int z); [exact H|discriminate].
Qed.

Theorem group_reconstruct : forall t v w, numeral t -> not_neg_zero t -> atoi t = Some v -> 1 <= w ->
  (blen t = w \/ (w < blen t /\ frame_min_size t = 1)) -> zfill_int v w = t.
Proof.
  intros t v w N NZ A Hw H. pose proof (atoi_some_big t v A) as AB.
  destruct H as [<-|[Hlt Hm]].
  - apply zfill_int_reconstruct; assumption.
  - unfold frame_min_size, atoi_or_0 in Hm. rewrite A in Hm.
    destruct (Z.eqb_spec (blen t) (blen (itoa v))) as [E|E]; [|lia].
    unfold blen in *.
    assert (Ht : t = itoa v). { apply canonical_length; try assumption. nb. lia. }
    transitivity (itoa v); [|symmetry; exact Ht]. apply zfill_int_narrow. nb. lia.
Qed.
