(** Proofs about the seqls worker pipeline (Model/Pipeline.v), for every number
    of workers, every job list and EVERY schedule:
    - conservation: the batches printed on a complete run are a permutation of
      the successful results (nothing lost, nothing duplicated);
    - deadlock freedom and termination (a measure decreases on every step);
    - a failing job does not affect the other results;
    - the executable scheduler [exec] only produces reachable states. *)
From GFS Require Import Base Pipeline.
From Coq Require Import Permutation.

(** * Generic facts about [upd], [held], [wsum] *)

Lemma upd_length : forall (A : Type) i (w : A) l, List.length (upd i w l) = List.length l.
Proof.
  intros A i w l. revert i. induction l as [|x l IH]; intros [|i]; simpl; auto.
Qed.

Lemma upd_same : forall (A : Type) i (w : A) l, nth_error l i = Some w -> upd i w l = l.
Proof.
  intros A i w l. revert i. induction l as [|x l IH]; intros [|i] H; simpl in *; try discriminate.
  - inversion H. reflexivity.
  - rewrite IH; auto.
Qed.

Lemma In_upd : forall (A : Type) i (w x : A) l, In x (upd i w l) -> x = w \/ In x l.
Proof.
  intros A i w x l. revert i. induction l as [|y l IH]; intros [|i] H; simpl in *; auto.
  - destruct H; auto.
  - destruct H as [H|H]; auto. apply IH in H. destruct H; auto.
Qed.

Lemma In_upd_nth : forall (A : Type) i (w : A) l, i < List.length l -> In w (upd i w l).
Proof.
  intros A i w l. revert i. induction l as [|y l IH]; intros [|i] H; simpl in *; try lia; auto.
  right. apply IH. lia.
Qed.

Lemma wsum_upd : forall f i w w' ws,
  nth_error ws i = Some w -> wsum f (upd i w' ws) + f w = wsum f ws + f w'.
Proof.
  unfold wsum. intros f i w w' ws. revert i.
  induction ws as [|x ws IH]; intros [|i] H; simpl in *; try discriminate.
  - inversion H. subst. lia.
  - specialize (IH i H). lia.
Qed.

Lemma held_upd : forall i w w' ws,
  nth_error ws i = Some w ->
  Permutation (held w' ++ flat_map held ws) (held w ++ flat_map held (upd i w' ws)).
Proof.
  intros i w w' ws. revert i.
  induction ws as [|x ws IH]; intros [|i] H; simpl in *; try discriminate.
  - inversion H. subst. apply Permutation_app_swap_app.
  - eapply perm_trans. { apply Permutation_app_swap_app. }
    eapply perm_trans. 2:{ apply Permutation_app_swap_app. }
    apply Permutation_app_head. apply IH. exact H.
Qed.

Lemma all_done_nth : forall ws i w, all_done ws = true -> nth_error ws i = Some w -> is_done w = true.
Proof.
  intros ws i w Ha Hn. unfold all_done in Ha. rewrite forallb_forall in Ha.
  apply Ha. eapply nth_error_In. exact Hn.
Qed.

Lemma all_done_held : forall ws, all_done ws = true -> flat_map held ws = [].
Proof.
  induction ws as [|w ws IH]; simpl; intros H; auto.
  apply andb_true_iff in H. destruct H as [Hw Hs].
  destruct w; try discriminate. simpl. auto.
Qed.

Lemma all_done_In : forall ws w, all_done ws = true -> In w ws -> w = WDone.
Proof.
  intros ws w Ha Hi. unfold all_done in Ha. rewrite forallb_forall in Ha.
  specialize (Ha w Hi). destruct w; try discriminate. reflexivity.
Qed.

Lemma find_notdone : forall ws,
  all_done ws = true \/ exists i w, nth_error ws i = Some w /\ is_done w = false.
Proof.
  induction ws as [|w ws IH]; simpl; auto.
  destruct (is_done w) eqn:E.
  - destruct IH as [IH|[i [w' [H1 H2]]]]; auto.
    right. exists (S i), w'. auto.
  - right. exists 0, w. auto.
Qed.

Lemma held_repeat_idle : forall n, flat_map held (repeat WIdle n) = [].
Proof. induction n; simpl; auto. Qed.

Lemma Permutation_concat : forall (A : Type) (l l' : list (list A)),
  Permutation l l' -> Permutation (List.concat l) (List.concat l').
Proof.
  intros A l l' H. induction H; simpl.
  - constructor.
  - apply Permutation_app_head. assumption.
  - apply Permutation_app_swap_app.
  - eapply perm_trans; eassumption.
Qed.

Section PipelineProofs.
Variable job : Type.
Variable run : job -> option (list bytes).

Local Notation pstate := (pstate job).
Local Notation lstep := (lstep run).
Local Notation step := (step run).
Local Notation steps := (steps run).
Local Notation nsteps := (nsteps run).
Local Notation results := (results run).

(** * Reachability is a preorder *)

Lemma steps_one : forall s s', step s s' -> steps s s'.
Proof. intros. eapply steps_step; eauto. apply steps_refl. Qed.

Lemma steps_trans : forall s1 s2 s3, steps s1 s2 -> steps s2 s3 -> steps s1 s3.
Proof.
  intros s1 s2 s3 H. induction H; intros; auto.
  eapply steps_step; eauto.
Qed.

(** an invariant of [step] that holds initially holds in every reachable state *)
Lemma steps_ind_inv : forall (P : pstate -> Prop),
  (forall s s', P s -> step s s' -> P s') ->
  forall s s', steps s s' -> P s -> P s'.
Proof.
  intros P Hstep s s' H. induction H; intros; auto.
  apply IHsteps. eapply Hstep; eauto.
Qed.

(** * Conservation: printed ++ held ++ still-to-do is constant up to permutation *)

Definition total (s : pstate) : list (list bytes) :=
  printed s ++ holding s ++ results (pending s).

Lemma results_app : forall a b, results (a ++ b) = results a ++ results b.
Proof. intros. unfold Pipeline.results. apply flat_map_app. Qed.

Lemma results_cons : forall j rest,
  results (j :: rest) = match run j with Some r => [r] | None => [] end ++ results rest.
Proof. reflexivity. Qed.

Lemma step_total : forall s s', step s s' -> Permutation (total s) (total s').
Proof.
  intros s s' [c H]. inversion H; subst; unfold total, holding;
    cbn [pending workers printed in_closed out_closed].
  - (* Deliver *)
    apply Permutation_app_head. rewrite results_cons.
    unfold after_job. destruct (run j) as [r|] eqn:E.
    + eapply perm_trans. { apply Permutation_app_swap_app. }
      rewrite app_assoc. apply Permutation_app_tail.
      exact (held_upd i WIdle (WHolding r) ws H0).
    + rewrite upd_same by assumption. apply Permutation_refl.
  - apply Permutation_refl.
  - (* Finish *)
    apply Permutation_app_head. apply Permutation_app_tail.
    exact (held_upd i WIdle WDone ws H0).
  - (* Emit *)
    rewrite <- app_assoc. apply Permutation_app_head.
    rewrite app_assoc. apply Permutation_app_tail.
    exact (held_upd i (WHolding r) WIdle ws H0).
  - apply Permutation_refl.
Qed.

Lemma steps_total : forall s s', steps s s' -> Permutation (total s) (total s').
Proof.
  intros s s' H. induction H.
  - apply Permutation_refl.
  - eapply perm_trans; [apply step_total; eassumption | assumption].
Qed.

Theorem pipeline_invariant : forall n jobs s, steps (init n jobs) s ->
  Permutation (printed s ++ holding s ++ results (pending s)) (results jobs).
Proof.
  intros n jobs s H. apply steps_total in H. apply Permutation_sym.
  unfold total, holding in H. simpl in H. rewrite held_repeat_idle in H. exact H.
Qed.

(** * Reachable-state invariants *)

(** the output is closed only after every worker returned; the inputs are closed
    only after the last job was handed out; a worker returns only after the
    inputs are closed *)
Definition inv (s : pstate) : Prop :=
  (out_closed s = true -> all_done (workers s) = true) /\
  (in_closed s = true -> pending s = []) /\
  (In WDone (workers s) -> in_closed s = true).

Lemma inv_init : forall n jobs, inv (init n jobs).
Proof.
  intros n jobs. unfold inv; simpl. repeat split; try discriminate.
  intros H. apply repeat_spec in H. discriminate.
Qed.

Lemma inv_step : forall s s', inv s -> step s s' -> inv s'.
Proof.
  intros s s' [I1 [I2 I3]] [c H]. inversion H; subst; unfold inv; simpl in *.
  - (* Deliver *) repeat split.
    + intros Hoc. specialize (I1 Hoc).
      pose proof (all_done_nth _ _ _ I1 H0) as Hd. discriminate.
    + discriminate.
    + intros Hin. apply In_upd in Hin. destruct Hin as [Hin|Hin]; auto.
      unfold after_job in Hin. destruct (run j); discriminate.
  - (* CloseIn *) repeat split; auto.
  - (* Finish *) repeat split; auto.
    intros Hoc. specialize (I1 Hoc).
    pose proof (all_done_nth _ _ _ I1 H0) as Hd. discriminate.
  - (* Emit *) repeat split; auto; try discriminate.
    intros Hin. apply In_upd in Hin. destruct Hin as [Hin|Hin]; auto. discriminate.
  - (* CloseOut *) repeat split; auto.
Qed.

Lemma inv_reachable : forall n jobs s, steps (init n jobs) s -> inv s.
Proof.
  intros n jobs s H. eapply (steps_ind_inv inv); eauto using inv_step, inv_init.
Qed.

Lemma step_workers_length : forall s s', step s s' ->
  List.length (workers s') = List.length (workers s).
Proof.
  intros s s' [c H]. inversion H; subst; simpl; auto using upd_length.
Qed.

Lemma workers_length_reachable : forall n jobs s, steps (init n jobs) s ->
  List.length (workers s) = n.
Proof.
  intros n jobs s H.
  apply (steps_ind_inv (fun s => List.length (workers s) = n)) with (s := init n jobs); auto.
  - intros s1 s2 H1 H2. rewrite (step_workers_length _ _ H2). exact H1.
  - simpl. apply repeat_length.
Qed.

(** the three invariants as separate statements *)
Lemma out_closed_all_done : forall n jobs s, steps (init n jobs) s ->
  out_closed s = true -> all_done (workers s) = true.
Proof. intros n jobs s H. apply (inv_reachable _ _ _ H). Qed.

Lemma in_closed_no_pending : forall n jobs s, steps (init n jobs) s ->
  in_closed s = true -> pending s = [].
Proof. intros n jobs s H. apply (inv_reachable _ _ _ H). Qed.

Lemma done_worker_in_closed : forall n jobs s, steps (init n jobs) s ->
  In WDone (workers s) -> in_closed s = true.
Proof. intros n jobs s H. apply (inv_reachable _ _ _ H). Qed.

(** on a complete run with at least one worker nothing is held or pending *)
Lemma final_drained : forall n jobs s, 1 <= n -> steps (init n jobs) s -> final s ->
  holding s = [] /\ pending s = [].
Proof.
  intros n jobs s Hn H Hf.
  destruct (inv_reachable _ _ _ H) as [I1 [I2 I3]].
  pose proof (workers_length_reachable _ _ _ H) as Hl.
  specialize (I1 Hf). split.
  - unfold holding. apply all_done_held. exact I1.
  - apply I2. apply I3.
    destruct (workers s) as [|w ws] eqn:E; simpl in Hl; [lia|].
    rewrite (all_done_In _ w I1); simpl; auto.
Qed.

Theorem pipeline_conserves : forall n jobs s, 1 <= n -> steps (init n jobs) s -> final s ->
  Permutation (printed s) (results jobs).
Proof.
  intros n jobs s Hn H Hf.
  pose proof (pipeline_invariant _ _ _ H) as P.
  destruct (final_drained _ _ _ Hn H Hf) as [Hh Hp].
  rewrite Hh, Hp in P. simpl in P. rewrite app_nil_r in P. exact P.
Qed.

(** * Deadlock freedom *)

(** holds in EVERY non-final state, reachable or not *)
Lemma no_deadlock_any : forall s : pstate, ~ final s -> exists s', step s s'.
Proof.
  intros [pd ic ws pr oc] Hf. unfold final in Hf. simpl in Hf.
  destruct oc; [congruence|].
  destruct (find_notdone ws) as [Ha|[i [w [Hn Hd]]]].
  - eexists. exists CloseOut. constructor. exact Ha.
  - destruct w as [|r|]; try discriminate.
    + (* an idle worker *)
      destruct ic.
      * eexists. exists (Finish i). constructor. exact Hn.
      * destruct pd as [|j rest].
        -- eexists. exists CloseIn. constructor.
        -- eexists. exists (Deliver i). constructor. exact Hn.
    + (* a worker holding a result *)
      eexists. exists (Emit i). econstructor. exact Hn.
Qed.

Theorem pipeline_no_deadlock : forall n jobs s, 1 <= n -> steps (init n jobs) s ->
  ~ final s -> exists s', step s s'.
Proof. intros n jobs s _ _ Hf. apply no_deadlock_any. exact Hf. Qed.

(** a final state has no successor: complete runs are exactly the maximal runs
    (with no workers, CloseIn can still follow CloseOut, hence [1 <= n]) *)
Lemma final_no_step : forall n jobs s s', 1 <= n -> steps (init n jobs) s -> final s -> ~ step s s'.
Proof.
  intros n jobs s s' Hn H Hf [c Hs].
  pose proof (out_closed_all_done _ _ _ H Hf) as Ha.
  pose proof (workers_length_reachable _ _ _ H) as Hl.
  pose proof (done_worker_in_closed _ _ _ H) as Hd.
  rewrite <- Hl in Hn. clear Hl H.
  unfold final in Hf.
  inversion Hs; subst; simpl in *; try discriminate.
  - match goal with Hi : nth_error _ _ = Some WIdle |- _ =>
      pose proof (all_done_nth _ _ _ Ha Hi); discriminate end.
  - destruct ws as [|w ws]; simpl in Hn; [lia|].
    rewrite (all_done_In _ w Ha) in Hd by (simpl; auto).
    specialize (Hd (or_introl eq_refl)). discriminate.
  - match goal with Hi : nth_error _ _ = Some WIdle |- _ =>
      pose proof (all_done_nth _ _ _ Ha Hi); discriminate end.
Qed.

(** * Termination *)

Theorem pipeline_terminates : forall s s', step s s' -> measure s' < measure s.
Proof.
  intros s s' [c H]. inversion H; subst; unfold measure; simpl.
  - pose proof (wsum_upd w_notdone i _ (after_job run j) ws H0) as E1.
    pose proof (wsum_upd w_holding i _ (after_job run j) ws H0) as E2.
    unfold after_job in *. destruct (run j); simpl in *; lia.
  - lia.
  - pose proof (wsum_upd w_notdone i _ WDone ws H0) as E1.
    pose proof (wsum_upd w_holding i _ WDone ws H0) as E2.
    simpl in *. lia.
  - pose proof (wsum_upd w_notdone i _ WIdle ws H0) as E1.
    pose proof (wsum_upd w_holding i _ WIdle ws H0) as E2.
    simpl in *. lia.
  - lia.
Qed.

(** every run from [s] has at most [measure s] steps *)
Theorem pipeline_bounded_runs : forall k s s', nsteps k s s' -> k + measure s' <= measure s.
Proof.
  intros k s s' H. induction H; [lia|].
  apply pipeline_terminates in H. lia.
Qed.

Lemma measure_init : forall n (jobs : list job),
  measure (init n jobs) = 3 * List.length jobs + 2 * n + 2.
Proof.
  intros n jobs. unfold measure, init, wsum; simpl.
  assert (H1 : forall k, list_sum (map w_notdone (repeat WIdle k)) = 2 * k)
    by (induction k; simpl in *; lia).
  assert (H2 : forall k, list_sum (map w_holding (repeat WIdle k)) = 0)
    by (induction k; simpl in *; lia).
  rewrite H1, H2. lia.
Qed.

Lemma nsteps_steps : forall k s s', nsteps k s s' -> steps s s'.
Proof. intros k s s' H. induction H; [apply steps_refl | eapply steps_step; eauto]. Qed.

Lemma steps_nsteps : forall s s', steps s s' -> exists k, nsteps k s s'.
Proof.
  intros s s' H. induction H.
  - exists 0. constructor.
  - destruct IHsteps as [k Hk]. exists (S k). econstructor; eauto.
Qed.

(** from every state some complete run exists (deadlock freedom + termination) *)
Theorem pipeline_can_complete : forall s : pstate, exists s', steps s s' /\ final s'.
Proof.
  intros s. remember (measure s) as m eqn:Hm. revert s Hm.
  induction m as [m IH] using lt_wf_ind. intros s Hm.
  destruct (out_closed s) eqn:E.
  - exists s. split; [apply steps_refl | exact E].
  - destruct (no_deadlock_any s) as [s1 Hs1].
    { unfold final. rewrite E. discriminate. }
    pose proof (pipeline_terminates _ _ Hs1) as Hlt.
    destruct (IH (measure s1)) with (s := s1) as [s2 [H2 F2]]; [lia | reflexivity |].
    exists s2. split; auto. eapply steps_step; eauto.
Qed.

(** * A failing job is isolated *)

Lemma results_drop_bad : forall jobs1 bad jobs2, run bad = None ->
  results (jobs1 ++ bad :: jobs2) = results (jobs1 ++ jobs2).
Proof.
  intros jobs1 bad jobs2 Hb. rewrite !results_app. f_equal.
  unfold Pipeline.results. simpl. rewrite Hb. reflexivity.
Qed.

(** with no workers nothing is ever printed *)
Lemma no_workers_nothing_printed : forall jobs s, steps (init 0 jobs) s ->
  workers s = [] /\ printed s = [].
Proof.
  intros jobs s H.
  apply (steps_ind_inv (fun s => workers s = [] /\ printed s = [])) with (s := init 0 jobs); auto.
  intros s1 s2 [Hw Hp] [c Hs]. inversion Hs; subst; simpl in *; subst; auto;
    destruct i; discriminate.
Qed.

(** the batches printed on two complete runs of the same or of [results]-equal
    job lists agree up to order, for any number of workers *)
Lemma complete_runs_agree : forall n jobs jobs' s s',
  results jobs = results jobs' ->
  steps (init n jobs) s -> final s -> steps (init n jobs') s' -> final s' ->
  Permutation (printed s) (printed s').
Proof.
  intros n jobs jobs' s s' HR H Hf H' Hf'.
  destruct n as [|n].
  - destruct (no_workers_nothing_printed _ _ H) as [_ P1].
    destruct (no_workers_nothing_printed _ _ H') as [_ P2].
    rewrite P1, P2. constructor.
  - eapply perm_trans.
    + apply (pipeline_conserves (S n) jobs s); auto. lia.
    + rewrite HR. apply Permutation_sym.
      apply (pipeline_conserves (S n) jobs' s'); auto. lia.
Qed.

Theorem bad_job_isolated : forall n jobs1 bad jobs2 s s', run bad = None ->
  steps (init n (jobs1 ++ bad :: jobs2)) s -> final s ->
  steps (init n (jobs1 ++ jobs2)) s' -> final s' -> Permutation (printed s) (printed s').
Proof.
  intros n jobs1 bad jobs2 s s' Hb H Hf H' Hf'.
  apply (complete_runs_agree n (jobs1 ++ bad :: jobs2) (jobs1 ++ jobs2)); auto.
  apply results_drop_bad. exact Hb.
Qed.

(** the multiset of printed LINES is the same on every complete run *)
Theorem pipeline_lines_multiset : forall n jobs s s', 1 <= n ->
  steps (init n jobs) s -> final s -> steps (init n jobs) s' -> final s' ->
  Permutation (List.concat (printed s)) (List.concat (printed s')).
Proof.
  intros n jobs s s' _ H Hf H' Hf'. apply Permutation_concat.
  apply (complete_runs_agree n jobs jobs); auto.
Qed.

(** and it is the multiset of the lines of the successful jobs *)
Theorem pipeline_lines_conserved : forall n jobs s, 1 <= n ->
  steps (init n jobs) s -> final s ->
  Permutation (List.concat (printed s)) (List.concat (results jobs)).
Proof.
  intros n jobs s Hn H Hf. apply Permutation_concat.
  eapply pipeline_conserves; eauto.
Qed.

(** * The executable scheduler *)

Lemma try_step_sound : forall c s s', try_step run c s = Some s' -> lstep c s s'.
Proof.
  intros c [pd ic ws pr oc] s' H. destruct c; simpl in H.
  - destruct pd as [|j rest]; try discriminate.
    destruct ic; try discriminate.
    destruct (nth_error ws i) as [[|r|]|] eqn:E; try discriminate.
    inversion H. constructor. exact E.
  - destruct pd; try discriminate. destruct ic; try discriminate.
    inversion H. constructor.
  - destruct ic; try discriminate.
    destruct (nth_error ws i) as [[|r|]|] eqn:E; try discriminate.
    inversion H. constructor. exact E.
  - destruct oc; try discriminate.
    destruct (nth_error ws i) as [[|r|]|] eqn:E; try discriminate.
    inversion H. constructor. exact E.
  - destruct oc; simpl in H; try discriminate.
    destruct (all_done ws) eqn:E; try discriminate.
    inversion H. constructor. exact E.
Qed.

Lemma try_step_complete : forall c s s', lstep c s s' -> try_step run c s = Some s'.
Proof.
  intros c s s' H. inversion H; subst; simpl; try rewrite H0; reflexivity.
Qed.

Theorem try_step_iff : forall c s s', try_step run c s = Some s' <-> lstep c s s'.
Proof. split; [apply try_step_sound | apply try_step_complete]. Qed.

Lemma exec_choice_sound : forall c s, steps s (exec_choice run s c).
Proof.
  intros c s. unfold exec_choice. destruct (try_step run c s) eqn:E.
  - apply steps_one. exists c. apply try_step_sound. exact E.
  - apply steps_refl.
Qed.

Lemma exec_choices_sound : forall sched s, steps s (exec_choices run sched s).
Proof.
  unfold exec_choices. induction sched as [|c sched IH]; intros s; simpl.
  - apply steps_refl.
  - eapply steps_trans; [apply exec_choice_sound | apply IH].
Qed.

Theorem exec_sound : forall sched s, steps s (exec run sched s).
Proof. intros. unfold exec. apply exec_choices_sound. Qed.

(** every reachable state is produced by some schedule, so testing [exec]
    over schedules explores exactly the reachable states *)
Lemma decode_encode : forall c, exists k, decode k = c.
Proof.
  assert (D : forall i r, r < 5 -> (i * 5 + r) mod 5 = r /\ (i * 5 + r) / 5 = i).
  { intros i r Hr. split.
    - rewrite Nat.add_comm, Nat.mod_add by lia. apply Nat.mod_small. exact Hr.
    - rewrite Nat.add_comm, Nat.div_add by lia. rewrite Nat.div_small by exact Hr. reflexivity. }
  intros [i| |i|i|].
  - exists (i * 5 + 0). unfold decode. destruct (D i 0) as [-> ->]; [lia|]. reflexivity.
  - exists 1. reflexivity.
  - exists (i * 5 + 2). unfold decode. destruct (D i 2) as [-> ->]; [lia|]. reflexivity.
  - exists (i * 5 + 3). unfold decode. destruct (D i 3) as [-> ->]; [lia|]. reflexivity.
  - exists 4. reflexivity.
Qed.

Theorem exec_complete : forall s s', steps s s' -> exists sched, exec run sched s = s'.
Proof.
  intros s s' H. induction H.
  - exists []. reflexivity.
  - destruct H as [c Hc]. destruct IHsteps as [sched Hs].
    destruct (decode_encode c) as [k Hk].
    exists (k :: sched). unfold exec, exec_choices in *. simpl.
    rewrite Hk. unfold exec_choice at 2. rewrite (try_step_complete _ _ _ Hc). exact Hs.
Qed.

End PipelineProofs.

(** * Non-vacuity: concrete complete runs *)

Module PipelineExample.
  (** three jobs; job 1 fails *)
  Definition run1 (j : nat) : option (list bytes) :=
    if Nat.eqb j 1 then None else Some [[j]; [j; j]].
  Definition jobs1 : list nat := [0; 1; 2].

  (** Deliver 0, Deliver 1 (fails), Deliver 1, CloseIn, Emit 1, Emit 0,
      Finish 0, Finish 1, CloseOut *)
  Definition schedA : list nat := [0; 5; 5; 1; 8; 3; 2; 7; 4].
  (** the other emission order, with some disabled choices that are skipped *)
  Definition schedB : list nat := [4; 0; 2; 5; 5; 1; 1; 3; 8; 9; 7; 2; 4].
  (** a single worker does everything *)
  Definition schedC : list nat := [0; 3; 0; 0; 3; 1; 2; 4].

  Example runA_final : final (exec run1 schedA (init 2 jobs1)).
  Proof. reflexivity. Qed.
  Example runA_printed :
    printed (exec run1 schedA (init 2 jobs1)) = [[[2]; [2; 2]]; [[0]; [0; 0]]].
  Proof. reflexivity. Qed.
  Example runB_final : final (exec run1 schedB (init 2 jobs1)).
  Proof. reflexivity. Qed.
  Example runB_printed :
    printed (exec run1 schedB (init 2 jobs1)) = [[[0]; [0; 0]]; [[2]; [2; 2]]].
  Proof. reflexivity. Qed.
  Example runC_final : final (exec run1 schedC (init 1 jobs1)).
  Proof. reflexivity. Qed.
  Example results1 : results run1 jobs1 = [[[0]; [0; 0]]; [[2]; [2; 2]]].
  Proof. reflexivity. Qed.

  (** so the hypotheses of the theorems are satisfiable: a complete run exists *)
  Example complete_run_exists :
    exists s, steps run1 (init 2 jobs1) s /\ final s /\
              Permutation (printed s) (results run1 jobs1).
  Proof.
    exists (exec run1 schedA (init 2 jobs1)). split; [apply exec_sound|]. split; [reflexivity|].
    apply (pipeline_conserves nat run1 2 jobs1); [lia | apply exec_sound | reflexivity].
  Qed.

  (** the two runs really print in different orders: only the multiset is fixed *)
  Example order_not_fixed :
    printed (exec run1 schedA (init 2 jobs1)) <> printed (exec run1 schedB (init 2 jobs1)).
  Proof. discriminate. Qed.

  (** with NO worker the conservation theorem fails, so [1 <= n] is needed *)
  Example zero_workers_lose_jobs :
    final (exec run1 [4] (init 0 jobs1)) /\ printed (exec run1 [4] (init 0 jobs1)) = [].
  Proof. split; reflexivity. Qed.
End PipelineExample.

Print Assumptions pipeline_conserves.
Print Assumptions pipeline_invariant.
Print Assumptions pipeline_no_deadlock.
Print Assumptions pipeline_terminates.
Print Assumptions pipeline_bounded_runs.
Print Assumptions pipeline_can_complete.
Print Assumptions bad_job_isolated.
Print Assumptions pipeline_lines_multiset.
Print Assumptions exec_sound.
Print Assumptions exec_complete.
Print Assumptions PipelineExample.complete_run_exists.
