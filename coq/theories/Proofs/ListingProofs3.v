(** Listing, stage C: the sequences emitted for one bucket cover exactly the
    bucket's files. *)
From Coq Require Import Permutation Sorted.
From GFS Require Import Base Dec Regex GenRegex GenPadTables Ranges Pad FrameSet Compress Path Seq Listing
  SpecRange SpecSeq RegexKit RangeRegex DecProofs PadProofs SplitProofs CompressProofs Glue
  FramePathProofs SpecListing ListingProofs1 ListingProofs2.
Local Open Scope nat_scope.

(** * what is known about a bucket key and about one of its frames *)

Record key_ok (d x base ext : bytes) : Prop := mkKO {
  ko_dir : dir_ok d = true;
  ko_x : x = [] \/ (x = [92] /\ d <> []);
  ko_base47 : no_byte 47 base = true;
  ko_ext47 : no_byte 47 ext = true;
  ko_nl : no_byte 10 (d ++ x ++ base) = true;
  ko_tok : no_token (d ++ x ++ base) = true;
  ko_ext : ext_shape ext;
  ko_extnl : no_byte 10 ext = true }.

Record frame_ok (d x base ext : bytes) (fi : finfo) : Prop := mkFO {
  fo_num : numeral (f_text fi);
  fo_nz : not_neg_zero (f_text fi);
  fo_atoi : atoi (f_text fi) = Some (f_num fi);
  fo_small : small (f_num fi);
  fo_minw : f_minw fi = frame_min_size (f_text fi);
  fo_opt : submatches R_optionalFramePattern (base ++ f_text fi ++ ext) 3 = Some [base; f_text fi; ext];
  fo_tok : no_token (d ++ x ++ base ++ f_text fi ++ ext) = true;
  fo_bytes : is_bytes (base ++ f_text fi ++ ext) }.

Definition fpath (d base ext : bytes) (fi : finfo) : bytes := d ++ base ++ f_text fi ++ ext.

(** the frame text is what the group's width prints *)
Definition recon (w : Z) (fi : finfo) : Prop :=
  (blen (f_text fi) = w \/ (w < blen (f_text fi) /\ f_minw fi = 1))%Z.

Lemma x_no_slash : forall (d x : bytes), x = [] \/ (x = [92] /\ d <> []) -> no_byte 47 x = true.
Proof. intros d x [->|[-> _]]; reflexivity. Qed.

Lemma recon_text : forall d x base ext w fi, frame_ok d x base ext fi -> (1 <= w)%Z -> recon w fi ->
  zfill_int (f_num fi) w = f_text fi.
Proof.
  intros d x base ext w fi F Hw R. apply group_reconstruct.
  - apply (fo_num _ _ _ _ _ F).
  - apply (fo_nz _ _ _ _ _ F).
  - apply (fo_atoi _ _ _ _ _ F).
  - exact Hw.
  - unfold recon in R. rewrite (fo_minw _ _ _ _ _ F) in R. exact R.
Qed.

Lemma NoDup_map_factor : forall (A B C : Type) (f : A -> B) (g : A -> C) (h : B -> C) (l : list A),
  (forall a, In a l -> g a = h (f a)) -> NoDup (map g l) -> NoDup (map f l).
Proof.
  intros A B C f g h l. induction l as [|a l IH]; intros Hg Hn; cbn [map] in *; [constructor|].
  inversion Hn as [|y l' Hy Hl]; subst. constructor.
  - intros Hin. apply in_map_iff in Hin. destruct Hin as (b & Hb & Hbl).
    apply Hy. apply in_map_iff. exists b. split; [|exact Hbl].
    rewrite (Hg b (or_intror Hbl)), (Hg a (or_introl eq_refl)), Hb. reflexivity.
  - apply IH; [|exact Hl]. intros b Hb. apply Hg. right. exact Hb.
Qed.

Lemma NoDup_app_r : forall (A : Type) (l1 l2 : list A), NoDup (l1 ++ l2) -> NoDup l2.
Proof.
  intros A l1 l2 H. induction l1 as [|a l1 IH]; [exact H|].
  cbn [app] in H. inversion H. apply IH. assumption.
Qed.

Lemma NoDup_app_l : forall (A : Type) (l1 l2 : list A), NoDup (l1 ++ l2) -> NoDup l1.
Proof.
  intros A l1 l2 H. induction l1 as [|a l1 IH]; [constructor|].
  cbn [app] in H. inversion H as [|y l Hy Hl]; subst. constructor.
  - intros Hin. apply Hy. apply in_or_app. left. exact Hin.
  - apply IH. exact Hl.
Qed.

Lemma NoDup_app_disj : forall (A : Type) (l1 l2 : list A) a, NoDup (l1 ++ l2) -> In a l1 -> In a l2 -> False.
Proof.
  intros A l1 l2 a H H1 H2. induction l1 as [|b l1 IH]; [destruct H1|].
  cbn [app] in H. inversion H as [|y l Hy Hl]; subst. destruct H1 as [->|H1].
  - apply Hy. apply in_or_app. right. exact H2.
  - apply IH; assumption.
Qed.

Lemma pad_choice : forall (base P : bytes),
  let pad := match base with
             | [] => P
             | _ :: _ => if last_byte_is_digit_before base then [] else P
             end in
  pad = P \/ pad = [].
Proof.
  intros base P. destruct base as [|b0 b']; [left; reflexivity|].
  cbv zeta. destruct (last_byte_is_digit_before (b0 :: b')); [right|left]; reflexivity.
Qed.

(** * one group *)

Section Bucket.
Variables (o : lopts) (d x base ext : bytes).
Hypothesis KO : key_ok d x base ext.

Lemma emit_group : forall cur w, cur <> [] -> (1 <= w)%Z ->
  Forall (frame_ok d x base ext) cur -> Forall (recon w) cur -> NoDup (map f_text cur) ->
  exists fr q, frames_to_frame_range (map f_num cur) true 0%Z = Ok fr /\
    append_seq o (d ++ x) base fr (padding_chars (o_style o) w) ext = Ok q /\
    Permutation (q_paths q) (map (fpath d base ext) cur).
Proof.
  intros cur w Hne Hw HF HR HN.
  assert (Htxt : forall fi, In fi cur -> f_text fi = zfill_int (f_num fi) w).
  { intros fi Hin. rewrite Forall_forall in HF, HR. symmetry.
    apply (recon_text d x base ext); [apply HF|exact Hw|apply HR]; exact Hin. }
  assert (ND : NoDup (map f_num cur)).
  { apply (NoDup_map_factor _ _ _ f_num f_text (fun v => zfill_int v w)); assumption. }
  assert (SM : Forall small (map f_num cur)).
  { apply Forall_map. eapply Forall_impl; [|exact HF]. intros fi F. apply (fo_small _ _ _ _ _ F). }
  assert (Hl : map f_num cur <> []) by (destruct cur; [congruence|discriminate]).
  destruct (f2r_right_inverse_proof (map f_num cur) true 0%Z ND SM) as (fr & Hfr & _ & _).
  assert (Hsl : no_byte 47 (x ++ base) = true).
  { rewrite no_byte_app, (x_no_slash d x (ko_x _ _ _ _ KO)), (ko_base47 _ _ _ _ KO). reflexivity. }
  destruct (append_seq_pad o d x base ext (map f_num cur) fr w
              (ko_dir _ _ _ _ KO) Hsl (ko_nl _ _ _ _ KO) (ko_tok _ _ _ _ KO)
              (ko_ext _ _ _ _ KO) (ko_extnl _ _ _ _ KO) Hl ND SM Hfr Hw) as (f & Hq & Hfs).
  exists fr. eexists. split; [exact Hfr|]. split; [exact Hq|].
  unfold q_paths. cbn [q_fs]. rewrite Hfs.
  apply Permutation_trans with (map (q_frame_int (mkQ d base ext (padding_chars (o_style o) w) w (Some f) (o_style o)))
                                    (map f_num cur)).
  - apply Permutation_map. apply Permutation_sym. apply zsort_perm.
  - rewrite map_map. apply Permutation_refl'. apply map_ext_in. intros fi Hin.
    unfold q_frame_int, fpath. cbn [q_dir q_base q_fs q_zfill q_ext].
    rewrite <- (Htxt fi Hin). reflexivity.
Qed.

(** * the walk over the sorted frames *)

Definition len_le (a b : finfo) : Prop := (blen (f_text a) <= blen (f_text b))%Z.

Lemma group_walk_spec : forall fis cur w out,
  (1 <= w)%Z -> Forall (frame_ok d x base ext) (cur ++ fis) -> Forall (recon w) cur ->
  NoDup (map f_text (cur ++ fis)) ->
  StronglySorted len_le fis -> Forall (fun fi => (w <= blen (f_text fi))%Z) fis ->
  (cur = [] -> match fis with [] => True | fi :: _ => blen (f_text fi) = w end) ->
  exists qs,
    group_walk o (d ++ x) base ext fis w (padding_chars (o_style o) w) (map f_num cur) out = Ok (out ++ qs) /\
    Permutation (flat_map q_paths qs) (map (fpath d base ext) (cur ++ fis)).
Proof.
  induction fis as [|fi rest IH]; intros cur w out Hw HF HR HN HS HW H0.
  - rewrite app_nil_r in *. cbn [group_walk]. destruct cur as [|c0 cur'].
    + exists []. rewrite app_nil_r. split; [reflexivity|apply perm_nil].
    + destruct (emit_group (c0 :: cur') w ltac:(discriminate) Hw HF HR HN) as (fr & q & Hfr & Hq & Hp).
      cbn [map] in *. rewrite Hfr. cbn [bind]. rewrite Hq. cbn [bind].
      exists [q]. split; [reflexivity|]. cbn [flat_map]. rewrite app_nil_r. exact Hp.
  - cbn [group_walk].
    assert (HFfi : frame_ok d x base ext fi).
    { rewrite Forall_forall in HF. apply HF. apply in_or_app. right. left. reflexivity. }
    inversion HS as [|a l HSrest HLe]; subst a l.
    inversion HW as [|a l Hwfi HWrest]; subst a l.
    destruct (negb (blen (f_text fi) =? w)%Z && (f_minw fi >? w)%Z) eqn:Eb.
    + (* a new group starts *)
      apply andb_true_iff in Eb. destruct Eb as [E1 E2].
      apply negb_true_iff, Z.eqb_neq in E1.
      assert (Hcur : cur <> []). { intros ->. apply E1. apply H0. reflexivity. }
      assert (HFc : Forall (frame_ok d x base ext) cur) by (apply Forall_app in HF; apply HF).
      assert (HNc : NoDup (map f_text cur)).
      { rewrite map_app in HN. apply NoDup_app_l in HN. exact HN. }
      destruct (emit_group cur w Hcur Hw HFc HR HNc) as (fr & q & Hfr & Hq & Hp).
      rewrite Hfr. cbn [bind]. rewrite Hq. cbn [bind].
      set (w' := blen (f_text fi)).
      assert (Hw' : (1 <= w')%Z).
      { apply numeral_length_pos. apply (fo_num _ _ _ _ _ HFfi). }
      destruct (IH [fi] w' (out ++ [q]) Hw') as (qs & Hqs & Hpq).
      * apply Forall_app in HF. apply HF.
      * constructor; [|constructor]. left. reflexivity.
      * rewrite map_app in HN. apply NoDup_app_r in HN. exact HN.
      * exact HSrest.
      * exact HLe.
      * intros E. discriminate E.
      * cbn [map] in Hqs. rewrite Hqs. exists (q :: qs). split; [rewrite <- app_assoc; reflexivity|].
        cbn [flat_map]. rewrite map_app. apply Permutation_app; [exact Hp|exact Hpq].
    + (* the frame joins the current group *)
      assert (HRfi : recon w fi).
      { unfold recon. apply andb_false_iff in Eb. destruct Eb as [E|E].
        - left. apply negb_false_iff, Z.eqb_eq in E. exact E.
        - destruct (Z.eq_dec (blen (f_text fi)) w) as [Ew|Ew]; [left; exact Ew|right].
          rewrite Z.gtb_ltb in E. apply Z.ltb_ge in E.
          pose proof (fo_minw _ _ _ _ _ HFfi) as Hm. unfold frame_min_size in Hm.
          destruct (blen (f_text fi) =? blen (itoa (atoi_or_0 (f_text fi))))%Z; lia. }
      destruct (IH (cur ++ [fi]) w out Hw) as (qs & Hqs & Hpq).
      * rewrite <- app_assoc. exact HF.
      * apply Forall_app. split; [exact HR|]. constructor; [exact HRfi|constructor].
      * rewrite <- app_assoc. exact HN.
      * exact HSrest.
      * exact HWrest.
      * intros E. destruct cur; discriminate E.
      * rewrite map_app in Hqs. cbn [map] in Hqs. exists qs. split; [exact Hqs|].
        rewrite <- app_assoc in Hpq. exact Hpq.
Qed.

(** * the stable sort by length *)

Lemma fi_insert_perm : forall a l, Permutation (a :: l) (fi_insert a l).
Proof.
  intros a l. induction l as [|y r IH]; cbn [fi_insert]; [apply Permutation_refl|].
  destruct (blen (f_text a) <=? blen (f_text y))%Z; [apply Permutation_refl|].
  eapply Permutation_trans; [apply perm_swap|]. apply perm_skip. exact IH.
Qed.

Lemma fi_sort_perm : forall l, Permutation l (fi_sort l).
Proof.
  induction l as [|a l IH]; [apply perm_nil|]. cbn [fi_sort fold_right].
  eapply Permutation_trans; [apply perm_skip; exact IH|]. apply fi_insert_perm.
Qed.

Lemma fi_insert_sorted : forall a l, StronglySorted len_le l -> StronglySorted len_le (fi_insert a l).
Proof.
  intros a l H. induction H as [|y r Hr IH Hy]; cbn [fi_insert].
  - constructor; constructor.
  - destruct (Z.leb_spec (blen (f_text a)) (blen (f_text y))) as [L|L].
    + constructor; [constructor; assumption|]. constructor; [exact L|].
      eapply Forall_impl; [|exact Hy]. intros b Hb. unfold len_le in *. lia.
    + constructor; [exact IH|].
      eapply Permutation_Forall; [apply fi_insert_perm|]. constructor; [|exact Hy].
      unfold len_le. lia.
Qed.

Lemma fi_sort_sorted : forall l, StronglySorted len_le (fi_sort l).
Proof.
  induction l as [|a l IH]; [constructor|]. cbn [fi_sort fold_right]. apply fi_insert_sorted. exact IH.
Qed.

(** * the bucket *)

Lemma padding_chars_nonempty : forall st w, (1 <= w)%Z -> padding_chars st w <> [].
Proof.
  intros st w Hw E. pose proof (padding_chars_token st w Hw) as H. rewrite E in H. discriminate H.
Qed.

Lemma single_with_pad : forall fi, frame_ok d x base ext fi ->
  exists q, append_seq o (d ++ x) base (itoa (f_num fi))
              (padding_chars (o_style o) (blen (f_text fi))) ext = Ok q /\
            q_paths q = [fpath d base ext fi].
Proof.
  intros fi F. set (w := blen (f_text fi)).
  assert (Hw : (1 <= w)%Z) by (apply numeral_length_pos; apply (fo_num _ _ _ _ _ F)).
  assert (Hsl : no_byte 47 (x ++ base) = true).
  { rewrite no_byte_app, (x_no_slash d x (ko_x _ _ _ _ KO)), (ko_base47 _ _ _ _ KO). reflexivity. }
  destruct (append_seq_pad o d x base ext [f_num fi] (itoa (f_num fi)) w
              (ko_dir _ _ _ _ KO) Hsl (ko_nl _ _ _ _ KO) (ko_tok _ _ _ _ KO)
              (ko_ext _ _ _ _ KO) (ko_extnl _ _ _ _ KO) ltac:(discriminate)) as (f & Hq & Hfs).
  - constructor; [intros []|constructor].
  - constructor; [apply (fo_small _ _ _ _ _ F)|constructor].
  - reflexivity.
  - exact Hw.
  - eexists. split; [exact Hq|]. unfold q_paths. cbn [q_fs]. rewrite Hfs.
    change (zsort [f_num fi]) with [f_num fi]. cbn [map]. unfold q_frame_int, fpath.
    cbn [q_dir q_base q_fs q_zfill q_ext]. unfold w, blen.
    rewrite zfill_int_reconstruct; [reflexivity|apply (fo_num _ _ _ _ _ F)| |apply (fo_nz _ _ _ _ _ F)].
    apply atoi_some_big. apply (fo_atoi _ _ _ _ _ F).
Qed.

Lemma single_plain : forall fi, frame_ok d x base ext fi ->
  exists q, append_seq o (d ++ x) base (f_text fi) [] ext = Ok q /\
            q_paths q = [fpath d base ext fi].
Proof.
  intros fi F. set (t := f_text fi). set (n := base ++ t ++ ext).
  assert (Hsl : no_byte 47 (x ++ n) = true).
  { unfold n. rewrite !no_byte_app, (x_no_slash d x (ko_x _ _ _ _ KO)), (ko_base47 _ _ _ _ KO),
      (ko_ext47 _ _ _ _ KO), (numeral_no_slash t (fo_num _ _ _ _ _ F)). reflexivity. }
  assert (Hnl : no_byte 10 n = true).
  { pose proof (ko_nl _ _ _ _ KO) as H. rewrite !no_byte_app in H.
    apply andb_true_iff in H. destruct H as [_ H]. apply andb_true_iff in H. destruct H as [_ H].
    unfold n. rewrite !no_byte_app, H, (ko_extnl _ _ _ _ KO), andb_true_r. cbn [andb].
    unfold no_byte. apply negb_true_iff.
    destruct (existsb (Nat.eqb 10) t) eqn:E; [|reflexivity].
    apply existsb_exists in E. destruct E as (y & Hin & Hy). apply Nat.eqb_eq in Hy. subst y.
    pose proof (numeral_avoids t 10 (fo_num _ _ _ _ _ F) ltac:(lia) eq_refl) as A.
    rewrite Forall_forall in A. exfalso. exact (A 10 Hin eq_refl). }
  destruct (plain_entry (o_style o) d x n base t ext (ko_dir _ _ _ _ KO) Hsl (ko_x _ _ _ _ KO)
              (fo_tok _ _ _ _ _ F) Hnl (fo_bytes _ _ _ _ _ F) (fo_opt _ _ _ _ _ F)) as (q & Hq & Hp).
  - intros _. split; [apply (fo_nz _ _ _ _ _ F)|]. exists (f_num fi). apply (fo_atoi _ _ _ _ _ F).
  - exists (force_parts q base ext t). split; [|exact Hp].
    unfold append_seq. cbn [app].
    replace ((d ++ x) ++ base ++ t ++ ext) with (d ++ x ++ n)
      by (unfold n; rewrite <- !app_assoc; reflexivity).
    rewrite Hq. reflexivity.
Qed.

Theorem emit_bucket_spec : forall s,
  s_frames s <> [] -> Forall (frame_ok d x base ext) (s_frames s) ->
  NoDup (map f_text (s_frames s)) ->
  (forall fi, s_frames s = [fi] -> s_padding s = padding_chars (o_style o) (blen (f_text fi))) ->
  exists qs, emit_bucket o (d ++ x, base, ext) s = Ok qs /\
    Permutation (flat_map q_paths qs) (map (fpath d base ext) (s_frames s)).
Proof.
  intros s Hne HF HN Hpad. unfold emit_bucket.
  destruct (s_frames s) as [|f1 [|f2 r]] eqn:Efr; [congruence| |].
  - (* one frame *)
    inversion HF as [|a l F1 _]; subst a l.
    rewrite (Hpad f1 eq_refl).
    assert (Hw : (1 <= blen (f_text f1))%Z) by (apply numeral_length_pos; apply (fo_num _ _ _ _ _ F1)).
    pose proof (padding_chars_nonempty (o_style o) _ Hw) as Hpne.
    assert (WithPad : exists qs,
      (do q <- append_seq o (d ++ x) base
                 match padding_chars (o_style o) (blen (f_text f1)) with
                 | [] => f_text f1 | _ :: _ => itoa (f_num f1) end
                 (padding_chars (o_style o) (blen (f_text f1))) ext; Ok [q]) = Ok qs /\
      Permutation (flat_map q_paths qs) (map (fpath d base ext) [f1])).
    { destruct (single_with_pad f1 F1) as (q & Hq & Hp).
      destruct (padding_chars (o_style o) (blen (f_text f1))) as [|pc pr] eqn:Epc; [congruence|].
      rewrite Hq. cbn [bind]. exists [q]. split; [reflexivity|].
      cbn [flat_map map]. rewrite app_nil_r, Hp. apply Permutation_refl. }
    cbv zeta.
    destruct (pad_choice base (padding_chars (o_style o) (blen (f_text f1)))) as [E|E];
      cbv zeta in E; rewrite E; [exact WithPad|].
    destruct (single_plain f1 F1) as (q & Hq & Hp).
    rewrite Hq. cbn [bind]. exists [q]. split; [reflexivity|].
    cbn [flat_map map]. rewrite app_nil_r, Hp. apply Permutation_refl.
  - (* several frames *)
    set (fr := f1 :: f2 :: r) in *.
    pose proof (fi_sort_perm fr) as P. pose proof (fi_sort_sorted fr) as S.
    destruct (fi_sort fr) as [|f0 srest] eqn:Es.
    { apply Permutation_sym, Permutation_nil in P. subst fr. discriminate P. }
    assert (HF0 : Forall (frame_ok d x base ext) (f0 :: srest)) by (eapply Permutation_Forall; eassumption).
    inversion HF0 as [|a l F0 _]; subst a l.
    destruct (group_walk_spec (f0 :: srest) [] (blen (f_text f0)) []) as (qs & Hqs & Hp).
    + apply numeral_length_pos. apply (fo_num _ _ _ _ _ F0).
    + exact HF0.
    + constructor.
    + cbn [app]. eapply Permutation_NoDup; [apply Permutation_map; exact P|exact HN].
    + exact S.
    + inversion S as [|a l _ HLe]; subst a l. constructor; [lia|exact HLe].
    + intros _. reflexivity.
    + cbn [map app] in Hqs. exists qs. split; [exact Hqs|].
      eapply Permutation_trans; [exact Hp|]. cbn [app]. apply Permutation_map. apply Permutation_sym. exact P.
Qed.

End Bucket.

Print Assumptions emit_bucket_spec.
