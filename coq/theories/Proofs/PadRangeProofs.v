(** PadFrameRange: zero-padding a frame-range string changes nothing but
    leading zeros.  The model ([pad_frame_range], Model/Pad.v) is related to
    the independent grammar of Spec/SpecRange.v: the padded text denotes the
    same frame list (or both texts are outside the grammar). *)
From GFS Require Import Base Dec Pad SpecRange RegexKit RangeRegex DecProofs.

(** what padding does to one comma-separated component, regex-free *)
Definition pad_comp (w : Z) (p : bytes) : bytes :=
  match tcomp p with
  | Some [a] => zfill_string a w
  | Some [a; b] => zfill_string a w ++ c_minus :: zfill_string b w
  | Some [a; b; md; n] => zfill_string a w ++ c_minus :: zfill_string b w ++ md ++ n
  | _ => p        (* a component that is not a range is passed through in its place *)
  end.

Lemma pad_part_pad_comp : forall p w, pad_part p w = pad_comp w p.
Proof. intros p w. apply pad_part_char. Qed.

(** * scanning a numeral *)

(** the rest of the text does not continue a digit run *)
Definition stop (rest : bytes) : Prop :=
  match rest with [] => True | c :: _ => is_digit c = false end.

Lemma stop_nil : stop [].
Proof. exact I. Qed.

Lemma stop_minus : forall r, stop (45 :: r).
Proof. intros r. reflexivity. Qed.

Lemma span_len_digits_app : forall a rest, all_digits a -> stop rest ->
  span_len is_digit (a ++ rest) = List.length a.
Proof.
  intros a rest H S. induction a as [|c a IH]; cbn [app span_len List.length].
  - destruct rest as [|d r]; [reflexivity|]. cbn [span_len]. cbn in S. rewrite S. reflexivity.
  - apply all_digits_cons in H. destruct H as [Hc Ha]. rewrite Hc, IH by exact Ha. reflexivity.
Qed.

Lemma num_len_numeral_app : forall a rest, numeral a -> stop rest ->
  num_len (a ++ rest) = List.length a.
Proof.
  intros a rest N S. destruct (numeral_inv a N) as [[ds [-> [A B]]]|[A [B C]]].
  - cbn [app]. rewrite num_len_eq. cbn [Nat.eqb List.length].
    rewrite span_len_digits_app by assumption.
    destruct ds as [|d ds]; [congruence|]. reflexivity.
  - destruct a as [|c r]; [congruence|]. cbn [app]. rewrite num_len_eq.
    pose proof B as B'. apply all_digits_cons in B'. destruct B' as [Hc _].
    rewrite (digit_not_dash c Hc).
    change (c :: r ++ rest) with ((c :: r) ++ rest).
    apply span_len_digits_app; assumption.
Qed.

Lemma numeral_length : forall a, numeral a -> exists n, List.length a = S n.
Proof.
  intros a N. destruct (numeral_inv a N) as [[ds [-> _]]|[A _]].
  - eexists. reflexivity.
  - destruct a as [|c r]; [congruence|]. eexists. reflexivity.
Qed.

(** scanning a numeral followed by a stop: the run is exactly the numeral *)
Lemma scan_numeral : forall a rest, numeral a -> stop rest ->
  exists n, num_len (a ++ rest) = S n /\
            firstn (S n) (a ++ rest) = a /\ skipn (S n) (a ++ rest) = rest.
Proof.
  intros a rest N S. destruct (numeral_length a N) as [n L]. exists n.
  rewrite num_len_numeral_app by assumption. split; [exact L|].
  rewrite <- L. split.
  - rewrite firstn_app, Nat.sub_diag, firstn_all. cbn [firstn]. apply app_nil_r.
  - rewrite skipn_app, Nat.sub_diag, skipn_all. reflexivity.
Qed.

(** conversely the maximal run is a numeral and what follows is a stop *)
Lemma num_len_prefix : forall s n, num_len s = S n ->
  numeral (firstn (S n) s) /\ stop (skipn (S n) s).
Proof.
  intros s n H. rewrite num_len_eq in H. destruct s as [|c r]; [discriminate|].
  destruct (Nat.eqb_spec c 45) as [->|Hc].
  - destruct (span_len is_digit r) as [|k] eqn:E; [discriminate|]. injection H as <-.
    change (firstn (S (S k)) (45 :: r)) with (45 :: firstn (S k) r).
    change (skipn (S (S k)) (45 :: r)) with (skipn (S k) r).
    rewrite <- E. split.
    + apply numeral_neg. split; [eapply span_firstn_nonempty; exact E | apply span_digits].
    + destruct (skipn (span_len is_digit r) r) as [|d t] eqn:E2; [exact I|].
      cbn [stop]. eapply span_len_stop. exact E2.
  - rewrite <- H. split.
    + apply numeral_digits; [eapply span_firstn_nonempty; exact H | apply span_digits].
    + destruct (skipn (span_len is_digit (c :: r)) (c :: r)) as [|d t] eqn:E2; [exact I|].
      cbn [stop]. eapply span_len_stop. exact E2.
Qed.

(** * the shape of a component recognised by [tcomp] *)

Definition is_mod3 (c : byte) : bool := Nat.eqb c 58 || Nat.eqb c 120 || Nat.eqb c 121.

Lemma is_mod3_is_mod : forall c, is_mod3 c = is_mod c.
Proof.
  intros c. unfold is_mod3, is_mod.
  destruct (Nat.eqb c 58), (Nat.eqb c 120), (Nat.eqb c 121); reflexivity.
Qed.

Lemma is_mod3_stop : forall c r, is_mod3 c = true -> stop (c :: r).
Proof.
  intros c r H. cbn [stop]. destruct (is_digit c) eqn:E; [|reflexivity].
  unfold is_mod3 in H. rewrite (digit_not_mod c E) in H. discriminate.
Qed.

Lemma tcomp_build1 : forall a, numeral a -> tcomp a = Some [a].
Proof.
  intros a N. rewrite tcomp_eq.
  destruct (scan_numeral a [] N stop_nil) as [n [E [F S]]].
  rewrite app_nil_r in E, F, S. rewrite E, S, F. reflexivity.
Qed.

Lemma tcomp_build2 : forall a b, numeral a -> numeral b ->
  tcomp (a ++ 45 :: b) = Some [a; b].
Proof.
  intros a b Na Nb. rewrite tcomp_eq.
  destruct (scan_numeral a (45 :: b) Na (stop_minus b)) as [n [E [F S]]].
  rewrite E, S, F. cbn [Nat.eqb].
  destruct (scan_numeral b [] Nb stop_nil) as [n2 [E2 [F2 S2]]].
  rewrite app_nil_r in E2, F2, S2. rewrite E2, S2, F2. reflexivity.
Qed.

Lemma tcomp_build4 : forall a b c n, numeral a -> numeral b -> numeral n -> is_mod3 c = true ->
  tcomp (a ++ 45 :: b ++ c :: n) = Some [a; b; [c]; n].
Proof.
  intros a b c n Na Nb Nn Hc. rewrite tcomp_eq.
  destruct (scan_numeral a (45 :: b ++ c :: n) Na (stop_minus _)) as [n1 [E [F S]]].
  rewrite E, S, F. cbn [Nat.eqb].
  destruct (scan_numeral b (c :: n) Nb (is_mod3_stop c n Hc)) as [n2 [E2 [F2 S2]]].
  rewrite E2, S2, F2. fold (is_mod3 c). rewrite Hc.
  destruct (scan_numeral n [] Nn stop_nil) as [n3 [E3 [F3 S3]]].
  rewrite app_nil_r in E3, F3, S3. rewrite E3, S3, F3. reflexivity.
Qed.

Inductive tshape (p : bytes) : list bytes -> Prop :=
| TS1 : forall a, numeral a -> p = a -> tshape p [a]
| TS2 : forall a b, numeral a -> numeral b -> p = a ++ 45 :: b -> tshape p [a; b]
| TS4 : forall a b c n, numeral a -> numeral b -> numeral n -> is_mod3 c = true ->
        p = a ++ 45 :: b ++ c :: n -> tshape p [a; b; [c]; n].

Lemma some_inj : forall (A : Type) (x y : A), Some x = Some y -> x = y.
Proof. intros A x y H. congruence. Qed.

Lemma tcomp_inv : forall p l, tcomp p = Some l -> tshape p l.
Proof.
  intros p l H. rewrite tcomp_eq in H.
  destruct (num_len p) as [|n1] eqn:E1; [discriminate|].
  destruct (num_len_prefix p n1 E1) as [Na _].
  pose proof (firstn_skipn (S n1) p) as P.
  destruct (skipn (S n1) p) as [|c r2] eqn:S1.
  { apply some_inj in H. subst l. apply TS1; [exact Na|]. rewrite app_nil_r in P. symmetry. exact P. }
  destruct (Nat.eqb_spec c 45) as [->|Hc]; [|discriminate].
  destruct (num_len r2) as [|n2] eqn:E2; [discriminate|].
  destruct (num_len_prefix r2 n2 E2) as [Nb _].
  pose proof (firstn_skipn (S n2) r2) as P2.
  destruct (skipn (S n2) r2) as [|md r3] eqn:S2.
  { apply some_inj in H. subst l. apply TS2; [exact Na | exact Nb |].
    rewrite app_nil_r in P2. rewrite P2. symmetry. exact P. }
  fold (is_mod3 md) in H. destruct (is_mod3 md) eqn:Hm; [|discriminate].
  destruct (num_len r3) as [|n3] eqn:E3; [discriminate|].
  destruct (num_len_prefix r3 n3 E3) as [Nn _].
  pose proof (firstn_skipn (S n3) r3) as P3.
  destruct (skipn (S n3) r3) as [|x r4] eqn:S3; [|discriminate].
  apply some_inj in H. subst l. apply TS4; try assumption.
  rewrite app_nil_r in P3. rewrite P3, P2. symmetry. exact P.
Qed.

Lemma tshape_tcomp : forall p l, tshape p l -> tcomp p = Some l.
Proof.
  intros p l H. destruct H; subst p.
  - apply tcomp_build1; assumption.
  - apply tcomp_build2; assumption.
  - apply tcomp_build4; assumption.
Qed.

(** the two behaviours of [pad_comp] *)
Inductive pad_view (w : Z) (p : bytes) : Prop :=
| PVpass : pad_comp w p = p -> pad_view w p
| PV1 : forall a, numeral a -> p = a -> tcomp p = Some [a] ->
        pad_comp w p = zfill_string a w -> pad_view w p
| PV2 : forall a b, numeral a -> numeral b -> p = a ++ 45 :: b -> tcomp p = Some [a; b] ->
        pad_comp w p = zfill_string a w ++ 45 :: zfill_string b w -> pad_view w p
| PV4 : forall a b c n, numeral a -> numeral b -> numeral n -> is_mod3 c = true ->
        p = a ++ 45 :: b ++ c :: n -> tcomp p = Some [a; b; [c]; n] ->
        pad_comp w p = zfill_string a w ++ 45 :: zfill_string b w ++ c :: n -> pad_view w p.

Lemma pad_comp_view : forall w p, pad_view w p.
Proof.
  intros w p. destruct (tcomp p) as [l|] eqn:E.
  - pose proof (tcomp_inv p l E) as T. destruct T as [a Na Hp|a b Na Nb Hp|a b c n Na Nb Nn Hc Hp].
    + apply (PV1 w p a); try assumption. unfold pad_comp. rewrite E. reflexivity.
    + apply (PV2 w p a b); try assumption. unfold pad_comp. rewrite E. reflexivity.
    + apply (PV4 w p a b c n); try assumption. unfold pad_comp. rewrite E. reflexivity.
  - apply PVpass. unfold pad_comp. rewrite E. reflexivity.
Qed.

(** * theorems about one component *)

Theorem pad_numerals_wide : forall w p a b md n, (2 <= w)%Z ->
  (tcomp p = Some [a] -> tcomp (pad_comp w p) = Some [zfill_string a w]) /\
  (tcomp p = Some [a; b] -> tcomp (pad_comp w p) = Some [zfill_string a w; zfill_string b w]) /\
  (tcomp p = Some [a; b; md; n] ->
   tcomp (pad_comp w p) = Some [zfill_string a w; zfill_string b w; md; n]).
Proof.
  intros w p a b md n _. repeat split; intros E; unfold pad_comp; rewrite E;
    apply tcomp_inv in E; inversion E; subst.
  - apply tcomp_build1. apply zfill_string_numeral. assumption.
  - apply tcomp_build2; apply zfill_string_numeral; assumption.
  - apply (tcomp_build4 (zfill_string a w) (zfill_string b w));
      try apply zfill_string_numeral; assumption.
Qed.

Theorem pad_comp_wide_enough : forall w p a, tcomp p = Some [a] ->
  (w <= Z.of_nat (List.length a))%Z -> pad_comp w p = p.
Proof.
  intros w p a E L. unfold pad_comp. rewrite E.
  apply tcomp_inv in E. inversion E; subst. apply zfill_string_short. exact L.
Qed.

Theorem pad_comp_wide_enough2 : forall w p a b, tcomp p = Some [a; b] ->
  (w <= Z.of_nat (List.length a))%Z -> (w <= Z.of_nat (List.length b))%Z -> pad_comp w p = p.
Proof.
  intros w p a b E La Lb. unfold pad_comp. rewrite E.
  apply tcomp_inv in E. inversion E; subst.
  rewrite !zfill_string_short by assumption. reflexivity.
Qed.

Theorem pad_comp_wide_enough4 : forall w p a b md n, tcomp p = Some [a; b; md; n] ->
  (w <= Z.of_nat (List.length a))%Z -> (w <= Z.of_nat (List.length b))%Z -> pad_comp w p = p.
Proof.
  intros w p a b md n E La Lb. unfold pad_comp. rewrite E.
  apply tcomp_inv in E. inversion E; subst.
  rewrite !zfill_string_short by assumption. reflexivity.
Qed.

Lemma pad_comp_idem : forall w p, pad_comp w (pad_comp w p) = pad_comp w p.
Proof.
  intros w p. destruct (pad_comp_view w p) as [E|a Na Hp T E|a b Na Nb Hp T E|a b c n Na Nb Nn Hc Hp T E].
  - rewrite !E. reflexivity.
  - rewrite E. unfold pad_comp at 1.
    rewrite (tcomp_build1 _ (zfill_string_numeral a w Na)).
    apply zfill_string_idem.
  - rewrite E. unfold pad_comp at 1.
    rewrite (tcomp_build2 _ _ (zfill_string_numeral a w Na) (zfill_string_numeral b w Nb)).
    rewrite !zfill_string_idem. reflexivity.
  - rewrite E. unfold pad_comp at 1.
    rewrite (tcomp_build4 _ _ c n (zfill_string_numeral a w Na) (zfill_string_numeral b w Nb) Nn Hc).
    rewrite !zfill_string_idem. reflexivity.
Qed.

(** * clean texts: no comma, nothing that the spec ignores *)

Definition cleanc (c : byte) : Prop := ignored c = false /\ c <> 44.
Definition clean (p : bytes) : Prop := Forall cleanc p.
Definition nocomma (p : bytes) : Prop := ~ In 44 p.

Lemma clean_nocomma : forall p, clean p -> nocomma p.
Proof.
  intros p H I. unfold clean in H. rewrite Forall_forall in H.
  destruct (H _ I) as [_ X]. congruence.
Qed.

Lemma clean_strip : forall p, clean p -> strip p = p.
Proof.
  intros p H. induction H as [|c r [Hc _] _ IH]; [reflexivity|].
  unfold strip in *. cbn [filter]. rewrite Hc. cbn [negb]. rewrite IH. reflexivity.
Qed.

Lemma digit_cleanc : forall c, is_digit c = true -> cleanc c.
Proof.
  intros c H. split.
  - unfold ignored. rewrite !(is_digit_neq c _ H) by lia. reflexivity.
  - apply is_digit_range in H. lia.
Qed.

Lemma digits_clean : forall ds, all_digits ds -> clean ds.
Proof.
  intros ds H. unfold clean, all_digits in *. eapply Forall_impl; [|exact H].
  exact digit_cleanc.
Qed.

Lemma minus_cleanc : cleanc 45.
Proof. split; [reflexivity | discriminate]. Qed.

Lemma numeral_clean : forall a, numeral a -> clean a.
Proof.
  intros a N. destruct (numeral_inv a N) as [[ds [-> [_ B]]]|[_ [B _]]].
  - constructor; [exact minus_cleanc | apply digits_clean; exact B].
  - apply digits_clean. exact B.
Qed.

Lemma mod_cleanc : forall c, is_mod3 c = true -> cleanc c.
Proof.
  intros c H. unfold is_mod3 in H.
  apply orb_true_iff in H. destruct H as [H|H]; [apply orb_true_iff in H; destruct H as [H|H]|];
    apply Nat.eqb_eq in H; subst c; (split; [reflexivity | discriminate]).
Qed.

Lemma clean2 : forall a b, numeral a -> numeral b -> clean (a ++ 45 :: b).
Proof.
  intros a b Na Nb. apply Forall_app. split; [apply numeral_clean; exact Na|].
  constructor; [exact minus_cleanc | apply numeral_clean; exact Nb].
Qed.

Lemma clean4 : forall a b c n, numeral a -> numeral b -> numeral n -> is_mod3 c = true ->
  clean (a ++ 45 :: b ++ c :: n).
Proof.
  intros a b c n Na Nb Nn Hc. apply Forall_app. split; [apply numeral_clean; exact Na|].
  constructor; [exact minus_cleanc|]. apply Forall_app. split; [apply numeral_clean; exact Nb|].
  constructor; [apply mod_cleanc; exact Hc | apply numeral_clean; exact Nn].
Qed.

Lemma pad_comp_nocomma : forall w p, nocomma p -> nocomma (pad_comp w p).
Proof.
  intros w p H. destruct (pad_comp_view w p) as [E|a Na Hp T E|a b Na Nb Hp T E|a b c n Na Nb Nn Hc Hp T E];
    rewrite E.
  - exact H.
  - apply clean_nocomma, numeral_clean, zfill_string_numeral, Na.
  - apply clean_nocomma, clean2; apply zfill_string_numeral; assumption.
  - apply clean_nocomma, clean4; try apply zfill_string_numeral; assumption.
Qed.

(** * the spec's reading of a recognised component *)

Definition nval (t : bytes) : Z := match atoi_big t with Some v => v | None => 0%Z end.

Lemma atoi_big_nval : forall t, numeral t -> atoi_big t = Some (nval t).
Proof. intros t N. unfold nval. rewrite (atoi_big_numeral t N). reflexivity. Qed.

Lemma nval_zfill : forall t w, numeral t -> nval (zfill_string t w) = nval t.
Proof. intros t w N. unfold nval. rewrite zfill_string_value by exact N. reflexivity. Qed.

Lemma read_int_numeral : forall a rest, numeral a -> stop rest ->
  read_int (a ++ rest) = Some (nval a, rest).
Proof.
  intros a rest N St. rewrite read_int_num_len.
  destruct (scan_numeral a rest N St) as [n [E [F K]]].
  rewrite E. cbv beta match zeta. rewrite F, K, (atoi_big_nval a N). reflexivity.
Qed.

Lemma read_int_numeral_end : forall a, numeral a -> read_int a = Some (nval a, []).
Proof.
  intros a N. pose proof (read_int_numeral a [] N stop_nil) as H.
  rewrite app_nil_r in H. exact H.
Qed.

Lemma parse_comp1 : forall a, numeral a -> parse_comp a = Some (CSingle (nval a)).
Proof. intros a N. unfold parse_comp. rewrite read_int_numeral_end by exact N. reflexivity. Qed.

Lemma parse_comp2 : forall a b, numeral a -> numeral b ->
  parse_comp (a ++ 45 :: b) = Some (CRange (nval a) (nval b)).
Proof.
  intros a b Na Nb. unfold parse_comp.
  rewrite (read_int_numeral a _ Na (stop_minus b)).
  rewrite read_int_numeral_end by exact Nb. reflexivity.
Qed.

Lemma parse_comp4 : forall a b c n, numeral a -> numeral b -> numeral n -> is_mod3 c = true ->
  parse_comp (a ++ 45 :: b ++ c :: n) = Some (CStep (nval a) (nval b) c (nval n)).
Proof.
  intros a b c n Na Nb Nn Hc. unfold parse_comp.
  rewrite (read_int_numeral a _ Na (stop_minus _)).
  rewrite (read_int_numeral b _ Nb (is_mod3_stop c n Hc)).
  rewrite <- is_mod3_is_mod, Hc.
  rewrite read_int_numeral_end by exact Nn. reflexivity.
Qed.

Lemma pad_comp_parse : forall w p,
  parse_comp (strip (pad_comp w p)) = parse_comp (strip p).
Proof.
  intros w p. destruct (pad_comp_view w p) as [E|a Na Hp T E|a b Na Nb Hp T E|a b c n Na Nb Nn Hc Hp T E];
    rewrite E; [reflexivity|..]; subst p.
  - pose proof (zfill_string_numeral a w Na) as Za.
    rewrite !clean_strip by (apply numeral_clean; assumption).
    rewrite !parse_comp1 by assumption. rewrite nval_zfill by exact Na. reflexivity.
  - pose proof (zfill_string_numeral a w Na) as Za.
    pose proof (zfill_string_numeral b w Nb) as Zb.
    rewrite !clean_strip by (apply clean2; assumption).
    rewrite !parse_comp2 by assumption. rewrite !nval_zfill by assumption. reflexivity.
  - pose proof (zfill_string_numeral a w Na) as Za.
    pose proof (zfill_string_numeral b w Nb) as Zb.
    rewrite !clean_strip by (apply clean4; assumption).
    rewrite !parse_comp4 by assumption. rewrite !nval_zfill by assumption. reflexivity.
Qed.

(** * splitting and joining at commas *)

Lemma split_on_nonempty : forall sep s, split_on sep s <> [].
Proof.
  intros sep s. destruct s as [|c r]; cbn [split_on]; [discriminate|].
  destruct (Nat.eqb c sep); [discriminate|]. destruct (split_on sep r); discriminate.
Qed.

Lemma split_on_nocomma : forall p, nocomma p -> split_on 44 p = [p].
Proof.
  intros p. induction p as [|c r IH]; intros H; [reflexivity|].
  cbn [split_on]. destruct (Nat.eqb_spec c 44) as [->|Hc].
  - exfalso. apply H. left. reflexivity.
  - rewrite IH; [reflexivity|]. intros I. apply H. right. exact I.
Qed.

Lemma split_on_app_comma : forall p r, nocomma p ->
  split_on 44 (p ++ 44 :: r) = p :: split_on 44 r.
Proof.
  intros p r. induction p as [|c p IH]; intros H; [reflexivity|].
  cbn [app split_on]. destruct (Nat.eqb_spec c 44) as [->|Hc].
  - exfalso. apply H. left. reflexivity.
  - rewrite IH; [reflexivity|]. intros I. apply H. right. exact I.
Qed.

Lemma split_join : forall l, l <> [] -> Forall nocomma l ->
  split_on 44 (join_with 44 l) = l.
Proof.
  intros l. induction l as [|x r IH]; intros Hne H; [congruence|].
  inversion H as [|? ? Hx Hr]; subst.
  destruct r as [|y r'].
  - cbn [join_with]. apply split_on_nocomma. exact Hx.
  - change (join_with 44 (x :: y :: r')) with (x ++ 44 :: join_with 44 (y :: r')).
    rewrite split_on_app_comma by exact Hx. rewrite IH; [reflexivity | discriminate | exact Hr].
Qed.

Lemma split_on_parts_nocomma : forall s, Forall nocomma (split_on 44 s).
Proof.
  intros s. induction s as [|c r IH]; cbn [split_on].
  - constructor; [|constructor]. intros I. exact I.
  - destruct (Nat.eqb_spec c 44) as [->|Hc].
    + constructor; [|exact IH]. intros I. exact I.
    + destruct (split_on 44 r) as [|h t]; [constructor; [|constructor]|].
      * intros [I|I]; [congruence | exact I].
      * inversion IH as [|? ? Hh Ht]; subst. constructor; [|exact Ht].
        intros [I|I]; [congruence | exact (Hh I)].
Qed.

Lemma strip_cons : forall c r, strip (c :: r) = if ignored c then strip r else c :: strip r.
Proof. intros c r. unfold strip. cbn [filter]. destruct (ignored c); reflexivity. Qed.

Lemma strip_split : forall s, split_on 44 (strip s) = map strip (split_on 44 s).
Proof.
  intros s. induction s as [|c r IH]; [reflexivity|].
  cbn [split_on]. destruct (Nat.eqb_spec c 44) as [->|Hc].
  - change (strip (44 :: r)) with (44 :: strip r). cbn [split_on Nat.eqb map].
    rewrite IH. reflexivity.
  - pose proof (split_on_nonempty 44 r) as NE.
    destruct (split_on 44 r) as [|h t] eqn:E; [congruence|].
    cbn [map]. rewrite !strip_cons.
    destruct (ignored c).
    + rewrite IH. reflexivity.
    + cbn [split_on]. apply Nat.eqb_neq in Hc. rewrite Hc, IH. reflexivity.
Qed.

Lemma split_commas_split_on : forall s cur,
  split_commas s cur =
  match split_on 44 s with h :: t => (rev cur ++ h) :: t | [] => [rev cur] end.
Proof.
  intros s. induction s as [|c r IH]; intros cur; cbn [split_commas split_on].
  - rewrite app_nil_r. reflexivity.
  - pose proof (split_on_nonempty 44 r) as NE.
    destruct (Nat.eqb c 44).
    + rewrite app_nil_r, IH. destruct (split_on 44 r); [congruence | reflexivity].
    + rewrite IH. destruct (split_on 44 r) as [|h t]; [congruence|].
      cbn [rev]. rewrite <- app_assoc. reflexivity.
Qed.

Lemma split_commas_nil : forall s, split_commas s [] = split_on 44 s.
Proof.
  intros s. rewrite split_commas_split_on.
  pose proof (split_on_nonempty 44 s). destruct (split_on 44 s); [congruence | reflexivity].
Qed.

Lemma parse_comps_ext : forall (f g : bytes -> bytes) l,
  (forall p, parse_comp (f p) = parse_comp (g p)) ->
  parse_comps (map f l) = parse_comps (map g l).
Proof.
  intros f g l H. induction l as [|x r IH]; [reflexivity|].
  cbn [map parse_comps]. rewrite H, IH. reflexivity.
Qed.

(** * theorems about the whole range string *)

Theorem pad_small_width : forall s w, (w < 2)%Z -> pad_frame_range s w = s.
Proof.
  intros s w H. unfold pad_frame_range.
  destruct (Z.ltb_spec w 2); [reflexivity | lia].
Qed.

Lemma pad_frame_range_wide : forall s w, (2 <= w)%Z ->
  pad_frame_range s w = join_with 44 (map (pad_comp w) (split_on 44 s)).
Proof.
  intros s w H. unfold pad_frame_range.
  destruct (Z.ltb_spec w 2); [lia|].
  change c_comma with 44. f_equal. apply map_ext. intros p. apply pad_part_pad_comp.
Qed.

Theorem pad_components : forall s w, (2 <= w)%Z ->
  split_on c_comma (pad_frame_range s w) = map (pad_comp w) (split_on c_comma s).
Proof.
  intros s w H. rewrite pad_frame_range_wide by exact H. change c_comma with 44.
  apply split_join.
  - pose proof (split_on_nonempty 44 s). destruct (split_on 44 s); [congruence | discriminate].
  - pose proof (split_on_parts_nocomma s) as F. induction F; cbn [map]; constructor.
    + apply pad_comp_nocomma. assumption.
    + assumption.
Qed.

Theorem pad_idempotent : forall s w,
  pad_frame_range (pad_frame_range s w) w = pad_frame_range s w.
Proof.
  intros s w. destruct (Z.lt_ge_cases w 2) as [L|L].
  - rewrite !pad_small_width by exact L. reflexivity.
  - rewrite (pad_frame_range_wide (pad_frame_range s w)) by exact L.
    pose proof (pad_components s w L) as C. change c_comma with 44 in C. rewrite C.
    rewrite map_map. rewrite (pad_frame_range_wide s) by exact L. f_equal.
    apply map_ext. intros p. apply pad_comp_idem.
Qed.

Lemma pad_preserves_gparse : forall s w,
  gparse (strip (pad_frame_range s w)) = gparse (strip s).
Proof.
  intros s w. destruct (Z.lt_ge_cases w 2) as [L|L].
  - rewrite pad_small_width by exact L. reflexivity.
  - unfold gparse. rewrite !split_commas_nil, !strip_split.
    pose proof (pad_components s w L) as C. change c_comma with 44 in C. rewrite C.
    rewrite map_map. apply parse_comps_ext. intros p. apply pad_comp_parse.
Qed.

Theorem pad_preserves_parse : forall s w, spec_frames (pad_frame_range s w) = spec_frames s.
Proof.
  intros s w. unfold spec_frames. rewrite pad_preserves_gparse. reflexivity.
Qed.

Print Assumptions pad_small_width.
Print Assumptions pad_components.
Print Assumptions pad_comp_wide_enough.
Print Assumptions pad_comp_wide_enough2.
Print Assumptions pad_comp_wide_enough4.
Print Assumptions pad_idempotent.
Print Assumptions pad_preserves_parse.
Print Assumptions pad_numerals_wide.
